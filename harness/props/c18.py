"""C18 — date serials and date functions follow the 1900 date system (DESIGN.md §4 C18)."""
import datetime
import json
import math
import multiprocessing
import os
import subprocess
from fractions import Fraction

import common
from common import Result, parse_kv, same_value

LEVEL_TEXT = (
    'Lean theorems over a statement-by-statement model of xlfunctions/utils.py and date.py against the 1900 '
    'date system on the Gregorian calendar: the civil calendar conversion is a bijection on all of Z (arithmetic '
    'proof: a 400-row year table plus linear arithmetic), serial<->date is a monotone bijection on whole days with '
    'the anchors 1, 59, 61; YEAR/MONTH/DAY/WEEKDAY (every return type, table obligation on the numbering tables obtained by '
    'probing the running WEEKDAY)/ISOWEEKNUM of every serial 1..2958465 are the Gregorian fields; DATE inverse and carry; '
    'EDATE/EOMONTH clipping; DAYS; DATEDIF D/M/Y; YEARFRAC bases 2 and 3; the fraction of a serial is the time of '
    'day. Partial: YEARFRAC bases 0/4 away from 28 February, basis 1 inside a common year; datetime->serial '
    'only at midnight (D45). The model is tied to the running code by a differential run: every serial in the '
    'thorough tier, (y,m,d) triples far out of range, month offsets, all ordered pairs of sampled dates, '
    'formulas through ModelCompiler/Evaluator, and the statement\'s identities evaluated as whole formulas '
    '(=, <>, <, <=, >, >=, -, + between DATE/EDATE/EOMONTH/DAYS results, serial cells and literals, day '
    'differences around 59/60/61 and large ones) and by typed calls of OP_SUB/OP_ADD/OP_EQ/OP_NE/OP_LT/OP_GT/OP_GE.')
LEVEL_NOTE = (
    'Trusted: Lean kernel (axioms propext, Classical.choice, Quot.sound), the hand-written model (validated by '
    'correspondence, not proved equal to the Python), Python datetime/dateutil/yearfrac as modelled by hand, '
    'IEEE rounding (results compared exactly where double arithmetic is exact, else within 4 ulp). Known findings: '
    'D45 (time of day in datetime_to_number), D1803 (30/360 on 28 February), D1804 (basis 1 is AFB, not Excel). '
    'Fixed in /repo and guarded by this check: D44, D46/D56, D47, D48, D1801, D1802, D1805.')
DESIGN_REF = '§4 C18'

# theorems of the integrated pipeline model (Props/X01.lean) that carry this property's theorems to formula TEXTS in a
# compiled workbook; re-built and audited with this check (harness/common.prepare: soft obligations)
TRANSPORT = ('XlVerif.Props.X01', ['X01_DATE_inverse'])
EXTRA_EXTRACTORS = ('c18_date',)

TRUSTED = [
    'Lean 4.33 kernel; axioms propext, Classical.choice, Quot.sound only',
    'hand-written model lean/XlVerif/Model/C18.lean of xlfunctions/utils.py and xlfunctions/date.py, tied to the '
    'code by this correspondence run (not proved equal to the Python)',
    'Python datetime (proleptic Gregorian ordinal, isocalendar, OverflowError/ValueError outside years 1..9999), '
    'dateutil.relativedelta (month carry, day clipping), dateutil.rrule (daily count), yearfrac 0.4.8 '
    '(30e360, 30e360_matu, act_afb): hand models of the part used',
    'harness/extractors/c18_date.py: the WEEKDAY tables are observed behaviour (WEEKDAY called on a known Monday..Sunday '
    'for the omitted and every candidate return type -3..40, 100, 255, 1000), not source text; that one week stands '
    'for all weeks is cross-checked by exercising every documented return type on every serial',
    'IEEE-754 rounding and microsecond rounding of timedelta are not modelled: time-of-day inputs are multiples '
    'of 1/128 day (whole seconds, exact in binary), quotients are compared within 4 ulp',
    'argument coercion by validate_args is modelled in C08; here arguments arrive as int, float or datetime',
    'the operator functions (OP_SUB, OP_ADD, comparisons) between a DateTime and a Number are not modelled in Lean: '
    'they are checked against integer arithmetic on the serials (a serial IS the date in the 1900 system)',
]
ASSUMPTIONS = [
    'serial 60 (Excel\'s fictitious 1900-02-29) and serials outside 1..2958465 are outside every clause of the '
    'statement: compared code-vs-model only',
    'results outside 1900-01-01..9999-12-31 (DATE/EDATE/EOMONTH overflowing year 9999) are outside the '
    'statement; results before 1900-01-01 must be an error value',
    'DAYS, DATEDIF "D" and date subtraction/comparison identities over a pair that straddles the fictitious '
    '29 February 1900 are not compared with the reference (the statement does not say whether that day counts)',
    'DATEDIF units MD, YM, YD and unknown units, DATEDIF with start > end, YEARFRAC with a non-whole basis: '
    'statement silent, compared code-vs-model only',
    'YEARFRAC bases 0 and 4 are compared where the US and European conventions coincide with the plain count: '
    'no day of month 29-31 and no date that is the last day of February',
    'YEARFRAC basis 1 is compared with Excel\'s actual/actual within 0.001 ("to three decimals")',
    'non-integer DATE/EDATE/WEEKDAY arguments are truncated toward zero (as Excel does for positive values)',
]

EPOCH_ORD = datetime.date(1899, 12, 31).toordinal()
MAXSER = 2958465
ALL_TYPES = (1, 2, 3, 11, 12, 13, 14, 15, 16, 17)
OMIT = Ellipsis   # picklable singleton: "argument omitted"


class BigSet(set):
    """a set plus a counter for cases that are distinct by construction (every serial of a range)"""

    def __init__(self, *a):
        super().__init__(*a)
        self.extra = 0

    def __len__(self):
        return set.__len__(self) + self.extra

    def __ior__(self, other):
        set.__ior__(self, other)
        self.extra += getattr(other, 'extra', 0)
        return self


# ---------------------------------------------------------------------------------- reference (Python datetime)

def date_of_serial(n):
    """calendar date of a whole serial 1..2958465, n != 60, by Python's datetime (independent of the code)"""
    return datetime.date.fromordinal(EPOCH_ORD + (n if n < 60 else n - 1))


def serial_of_date(d):
    k = d.toordinal() - EPOCH_ORD
    return k + 1 if k >= 60 else k


def weekday_num(rt, iso):
    if rt == 1:
        return iso % 7 + 1
    if rt == 2:
        return iso
    if rt == 3:
        return iso - 1
    if 11 <= rt <= 17:
        return (iso - (rt - 10)) % 7 + 1
    return None


def pyref_fields(n):
    d = date_of_serial(n)
    iso = d.isoweekday()
    vals = [d.year, d.month, d.day, d.isocalendar()[1], weekday_num(1, iso)] + [weekday_num(k, iso) for k in ALL_TYPES]
    return '|'.join(f'I:{v}' for v in vals)


# ---------------------------------------------------------------------------------- wire

def wire(a):
    if a is OMIT:
        return 'O'
    if isinstance(a, bool):
        raise ValueError('bool argument')
    if isinstance(a, int):
        return f'I:{a}'
    if isinstance(a, float):
        return 'F:' + common.w_frac(Fraction(a))
    if isinstance(a, datetime.datetime):
        day = a.toordinal() - datetime.date(1900, 1, 1).toordinal()
        sec = Fraction(a.hour * 3600 + a.minute * 60 + a.second) + Fraction(a.microsecond, 10 ** 6)
        return f'P:{day}:{sec.numerator}/{sec.denominator}'
    if isinstance(a, str):
        return common.w_text(a)
    raise ValueError(f'cannot encode {a!r}')


def has_time(a):
    if isinstance(a, float):
        return a != math.floor(a)
    if isinstance(a, datetime.datetime):
        return (a.hour, a.minute, a.second, a.microsecond) != (0, 0, 0, 0)
    return False


_FAST = {}


def fast_call(fn, *args):
    """call the real code; Number(int) results take a short cut around common.canon"""
    try:
        r = fn(*args)
    except RecursionError:
        return 'X:RecursionError'
    except Exception as exc:  # noqa: BLE001
        return 'X:' + type(exc).__name__
    cls = _FAST.get('Number')
    if cls is None:
        from xlcalculator.xlfunctions import func_xltypes
        cls = _FAST['Number'] = func_xltypes.Number
    if type(r) is cls and type(r.value) is int:
        return f'I:{r.value}'
    return common.canon(r)


def norm_x(w):
    """exception classes the model does not name individually"""
    if w.startswith('X:') and w[2:] not in ('TypeError', 'ValueError', 'ZeroDivisionError', 'OverflowError',
                                            'RecursionError', 'KeyError', 'IndexError', 'AttributeError',
                                            'AssertionError', 'InvalidOperation', 'RuntimeError', 'SyntaxError'):
        return 'X:Other'
    return w


def real_fields(F, n):
    out = [fast_call(F['YEAR'], n), fast_call(F['MONTH'], n), fast_call(F['DAY'], n),
           fast_call(F['ISOWEEKNUM'], n), fast_call(F['WEEKDAY'], n)]
    W = F['WEEKDAY']
    for k in ALL_TYPES:
        out.append(fast_call(W, n, k))
    return '|'.join(out)


def real_op(F, op, args):
    from xlcalculator.xlfunctions import func_xltypes as ft
    if op == 'FIELDS':
        return real_fields(F, args[0])
    if op == 'WEEKDAY':
        if args[1] is OMIT:
            return fast_call(F['WEEKDAY'], args[0])
        return fast_call(F['WEEKDAY'], args[0], args[1])
    if op == 'N2D':
        return norm_x(common.call_real(lambda v: ft.DateTime.cast(v), args[0]))
    if op == 'D2N':
        return norm_x(common.call_real(lambda d: float(ft.Number.cast(ft.DateTime(d))), args[0]))
    return norm_x(fast_call(F[op], *args))


def num_of(w):
    """exact rational of an I:/F:/D: wire value"""
    if w[:2] in ('I:', 'F:', 'D:') and '|' not in w:
        return common.un_frac(w[2:]) if w[:2] != 'I:' else Fraction(int(w[2:]))
    return None


def ulp_close(real_w, model_w, ulps=4):
    """numbers equal, or both doubles within a few ulp of the model's exact rational"""
    if real_w == model_w:
        return True
    a, b = num_of(real_w), num_of(model_w)
    if a is None or b is None:
        return False
    if real_w[0] != model_w[0] and not (real_w[0] in 'IF' and model_w[0] in 'IF'):
        return False
    if a == b:
        return True
    fb = float(b)
    if Fraction(fb) == a:
        return True
    return abs(float(a) - fb) <= ulps * math.ulp(fb if fb != 0 else 1.0)


def meets(op, args, real, spec):
    """does the real result meet the reference?  spec: wire value | ERR | '-' (not determined)"""
    if spec == '-':
        return True
    if spec == 'ERR':
        return real.startswith('E:')
    if op == 'FIELDS':
        return real == spec
    if op == 'YEARFRAC' and args[2] == 1:
        a, b = num_of(real), num_of(spec)
        return a is not None and abs(a - b) < Fraction(1, 1000)
    return ulp_close(real, spec)


# ---------------------------------------------------------------------------------- workers

def _driver_batch(lines):
    exe = common.driver_exe('C18')
    data = '\n'.join(lines) + '\n'
    p = subprocess.run([str(exe)], cwd=str(common.LEAN), input=data, stdout=subprocess.PIPE,
                       stderr=subprocess.PIPE, text=True, timeout=3600)
    out = p.stdout.split('\n')
    if out and out[-1] == '':
        out.pop()
    if len(out) != len(lines):
        raise RuntimeError(f'driver returned {len(out)} lines for {len(lines)} requests: {p.stderr[:500]}')
    return out


def _fields_chunk(serials):
    """every serial of the chunk through YEAR MONTH DAY ISOWEEKNUM WEEKDAY(all types): real vs Lean spec vs
    Python datetime reference vs Lean model"""
    from xlcalculator.xlfunctions import xl
    import xlcalculator  # noqa: F401
    F = xl.FUNCTIONS
    serials = list(serials)
    resp = _driver_batch([f'C18\tFIELDS\tI:{n}' for n in serials])
    out = {'evals': 0, 'indomain': 0, 'viol': [], 'drift': [], 'outcome': {}, 'sample': None}
    for n, r in zip(serials, resp):
        d = parse_kv(r)
        if 'impl' not in d:
            raise RuntimeError(f'driver: {r!r} for serial {n}')
        impl, spec = d['impl'], d['spec']
        real = real_fields(F, n)
        out['evals'] += 15
        indomain = 1 <= n <= MAXSER and n != 60
        if indomain != (spec != '-'):
            raise RuntimeError(f'Lean reference undefined/defined unexpectedly at serial {n}: {spec}')
        if indomain:
            ref = pyref_fields(n)
            if ref != spec:
                raise RuntimeError(f'Lean reference and Python datetime disagree at serial {n}: {spec} vs {ref}')
            out['indomain'] += 1
            if real != spec:
                if len(out['viol']) < 5:
                    out['viol'].append({'what': 'YEAR|MONTH|DAY|ISOWEEKNUM|WEEKDAY(default,1,2,3,11..17) of a serial '
                                        'differ from the Gregorian fields of its date',
                                        'input': {'op': 'FIELDS', 'args': [n]}, 'expected': spec, 'got': real})
                else:
                    out['viol'].append(None)
            elif real != impl and len(out['drift']) < 5:
                out['drift'].append({'op': 'FIELDS', 'args': [n], 'impl_model': impl, 'real': real})
        else:
            if '|'.join(norm_x(x) for x in real.split('|')) != impl and len(out['drift']) < 5:
                out['drift'].append({'op': 'FIELDS', 'args': [n], 'impl_model': impl, 'real': real})
        k = 'value' if real.startswith('I:') and '|E:' not in real and '|X:' not in real else \
            ('crash' if 'X:' in real else 'error')
        out['outcome'][k] = out['outcome'].get(k, 0) + 1
        if out['sample'] is None and indomain:
            out['sample'] = {'op': 'FIELDS', 'serial': n, 'real': real, 'spec': spec}
    return out


def _ops_chunk(cases):
    """generic (op, args) cases: returns per case (real, impl, spec)"""
    from xlcalculator.xlfunctions import xl
    import xlcalculator  # noqa: F401
    F = xl.FUNCTIONS
    lines = ['\t'.join(['C18', op] + [wire(a) for a in args]) for op, args in cases]
    resp = _driver_batch(lines)
    out = []
    for (op, args), line, r in zip(cases, lines, resp):
        d = parse_kv(r)
        if 'impl' not in d:
            raise RuntimeError(f'driver: {r!r} for {line!r}')
        out.append((real_op(F, op, args), d['impl'], d['spec']))
    return out


def chunks(seq, size):
    for i in range(0, len(seq), size):
        yield seq[i:i + size]


# ---------------------------------------------------------------------------------- generators

def boundary_serials(rng, thorough):
    s = set(range(-3, 501))
    s.update([MAXSER - k for k in range(0, 400)] + [MAXSER + 1, MAXSER + 2, 10 ** 7, -693594, -693595, -693596])
    for y in range(1900, 10000):
        s.add(serial_of_date(datetime.date(y, 1, 1)))
        s.add(serial_of_date(datetime.date(y, 12, 31)))
        if y % 4 == 0 or y % 100 in (1, 99):
            s.add(serial_of_date(datetime.date(y, 2, 28)))
            s.add(serial_of_date(datetime.date(y, 3, 1)))
            s.add(serial_of_date(datetime.date(y, 3, 1)) - 1)
    years = set(range(1900, 1906)) | set(range(1998, 2002)) | set(range(2019, 2027))
    for c in range(2000, 10000, 100):
        years.update((c - 1, c, c + 1))
    for y in sorted(years):
        if y > 9999:
            continue
        for m in range(1, 13):
            first = datetime.date(y, m, 1)
            s.add(serial_of_date(first))
            if serial_of_date(first) > 1:
                s.add(serial_of_date(first) - 1)
    for _ in range(1500):
        s.add(rng.randint(1, MAXSER))
    s.discard(10 ** 7)
    return sorted(s) + [10 ** 7]


def sample_dates(rng, count):
    """whole serials: month ends, 28/29 February, early 1900, the last days, random"""
    base = [1, 2, 31, 32, 58, 59, 61, 62, 90, 366, 367, 368, 425, 426, 1462, MAXSER, MAXSER - 1, MAXSER - 30,
            MAXSER - 365]
    for (y, m, d) in [(2020, 1, 31), (2020, 2, 28), (2020, 2, 29), (2020, 3, 1), (2020, 3, 31), (2021, 2, 28),
                      (2021, 1, 31), (2021, 3, 1), (2012, 1, 1), (2012, 7, 30), (2012, 3, 1), (2012, 12, 31),
                      (2008, 1, 1), (2015, 4, 20), (2000, 2, 29), (2000, 1, 1), (2100, 2, 28), (2100, 3, 1),
                      (1999, 12, 31), (2024, 1, 1), (2025, 1, 1), (2024, 2, 29), (2023, 8, 30), (2023, 8, 31),
                      (2023, 2, 15), (2019, 6, 15), (2016, 2, 28), (2016, 3, 15), (1904, 2, 29), (1950, 1, 1)]:
        base.append(serial_of_date(datetime.date(y, m, d)))
    out = list(dict.fromkeys(base))
    while len(out) < count:
        r = rng.random()
        if r < 0.35:
            y, m = rng.randint(1900, 2200), rng.randint(1, 12)
            last = (datetime.date(y + (m == 12), m % 12 + 1, 1) - datetime.timedelta(days=1)).day
            d = rng.choice([1, 15, 27, 28, 29, 30, 31, last])
            d = min(d, last)
            n = serial_of_date(datetime.date(y, m, d))
        elif r < 0.6:
            n = rng.randint(1, 60000)
        else:
            n = rng.randint(1, MAXSER)
        if n != 60 and n not in out:
            out.append(n)
    return out[:count]


def gen_ops(ctx, big):
    rng = ctx.rng
    cases = []
    # --- serial <-> datetime, with time of day in 1/128 day steps (whole seconds, exact)
    fr = [0.0, 0.5, 0.25, 0.75, 1 / 128, 127 / 128, 0.125, 3 / 64]
    ns = [1, 2, 58, 59, 61, 62, 100, 43831, 44000, 36526, 73050, MAXSER, MAXSER - 1, 0, 60, -1, MAXSER + 1]
    ns += [rng.randint(1, MAXSER) for _ in range(300 if big else 40)]
    for n in ns:
        for f in fr:
            cases.append(('N2D', (n + f if f else n,)))
    for n in ns:
        if 1 <= n <= MAXSER and n != 60:
            d = date_of_serial(n)
            for secs in (0, 43200, 21600, 675, 86400 - 675, 1, 59, 3600):
                cases.append(('D2N', (datetime.datetime(d.year, d.month, d.day) + datetime.timedelta(seconds=secs),)))
    # --- WEEKDAY: undocumented / fractional return types
    for n in [1, 59, 61, 43831, 43836, MAXSER] + [rng.randint(1, MAXSER) for _ in range(60 if big else 10)]:
        for rt in [OMIT, 0, 4, 5, 10, 18, 21, -1, 1.9, 2.5, 3.0, 11.7, 17.2, 100]:
            cases.append(('WEEKDAY', (n, rt)))
        cases.append(('WEEKDAY', (n + 0.75, 2)))
    # --- DATE: months and days far outside their ranges
    ys = [0, 1, 99, 1899, 1900, 1901, 1904, 1999, 2000, 2020, 2021, 2024, 2100, 9998, 9999, -1, 10000, 30000]
    ms = [-50000, -25, -13, -12, -11, -1, 0, 1, 2, 3, 11, 12, 13, 14, 24, 25, 37, 120, 1200, 50000, 97000]
    ds = [-800000, -366, -31, -1, 0, 1, 28, 29, 30, 31, 32, 59, 60, 61, 365, 366, 367, 400, 1000, 36525, 800000,
          2958465, 3000000]
    for y in ys:
        for m in ms:
            for d in ([0, 1, 31, 400] if not big else ds):
                cases.append(('DATE', (y, m, d)))
        for d in ds:
            cases.append(('DATE', (y, 1, d)))
            cases.append(('DATE', (y, 2, d)))
    for _ in range(60000 if big else 2500):
        y = rng.choice([rng.randint(0, 9999), rng.randint(1900, 2100), rng.choice(ys)])
        m = rng.choice([rng.randint(-30, 40), rng.randint(-100000, 100000), rng.randint(1, 12)])
        d = rng.choice([rng.randint(-40, 70), rng.randint(-3000000, 3000000), rng.randint(1, 31)])
        cases.append(('DATE', (y, m, d)))
    for t in [(2020.9, 1.9, 1.9), (2020.0, 1.0, 1.0), (1999.5, 12.99, 31.5), (0.5, 1, 1), (9999.9, 12, 31),
              (2020, -0.5, 1), (2020, 1, -0.5), (2020, -1.5, -1.5), (1900.2, 1, 1), (99.9, 3, 1)]:
        cases.append(('DATE', t))
    # DATE(YEAR n, MONTH n, DAY n) = n
    for n in sample_dates(rng, 3000 if big else 400) + list(range(1, 130)):
        if n == 60:
            continue
        d = date_of_serial(n)
        cases.append(('DATE', (d.year, d.month, d.day)))
    # --- EDATE / EOMONTH
    starts = sample_dates(rng, 300 if big else 70)
    offs = [-25000, -1300, -121, -25, -24, -13, -12, -11, -2, -1, 0, 1, 2, 11, 12, 13, 24, 25, 121, 1300, 25000]
    for n in starts:
        for k in offs + [rng.randint(-2000, 2000) for _ in range(12 if big else 3)]:
            cases.append(('EDATE', (n, k)))
            cases.append(('EOMONTH', (n, k)))
    for n, k in [(32, -1), (1, 0), (1, -1), (31, -1), (59, 1), (61, -1), (61, -2), (15, -1), (MAXSER, 0),
                 (MAXSER, 1), (MAXSER - 31, 1), (43861, 1.9), (43861, -1.9), (43861.5, 1), (43861.25, 0),
                 (44000 + 1 / 128, 2)]:
        cases.append(('EDATE', (n, k)))
        cases.append(('EOMONTH', (n, k)))
    # --- ISOWEEKNUM with a time of day (D45), via datetime arguments too
    for n in [43831, 43836, 61, MAXSER] + [rng.randint(61, MAXSER) for _ in range(40 if big else 8)]:
        cases.append(('ISOWEEKNUM', (n + 0.5,)))
        cases.append(('ISOWEEKNUM', (n + 1 / 128,)))
        d = date_of_serial(n)
        cases.append(('ISOWEEKNUM', (datetime.datetime(d.year, d.month, d.day),)))
        cases.append(('ISOWEEKNUM', (datetime.datetime(d.year, d.month, d.day, 6, 0, 0),)))
    # --- DAYS / DATEDIF / YEARFRAC: all ordered pairs of sampled dates
    pts = sample_dates(rng, 400 if big else 56)
    for a in pts:
        for b in pts:
            cases.append(('DAYS', (b, a)))
            for u in ('D', 'M', 'Y'):
                # "D" (like MD, YD) lists one datetime per day with rrule: keep the spans moderate
                if u == 'D' and b - a > 40000:
                    continue
                cases.append(('DATEDIF', (a, b, u)))
            for basis in (0, 1, 2, 3, 4):
                cases.append(('YEARFRAC', (a, b, basis)))
    small = pts[:24]
    for a in small:
        for b in small:
            for u in ('d', 'm', 'y', 'MD', 'YM', 'YD', 'md', 'X', ''):
                if u == 'd' and b - a > 40000:
                    continue
                cases.append(('DATEDIF', (a, b, u)))
            for basis in (5, -1, 0.5, 1.0, 2.0):
                cases.append(('YEARFRAC', (a, b, basis)))
    for a, b in [(43831.5, 43800), (43831, 43800.25), (43831.5, 43831.25), (59.5, 1), (MAXSER + 0.5, 1)]:
        cases.append(('DAYS', (a, b)))
    da, db = datetime.datetime(2020, 1, 1, 12, 0, 0), datetime.datetime(2019, 12, 1)
    cases.append(('DAYS', (da, db)))
    cases.append(('DAYS', (datetime.datetime(2020, 1, 1), db)))
    cases.append(('YEARFRAC', (db, datetime.datetime(2020, 1, 1), 2)))
    cases.append(('DATEDIF', (db, datetime.datetime(2020, 1, 1), 'M')))
    cases.append(('DATEDIF', (1, MAXSER, 'D')))      # one full-length daily recurrence
    return cases


def corpus_cases():
    out = []
    cdir = common.CORPUS / 'C18'
    if cdir.is_dir():
        for path in sorted(cdir.glob('*.json')):
            for e in json.loads(path.read_text()):
                args = []
                for a in e['args']:
                    if a is None:
                        args.append(OMIT)
                    elif isinstance(a, dict) and 'dt' in a:
                        args.append(datetime.datetime(*a['dt']))
                    else:
                        args.append(a)
                out.append((e['op'], tuple(args)))
    return out


def show_arg(a):
    if a is OMIT:
        return '<omitted>'
    if isinstance(a, datetime.datetime):
        return a.isoformat()
    return a


# ---------------------------------------------------------------------------------- classification

def is_feb28(n):
    if isinstance(n, int) and 1 <= n <= MAXSER and n != 60:
        d = date_of_serial(n)
        return d.month == 2 and d.day == 28
    return False


def known_of(op, args, real, impl, spec):
    """id of the listed finding this failing input belongs to (it must also reproduce the modelled wrong
    behaviour), else None"""
    if not ulp_close(real, impl, 16 if op == 'YEARFRAC' else 4):
        return None
    if op in ('D2N', 'DAYS', 'ISOWEEKNUM', 'EDATE', 'EOMONTH', 'DATEDIF', 'YEARFRAC') and \
            any(has_time(a) for a in args):
        return 'D45'
    if op == 'YEARFRAC' and args[2] in (0, 4) and (is_feb28(args[0]) or is_feb28(args[1])):
        return 'D1803'
    if op == 'YEARFRAC' and args[2] == 1:
        return 'D1804'
    return None



# ---------------------------------------------------------------------------------- identities as formulas

GAPS = [0, 1, 2, 7, 28, 29, 30, 31, 57, 58, 59, 60, 61, 62, 63, 70, 120, 365, 366, 1000, 36525, 146097,
        -1, -2, -31, -58, -59, -60, -61, -62, -365, -1000]


def add_months(d, k):
    idx = d.year * 12 + (d.month - 1) + k
    y, m = divmod(idx, 12)
    m += 1
    if not 1 <= y <= 9999:
        return None
    last = (datetime.date(y + (m == 12), m % 12 + 1, 1) - datetime.timedelta(days=1)).day if (y, m) != (9999, 12) else 31
    return datetime.date(y, m, min(d.day, last))


def in_system(n):
    return 1 <= n <= MAXSER and n != 60


def identity_rows(rng, big):
    """rows (a, b): two whole serials on the same side of the fictitious 29 Feb 1900; every gap a-b of GAPS
    (the differences around 59/60/61 are where a day count can be mistaken for a serial) plus random ones"""
    anchors = [1, 2, 30, 59, 61, 62, 100, 121, 130, 366, 1462, 36526, 36585, 43831, 43890, 43891, 44255, 45351,
               73051, MAXSER, MAXSER - 60, MAXSER - 61]
    if not big:
        anchors = [1, 59, 61, 62, 121, 366, 43831, 43890, 44255, MAXSER, MAXSER - 60]
    anchors += [rng.randint(61, 80000) for _ in range(30 if big else 2)]
    anchors += [rng.randint(61, MAXSER) for _ in range(30 if big else 2)]
    rows = []
    for a in anchors:
        gaps = GAPS + [rng.randint(0, 70) for _ in range(6 if big else 2)] + [rng.randint(-3000, 3000000)]
        if not big:
            gaps = [g for g in gaps if g in (0, 1, 31, 59, 60, 61, 62, 366, -1, -60, -61, 36525)] + gaps[-3:]
        for g in gaps:
            b = a - g
            if in_system(a) and in_system(b) and (a < 60) == (b < 60):
                rows.append((a, b))
    return list(dict.fromkeys(rows))


def identity_formulas(a, b, r, flt):
    """the statement's identities about the serials a (cell A<r>) and b (cell B<r>), written as formulas;
    (formula, expected wire value) — expected values from Python's datetime and integer arithmetic only"""
    da, db = date_of_serial(a), date_of_serial(b)
    A, B = f'A{r}', f'B{r}'
    DA = f'DATE({da.year},{da.month},{da.day})'
    DB = f'DATE({db.year},{db.month},{db.day})'
    DYA = f'DATE(YEAR({A}),MONTH({A}),DAY({A}))'
    t, f_ = 'B:1', 'B:0'
    g = a - b

    def bw(x):
        return t if x else f_
    out = [
        (f'={DYA}={A}', t), (f'={A}={DYA}', t), (f'={DYA}<>{A}', f_), (f'={A}<>{DYA}', f_),
        (f'={DYA}-{A}', 'I:0'), (f'={A}-{DYA}', 'I:0'), (f'={DYA}<{A}', f_), (f'={DYA}>={A}', t),
        (f'={DA}={a}', t), (f'={DA}<>{a}', f_), (f'={DA}={a + 1}', f_), (f'={a}={DA}', t),
        (f'={DA}={A}', t), (f'={DA}={B}', bw(g == 0)), (f'={DA}<>{B}', bw(g != 0)),
        (f'={DA}<{B}', bw(a < b)), (f'={DA}<={B}', bw(a <= b)), (f'={DA}>{B}', bw(a > b)),
        (f'={A}>={DB}', bw(a >= b)), (f'={DA}={DB}', bw(g == 0)), (f'={DA}>{DB}', bw(a > b)),
        (f'=EDATE({A},0)={A}', t), (f'=EDATE({A},0)-{A}', 'I:0'), (f'=EOMONTH({A},0)>={A}', t),
        (f'=DAYS({A},{B})={A}-{B}', t), (f'=DAYS({A},{B})', f'I:{g}'), (f'={A}-{B}', f'I:{g}'),
        (f'={DA}-{DB}', f'I:{g}'), (f'={DA}-{B}', f'I:{g}'), (f'={A}-{DB}', f'I:{g}'),
        (f'={DA}-{b}', f'I:{g}'), (f'={a}-{DB}', f'I:{g}'), (f'={DA}-{B}=DAYS({A},{B})', t),
        (f'={DB}+{g}={A}', t) if g >= 0 else (f'={DB}-{-g}={A}', t),
        (f'={DB}+{A}-{B}', f'I:{a}'),
    ]
    last = (datetime.date(da.year + (da.month == 12), da.month % 12 + 1, 1) - datetime.timedelta(days=1)).day \
        if (da.year, da.month) != (9999, 12) else 31
    out.append((f'=EOMONTH({A},0)-{A}', f'I:{last - da.day}'))
    for k in (1, 2, -1, 12):
        e = add_months(da, k)
        if e is not None and e >= datetime.date(1900, 1, 1):
            se = serial_of_date(e)
            if (se < 60) == (a < 60):
                out.append((f'=EDATE({A},{k})-{A}', f'I:{se - a}'))
                out.append((f'=EDATE({A},{k})={se}', t))
    if flt:
        out.append((f'={DA}-{float(b)!r}', f'I:{g}'))
    return out


def typed_operator_cases(F, a, b):
    """the same differences and comparisons by typed direct calls of the operator functions: the left or
    right operand is what DATE/EDATE return, the other one a plain serial (int, float, Number)"""
    from xlcalculator.xlfunctions import func_xltypes as ft
    da, db = date_of_serial(a), date_of_serial(b)
    g = a - b
    DA = F['DATE'](da.year, da.month, da.day)
    DB = F['DATE'](db.year, db.month, db.day)
    EA = F['EDATE'](a, 0)
    out = []
    for left in (DA, EA):
        for right in (b, float(b), ft.Number(b)):
            out.append(('OP_SUB', left, right, f'I:{g}'))
            out.append(('OP_EQ', left, right, 'B:1' if g == 0 else 'B:0'))
            out.append(('OP_NE', left, right, 'B:0' if g == 0 else 'B:1'))
            out.append(('OP_LT', left, right, 'B:1' if a < b else 'B:0'))
            out.append(('OP_GE', left, right, 'B:1' if a >= b else 'B:0'))
    for left in (a, float(a), ft.Number(a)):
        out.append(('OP_SUB', left, DB, f'I:{g}'))
        out.append(('OP_EQ', left, DB, 'B:1' if g == 0 else 'B:0'))
        out.append(('OP_GT', left, DB, 'B:1' if a > b else 'B:0'))
    out.append(('OP_SUB', DA, DB, f'I:{g}'))
    out.append(('OP_EQ', DA, DB, 'B:1' if g == 0 else 'B:0'))
    if in_system(b + 0) and g >= 0:
        out.append(('OP_ADD', DB, g, f'I:{a}'))
        out.append(('OP_ADD', g, DB, f'I:{a}'))
        out.append(('OP_SUB', DA, g, f'I:{b}'))
    return out


def run_identities(ctx, res, big):
    """section 4: the identities of the statement evaluated AS FORMULAS in a compiled model (operators between
    date-function results, serial cells and literals) and by typed calls of the operator functions"""
    from xlcalculator.xlfunctions import xl
    from xlcalculator import ModelCompiler, Evaluator
    F = xl.FUNCTIONS
    rows = identity_rows(ctx.rng, big)
    nform = ntyped = 0
    for part in chunks(rows, 40):
        cells, checks = {}, []
        for i, (a, b) in enumerate(part):
            r = i + 1
            cells[f'Sheet1!A{r}'] = a
            cells[f'Sheet1!B{r}'] = b if i % 3 else float(b)
            for j, (formula, expect) in enumerate(identity_formulas(a, b, r, i % 2 == 0)):
                addr = f'Sheet1!{common_col(j + 3)}{r}'
                cells[addr] = formula
                checks.append((addr, formula, a, b, expect))
        ev = Evaluator(ModelCompiler().read_and_parse_dict(cells))
        for addr, formula, a, b, expect in checks:
            got = common.call_real(ev.evaluate, addr)
            nform += 1
            res.evaluations += 1
            res.nontrivial.add(formula + f'|{a}|{b}')
            if not same_value(got, expect):
                res.violations.append({'what': 'an identity of the 1900 date system does not hold as a formula',
                                       'input': {'formula': formula, 'cells': {'A': a, 'B': b}},
                                       'expected': expect, 'got': got})
    for a, b in rows[::(1 if big else 2)]:
        for name, left, right, expect in typed_operator_cases(F, a, b):
            got = common.call_real(F[name], left, right)
            ntyped += 1
            res.evaluations += 1
            if not same_value(got, expect):
                res.violations.append({'what': f'{name} between a date result and a serial is not the day arithmetic '
                                               'of the 1900 date system',
                                       'input': {'op': name, 'left': repr(left), 'right': repr(right),
                                                 'serials': [a, b]},
                                       'expected': expect, 'got': got})
    res.nontrivial.extra += ntyped
    res.count('identity_formulas', nform)
    res.count('typed_operator_calls', ntyped)
    res.count('identity_rows', len(rows))


def common_col(k):
    """spreadsheet column letters of a 1-based index"""
    s = ''
    while k:
        k, rem = divmod(k - 1, 26)
        s = chr(65 + rem) + s
    return s


def run(ctx):
    from xlcalculator.xlfunctions import xl
    import xlcalculator  # noqa: F401
    from xlcalculator import ModelCompiler, Evaluator
    res = Result()
    res.nontrivial = BigSet()
    big = ctx.tier == 'thorough' or ctx.widen
    listed = {e['id'] for e in ctx.known if e.get('status') == 'known'}
    res.rule = (
        'FIELDS: each whole serial through YEAR, MONTH, DAY, ISOWEEKNUM and WEEKDAY with the return type omitted '
        'and with each of 1,2,3,11..17 (15 calls; thorough: every serial 1..2958465, quick: all serials <= 500, every '
        'year boundary 1900..9999, the end of February of every leap and century year, month boundaries around '
        'centuries, the last 400 days, random ones); DATE on (y,m,d) with months/days far out of range; EDATE/EOMONTH '
        'on sampled month-end dates x month offsets; DAYS, DATEDIF D/M/Y and YEARFRAC bases 0..4 on all ordered pairs '
        'of sampled dates; serial<->datetime with times of day; real code vs the Lean reference (and vs Python\'s '
        'datetime for the fields) and vs the Lean model; identities: rows (a,b) of two serials with every gap of a '
        'fixed list (0,1,..,57..63,70,365,366,36525,146097, negatives) plus random gaps, ~37 formulas per row such '
        'as DATE(YEAR(A),MONTH(A),DAY(A))=A, EDATE(A,0)=A, EOMONTH(A,0)>=A, DAYS(A,B)=A-B, DATE(..)-DATE(..), '
        'DATE(..)-B, A-DATE(..), DATE(..)+k=A evaluated in a compiled model, and the same by typed operator calls '
        'with int/float/Number operands (expected values from Python datetime and integer arithmetic); '
        'non-trivial = distinct input inside the statement\'s domain (the reference determines the result)')
    nproc = min(16, os.cpu_count() or 4) if big else 4

    # ---- 0. replay of one stored failing input
    if getattr(ctx, 'replay', None):
        obj = json.loads(open(ctx.replay).read())
        inp = obj.get('input') or {}
        if 'op' not in inp:
            res.notes.append('the replay file names no single input (proof/correspondence break): running the tier')
        else:
            def dec(a):
                if a == '<omitted>':
                    return OMIT
                if isinstance(a, str) and len(a) >= 19 and a[4] == '-' and a[10] == 'T':
                    return datetime.datetime.fromisoformat(a)
                return a
            case = (inp['op'], tuple(dec(a) for a in inp['args']))
            real, impl, spec = _ops_chunk([case])[0]
            res.evaluations = 1
            res.rule = 'replay of one stored input'
            res.sample({'op': case[0], 'args': inp['args'], 'real': real, 'spec': spec, 'impl_model': impl})
            if spec != '-':
                res.nontrivial.add(repr(inp))
            if not meets(case[0], case[1], real, spec):
                fid = known_of(case[0], case[1], real, impl, spec)
                if fid in listed:
                    res.known.setdefault(fid, []).append(inp)
                else:
                    res.violations.append({'what': f'{case[0]} disagrees with the 1900 date system reference',
                                           'input': inp, 'expected': spec, 'got': real})
            return res

    # ---- 1. calendar fields of serials
    if big:
        serials = list(range(-5, MAXSER + 3)) + [10 ** 7, -693595, -693596]
        res.exhaustive = True
    else:
        serials = boundary_serials(ctx.rng, False)
    csize = 40000 if big else max(1000, len(serials) // (nproc * 3) + 1)
    parts = list(chunks(serials, csize))
    with multiprocessing.Pool(nproc) as pool:
        field_out = pool.map(_fields_chunk, parts, chunksize=1)
        # ---- 2. the other functions
        cases = corpus_cases() + gen_ops(ctx, big)
        op_parts = list(chunks(cases, 20000 if big else 4000))
        op_out = pool.map(_ops_chunk, op_parts, chunksize=1)
    nviol_fields = 0
    for o in field_out:
        res.evaluations += o['evals']
        res.nontrivial.extra += o['indomain']
        for v in o['viol']:
            nviol_fields += 1
            if v is not None and len([x for x in res.violations if x['input'].get('op') == 'FIELDS']) < 8:
                res.violations.append(v)
        res.drift.extend(o['drift'])
        for k, c in o['outcome'].items():
            res.count('FIELDS outcome:' + k, c)
        if o['sample']:
            res.sample(o['sample'], limit=3)
    res.count('FIELDS serials', len(serials))
    if nviol_fields:
        res.notes.append(f'{nviol_fields} serials with wrong calendar fields')

    flat = [x for part in op_out for x in part]
    for (op, args), (real, impl, spec) in zip(cases, flat):
        res.evaluations += 1
        res.count(op)
        res.count('outcome:' + ('error' if real.startswith('E:') else 'crash' if real.startswith('X:') else 'value'))
        shown = {'op': op, 'args': [show_arg(a) for a in args]}
        if spec != '-':
            res.nontrivial.add(op + repr(shown['args']))
        if op != 'FIELDS' and len(res.samples) < 12 and spec not in ('-',) and res.distribution[op] <= 2:
            res.sample({**shown, 'real': real, 'spec': spec})
        if not meets(op, args, real, spec):
            fid = known_of(op, args, real, impl, spec)
            if fid in listed:
                res.known.setdefault(fid, []).append(shown)
            else:
                res.violations.append({'what': f'{op} disagrees with the 1900 date system reference',
                                       'input': shown, 'expected': spec, 'got': real})
        elif not ulp_close(real, impl, 16 if op == 'YEARFRAC' else 4):
            res.drift.append({**shown, 'impl_model': impl, 'real': real})

    # ---- 3. the same through formulas (tokenizer, parser, FunctionNode, validate_args, Evaluator)
    via = 0
    fsample = []
    step = max(1, len(cases) // (3000 if big else 350))
    for op, args in cases[::step]:
        if op in ('N2D', 'D2N', 'FIELDS') or any(isinstance(a, datetime.datetime) or a is OMIT for a in args):
            continue
        fsample.append((op, args))
    for n in [1, 59, 61, 43831, MAXSER] + [ctx.rng.randint(1, MAXSER) for _ in range(60 if big else 12)]:
        fsample.extend([('YEAR', (n,)), ('MONTH', (n,)), ('DAY', (n,)), ('ISOWEEKNUM', (n,)), ('WEEKDAY', (n, OMIT))])
        fsample.extend(('WEEKDAY', (n, k)) for k in ALL_TYPES)
    for op, args in fsample:
        cells = {}
        refs = []
        for i, a in enumerate(args):
            if a is OMIT:
                continue
            if isinstance(a, str):
                refs.append('"' + a + '"')
            else:
                addr = f'Sheet1!{"ABCDEF"[i]}1'
                cells[addr] = a
                refs.append(f'{"ABCDEF"[i]}1')
        cells['Sheet1!Z1'] = f'={op}(' + ','.join(refs) + ')'
        direct = norm_x(fast_call(xl.FUNCTIONS[op], *[a for a in args if a is not OMIT]))

        def ev():
            m = ModelCompiler().read_and_parse_dict(dict(cells))
            return Evaluator(m).evaluate('Sheet1!Z1')
        got = norm_x(common.call_real(ev))
        via += 1
        res.evaluations += 1
        # an exception escaping a function is re-raised by the evaluator as RuntimeError
        if not ulp_close(got, direct) and not (got.startswith('X:') and direct.startswith('X:')):
            res.violations.append({'what': f'{op} through a formula differs from the direct call',
                                   'input': {'formula': cells['Sheet1!Z1'],
                                             'cells': {k: v for k, v in cells.items() if k != 'Sheet1!Z1'}},
                                   'expected': direct, 'got': got})
    # subtraction of dates gives day differences
    for a, b in [(43831, 43800), (61, 59), (MAXSER, 1), (44255, 43861)] + \
            [(ctx.rng.randint(61, MAXSER), ctx.rng.randint(61, MAXSER)) for _ in range(40 if big else 8)]:
        da, db = date_of_serial(a), date_of_serial(b)
        f = f'=DATE({da.year},{da.month},{da.day})-DATE({db.year},{db.month},{db.day})'

        def ev2():
            m = ModelCompiler().read_and_parse_dict({'Sheet1!A1': f})
            return Evaluator(m).evaluate('Sheet1!A1')
        got = common.call_real(ev2)
        via += 1
        res.evaluations += 1
        res.nontrivial.add(f)
        expect = f'I:{a - b}'
        if not ((a < 60) != (b < 60)) and not same_value(got, expect):
            res.violations.append({'what': 'subtraction of two dates is not the day difference',
                                   'input': {'formula': f}, 'expected': expect, 'got': got})
    res.count('via_formula', via)
    # ---- 4. the identities of the statement as whole formulas, and typed operator calls
    run_identities(ctx, res, big)
    if res.drift:
        res.notes.append(f'{len(res.drift)} model/implementation differences where the code still meets the reference')
    return res
