"""C19 — base-conversion functions are exact two's-complement conversions (DESIGN.md §4 C19)."""
import json
import math
import multiprocessing
import os
import subprocess
import sys

import common
from common import Result, w_text, parse_kv, call_real, same_value

LEVEL_TEXT = (
    'Lean theorems over a statement-by-statement model of engineering.py reading its tables from the running '
    'module: for every call of the twelve functions the model returns what the ten-digit two\'s-complement '
    'reference demands (digits of every integer of each window, inverse, cross conversions, round trip, #NUM! '
    'for out-of-window / invalid / too long / fractional digit strings and bad places, #VALUE! for booleans, '
    'upper case, zero padding), proved by arithmetic over the digit functions for all integers, plus a kernel '
    'decision of the whole binary window x places 1..10 and decide-obligations on the tables probed from the '
    'running functions (digit sets, radix, widths, digit limit, accepted range per conversion, places range) and the '
    'function registry. The model is tied to the running code by an exhaustive binary-window run, window edges, '
    'sampled 40-bit integers, every invalid digit-string class, direct calls, through formulas, and through '
    'histories on one re-used compiled model whose input cells are overwritten with set_cell_value.')
LEVEL_NOTE = (
    'Trusted: Lean kernel (axioms propext, Classical.choice, Quot.sound), the translator (it obtains the tables '
    'by probing the registered functions, not from source text or module constants), '
    'the hand-written model (validated by correspondence, not proved equal to the Python), hand models of the '
    'Python builtins int(str, base), bin/oct/hex, &, ~, str.zfill, str.upper; floats as ideal reals.')
DESIGN_REF = '§4 C19'

# theorems of the integrated pipeline model (Props/X01.lean) that carry this property's theorems to formula TEXTS in a
# compiled workbook; re-built and audited with this check (harness/common.prepare: soft obligations)
TRANSPORT = ('XlVerif.Props.X01', ['X01_DEC2BIN'])

TRUSTED = [
    'Lean 4.33 kernel; axioms propext, Classical.choice, Quot.sound only',
    'translator harness/extractors/c19_eng.py: Gen/C19Eng.lean is obtained by probing the registered functions '
    '(digit sets per character, radix, sign and wrap widths, digit limit, accepted integers per conversion by '
    'bisection, places range, case, which conversion each name performs); trusted: that the probes are '
    'representative (bisection assumes an interval; characters outside the probed universe of ~1500 code '
    'points count as refused) - the differential run covers what the probes interpolate',
    'hand-written model lean/XlVerif/Model/C19.lean of xlfunctions/engineering.py, tied to the code by this '
    'correspondence run (not proved equal to the Python)',
    'hand models of Python builtins: int(str, base), bin/oct/hex (core Nat.toDigits), & and ~ on unbounded '
    'integers, str.zfill, str.upper (ASCII), str(int), int(float(text)) on a plain decimal grammar',
    'validate_args / cast_from_native leave XlAnything arguments as they are (argument coercion is C08)',
]
ASSUMPTIONS = [
    'a negative result keeps its ten digits whatever a (valid) places value says, as in Excel ("non-negative '
    'results left-padded" in the statement)',
    'hexadecimal letters are digits in either case on input (HEX2DEC("ff") = 255), as in Excel',
    'a number given where a digit string is expected is read by its decimal digits (BIN2DEC(101) = 5)',
    'when #NUM! applies to one argument and #VALUE! to the other the statement does not say which wins: '
    'either is accepted',
    'the statement is silent about (and the Spec excludes; these inputs are compared against the model only): '
    'fractional decimal numbers (DEC2BIN(3.7)), text given as decimal number, blank arguments, the empty '
    'digit string, a fractional or textual places value, NaN, date and array arguments',
    'floats are modelled as ideal reals; infinities are checked against the statement only (#NUM!)',
]

FNS_DEC2X = ['DEC2BIN', 'DEC2OCT', 'DEC2HEX']
FNS_X2DEC = ['BIN2DEC', 'OCT2DEC', 'HEX2DEC']
FNS_CROSS = ['BIN2OCT', 'BIN2HEX', 'OCT2BIN', 'OCT2HEX', 'HEX2BIN', 'HEX2OCT']
ALL_FNS = FNS_DEC2X + FNS_X2DEC + FNS_CROSS
BITS = {'BIN': 10, 'OCT': 30, 'HEX': 40}
FMT = {'BIN': 'b', 'OCT': 'o', 'HEX': 'X'}
MISSING = '-'            # the places argument is omitted
ALL_PLACES = [MISSING] + list(range(-1, 13))


def ref_digits(base, n):
    """Python's own formatting of the ten-digit two's complement (independent of the code under test);
    used only to *generate* digit strings, never as the oracle."""
    return format(n & ((1 << BITS[base]) - 1), FMT[base])


def takes_places(fn):
    return not fn.endswith('2DEC')


def wire(v):
    if isinstance(v, bool):
        return 'B:1' if v else 'B:0'
    if isinstance(v, int):
        return f'I:{v}'
    if isinstance(v, float):
        return 'F:' + common.w_frac(common.frac_of(v))
    if isinstance(v, str):
        return w_text(v)
    if v is None:
        return 'Z'
    raise TypeError(v)


def line_of(fn, number, places):
    return '\t'.join(['C19', fn, wire(number), MISSING if places == MISSING else wire(places)])


def real_of(FUNCS, fn, number, places):
    f = FUNCS.get(fn)
    if f is None:
        return 'X:NotRegistered'
    if places == MISSING:
        return call_real(f, number)
    return call_real(f, number, places)


def meets(real, spec):
    """Does the real outcome meet what the statement demands?  (None: statement silent.)"""
    if spec == 'SILENT':
        return None
    if spec == 'ANYERR':
        return real in ('E:NUM', 'E:VALUE')
    if spec.startswith('E:'):
        return real == spec
    if spec.startswith('T:'):
        return real == spec
    return same_value(real, spec) and not real.startswith('T:')


def nontrivial(spec):
    if spec in ('SILENT', 'T:48', 'I:0'):
        return False
    return True


# ---------------------------------------------------------------- generators

def gen_exhaustive_binary():
    """Every integer of the binary window (and 4 beyond each edge) x every places value through DEC2BIN;
    every binary digit string of 1..10 digits through BIN2DEC; every window integer's digits x every places
    through BIN2OCT and BIN2HEX."""
    for n in range(-516, 516):
        for p in ALL_PLACES:
            yield ('DEC2BIN', n, p)
    for k in range(1, 11):
        for v in range(1 << k):
            yield ('BIN2DEC', format(v, f'0{k}b'), MISSING)
    for n in range(-512, 512):
        s = ref_digits('BIN', n)
        for p in ALL_PLACES:
            yield ('BIN2OCT', s, p)
            yield ('BIN2HEX', s, p)
        if n >= 0 and len(s) < 10:
            z = s.zfill(10)
            yield ('BIN2OCT', z, MISSING)
            yield ('BIN2HEX', z, 3)


def edge_integers():
    pts = [0, 512, -512, 1 << 29, -(1 << 29), 1 << 39, -(1 << 39), 1 << 9, 1 << 10, 1 << 30, 1 << 40,
           -(1 << 30), -(1 << 40), 8 ** 9, 16 ** 9, 7, 8, 15, 16, 255, 256, 4095, 4096]
    out = []
    for c in pts:
        for k in range(-4, 5):
            out.append(c + k)
    return sorted(set(out))


def gen_edges():
    """Window boundaries +-4 of all three windows x every places value through every function."""
    for n in edge_integers():
        for p in ALL_PLACES:
            for fn in FNS_DEC2X:
                yield (fn, n, p)
        for base in ('BIN', 'OCT', 'HEX'):
            if -(1 << (BITS[base] - 1)) <= n < (1 << (BITS[base] - 1)):
                s = ref_digits(base, n)
                yield (base + '2DEC', s, MISSING)
                for other in ('BIN', 'OCT', 'HEX'):
                    if other != base:
                        for p in ALL_PLACES:
                            yield (f'{base}2{other}', s, p)


def sample_integer(rng):
    r = rng.random()
    if r < 0.55:
        return rng.randint(-(1 << 39) - 1000, (1 << 39) + 1000)
    if r < 0.85:
        bits = rng.randint(1, 41)
        v = rng.getrandbits(bits)
        return v if rng.random() < 0.5 else -v
    if r < 0.95:
        return rng.randint(-(1 << 29) - 50, (1 << 29) + 50)
    return rng.randint(-600, 600)


def cases_for_integer(rng, n):
    """The calls made for one sampled integer: the three DEC2x, and the digits of one origin base through
    the three functions that read them."""
    p = MISSING if rng.random() < 0.4 else rng.randint(1, 10)
    out = [(fn, n, p) for fn in FNS_DEC2X]
    bases = [b for b in ('BIN', 'OCT', 'HEX') if -(1 << (BITS[b] - 1)) <= n < (1 << (BITS[b] - 1))]
    if bases:
        base = rng.choice(bases)
        s = ref_digits(base, n)
        if n >= 0 and rng.random() < 0.2:
            s = s.zfill(rng.randint(len(s), 10))
        if base == 'HEX' and rng.random() < 0.2:
            s = s.lower()
        out.append((base + '2DEC', s, MISSING))
        for other in ('BIN', 'OCT', 'HEX'):
            if other != base:
                out.append((f'{base}2{other}', s, p))
    return out


def gen_invalid(rng, thorough):
    """Digit strings of every invalid class, through every function that reads a digit string."""
    strings = [
        '2', '12', '102', '8', '78', '9', 'G', 'FG', 'g', '1G', 'z', 'Z',            # digit not of the base
        'A', 'a', 'F', 'f', 'ff', 'FF', 'fF', 'abcdef', 'ABCDEF', 'DeadBeef', 'deadbeef00',  # hex only
        ' 1', '1 ', ' ', '1 1', '\t1', '1\n',                                         # blanks
        '+1', '-1', '-', '+', '1-', '--1',                                            # signs
        '1.5', '1.0', '.1', '1.', '1,5', '1e1', '1E1', '10.', '0.5',                  # fractional / decimal marks
        '0b1', '0B1', '0o7', '0O7', '0x1F', '0X1F', '1_0', '_1', 'x', '0x',           # Python literal forms
        '#', '1#', '$1', "'1", '"1"', '1;', '(1)', '%', '1/1',                       # punctuation
        '١', '１', '１０', '²', '1²', 'É', 'é', 'ａ', 'Ａ',                               # non-ASCII digits/letters
        '11111111111', '00000000000', '000000000001', '1' * 20, '7' * 11, 'F' * 11, 'f' * 11,
        '0' * 11, '1' * 255,                                                          # too long
        '1111111111', '7777777777', 'FFFFFFFFFF', 'ffffffffff', '0000000000', '0000000001',
        '1000000000', '4000000000', '8000000000', '3777777777', '7FFFFFFFFF', '0111111111',
        '0', '1', '7', '00', '007', '0F', 'true', 'false', 'TRUE', 'FALSE', 'True', 'False',
        'inf', 'nan', 'None', 'e', 'E', 'b', 'B', 'd', 'D', '0e0', '1e0', 'dec',
        '',                                                                          # empty: statement silent
    ]
    numbers = [0, 1, 10, 11, 101, 102, 777, 778, 999, 1111111111, 1111111112, 7777777777, 9999999999,
               10000000000, 11111111111, -1, -10, -101, 2, 8, 9, 19, 1000000000, 8000000000,
               0.0, 1.0, 101.0, 1.5, 0.5, 10.1, -1.0, -0.5, 1e9, 1e10, 1e11, 1111111111.0, 7777777777.0,
               1e-7, 123456.75, 2 ** 53, 2 ** 64, 10 ** 30, -10 ** 30]
    fns = FNS_X2DEC + FNS_CROSS
    for fn in fns:
        for s in strings:
            yield (fn, s, MISSING)
            if takes_places(fn):
                yield (fn, s, 10)
                yield (fn, s, 1)
                yield (fn, s, 0)
        for v in numbers:
            yield (fn, v, MISSING)
            if takes_places(fn):
                yield (fn, v, 10)
                yield (fn, v, 4)
    # random strings over a mixed alphabet (valid and invalid characters)
    alpha = '01234567 89ABCDEFabcdefGg.+-_xXoObB'
    for _ in range(20000 if thorough else 2500):
        k = rng.choice([1, 2, 3, 5, 9, 10, 10, 11, 12])
        weights = rng.choice([alpha, '01', '01234567', '0123456789ABCDEF', '0123456789abcdef', '012', '0178F'])
        s = ''.join(rng.choice(weights) for _ in range(k))
        fn = rng.choice(fns)
        p = MISSING
        if takes_places(fn) and rng.random() < 0.5:
            p = rng.randint(-1, 12)
        yield (fn, s, p)


def gen_booleans():
    """Boolean arguments through all twelve functions, as number and as places."""
    nums = [True, False]
    others = [0, 5, -5, 511, 512, 10 ** 13, '101', 'FF', '2', 'G', '11111111111']
    for fn in ALL_FNS:
        for b in nums:
            yield (fn, b, MISSING)
            if takes_places(fn):
                for p in (1, 8, 10, 0, 11, True, False):
                    yield (fn, b, p)
        if takes_places(fn):
            for v in others:
                for b in nums:
                    yield (fn, v, b)


def gen_places():
    """places rules on non-negative and negative results of every length."""
    for base, fn in (('BIN', 'DEC2BIN'), ('OCT', 'DEC2OCT'), ('HEX', 'DEC2HEX')):
        radix = {'BIN': 2, 'OCT': 8, 'HEX': 16}[base]
        vals = [0]
        for k in range(0, 11):
            vals += [radix ** k - 1, radix ** k, radix ** k + 1]
        vals += [-v for v in vals if v]
        for n in sorted(set(vals)):
            for p in ALL_PLACES + [100, -100, 10 ** 20, -10 ** 20]:
                yield (fn, n, p)
                if -(1 << (BITS[base] - 1)) <= n < (1 << (BITS[base] - 1)):
                    s = ref_digits(base, n)
                    for other in ('BIN', 'OCT', 'HEX'):
                        if other != base and p in ALL_PLACES:
                            yield (f'{base}2{other}', s, p)


def gen_model_only():
    """Inputs the statement is silent about: compared against the model only (drift, not violation)."""
    for fn in FNS_DEC2X:
        for v in [3.7, -3.7, 0.5, -0.5, 511.9, 512.0, -512.9, -513.0, 5.0, '12', ' 12 ', '-5', '+5', '12.9',
                  '-0.5', 'abc', '', ' ', '5.', '.5', '.', '1 2', None, 10 ** 400, -10 ** 400, 2 ** 53 + 1,
                  1e300, -1e300]:
            for p in (MISSING, 8, None, 3.9, 0.5, 10.5, '4', '04', 'x', '', 0.99, 1.0, 10.0, 11.0, -0.5):
                yield (fn, v, p)
        for p in (None, 3.9, 0.5, 10.5, 10.999, '4', '04', ' 7', 'x', '', 0.99, 1.0, 10.0, 11.0, -0.5, 1e300):
            for n in (5, -5, 0, 255):
                yield (fn, n, p)
    for fn in FNS_X2DEC + FNS_CROSS:
        yield (fn, None, MISSING)
        if takes_places(fn):
            yield (fn, None, 3)
            yield (fn, '101', None)
            yield (fn, '101', 3.5)
            yield (fn, '101', '5')
            yield (fn, '', 2)
        else:
            yield (fn, '101', 3)          # a places argument the function does not take: TypeError
            yield (fn, True, 3)


def gen_corpus():
    d = common.CORPUS / 'C19'
    if d.is_dir():
        for path in sorted(d.glob('*.json')):
            data = json.loads(path.read_text())
            for c in data.get('cases', []):
                yield (c['fn'], c['number'], c.get('places', MISSING))


# ---------------------------------------------------------------- evaluation of a batch of cases

class Acc:
    """Picklable accumulator for worker processes."""

    def __init__(self):
        self.evaluations = 0
        self.violations = []
        self.drift = []
        self.dist = {}
        self.samples = []
        self.nontrivial = set()

    def count(self, k, n=1):
        self.dist[k] = self.dist.get(k, 0) + n


def outcome_class(real):
    if real.startswith('E:'):
        return 'error:' + real[2:]
    if real.startswith('X:'):
        return 'exception'
    return 'digits' if real.startswith('T:') else 'number'


def evaluate(cases, driver, FUNCS, acc, kind, key_of=None, keep_samples=2):
    cases = list(cases)
    lines = [line_of(*c) for c in cases]
    resp = driver.batch(lines)
    kept = 0
    for (fn, number, places), line, r in zip(cases, lines, resp):
        d = parse_kv(r)
        if 'impl' not in d:
            raise RuntimeError(f'driver: {r!r} for {line!r}')
        impl, spec = d['impl'], d['spec']
        real = real_of(FUNCS, fn, number, places)
        acc.evaluations += 1
        acc.count('kind:' + kind)
        acc.count('fn:' + fn)
        acc.count('outcome:' + outcome_class(real))
        acc.count('spec:' + ('silent' if spec == 'SILENT' else 'anyerr' if spec == 'ANYERR'
                             else 'error' if spec.startswith('E:') else 'value'))
        if nontrivial(spec):
            key = key_of(fn, number, places) if key_of else line
            if key is not None:
                acc.nontrivial.add(key)
        if kept < keep_samples and spec != 'SILENT':
            kept += 1
            acc.samples.append({'fn': fn, 'number': repr(number), 'places': repr(places), 'real': real,
                                'spec': spec})
        inp = {'fn': fn, 'number': number, 'places': places}
        ok = meets(real, spec)
        if ok is False:
            acc.violations.append({'what': f'{fn} disagrees with the ten-digit two\'s-complement reference',
                                   'input': inp, 'expected': spec, 'got': real})
        elif real != impl and not same_value(real, impl):
            if len(acc.drift) < 50:
                acc.drift.append({'fn': fn, 'number': repr(number), 'places': repr(places),
                                  'model': impl, 'real': real, 'spec': spec})
            acc.count('model-drift')
    return acc


def roundtrip(ints, FUNCS, acc):
    """there-and-back on the real code alone: X2DEC(DEC2X(n)) = n for every n of the window."""
    for n in ints:
        for base in ('BIN', 'OCT', 'HEX'):
            if not (-(1 << (BITS[base] - 1)) <= n < (1 << (BITS[base] - 1))):
                continue
            f, g = FUNCS.get(f'DEC2{base}'), FUNCS.get(f'{base}2DEC')
            if f is None or g is None:
                continue
            acc.evaluations += 1
            acc.count('kind:roundtrip')
            try:
                s = f(n)
                back = call_real(g, s)
                s = common.canon(s)
            except Exception as exc:  # noqa: BLE001
                s, back = 'X:' + type(exc).__name__, 'X:' + type(exc).__name__
            if back != f'I:{n}':
                acc.violations.append({'what': f'{base}2DEC(DEC2{base}(n)) is not n',
                                       'input': {'fn': f'DEC2{base}', 'number': n, 'places': MISSING},
                                       'expected': f'I:{n}', 'got': f'{s} -> {back}'})


def _worker(args):
    seed, count = args
    import random
    from xlcalculator.xlfunctions import xl
    import xlcalculator  # noqa: F401
    rng = random.Random(seed)
    acc = Acc()
    driver = common.Driver('C19')
    done = 0
    while done < count:
        k = min(20000, count - done)
        ints = [sample_integer(rng) for _ in range(k)]
        cases = []
        for n in ints:
            cases.extend(cases_for_integer(rng, n))
        evaluate(cases, driver, xl.FUNCTIONS, acc, 'sampled-40-bit',
                 key_of=lambda fn, number, places: number if fn == 'DEC2HEX' else None, keep_samples=1)
        roundtrip(ints[::10], xl.FUNCTIONS, acc)
        done += k
    acc.samples = acc.samples[:3]
    return acc


def merge(res, acc):
    res.evaluations += acc.evaluations
    res.violations.extend(acc.violations)
    for d in acc.drift:
        if len(res.drift) < 50:
            res.drift.append(d)
    for k, v in acc.dist.items():
        res.count(k, v)
    for s in acc.samples:
        res.sample(s, limit=14)
    res.nontrivial |= acc.nontrivial


# ---------------------------------------------------------------- formulas

def formula_literal(v):
    if isinstance(v, bool):
        return 'TRUE' if v else 'FALSE'
    if isinstance(v, str):
        return '"' + v.replace('"', '""') + '"'
    if isinstance(v, float):
        return repr(v)
    return str(v)


def via_formulas(cases, FUNCS, res):
    """The same calls through ModelCompiler/Evaluator: cell references (`=DEC2BIN(B1,C1)`) and literals
    (`=DEC2BIN(-5,8)`); the result must be the one of the direct call."""
    from xlcalculator import ModelCompiler, Evaluator
    chunk = 1500
    for off in range(0, len(cases), chunk):
        part = cases[off:off + chunk]
        cells, expect = {}, []
        for i, (fn, number, places) in enumerate(part, 1):
            literal = (i % 3 == 0)
            ok_cell = lambda v: not (isinstance(v, str) and (v == '' or v[0] == '=')) \
                and not (isinstance(v, float) and not math.isfinite(v))   # noqa: E731
            if literal or not ok_cell(number) or (places != MISSING and not ok_cell(places)):
                if any(isinstance(v, float) and not math.isfinite(v) for v in (number, places)) \
                        or number is None or places is None:
                    continue
                if any(isinstance(v, str) and ('\n' in v or '\t' in v) for v in (number, places)):
                    continue
                args = [formula_literal(number)] + ([] if places == MISSING else [formula_literal(places)])
                f = f'={fn}(' + ','.join(args) + ')'
            else:
                f = f'={fn}(B{i}' + ('' if places == MISSING else f',C{i}') + ')'
                if number is not None:
                    cells[f'Sheet1!B{i}'] = number
                if places != MISSING and places is not None:
                    cells[f'Sheet1!C{i}'] = places
            cells[f'Sheet1!A{i}'] = f
            expect.append((f'Sheet1!A{i}', f, fn, number, places))
        model = ModelCompiler().read_and_parse_dict(cells)
        ev = Evaluator(model)
        for addr, f, fn, number, places in expect:
            direct = real_of(FUNCS, fn, number, places)
            got = call_real(ev.evaluate, addr)
            res.evaluations += 1
            res.count('kind:via-formula')
            if not same_value(got, direct) or got[:2] != direct[:2]:
                res.violations.append({'what': f'{fn} through a formula differs from the direct call',
                                       'input': {'formula': f, 'fn': fn, 'number': number, 'places': places},
                                       'expected': direct, 'got': got})


# ---------------------------------------------------------------- histories on one compiled model

# values an input cell takes one after the other: type twins (Python: 1 == True == 1.0, 0 == False == 0.0,
# but Number / Boolean / Text are different arguments), digit strings that are also numbers, window edges
NUMBER_TWINS = [1, True, 1.0, '1', 0, False, 0.0, '0', 10, '10', 10.0, 11, 1.5, '1.5',
                511, 512, -512, -513, '777', 777, 'FF', 'ff',
                (1 << 29) - 1, 1 << 29, -(1 << 29), -(1 << 29) - 1,
                (1 << 39) - 1, 1 << 39, -(1 << 39), -(1 << 39) - 1,
                1111111111, '1111111111', '7777777777', 'FFFFFFFFFF', -1, '-1']
PLACES_TWINS = [1, True, 1.0, 0, False, 0.0, 10, 10.0, 11, 3, 3.0, 8, -1, '3', 2]


def euler_walk(values):
    """A sequence over `values` in which every ordered pair (a, b), a == b included, occurs as two
    consecutive elements (Eulerian circuit of the complete digraph with loops)."""
    m = len(values)
    nxt = [0] * m
    stack, circuit = [0], []
    while stack:
        v = stack[-1]
        if nxt[v] < m:
            w = nxt[v]
            nxt[v] += 1
            stack.append(w)
        else:
            circuit.append(stack.pop())
    return [values[i] for i in reversed(circuit)]


def via_history(ctx, FUNCS, driver, res, thorough):
    """Arguments supplied through the cells of ONE compiled model that are overwritten with
    Evaluator.set_cell_value between evaluations.  Whatever a cell held before, every function must return
    what the reference semantics demands of the value the cell holds NOW (and what the direct call returns)."""
    from xlcalculator import ModelCompiler, Evaluator
    forms = []
    for fn in ALL_FNS:
        forms.append((fn, False))
        if takes_places(fn):
            forms.append((fn, True))
    cells = {'Sheet1!A1': 5, 'Sheet1!B1': 3}
    addr_of = {}
    for i, (fn, with_places) in enumerate(forms, 1):
        addr_of[(fn, with_places)] = f'Sheet1!C{i}'
        cells[f'Sheet1!C{i}'] = f'={fn}(A1,B1)' if with_places else f'={fn}(A1)'

    rng = ctx.rng
    histories = []           # lists of (cell, value)
    # every ordered pair of number twins in A1 (places fixed), every ordered pair of places twins in B1
    histories.append([('B1', 10)] + [('A1', v) for v in euler_walk(NUMBER_TWINS)])
    for number in (1, 0, 5, -5, '101'):
        histories.append([('A1', number)] + [('B1', v) for v in euler_walk(PLACES_TWINS)])
    # random joint histories
    for _ in range(40 if thorough else 6):
        h = []
        for _ in range(400 if thorough else 150):
            if rng.random() < 0.6:
                v = rng.choice(NUMBER_TWINS) if rng.random() < 0.7 else sample_integer(rng)
                h.append(('A1', v))
            else:
                h.append(('B1', rng.choice(PLACES_TWINS)))
        histories.append(h)

    observed = []            # (fn, number, places, got, previous, cell)
    for h in histories:
        ev = Evaluator(ModelCompiler().read_and_parse_dict(dict(cells)))
        cur = {'A1': 5, 'B1': 3}
        for k, (cell, value) in enumerate(h):
            prev = cur[cell]
            ev.set_cell_value('Sheet1!' + cell, value)
            cur[cell] = value
            # after a places change only the formulas that read B1 can change; all are evaluated every
            # few steps anyway
            for (fn, with_places), addr in addr_of.items():
                if cell == 'B1' and not with_places and k % 8:
                    continue
                got = call_real(ev.evaluate, addr)
                observed.append((fn, cur['A1'], cur['B1'] if with_places else MISSING, got, prev, cell))

    triples = sorted({(fn, repr(n), repr(p)): (fn, n, p) for fn, n, p, _, _, _ in observed}.items())
    lines = [line_of(*t) for _, t in triples]
    spec_of = {}
    for (key, _), r in zip(triples, driver.batch(lines)):
        d = parse_kv(r)
        if 'spec' not in d:
            raise RuntimeError(f'driver: {r!r}')
        spec_of[key] = d['spec']
    direct_of = {key: real_of(FUNCS, *t) for key, t in triples}
    for fn, number, places, got, prev, cell in observed:
        key = (fn, repr(number), repr(places))
        spec, direct = spec_of[key], direct_of[key]
        res.evaluations += 1
        res.count('kind:history(set_cell_value)')
        if nontrivial(spec):
            res.nontrivial.add(('history',) + key + (repr(prev),))
        inp = {'route': 'one compiled model, input cells overwritten with set_cell_value',
               'formula': f'={fn}(A1' + ('' if places == MISSING else ',B1') + ')',
               'fn': fn, 'number': number, 'places': places, 'cell_set_last': cell, 'its_previous_value': prev}
        ok = meets(got, spec)
        if ok is False:
            res.violations.append({'what': f'{fn} on a re-used model disagrees with the reference for the '
                                           'value the cell holds now',
                                   'input': inp, 'expected': spec, 'got': got})
        elif got != direct and not (same_value(got, direct) and got[:2] == direct[:2]):
            res.violations.append({'what': f'{fn} on a re-used model differs from the direct call on the '
                                           'current cell values',
                                   'input': inp, 'expected': direct, 'got': got})
    res.sample({'route': 'history', 'steps': sum(len(h) for h in histories), 'observations': len(observed)},
               limit=14)


# ---------------------------------------------------------------- registry (defect D49) and tables

TWELVE = sorted(ALL_FNS)


def registered_in_fresh_process():
    code = ('import sys; sys.path.insert(0, %r); import xlcalculator; '
            'from xlcalculator.xlfunctions import xl; '
            'print(",".join(sorted(n for n in xl.FUNCTIONS if n in %r)))' % (str(common.REPO), TWELVE))
    p = subprocess.run([sys.executable, '-c', code], stdout=subprocess.PIPE, stderr=subprocess.PIPE,
                       text=True, timeout=300)
    if p.returncode != 0:
        raise RuntimeError('fresh import of xlcalculator failed: ' + p.stderr[-1500:])
    return [x for x in p.stdout.strip().split(',') if x]


_DIGEST_CODE = r'''
import sys, json
sys.path.insert(0, sys.argv[2])          # /verif/harness
import common                            # puts the repo under test first on sys.path
from extractors import c19_eng
print(json.dumps(c19_eng.digest(c19_eng.probe_tables())))
'''


def tables_digest_of_module():
    """Digest of the behaviour tables (the translator's probes of the registered functions), computed in a
    separate interpreter (this process must not import the engineering module itself: defect D49 is about
    the package not doing so)."""
    env = dict(os.environ, XLVERIF_REPO=str(common.REPO))
    p = subprocess.run([sys.executable, '-c', _DIGEST_CODE, str(common.REPO), str(common.VERIF / 'harness')],
                       stdout=subprocess.PIPE, stderr=subprocess.PIPE, text=True, timeout=300, env=env)
    if p.returncode != 0:
        raise ValueError(p.stderr[-600:])
    return json.loads(p.stdout.strip().splitlines()[-1])


# ---------------------------------------------------------------- run

def run(ctx):
    res = Result()
    res.rule = (
        'exhaustive: every integer -516..515 x places in {omitted, -1..12} through DEC2BIN, every binary digit '
        'string of 1..10 digits through BIN2DEC, every binary-window integer x every places through BIN2OCT and '
        'BIN2HEX; every window edge (+-512, +-2^29, +-2^39, powers of the bases) +-4 x every places through all '
        'twelve functions; sampled integers over the 40-bit range (10^4 quick, 10^6 thorough, in parallel '
        'processes) through DEC2BIN/OCT/HEX and through the three readers of one origin base, plus the real '
        'round trip X2DEC(DEC2X(n)) = n; digit strings and numbers of every invalid class (foreign digits, '
        'blanks, signs, fractions, Python literal prefixes, punctuation, non-ASCII, too long, lower case, empty); '
        'boolean number/places; a sample of all of it through formulas (cell references and literals); histories '
        'on ONE compiled model: the number cell and the places cell are overwritten with set_cell_value (every '
        'ordered pair of the type twins 1/TRUE/1.0/"1", 0/FALSE/0.0/"0", digit strings that are also numbers, '
        'the edges of all three windows; random joint histories) and all 21 formulas =FN(A1) / =FN(A1,B1) are '
        're-evaluated against the reference for the value held now and against the direct call. Oracle: '
        'the Lean Spec (real vs Spec decides; real vs model is drift). Non-trivial = distinct (function, number, '
        'places) whose reference result is an error, a non-zero number or a digit string other than "0".')
    thorough = ctx.tier == 'thorough' or ctx.widen

    # D49: the twelve functions must be registered by `import xlcalculator` alone (fresh interpreter)
    present = registered_in_fresh_process()
    res.evaluations += 12
    res.count('kind:registry', 12)
    for name in TWELVE:
        if name not in present:
            res.violations.append({'what': 'function is not in xl.FUNCTIONS after `import xlcalculator`',
                                   'input': {'fn': name, 'number': 0, 'places': MISSING},
                                   'expected': 'registered', 'got': 'KeyError'})

    from xlcalculator.xlfunctions import xl
    import xlcalculator  # noqa: F401
    FUNCS = xl.FUNCTIONS
    driver = ctx.driver

    # translator cross-check: the tables compiled into the driver are the tables of the running module
    got = parse_kv(driver.batch(['C19\tTABLES'])[0])
    try:
        want = tables_digest_of_module()
    except Exception as exc:  # noqa: BLE001 - a renamed table: the translator has reported it already
        want = None
        res.notes.append(f'tables of the running module could not be read: {exc!r}')
    if want is not None:
        diff = [k for k in want if got.get(k) != want[k]]
        if diff:
            msg = f'driver tables differ from the running module in {diff}: {[(got.get(k), want[k]) for k in diff]}'
            if ctx.status.model_ok and ctx.status.extract_ok:
                raise RuntimeError(msg)
            res.notes.append(msg)

    if ctx.replay:
        data = json.loads(open(ctx.replay).read())
        inp = data.get('input', {})
        if 'fn' in inp:
            acc = Acc()
            evaluate([(inp['fn'], inp.get('number'), inp.get('places', MISSING))], driver, FUNCS, acc, 'replay')
            merge(res, acc)
        return res

    acc = Acc()
    evaluate(gen_corpus(), driver, FUNCS, acc, 'corpus')
    evaluate(gen_exhaustive_binary(), driver, FUNCS, acc, 'exhaustive-binary-window')
    evaluate(gen_edges(), driver, FUNCS, acc, 'window-edges')
    evaluate(gen_places(), driver, FUNCS, acc, 'places-rules')
    evaluate(gen_invalid(ctx.rng, thorough), driver, FUNCS, acc, 'invalid-digit-strings')
    evaluate(gen_booleans(), driver, FUNCS, acc, 'booleans')
    evaluate(gen_model_only(), driver, FUNCS, acc, 'statement-silent(model-only)')
    roundtrip(range(-512, 512), FUNCS, acc)
    roundtrip(edge_integers(), FUNCS, acc)
    merge(res, acc)
    res.exhaustive = True

    # infinities: outside every window / outside 1..10 -> #NUM! (statement only; floats are not in the model)
    for fn in ALL_FNS:
        for v in (float('inf'), float('-inf')):
            trials = [(fn, v, MISSING)]
            if takes_places(fn):
                trials.append((fn, 5 if fn.startswith('DEC') else '101', v))
            for c in trials:
                real = real_of(FUNCS, *c)
                res.evaluations += 1
                res.count('kind:infinite')
                if real != 'E:NUM':
                    res.violations.append({'what': f'{fn} with an infinite argument is not #NUM!',
                                           'input': {'fn': c[0], 'number': repr(c[1]), 'places': repr(c[2])},
                                           'expected': 'E:NUM', 'got': real})

    # sampled integers across the 40-bit range
    total = 1_000_000 if thorough else 10_000
    nproc = min(16, os.cpu_count() or 1) if thorough else 4
    per = total // nproc
    jobs = [(ctx.rng.getrandbits(48), per + (1 if i < total - per * nproc else 0)) for i in range(nproc)]
    with multiprocessing.get_context('fork').Pool(nproc) as pool:
        for wacc in pool.imap_unordered(_worker, jobs):
            merge(res, wacc)
    res.extra['sampled_integers'] = total

    # the same through formulas
    pool_cases = (list(gen_edges())[::7] + list(gen_places())[::11] + list(gen_booleans())[::3]
                  + list(gen_invalid(ctx.rng, False))[::5] + list(gen_exhaustive_binary())[::97]
                  + list(gen_corpus()))
    extra = []
    for _ in range(20000 if thorough else 1200):
        extra.extend(cases_for_integer(ctx.rng, sample_integer(ctx.rng))[:rng_take(ctx.rng)])
    pool_cases += extra
    if not thorough:
        step = max(1, len(pool_cases) // 3000)
        pool_cases = pool_cases[::step]
    via_formulas(pool_cases, FUNCS, res)

    # histories: one compiled model, input cells overwritten between evaluations
    via_history(ctx, FUNCS, driver, res, thorough)

    if res.distribution.get('model-drift'):
        res.notes.append(f"{res.distribution['model-drift']} model/implementation differences where the code "
                         'still meets the Spec or the statement is silent (see model_drift)')
    return res


def rng_take(rng):
    return rng.choice([1, 2, 3, 6])
