"""C20 — financial functions satisfy their defining equations (DESIGN.md §4 C20).

Real code (xl.FUNCTIONS[...] in-process; through ModelCompiler/Evaluator formulas with the number literals in
every spelling; through scenario histories — evaluate, set_cell_value on inputs, evaluate — on models whose
cash-flow ranges are computed cells) against
  * the reference semantics `Spec.C20` evaluated exactly over Q by the Lean driver (NPV sum, annuity
    recursion for PV/PMT, SLN quotient, XNPV sum with harness-supplied weights), within 1e-9 relative to the
    gross size of the terms (floats are not exact here: IEEE rounding is not modelled), and
  * for IRR / XIRR a *certificate*: the NPV / XNPV of the same flows, evaluated exactly at r-1e-6 and
    r+1e-6 (r = the code's answer as an exact fraction), must change sign from + to -; by the Lean theorems
    `irr_certificate` / `xirr_certificate` every root then lies within 1e-6 of r.
"""
import datetime
import json
import math
import warnings
from decimal import Decimal, getcontext
from fractions import Fraction

import common
from common import Result, parse_kv, call_real, w_frac

LEVEL_TEXT = (
    'Lean theorems over Q about a statement-by-statement model of financial.py (PMT/PV through a hand model '
    'of the numpy_financial closed forms): NPV = sum c_i/(1+r)^i for every list and rate != -1, linear in the '
    'flows, plain sum at rate 0; PV (both timings, with fv) and PMT (period end, with fv) are the unique '
    'solutions of the annuity recursion and equal the closed forms, invert each other for every rate > -1 and '
    'n >= 1, reduce to plain sums at rate 0; SLN = (cost-salvage)/life; XNPV = sum v_i/w((d_i-d_1)/365) and is '
    'linear, for any weight function; for an outlay followed by non-negative returns with positive total the '
    'discounted sum is strictly decreasing on (-1, inf) over every ordered field (irr_unique, xirr analogue '
    'for any power function with the order properties), so a sign change between r-1e-6 and r+1e-6 encloses '
    'every root (irr_certificate). IRR/XIRR answers are certified per input by that sign change; the other '
    'functions are compared with the exact rational reference within 1e-9 relative. The correspondence reaches '
    'the functions by direct calls, by formulas whose number literals are spelt every way Excel accepts for the '
    'same number (.08 0.08 8% .8% 8E-2 8. +0.08 (0.08), negatives), and by scenario histories on one compiled '
    'model (cash-flow and date ranges whose members are formulas over growth/step/gap input cells, re-evaluated '
    'after set_cell_value on those inputs and judged on the current cell values).')
LEVEL_NOTE = (
    'Trusted: Lean kernel (axioms propext, Classical.choice, Quot.sound); the hand model (validated by '
    'correspondence, not proved equal to the Python); IEEE rounding (results compared within 1e-9 relative); '
    'numpy_financial.irr/numpy.roots and scipy.optimize.newton are uninterpreted solvers whose output is '
    'certified, not verified; fractional powers (XNPV/XIRR weights, non-integral nper) are evaluated with '
    '50-digit decimal arithmetic in the harness. Partial: XIRR answers #NUM! on in-domain flows when scipy\'s '
    'secant iteration from the guess does not reach the root (known finding D2002).')
DESIGN_REF = '§4 C20'

# theorems of the integrated pipeline model (Props/X01.lean) that carry this property's theorems to formula TEXTS in a
# compiled workbook; re-built and audited with this check (harness/common.prepare: soft obligations)
TRANSPORT = ('XlVerif.Props.X01', ['X01_NPV'])

TRUSTED = [
    'Lean 4.33 kernel; axioms propext, Classical.choice, Quot.sound only',
    'hand-written model lean/XlVerif/Model/C20.lean of xlfunctions/financial.py and of the numpy_financial '
    'closed forms pmt/pv, tied to the code by this correspondence run (not proved equal to the Python)',
    'IEEE-754 rounding is not modelled: real results are compared with exact rationals within 1e-9 of the '
    'gross size of the summed terms',
    'root finders numpy_financial.irr (numpy.roots) and scipy.optimize.newton: uninterpreted; every answer is '
    'certified by an exact sign change of the reference NPV/XNPV at r-1e-6 and r+1e-6',
    'fractional powers (1+r)^((d_i-d_1)/365) and (1+r)^nper for non-integral nper: Python decimal with 50 '
    'digits, passed to the Lean model as the values of its uninterpreted power function',
    'the guard of known finding D2002 (scipy.optimize.newton fails on the reference XNPV of the rows the Lean '
    'model prepares) is evaluated by the harness with the library itself',
    'validate_args coercion of arguments is modelled in C08, here arguments arrive as numbers',
    'the value a number literal denotes in a formula is computed by the harness from the decimal text (exact '
    'fraction); the values of computed flow/date cells in the scenario histories are computed by the harness with '
    'the same float operations as the cell formulas',
]
ASSUMPTIONS = [
    'rates in (-0.9, 10]; |rate| < 1e-6 other than 0 excluded (cancellation in (1+r)^n-1 exceeds 1e-9)',
    'PMT: the statement speaks about payments at period end; the code ignores `type` in Excel mode, PMT with '
    'type=1 is compared with the model only (no violation can arise from it)',
    'PV: type in {0,1}; any other type raises TypeError inside numpy_financial (outside the statement)',
    'nper a positive number with (1+rate)^nper inside [1e-250,1e250] (no overflow/underflow of doubles)',
    'SLN: life > 0 (life = 0 gives #DIV/0!, D51 no longer raises since D20 was fixed)',
    'IRR/XIRR: one sign change (first flow negative, the others non-negative), positive undiscounted sum, root '
    'at most 10; XIRR with the default guess or guesses in [0.01,0.5]; XIRR without a root is outside (D50)',
    'dates are whole-day serial numbers, strictly increasing; error arguments are C07\'s business; VDB excluded',
    'number literals in formula text: decimal, percent, signed, parenthesised, and scientific notation only in the '
    'normalised form d(.ddd)E[+-]x that Excel stores (DESIGN.md C01: 80E-3 or .8E-1 are not recognised by the '
    'tokenizer and are outside the domain)',
    'scenario histories: 3..12 flows, geometric / additive / power templates, 1..4 set_cell_value steps on inputs '
    'inside or outside the ranges; IRR/XIRR are certified at the steps where the current flows are an outlay '
    'followed by non-negative returns with positive total and root <= 10',
]

EPS = Fraction(1, 10 ** 6)
TOL = Fraction(1, 10 ** 9)
getcontext().prec = 50


# ---------------------------------------------------------------- small helpers

def fr(x):
    """exact rational of an int/float input"""
    return Fraction(x)


def wl(xs):
    return 'L:' + ','.join(w_frac(fr(x)) for x in xs)


def num_of(w):
    """exact rational of a wire value F:/I:, else None"""
    return common.num_value(w)


def dec(q):
    q = Fraction(q)
    return Decimal(q.numerator) / Decimal(q.denominator)


def frac_of_dec(d):
    return Fraction(d)


def close(real_q, spec_q, gross_q):
    """|real - spec| <= 1e-9 * max(gross, |spec|) (and a tiny absolute floor for all-zero cases)"""
    scale = max(abs(gross_q), abs(spec_q))
    return abs(real_q - spec_q) <= TOL * scale + Fraction(1, 10 ** 300)


def pow_weights(base_q, offsets):
    """(base ** t) for rational offsets t, 50-digit decimal, as exact fractions"""
    b = dec(base_q)
    out = []
    for t in offsets:
        if t == 0:
            out.append(Fraction(1))
        else:
            out.append(frac_of_dec(b ** dec(t)))
    return out


def rand_money(rng, scale=None):
    kind = rng.random()
    if scale is None:
        scale = rng.choice([1, 10, 100, 1000, 10 ** 5, 10 ** 7])
    if kind < 0.4:
        return rng.randint(0, int(scale))
    if kind < 0.8:
        return round(rng.uniform(0, scale), 2)
    return rng.uniform(0, scale)


def rand_rate(rng):
    k = rng.random()
    if k < 0.15:
        return rng.choice([0, 0.0, 0.1, 0.05, 0.01, 1, 1.0, 10, 10.0, -0.5, 0.001, 0.25, 0.075, 2.5, -0.89, -0.1])
    if k < 0.35:
        r = rng.uniform(-0.9, 0)
        return r if r > -0.9 else -0.89
    if k < 0.8:
        return rng.uniform(0, 0.5)
    if k < 0.95:
        return rng.uniform(0.5, 3)
    return rng.uniform(3, 10)


def ok_rate(r):
    return r == 0 or abs(r) >= 1e-6


def rand_flows(rng, n=None):
    n = n or rng.randint(1, 30)
    scale = rng.choice([1, 100, 10 ** 4, 10 ** 6])
    out = []
    for _ in range(n):
        v = rand_money(rng, scale)
        if rng.random() < 0.4:
            v = -v
        if rng.random() < 0.1:
            v = 0
        out.append(v)
    return out


def rand_dates(rng, n, long_ok=True):
    d0 = rng.randint(1, 60000)
    gm = rng.choice([1, 7, 31, 100, 365, 800] + ([2000] if long_ok else []))
    ds = [d0]
    for _ in range(n - 1):
        ds.append(ds[-1] + rng.randint(1, gm))
    return ds


def outlay_flows(rng):
    """first flow negative, the rest non-negative, positive total"""
    k = rng.randint(2, 30)
    c0 = -rng.choice([1, 10, 100, 1000, 12345, rng.randint(1, 10 ** 6), round(rng.uniform(1, 10 ** 4), 2)])
    scale = abs(c0) * rng.choice([0.05, 0.2, 0.5, 1, 2, 10])
    rest = []
    for _ in range(k - 1):
        c = rng.random()
        if c < 0.3:
            rest.append(0)
        elif c < 0.6:
            rest.append(rng.randint(0, int(scale) + 1))
        else:
            rest.append(round(rng.uniform(0, scale), 2))
    vals = [c0] + rest
    if sum(fr(v) for v in vals) <= 0:
        rest[rng.randrange(len(rest))] = abs(c0) * 2
        vals = [c0] + rest
    return vals


class Sink:
    """collects driver requests and the callbacks that judge the responses"""

    def __init__(self):
        self.lines = []
        self.handlers = []

    def add(self, fields, handler):
        self.lines.append('\t'.join(['C20'] + fields))
        self.handlers.append(handler)

    def flush(self, ctx):
        resp = ctx.driver.batch(self.lines)
        for line, r, h in zip(self.lines, resp, self.handlers):
            d = parse_kv(r)
            if r.startswith('error=') or not d:
                raise RuntimeError(f'driver: {r!r} for {line[:300]!r}')
            h(d, line)
        self.lines, self.handlers = [], []


def sample(res, x):
    """one or two samples per function, so that every function shows up in the evidence"""
    if sum(1 for y in res.samples if y.get('fn') == x['fn']) < (1 if x['fn'] in ('PMT', 'PV', 'SLN') else 2):
        res.samples.append(x)


def real_fields(real):
    """the two trailing request fields: the real result as an exact rational (or -) and the tolerance"""
    rq = num_of(real)
    return [w_frac(rq) if rq is not None else '-', w_frac(TOL)]


def judge_value(res, what, inp, real, d, line, in_domain=True, nontrivial=True):
    """real (wire) against spec within tolerance (decided exactly by the driver: cmp); then against the
    model (cmpi; drift)."""
    res.evaluations += 1
    res.count(inp['fn'])
    spec, impl = d.get('spec', '-'), d.get('impl')
    rq = num_of(real)
    res.count('outcome:' + ('value' if rq is not None else real[:6]))
    if nontrivial:
        res.nontrivial.add(line)
    sq = num_of(spec)
    sample(res, {'fn': inp['fn'], 'input': inp, 'real': float(rq) if rq is not None else real,
                 'spec': float(sq) if sq is not None else spec})
    if spec != '-' and in_domain and d['cmp'] != 'ok':
        res.violations.append({'what': what, 'input': inp, 'expected': float(sq),
                               'got': float(rq) if rq is not None else real})
        return False
    if num_of(impl) is not None:
        if d['cmpi'] != 'ok':
            res.drift.append({'fn': inp['fn'], 'input': inp, 'impl_model': float(num_of(impl)),
                              'real': float(rq) if rq is not None else real})
    else:
        same = (impl == real) or (impl == 'N:nonfinite' and real in ('N:nan', 'N:+inf', 'N:-inf'))
        if not same:
            res.drift.append({'fn': inp['fn'], 'input': inp, 'impl_model': impl, 'real': real})
    return True


# ---------------------------------------------------------------- sections

def sec_npv(ctx, res, sink, F, n):
    rng = ctx.rng
    for i in range(n):
        r = rand_rate(rng)
        if not ok_rate(r):
            continue
        vals = rand_flows(rng)
        shape = i % 3
        if shape == 0:
            real = call_real(F['NPV'], r, *vals)
        elif shape == 1:
            real = call_real(F['NPV'], r, [vals])
        else:
            real = call_real(F['NPV'], r, [[v] for v in vals])
        inp = {'fn': 'NPV', 'rate': r, 'values': vals, 'shape': ['args', 'row', 'column'][shape]}
        sink.add(['NPV', w_frac(fr(r)), wl(vals)] + real_fields(real),
                 lambda d, line, inp=inp, real=real: judge_value(
                     res, 'NPV differs from sum c_i/(1+r)^i (i from 1)', inp, real, d, line,
                     nontrivial=len(inp['values']) > 1))
    # linearity and rate 0 on the real code itself (integer flows: the sums of inputs are exact)
    for _ in range(max(20, n // 10)):
        k = rng.randint(1, 30)
        a = [rng.randint(-10 ** 4, 10 ** 4) for _ in range(k)]
        b = [rng.randint(-10 ** 4, 10 ** 4) for _ in range(k)]
        r = rand_rate(rng)
        if not ok_rate(r):
            continue
        c = rng.choice([2, -3, 0.5, 7])
        npv_linear_case(res, F, r, a, b, c)
        v0 = num_of(call_real(F['NPV'], 0, *a))
        res.evaluations += 1
        res.count('NPV-rate0')
        if v0 != sum(a):
            res.violations.append({'what': 'NPV at rate 0 is not the plain sum',
                                   'input': {'fn': 'NPV', 'rate': 0, 'values': a}, 'expected': sum(a),
                                   'got': str(v0)})


def npv_linear_case(res, F, r, a, b, c):
    k = len(a)
    va, vb = num_of(call_real(F['NPV'], r, *a)), num_of(call_real(F['NPV'], r, *b))
    vab = num_of(call_real(F['NPV'], r, *[x + y for x, y in zip(a, b)]))
    vca = num_of(call_real(F['NPV'], r, *[c * x for x in a]))
    res.evaluations += 1
    res.count('NPV-linearity')
    gross = sum(abs(fr(x)) + abs(fr(y)) for x, y in zip(a, b)) * max(1, (1 / (1 + fr(r))) ** k)
    if None in (va, vb, vab, vca) or not close(vab, va + vb, gross) or not close(vca, fr(c) * va, gross * 7):
        res.violations.append({'what': 'NPV is not linear in the cash flows',
                               'input': {'fn': 'NPV-linear', 'rate': r, 'a': a, 'b': b, 'c': c},
                               'expected': 'NPV(a+b)=NPV(a)+NPV(b), NPV(c*a)=c*NPV(a)',
                               'got': [str(va), str(vb), str(vab), str(vca)]})


GRID_Q = {
    'rate': [-0.5, -0.1, -0.01, 0, 0.0001, 0.005, 0.05, 0.1, 0.5, 1, 10],
    'nper': [1, 2, 3, 5, 10, 12, 30, 60, 120, 360],
    'pv': [-1000, -1, 0, 0.5, 1000, 123456.78],
    'fv': [-500, 0, 1, 10000],
    'type': [0, 1],
}
GRID_T = {
    'rate': [-0.89, -0.75, -0.5, -0.25, -0.1, -0.01, -0.0001, 0, 0.0, 0.00001, 0.0001, 0.001, 0.005, 0.01,
             0.04 / 12, 0.05, 0.075, 0.1, 0.25, 0.5, 1, 2.5, 5, 10],
    'nper': [1, 2, 3, 4, 5, 7, 10, 12, 24, 30, 60, 120, 240, 360],
    'pv': [-1000000, -1000, -1, 0, 0.01, 0.5, 1000, 123456.78],
    'fv': [-500, 0, 1, 99.99, 10000],
    'type': [0, 1],
}


def representable(r, n):
    try:
        t = (1 + float(r)) ** float(n)
    except OverflowError:
        return False
    return 1e-250 < t < 1e250


def annuity_case(res, sink, F, fn, r, n, a, fv, t, how='grid'):
    """fn in PMT/PV; a = pv (PMT) or pmt (PV)"""
    with warnings.catch_warnings():
        warnings.simplefilter('ignore')
        real = call_real(F[fn], r, n, a, fv, t)
    inp = {'fn': fn, 'rate': r, 'nper': n, ('pv' if fn == 'PMT' else 'pmt'): a, 'fv': fv, 'type': t}
    what = (f'{fn} differs from the solution of the annuity equation '
            '(balance after nper periods + fv = 0)')
    in_dom = not (fn == 'PMT' and t != 0)
    sink.add([fn, w_frac(fr(r)), w_frac(fr(n)), w_frac(fr(a)), w_frac(fr(fv)), w_frac(fr(t))] + real_fields(real),
             lambda d, line: judge_value(res, what, inp, real, d, line, in_domain=in_dom,
                                         nontrivial=(a != 0 or fv != 0)))
    res.count(f'{fn}:{how}')


def sec_annuity(ctx, res, sink, F, thorough):
    rng = ctx.rng
    g = GRID_T if thorough else GRID_Q
    for r in g['rate']:
        for n in g['nper']:
            if not representable(r, n):
                continue
            for a in g['pv']:
                for fv in g['fv']:
                    for t in g['type']:
                        annuity_case(res, sink, F, 'PMT', r, n, a, fv, t)
                        annuity_case(res, sink, F, 'PV', r, n, -a if a else a, fv, t)
    nrand = 20000 if thorough else 1200
    for _ in range(nrand):
        r = rand_rate(rng)
        n = rng.choice([1, 2, 3, 6, 12, 24, 36, 48, 60, 120, 180, 360, rng.randint(1, 400)])
        if not ok_rate(r) or not representable(r, n):
            continue
        a = rand_money(rng) * rng.choice([1, -1])
        fv = rng.choice([0, 0, rand_money(rng) * rng.choice([1, -1])])
        t = rng.choice([0, 1, 0.0, 1.0, True, False])
        fn = rng.choice(['PMT', 'PV'])
        annuity_case(res, sink, F, fn, r, n, a, fv, int(t) if isinstance(t, bool) else t, how='random')
    # PV(r, n, PMT(r, n, pv, fv), fv) = pv on the real code
    ninv = 4000 if thorough else 400
    for _ in range(ninv):
        r = rand_rate(rng)
        n = rng.choice([1, 2, 5, 12, 60, 360, rng.randint(1, 400)])
        if not ok_rate(r) or not representable(r, n):
            continue
        pv = rand_money(rng) * rng.choice([1, -1])
        fv = rng.choice([0, rand_money(rng) * rng.choice([1, -1])])
        if pv == 0:
            continue
        pv_pmt_case(res, F, r, n, pv, fv)
    # non-integral nper: closed forms in 50-digit decimal (trusted), real vs statement only
    nfrac = 3000 if thorough else 300
    for _ in range(nfrac):
        r = rand_rate(rng)
        n = round(rng.uniform(0.25, 120), rng.choice([1, 2, 3]))
        if not ok_rate(r) or r == 0 or not representable(r, n) or n == int(n):
            continue
        a = rand_money(rng) * rng.choice([1, -1])
        fv = rng.choice([0, rand_money(rng)])
        t = rng.choice([0, 1])
        fn = rng.choice(['PMT', 'PV'])
        with warnings.catch_warnings():
            warnings.simplefilter('ignore')
            real = call_real(F[fn], r, n, a, fv, t)
        R, A, FV = dec(fr(r)), dec(fr(a)), dec(fr(fv))
        temp = (1 + R) ** dec(fr(n))
        if fn == 'PV':
            fact = (1 + R * t) * (temp - 1) / R
            spec = -(FV + A * fact) / temp
            gross = (abs(FV) + abs(A * fact)) / temp
        else:
            fact = (temp - 1) / R              # the statement: payments at period end
            spec = -(FV + A * temp) / fact
            gross = (abs(FV) + abs(A) * temp) / abs(fact)
            if t != 0:
                continue
        res.evaluations += 1
        res.count(f'{fn}:fractional-nper')
        rq = num_of(real)
        inp = {'fn': fn, 'rate': r, 'nper': n, 'a': a, 'fv': fv, 'type': t}
        res.nontrivial.add(json.dumps(inp, sort_keys=True))
        if rq is None or not close(rq, Fraction(spec), Fraction(gross)):
            res.violations.append({'what': f'{fn} with non-integral nper differs from the closed form',
                                   'input': inp, 'expected': float(spec),
                                   'got': float(rq) if rq is not None else real})


def pv_pmt_case(res, F, r, n, pv, fv):
    with warnings.catch_warnings():
        warnings.simplefilter('ignore')
        pmt = F['PMT'](r, n, pv, fv)
        back = call_real(F['PV'], r, n, pmt, fv, 0) if not isinstance(pmt, Exception) else 'X:PMT-error'
    res.evaluations += 1
    res.count('PV(PMT)')
    bq = num_of(back)
    # rounding scale: the two closed forms amplify by (|pv| temp + |fv|)/temp
    temp = (1 + fr(r)) ** n
    gross = (abs(fr(pv)) * temp + abs(fr(fv))) / temp + abs(fr(fv)) / temp
    inp = {'fn': 'PV(PMT)', 'rate': r, 'nper': n, 'pv': pv, 'fv': fv}
    res.nontrivial.add(json.dumps(inp, sort_keys=True))
    if bq is None or abs(bq - fr(pv)) > TOL * 100 * max(gross, abs(fr(pv))):
        res.violations.append({'what': 'PV(r,n,PMT(r,n,pv,fv),fv) is not pv', 'input': inp,
                               'expected': pv, 'got': float(bq) if bq is not None else back})


def sec_sln(ctx, res, sink, F, n):
    rng = ctx.rng
    specials = [(100, 10, 5), (1, 1, 1), (0, 0, 0.5), (30000, 7500, 10), (1e6, 0, 3), (10, 20, 4), (-5, 3, 2)]
    for i in range(n):
        if i < len(specials):
            cost, salv, life = specials[i]
        else:
            cost = rand_money(rng)
            salv = rng.choice([0, rand_money(rng), cost])
            life = rng.choice([1, 2, 3, 5, 10, 0.5, 7.5, rng.randint(1, 100), round(rng.uniform(0.01, 50), 2)])
        real = call_real(F['SLN'], cost, salv, life)
        inp = {'fn': 'SLN', 'cost': cost, 'salvage': salv, 'life': life}

        sink.add(['SLN', w_frac(fr(cost)), w_frac(fr(salv)), w_frac(fr(life))] + real_fields(real),
                 lambda d, line, inp=inp, real=real: judge_value(
                     res, 'SLN differs from (cost-salvage)/life', inp, real, d, line,
                     nontrivial=inp['cost'] != inp['salvage']))


def as_range(vals, shape):
    return [list(vals)] if shape == 0 else [[v] for v in vals]


def sec_xnpv(ctx, res, sink, F, n):
    rng = ctx.rng
    for i in range(n):
        r = rand_rate(rng)
        if not ok_rate(r):
            continue
        k = rng.randint(1, 30)
        vals = rand_flows(rng, k)
        ds = rand_dates(rng, k)
        use_dt = (i % 7 == 3)
        dates_arg = ds
        if use_dt:
            ds = [d for d in ds if d > 61]
            vals = vals[:len(ds)]
            if not ds:
                continue
            dates_arg = [datetime.datetime(1899, 12, 30) + datetime.timedelta(days=d) for d in ds]
        shape = i % 2
        real = call_real(F['XNPV'], r, as_range(vals, shape), as_range(dates_arg, shape))
        offs = [Fraction(d - ds[0], 365) for d in ds]
        ws = pow_weights(1 + fr(r), offs)
        inp = {'fn': 'XNPV', 'rate': r, 'values': vals, 'dates': ds, 'as_datetime': use_dt}
        sink.add(['XNPV', w_frac(fr(r)), wl(vals), wl(ds), wl(ws)] + real_fields(real),
                 lambda d, line, inp=inp, real=real: judge_value(
                     res, 'XNPV differs from sum v_i/(1+r)^((d_i-d_1)/365)', inp, real, d, line,
                     nontrivial=len(inp['values']) > 1))
    for _ in range(max(20, n // 10)):
        k = rng.randint(1, 30)
        a = [rng.randint(-10 ** 4, 10 ** 4) for _ in range(k)]
        b = [rng.randint(-10 ** 4, 10 ** 4) for _ in range(k)]
        ds = rand_dates(rng, k)
        r = rand_rate(rng)
        if not ok_rate(r):
            continue
        c = rng.choice([2, -3, 0.5, 7])
        xnpv_linear_case(res, F, r, a, b, c, ds)


def xnpv_linear_case(res, F, r, a, b, c, ds):
    va = num_of(call_real(F['XNPV'], r, [a], [ds]))
    vb = num_of(call_real(F['XNPV'], r, [b], [ds]))
    vab = num_of(call_real(F['XNPV'], r, [[x + y for x, y in zip(a, b)]], [ds]))
    vca = num_of(call_real(F['XNPV'], r, [[c * x for x in a]], [ds]))
    res.evaluations += 1
    res.count('XNPV-linearity')
    span = Fraction(ds[-1] - ds[0], 365)
    amp = 1 if r >= 0 else Fraction(1 / (1 + r) ** float(span)) + 1
    gross = sum(abs(x) + abs(y) for x, y in zip(a, b)) * amp
    if None in (va, vb, vab, vca) or not close(vab, va + vb, gross) or not close(vca, fr(c) * va, gross * 7):
        res.violations.append({'what': 'XNPV is not linear in the cash flows',
                               'input': {'fn': 'XNPV-linear', 'rate': r, 'a': a, 'b': b, 'c': c, 'dates': ds},
                               'expected': 'XNPV(a+b)=XNPV(a)+XNPV(b), XNPV(c*a)=c*XNPV(a)',
                               'got': [str(va), str(vb), str(vab), str(vca)]})


def pvsum(r, vals):
    r = fr(r)
    return sum(fr(v) / (1 + r) ** i for i, v in enumerate(vals))


def irr_case(res, sink, F, vals, how='random', real=None, inp=None):
    """certify IRR of `vals`; `real` (wire) may be supplied by a caller that obtained it through a formula"""
    if real is None:
        with warnings.catch_warnings():
            warnings.simplefilter('ignore')
            real = call_real(F['IRR'], as_range(vals, 0))
    inp = inp or {'fn': 'IRR', 'values': vals}
    rq = num_of(real)
    res.count('IRR:' + how)
    if rq is None or rq - EPS <= -1:
        res.evaluations += 1
        res.violations.append({'what': 'IRR returns no rate for an outlay followed by larger returns',
                               'input': inp, 'expected': 'the unique root of sum c_i/(1+r)^i', 'got': real})
        return

    def h(d, line):
        res.evaluations += 1
        res.count('IRR')
        res.nontrivial.add(line)
        sample(res, {'fn': 'IRR', 'input': inp, 'real': float(rq), 'certificate': dict(d)})
        if d.get('dom') != '1':
            raise RuntimeError(f'generator produced flows outside the domain: {vals}')
        if not (d['lo'] == '+' and d['hi'] == '-'):
            res.violations.append({
                'what': 'IRR: the NPV of the same flows does not change sign from + to - between r-1e-6 and '
                        'r+1e-6 (the unique root is not within 1e-6 of the result)',
                'input': inp, 'expected': 'sign(NPV(r-1e-6))=+, sign(NPV(r+1e-6))=-',
                'got': {'r': float(rq), 'lo': d['lo'], 'hi': d['hi']}})
        elif d.get('agree') != '1':
            res.drift.append({'fn': 'IRR', 'note': 'model NPV and reference NPV differ at the certificate points',
                              'input': inp})
    sink.add(['IRRCERT', w_frac(rq), w_frac(EPS), wl(vals)], h)


def sec_irr(ctx, res, sink, F, n):
    rng = ctx.rng
    fixed = [[-100, 0, 121], [-100, 39, 59, 55, 20], [-1, 2], [-1000, 0, 0, 0, 0, 0, 0, 0, 0, 0, 2000],
             [-70000, 12000, 15000, 18000, 21000, 26000], [-100] + [0] * 28 + [101], [-5, 1, 1, 1, 1, 1, 0.01]]
    for v in fixed:
        irr_case(res, sink, F, v, 'fixed')
    made = 0
    while made < n:
        vals = outlay_flows(rng)
        if pvsum(10, vals) >= 0:          # root above 10: outside the rates the statement quantifies over
            res.count('IRR:skipped-root>10')
            continue
        made += 1
        irr_case(res, sink, F, vals)


def ref_xirr(vals, ds, guess):
    """Model.XIRR with its two parameters instantiated by the libraries the code uses: `solve` =
    scipy.optimize.newton(…, maxiter=100) on the reference XNPV, `w` = float power.  Returns a float or
    None (= #NUM!)."""
    from scipy.optimize import newton

    def f(r, values=vals):
        if r <= -1.0:
            return float('inf')
        return sum([v / ((1.0 + r) ** ((d - ds[0]) / 365)) for v, d in zip(values, ds)])
    try:
        with warnings.catch_warnings():
            warnings.simplefilter('ignore')
            rate = newton(f, guess, maxiter=100)
    except (RuntimeError, FloatingPointError):
        return None
    residual, gross = f(rate), f(rate, [abs(v) for v in vals])
    if rate <= -1.0 or not abs(residual) <= 1e-6 * gross:
        return None
    return float(rate)


def xirr_case(ctx, res, sink, F, vals, ds, guess=None, how='random', real=None, inp=None):
    """certify XIRR of (`vals`, `ds`); `real` (wire) may be supplied by a caller that obtained it through a
    formula (then the rows handed to the solver are not observed)"""
    from xlcalculator.xlfunctions import financial
    seen = {}
    if real is None:
        orig = financial._xirr

        def spy(values, dates, g=None):
            seen['series'] = ([float(v) for v in values], [float(d) for d in dates], g)
            return orig(values, dates, g)
        financial._xirr = spy
        try:
            with warnings.catch_warnings():
                warnings.simplefilter('ignore')
                args = (as_range(vals, 1), as_range(ds, 1)) + ((guess,) if guess is not None else ())
                real = call_real(F['XIRR'], *args)
        finally:
            financial._xirr = orig
    if inp is None:
        inp = {'fn': 'XIRR', 'values': vals, 'dates': ds}
        if guess is not None:
            inp['guess'] = guess
    g = 0.1 if guess is None else guess
    rq = num_of(real)
    res.count('XIRR:' + how)
    span = (ds[-1] - ds[0]) / 365
    res.count('XIRR:horizon ' + ('<1y' if span < 1 else '<5y' if span < 5 else '<20y' if span < 20 else '>=20y'))

    def prep(d, line):
        mv = [float(common.un_frac(x)) for x in d['vals'][2:].split(',')] if d['vals'] != 'L:' else []
        md = [float(common.un_frac(x)) for x in d['dates'][2:].split(',')] if d['dates'] != 'L:' else []
        if 'series' in seen and (seen['series'][0] != mv or seen['series'][1] != md or seen['series'][2] != g):
            res.drift.append({'fn': 'XIRR', 'note': 'rows handed to the solver differ from the model',
                              'input': inp, 'real': seen['series'], 'impl_model': [mv, md, g]})
        if rq is None:
            # no rate: a violation unless it is the listed finding (the solver fails on the reference too)
            res.evaluations += 1
            res.count('outcome:' + real[:6])
            model = ref_xirr(mv, md, g)
            listed = any(e['id'] == 'D2002' and e.get('status') == 'known' for e in ctx.known)
            if real == 'E:NUM' and model is None and listed:
                res.known.setdefault('D2002', []).append(inp)
                res.count('D2002:horizon ' + ('<5y' if span < 5 else '<20y' if span < 20 else '<30y' if span < 30
                                              else '>=30y'))
                res.count('D2002:' + ('default guess' if guess is None else 'explicit guess'))
            else:
                res.violations.append({
                    'what': 'XIRR returns no rate for an outlay followed by larger returns'
                            + ('' if model is None else ' although the solver converges on the reference XNPV'),
                    'input': inp, 'expected': 'the unique root of XNPV' + ('' if model is None else f' ~ {model}'),
                    'got': real})
    sink.add(['XIRRPREP', wl(vals), wl(ds)], prep)
    if rq is None:
        return
    if rq - EPS <= -1:
        res.evaluations += 1
        res.violations.append({'what': 'XIRR returns a rate <= -1', 'input': inp, 'expected': '> 0', 'got': real})
        return
    offs = [Fraction(d - ds[0], 365) for d in ds]
    wlo = pow_weights(1 + rq - EPS, offs)
    whi = pow_weights(1 + rq + EPS, offs)

    def h(d, line):
        res.evaluations += 1
        res.count('XIRR')
        res.nontrivial.add(line)
        sample(res, {'fn': 'XIRR', 'input': inp, 'real': float(rq), 'certificate': dict(d)})
        if d.get('dom') != '1':
            raise RuntimeError(f'generator produced flows outside the domain: {vals}')
        if not (d['lo'] == '+' and d['hi'] == '-'):
            res.violations.append({
                'what': 'XIRR: the XNPV of the same flows does not change sign from + to - between r-1e-6 '
                        'and r+1e-6 (the unique root is not within 1e-6 of the result)',
                'input': inp, 'expected': 'sign(XNPV(r-1e-6))=+, sign(XNPV(r+1e-6))=-',
                'got': {'r': float(rq), 'lo': d['lo'], 'hi': d['hi']}})
    sink.add(['XIRRCERT', wl(vals), wl(ds), wl(wlo), wl(whi)], h)


def xroot_le_10(vals, ds):
    s = Decimal(0)
    for v, d in zip(vals, ds):
        s += dec(fr(v)) / (Decimal(11) ** (Decimal(d - ds[0]) / Decimal(365)))
    return s < 0


def sec_xirr(ctx, res, sink, F, n):
    rng = ctx.rng
    fixed = [([-10000, 2750, 4250, 3250, 2750], [39448, 39508, 39751, 39859, 39904]),
             ([-100, 0, 110], [43831, 43900, 44196]),
             ([-100, 110], [43831, 44196]),
             ([-1000, 0, 0, 500, 0, 700.5], [40000, 40001, 40002, 40400, 40401, 41000])]
    for v, d in fixed:
        xirr_case(ctx, res, sink, F, v, d, how='fixed')
    made = 0
    while made < n:
        vals = outlay_flows(rng)
        ds = rand_dates(rng, len(vals))
        if not xroot_le_10(vals, ds):
            res.count('XIRR:skipped-root>10')
            continue
        made += 1
        guess = None if rng.random() < 0.8 else rng.choice([0.1, 0.05, 0.2, 0.01, 0.5])
        xirr_case(ctx, res, sink, F, vals, ds, guess)


def lit(x):
    if isinstance(x, bool):
        return 'TRUE' if x else 'FALSE'
    if isinstance(x, int):
        return str(x)
    s = repr(float(x))
    if 'e' in s or 'E' in s:
        s = format(Decimal(float(x)), 'f')
    return s


def sec_formulas(ctx, res, F, n):
    """the same through formulas: tokenizer, parser, FunctionNode, range evaluation, validate_args"""
    rng = ctx.rng
    for i in range(n):
        kind = ['NPV', 'IRR', 'XNPV', 'XIRR', 'PMT', 'PV', 'SLN', 'NPVargs'][i % 8]
        cells = {}
        if kind in ('NPV', 'NPVargs', 'XNPV'):
            k = rng.randint(1, 12)
            vals = [round(v, 6) if isinstance(v, float) else v for v in rand_flows(rng, k)]
        elif kind in ('IRR', 'XIRR'):
            vals = outlay_flows(rng)[:12]
            if sum(fr(v) for v in vals) <= 0:
                vals[-1] = abs(vals[0]) * 2
            k = len(vals)
        r = round(rand_rate(rng), 6)
        if not ok_rate(r):
            r = 0.1
        if kind in ('NPV', 'NPVargs', 'XNPV', 'IRR', 'XIRR'):
            for j, v in enumerate(vals):
                cells[f'Sheet1!A{j + 1}'] = v
            ds = rand_dates(rng, k, long_ok=False)
            for j, d in enumerate(ds):
                cells[f'Sheet1!B{j + 1}'] = d
        if kind == 'NPV':
            f = f'=NPV({lit(r)},A1:A{k})'
            direct = call_real(F['NPV'], r, [[v] for v in vals])
        elif kind == 'NPVargs':
            f = f'=NPV({lit(r)},' + ','.join(f'A{j + 1}' for j in range(k)) + ')'
            direct = call_real(F['NPV'], r, *vals)
        elif kind == 'IRR':
            f = f'=IRR(A1:A{k})'
            with warnings.catch_warnings():
                warnings.simplefilter('ignore')
                direct = call_real(F['IRR'], [[v] for v in vals])
        elif kind == 'XNPV':
            f = f'=XNPV({lit(r)},A1:A{k},B1:B{k})'
            direct = call_real(F['XNPV'], r, [[v] for v in vals], [[d] for d in ds])
        elif kind == 'XIRR':
            f = f'=XIRR(A1:A{k},B1:B{k})'
            with warnings.catch_warnings():
                warnings.simplefilter('ignore')
                direct = call_real(F['XIRR'], [[v] for v in vals], [[d] for d in ds])
        elif kind in ('PMT', 'PV'):
            n_ = rng.choice([1, 5, 12, 60, 360])
            if not representable(r, n_):
                n_ = 1
            a = round(rand_money(rng), 2) * rng.choice([1, -1])
            fv = rng.choice([0, round(rand_money(rng), 2)])
            t = rng.choice([0, 1])
            f = f'={kind}({lit(r)},{n_},{lit(a)},{lit(fv)},{t})'
            with warnings.catch_warnings():
                warnings.simplefilter('ignore')
                direct = call_real(F[kind], r, n_, a, fv, t)
        else:
            cost, salv, life = round(rand_money(rng), 2), round(rand_money(rng), 2), rng.choice([1, 3, 5, 7.5, 10])
            f = f'=SLN({lit(cost)},{lit(salv)},{lit(life)})'
            direct = call_real(F['SLN'], cost, salv, life)
        cells['Sheet1!D1'] = f
        formula_case(res, cells, direct, kind)


def formula_case(res, cells, direct, kind):
    from xlcalculator import ModelCompiler, Evaluator

    def ev():
        m = ModelCompiler().read_and_parse_dict(dict(cells))
        return Evaluator(m).evaluate('Sheet1!D1')
    with warnings.catch_warnings():
        warnings.simplefilter('ignore')
        got = call_real(ev)
    res.evaluations += 1
    res.count('via_formula:' + kind)
    gq, dq = num_of(got), num_of(direct)
    same = (got == direct) if (gq is None or dq is None) else abs(gq - dq) <= Fraction(1, 10 ** 12) * max(abs(dq), 1)
    if not same:
        res.violations.append({'what': f'{kind} through a formula differs from the direct call (which agrees '
                                       'with the reference)',
                               'input': {'fn': 'formula', 'kind': kind, 'cells': dict(cells), 'direct': direct},
                               'expected': direct, 'got': got})


# ---------------------------------------------------------------- literal spellings in formulas

def dec_plain(d):
    """positional notation of a Decimal without exponent and without superfluous zeros ('0.08', '1500')"""
    t = format(d, 'f')
    if '.' in t:
        t = t.rstrip('0').rstrip('.')
    return t or '0'


SPELL_STYLES = ['plain', 'nolead', 'nolead', 'pct', 'pctnolead', 'trail0', 'dot', 'sci', 'scilow', 'scipos', 'plus',
                'plusnolead', 'paren']


def spell(neg, m, e, style):
    """A formula-text spelling of the number (-1)^neg * m * 10^e (m a positive integer), or None when the
    style does not apply.  Scientific notation only in the normalised form d(.ddd)E±x (DESIGN.md C01)."""
    d = Decimal(m).scaleb(e)
    plain = dec_plain(d)
    t = None
    if style == 'plain':
        t = plain
    elif style == 'nolead':
        t = plain[1:] if plain.startswith('0.') else None
    elif style in ('pct', 'pctnolead'):
        q = dec_plain(d * 100)
        if style == 'pctnolead':
            q = q[1:] if q.startswith('0.') else None
        t = q + '%' if q else None
    elif style == 'trail0':
        t = plain + '0' if '.' in plain else plain + '.0'
    elif style == 'dot':
        t = plain + '.' if '.' not in plain else None
    elif style in ('sci', 'scilow', 'scipos'):
        digits = str(m).rstrip('0')
        ex = e + (len(str(m)) - len(digits)) + len(digits) - 1
        mant = digits[0] + ('.' + digits[1:] if len(digits) > 1 else '')
        if style == 'scipos':
            t = f'{mant}E{ex}' if ex > 0 else None
        else:
            t = f'{mant}{"E" if style == "sci" else "e"}{ex:+d}'
    elif style == 'plus':
        t = None if neg else '+' + plain
    elif style == 'plusnolead':
        t = '+' + plain[1:] if (not neg and plain.startswith('0.')) else None
    elif style == 'paren':
        return '(' + ('-' if neg else '') + plain + ')'
    if t is None:
        return None
    return ('-' if neg else '') + t


def spelled(rng, neg, m, e):
    """(text, exact value) with a random applicable spelling"""
    for _ in range(20):
        t = spell(neg, m, e, rng.choice(SPELL_STYLES))
        if t is not None:
            break
    else:
        t = spell(neg, m, e, 'plain')
    return t, (-1 if neg else 1) * Fraction(m) * Fraction(10) ** e


def rate_key(rng):
    """(neg, m, e) of a rate in (-0.9, 10] with at most three significant digits, |rate| >= 1e-4"""
    while True:
        m, e = rng.randint(1, 999), rng.choice([-4, -3, -2, -2, -2, -1, -1, 0])
        neg = rng.random() < 0.2
        q = Fraction(m) * Fraction(10) ** e
        if (neg and q >= Fraction(9, 10)) or q > 10:
            continue
        return neg, m, e


def spelled_rate(rng):
    return spelled(rng, *rate_key(rng))


def spelled_amount(rng, neg=None, positive_only=False):
    m, e = rng.randint(1, 99999), rng.choice([-2, -1, 0, 0, 1, 2])
    if neg is None:
        neg = (not positive_only) and rng.random() < 0.4
    return spelled(rng, neg, m, e)


def spelled_case(res, sink, kind, cells, req, what, in_domain=True):
    """evaluate Sheet1!D1 of `cells` in a compiled model and judge it against the reference for the driver
    request `req` (the exact values the spellings denote)"""
    from xlcalculator import ModelCompiler, Evaluator

    def ev():
        m = ModelCompiler().read_and_parse_dict(dict(cells))
        return Evaluator(m).evaluate('Sheet1!D1')
    with warnings.catch_warnings():
        warnings.simplefilter('ignore')
        real = call_real(ev)
    inp = {'fn': 'spelled', 'kind': kind, 'cells': dict(cells), 'req': list(req), 'what': what}
    res.count('spelled:' + kind)
    sink.add(list(req) + real_fields(real),
             lambda d, line: judge_value(res, what + ' (number literals spelt the way Excel accepts them)', inp,
                                         real, d, line, in_domain=in_domain))


def spelled_identity_case(res, cells, rq, n, pvq, fvq):
    """=PV(r,n,PMT(r,n,pv,fv),fv) typed with spelt literals must give back pv"""
    from xlcalculator import ModelCompiler, Evaluator

    def ev():
        m = ModelCompiler().read_and_parse_dict(dict(cells))
        return Evaluator(m).evaluate('Sheet1!D1')
    with warnings.catch_warnings():
        warnings.simplefilter('ignore')
        back = call_real(ev)
    res.evaluations += 1
    res.count('spelled:PV(PMT)')
    bq = num_of(back)
    temp = (1 + rq) ** n
    gross = (abs(pvq) * temp + 2 * abs(fvq)) / temp
    inp = {'fn': 'spelled-identity', 'cells': dict(cells), 'rate': str(rq), 'nper': n, 'pv': str(pvq),
           'fv': str(fvq)}
    res.nontrivial.add(cells['Sheet1!D1'])
    if bq is None or abs(bq - pvq) > TOL * 100 * max(gross, abs(pvq)):
        res.violations.append({'what': 'PV(r,n,PMT(r,n,pv,fv),fv) through a formula with spelt literals is not pv',
                               'input': inp, 'expected': float(pvq),
                               'got': float(bq) if bq is not None else back})


def sec_spellings(ctx, res, sink, F, n):
    """rates and amounts typed into the formula text in every spelling Excel accepts for the same number:
    0.08 .08 8% .8% 0.080 8. 8E-2 8e-2 1E3 +0.08 +.08 (0.08) and their negatives; the reference is evaluated
    on the exact values the spellings denote"""
    rng = ctx.rng
    fixed = [('NPV', {'Sheet1!D1': '=NPV(.08,-1000,500,700)'}, ['NPV', '8/100', 'L:-1000,500,700']),
             ('NPV', {'Sheet1!D1': '=NPV(-.25,-1000,500.,7E+2)'}, ['NPV', '-1/4', 'L:-1000,500,700']),
             ('NPV', {'Sheet1!D1': '=NPV(8%,-1E3,5E+2,+700.0)'}, ['NPV', '8/100', 'L:-1000,500,700']),
             ('PMT', {'Sheet1!D1': '=PMT(.05,10,1000,-200)'}, ['PMT', '1/20', '10', '1000', '-200', '0']),
             ('PV', {'Sheet1!D1': '=PV(.05,10.,-100,50,1)'}, ['PV', '1/20', '10', '-100', '50', '1']),
             ('SLN', {'Sheet1!D1': '=SLN(1000,100,.5)'}, ['SLN', '1000', '100', '1/2'])]
    whats = {'NPV': 'NPV through a formula differs from sum c_i/(1+r)^i',
             'PMT': 'PMT through a formula differs from the solution of the annuity equation',
             'PV': 'PV through a formula differs from the solution of the annuity equation',
             'SLN': 'SLN through a formula differs from (cost-salvage)/life',
             'XNPV': 'XNPV through a formula differs from sum v_i/(1+r)^((d_i-d_1)/365)'}
    for kind, cells, req in fixed:
        spelled_case(res, sink, kind, cells, req, whats[kind])
    for i in range(n):
        kind = ['NPV', 'PMT', 'PV', 'SLN', 'NPVcells', 'XNPV', 'PVPMT'][i % 7]
        cells = {}
        if kind == 'NPV':
            rt, rq = spelled_rate(rng)
            flows = [spelled_amount(rng) for _ in range(rng.randint(1, 8))]
            cells['Sheet1!D1'] = f'=NPV({rt},' + ','.join(t for t, _ in flows) + ')'
            spelled_case(res, sink, 'NPV', cells, ['NPV', w_frac(rq), wl([q for _, q in flows])], whats['NPV'])
        elif kind == 'NPVcells':
            # the spelt numbers live in cells (as formulas `=.08`), the function reads a range of them
            rt, rq = spelled_rate(rng)
            flows = [spelled_amount(rng) for _ in range(rng.randint(1, 8))]
            cells['Sheet1!A1'] = '=' + rt
            for j, (t, _) in enumerate(flows):
                cells[f'Sheet1!B{j + 1}'] = '=' + t
            cells['Sheet1!D1'] = f'=NPV(A1,B1:B{len(flows)})'
            spelled_case(res, sink, 'NPVcells', cells, ['NPV', w_frac(rq), wl([q for _, q in flows])], whats['NPV'])
        elif kind in ('PMT', 'PV', 'PVPMT'):
            while True:
                key = rate_key(rng)
                rt, rq = spelled(rng, *key)
                n_ = rng.choice([1, 2, 5, 10, 12, 24, 60, 120, 360])
                if representable(float(rq), n_):
                    break
            nt = rng.choice([str(n_), f'{n_}.', f'{n_}.0', spell(False, n_, 0, 'sci'), f'+{n_}'])
            at, aq = spelled_amount(rng)
            ft, fq = rng.choice([('0', Fraction(0)), spelled_amount(rng)])
            if kind == 'PVPMT':
                # PV(r, n, PMT(r, n, pv, fv), fv) = pv; the inner call spells the same rate differently
                rt2 = spelled(rng, *key)[0]
                cells['Sheet1!D1'] = f'=PV({rt},{nt},PMT({rt2},{n_},{at},{ft}),{ft})'
                spelled_identity_case(res, cells, rq, n_, aq, fq)
                continue
            ty = rng.choice([0, 1]) if kind == 'PV' else 0
            arity = 5 if ty else rng.choice([3, 4, 5])
            if arity == 3:
                fq = Fraction(0)
            args = [rt, nt, at, ft, rng.choice([str(ty), f'{ty}.', f'+{ty}', f'{ty}.0'])][:arity]
            cells['Sheet1!D1'] = f'={kind}(' + ','.join(args) + ')'
            spelled_case(res, sink, kind, cells,
                         [kind, w_frac(rq), str(n_), w_frac(aq), w_frac(fq), str(ty)], whats[kind])
        elif kind == 'SLN':
            ct, cq = spelled_amount(rng, positive_only=True)
            st, sq = spelled_amount(rng, positive_only=True)
            m, e = rng.randint(1, 999), rng.choice([-2, -1, 0])
            lt, lq = spelled(rng, False, m, e)
            cells['Sheet1!D1'] = f'=SLN({ct},{st},{lt})'
            spelled_case(res, sink, 'SLN', cells, ['SLN', w_frac(cq), w_frac(sq), w_frac(lq)], whats['SLN'])
        else:
            rt, rq = spelled_rate(rng)
            k = rng.randint(1, 8)
            flows = [spelled_amount(rng) for _ in range(k)]
            ds = rand_dates(rng, k, long_ok=False)
            for j, ((t, _), d) in enumerate(zip(flows, ds)):
                cells[f'Sheet1!A{j + 1}'] = '=' + t
                cells[f'Sheet1!B{j + 1}'] = d
            cells['Sheet1!D1'] = f'=XNPV({rt},A1:A{k},B1:B{k})'
            ws = pow_weights(1 + rq, [Fraction(d - ds[0], 365) for d in ds])
            spelled_case(res, sink, 'XNPV', cells,
                         ['XNPV', w_frac(rq), wl([q for _, q in flows]), wl(ds), wl(ws)], whats['XNPV'])


# ---------------------------------------------------------------- histories: computed flows, changed inputs

def col_name(i):
    """0 -> A, 25 -> Z, 26 -> AA"""
    s = ''
    i += 1
    while i:
        i, r = divmod(i - 1, 26)
        s = chr(65 + r) + s
    return s


def history_layout(spec):
    """Cells of a scenario model.  Inputs in column A (rows 30..): rate, growth, step, date gap, nper, pv, fv.
    Flows: first the outlay and the first return as values, the later ones as formulas over the previous flow
    and the growth/step inputs; dates: the first as a value, the later ones `previous + gap`."""
    k, row_wise = spec['k'], spec['orient'] == 'row'

    def flow(i):
        return f'{col_name(1 + i)}1' if row_wise else f'B{1 + i}'

    def date(i):
        return f'{col_name(1 + i)}2' if row_wise else f'C{1 + i}'
    dollar = (lambda a: '$A$' + a[1:]) if spec.get('abs') else (lambda a: a)
    RATE, GROWTH, STEP, GAP, NPER, PV_, FV_ = ('A30', 'A31', 'A32', 'A33', 'A34', 'A35', 'A36')
    inputs = spec['inputs']
    cells = {RATE: inputs['rate'], GROWTH: inputs['growth'], STEP: inputs['step'], GAP: inputs['gap'],
             NPER: inputs['nper'], PV_: inputs['pv'], FV_: inputs['fv'],
             flow(0): inputs['outlay'], flow(1): inputs['first'], date(0): inputs['d0']}
    for i in range(2, k):
        if spec['template'] == 'geo':
            cells[flow(i)] = f'={flow(i - 1)}*(1+{dollar(GROWTH)})'
        elif spec['template'] == 'lin':
            cells[flow(i)] = f'={flow(i - 1)}+{dollar(STEP)}'
        else:
            cells[flow(i)] = f'={flow(1)}*(1+{dollar(GROWTH)})^{i - 1}+{dollar(STEP)}'
    for i in range(1, k):
        cells[date(i)] = f'={date(i - 1)}+{dollar(GAP)}'
    fr_, dr_ = f'{flow(0)}:{flow(k - 1)}', f'{date(0)}:{date(k - 1)}'
    out = {'NPV': f'=NPV({RATE},{fr_})', 'IRR': f'=IRR({fr_})', 'XNPV': f'=XNPV({RATE},{fr_},{dr_})',
           'XIRR': f'=XIRR({fr_},{dr_})', 'PMT': f'=PMT({RATE},{NPER},{PV_},{FV_})',
           'PV': f'=PV({RATE},{NPER},{PV_},{FV_},1)', 'SLN': f'=SLN({PV_},{FV_},{NPER})',
           'NPVrest': f'=NPV({RATE},{flow(1)}:{flow(k - 1)})+{flow(0)}'}
    addr = {}
    for j, (name, f) in enumerate(out.items()):
        addr[name] = f'A{40 + j}'
        cells[addr[name]] = f
    names = {'rate': RATE, 'growth': GROWTH, 'step': STEP, 'gap': GAP, 'nper': NPER, 'pv': PV_, 'fv': FV_,
             'outlay': flow(0), 'first': flow(1), 'd0': date(0)}
    return {'Sheet1!' + a: v for a, v in cells.items()}, addr, names


def history_values(spec, inputs):
    """the values the flow and date cells have for the current inputs (the same float operations, in the same
    order, as the cell formulas)"""
    k = spec['k']
    f = [inputs['outlay'], inputs['first']]
    for i in range(2, k):
        if spec['template'] == 'geo':
            f.append(f[i - 1] * (1 + inputs['growth']))
        elif spec['template'] == 'lin':
            f.append(f[i - 1] + inputs['step'])
        else:
            f.append(f[1] * (1 + inputs['growth']) ** (i - 1) + inputs['step'])
    d = [inputs['d0']]
    for i in range(1, k):
        d.append(d[i - 1] + inputs['gap'])
    return f[:k], d


def outlay_then_returns(vals):
    return vals[0] < 0 and all(v >= 0 for v in vals[1:]) and sum(fr(v) for v in vals) > 0


def history_case(ctx, res, sink, F, spec):
    """One compiled model, evaluated, then re-evaluated after each set_cell_value of the history; every
    financial cell is judged against the defining equation on the values the referenced cells have NOW."""
    from xlcalculator import ModelCompiler, Evaluator
    cells, addr, names = history_layout(spec)
    inputs = dict(spec['inputs'])
    with warnings.catch_warnings():
        warnings.simplefilter('ignore')
        try:
            ev = Evaluator(ModelCompiler().read_and_parse_dict(dict(cells)))
        except Exception as exc:  # noqa: BLE001
            res.evaluations += 1
            res.violations.append({'what': 'a scenario model with computed cash flows does not compile',
                                   'input': dict(spec, fn='history'), 'expected': 'a model',
                                   'got': 'X:' + type(exc).__name__})
            return
        for step_no, step in enumerate([None] + list(spec['steps'])):
            if step is not None:
                name, value = step
                inputs[name] = value
                got = call_real(lambda: ev.set_cell_value('Sheet1!' + names[name], value))
                if got.startswith('X:'):
                    res.evaluations += 1
                    res.violations.append({'what': 'set_cell_value on an input of a scenario model raises',
                                           'input': dict(spec, fn='history', at_step=step_no),
                                           'expected': 'no exception', 'got': got})
                    return
            flows, dates = history_values(spec, inputs)
            r, n_, pv_, fv_ = inputs['rate'], inputs['nper'], inputs['pv'], inputs['fv']
            order = list(addr)
            if spec.get('reverse'):
                order.reverse()
            real = {name: call_real(lambda a=addr[name]: ev.evaluate('Sheet1!' + a)) for name in order}
            res.count('history-step')

            def inp_of(name):
                return dict(spec, fn='history', at_step=step_no, cell=name, formula=cells['Sheet1!' + addr[name]],
                            current_flows=flows, current_dates=dates, current_inputs=dict(inputs))
            tag = ' (model re-evaluated after set_cell_value on its inputs)' if step_no else ' (computed flows)'
            sink.add(['NPV', w_frac(fr(r)), wl(flows)] + real_fields(real['NPV']),
                     lambda d, line, i=inp_of('NPV'), x=real['NPV']: judge_value(
                         res, 'NPV over a range of computed flows differs from sum c_i/(1+r)^i of the current '
                              'cell values' + tag, i, x, d, line))
            ws = pow_weights(1 + fr(r), [Fraction(d - dates[0], 365) for d in dates])
            sink.add(['XNPV', w_frac(fr(r)), wl(flows), wl(dates), wl(ws)] + real_fields(real['XNPV']),
                     lambda d, line, i=inp_of('XNPV'), x=real['XNPV']: judge_value(
                         res, 'XNPV over ranges of computed flows and dates differs from the defining sum on the '
                              'current cell values' + tag, i, x, d, line))
            sink.add(['PMT', w_frac(fr(r)), w_frac(fr(n_)), w_frac(fr(pv_)), w_frac(fr(fv_)), '0']
                     + real_fields(real['PMT']),
                     lambda d, line, i=inp_of('PMT'), x=real['PMT']: judge_value(
                         res, 'PMT of input cells differs from the annuity equation on the current cell values' + tag,
                         i, x, d, line))
            sink.add(['PV', w_frac(fr(r)), w_frac(fr(n_)), w_frac(fr(pv_)), w_frac(fr(fv_)), '1']
                     + real_fields(real['PV']),
                     lambda d, line, i=inp_of('PV'), x=real['PV']: judge_value(
                         res, 'PV of input cells differs from the annuity equation on the current cell values' + tag,
                         i, x, d, line))
            sink.add(['SLN', w_frac(fr(pv_)), w_frac(fr(fv_)), w_frac(fr(n_))] + real_fields(real['SLN']),
                     lambda d, line, i=inp_of('SLN'), x=real['SLN']: judge_value(
                         res, 'SLN of input cells differs from (cost-salvage)/life of the current cell values' + tag,
                         i, x, d, line))
            # NPV(rate, later flows) + outlay = (1+r) * NPV(rate, all flows): the usual spreadsheet idiom
            rest = num_of(real['NPVrest'])
            allq = num_of(real['NPV'])
            res.evaluations += 1
            res.count('history:NPV+outlay')
            gross = sum(abs(fr(v)) for v in flows) * max(1, (1 / (1 + fr(r))) ** len(flows)) * (2 + abs(fr(r)))
            if rest is None or allq is None or not close(rest, (1 + fr(r)) * allq, gross):
                res.violations.append({'what': 'NPV(r, c1..cn) + c0 is not (1+r) * NPV(r, c0..cn) on the same model'
                                               + tag, 'input': inp_of('NPVrest'),
                                       'expected': str((1 + fr(r)) * allq) if allq is not None else 'a number',
                                       'got': real['NPVrest']})
            if outlay_then_returns(flows) and pvsum(10, flows) < 0:
                irr_case(res, sink, F, flows, 'history', real=real['IRR'], inp=inp_of('IRR'))
                if xroot_le_10(flows, dates):
                    xirr_case(ctx, res, sink, F, flows, dates, None, 'history', real=real['XIRR'],
                              inp=inp_of('XIRR'))


def rand_history(rng):
    k = rng.randint(3, 12)
    first = rng.choice([400.0, 100, 250.5, round(rng.uniform(10, 5000), 2), rng.randint(10, 5000)])
    growth = rng.choice([0.05, 0.0, 0.1, -0.1, round(rng.uniform(-0.3, 0.6), 3)])
    step = rng.choice([0, 10, -5, 25.5, round(rng.uniform(-20, 100), 2)])
    template = rng.choice(['geo', 'geo', 'lin', 'pow'])
    if template != 'lin' and rng.random() < 0.7:
        step = 0
    outlay = -round(first * rng.uniform(0.5, 0.9 * (k - 1)), 2)
    spec = {'k': k, 'orient': rng.choice(['row', 'col']), 'template': template, 'abs': rng.random() < 0.5,
            'reverse': rng.random() < 0.3,
            'inputs': {'rate': rng.choice([0.08, 0.1, 0.05, round(rng.uniform(0.001, 0.5), 4)]),
                       'growth': growth, 'step': step, 'gap': rng.choice([365, 30, 91, 1, 366, rng.randint(1, 500)]),
                       'nper': rng.choice([1, 5, 10, 12, 60, 120]), 'pv': rng.choice([1000, 2500.5, 100000, 75.25]),
                       'fv': rng.choice([0, -200, 50, 1000.75]), 'outlay': outlay, 'first': first,
                       'd0': rng.randint(1000, 50000)},
            'steps': []}
    for _ in range(rng.randint(1, 4)):
        name = rng.choice(['growth', 'growth', 'step', 'rate', 'first', 'outlay', 'gap', 'nper', 'pv', 'fv'])
        value = {'growth': lambda: round(rng.uniform(-0.3, 0.6), 3),
                 'step': lambda: round(rng.uniform(0, 100), 2),
                 'rate': lambda: round(rng.uniform(0.001, 0.9), 4),
                 'first': lambda: round(rng.uniform(10, 5000), 2),
                 'outlay': lambda: -round(rng.uniform(10, 5000), 2),
                 'gap': lambda: rng.randint(1, 500),
                 'nper': lambda: rng.choice([2, 3, 6, 24, 36, 240]),
                 'pv': lambda: round(rng.uniform(-10 ** 5, 10 ** 5), 2),
                 'fv': lambda: round(rng.uniform(-10 ** 4, 10 ** 4), 2)}[name]()
        spec['steps'].append([name, value])
    return spec


def sec_histories(ctx, res, sink, F, n):
    """scenario analysis on one compiled model: cash-flow and date ranges whose members are formulas over
    growth / step / gap input cells outside the ranges; evaluate, set_cell_value on inputs, evaluate again"""
    rng = ctx.rng
    demo = {'k': 7, 'orient': 'row', 'template': 'geo', 'abs': False, 'reverse': False,
            'inputs': {'rate': 0.08, 'growth': 0.05, 'step': 0, 'gap': 365, 'nper': 10, 'pv': 1000, 'fv': -200,
                       'outlay': -1500.0, 'first': 400.0, 'd0': 43831},
            'steps': [['growth', 0.25], ['first', 150.0], ['growth', 0.6], ['rate', 0.12]]}
    history_case(ctx, res, sink, F, demo)
    for _ in range(n):
        history_case(ctx, res, sink, F, rand_history(rng))


def replay_case(ctx, res, sink, F, inp):
    fn = inp.get('fn')
    if fn == 'NPV':
        real = call_real(F['NPV'], inp['rate'], *inp['values'])
        sink.add(['NPV', w_frac(fr(inp['rate'])), wl(inp['values'])] + real_fields(real),
                 lambda d, line: judge_value(res, 'NPV differs from sum c_i/(1+r)^i (i from 1)', inp, real, d, line))
    elif fn in ('PMT', 'PV'):
        a = inp.get('pv', inp.get('pmt', inp.get('a')))
        annuity_case(res, sink, F, fn, inp['rate'], inp['nper'], a, inp['fv'], inp['type'], how='replay')
    elif fn == 'SLN':
        real = call_real(F['SLN'], inp['cost'], inp['salvage'], inp['life'])
        sink.add(['SLN', w_frac(fr(inp['cost'])), w_frac(fr(inp['salvage'])), w_frac(fr(inp['life']))]
                 + real_fields(real),
                 lambda d, line: judge_value(res, 'SLN differs from (cost-salvage)/life', inp, real, d, line))
    elif fn == 'XNPV':
        vals, ds, r = inp['values'], inp['dates'], inp['rate']
        real = call_real(F['XNPV'], r, [vals], [ds])
        ws = pow_weights(1 + fr(r), [Fraction(d - ds[0], 365) for d in ds])
        sink.add(['XNPV', w_frac(fr(r)), wl(vals), wl(ds), wl(ws)] + real_fields(real),
                 lambda d, line: judge_value(res, 'XNPV differs from sum v_i/(1+r)^((d_i-d_1)/365)', inp, real,
                                             d, line))
    elif fn == 'IRR':
        irr_case(res, sink, F, inp['values'], 'replay')
    elif fn == 'XIRR':
        xirr_case(ctx, res, sink, F, inp['values'], inp['dates'], inp.get('guess'), 'replay')
    elif fn == 'NPV-linear':
        npv_linear_case(res, F, inp['rate'], inp['a'], inp['b'], inp['c'])
    elif fn == 'XNPV-linear':
        xnpv_linear_case(res, F, inp['rate'], inp['a'], inp['b'], inp['c'], inp['dates'])
    elif fn == 'PV(PMT)':
        pv_pmt_case(res, F, inp['rate'], inp['nper'], inp['pv'], inp['fv'])
    elif fn == 'formula':
        formula_case(res, inp['cells'], inp['direct'], inp.get('kind', 'formula'))
    elif fn == 'spelled':
        spelled_case(res, sink, inp['kind'], inp['cells'], inp['req'], inp.get('what', 'formula result differs'))
    elif fn == 'spelled-identity':
        spelled_identity_case(res, inp['cells'], Fraction(inp['rate']), inp['nper'], Fraction(inp['pv']),
                              Fraction(inp['fv']))
    elif fn == 'history':
        history_case(ctx, res, sink, F, {k: inp[k] for k in ('k', 'orient', 'template', 'abs', 'reverse', 'inputs',
                                                             'steps') if k in inp})
    else:
        raise RuntimeError(f'cannot replay {inp!r}')


def run(ctx):
    from xlcalculator.xlfunctions import xl
    import xlcalculator  # noqa: F401  (registers the function modules)
    F = xl.FUNCTIONS
    res = Result()
    thorough = ctx.tier == 'thorough' or ctx.widen
    res.rule = (
        'random rates in (-0.9,10] (specials, negative, small, large), cash-flow vectors of length 1..30 (mixed '
        'signs, zeros, ints/2-decimal/raw floats), strictly increasing whole-day date vectors (gaps 1 day..5 '
        'years), the complete (rate,nper,pv,fv,type) grid plus random tuples and non-integral nper, (cost,salvage,'
        'life>0); IRR/XIRR flows with one sign change and positive sum whose root is <= 10. NPV/PMT/PV/SLN/XNPV: '
        'real vs exact reference within 1e-9 of the gross term size; IRR/XIRR: exact sign change of NPV/XNPV at '
        'r-1e-6 / r+1e-6; linearity, rate-0 and PV(PMT) identities on the real code; a sample through formulas; '
        'formulas with the rate/amount literals in random spellings (plain, no leading zero, percent, trailing '
        'zero/dot, normalised scientific, signed, parenthesised; also as `=.08` cells read through a range) judged '
        'against the reference on the denoted exact values; scenario histories (one compiled model with computed '
        'flow/date ranges and NPV IRR XNPV XIRR PMT PV SLN cells, evaluated, then re-evaluated after each of 1..4 '
        'set_cell_value steps) judged on the current cell values. '
        'non-trivial = distinct request with >= 2 flows / a non-zero amount / a certified root')
    sink = Sink()

    if getattr(ctx, 'replay', None):
        obj = json.loads(open(ctx.replay).read())
        replay_case(ctx, res, sink, F, obj.get('input', obj))
        sink.flush(ctx)
        return res

    # corpus first (regression inputs and the witnesses of listed findings)
    cdir = common.CORPUS / 'C20'
    if cdir.is_dir():
        for path in sorted(cdir.glob('*.json')):
            for inp in json.loads(path.read_text()):
                replay_case(ctx, res, sink, F, inp)
                res.count('corpus')
        sink.flush(ctx)

    import time
    timing = {}

    def timed(name, fn, *args):
        t = time.time()
        fn(*args)
        sink.flush(ctx)
        timing[name] = round(time.time() - t, 1)
    timed('npv', sec_npv, ctx, res, sink, F, 30000 if thorough else 3000)
    timed('annuity', sec_annuity, ctx, res, sink, F, thorough)
    timed('sln', sec_sln, ctx, res, sink, F, 5000 if thorough else 500)
    timed('xnpv', sec_xnpv, ctx, res, sink, F, 15000 if thorough else 1500)
    timed('irr', sec_irr, ctx, res, sink, F, 15000 if thorough else 1500)
    timed('xirr', sec_xirr, ctx, res, sink, F, 12000 if thorough else 800)
    timed('formulas', sec_formulas, ctx, res, F, 1600 if thorough else 320)
    timed('spellings', sec_spellings, ctx, res, sink, F, 7000 if thorough else 700)
    timed('histories', sec_histories, ctx, res, sink, F, 1500 if thorough else 120)
    res.extra['section_seconds'] = timing
    res.exhaustive = True       # the (rate, nper, pv, fv, type) grid is enumerated completely
    res.extra['grid'] = {k: len(v) for k, v in (GRID_T if thorough else GRID_Q).items()}
    if res.drift:
        res.notes.append(f'{len(res.drift)} model/implementation differences where the code still meets Spec')
    res.notes.append('D51 (SLN(...,0)) is outside the statement (life > 0); since the D20 fix it returns #DIV/0!')
    res.notes.append('XIRR for flows without a root (D50) is outside the statement; since a63cb41 it returns #NUM!')
    return res
