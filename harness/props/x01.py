"""X01 — the integrated pipeline model: workbook of constants and formula TEXTS -> compile -> evaluate.

Not one of the twenty properties: model-validation machinery.  Random workbooks are evaluated by the real
code (`Evaluator(ModelCompiler().read_and_parse_dict(...))`, every cell) and by the Lean pipeline
(`Model/X01.compile` + `Evaluator.fresh libSem`); any disagreement is DRIFT and — since X01 has no
oracle of its own — counts as a violation of "model = code" for the exit code.
"""
import json
import math
import os
import re
import time
from fractions import Fraction

import common
from common import Result, parse_kv, w_frac

LEVEL_TEXT = (
    'Model validation (not a listed property): one executable Lean model of text -> tokens -> AST -> Fx -> '
    'value with the whole modelled function library, proved to compose the property models (operator '
    'formulas evaluate as Model.C01 / Spec.C01.denote; the generic theorems of C04-C06 hold for libSem), '
    'tied to the running code by a differential run on random multi-sheet workbooks.')
LEVEL_NOTE = 'Disagreements are model drift; they are reported as violations so that a regression in the glue is loud.'
DESIGN_REF = '§0 (as built), X01'
CLAIM = False

TRUSTED = [
    'Lean 4.33 kernel; axioms propext, Classical.choice, Quot.sound only',
    'the hand-written models composed by Model/X01*.lean (tokenizer, parser, C03 addresses, evaluator, value layer, '
    'function bodies), each tied to the code by its own property check and, composed, by this run',
]
ASSUMPTIONS = [
    'ideal reals: an evaluation in which every number a function takes or returns is a double (strict probe of the driver, '
    'exact=1) is compared with a RELATIVE tolerance of 1e-12; one in which floats that are no doubles (0.1, 1E-20, 1/3) only '
    'go through well-conditioned steps (smooth functions without cancellation, comparisons 1e-6 apart; soft probe, exact=2) with '
    '1e-9 — a difference is DRIFT in both; otherwise (rounding, truncation, text of an inexact float, a possible -0.0, '
    'cancellation; exact=0) 1e-9 and a remaining difference is counted as float noise; non-finite results are outside the model',
    'no text is a date: workbooks in which a text the code handed to dateutil is a date for the plain strict parser '
    '(decided by the harness, independently of how the code calls the parser) are discarded',
    'functions that are transcendental / float-only (except at their exact points), IRR/XIRR/XNPV/VDB/YEARFRAC/PI/SQRTPI, '
    'SUMIF(S) and the volatile ones are outside the model: cells whose evaluation calls them are skipped '
    '(the driver answers unsupported:<NAME>); so are fractional powers, times of day, non-ASCII UPPER/LOWER, '
    'exponent texts in base conversion (Model/C19 grammar) and what Model/C15 itself leaves unmodelled (MATCH with an '
    'approximate match type over a lookup array of 64 or more cells that is not one run)',
    'arrays as IF conditions (the code raises ValueError), operator operands that are arrays, and cells whose VALUE is an '
    'array being read as a member of a range (the code raises AttributeError) are outside the evaluator model',
    'a real evaluation slower than 20 s (huge factorials, day-by-day recurrences over millennia) is skipped',
]

# ------------------------------------------------------------------------------------------------ wire

def cp(s):
    return '.'.join(str(ord(c)) for c in s)


def wire_const(v):
    if isinstance(v, bool):
        return 'B:1' if v else 'B:0'
    if isinstance(v, int):
        return f'I:{v}'
    if isinstance(v, float):
        return 'F:' + w_frac(Fraction(v))
    return 'T:' + cp(v)


def wire_request(wb, addrs):
    cells = []
    for a, c in wb['cells'].items():
        if isinstance(c, dict):
            cells.append(f'{cp(a)}~t~{cp(c["f"])}')
        else:
            cells.append(f'{cp(a)}~c~{wire_const(c)}')
    names = [f'{cp(n)}~{cp(t)}' for n, t in wb.get('names', {}).items()]
    return '\t'.join(['X01', 'wb', '|'.join(cells), '|'.join(names), '|'.join(cp(a) for a in addrs),
                      cp(wb.get('default', 'Sheet1'))])


def wire_history(wb, ops):
    cells = []
    for a, c in wb['cells'].items():
        if isinstance(c, dict):
            cells.append(f'{cp(a)}~t~{cp(c["f"])}')
        else:
            cells.append(f'{cp(a)}~c~{wire_const(c)}')
    names = [f'{cp(n)}~{cp(t)}' for n, t in wb.get('names', {}).items()]
    ws = [f'e~{cp(op[1])}' if op[0] == 'e' else f's~{cp(op[1])}~{wire_const(op[2])}' for op in ops]
    return '\t'.join(['X01', 'hist', '|'.join(cells), '|'.join(names), '|'.join(ws), cp(wb.get('default', 'Sheet1'))])


# ------------------------------------------------------------------------------------------------ real code

CRASH_NAMES = {'TypeError', 'ValueError', 'ZeroDivisionError', 'OverflowError', 'RecursionError', 'KeyError',
               'IndexError', 'AttributeError', 'AssertionError', 'InvalidOperation', 'RuntimeError', 'SyntaxError'}

_DATEUTIL = {'hits': 0, 'installed': False}


def install_dateutil_probe():
    """count the texts dateutil accepts as dates (the model's Ext says: none is)"""
    if _DATEUTIL['installed']:
        return
    import dateutil.parser
    orig = dateutil.parser.parse

    def parse(timestr, *a, **kw):
        # decided independently of HOW the code under test calls the parser (fuzzy, default, …): is the text a
        # date for the plain, strict parser?
        try:
            orig(timestr)
            _DATEUTIL['hits'] += 1
        except Exception:  # noqa: BLE001
            pass
        return orig(timestr, *a, **kw)
    dateutil.parser.parse = parse
    _DATEUTIL['installed'] = True


def build_real(wb):
    from xlcalculator import ModelCompiler
    names = wb.get('names', {})

    class Compiler(ModelCompiler):
        """read_and_parse_dict with the defined names bound where parse_archive binds them"""

        def build_ranges(self, default_sheet=None):
            if names:
                self.defined_names = dict(names)
                self.build_defined_names()
                self.link_cells_to_defined_names()
            super().build_ranges(default_sheet=default_sheet)

    d = {}
    for a, c in wb['cells'].items():
        d[a] = c['f'] if isinstance(c, dict) else c
    return Compiler().read_and_parse_dict(d, default_sheet=wb.get('default', 'Sheet1'))


def canon_outcome(fn, *args):
    try:
        return common.canon(fn(*args)), None
    except RecursionError as exc:
        return f'X:recursion:{len(str(exc))}', None
    except RuntimeError as exc:
        msg = str(exc)
        if msg.startswith('Cycle detected'):
            return f'X:cycle:{len(msg)}', None
        if msg.startswith('Problem evaluating cell'):
            m = None
            for m in re.finditer(r': ([A-Za-z_][A-Za-z_0-9]*)\(', msg):
                pass
            cls = m.group(1) if m else 'Other'
            return f'X:runtime:{len(msg)}', (cls if cls in CRASH_NAMES else 'Other')
        return f'X:runtime:{len(msg)}', None
    except Exception as exc:  # noqa: BLE001
        return 'X:' + type(exc).__name__, None


class Timeout(BaseException):
    pass


def _alarm(signum, frame):
    raise Timeout()


def real_eval(wb, addrs, limit=20):
    """-> (list of (canon, crash class), dateutil accepted a text?); None when the real code needs more than
    `limit` seconds (huge factorials, day-by-day recurrences over millennia …)"""
    import signal
    old = signal.signal(signal.SIGALRM, _alarm)
    signal.alarm(limit)
    try:
        return _real_eval(wb, addrs)
    except Timeout:
        return None
    finally:
        signal.alarm(0)
        signal.signal(signal.SIGALRM, old)


def real_history(wb, ops, limit=30):
    """the history on ONE model and ONE evaluator -> (outcomes of its evaluate calls, dateutil accepted a text?)"""
    import signal
    old = signal.signal(signal.SIGALRM, _alarm)
    signal.alarm(limit)
    try:
        from xlcalculator import Evaluator
        install_dateutil_probe()
        h0 = _DATEUTIL['hits']
        try:
            ev = Evaluator(build_real(wb))
        except RecursionError:
            return [('X:compile:RecursionError', None)] * sum(1 for o in ops if o[0] == 'e'), False
        except Exception as exc:  # noqa: BLE001
            cls = type(exc).__name__
            return [('X:compile:' + (cls if cls in CRASH_NAMES else 'Other'), None)] * sum(1 for o in ops if o[0] == 'e'), False
        out = []
        broken = None
        for op in ops:
            if op[0] == 'e':
                out.append((broken, None) if broken else canon_outcome(ev.evaluate, op[1]))
            elif not broken:
                try:
                    ev.set_cell_value(op[1], op[2])
                except Exception as exc:  # noqa: BLE001 - the model's set_cell_value never raises: an outcome, not a failure
                    broken = 'X:set_cell_value-raised:' + type(exc).__name__
        return out, _DATEUTIL['hits'] > h0
    except Timeout:
        return None
    finally:
        signal.alarm(0)
        signal.signal(signal.SIGALRM, old)


def _real_eval(wb, addrs):
    from xlcalculator import Evaluator
    install_dateutil_probe()
    h0 = _DATEUTIL['hits']
    try:
        model = build_real(wb)
    except RecursionError:
        return [('X:compile:RecursionError', None)] * len(addrs), False
    except Exception as exc:  # noqa: BLE001
        cls = type(exc).__name__
        return [('X:compile:' + (cls if cls in CRASH_NAMES else 'Other'), None)] * len(addrs), False
    ev = Evaluator(model)
    out = [canon_outcome(ev.evaluate, a) for a in addrs]
    return out, _DATEUTIL['hits'] > h0


def real_raw(wb, addr):
    """the raw Python object an evaluation returns (for the native-operand classification)"""
    from xlcalculator import Evaluator
    try:
        return Evaluator(build_real(wb)).evaluate(addr)
    except Exception as exc:  # noqa: BLE001
        return exc


# ------------------------------------------------------------------------------------------------ comparison

def num_of(w):
    if w.startswith('I:'):
        return Fraction(int(w[2:]))
    if w.startswith(('F:', 'D:')):
        n, _, d = w[2:].partition('/')
        return Fraction(int(n), int(d or 1))
    return None


TOL = {'1': Fraction(1, 10 ** 12), '2': Fraction(1, 10 ** 9), '0': Fraction(1, 10 ** 9)}


def close(a, b, exact='0'):
    """RELATIVE agreement (no absolute floor: 1e-17 is not 0)"""
    a, b = Fraction(a), Fraction(b)
    return abs(a - b) <= TOL.get(exact, TOL['0']) * max(abs(a), abs(b))


def same(real, crash, lean, exact='0'):
    """agreement of a real outcome with a Lean outcome"""
    if lean.startswith('X:crash:'):
        return real.startswith('X:runtime:') and crash == lean[8:]
    if lean.startswith('X:compile:'):
        return real == lean
    if real == lean:
        return True
    if real[:2] == lean[:2] and real[:2] in ('F:', 'D:'):
        return close(num_of(real), num_of(lean), exact)
    if real.startswith('A:') and lean.startswith('A:'):
        ra = [r.split(',') for r in real[2:].split(';')]
        la = [r.split(',') for r in lean[2:].split(';')]
        return (len(ra) == len(la) and all(len(x) == len(y) for x, y in zip(ra, la))
                and all(same(p, None, q, exact) for x, y in zip(ra, la) for p, q in zip(x, y)))
    return False


def describe(w):
    if w.startswith('T:'):
        return 'T:' + repr(common.un_text(w))
    if w.startswith('F:'):
        return f'F:{float(num_of(w))!r}'
    return w


# ------------------------------------------------------------------------------------------------ formula trees

PREC = {'^': 5, '*': 4, '/': 4, '+': 3, '-': 3, '&': 2, '=': 1, '<>': 1, '<': 1, '>': 1, '<=': 1, '>=': 1}


def quote_sheet(s):
    if re.fullmatch(r'[A-Za-z_][A-Za-z0-9_]*', s):
        return s
    return "'" + s.replace("'", "''") + "'"


def render(t, level=0):
    """formula text of a tree; `level` = binding strength the context demands"""
    k = t[0]
    if k == 'raw':
        return t[1]
    if k == 'num':
        return t[1]
    if k == 'str':
        return '"' + t[1].replace('"', '""') + '"'
    if k == 'bool':
        return 'TRUE' if t[1] else 'FALSE'
    if k == 'err':
        return t[1]
    if k == 'ref':                       # ('ref', sheet or None, coordinate text)
        return (quote_sheet(t[1]) + '!' if t[1] is not None else '') + t[2]
    if k == 'name':
        return t[1]
    if k == 'neg':
        s = '-' + render(t[1], 7)
        return '(' + s + ')' if level > 7 else s
    if k == 'paren':
        return '(' + render(t[1], 0) + ')'
    if k == 'bin':
        p = PREC[t[1]]
        s = render(t[2], p) + t[1] + render(t[3], p + 1)
        return '(' + s + ')' if level > p else s
    if k == 'call':
        return t[1] + '(' + ','.join(render(a, 0) for a in t[2]) + ')'
    raise ValueError(t)


def subtrees(t, path=()):
    yield path, t
    k = t[0]
    if k in ('neg', 'paren'):
        yield from subtrees(t[1], path + (1,))
    elif k == 'bin':
        yield from subtrees(t[2], path + (2,))
        yield from subtrees(t[3], path + (3,))
    elif k == 'call':
        for i, a in enumerate(t[2]):
            yield from subtrees(a, path + (2, i))


def replace_at(t, path, new):
    if not path:
        return new
    i = path[0]
    if t[0] == 'call' and i == 2:
        args = list(t[2])
        args[path[1]] = replace_at(args[path[1]], path[2:], new)
        return ('call', t[1], args)
    lst = list(t)
    lst[i] = replace_at(lst[i], path[1:], new)
    return tuple(lst)


def size(t):
    return sum(1 for _ in subtrees(t))


def root_name(t):
    k = t[0]
    if k == 'call':
        return t[1].upper()
    if k == 'bin':
        return {'+': 'OP_ADD', '-': 'OP_SUB', '*': 'OP_MUL', '/': 'OP_DIV', '^': 'POWER', '&': 'CONCAT', '=': 'OP_EQ',
                '<>': 'OP_NE', '<': 'OP_LT', '>': 'OP_GT', '<=': 'OP_LE', '>=': 'OP_GE'}[t[1]]
    if k == 'neg':
        return 'OP_NEG'
    if k == 'paren':
        return root_name(t[1])
    return {'ref': 'reference', 'name': 'defined-name', 'num': 'literal', 'str': 'literal', 'bool': 'literal',
            'err': 'literal', 'raw': 'raw-text'}[k]


# ------------------------------------------------------------------------------------------------ generator

TEXTS = ['ab', 'Ab', 'xyz', 'x y', ' x ', 'q', '12', '3.5', '-4', '1e2', 'TRUE', 'false', 'AB', 'b', 'hello world',
         '101', '1F', '77', '  two  words ', 'a"b', 'ä', 'lot 7', 'x1', 'no. 5', 'room 12b', 'ab12', 'item 3']
ERRS = ['#N/A', '#DIV/0!', '#VALUE!', '#REF!', '#NAME?', '#NUM!', '#NULL!']
COLS = 'ABCD'
COL_OFFSETS = [0, 0, 0, 4, 5, 6, 13, 14, 21, 28, 29]      # tables that cross a column index multiple of 8 (H, P, X, AF)


def col_letter(i):
    """0 -> A, 25 -> Z, 26 -> AA"""
    s, i = '', i + 1
    while i:
        i, r = divmod(i - 1, 26)
        s = chr(65 + r) + s
    return s

NATIVE = {'COUNT', 'COUNTA', 'ISBLANK', 'ISERR', 'ISERROR', 'ISEVEN', 'ISNA', 'ISNUMBER', 'ISODD', 'ISTEXT', 'MAX', 'MIN'}


class Gen:
    """type-directed random formulas over the integrated library"""

    def __init__(self, rng, sheets, cells_by_sheet, kinds, names, own_sheet, off=0):
        self.cols = [col_letter(off + i) for i in range(4)]
        self.far = [col_letter(off + 6), col_letter(off + 7)]     # columns nothing is stored in
        self.rng = rng
        self.sheets = sheets                  # sheet names
        self.cells = cells_by_sheet           # sheet -> list of coordinates that hold something
        self.kinds = kinds                    # full address -> 'num' | 'text' | 'bool' | 'formula'
        self.names = names                    # defined name -> full address
        self.own = own_sheet
        self.malformed = 0.10

    # ---- leaves
    def coord(self, c):
        m = re.fullmatch(r'([A-Z]+)(\d+)', c)
        r = self.rng.random()
        col, row = m.group(1), m.group(2)
        if r < 0.7:
            return col + row
        if r < 0.8:
            return '$' + col + '$' + row
        if r < 0.9:
            return col + '$' + row
        return '$' + col + row

    def ref_to(self, sheet, c):
        if sheet == self.own and self.rng.random() < 0.8:
            return ('ref', None, self.coord(c))
        return ('ref', sheet, self.coord(c))

    def cell_of_kind(self, kind):
        cands = [a for a, k in self.kinds.items() if k == kind]
        if not cands:
            return None
        a = self.rng.choice(cands)
        for n, t in self.names.items():
            if t == a and self.rng.random() < 0.5:
                return ('name', n)
        s, c = a.rsplit('!', 1)
        return self.ref_to(s, c)

    def blank_ref(self):
        s = self.rng.choice(self.sheets)
        return self.ref_to(s, self.rng.choice([self.far[0] + '9', self.far[1] + '7', self.far[0] + '8']))

    def any_ref(self):
        a = self.rng.choice(list(self.kinds))
        s, c = a.rsplit('!', 1)
        return self.ref_to(s, c)

    def rng_ref(self, cols=None, rows=None):
        s = self.rng.choice(self.sheets)
        c0 = self.rng.randrange(0, 3)
        r0 = self.rng.randrange(1, 4)
        w = cols if cols is not None else self.rng.choice([1, 1, 2, 2, 3])
        h = rows if rows is not None else self.rng.choice([1, 2, 2, 3])
        a = self.cols[c0] + str(r0)
        b = self.cols[min(c0 + w - 1, 3)] + str(r0 + h - 1)
        text = self.coord(a) + ':' + self.coord(b)
        if s == self.own and self.rng.random() < 0.8:
            return ('ref', None, text)
        return ('ref', s, text)

    def int_lit(self, lo=-6, hi=12):
        v = self.rng.randint(lo, hi)
        return ('num', str(v)) if v >= 0 else ('neg', ('num', str(-v)))

    def num_lit(self):
        r = self.rng.random()
        if r < 0.6:
            return self.int_lit()
        if r < 0.85:
            v = self.rng.choice(['0.5', '2.5', '1.25', '0.25', '7.5', '10.75', '0.125', '3.0', '100', '1000'])
            return ('num', v)
        if r < 0.90:
            return ('num', self.rng.choice(['50%', '25%', '200%', '1E+2', '2.5E+1', '5E-1', '25E-1', '.5E+1', '5.E+0', '0.5E+1',
                                            '.5', '.25', '8.', '80E-3', '.08', '12.E+1', '25E-2', '125E-3', '5.%', '.5%']))
        if r < 0.95:
            return self.tiny()
        return ('num', self.rng.choice(['0.1', '0.2', '1.1', '2.3', '0.7']))

    def tiny(self):
        """numbers far below 1e-15 (and a few huge ones): exact powers of two, tiny decimals, tiny cells"""
        rng = self.rng
        r = rng.random()
        if r < 0.35:
            return ('bin', '^', ('num', '2'), ('neg', ('num', str(rng.choice([40, 52, 55, 60, 64, 70, 80, 100])))))
        if r < 0.55:
            return ('num', rng.choice(['1E-20', '4E-16', '1E-17', '2.5E-17', '1E-8', '2E-9', '1E-300', '5E-16', '1E+20']))
        if r < 0.75:
            c = self.cell_of_kind('tiny')
            if c:
                return c
        if r < 0.9:
            a, b = rng.choice([52, 60, 64, 70]), rng.choice([53, 61, 66, 72])
            return ('bin', rng.choice(['+', '-', '+']), ('bin', '^', ('num', '2'), ('neg', ('num', str(a)))),
                    ('bin', '^', ('num', '2'), ('neg', ('num', str(b)))))
        return ('bin', '*', ('num', '1E-8'), ('num', '1E-8'))

    def err_expr(self):
        r = self.rng.random()
        if r < 0.4:
            return ('err', self.rng.choice(ERRS))
        if r < 0.6:
            return ('bin', '/', self.int_lit(1, 5), ('num', '0'))
        if r < 0.8:
            return ('call', 'NA', [])
        return ('call', 'SQRT', [self.int_lit(-5, -1)])

    # ---- kinds
    def gen(self, kind, d):
        rng = self.rng
        if d > 0 and rng.random() < self.malformed:
            r = rng.random()
            if r < 0.3:
                return self.err_expr()
            if r < 0.5:
                return self.blank_ref()
            if r < 0.65:
                return ('str', rng.choice(TEXTS))
            if r < 0.75:
                return self.rng_ref()
            if r < 0.85:
                return self.any_ref()
            return self.gen(rng.choice(['num', 'text', 'bool', 'date']), d - 1)
        return getattr(self, 'g_' + kind)(d)

    def g_any(self, d):
        return self.gen(self.rng.choice(['num', 'num', 'text', 'bool', 'date']), d)

    def g_num(self, d):
        rng = self.rng
        if d <= 0 or rng.random() < 0.25:
            r = rng.random()
            if r < 0.45:
                c = self.cell_of_kind('num')
                if c:
                    return c
            if r < 0.55:
                c = self.cell_of_kind('formula')
                if c:
                    return c
            return self.num_lit()
        r = rng.random()
        if r < 0.3:
            op = rng.choice(['+', '-', '*', '/', '+', '-', '*', '^'])
            if op == '^':
                if rng.random() < 0.1:
                    txt = ('str', rng.choice(['ab', 'x y', 'AB', 'q']))
                    l, r = rng.choice([(txt, self.err_expr()), (self.err_expr(), txt), (txt, self.int_lit(0, 3))])
                    return ('bin', '^', l, r)
                return ('bin', '^', self.gen('num', d - 1), self.int_lit(-2, 3))
            return ('bin', op, self.gen('num', d - 1), self.gen('num', d - 1))
        if r < 0.36:
            return ('neg', self.gen('num', d - 1))
        if r < 0.4:
            return ('paren', self.gen('num', d - 1))
        return self.call(rng.choice(NUM_FUNCS), d)

    def g_text(self, d):
        rng = self.rng
        if self.names and rng.random() < 0.12:
            return ('str', rng.choice(list(self.names)))       # a TEXT that is spelt like a defined name
        if d <= 0 or rng.random() < 0.3:
            c = self.cell_of_kind('text') if rng.random() < 0.4 else None
            return c or ('str', rng.choice(TEXTS))
        r = rng.random()
        if r < 0.3:
            return ('bin', '&', self.gen('any', d - 1), self.gen('any', d - 1))
        return self.call(rng.choice(TEXT_FUNCS), d)

    def g_bool(self, d):
        rng = self.rng
        if rng.random() < 0.05:
            return self.tiny()                      # a number as a truth value: non-zero is TRUE however small
        if d <= 0 or rng.random() < 0.2:
            c = self.cell_of_kind('bool') if rng.random() < 0.4 else None
            return c or ('bool', rng.random() < 0.5)
        r = rng.random()
        if r < 0.45:
            op = rng.choice(['=', '<>', '<', '>', '<=', '>='])
            k = rng.choice(['num', 'num', 'text', 'any'])
            return ('bin', op, self.gen(k, d - 1), self.gen(k if rng.random() < 0.8 else 'any', d - 1))
        return self.call(rng.choice(BOOL_FUNCS), d)

    def date_identity(self):
        """a DATE()/EDATE() result against the plain serial number of the same day: =, <>, -, comparisons"""
        import datetime
        rng = self.rng
        y, m, dd = rng.choice([1900, 1901, 1999, 2000, 2020, 2024]), rng.randint(1, 12), rng.randint(1, 28)
        day = datetime.date(y, m, dd)
        serial = (day - datetime.date(1899, 12, 31)).days + (1 if day > datetime.date(1900, 2, 28) else 0)
        date = ('call', 'DATE', [('num', str(y)), ('num', str(m)), ('num', str(dd))])
        r = rng.random()
        if r < 0.25:
            n = self.cell_of_kind('serial') or ('num', str(serial))
            return ('bin', rng.choice(['=', '<>', '>=']),
                    ('call', 'DATE', [('call', 'YEAR', [n]), ('call', 'MONTH', [n]), ('call', 'DAY', [n])]), n)
        other = ('num', str(serial + rng.choice([0, 0, 0, 1, -1, -60, 60, -59])))
        if r < 0.6:
            l, rr = (date, other) if rng.random() < 0.7 else (other, date)
            return ('bin', rng.choice(['=', '<>', '=', '<', '>=']), l, rr)
        if r < 0.85:
            return ('bin', rng.choice(['-', '-', '+']), date, other if rng.random() < 0.7 else self.int_lit(0, 70))
        k = rng.randint(-3, 14)
        n = ('num', str(serial))
        return ('bin', rng.choice(['-', '=']), ('call', 'EDATE', [n, ('num', str(k)) if k >= 0 else ('neg', ('num', str(-k)))]), n)

    def g_date(self, d):
        rng = self.rng
        r = rng.random()
        if d <= 0 or r < 0.35:
            return ('num', str(rng.choice([1, 59, 60, 61, 366, 36526, 43831, 43889, 44196, 45000, 40969])))
        if r < 0.75:
            return ('call', 'DATE', [('num', str(rng.choice([1900, 1999, 2000, 2020, 2024, 99, 2021, 1904]))),
                                     self.int_lit(-3, 15), self.int_lit(-3, 33)])
        if r < 0.9:
            return ('call', 'EDATE', [self.gen('date', d - 1), self.int_lit(-14, 14)])
        return ('bin', '+', self.gen('date', d - 1), self.int_lit(0, 40))

    def g_anydate(self, d):
        if self.rng.random() < 0.05:
            return ('num', self.rng.choice(['2958465', '2958466', '0']))
        return self.gen('date', d)

    def g_factarg(self, d):
        r = self.rng.random()
        if r < 0.8:
            return self.int_lit(-2, 25)
        if r < 0.9:
            return ('num', self.rng.choice(['2.5', '170', '0.5', '1000']))
        return self.rng.choice([self.err_expr(), self.blank_ref(), ('str', self.rng.choice(TEXTS)), ('bool', True)])

    def g_range(self, d):
        return self.rng_ref()

    def g_smallnat(self, d):
        return self.int_lit(0, 6) if self.rng.random() < 0.85 else self.gen('num', d - 1)

    def g_smallint(self, d):
        return self.int_lit(-4, 6) if self.rng.random() < 0.85 else self.gen('num', d - 1)

    def g_digits(self, d):
        return self.int_lit(-2, 3)

    def g_sig(self, d):
        return self.rng.choice([('num', '1'), ('num', '2'), ('num', '5'), ('num', '0.5'), ('num', '0.25'),
                                ('neg', ('num', '2')), ('num', '0'), ('num', '10')])

    def g_numlist(self, d):
        return self.rng_ref() if self.rng.random() < 0.5 else self.gen('num', d - 1)

    def g_anylist(self, d):
        return self.rng_ref() if self.rng.random() < 0.5 else self.gen('any', d - 1)

    def g_boollist(self, d):
        return self.rng_ref() if self.rng.random() < 0.25 else self.gen('bool', d - 1)

    def g_crit(self, d):
        rng = self.rng
        r = rng.random()
        if r < 0.35:
            return self.gen('num', 0)
        if r < 0.8:
            op = rng.choice(['', '=', '<>', '<', '>', '<=', '>='])
            val = rng.choice(['2', '0', '2.5', 'ab', 'AB', 'x y', 'TRUE', '', '12', '-4'] + list(self.names))
            return ('str', op + val)
        return self.gen('any', 0)

    def g_colrange(self, d):
        return self.rng_ref(cols=1)

    def g_mt(self, d):
        return self.rng.choice([('num', '0'), ('num', '1'), ('neg', ('num', '1')), ('num', '0')])

    def g_rate(self, d):
        return self.rng.choice([('num', '0.5'), ('num', '0.25'), ('num', '1'), ('num', '0'), ('num', '0.125'),
                                ('neg', ('num', '1')), ('num', '3'), ('neg', ('num', '0.5'))])

    def g_when(self, d):
        return self.rng.choice([('num', '0'), ('num', '1'), ('num', '0'), ('num', '2')])

    def g_unit(self, d):
        return ('str', self.rng.choice(['Y', 'M', 'D', 'MD', 'YM', 'YD', 'y', 'd', 'x']))

    def g_rt(self, d):
        return ('num', str(self.rng.choice([1, 2, 3, 11, 12, 13, 14, 15, 16, 17, 4, 0])))

    def g_year(self, d):
        if self.rng.random() < 0.05:
            return ('num', str(self.rng.choice([9999, 10000])))
        return ('num', str(self.rng.choice([1900, 1999, 2000, 2020, 2024, 99, 0, 1904])))

    def g_bintext(self, d):
        return self.rng.choice([('str', '101'), ('num', '1100'), ('str', '1111111111'), ('num', '10'), ('str', '12'),
                                ('num', '0'), ('str', '')])

    def g_octtext(self, d):
        return self.rng.choice([('str', '17'), ('num', '777'), ('str', '7777777777'), ('num', '8'), ('num', '12')])

    def g_hextext(self, d):
        return self.rng.choice([('str', '1F'), ('str', 'ff'), ('str', 'FFFFFFFFFF'), ('num', '10'), ('str', 'G1'),
                                ('str', 'abc')])

    def g_decnum(self, d):
        return self.rng.choice([self.int_lit(-20, 200), ('num', '511'), ('neg', ('num', '512')), ('num', '2.5'),
                                ('num', '512'), self.int_lit(0, 40)])

    def g_places(self, d):
        return self.rng.choice([('num', '4'), ('num', '10'), ('num', '1'), ('num', '11'), ('num', '0'), ('num', '8')])

    def g_square(self, d):
        return self.rng.choice([('num', '4'), ('num', '9'), ('num', '2.25'), ('num', '0'), ('num', '16'), ('num', '0.25'),
                                ('neg', ('num', '4')), ('num', '1')])

    def g_zero(self, d):
        return self.rng.choice([('num', '0'), ('num', '0'), ('bin', '-', ('num', '2'), ('num', '2')), ('num', '0')])

    def g_one(self, d):
        return self.rng.choice([('num', '1'), ('num', '1'), ('bin', '-', ('num', '3'), ('num', '2')), ('num', '0'),
                                ('num', '2'), ('neg', ('num', '3'))])

    def g_pow10(self, d):
        return self.rng.choice([('num', '1'), ('num', '10'), ('num', '1000'), ('num', '0'), ('neg', ('num', '10')),
                                ('num', '100000')])

    # ---- calls
    def call(self, name, d):
        rng = self.rng
        spec = FUNCS[name]
        args = []
        for p in spec:
            if p.endswith('*'):
                for _ in range(rng.choice([1, 1, 2, 2, 3])):
                    args.append(self.gen(p[:-1], d - 1))
            elif p.startswith('?'):
                if rng.random() < 0.5:
                    args.append(self.gen(p[1:], d - 1))
                else:
                    break
            elif p.startswith('!'):
                args.append(getattr(self, 'g_' + p[1:])(d - 1))
            else:
                args.append(self.gen(p, d - 1))
        if name == 'SUMPRODUCT' and len(args) == 2 and rng.random() < 0.7:
            w, h = rng.choice([1, 2]), rng.choice([1, 2, 3])
            args = [self.rng_ref(cols=w, rows=h), self.rng_ref(cols=w, rows=h)]
        if name == 'POWER' and rng.random() < 0.12:
            # `validate_args` casts `number` before it looks at `power`: a text that is no number with an error
            txt = ('str', rng.choice(['ab', 'x y', 'AB', 'q', ' x ', 'hello world']))
            args = rng.choice([[txt, self.err_expr()], [self.err_expr(), txt], [txt, txt], [self.err_expr(), self.err_expr()],
                               [txt, self.int_lit(0, 3)], [self.blank_ref(), self.err_expr()]])
        if name == 'COUNTIFS':
            h = rng.choice([2, 3])
            n = rng.choice([1, 2])
            args = []
            for _ in range(n):
                args += [self.rng_ref(cols=1, rows=h), self.g_crit(0)]
        if rng.random() < 0.03:                       # wrong arity
            if args and rng.random() < 0.5:
                args = args[:-1]
            else:
                args = args + [self.gen('any', 0)]
        spelled = name
        r = rng.random()
        if r < 0.04:
            spelled = name.lower()
        elif r < 0.06:
            spelled = '_xlfn.' + name
        return ('call', spelled, args)


FUNCS = {
    # math
    'ABS': ['num'], 'SIGN': ['num'], 'INT': ['num'], 'EVEN': ['num'], 'FACT': ['!factarg'], 'FACTDOUBLE': ['!factarg'],
    'ROUND': ['num', '?digits'], 'ROUNDUP': ['num', '?digits'], 'ROUNDDOWN': ['num', '?digits'], 'TRUNC': ['num', '?digits'],
    'MOD': ['num', 'num'], 'POWER': ['num', 'smallint'], 'CEILING': ['num', 'sig'], 'FLOOR': ['num', 'sig'],
    'SQRT': ['square'], 'LOG10': ['pow10'], 'LN': ['one'], 'LOG': ['one', '?num'], 'EXP': ['zero'], 'SIN': ['zero'],
    'COS': ['zero'], 'TAN': ['zero'], 'ASIN': ['zero'], 'ACOS': ['one'], 'ATAN': ['zero'], 'ASINH': ['zero'],
    'ACOSH': ['one'], 'COSH': ['zero'], 'DEGREES': ['zero'], 'RADIANS': ['zero'], 'ATAN2': ['one', 'zero'],
    'SUM': ['numlist*'], 'AVERAGE': ['numlist*'], 'MIN': ['numlist*'], 'MAX': ['numlist*'], 'COUNT': ['anylist*'],
    'COUNTA': ['anylist*'], 'SUMPRODUCT': ['range', 'range'], 'OP_ADD': ['num', 'num'], 'OP_PERCENT': ['num'],
    # criteria / lookup
    'COUNTIF': ['range', 'crit'], 'COUNTIFS': ['range', 'crit'], 'MATCH': ['any', 'colrange', '?mt'],
    'VLOOKUP': ['any', 'range', 'smallnat', '?bool'], 'CHOOSE': ['smallnat', 'any*'],
    # text
    'LEN': ['text'], 'LEFT': ['text', '?smallnat'], 'RIGHT': ['text', '?smallnat'], 'MID': ['text', 'smallnat', 'smallnat'],
    'FIND': ['text', 'text', '?smallnat'], 'REPLACE': ['text', 'smallnat', 'smallnat', 'text'], 'UPPER': ['text'],
    'LOWER': ['text'], 'TRIM': ['text'], 'EXACT': ['text', 'text'], 'CONCAT': ['anylist*'], 'CONCATENATE': ['any*'],
    # dates
    'DATE': ['year', 'smallint', 'smallint'], 'YEAR': ['anydate'], 'MONTH': ['anydate'], 'DAY': ['anydate'],
    'WEEKDAY': ['anydate', '?rt'], 'ISOWEEKNUM': ['date'], 'DAYS': ['date', 'date'], 'EDATE': ['date', 'smallint'],
    'EOMONTH': ['date', 'smallint'], 'DATEDIF': ['date', 'date', 'unit'],
    # engineering
    'DEC2BIN': ['decnum', '?places'], 'DEC2OCT': ['decnum', '?places'], 'DEC2HEX': ['decnum', '?places'],
    'BIN2DEC': ['bintext'], 'BIN2OCT': ['bintext', '?places'], 'BIN2HEX': ['bintext', '?places'],
    'OCT2DEC': ['octtext'], 'OCT2BIN': ['octtext', '?places'], 'OCT2HEX': ['octtext', '?places'],
    'HEX2DEC': ['hextext'], 'HEX2BIN': ['hextext', '?places'], 'HEX2OCT': ['hextext', '?places'],
    # financial
    'NPV': ['rate', 'numlist*'], 'PMT': ['rate', 'smallnat', 'num', '?num', '?when'],
    'PV': ['rate', 'smallnat', 'num', '?num', '?when'], 'SLN': ['num', 'num', 'num'],
    # logical / information
    'IF': ['bool', 'any', '?any'], 'AND': ['boollist*'], 'OR': ['boollist*'], 'NOT': ['bool'], 'TRUE': [], 'FALSE': [],
    'NA': [], 'ISBLANK': ['any'], 'ISNUMBER': ['any'], 'ISTEXT': ['any'], 'ISERR': ['any'], 'ISERROR': ['any'],
    'ISNA': ['any'], 'ISEVEN': ['num'], 'ISODD': ['num'],
    # not integrated (the driver must say so) and unknown
    'PI': [], 'SQRTPI': ['num'], 'YEARFRAC': ['date', 'date'], 'NOSUCHFN': ['any'],
}
NUM_FUNCS = (['ABS', 'SIGN', 'INT', 'EVEN', 'FACT', 'FACTDOUBLE', 'ROUND', 'ROUNDUP', 'ROUNDDOWN', 'TRUNC', 'MOD', 'POWER',
              'CEILING', 'FLOOR', 'SUM', 'SUM', 'AVERAGE', 'MIN', 'MAX', 'COUNT', 'COUNTA', 'SUMPRODUCT', 'COUNTIF',
              'COUNTIFS', 'MATCH', 'VLOOKUP', 'CHOOSE', 'LEN', 'FIND', 'YEAR', 'MONTH', 'DAY', 'WEEKDAY', 'ISOWEEKNUM',
              'DAYS', 'EOMONTH', 'DATEDIF', 'BIN2DEC', 'OCT2DEC', 'HEX2DEC', 'NPV', 'PMT', 'PV', 'SLN', 'IF', 'OP_ADD',
              'OP_PERCENT'] +
             ['SQRT', 'LOG10', 'LN', 'LOG', 'EXP', 'SIN', 'COS', 'TAN', 'ASIN', 'ACOS', 'ATAN', 'ASINH', 'ACOSH', 'COSH',
              'DEGREES', 'RADIANS', 'ATAN2', 'PI', 'SQRTPI', 'YEARFRAC', 'NOSUCHFN'])
TEXT_FUNCS = ['LEFT', 'RIGHT', 'MID', 'REPLACE', 'UPPER', 'LOWER', 'TRIM', 'CONCAT', 'CONCATENATE', 'DEC2BIN', 'DEC2OCT',
              'DEC2HEX', 'BIN2OCT', 'BIN2HEX', 'OCT2BIN', 'OCT2HEX', 'HEX2BIN', 'HEX2OCT', 'IF', 'CHOOSE', 'VLOOKUP']
BOOL_FUNCS = ['AND', 'OR', 'NOT', 'AND', 'OR', 'NOT', 'TRUE', 'FALSE', 'ISBLANK', 'ISNUMBER', 'ISTEXT', 'ISERR', 'ISERROR',
              'ISNA', 'ISEVEN', 'ISODD', 'EXACT', 'IF']

SHEET_POOL = ['Sheet1', 'Data', 'My Sheet', "O'Brien"]
BROKEN = ['=1+', '=SUM(1', '=)', '=1 2', '=SUM(1,,2)', '=(1+2', '=A1%', '="abc', '=1+*2', '=SUM(,)', '=,']


def gen_workbook(rng):
    nsheets = rng.choice([1, 1, 2, 2, 3])
    sheets = ['Sheet1'] + rng.sample(SHEET_POOL[1:], nsheets - 1)
    default = 'Sheet1'
    n = rng.randint(3, 15)
    off = rng.choice(COL_OFFSETS)
    cols = [col_letter(off + i) for i in range(4)]
    LC, FC = col_letter(off + 4), col_letter(off + 5)            # lookup column / its MATCH formulas
    slots = [(s, cols[c] + str(r)) for s in sheets for c in range(4) for r in range(1, 5)]
    rng.shuffle(slots)
    slots = slots[:n]
    nconst = max(1, int(n * rng.uniform(0.3, 0.7)))
    cells, kinds, trees = {}, {}, {}
    by_sheet = {s: [] for s in sheets}
    for i, (s, c) in enumerate(slots):
        a = f'{s}!{c}'
        by_sheet[s].append(c)
        if i < nconst:
            r = rng.random()
            if r < 0.06:
                v = rng.choice([2.0 ** -60, 2.0 ** -66, 2.0 ** -52, -2.0 ** -70, 1e-20, 4e-16, -2.5e-17, 2e-9, 1e-18, 2.0 ** 70])
                kinds[a] = 'tiny'
            elif r < 0.10:
                v = rng.choice([43831, 61, 60, 59, 36526, 45000, 366, 43889])
                kinds[a] = 'serial'
            elif r < 0.55:
                v = rng.choice([rng.randint(-5, 20), rng.randint(0, 9), rng.choice([0, 1, 1, 0, 2]),
                                rng.choice([0.5, 2.5, 1.25, 7.75, 0.1, 100.0, 1.0, 0.0, 2.0])])
                kinds[a] = 'num'
            elif r < 0.85:
                v = rng.choice(TEXTS)
                kinds[a] = 'text'
            else:
                v = rng.random() < 0.5
                kinds[a] = 'bool'
            cells[a] = v
        else:
            kinds[a] = 'formula'
            cells[a] = None
    names = {}
    if rng.random() < 0.4:
        for nm in rng.sample(['rate', 'total', 'myName', 'x_1'], rng.choice([1, 2])):
            a = rng.choice(list(cells))
            s, c = a.rsplit('!', 1)
            m = re.fullmatch(r'([A-Z]+)(\d+)', c)
            names[nm] = f'{quote_sheet(s)}!${m.group(1)}${m.group(2)}'
    name_targets = {}
    for nm, t in names.items():
        s, c = t.rsplit('!', 1)
        s = s[1:-1].replace("''", "'") if s.startswith("'") else s
        name_targets[nm] = f'{s}!{c.replace("$", "")}'
    for a in list(cells):
        if cells[a] is None:
            s = a.rsplit('!', 1)[0]
            if rng.random() < 0.012:
                trees[a] = ('raw', rng.choice(BROKEN)[1:])
            else:
                g = Gen(rng, sheets, by_sheet, kinds, name_targets, s, off)
                kind = rng.choice(['num', 'num', 'num', 'text', 'bool', 'any', 'date', 'num', 'text', 'bool', 'dateid', 'tiny'])
                if kind == 'dateid':
                    trees[a] = g.date_identity()
                elif kind == 'tiny':
                    x = g.tiny()
                    trees[a] = rng.choice([
                        x, ('bin', rng.choice(['+', '-', '*', '+']), x, g.tiny()),
                        ('call', 'IF', [x, ('num', '1'), ('num', '2')]), ('call', 'NOT', [x]),
                        ('call', rng.choice(['AND', 'OR']), [x, ('bool', rng.random() < 0.5)]),
                        ('bin', rng.choice(['>', '=', '<>']), ('bin', '+', x, g.tiny()), ('num', '0')),
                        ('bin', '/', ('num', '1'), ('paren', ('bin', '+', x, g.tiny())))])
                else:
                    trees[a] = g.gen(kind, rng.choice([1, 2, 2, 3, 3, 4]))
            cells[a] = {'f': '=' + render(trees[a])}
    if rng.random() < 0.12:
        # a lookup column with sorted / unsorted numbers, texts, booleans, EMPTY and ERROR cells, and MATCH over it
        # with every match type (the approximate ones run `sorted()` and a list `!=` over the column)
        ls = rng.choice(sheets)
        h = rng.choice([2, 3, 4, 4])
        base = sorted(rng.sample(range(-3, 12), h))
        if rng.random() < 0.3:
            base.reverse()
        elif rng.random() < 0.25:
            rng.shuffle(base)
        for i, v in enumerate(base):
            a = f'{ls}!{LC}{i + 1}'
            r = rng.random()
            if r < 0.5:
                cells[a] = v
            elif r < 0.68:
                continue                                           # an empty cell of the column
            elif r < 0.86:
                trees[a] = rng.choice([('call', 'NA', []), ('bin', '/', ('num', '1'), ('num', '0')), ('err', '#NUM!'),
                                       ('err', '#REF!')])
                cells[a] = {'f': '=' + render(trees[a])}
            elif r < 0.93:
                cells[a] = rng.choice(['ab', 'AB', '12', ''.join(rng.sample('xyz', 2))])
            else:
                cells[a] = rng.random() < 0.5
        fs = rng.choice(sheets)
        for j in range(rng.choice([1, 2, 3])):
            key = rng.choice([('num', str(rng.randint(0, 12))), ('neg', ('num', str(rng.randint(1, 4)))), ('num', '2.5'),
                              ('str', 'ab'), ('bool', rng.random() < 0.5), ('ref', None if fs == ls else ls, LC + '9'),
                              ('err', '#N/A'), ('num', str(base[0]))])
            col = ('ref', None if (fs == ls and rng.random() < 0.7) else ls,
                   rng.choice([f'{LC}1', f'${LC}$1', f'{LC}$1']) + ':' + rng.choice([f'{LC}{h}', f'${LC}${h}', f'{LC}{h + 1}']))
            args = [key, col]
            mt = rng.choice([None, ('num', '1'), ('neg', ('num', '1')), ('num', '0'), ('num', '1'), ('neg', ('num', '1')),
                             ('bool', True), ('num', '2'), ('str', '1'), ('err', '#VALUE!')])
            if mt is not None:
                args.append(mt)
            a = f'{fs}!{FC}{j + 1}'
            trees[a] = ('call', rng.choice(['MATCH', 'MATCH', 'match']), args)
            if rng.random() < 0.3:
                trees[a] = ('bin', '&', trees[a], ('str', 'x'))
            cells[a] = {'f': '=' + render(trees[a])}
    history = []
    if rng.random() < 0.07:
        # a scenario: flows computed from an input OUTSIDE the range that aggregates them, re-evaluated after the input changes
        hs = rng.choice(sheets)
        inp, flows = f'{hs}!{cols[0]}6', [f'{hs}!{cols[i]}7' for i in range(rng.choice([2, 3, 4]))]
        cells[inp] = rng.choice([2, 3, 0.5, 10])
        for i, fa in enumerate(flows):
            prev = ('ref', None, f'{cols[i - 1]}7') if i else ('num', str(rng.choice([100, 400, 8])))
            trees[fa] = rng.choice([('bin', '*', prev, ('ref', None, rng.choice([f'{cols[0]}6', f'${cols[0]}$6']))),
                                    ('bin', '+', ('ref', None, f'{cols[0]}6'), ('num', str(i + 1)))])
            cells[fa] = {'f': '=' + render(trees[fa])}
        rg = ('ref', None, f'{cols[0]}7:{cols[len(flows) - 1]}7')
        aggs = []
        for j in range(rng.choice([1, 2])):
            aa = f'{hs}!{cols[j]}8'
            trees[aa] = rng.choice([('call', 'SUM', [rg]), ('call', 'NPV', [('num', '0.5'), rg]), ('call', 'MAX', [rg]),
                                    ('call', 'SUMPRODUCT', [rg, rg]), rg, ('call', 'COUNTIF', [rg, ('str', '>4')]),
                                    ('call', 'MATCH', [('num', '6'), rg, ('num', '0')]), ('call', 'AVERAGE', [rg, ('num', '1')])])
            cells[aa] = {'f': '=' + render(trees[aa])}
            aggs.append(aa)
        for v in rng.sample([5, 7, 0.25, 1, 0, 'ab', True], rng.choice([1, 2, 3])):
            history.append(('s', inp, v))
            history += [('e', x) for x in aggs] + ([('e', flows[-1])] if rng.random() < 0.5 else [])
    if rng.random() < 0.35:
        # set_cell_value between evaluations on the ONE model / evaluator: type twins (1 / TRUE / 1.0 / "1"), new values,
        # new cells, formula cells; then everything that computes is evaluated again
        fcells = [a for a, v in cells.items() if isinstance(v, dict)]
        current = {a: v for a, v in cells.items() if not isinstance(v, dict)}
        for _ in range(rng.choice([1, 2, 3])):
            for _ in range(rng.choice([1, 1, 2])):
                r = rng.random()
                if r < 0.8 and current:
                    a = rng.choice(list(current))
                elif r < 0.9:
                    a = f'{rng.choice(sheets)}!{rng.choice(cols)}{rng.randint(1, 5)}'
                    if isinstance(cells.get(a), dict):
                        continue
                elif fcells:
                    a = rng.choice(fcells)
                else:
                    continue
                old = current.get(a)
                twins = {1: [True, 1.0, '1'], 0: [False, 0.0, '0'], True: [1, 'TRUE', 1.0], False: [0, 'FALSE', 0.0]}
                if a in current and isinstance(old, (int, float)) and float(old) in (0.0, 1.0) and rng.random() < 0.7:
                    key = bool(old) if isinstance(old, bool) else int(old)
                    pool = [x for x in twins[key] if not (x == old and type(x) is type(old))]
                    v = rng.choice(pool)
                elif a in current and isinstance(old, int) and not isinstance(old, bool) and rng.random() < 0.4:
                    v = rng.choice([float(old), str(old)])
                elif a in current and isinstance(old, float) and old == int(old) and abs(old) < 1e6 and rng.random() < 0.4:
                    v = int(old)
                else:
                    v = rng.choice([rng.randint(-3, 9), rng.choice([0, 1]), rng.random() < 0.5, rng.choice(TEXTS),
                                    rng.choice([0.5, 2.5, 1.0, 0.0]), rng.choice([43831, 60])])
                if v == '' or (isinstance(v, str) and v.startswith('=')):
                    continue
                history.append(('s', a, v))
                if a not in fcells:
                    current[a] = v
            ev = list(fcells)
            rng.shuffle(ev)
            history += [('e', a) for a in ev[:rng.choice([len(ev), len(ev), 3])]]
            if current and rng.random() < 0.3:
                history.append(('e', rng.choice(list(current))))
    # keys of the default sheet are sometimes given without the sheet
    out = {}
    for a, v in cells.items():
        s, c = a.rsplit('!', 1)
        out[c if (s == default and rng.random() < 0.2) else a] = v
    wb = {'cells': out, 'names': names, 'default': default}
    if history:
        wb['history'] = [list(op) for op in history]
    return wb, trees


def full(wb, key):
    return key if '!' in key else f'{wb.get("default", "Sheet1")}!{key}'


# ------------------------------------------------------------------------------------------------ run

def lean_eval(ctx, wbs_addrs):
    lines = [wire_request(wb, addrs) for wb, addrs in wbs_addrs]
    out = []
    for resp, (wb, addrs) in zip(ctx.driver.batch(lines), wbs_addrs):
        kv = parse_kv(resp)
        if 'impl' not in kv:
            raise RuntimeError(f'driver: {resp[:300]} for {wb}')
        impl = kv['impl'].split('|')
        exact = kv.get('exact', '').split('|') if kv.get('exact') else ['1'] * len(impl)
        fx = kv.get('fx', '').split('|') if kv.get('fx') else [''] * len(impl)
        if len(impl) != len(addrs):
            raise RuntimeError(f'driver answered {len(impl)} results for {len(addrs)} addresses: {resp[:300]}')
        out.append(list(zip(impl, exact, fx if len(fx) == len(impl) else [''] * len(impl))))
    return out


def lean_history(ctx, items):
    """items: (wb, ops) -> per item the list of (impl, exact) of the evaluate calls"""
    lines = [wire_history(wb, ops) for wb, ops in items]
    out = []
    for resp, (wb, ops) in zip(ctx.driver.batch(lines), items):
        kv = parse_kv(resp)
        if 'impl' not in kv:
            raise RuntimeError(f'driver: {resp[:300]} for {wb}')
        n = sum(1 for o in ops if o[0] == 'e')
        impl = kv['impl'].split('|') if n else []
        exact = kv.get('exact', '').split('|') if kv.get('exact') else ['1'] * len(impl)
        if len(impl) != n:
            raise RuntimeError(f'driver answered {len(impl)} results for {n} evaluate calls: {resp[:300]}')
        out.append(list(zip(impl, exact)))
    return out


def apply_sets(wb, ops):
    """the workbook a user would hold who only performed the sets (constants replaced / added; a set on a formula
    cell does not change what it computes)"""
    cells = dict(wb['cells'])
    key_of = {full(wb, k): k for k in cells}
    for op in ops:
        if op[0] != 's':
            continue
        a = name_target(wb, op[1]) or op[1]
        k = key_of.get(a)
        if k is None:
            cells[a] = op[2]
            key_of[a] = a
        elif not isinstance(cells[k], dict):
            cells[k] = op[2]
    return {'cells': cells, 'names': dict(wb.get('names', {})), 'default': wb.get('default', 'Sheet1')}


def addrs_of(wb):
    return [full(wb, k) for k in wb['cells']] + list(wb.get('names', {}))


def classify(real, crash, lean, exact):
    """'ok' | 'unsupported' | 'noise' | 'drift'"""
    if lean.startswith('unsupported:'):
        return 'unsupported'
    if same(real, crash, lean, exact):
        return 'ok'
    if real.startswith('N:'):
        return 'unsupported'                       # a non-finite float: outside the ideal-real model
    if real.startswith('T:') and lean.startswith('T:'):
        # the text of a negative zero (`-1*0.0`): ideal reals have one zero
        rt = common.un_text(real).replace('-0.0', '0.0')
        if rt == common.un_text(lean) and rt != common.un_text(real):
            return 'negzero'
    if exact == '0':
        return 'noise'
    return 'drift'


def disagrees(ctx, wb, addr):
    """does the cell still disagree (real vs Lean)?  -> (bool, real, lean)"""
    out = real_eval(wb, [addr])
    if out is None:
        return False, 'timeout', 'timeout'
    (real, crash), = out[0]
    (lean, exact, _fx), = lean_eval(ctx, [(wb, [addr])])[0]
    return classify(real, crash, lean, exact) == 'drift', real, lean


def const_tree(w):
    """a literal with this real value, if it has one"""
    if w.startswith('I:'):
        v = int(w[2:])
        return ('num', str(v)) if v >= 0 else ('neg', ('num', str(-v)))
    if w.startswith('T:'):
        return ('str', common.un_text(w))
    if w.startswith('B:'):
        return ('bool', w == 'B:1')
    if w.startswith('E:'):
        return ('err', common.WIRE_CODE.get(w[2:], '#N/A'))
    if w.startswith('F:'):
        q = num_of(w)
        d = q.denominator
        while d % 2 == 0:
            d //= 2
        while d % 5 == 0:
            d //= 5
        if d == 1 and abs(q) < 10**9:
            s = repr(float(abs(q)))
            if 'e' not in s:
                return ('num', s) if q >= 0 else ('neg', ('num', s))
    return None


def shrink(ctx, wb, trees, addr, budget=120):
    """delete cells / replace sub-formulas by constants while the disagreement at `addr` persists"""
    wb = {'cells': dict(wb['cells']), 'names': dict(wb.get('names', {})), 'default': wb.get('default', 'Sheet1')}
    trees = dict(trees)
    key_of = {full(wb, k): k for k in wb['cells']}
    steps = 0
    changed = True
    while changed and steps < budget:
        changed = False
        for a in list(key_of):
            if a == addr or steps >= budget:
                continue
            trial = dict(wb, cells={k: v for k, v in wb['cells'].items() if k != key_of[a]},
                         names={n: t for n, t in wb['names'].items()})
            steps += 1
            try:
                bad, _, _ = disagrees(ctx, trial, addr)
            except Exception:  # noqa: BLE001
                bad = False
            if bad:
                wb = trial
                del key_of[a]
                trees.pop(a, None)
                changed = True
        if wb['names'] and steps < budget:
            trial = dict(wb, names={})
            steps += 1
            try:
                bad, _, _ = disagrees(ctx, trial, addr)
            except Exception:  # noqa: BLE001
                bad = False
            if bad:
                wb = trial
                changed = True
        for a in list(trees):
            if a not in key_of:
                continue
            t = trees[a]
            for path, sub in sorted(subtrees(t), key=lambda ps: -size(ps[1])):
                if steps >= budget or sub[0] in ('num', 'str', 'bool', 'err') or (not path and a == addr):
                    continue
                sheet = a.rsplit('!', 1)[0]
                probe = dict(wb, cells=dict(wb['cells'], **{f'{sheet}!Z99': {'f': '=' + render(sub)}}))
                out = real_eval(probe, [f'{sheet}!Z99'])
                if out is None:
                    continue
                (rv, _), = out[0]
                lit = const_tree(rv)
                if lit is None:
                    continue
                t2 = replace_at(t, path, lit)
                trial = dict(wb, cells=dict(wb['cells'], **{key_of[a]: {'f': '=' + render(t2)}}))
                steps += 1
                try:
                    bad, _, _ = disagrees(ctx, trial, addr)
                except Exception:  # noqa: BLE001
                    bad = False
                if bad:
                    wb, trees[a] = trial, t2
                    changed = True
                    break
    return wb, trees


def blame(ctx, wb, trees, addr):
    """root function of the smallest sub-formula of the cell that disagrees on its own"""
    t = trees.get(addr)
    if t is None or t[0] == 'raw':
        return 'formula-text', None
    sheet = addr.rsplit('!', 1)[0]
    best = (size(t), t)
    for path, sub in subtrees(t):
        if size(sub) >= best[0]:
            continue
        probe = dict(wb, cells=dict(wb['cells'], **{f'{sheet}!Z99': {'f': '=' + render(sub)}}))
        try:
            bad, _, _ = disagrees(ctx, probe, f'{sheet}!Z99')
        except Exception:  # noqa: BLE001
            bad = False
        if bad:
            best = (size(sub), sub)
    return root_name(best[1]), best[1]


def strip_parens(t):
    while t[0] == 'paren':
        t = t[1]
    return t


def name_target(wb, n):
    t = wb.get('names', {}).get(n)
    if t is None:
        return None
    sh, c = t.rsplit('!', 1)
    sh = sh[1:-1].replace("''", "'") if sh.startswith("'") else sh
    return f'{sh}!{c.replace("$", "")}'


def ref_targets(wb, addr, sub):
    """full addresses of the cells a reference sub-formula of the cell `addr` reads"""
    if sub is None:
        return []
    sub = strip_parens(sub)
    if sub[0] == 'name':
        t = name_target(wb, sub[1])
        return [t] if t else []
    if sub[0] != 'ref':
        return []
    own = (name_target(wb, addr) or addr).rsplit('!', 1)[0] if '!' not in addr else addr.rsplit('!', 1)[0]
    sheet = sub[1] if sub[1] is not None else own
    coord = sub[2].replace('$', '')
    if ':' not in coord:
        return [f'{sheet}!{coord}']
    import importlib
    utils = importlib.import_module('xlcalculator.utils')
    try:
        return [c for row in utils.resolve_ranges(f'{sheet}!{coord}')[1] for c in row]
    except Exception:  # noqa: BLE001
        return []


def if_array(wb, addr, sub):
    """`IF(<array>, …)`: the code raises ValueError (truth value of an Array); the evaluator model does not express it"""
    if sub is not None:
        sub = strip_parens(sub)
    if sub is None or sub[0] != 'call' or root_name(sub).replace('_XLFN.', '') != 'IF' or not sub[2]:
        return False
    from xlcalculator.xlfunctions import func_xltypes as ft
    sheet = addr.rsplit('!', 1)[0]
    probe = dict(wb, cells=dict(wb['cells'], **{f'{sheet}!Z98': {'f': '=' + render(sub[2][0])}}))
    return isinstance(real_raw(probe, f'{sheet}!Z98'), ft.Array)


def run(ctx):
    import logging
    import warnings
    logging.disable(logging.CRITICAL)
    warnings.simplefilter('ignore')
    res = Result()
    rng = ctx.rng
    thorough = ctx.tier == 'thorough'
    total = 100000 if thorough else 2400
    if ctx.widen:
        total = max(total, 6000)
    deadline = ctx.t0 + (23 * 60 if thorough else 105)

    cov = parse_kv(ctx.driver.batch(['X01\tcoverage'])[0])
    res.extra['integrated_functions'] = cov.get('integrated', '').split(',')
    res.extra['exact_point_only'] = cov.get('exactpoint', '').split(',')
    res.extra['not_integrated'] = cov.get('not', '').split(',')
    res.rule = ('random workbooks (3-15 cells, 1-3 sheets incl. quoted names, $ spellings, cross-sheet references, ranges, '
                'defined names and texts spelt like them, tables placed across column indices that are multiples of 8, tiny / '
                'huge magnitudes as cells, literals and conditions, user spellings of numerals (.08, 8., 80E-3), texts with digits '
                'inside, DATE()/EDATE() results against plain serials, lookup columns with empty and error cells) whose formulas '
                'are type-directed random nestings over the integrated library with a malformed stream (wrong arity, wrong kinds, '
                'errors, blanks, ranges, broken text); every cell is evaluated by the real code and by the Lean pipeline; 40 % of the '
                'workbooks continue with a HISTORY on the same model and evaluator (set_cell_value with type twins / new cells / '
                'formula cells, scenario inputs outside an aggregated range of formula cells; re-evaluation), compared call by call '
                'with Model.C04.run on the compiled model; a case is non-trivial per (root function, outcome class)')

    items = []
    corpus_dir = common.CORPUS / 'X01'
    if corpus_dir.exists() and os.environ.get('X01_NO_CORPUS') != '1':
        for p in sorted(corpus_dir.glob('*.json')):
            items.append((json.loads(p.read_text()), {}, str(p.name)))
    if ctx.replay:
        obj = json.loads(open(ctx.replay).read())
        wb = obj.get('input', obj).get('workbook', obj.get('input', obj))
        items = [(wb, {}, 'replay')]
        total = 0

    drifts = []
    hdrifts = []
    done = 0
    chunk = 500
    while True:
        if done >= total and not items:
            break
        batch = items
        items = []
        while len(batch) < chunk and done < total:
            wb, trees = gen_workbook(rng)
            batch.append((wb, {a: t for a, t in trees.items()}, None))
            done += 1
        reqs = [(wb, addrs_of(wb)) for wb, _, _ in batch]
        leans = lean_eval(ctx, reqs)
        for (wb, trees, tag), (_, addrs), lres in zip(batch, reqs, leans):
            out = real_eval(wb, addrs)
            if out is None:
                res.count('skipped:real-code-slower-than-20s')
                continue
            rres, dated = out
            if dated:
                res.count('skipped:dateutil-accepted-a-text')
                continue
            res.count('workbooks')
            has_array = any(r.startswith('A:') for r, _ in rres)
            for a, (real, crash), (lean, exact, fx) in zip(addrs, rres, lres):
                res.evaluations += 1
                c = classify(real, crash, lean, exact)
                t = trees.get(a)
                root = root_name(t) if t is not None else ('constant' if a in wb['cells'] or '!' in a else 'name')
                if c == 'unsupported':
                    res.count('cells:' + (lean if lean.startswith('unsupported:') else 'unsupported:nonfinite-real'))
                    continue
                if c == 'noise':
                    res.count('cells:float-noise')
                    continue
                if c == 'negzero':
                    res.count('outside:text-of-negative-zero')
                    continue
                if c == 'ok':
                    res.count('cells:agree' + ('' if exact == '1' else '(inexact floats)'))
                    res.nontrivial.add(f'{root}|{real[:2] if not real.startswith("X:") else real.split(":")[1]}')
                    if t is not None and size(t) >= 4:
                        res.sample({'formula': '=' + render(t), 'value': describe(real)})
                    continue
                if has_array and real.startswith('X:runtime') and crash in ('AttributeError', 'ValueError'):
                    # a cell whose value is an Array, read as a member of a range / as a scalar: the evaluator
                    # model keeps scalars in cells (`toArray`), the code raises
                    res.count('outside:array-valued-cell-read')
                    continue
                drifts.append((wb, trees, a, real, lean, fx, tag))
        # ---- histories: set_cell_value between evaluations on ONE model and ONE evaluator
        hitems = []
        for wb, trees, tag in batch:
            if wb.get('history'):
                ops = [['e', a] for a in addrs_of(wb)] + wb['history']
                hitems.append((wb, trees, ops))
        for (wb, trees, ops), lres in zip(hitems, lean_history(ctx, [(wb, ops) for wb, _, ops in hitems])):
            out = real_history(wb, ops)
            if out is None:
                res.count('skipped:real-code-slower-than-20s')
                continue
            rres, dated = out
            if dated:
                continue
            res.count('histories')
            n0 = len(addrs_of(wb))
            has_array = any(r.startswith('A:') for r, _ in rres)
            evs = [i for i, o in enumerate(ops) if o[0] == 'e']
            for k, ((real, crash), (lean, exact)) in enumerate(zip(rres, lres)):
                if k < n0:
                    continue                                  # the first pass is the static comparison above
                res.evaluations += 1
                c = classify(real, crash, lean, exact)
                a = ops[evs[k]][1]
                if c == 'ok':
                    res.count('history-steps:agree')
                    res.nontrivial.add(f'history|{root_name(trees[a]) if a in trees else "cell"}|{real[:2]}')
                    continue
                if c in ('unsupported', 'noise', 'negzero'):
                    res.count('history-steps:' + c)
                    continue
                if has_array and real.startswith('X:runtime') and crash in ('AttributeError', 'ValueError'):
                    res.count('outside:array-valued-cell-read')
                    continue
                hdrifts.append((wb, trees, ops[:evs[k] + 1], a, real, lean))
                break                                          # later steps of this history may only be consequences
        if time.time() > deadline:
            res.notes.append(f'time budget reached after {done} workbooks')
            break

    res.count('generated-workbooks', done)
    # a history step that disagrees: is it the workbook AFTER the sets that disagrees (then it is an ordinary, static
    # disagreement of that workbook and goes through the same analysis), or only the history?
    genuine = []
    for wb, trees, ops, a, real, lean in hdrifts[:60]:
        static = apply_sets(wb, ops)
        try:
            bad, _, _ = disagrees(ctx, static, a)
        except Exception:  # noqa: BLE001
            bad = False
        if not bad:
            genuine.append((wb, trees, ops, a, real, lean))
            continue
        addrs = addrs_of(static)
        out = real_eval(static, addrs)
        if out is None:
            continue
        lres = lean_eval(ctx, [(static, addrs)])[0]
        has_array = any(r.startswith('A:') for r, _ in out[0])
        for x, (rv, cr), (lv, ex, fx) in zip(addrs, out[0], lres):
            if classify(rv, cr, lv, ex) != 'drift':
                continue
            if has_array and rv.startswith('X:runtime') and cr in ('AttributeError', 'ValueError'):
                res.count('outside:array-valued-cell-read')
                continue
            drifts.append((static, trees, x, rv, lv, fx, 'after-history'))
    genuine += hdrifts[60:]
    seen_roots = {}
    drifting = {(id(wb), a) for wb, _, a, *_ in drifts}
    excused = set()
    pending = []
    shrunk = 0
    for i, (wb, trees, a, real, lean, fx, tag) in enumerate(drifts):
        if '!' not in a and (id(wb), name_target(wb, a)) in drifting:
            continue                                   # a defined name of a cell that is reported itself
        entry = {'what': 'DRIFT model != code', 'input': {'workbook': wb, 'cell': a, 'compiled': fx},
                 'expected': describe(lean), 'got': describe(real)}
        sub = None
        if trees and i < 400:
            try:
                root, sub = blame(ctx, wb, trees, a)
                if if_array(wb, a, sub) or (real.startswith('X:runtime') and trees.get(a) is not None and any(
                        if_array(wb, a, st) for _, st in subtrees(trees[a]) if st[0] == 'call')):
                    # also when the blamed sub-formula is a reference back to this very cell (`=IF(A1:B2, f(B3))` in B3:
                    # the model goes on into the branch and reports the cycle, the code raises at the condition)
                    res.count('outside:IF-array-condition')
                    excused.add((id(wb), a))
                    continue
                entry['what'] = f'DRIFT model != code at {root}'
                entry['input']['smallest_subformula'] = render(sub) if sub else None
                entry['input']['root_function'] = root
            except Exception as exc:  # noqa: BLE001
                entry['shrink_error'] = repr(exc)
        pending.append((wb, trees, a, sub, entry))
    # a disagreement that is only the consequence of another cell's (reported or excused) disagreement
    progress = True
    while progress:
        progress = False
        for item in list(pending):
            wb, trees, a, sub, entry = item
            tg = ref_targets(wb, a, sub)
            if any((id(wb), t) in excused for t in tg):
                excused.add((id(wb), a))
                res.count('outside:depends-on-an-excused-cell')
                pending.remove(item)
                progress = True
    for wb, trees, a, sub, entry in pending:
        tg = ref_targets(wb, a, sub)
        if any((id(wb), t) in drifting and t != a for t in tg):
            res.count('drift:consequence-of-another-reported-cell')
            continue
        if trees and shrunk < 6 and 'shrink_error' not in entry:
            shrunk += 1
            try:
                wb2, trees2 = shrink(ctx, wb, trees, a)
                root2, sub2 = blame(ctx, wb2, trees2, a)
                _, r2, l2 = disagrees(ctx, wb2, a)
                if if_array(wb2, a, sub2):
                    res.count('outside:IF-array-condition')
                    continue
                entry = {'what': f'DRIFT model != code at {root2}', 'input': {'workbook': wb2, 'cell': a,
                         'smallest_subformula': render(sub2) if sub2 else None, 'root_function': root2},
                         'expected': describe(l2), 'got': describe(r2)}
            except Exception as exc:  # noqa: BLE001
                entry['shrink_error'] = repr(exc)
        seen_roots[entry['what']] = seen_roots.get(entry['what'], 0) + 1
        res.drift.append(entry)
        res.violations.append(entry)
    for n, (wb, trees, ops, a, real, lean) in enumerate(genuine):
        entry = {'what': 'DRIFT model != code in a HISTORY (unshrunk)', 'input': {'workbook': wb, 'history': ops, 'cell': a},
                 'expected': describe(lean), 'got': describe(real)}
        if n < 12:
            try:
                # drop calls while the disagreement at the last call persists
                keep = list(ops)
                i = 0
                while i < len(keep) - 1 and len(keep) > 1:
                    trial = keep[:i] + keep[i + 1:]
                    out = real_history(wb, trial)
                    ok = False
                    if out is not None and out[0]:
                        (rr, cr) = out[0][-1]
                        (ll, ex) = lean_history(ctx, [(wb, trial)])[0][-1]
                        ok = classify(rr, cr, ll, ex) == 'drift'
                    if ok:
                        keep = trial
                    else:
                        i += 1
                out = real_history(wb, keep)
                rr = out[0][-1][0] if out and out[0] else real
                ll = lean_history(ctx, [(wb, keep)])[0][-1][0]
                entry = {'what': 'DRIFT model != code in a HISTORY (set_cell_value / evaluate on one model)',
                         'input': {'workbook': {k: v for k, v in wb.items() if k != 'history'}, 'history': keep,
                                   'cell': a, 'formula': wb['cells'].get(a, wb['cells'].get(a.rsplit('!', 1)[-1]))},
                         'expected': describe(ll), 'got': describe(rr)}
            except Exception as exc:  # noqa: BLE001
                entry['shrink_error'] = repr(exc)
        seen_roots[entry['what']] = seen_roots.get(entry['what'], 0) + 1
        res.drift.append(entry)
        res.violations.append(entry)
    if drifts or hdrifts:
        res.notes.append(f'{len(drifts)} disagreeing cells, {len(hdrifts)} disagreeing histories; by kind: {seen_roots}')
        for e in res.drift[:8]:
            print('DRIFT', json.dumps(e, default=str)[:900])
    return res
