#!/bin/bash
# harness/regress.sh <lanes> : every seeded change (must be caught) and every neutral refactoring (must stay quiet) against its property quick check, in isolation (seedtest.sh); results in /tmp/regress.all.log
lanes=${1:-4}
ls -d /verif/seeded/*/ /verif/neutral/*/ | sort > /tmp/regress.list
rm -f /tmp/regress.*.log
run_lane() {
  lane=$1; i=0
  while read d; do
    i=$((i+1)); [ $((i % lanes)) -eq $lane ] || continue
    id=$(basename $d); prop=${id%%-*}; kind=$(basename $(dirname $d))
    out=$(SEED_SUITE=0 /verif/harness/seedtest.sh $prop $d/patch.diff "" quick 2>&1 | grep -v vanished | head -1)
    echo "$kind $id: $(echo "$out" | sed 's/.*check //')" >> /tmp/regress.$lane.log
  done < /tmp/regress.list
}
for l in $(seq 0 $((lanes-1))); do run_lane $l & done
wait
cat /tmp/regress.*.log | sort > /tmp/regress.all.log
echo "seeded caught: $(grep -c '^seeded .*rc=1' /tmp/regress.all.log) / $(grep -c '^seeded' /tmp/regress.all.log); neutral quiet: $(grep -c '^neutral .*rc=0' /tmp/regress.all.log) / $(grep -c '^neutral' /tmp/regress.all.log)"
grep -v "^seeded .*rc=1\|^neutral .*rc=0" /tmp/regress.all.log
