#!/bin/bash
# repo_fix.sh <patch file> <commit message file>
# Trial a minimal repair in a scratch worktree of /repo's HEAD (so concurrent scratch edits in /repo
# neither disturb nor are disturbed by the suite run), run the unedited test suite there, and commit
# the patch to /repo iff the baseline result (815 passed, the same 12 baseline failures) is unchanged.
set -u
patch="$(readlink -f "$1")"; msgfile="$(readlink -f "$2")"
exec 9>/tmp/.xl_repo_fix.lock; flock 9
if ! head -1 "$msgfile" | grep -q '^fix: '; then echo "commit message must start with 'fix: '"; exit 2; fi
wt=$(mktemp -d /tmp/xlfix.XXXXXX); rmdir "$wt"
git -C /repo worktree add -q --detach "$wt" HEAD || exit 2
cleanup() { git -C /repo worktree remove --force "$wt" 2>/dev/null; rm -rf "$wt"; }
trap cleanup EXIT
cd "$wt" || exit 2
git apply --recount "$patch" || { echo "patch does not apply to HEAD"; exit 3; }
out=$(PYTHONPATH="$wt" /venv/bin/python -m pytest -q -p no:cacheprovider tests -n 8 2>&1 | tail -1)
echo "$out"
if ! echo "$out" | grep -q "12 failed, 815 passed"; then
  echo "SUITE RESULT CHANGED - not committed"
  PYTHONPATH="$wt" /venv/bin/python -m pytest -q -p no:cacheprovider tests -n 8 2>&1 | grep ^FAILED | grep -v "SUMIF\|ArrayTest\|countifs_test\|sumifs_test" | head
  exit 4
fi
files=$(git diff --name-only)
cd /repo || exit 2
for f in $files; do
  if [ -n "$(git status --porcelain -- "$f")" ]; then echo "/repo: $f has uncommitted changes - restore it first"; exit 2; fi
done
git apply --recount "$patch" || { echo "patch does not apply to /repo"; exit 3; }
git commit -q -F "$msgfile" -- $files && git log --oneline | head -1
