#!/bin/bash
# repo_fix.sh <patch file> <commit message file>
# Apply a minimal repair to /repo under a lock, run the unedited test suite, commit iff the baseline
# result (815 passed, the same 12 baseline failures) is unchanged; otherwise revert.
set -u
patch="$1"; msgfile="$2"
exec 9>/tmp/.xl_repo_fix.lock; flock 9
cd /repo || exit 2
if ! head -1 "$msgfile" | grep -q '^fix: '; then echo "commit message must start with 'fix: '"; exit 2; fi
if [ -n "$(git status --porcelain)" ]; then echo "/repo working tree is not clean"; git status --short; exit 2; fi
git apply --recount "$patch" || { echo "patch does not apply"; exit 3; }
out=$(/venv/bin/python -m pytest -q -p no:cacheprovider tests -n 8 2>&1 | tail -1)
echo "$out"
if echo "$out" | grep -q "12 failed, 815 passed"; then
  git commit -qa -F "$msgfile" && git log --oneline | head -1
else
  echo "SUITE RESULT CHANGED - reverting"; git checkout -- . ; exit 4
fi
