#!/venv/bin/python
"""./check Cxx --tier quick|thorough [--replay path]   (DESIGN.md §2.3)

exit 0: property held on everything explored (KNOWN-FINDING lines allowed)
exit 1: a `VIOLATION property=<id> replay=<path>` line was printed
exit 2: infrastructure failure (timeout, missing tool)
"""
import argparse
import importlib
import json
import os
import random
import sys
import time
import traceback

sys.path.insert(0, os.path.dirname(os.path.abspath(__file__)))
import common  # noqa: E402


class Ctx:
    pass


def main():
    ap = argparse.ArgumentParser()
    ap.add_argument('prop')
    ap.add_argument('--tier', default=os.environ.get('VERIF_TIER', 'quick'),
                    choices=['quick', 'thorough'])
    ap.add_argument('--replay', default=None)
    ap.add_argument('--no-build', action='store_true', help='debugging: skip extract/build/audit')
    args = ap.parse_args()
    prop = args.prop.upper()
    seed = int(os.environ.get('VERIF_SEED', '0') or 0)
    t0 = time.time()

    mod = importlib.import_module(f'props.{prop.lower()}')

    if args.no_build:
        st = common.ProofStatus()
    else:
        try:
            st = common.prepare(prop, getattr(mod, 'EXTRA_TARGETS', ()), getattr(mod, 'EXTRA_EXTRACTORS', ()),
                                getattr(mod, 'TRANSPORT', None))
        except Exception:
            traceback.print_exc()
            print(f'INFRASTRUCTURE: build step failed for {prop}')
            return 2
        if args.tier == 'thorough' and st.props_ok and os.environ.get('XLVERIF_SKIP_LEANCHECKER') != '1':
            with common.build_lock():
                rc, out = common.sh(['lake', 'env', 'leanchecker', f'XlVerif.Props.{prop}'],
                                    cwd=str(common.LEAN), timeout=3600)
            if rc != 0:
                st.props_ok = False
                st.props_log += '\n[leanchecker]\n' + out
                st.broken.append(f'leanchecker rejects XlVerif.Props.{prop}')

    ctx = Ctx()
    ctx.prop, ctx.tier, ctx.seed = prop, args.tier, seed
    ctx.rng = random.Random(seed * 1000003 + int(prop[1:]))
    ctx.driver = common.Driver(prop)
    ctx.status = st
    ctx.widen = False
    ctx.known = common.known_findings(prop)
    ctx.replay = args.replay
    ctx.t0 = t0

    if not st.model_ok and not common.driver_exe(prop).exists():
        print('INFRASTRUCTURE: the Lean driver does not build and no earlier binary exists')
        print(st.model_log[-3000:])
        return 2

    try:
        res = mod.run(ctx)
        if not st.ok and not res.violations:
            # a proof obligation / the translator / the model build no longer checks and the ordinary
            # run found no failing input: widen the search before reporting (DESIGN.md §2.3 step 6)
            ctx.widen = True
            ctx.rng = random.Random(seed * 7919 + 17)
            res2 = mod.run(ctx)
            res2.evaluations += res.evaluations
            res2.nontrivial |= res.nontrivial
            for k, v in res.known.items():
                res2.known.setdefault(k, v)
            res = res2
    except Exception:
        traceback.print_exc()
        print(f'INFRASTRUCTURE: correspondence run of {prop} failed')
        return 2

    listed = {e['id']: e for e in ctx.known}
    kf_lines = []
    for fid, e in listed.items():
        if e.get('status') != 'known':
            continue
        if fid in res.known:
            line = f"KNOWN-FINDING: property={prop} {fid} {e['what']}"
        else:
            line = None
            res.notes.append(f'listed finding {fid} was not reproduced on this run')
        if line:
            print(line)
            kf_lines.append(line)

    nviol = 0
    seen = set()
    for v in res.violations:
        key = v.get('what', '') + '|' + json.dumps(v.get('input'), sort_keys=True, default=str)
        if key in seen:
            continue
        seen.add(key)
        if nviol < 10:
            path = common.write_replay(prop, {'property': prop, 'kind': 'failing-input', **v})
            print(f'VIOLATION property={prop} replay={path}')
            print(f'  {v.get("what")}: input={v.get("input")!r} expected={v.get("expected")!r} '
                  f'got={v.get("got")!r}'[:600])
        nviol += 1
    if not st.ok and nviol == 0:
        path = common.write_replay(prop, {
            'property': prop, 'kind': 'proof-or-correspondence-break',
            'no_longer_checks': st.broken,
            'extract_log': st.extract_log[-4000:], 'model_log': st.model_log[-4000:],
            'props_log': st.props_log[-8000:]})
        print(f'VIOLATION property={prop} replay={path} no-failing-input-found')
        for b in st.broken:
            print(f'  no longer checks: {b}')
        nviol = 1

    common.write_evidence(prop, args.tier, seed, st, res, time.time() - t0, nviol, kf_lines,
                          getattr(mod, 'ASSUMPTIONS', []), getattr(mod, 'TRUSTED', []))
    print(f'{prop} {args.tier}: obligations={st.obligations} discharged={st.discharged} '
          f'cases={res.evaluations} nontrivial={len(res.nontrivial)} violations={nviol} '
          f'wall={time.time() - t0:.1f}s')
    return 1 if nviol else 0


if __name__ == '__main__':
    sys.exit(main())
