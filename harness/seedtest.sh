#!/bin/bash
# seedtest.sh <Cxx> <patch.diff> [demo.py] [tier]
# Confirm a seeded change (demo passes on clean tree / fails with the change; unedited suite unchanged) and run
# the property's check against it, in an isolated copy of /verif and a scratch worktree of /repo, so that
# neither /repo nor the shared Lean build is disturbed.  Prints a one-line verdict.
set -u
prop="$1"; patch="$(readlink -f "$2")"; demo="${3:-}"; tier="${4:-quick}"
[ -n "$demo" ] && demo="$(readlink -f "$demo")"
tag=$(basename "$patch" .diff)_$$
wt=/tmp/vseed_repo_$tag; vc=/tmp/vseed_verif_$tag
cleanup() { git -C /repo worktree remove --force "$wt" 2>/dev/null; rm -rf "$wt" "$vc"; }
trap cleanup EXIT
git -C /repo worktree add -q --detach "$wt" HEAD || exit 2
demo_clean="-"; demo_mut="-"
if [ -n "$demo" ]; then (cd /tmp && PYTHONPATH="$wt" /venv/bin/python "$demo" >/dev/null 2>&1); demo_clean=$?; fi
(cd "$wt" && git apply "$patch") || { echo "SEED $prop $(basename $patch): patch does not apply"; exit 3; }
if [ -n "$demo" ]; then (cd /tmp && PYTHONPATH="$wt" /venv/bin/python "$demo" >/dev/null 2>&1); demo_mut=$?; fi
suite="skipped"
if [ "${SEED_SUITE:-1}" = "1" ]; then
  suite=$(cd "$wt" && PYTHONPATH="$wt" /venv/bin/python -m pytest -q -p no:cacheprovider tests -n 8 2>&1 | tail -1)
fi
mkdir -p "$vc"
rsync -a --exclude .git --exclude replays /verif/ "$vc"/
out=$(cd "$vc" && XLVERIF_REPO="$wt" ./check "$prop" --tier "$tier" 2>&1); rc=$?
nv=$(echo "$out" | grep -c '^VIOLATION')
first=$(echo "$out" | grep -A1 '^VIOLATION' | head -2 | tail -1 | cut -c1-300)
echo "SEED $prop $(basename $patch): demo clean=$demo_clean mutated=$demo_mut | suite: $suite | check rc=$rc violations=$nv"
echo "   first: $first"
echo "$out" | tail -3 | sed 's/^/   | /'
