import Lean
/-!
  `lake env lean --run Audit.lean <Module>` — list every theorem declared in `<Module>` together with
  the axioms it depends on (the same computation as `#print axioms`), one line per theorem:
  `THEOREM <name> AXIOMS <a1,a2,…>`; and `DEF`-lines are not printed.  Also prints `SORRY <name>` for any
  declaration of the module that depends on `sorryAx`.
-/
open Lean

def main (args : List String) : IO UInt32 := do
  let some modStr := args.head? | do IO.eprintln "usage: Audit <Module>"; return 2
  let modName := modStr.splitOn "." |>.foldl (fun n s => Name.str n s) Name.anonymous
  initSearchPath (← findSysroot)
  let env ← importModules #[{ module := modName }] {} (trustLevel := 1024) (loadExts := false)
  let some idx := env.getModuleIdx? modName | do IO.eprintln "module not found"; return 2
  let mut n := 0
  for (name, info) in env.constants.toList do
    if env.getModuleIdxFor? name != some idx then continue
    match info with
    | .thmInfo _ =>
      if name.isInternalDetail then continue
      let (axsA, _) ← (collectAxioms name : CoreM (Array Name)).toIO
        { fileName := "<audit>", fileMap := default } { env := env }
      let axs := axsA.toList.map toString
      IO.println s!"THEOREM {name} AXIOMS {",".intercalate axs}"
      n := n + 1
    | .axiomInfo _ => IO.println s!"AXIOM {name}"
    | _ => pure ()
  IO.println s!"COUNT {n}"
  return 0
