import XlVerif.Drv.All
/-! Line-protocol driver: one request per line on stdin, one response per line on stdout. -/
partial def loop (h : IO.FS.Stream) (out : IO.FS.Stream) : IO Unit := do
  let line ← h.getLine
  if line.isEmpty then return ()
  let l := if line.endsWith "\n" then (line.dropEnd 1).toString else line
  out.putStrLn (XlVerif.Drv.handle l)
  loop h out
def main : IO Unit := do
  let out ← IO.getStdout
  loop (← IO.getStdin) out
  out.flush
