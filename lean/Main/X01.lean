import XlVerif.Drv.X01
/-! Line-protocol driver of property X01 alone: one request per line on stdin (`X01\t<fields…>`),
    one response per line on stdout.  Built as its own executable so that a property whose model
    does not build cannot take the other properties' drivers down with it. -/
partial def loop (h : IO.FS.Stream) (out : IO.FS.Stream) : IO Unit := do
  let line ← h.getLine
  if line.isEmpty then return ()
  let l := if line.endsWith "\n" then (line.dropEnd 1).toString else line
  match l.splitOn "\t" with
  | _ :: rest => out.putStrLn (XlVerif.Drv.X01.handle rest)
  | [] => out.putStrLn "error=empty"
  loop h out
def main : IO Unit := do
  let out ← IO.getStdout
  loop (← IO.getStdin) out
  out.flush
