-- Root of the `XlVerif` library: models, specs and drivers (no proofs: those are built per property,
-- `lake build XlVerif.Props.Cxx`, so a broken proof never prevents the driver from building).
import XlVerif.Base
import XlVerif.Drv.All
