/-
  XlVerif.Base — value universe and wire format shared by every model, spec and driver.

  Core Lean only (no Mathlib, no Batteries): everything here must be usable from the compiled
  `xldriver` executable.  Text is `List Char` everywhere (see DESIGN.md §3.1).
-/
namespace XlVerif

/-- The seven Excel error codes (`xlerrors.ERROR_CODES`). -/
inductive Code | null | div0 | value | ref | name | num | na
  deriving DecidableEq, Repr, Inhabited

/-- A Python number: `int` or `float`.  A float is modelled as the exact rational it denotes
    ("ideal reals": IEEE rounding is *not* modelled, DESIGN.md §3.1). -/
inductive Num | int (z : Int) | flt (q : Rat)
  deriving DecidableEq, Repr, Inhabited

/-- Numeric value of a `Num`. -/
def Num.toRat : Num → Rat
  | .int z => (z : Rat)
  | .flt q => q

/-- Scalar Excel values: the payloads of `Number`, `Text`, `Boolean`, `Blank`, `DateTime`
    and `ExcelError`. A date is represented by its (exact) serial number. -/
inductive S
  | num (n : Num) | text (s : List Char) | bool (b : Bool) | blank
  | date (serial : Rat) | err (c : Code)
  deriving DecidableEq, Repr, Inhabited

/-- Values: scalars and two-dimensional arrays (row-major). -/
inductive V | s (x : S) | arr (rows : List (List S))
  deriving DecidableEq, Repr, Inhabited

/-- A Python exception escaping the API is a first-class outcome. -/
inductive Crash
  | typeError | valueError | zeroDivision | overflow | recursion | keyError | indexError
  | attributeError | assertion | invalidOperation | runtime | syntaxError | other
  deriving DecidableEq, Repr, Inhabited

/-- Outcome of running a piece of the implementation. -/
inductive Out (α : Type)
  | val (a : α) | crash (k : Crash) | nan | posInf | negInf | diverge
  deriving DecidableEq, Repr, Inhabited

deriving instance DecidableEq for Except

namespace Out
def map {α β} (f : α → β) : Out α → Out β
  | val a => val (f a) | crash k => crash k | nan => nan | posInf => posInf
  | negInf => negInf | diverge => diverge
def bind {α β} (o : Out α) (f : α → Out β) : Out β :=
  match o with
  | val a => f a | crash k => crash k | nan => nan | posInf => posInf
  | negInf => negInf | diverge => diverge
instance : Monad Out where
  pure := Out.val
  bind := Out.bind
end Out

/-! ## Wire format (DESIGN.md §3.2)

`I:<int>` `F:<num>/<den>` `T:<cp>.<cp>…` `B:0|1` `Z` `D:<num>/<den>` `E:<CODE>`
`A:<row>;<row>` with `<row>` = scalars joined by `,`.  Text payloads are decimal code points, so
no delimiter can occur inside a value. -/

def Code.wire : Code → String
  | .null => "NULL" | .div0 => "DIV0" | .value => "VALUE" | .ref => "REF"
  | .name => "NAME" | .num => "NUM" | .na => "NA"

def Code.ofWire? : String → Option Code
  | "NULL" => some .null | "DIV0" => some .div0 | "VALUE" => some .value | "REF" => some .ref
  | "NAME" => some .name | "NUM" => some .num | "NA" => some .na | _ => none

/-- Excel's spelling of a code (`#N/A`, …). -/
def Code.text : Code → List Char
  | .null => "#NULL!".toList | .div0 => "#DIV/0!".toList | .value => "#VALUE!".toList
  | .ref => "#REF!".toList | .name => "#NAME?".toList | .num => "#NUM!".toList
  | .na => "#N/A".toList

def Crash.wire : Crash → String
  | .typeError => "TypeError" | .valueError => "ValueError" | .zeroDivision => "ZeroDivisionError"
  | .overflow => "OverflowError" | .recursion => "RecursionError" | .keyError => "KeyError"
  | .indexError => "IndexError" | .attributeError => "AttributeError"
  | .assertion => "AssertionError" | .invalidOperation => "InvalidOperation"
  | .runtime => "RuntimeError" | .syntaxError => "SyntaxError" | .other => "Other"

def ratWire (q : Rat) : String := s!"{q.num}/{q.den}"

def textWire (s : List Char) : String :=
  ".".intercalate (s.map fun c => toString c.toNat)

def S.wire : S → String
  | .num (.int z) => s!"I:{z}"
  | .num (.flt q) => "F:" ++ ratWire q
  | .text s => "T:" ++ textWire s
  | .bool b => if b then "B:1" else "B:0"
  | .blank => "Z"
  | .date q => "D:" ++ ratWire q
  | .err c => "E:" ++ c.wire

def V.wire : V → String
  | .s x => x.wire
  | .arr rows => "A:" ++ ";".intercalate (rows.map fun r => ",".intercalate (r.map S.wire))

def Out.wire {α} (f : α → String) : Out α → String
  | .val a => f a
  | .crash k => "X:" ++ k.wire
  | .nan => "N:nan" | .posInf => "N:+inf" | .negInf => "N:-inf"
  | .diverge => "X:diverge"

def parseInt? (s : String) : Option Int := s.toInt?

def parseRat? (s : String) : Option Rat :=
  match s.splitOn "/" with
  | [n] => (parseInt? n).map fun z => (z : Rat)
  | [n, d] => do
      let z ← parseInt? n
      let k ← d.toNat?
      if k = 0 then none else some ((z : Rat) / (k : Rat))
  | _ => none

def parseText? (s : String) : Option (List Char) :=
  if s.isEmpty then some [] else
    (s.splitOn ".").mapM fun t => (t.toNat?).map Char.ofNat

def S.ofWire? (s : String) : Option S :=
  if s == "Z" then some .blank
  else if s.startsWith "I:" then (parseInt? (s.drop 2).toString).map fun z => .num (.int z)
  else if s.startsWith "F:" then (parseRat? (s.drop 2).toString).map fun q => .num (.flt q)
  else if s.startsWith "T:" then (parseText? (s.drop 2).toString).map .text
  else if s.startsWith "B:" then
    (match (s.drop 2).toString with | "1" => some (.bool true) | "0" => some (.bool false) | _ => none)
  else if s.startsWith "D:" then (parseRat? (s.drop 2).toString).map .date
  else if s.startsWith "E:" then (Code.ofWire? (s.drop 2).toString).map .err
  else none

def V.ofWire? (s : String) : Option V :=
  if s.startsWith "A:" then
    let body := (s.drop 2).toString
    if body.isEmpty then some (.arr []) else
      ((body.splitOn ";").mapM fun (r : String) =>
        if r.isEmpty then some [] else (r.splitOn ",").mapM S.ofWire?).map .arr
  else (S.ofWire? s).map .s

/-- Convenience for drivers: `key=value` fields joined by tabs. -/
def kv (fields : List (String × String)) : String :=
  "\t".intercalate (fields.map fun (k, v) => k ++ "=" ++ v)

end XlVerif
