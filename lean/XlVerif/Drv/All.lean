import XlVerif.Base
import XlVerif.Drv.C01
import XlVerif.Drv.C02
import XlVerif.Drv.C03
import XlVerif.Drv.C04
import XlVerif.Drv.C05
import XlVerif.Drv.C06
import XlVerif.Drv.C07
import XlVerif.Drv.C08
import XlVerif.Drv.C09
import XlVerif.Drv.C10
import XlVerif.Drv.C11
import XlVerif.Drv.C12
import XlVerif.Drv.C13
import XlVerif.Drv.C14
import XlVerif.Drv.C15
import XlVerif.Drv.C16
import XlVerif.Drv.C17
import XlVerif.Drv.C18
import XlVerif.Drv.C19
import XlVerif.Drv.C20
namespace XlVerif.Drv
/-- Dispatch one request line (`<property id>\t<fields…>`) to the property's driver. -/
def handle (line : String) : String :=
  match line.splitOn "\t" with
  | "PING" :: _ => "PONG"
  | "C01" :: rest => C01.handle rest
  | "C02" :: rest => C02.handle rest
  | "C03" :: rest => C03.handle rest
  | "C04" :: rest => C04.handle rest
  | "C05" :: rest => C05.handle rest
  | "C06" :: rest => C06.handle rest
  | "C07" :: rest => C07.handle rest
  | "C08" :: rest => C08.handle rest
  | "C09" :: rest => C09.handle rest
  | "C10" :: rest => C10.handle rest
  | "C11" :: rest => C11.handle rest
  | "C12" :: rest => C12.handle rest
  | "C13" :: rest => C13.handle rest
  | "C14" :: rest => C14.handle rest
  | "C15" :: rest => C15.handle rest
  | "C16" :: rest => C16.handle rest
  | "C17" :: rest => C17.handle rest
  | "C18" :: rest => C18.handle rest
  | "C19" :: rest => C19.handle rest
  | "C20" :: rest => C20.handle rest
  | _ => "error=unknown-request"
end XlVerif.Drv
