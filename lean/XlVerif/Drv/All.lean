import XlVerif.Base
import XlVerif.Drv.C17
namespace XlVerif.Drv
/-- Dispatch one request line (`<property id>\t<fields…>`) to the property's driver. -/
def handle (line : String) : String :=
  match line.splitOn "\t" with
  | "PING" :: _ => "PONG"
  | "C17" :: rest => C17.handle rest
  | _ => "error=unknown-request"
end XlVerif.Drv
