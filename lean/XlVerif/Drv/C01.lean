import XlVerif.Model.C01
import XlVerif.Spec.C01
import XlVerif.Drv.C02
/-! Driver for C01.
  `C01 eval <seed> <expr> <env>` →
      `text=<render>  spec=<denote>  impl=<evaluateFormula of that text>  tree=<treeOf>  wf=0|1  dom=0|1  sens=0|1`
  (`sens=1`: the outcome depends on IEEE rounding of an intermediate float — outside the compared domain)
  `<expr>`, `<seed>`: as for `C02 expr` (wire form of an abstract expression, blank oracle).
  `<env>`: `ADDR~<value>` items joined by `|` (or empty); value = `I:<int>` or `F:<num>/<den>`; the model
  gets the number as given (int or float), the Spec its rational value.
  `spec`: `F:<num>/<den>` number, `T:<code points>` text, `B:0|1`, `E:<CODE>`, `U` (the statement is silent).
  `impl`: a value in the wire form of `Base.lean`, `N:nonfinite`, or `X:<Exception>`.
  `C01 evaltext <text> <env>` → `impl=…` for a raw formula text.
-/
namespace XlVerif.Drv.C01
open XlVerif XlVerif.Model.Value XlVerif.Spec.C02

def envOf (w : String) : Option (List (List Char × Num)) :=
  if w.isEmpty then some [] else
    (w.splitOn "|").mapM fun p =>
      match p.splitOn "~" with
      | [a, v] => (match S.ofWire? v with
                   | some (.num n) => some (a.toList, n)
                   | _ => none)
      | _ => none

def modelEnv (l : List (List Char × Num)) : XlVerif.Model.C01.Env := fun a => lookup a l
def specEnv (l : List (List Char × Num)) : XlVerif.Spec.C01.Env := fun a =>
  match lookup a l with | some n => n.toRat | none => 0

def resW : XlVerif.Spec.C01.Res → String
  | .num q => "F:" ++ ratWire q
  | .text s => "T:" ++ textWire s
  | .bool b => if b then "B:1" else "B:0"
  | .err c => "E:" ++ c.wire
  | .undef => "U"

def oprW : OpR → String
  | .val s => s.wire
  | .nonfinite => "N:nonfinite"
  | .py k => "X:" ++ k.wire

/-- Is the outcome of `e` sensitive to IEEE rounding (which neither Spec nor model describe)?  True when
    some comparison, or the zero test of a division, or the integrality test of an exponent, is applied to
    operands that the implementation holds as floats (not integers by construction) and whose exact
    values are equal or closer than 1e-9 relatively.  Such inputs are outside the compared domain. -/
def sensitive (env : XlVerif.Spec.C01.Env) : Expr → Bool
  | .neg e => sensitive env e
  | .paren e => sensitive env e
  | .bin o l r =>
    sensitive env l || sensitive env r ||
    (let exl := (XlVerif.Spec.C01.exactInt env l).isSome
     let exr := (XlVerif.Spec.C01.exactInt env r).isSome
     let close (a b : Rat) : Bool :=
       let d := if a - b < 0 then b - a else a - b
       let m := (if a < 0 then -a else a) + (if b < 0 then -b else b) + 1
       decide (d * 1000000000 < m)
     match XlVerif.Spec.C01.denote env l, XlVerif.Spec.C01.denote env r with
     | .num a, .num b =>
       (match o with
        | .div => !exr && close b 0
        | .pow => !exr && (decide (a < 0) || close a 0) || (!exl && close a 0 && decide (b < 0))
        | .add | .sub | .mul | .cat => false
        | _ => !(exl && exr) && close a b)
     | _, _ => false)
  | _ => false

def handle (fields : List String) : String :=
  match fields with
  | ["eval", seed, w, envw] =>
    (match seed.toNat?, XlVerif.Drv.C02.exprOf (w.splitOn " "), envOf envw with
     | some sd, some (e, []), some env =>
       let text := render (XlVerif.Drv.C02.oracle sd) e
       kv [("text", textWire text),
           ("spec", resW (XlVerif.Spec.C01.denote (specEnv env) e)),
           ("impl", oprW (XlVerif.Model.C01.evaluateFormula text (modelEnv env))),
           ("tree", XlVerif.Drv.C02.treeW (treeOf e)),
           ("wf", if wfB e then "1" else "0"),
           ("dom", if XlVerif.Spec.C01.inC01 e then "1" else "0"),
           ("sens", if sensitive (specEnv env) e then "1" else "0")]
     | _, _, _ => "error=bad-args")
  | ["evaltext", t, envw] =>
    (match parseText? t, envOf envw with
     | some s, some env => kv [("impl", oprW (XlVerif.Model.C01.evaluateFormula s (modelEnv env)))]
     | _, _ => "error=bad-args")
  | _ => "error=bad-request"
end XlVerif.Drv.C01
