import XlVerif.Base
/-! Driver for C01 (stub: replaced when the property's model is built). -/
namespace XlVerif.Drv.C01
def handle (_fields : List String) : String := "error=not-implemented"
end XlVerif.Drv.C01
