import XlVerif.Model.C02
/-! Driver for C02 (also used by C01).
  `C02 tok <text>`                 → `impl=<tokens>`  tokens = `ttype/tsubtype/<value>` joined by `|`
  `C02 parse <names> <text>`       → `impl=<ast>`     names = `<name>~<target>` joined by `|` (or empty)
  `C02 shape <text>`               → `impl=<tree | X:…>`     (raw text, malformed stream)
  `C02 expr <seed> <expr>`         → `text=<render>  tree=<treeOf>  impl=<tree of Model parse | X:…>  wf=0|1`
  texts are decimal code points joined by `.`; values are `s<codepoints>` or `f<num>/<den>`.

  Wire form of an abstract expression (prefix notation, items separated by one blank):
    `n:<ip>:<fp|->:<exp|->:<pct>`   numeric literal; digits as written, exp = `+dd`/`-dd`, pct = 0|1
    `s:<codepoints>`                 string literal        `T` `F`   booleans       `e:<CODE>`  error literal
    `r:<n|p|q>:<sheet codepoints>:<cell>[:<cell>]`         reference; cell = `[$]LETTERS[$]DIGITS`
    `u` X     unary minus     `b:<op>` L R   binary (pow mul div add sub cat eq ne lt gt le ge)
    `p` X     parentheses     `c:<0|1>:<name codepoints>:<n>` A1 … An    call (`1`: leading `@`)
  Blank oracle from `<seed>`: 0 = no blanks, 1 = one space in every slot, 2 = one newline in every slot,
  otherwise a pseudo-random run (possibly empty) per slot, a function of seed, path and slot.
-/
namespace XlVerif.Drv.C02
open XlVerif XlVerif.Model.Tokenizer XlVerif.Model.Parser
open XlVerif.Spec.C02

def ttW : TType → String
  | .noop => "noop" | .operand => "operand" | .function => "function" | .subexpr => "subexpression"
  | .argument => "argument" | .opPre => "operator-prefix" | .opIn => "operator-infix"
  | .opPost => "operator-postfix" | .wspace => "white-space" | .unknown => "unknown" | .arglist => "arglist"

def tsW : TSub → String
  | .none => "" | .start => "start" | .stop => "stop" | .text => "text" | .number => "number"
  | .logical => "logical" | .error => "error" | .range => "range" | .math => "math"
  | .concat => "concatenate" | .intersect => "intersect" | .union => "union" | .noneLit => "none"
  | .pointer => "pointer"

def tvW : TV → String
  | .s v => "s" ++ textWire v
  | .f q => "f" ++ ratWire q

def tokW (t : Tok) : String := ttW t.t ++ "/" ++ tsW t.st ++ "/" ++ tvW t.v

def lexErrW : XlVerif.Model.Tokenizer.Err → String
  | .indexError => "X:IndexError" | .valueError => "X:ValueError"

def perrW : PErr → String
  | .lex e => lexErrW e
  | .valueError => "X:ValueError" | .syntaxError => "X:SyntaxError" | .indexError => "X:IndexError"
  | .keyError => "X:KeyError" | .unsupported => "unsupported"

partial def astW : Ast → String
  | .operand t => "(o " ++ tokW t ++ ")"
  | .unop t r => "(u " ++ tokW t ++ " " ++ astW r ++ ")"
  | .binop t l r => "(b " ++ tokW t ++ " " ++ astW l ++ " " ++ astW r ++ ")"
  | .func t args => "(f " ++ tokW t ++ (args.foldl (fun acc a => acc ++ " " ++ astW a) "") ++ ")"

/-- canonical text of a `Tree` (the Python tree walk prints the same) -/
partial def treeW : Tree → String
  | .num v => "(n " ++ textWire v ++ ")"
  | .pct q => "(q " ++ ratWire q ++ ")"
  | .str v => "(s " ++ textWire v ++ ")"
  | .bool b => if b then "(B 1)" else "(B 0)"
  | .err v => "(e " ++ textWire v ++ ")"
  | .ref v => "(r " ++ textWire v ++ ")"
  | .unop v x => "(u " ++ textWire v ++ " " ++ treeW x ++ ")"
  | .binop v l r => "(b " ++ textWire v ++ " " ++ treeW l ++ " " ++ treeW r ++ ")"
  | .call f args => "(c " ++ textWire f ++ (args.foldl (fun acc a => acc ++ " " ++ treeW a) "") ++ ")"
  | .unknown => "?"

def namesOf (w : String) : Option (List (List Char × List Char)) :=
  if w.isEmpty then some [] else
    (w.splitOn "|").mapM fun p =>
      match p.splitOn "~" with
      | [a, b] => do let x ← parseText? a; let y ← parseText? b; pure (x, y)
      | _ => none

/-! ### reading an abstract expression -/

def digitsOf (s : String) : Option (List Nat) :=
  s.toList.mapM fun c => if '0' ≤ c ∧ c ≤ '9' then some (c.toNat - 48) else none

def binOpOf : String → Option BinOp
  | "pow" => some .pow | "mul" => some .mul | "div" => some .div | "add" => some .add
  | "sub" => some .sub | "cat" => some .cat | "eq" => some .eq | "ne" => some .ne
  | "lt" => some .lt | "gt" => some .gt | "le" => some .le | "ge" => some .ge | _ => none

def cellOf (s : String) : Option Cell :=
  let cs := s.toList
  let (ca, cs) := match cs with | '$' :: r => (true, r) | r => (false, r)
  let col := cs.takeWhile fun c => 'A' ≤ c ∧ c ≤ 'Z' ∨ 'a' ≤ c ∧ c ≤ 'z'
  let cs := cs.dropWhile fun c => 'A' ≤ c ∧ c ≤ 'Z' ∨ 'a' ≤ c ∧ c ≤ 'z'
  let (ra, cs) := match cs with | '$' :: r => (true, r) | r => (false, r)
  (digitsOf (String.ofList cs)).map fun row => { colAbs := ca, col := col, rowAbs := ra, row := row }

def atomOf (w : String) : Option Expr :=
  match w.splitOn ":" with
  | ["n", ip, fp, ex, pct] => do
    let ip ← digitsOf ip
    let fp ← if fp = "-" then pure none else (digitsOf fp).map some
    let ex ← if ex = "-" then pure none else
      (match ex.toList with
       | '+' :: ds => (digitsOf (String.ofList ds)).map fun d => some (false, d)
       | '-' :: ds => (digitsOf (String.ofList ds)).map fun d => some (true, d)
       | _ => none)
    pure (.num { ip := ip, fp := fp, exp := ex } (pct = "1"))
  | ["s", t] => (parseText? t).map .str
  | ["T"] => some (.bool true)
  | ["F"] => some (.bool false)
  | ["e", c] => (Code.ofWire? c).map .err
  | "r" :: k :: sh :: c1 :: rest => do
    let name ← parseText? sh
    let sheet ← (match k with
      | "n" => some SheetQ.none | "p" => some (SheetQ.plain name) | "q" => some (SheetQ.quoted name)
      | _ => none)
    let first ← cellOf c1
    let last ← (match rest with
      | [] => some none
      | [c2] => (cellOf c2).map some
      | _ => none)
    pure (.ref { sheet := sheet, first := first, last := last })
  | _ => none

mutual
partial def exprOf : List String → Option (Expr × List String)
  | [] => none
  | w :: ws =>
    if w = "u" then (exprOf ws).map fun (e, r) => (.neg e, r)
    else if w = "p" then (exprOf ws).map fun (e, r) => (.paren e, r)
    else match w.splitOn ":" with
      | ["b", o] => do
        let o ← binOpOf o
        let (l, r1) ← exprOf ws
        let (r, r2) ← exprOf r1
        pure (.bin o l r, r2)
      | ["c", a, f, n] => do
        let f ← parseText? f
        let n ← n.toNat?
        let (args, r) ← exprsOf n ws
        pure (.call (a = "1") f args, r)
      | _ => (atomOf w).map fun e => (e, ws)
partial def exprsOf : Nat → List String → Option (List Expr × List String)
  | 0, ws => some ([], ws)
  | n + 1, ws => do
    let (a, r1) ← exprOf ws
    let (as, r2) ← exprsOf n r1
    pure (a :: as, r2)
end

/-- the blank oracle of a seed -/
def oracle (seed : Nat) : Blanks := fun p k =>
  if seed = 0 then []
  else if seed = 1 then [false]
  else if seed = 2 then [true]
  else
    let h0 := p.foldl (fun a i => (a * 31 + i + 7) % 1000003) (seed % 1000003)
    let h := (h0 * 131 + k * 17 + 3) % 1000003
    match (h / 7) % 8 with
    | 0 | 1 | 2 | 3 => []
    | 4 => [false]
    | 5 => [false, false]
    | 6 => [true]
    | _ => [false, true, false]

def implTree (text : List Char) : String :=
  match parse [] text with
  | .ok a => treeW (XlVerif.Model.C02.shape a)
  | .error e => perrW e

def handle (fields : List String) : String :=
  match fields with
  | ["tok", t] =>
    (match parseText? t with
     | some s =>
       (match getTokens s with
        | .ok ts => kv [("impl", "|".intercalate (ts.map tokW))]
        | .error e => kv [("impl", lexErrW e)])
     | none => "error=bad-args")
  | ["parse", ns, t] =>
    (match namesOf ns, parseText? t with
     | some names, some s =>
       (match parse names s with
        | .ok a => kv [("impl", astW a)]
        | .error e => kv [("impl", perrW e)])
     | _, _ => "error=bad-args")
  | ["shape", t] =>
    (match parseText? t with
     | some s => kv [("impl", implTree s)]
     | none => "error=bad-args")
  | ["expr", seed, w] =>
    (match seed.toNat?, exprOf (w.splitOn " ") with
     | some sd, some (e, []) =>
       let text := render (oracle sd) e
       kv [("text", textWire text), ("tree", treeW (treeOf e)), ("impl", implTree text),
           ("wf", if wfB e then "1" else "0")]
     | _, _ => "error=bad-args")
  | _ => "error=bad-request"
end XlVerif.Drv.C02
