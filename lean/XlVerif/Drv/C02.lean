import XlVerif.Model.Parser
/-! Driver for C02 (also used by C01).
  `C02 tok <text>`                 → `impl=<tokens>`  tokens = `ttype/tsubtype/<value>` joined by `|`
  `C02 parse <names> <text>`       → `impl=<tree>`    names = `<name>~<target>` joined by `|` (or empty)
  texts are decimal code points joined by `.`; values are `s<codepoints>` or `f<num>/<den>`
-/
namespace XlVerif.Drv.C02
open XlVerif XlVerif.Model.Tokenizer XlVerif.Model.Parser

def ttW : TType → String
  | .noop => "noop" | .operand => "operand" | .function => "function" | .subexpr => "subexpression"
  | .argument => "argument" | .opPre => "operator-prefix" | .opIn => "operator-infix"
  | .opPost => "operator-postfix" | .wspace => "white-space" | .unknown => "unknown" | .arglist => "arglist"

def tsW : TSub → String
  | .none => "" | .start => "start" | .stop => "stop" | .text => "text" | .number => "number"
  | .logical => "logical" | .error => "error" | .range => "range" | .math => "math"
  | .concat => "concatenate" | .intersect => "intersect" | .union => "union" | .noneLit => "none"
  | .pointer => "pointer"

def tvW : TV → String
  | .s v => "s" ++ textWire v
  | .f q => "f" ++ ratWire q

def tokW (t : Tok) : String := ttW t.t ++ "/" ++ tsW t.st ++ "/" ++ tvW t.v

def lexErrW : XlVerif.Model.Tokenizer.Err → String
  | .indexError => "X:IndexError" | .valueError => "X:ValueError"

def perrW : PErr → String
  | .lex e => lexErrW e
  | .valueError => "X:ValueError" | .syntaxError => "X:SyntaxError" | .indexError => "X:IndexError"
  | .keyError => "X:KeyError" | .unsupported => "unsupported"

partial def astW : Ast → String
  | .operand t => "(o " ++ tokW t ++ ")"
  | .unop t r => "(u " ++ tokW t ++ " " ++ astW r ++ ")"
  | .binop t l r => "(b " ++ tokW t ++ " " ++ astW l ++ " " ++ astW r ++ ")"
  | .func t args => "(f " ++ tokW t ++ (args.foldl (fun acc a => acc ++ " " ++ astW a) "") ++ ")"

def namesOf (w : String) : Option (List (List Char × List Char)) :=
  if w.isEmpty then some [] else
    (w.splitOn "|").mapM fun p =>
      match p.splitOn "~" with
      | [a, b] => do let x ← parseText? a; let y ← parseText? b; pure (x, y)
      | _ => none

def handle (fields : List String) : String :=
  match fields with
  | ["tok", t] =>
    (match parseText? t with
     | some s =>
       (match getTokens s with
        | .ok ts => kv [("impl", "|".intercalate (ts.map tokW))]
        | .error e => kv [("impl", lexErrW e)])
     | none => "error=bad-args")
  | ["parse", ns, t] =>
    (match namesOf ns, parseText? t with
     | some names, some s =>
       (match parse names s with
        | .ok a => kv [("impl", astW a)]
        | .error e => kv [("impl", perrW e)])
     | _, _ => "error=bad-args")
  | _ => "error=bad-request"
end XlVerif.Drv.C02
