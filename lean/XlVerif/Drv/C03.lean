import XlVerif.Model.C03
import XlVerif.Spec.C03
/-!
  Driver for C03.  Requests (fields separated by tabs; texts are `T:<code points joined by .>`,
  inside composite fields just the code points):

  * `C2N <T>` / `N2C <int>` / `GCL <int>` / `CIFS <T>`   column arithmetic (tokenizer and openpyxl)
  * `RS <T>` / `RA <T>`                                  `resolve_sheet`, `resolve_address`
  * `TOK <T>`                                            token value of a reference operand
  * `RR <T:ranges> <T:default> [<sheet cps> <c1> <r1> <c2> <r2>]`   `resolve_ranges` (+ `rect`)
  * `EV <T:default sheet> <items> <names> <probes>`      a whole workbook and probes, see below

  `EV`: items `key@sheet@col@row@content` joined by `;`; content `c<S wire>` or `f<rpn>`; rpn tokens joined
  by `~`: `n<int>`, `u<f>`, `b<f>`, `r<raw>^<k>^<sheet|*>^<c1>^<r1>^<c2>^<r2>` (k = c cell, r range, n name — the
  name's text is then in the sheet position).  Names `name@text@k@sheet@c1@r1@c2@r2` joined by `;`.  Probes
  `addr@k@sheet@col@row` joined by `;` (k = a: evaluate an address; n: evaluate a defined name).  An optional
  sixth field lists `set_cell_value` steps `addr@sheet@col@row@<S wire>` joined by `;`; the probes are then
  evaluated a second time on the updated workbook (`impl2`, `spec2`, `trunc2`).
  Response `impl=o1|o2|…  spec=…  trunc=b1|b2|… (per probe: in the region of D6)  kf=<workbook-level guard D0303>`.
-/
namespace XlVerif.Drv.C03
open XlVerif
open XlVerif.Model.C03

def join (sep : String) (l : List String) : String := sep.intercalate l

def splitField (sep : String) (s : String) : List String := if s.isEmpty then [] else s.splitOn sep

def textArg? (s : String) : Option Text :=
  if s.startsWith "T:" then parseText? (s.drop 2).toString else none

def tx (t : Text) : String := "T:" ++ textWire t

def hashP : Nat := 2147483647

def hashStep (h : Nat) (x : Nat) : Nat := (h * 131 + x) % hashP

def hashMatrix (m : List (List Text)) : Nat :=
  m.foldl (fun h row => hashStep (row.foldl (fun h t => hashStep (t.foldl (fun h c => hashStep h c.toNat) h) 44) h) 59) 7

def hashAddrs (m : List (List Spec.C03.Addr)) : Nat :=
  m.foldl (fun h row => hashStep (row.foldl (fun h a => hashStep (hashStep h a.col) a.row) h) 7) 7

def matrixLimit : Nat := 6000

def optTextWire : Option Text → String
  | none => "None"
  | some t => tx t

/-! ### formulas -/

def refOf (parts : List String) : Option (Expr × Spec.C03.SExpr) :=
  match parts with
  | [raw, k, sh, c1, r1, c2, r2] => do
    let raw ← parseText? raw
    let c1 ← c1.toNat?
    let r1 ← r1.toNat?
    let c2 ← c2.toNat?
    let r2 ← r2.toNat?
    let sheet : Option (Option Text) := if sh == "*" then some none else (parseText? sh).map some
    let sheet ← sheet
    match k with
    | "c" => some (.ref raw, .ref (.cell sheet c1 r1))
    | "r" => some (.ref raw, .ref (.range sheet c1 r1 c2 r2))
    | "n" => some (.ref raw, .ref (.name (sheet.getD [])))
    | _ => none
  | _ => none

def rpnStep (st : List (Expr × Spec.C03.SExpr)) (tk : String) : Option (List (Expr × Spec.C03.SExpr)) :=
  let body := (tk.drop 1).toString
  if tk.startsWith "n" then (body.toInt?).map fun z => (.num z, .num z) :: st
  else if tk.startsWith "u" then
    match body.toNat?, st with
    | some f, (a, sa) :: rest => some ((.un f a, .un f sa) :: rest)
    | _, _ => none
  else if tk.startsWith "b" then
    match body.toNat?, st with
    | some f, (b, sb) :: (a, sa) :: rest => some ((.bin f a b, .bin f sa sb) :: rest)
    | _, _ => none
  else if tk.startsWith "r" then (refOf (body.splitOn "^")).map fun e => e :: st
  else none

def rpn? (s : String) : Option (Expr × Spec.C03.SExpr) :=
  match (s.splitOn "~").foldlM rpnStep [] with
  | some [e] => some e
  | _ => none

structure ItemIn where
  key : Text
  addr : Spec.C03.Addr
  item : Item
  scell : Spec.C03.SCell

def item? (s : String) : Option ItemIn :=
  match s.splitOn "@" with
  | [key, sh, col, row, content] => do
    let key ← parseText? key
    let sh ← parseText? sh
    let col ← col.toNat?
    let row ← row.toNat?
    let body := (content.drop 1).toString
    if content.startsWith "c" then
      (S.ofWire? body).map fun v => ⟨key, ⟨sh, col, row⟩, .const v, .const v⟩
    else if content.startsWith "f" then
      (rpn? body).map fun e => ⟨key, ⟨sh, col, row⟩, .formula e.1, .formula e.2⟩
    else none
  | _ => none

structure NameIn where
  name : Text
  text : Text
  target : Spec.C03.Target

def name? (s : String) : Option NameIn :=
  match s.splitOn "@" with
  | [n, t, k, sh, c1, r1, c2, r2] => do
    let n ← parseText? n
    let t ← parseText? t
    let sh ← parseText? sh
    let c1 ← c1.toNat?
    let r1 ← r1.toNat?
    let c2 ← c2.toNat?
    let r2 ← r2.toNat?
    match k with
    | "c" => some ⟨n, t, .cell ⟨sh, c1, r1⟩⟩
    | "r" => some ⟨n, t, .range ⟨sh, c1, r1, c2, r2⟩⟩
    | _ => none
  | _ => none

inductive ProbeIn
  | addr (a : Text) (sa : Spec.C03.Addr)
  | name (n : Text)

def probe? (s : String) : Option ProbeIn :=
  match s.splitOn "@" with
  | [a, k, sh, col, row] => do
    let a ← parseText? a
    let sh ← parseText? sh
    let col ← col.toNat?
    let row ← row.toNat?
    match k with
    | "a" => some (.addr a ⟨sh, col, row⟩)
    | "n" => some (.name a)
    | _ => none
  | _ => none

structure UpdateIn where
  addr : Text
  saddr : Spec.C03.Addr
  value : S

def update? (s : String) : Option UpdateIn :=
  match s.splitOn "@" with
  | [a, sh, col, row, v] => do
    let a ← parseText? a
    let sh ← parseText? sh
    let col ← col.toNat?
    let row ← row.toNat?
    let v ← S.ofWire? v
    some ⟨a, ⟨sh, col, row⟩, v⟩
  | _ => none

def outWire (o : Out V) : String := o.wire V.wire

/-- the sheet part of a reference text contains `ch` -/
def sheetPartHas (ch : Char) (t : Text) : Bool :=
  match rsplitLast '!' t with
  | some (sh, _) => has ch sh
  | none => false

def bigFuel : Nat := 400
def noLimit : Nat := 1000000000
/-- the threshold named in known finding D6 (`MAX_EMPTY = 100`) -/
def d6Threshold : Nat := 100

def handleEV (dflt items names probes updates : String) : String :=
  match textArg? dflt, (splitField ";" items).mapM item?, (splitField ";" names).mapM name?,
        (splitField ";" probes).mapM probe?, (splitField ";" updates).mapM update? with
  | some dflt, some items, some names, some probes, some updates =>
    -- reference side
    let scells := items.map fun i => (i.addr, i.scell)
    let snames := names.map fun n => (n.name, n.target)
    let swb : Spec.C03.Workbook :=
      ⟨fun a => (scells.reverse.find? fun p => p.1 == a).map (·.2),
       fun n => (snames.reverse.find? fun p => p.1 == n).map (·.2)⟩
    let specOf : ProbeIn → Out V
      | .addr _ sa => Spec.C03.value cUn cBin swb bigFuel sa
      | .name n =>
        match swb.names n with
        | some (.cell a) => Spec.C03.value cUn cBin swb bigFuel a
        | _ => .crash .valueError
    let specs := probes.map specOf
    -- the same on the workbook after the `set_cell_value` steps (the latest value of an address wins)
    let scells2 := scells ++ updates.map fun u =>
      (u.saddr, match (scells.reverse.find? fun p => p.1 == u.saddr).map (·.2) with
        | some (.formula e) => Spec.C03.SCell.formula e        -- a formula cell keeps its formula
        | _ => Spec.C03.SCell.const u.value)
    let swb2 : Spec.C03.Workbook :=
      ⟨fun a => (scells2.reverse.find? fun p => p.1 == a).map (·.2), swb.names⟩
    let specOf2 : ProbeIn → Out V
      | .addr _ sa => Spec.C03.value cUn cBin swb2 bigFuel sa
      | .name n =>
        match swb2.names n with
        | some (.cell a) => Spec.C03.value cUn cBin swb2 bigFuel a
        | _ => .crash .valueError
    let specs2 := probes.map specOf2
    -- implementation side
    match compile dflt (items.map fun i => (i.key, i.item)) (names.map fun n => (n.name, n.text)) with
    | .val wb =>
      let implOf (me : Nat) : ProbeIn → Out V
        | .addr a _ => evaluate cUn cBin me wb bigFuel a
        | .name n => evaluate cUn cBin me wb bigFuel n
      let impls := probes.map (implOf Gen.maxEmpty)
      -- region of the known finding D6 as registered: the read is cut short with the threshold 100
      let listed := if Gen.maxEmpty == d6Threshold then impls else probes.map (implOf d6Threshold)
      let untr := probes.map (implOf noLimit)
      let trunc := (listed.zip untr).map fun p => if outWire p.1 == outWire p.2 then "0" else "1"
      let refs := (items.filterMap fun i => match i.item with
        | .formula e => some (e.mapRef tokRef).refs | _ => none).flatten
      let keys := items.map (·.key)
      let flags : List String :=
        (if refs.any (sheetPartHas ',') then ["D0303"] else []) ++
        -- D0304: a name on a cell that is empty when the model is built, filled by a later set_cell_value
        (if (names.any fun n => match n.target with
              | .cell a => !(items.any fun i => i.addr == a) && (updates.any fun u => u.saddr == a)
              | _ => false) then ["D0304"] else [])
      let second : List (String × String) :=
        if updates.isEmpty then [] else
          let wb2 : Out Wb := updates.foldl (fun (o : Out Wb) u =>
            match o with
            | .val w => setCellValue w u.addr u.value
            | e => e) (.val wb)
          match wb2 with
          | .val wb2 =>
            let ev (me : Nat) : ProbeIn → Out V
              | .addr a _ => evaluate cUn cBin me wb2 bigFuel a
              | .name n => evaluate cUn cBin me wb2 bigFuel n
            let impls2 := probes.map (ev Gen.maxEmpty)
            let listed2 := if Gen.maxEmpty == d6Threshold then impls2 else probes.map (ev d6Threshold)
            let untr2 := probes.map (ev noLimit)
            [("impl2", join "|" (impls2.map outWire)), ("spec2", join "|" (specs2.map outWire)),
             ("trunc2", join "|" ((listed2.zip untr2).map fun p => if outWire p.1 == outWire p.2 then "0" else "1"))]
          | _ => [("impl2", join "|" (probes.map fun _ => "X:ValueError")), ("spec2", join "|" (specs2.map outWire)),
                  ("trunc2", join "|" (probes.map fun _ => "0"))]
      kv ([("impl", join "|" (impls.map outWire)), ("spec", join "|" (specs.map outWire)),
          ("trunc", join "|" trunc), ("kf", join "," flags),
          ("ranges", toString wb.ranges.length), ("cells", toString wb.cells.length)] ++ second)
    | o =>
      kv [("impl", join "|" (probes.map fun _ => outWire (o.map fun _ => V.s .blank))),
          ("spec", join "|" (specs.map outWire)), ("trunc", join "|" (probes.map fun _ => "0")),
          ("kf", ""), ("compile", "crash")]
  | _, _, _, _, _ => "error=bad-args"

def handleRR (ranges dflt : Text) (spec : Option Spec.C03.Range) : String :=
  let specKv : List (String × String) :=
    match spec with
    | none => []
    | some g =>
      let m := Spec.C03.rect g
      let cells := (m.map List.length).foldl (· + ·) 0
      [("ssheet", tx g.sheet), ("sn", toString m.length), ("sc", toString cells),
       ("sh", toString (hashAddrs m)),
       ("sm", if cells ≤ matrixLimit then
                join ";" (m.map fun row => join "," (row.map fun a => s!"{a.col}:{a.row}")) else "-")]
  match resolveRanges ranges dflt with
  | .val (sheet, m) =>
    let cells := (m.map List.length).foldl (· + ·) 0
    kv ([("impl", "ok"), ("sheet", tx sheet), ("n", toString m.length), ("c", toString cells),
         ("h", toString (hashMatrix m)),
         ("m", if cells ≤ matrixLimit then join ";" (m.map fun row => join "," (row.map textWire)) else "-")]
        ++ specKv)
  | o => kv ([("impl", outWire (o.map fun _ => V.s .blank))] ++ specKv)

def handle (fields : List String) : String :=
  match fields with
  | ["C2N", t] =>
    match textArg? t with
    | some t =>
      kv [("impl", match col2num t with | some z => s!"I:{z}" | none => "X:Exception"),
          ("spec", if Spec.C03.isColName t then s!"I:{Spec.C03.colValue t}" else "-")]
    | none => "error=bad-args"
  | ["N2C", n] =>
    match n.toInt? with
    | some z =>
      let r := num2col z
      kv [("impl", match r with | some t => tx t | none => "X:Exception"),
          ("spec", match r with
            | some t => if z < 1 then "-" else
                        if Spec.C03.isColName t && (Spec.C03.colValue t : Int) == z then "ok" else "bad"
            | none => if z < 1 then "-" else "bad")]
    | none => "error=bad-args"
  | ["GCL", n] =>
    match n.toInt? with
    | some z => kv [("impl", (getColumnLetter z).wire tx)]
    | none => "error=bad-args"
  | ["CIFS", t] =>
    match textArg? t with
    | some t => kv [("impl", (columnIndexFromString t).wire fun n => s!"I:{n}")]
    | none => "error=bad-args"
  | ["RS", t] =>
    match textArg? t with
    | some t => kv [("impl", optTextWire (resolveSheet t))]
    | none => "error=bad-args"
  | ["RA", t] =>
    match textArg? t with
    | some t =>
      kv [("impl", (resolveAddress t).wire fun (s, c, r) => optTextWire s ++ "|" ++ tx c ++ "|" ++ tx r)]
    | none => "error=bad-args"
  | ["TOK", t] =>
    match textArg? t with
    | some t => kv [("impl", tx (tokRef t))]
    | none => "error=bad-args"
  | ["RR", r, d] =>
    match textArg? r, textArg? d with
    | some r, some d => handleRR r d none
    | _, _ => "error=bad-args"
  | ["RR", r, d, sh, c1, r1, c2, r2] =>
    match textArg? r, textArg? d, parseText? sh, c1.toNat?, r1.toNat?, c2.toNat?, r2.toNat? with
    | some r, some d, some sh, some c1, some r1, some c2, some r2 => handleRR r d (some ⟨sh, c1, r1, c2, r2⟩)
    | _, _, _, _, _, _, _ => "error=bad-args"
  | ["EV", dflt, items, names, probes] => handleEV dflt items names probes ""
  | ["EV", dflt, items, names, probes, updates] => handleEV dflt items names probes updates
  | _ => "error=bad-request"

end XlVerif.Drv.C03
