import XlVerif.Drv.EvalWire
/-! Driver for C04 (stub with the shared `eval` request; the C04 builder extends it).
  `C04 eval <fuel> <cells> <ranges> <names> <addr>` → `impl=<result>  fresh=<result>  trace=<addr,…>`
-/
namespace XlVerif.Drv.C04
open XlVerif XlVerif.Model.Evaluator XlVerif.Drv.EvalWire

def handle (fields : List String) : String :=
  match fields with
  | ["eval", fuel, cells, ranges, names, addr] =>
    (match fuel.toNat?, modelOfWire? cells ranges names, parseText? addr with
     | some n, some m, some a =>
       let (_, r, tr) := evaluate stdSem n m a
       kv [("impl", resW r), ("fresh", resW (fresh stdSem n (erase m) a)),
           ("trace", ",".intercalate (tr.map textWire))]
     | _, _, _ => "error=bad-args")
  | _ => "error=bad-request"
end XlVerif.Drv.C04
