import XlVerif.Drv.EvalWire
import XlVerif.Model.C04
import XlVerif.Spec.C04
/-! Driver for C04.
  `C04 eval <fuel> <cells> <ranges> <names> <addr>` → `impl=<result>  fresh=<result>  spec=<result>  trace=<addr,…>`
  `C04 hist <fuel> <cells> <ranges> <names> <ops>`  → `steps=<step>|<step>|…`
  `C04 hists <fuel> <cells> <ranges> <names> <ops>#<ops>#…` → `steps=<steps>#<steps>#…` (same initial workbook)
      ops   : `s~<addr or name>~<value>` | `e~<addr or name>` | `g~<addr or name>` | `S~<addr>~<value>` | `G~<addr>` (XLCell object as the address)  joined by `|`
      steps : `s` | `e~<impl result>~<stored value after>~<spec result>` | `g~<value>`
    `impl` is the state machine `Model.C04.step` (the mutable model with all write-backs), `spec` is
    `Spec.C04.value` on a workbook that only saw the `set` calls.
-/
namespace XlVerif.Drv.C04
open XlVerif XlVerif.Model.Evaluator XlVerif.Model.C04 XlVerif.Drv.EvalWire

/-- an API call as the harness issues it: `S` / `G` are `set_cell_value` / `get_cell_value` with an `XLCell` object -/
inductive DOp
  | plain (o : Op)
  | setCell (a : Addr) (v : V)
  | getCell (a : Addr)

def opOfWire? (w : String) : Option DOp :=
  match w.splitOn "~" with
  | ["s", a, v] => do pure (.plain (.set (← parseText? a) (← V.ofWire? v)))
  | ["e", a] => do pure (.plain (.eval (← parseText? a)))
  | ["g", a] => do pure (.plain (.get (← parseText? a)))
  | ["S", a, v] => do pure (.setCell (← parseText? a) (← V.ofWire? v))
  | ["G", a] => do pure (.getCell (← parseText? a))
  | _ => none

/-- run the history on the model (`m`) and on the reference inputs (`inp`) side by side -/
def runHist (fuel : Nat) : MState → MState → List DOp → List String
  | _, _, [] => []
  | m, inp, .setCell a v :: rest => "s" :: runHist fuel (setCellValueH m (.cell a) v) (Spec.C04.setInput inp a v) rest
  | m, inp, .getCell a :: rest => s!"g~{(getCellValueH m (.cell a)).wire}" :: runHist fuel m inp rest
  | m, inp, .plain (.set a v) :: rest => "s" :: runHist fuel (step stdSem fuel m (.set a v)).1 (Spec.C04.setInput inp a v) rest
  | m, inp, .plain (.eval a) :: rest =>
    let out := evaluate stdSem fuel m a
    let spec := Spec.C04.value Gen.maxEmpty stdSem fuel inp a
    s!"e~{resW out.2.1}~{(out.1.getCellValue a).wire}~{resW spec}" :: runHist fuel out.1 inp rest
  | m, inp, .plain (.get a) :: rest => s!"g~{(m.getCellValue a).wire}" :: runHist fuel m inp rest

def handle (fields : List String) : String :=
  match fields with
  | ["eval", fuel, cells, ranges, names, addr] =>
    (match fuel.toNat?, modelOfWire? cells ranges names, parseText? addr with
     | some n, some m, some a =>
       let (_, r, tr) := evaluate stdSem n m a
       kv [("impl", resW r), ("fresh", resW (fresh stdSem n (erase m) a)),
           ("spec", resW (Spec.C04.value Gen.maxEmpty stdSem n m a)),
           ("trace", ",".intercalate (tr.map textWire))]
     | _, _, _ => "error=bad-args")
  | ["hists", fuel, cells, ranges, names, hs] =>
    -- several histories on the same initial workbook, separated by `#`
    (match fuel.toNat?, modelOfWire? cells ranges names,
        (hs.splitOn "#").mapM (fun ops => (splitNE ops "|").mapM opOfWire?) with
     | some n, some m, some hists =>
       kv [("steps", "#".intercalate (hists.map fun h => "|".intercalate (runHist n m m h)))]
     | _, _, _ => "error=bad-args")
  | ["hist", fuel, cells, ranges, names, ops] =>
    (match fuel.toNat?, modelOfWire? cells ranges names, (splitNE ops "|").mapM opOfWire? with
     | some n, some m, some h => kv [("steps", "|".intercalate (runHist n m m h))]
     | _, _, _ => "error=bad-args")
  | _ => "error=bad-request"
end XlVerif.Drv.C04
