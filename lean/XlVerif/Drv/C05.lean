import XlVerif.Drv.EvalWire
import XlVerif.Model.C04
import XlVerif.Spec.C04
import XlVerif.Drv.C04
/-! Driver for C05.
  `C05 sched <fuel> <cells> <ranges> <names> <evaluators> <sched>`
      sched : `<evaluator index>~<addr>` joined by `|`
      → `vals=<result>|…  spec=<result>|…  frame=<1|0>  stacks=<1|0>  size=<n>  stored=<addr>~<value>|…`
    `vals`  : the results of `Model.C04.Sys.runSched` (evaluators sharing the mutable model)
    `spec`  : `Spec.C04.value` of each cell on the initial workbook
    `frame` : 1 iff the inputs (`erase`) of the model are unchanged
    `stacks`: 1 iff every evaluator's in-progress stack is empty afterwards
    `size`  : `Sys.size` of the retained state;  `stored` : every cell's stored value afterwards
  `C05 rounds <fuel> <cells> <ranges> <names> <evaluators> <sched> <n>` → `size1=<n>  sizeN=<n>`
  `C05 hists …` = `C04 hists …` (schedules with `set_cell_value` calls in between: evaluators keep nothing
    between calls, so the single-evaluator history machine of C04 applies)
-/
namespace XlVerif.Drv.C05
open XlVerif XlVerif.Model.Evaluator XlVerif.Model.C04 XlVerif.Drv.EvalWire

def schedOfWire? (w : String) : Option (List (Nat × Addr)) :=
  (splitNE w "|").mapM fun x =>
    match x.splitOn "~" with
    | [e, a] => do pure ((← e.toNat?), (← parseText? a))
    | _ => none

def handle (fields : List String) : String :=
  match fields with
  | ["sched", fuel, cells, ranges, names, k, sched] =>
    (match fuel.toNat?, modelOfWire? cells ranges names, k.toNat?, schedOfWire? sched with
     | some n, some m, some k, some s =>
       let out := Sys.runSched stdSem n (Sys.init m k) s
       let spec := s.map fun p => Spec.C04.value Gen.maxEmpty stdSem n m p.2
       let frame := reprStr (erase out.1.model) == reprStr (erase m)
       let stacks := out.1.stacks.all (·.isEmpty) && out.1.stacks.length == k
       kv [("vals", "|".intercalate (out.2.map resW)), ("spec", "|".intercalate (spec.map resW)),
           ("frame", if frame then "1" else "0"), ("stacks", if stacks then "1" else "0"),
           ("size", toString out.1.size),
           ("stored", "|".intercalate (out.1.model.cells.map fun p => textWire p.1 ++ "~" ++ p.2.value.wire))]
     | _, _, _, _ => "error=bad-args")
  | ["rounds", fuel, cells, ranges, names, k, sched, cnt] =>
    (match fuel.toNat?, modelOfWire? cells ranges names, k.toNat?, schedOfWire? sched, cnt.toNat? with
     | some n, some m, some k, some s, some c =>
       kv [("size1", toString (Sys.rounds stdSem n s 1 (Sys.init m k)).size),
           ("sizeN", toString (Sys.rounds stdSem n s c (Sys.init m k)).size)]
     | _, _, _, _, _ => "error=bad-args")
  | "hists" :: rest => XlVerif.Drv.C04.handle ("hists" :: rest)
  | _ => "error=bad-request"
end XlVerif.Drv.C05
