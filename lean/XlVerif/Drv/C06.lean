import XlVerif.Drv.EvalWire
import XlVerif.Model.C06
import XlVerif.Spec.C06
/-! Driver for C06.
  `C06 eval <fuel> <cells> <ranges> <names> <addr>` →
     `impl=<result>  trace=<number of formula evaluations started>  strict=<0|1>  cyc=<0|1>
      n=<formulaCount>  cbound=<cycle message bound>  fbound=<failure message bound>`
  `C06 hist <fuel> <cells> <ranges> <names> <addr,addr,…>` → the outcomes of a history on ONE evaluator.
  `impl` is the evaluator model (`Model.Evaluator.evaluate` under `c06Sem`); `cyc` is the Spec oracle
  (`Spec.C06.cyclicFrom` on the static dependency function `Model.C06.deps`), the bounds are those of `Props.C06.message_linear`.
-/
namespace XlVerif.Drv.C06
open XlVerif XlVerif.Model.Evaluator XlVerif.Drv.EvalWire XlVerif.Model.C06

/-- `stdSem` plus two functions the harness registers in the evaluator's namespace:
    20 = `BOOMRT()` raises `RuntimeError('boom')` (re-raised unchanged: message length 4), 22–25 RuntimeError
    subclasses (NotImplementedError, a custom subclass, the VLOOKUP approximate-match form, RecursionError),
    21 = `BOOMVE()` raises `ValueError('boom')` (wrapped once: `repr` length 18) -/
def c06Sem : Sem where
  app := fun f args =>
    match f with
    | 20 => .raiseRuntime 4
    | 21 => .raiseOther 18
    | 22 => .raiseRuntime 4        -- `BOOMNI()` raises NotImplementedError('boom'): a RuntimeError SUBCLASS
    | 23 => .raiseRuntime 4        -- `BOOMSUB()` raises a custom subclass of RuntimeError
    | 24 => .raiseRuntime 42       -- `VLOOKUP(…, TRUE)`: NotImplementedError('Excact match only supported at the moment.')
    | 25 => .raiseRuntime 32       -- `BOOMREC()` raises RecursionError('maximum recursion depth exceeded')
    | _ => stdSem.app f args
  truth := stdSem.truth

/-- longest `repr` the semantics can raise (for the failure bound) -/
def reprBound : Nat := 42

def handle (fields : List String) : String :=
  match fields with
  | ["eval", fuel, cells, ranges, names, addr] =>
    (match fuel.toNat?, modelOfWire? cells ranges names, parseText? addr with
     | some n, some m, some a =>
       let (_, r, tr) := evaluate c06Sem n m a
       let N := formulaCount m
       let L := maxAddrLen m
       let M := maxFormulaLen m
       let cyc := Spec.C06.cyclicFrom (deps m) (N + 2) [] (m.resolve a)
       kv [("impl", resW r), ("trace", toString tr.length),
           ("strict", if strictModelB m then "1" else "0"),
           ("cyc", if cyc then "1" else "0"),
           ("n", toString N),
           ("cbound", toString (Spec.C06.cycleMsgBound N L)),
           ("fbound", toString (Spec.C06.failMsgBound L M reprBound))]
     | _, _, _ => "error=bad-args")
  | ["hist", fuel, cells, ranges, names, addrs] =>
    -- several evaluations on ONE evaluator: `impl=<r1>;<r2>;…  ev=<length of _evaluating afterwards>`
    (match fuel.toNat?, modelOfWire? cells ranges names, (addrs.splitOn ",").mapM parseText? with
     | some n, some m, some as =>
       let (e, rs) := runHist c06Sem n { st := m } as
       kv [("impl", ";".intercalate (rs.map resW)), ("ev", toString e.evaluating.length)]
     | _, _, _ => "error=bad-args")
  | _ => "error=bad-request"
end XlVerif.Drv.C06
