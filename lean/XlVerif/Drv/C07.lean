import XlVerif.Model.Validate
import XlVerif.Drv.ValueWire
/-! Driver for C07.
  `C07 op <OP> <S> <S>`   → `impl=<result>` (twelve infix operators, POW, CONCAT)
  `C07 un <NEG|PCT> <S>`  → `impl=<result>`
  `C07 call <FN> <bound…>` → `impl=<E:CODE|body|X:…|unknown>`: outcome of the wrapper *before* the body;
      a bound parameter is `o=<py>`, `oa=<A:…>` or `m=<item>|<item>…` (item = py wire or `A:…`)
  `C07 is <FN> <S>`       → `impl=<result>` (ISERROR ISERR ISNA ISNUMBER ISTEXT ISBLANK)
-/
namespace XlVerif.Drv.C07
open XlVerif XlVerif.Model.Value XlVerif.Model.Validate XlVerif.Drv.ValueWire

def rowsOf : V → Option (List (List S)) | .arr r => some r | _ => none

def itemOfWire? (w : String) : Option Item :=
  if w.startsWith "A:" then (V.ofWire? w).bind fun v => (rowsOf v).map Item.arr
  else (pyOfWire? w).map Item.sc

def pargOfWire? (w : String) : Option PArg :=
  if w.startsWith "o=" then (itemOfWire? (w.drop 2).toString).map PArg.one
  else if w.startsWith "oa=" then (itemOfWire? (w.drop 3).toString).map PArg.one
  else if w.startsWith "m=" then
    let body := (w.drop 2).toString
    if body.isEmpty then some (.many []) else ((body.splitOn "|").mapM itemOfWire?).map PArg.many
  else none

def bw (b : Bool) : String := if b then "B:1" else "B:0"

def handle (fields : List String) : String :=
  match fields with
  | ["op", o, a, b] =>
    (match S.ofWire? a, S.ofWire? b with
     | some x, some y =>
       (match o, binopOfWire? o with
        | _, some op => kv [("impl", OpR.wire (binop Ext.none op x y))]
        | "POW", _ => kv [("impl", OpR.wire (power Ext.none x y))]
        | "CONCAT", _ => kv [("impl", OpR.wire (concat Ext.none x y))]
        | _, _ => "error=bad-op")
     | _, _ => "error=bad-args")
  | ["un", o, a] =>
    (match o, S.ofWire? a with
     | "NEG", some x => kv [("impl", OpR.wire (neg Ext.none x))]
     | "PCT", some x => kv [("impl", OpR.wire (percent Ext.none x))]
     | _, _ => "error=bad-args")
  | ["is", f, a] =>
    (match f, S.ofWire? a with
     | "ISERROR", some x => kv [("impl", bw (ISERROR x))]
     | "ISERR", some x => kv [("impl", bw (ISERR x))]
     | "ISNA", some x => kv [("impl", bw (ISNA x))]
     | "ISNUMBER", some x => kv [("impl", (ISNUMBER x).wire)]
     | "ISTEXT", some x => kv [("impl", (ISTEXT x).wire)]
     | "ISBLANK", some x => kv [("impl", (ISBLANK x).wire)]
     | _, _ => "error=bad-args")
  | "call" :: fn :: bound =>
    (match findFunc fn.toList, bound.mapM pargOfWire? with
     | some f, some args =>
       if f.validated then
         (match validateAll Ext.none f.params args with
          | .ok _ => kv [("impl", "body")]
          | .xl c => kv [("impl", "E:" ++ c.wire)]
          | .py k => kv [("impl", "X:" ++ k.wire)])
       else kv [("impl", "unwrapped")]
     | none, _ => kv [("impl", "unknown")]
     | _, none => "error=bad-args")
  | _ => "error=bad-request"
end XlVerif.Drv.C07
