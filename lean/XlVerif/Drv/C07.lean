import XlVerif.Base
/-! Driver for C07 (stub: replaced when the property's model is built). -/
namespace XlVerif.Drv.C07
def handle (_fields : List String) : String := "error=not-implemented"
end XlVerif.Drv.C07
