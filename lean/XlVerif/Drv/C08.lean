import XlVerif.Model.C08
import XlVerif.Drv.ValueWire
/-! Driver for C08.
  `C08 cast <NUM|TEXT|BOOL|ANY> <py>` → `impl=<S|E:CODE|X:…>`   (`_validate` of one scalar argument)
  `C08 op <OP> <S> <S>`              → `impl=<result>`           (arithmetic / comparison / POW / CONCAT)
  `C08 name <text>`                  → `impl=<resolved name>  found=<0|1>`
-/
namespace XlVerif.Drv.C08
open XlVerif XlVerif.Model.Value XlVerif.Model.Validate XlVerif.Model.C08 XlVerif.Drv.ValueWire

def rWire : R S → String
  | .ok s => s.wire
  | .xl c => "E:" ++ c.wire
  | .py k => "X:" ++ k.wire

def handle (fields : List String) : String :=
  match fields with
  | ["cast", t, v] =>
    (match pyOfWire? v with
     | some p =>
       let tt : Option XlT := match t with
         | "NUM" => some .number | "TEXT" => some .text | "BOOL" => some .boolean | "ANY" => some .anything
         | _ => none
       (match tt with
        | some ty => kv [("impl", rWire (castScalar Ext.none ty p))]
        | none => "error=bad-type")
     | none => "error=bad-args")
  | ["op", o, a, b] =>
    (match S.ofWire? a, S.ofWire? b with
     | some x, some y =>
       (match o, binopOfWire? o with
        | _, some op => kv [("impl", OpR.wire (binop Ext.none op x y))]
        | "POW", _ => kv [("impl", OpR.wire (power Ext.none x y))]
        | "CONCAT", _ => kv [("impl", OpR.wire (concat Ext.none x y))]
        | _, _ => "error=bad-op")
     | _, _ => "error=bad-args")
  | ["name", t] =>
    (match parseText? t with
     | some s =>
       let r := resolveName s
       kv [("impl", textWire r), ("found", if (findFunc r).isSome then "1" else "0")]
     | none => "error=bad-args")
  | _ => "error=bad-request"
end XlVerif.Drv.C08
