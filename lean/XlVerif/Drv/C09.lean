import XlVerif.Model.Value
import XlVerif.Spec.C09
import XlVerif.Drv.ValueWire
/-! Driver for C09: `C09 op <OP> <S> <S>` → `impl=<result>  spec=<B:0|B:1|->`. -/
namespace XlVerif.Drv.C09
open XlVerif XlVerif.Model.Value XlVerif.Spec.C09 XlVerif.Drv.ValueWire

def bw (b : Bool) : String := if b then "B:1" else "B:0"

/-- what the statement demands (`-` = not constrained by the statement) -/
def spec (op : BinOp) (a b : S) : String :=
  match cls a, cls b with
  | some x, some y =>
    (match op with
     | .lt => bw (Cls.ltb x y) | .gt => bw (Cls.ltb y x)
     | .eq => bw (decide (x = y)) | .ne => bw (!decide (x = y))
     | .le => bw (Cls.ltb x y || decide (x = y)) | .ge => bw (Cls.ltb y x || decide (x = y))
     | _ => "-")
  | _, _ =>
    -- blank = 0 = "" = FALSE, two blanks equal; ordering with a blank is not constrained
    let be : Option Bool :=
      match a, b with
      | .blank, .date _ => none | .date _, .blank => none
      | .blank, .err _ => none | .err _, _ => none | _, .err _ => none
      | .blank, y => some (blankEquals y)
      | x, .blank => some (blankEquals x)
      | _, _ => none
    match op, be with
    | .eq, some v => bw v
    | .ne, some v => bw (!v)
    | _, _ => "-"

def handle (fields : List String) : String :=
  match fields with
  | ["op", o, a, b] =>
    (match binopOfWire? o, S.ofWire? a, S.ofWire? b with
     | some op, some x, some y => kv [("impl", OpR.wire (binop Ext.none op x y)), ("spec", spec op x y)]
     | _, _, _ => "error=bad-args")
  | ["nateq", a, b] =>
    (match pyOfWire? a, pyOfWire? b with
     | some x, some y =>
       (match nativeEq x y with
        | some v => kv [("impl", bw v)]
        | none => "error=typed-operand")
     | _, _ => "error=bad-args")
  | _ => "error=bad-request"
end XlVerif.Drv.C09
