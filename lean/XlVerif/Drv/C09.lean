import XlVerif.Base
/-! Driver for C09 (stub: replaced when the property's model is built). -/
namespace XlVerif.Drv.C09
def handle (_fields : List String) : String := "error=not-implemented"
end XlVerif.Drv.C09
