import XlVerif.Drv.EvalWire
import XlVerif.Model.C10
import XlVerif.Spec.C10
/-! Driver for C10.
  `C10 eval <fuel> <cells> <ranges> <names> <entry addr> <entry formula length> <Lx wire>` →
     `impl=<result>  log=<k,…>  impl2=<result|->  log2=<k,…|->  spec=<value|FAIL|UNDEF>  slog=<k,…>`
  * `impl`, `log`  : `Model.C10.evaluateLx` (the bodies of logical.py on thunks, entry cell holding the formula);
                     the log is the trace with inline spies `#k ↦ k` and formula cells `↦ 1000 + index in <cells>`
                     (the entry cell itself is not logged)
  * `impl2`, `log2`: the same formula through `Fx.iff` / `Fx.sc` of the shared evaluator model when it is
                     expressible there (no spy, no omitted branch) — must coincide with `impl`
  * `spec`, `slog` : `Spec.C10.eval`, the reference interpreter written from the statement
  Lx wire (blank separated): `[ app <id> lx… ]` `[ if3 lx lx lx ]` `[ if2 lx lx ]` `[ if1 lx ]` `[ and lx… ]`
  `[ or lx… ]` `[ not lx ]` `[ spy <k> lx ]` `[ fail <n> lx… ]`; a leaf is an Fx wire `( … )`.
-/
namespace XlVerif.Drv.C10
open XlVerif XlVerif.Model.Evaluator XlVerif.Drv.EvalWire XlVerif.Model.C10

/-- `stdSem` with the truth function of logical.py and NOT as strict function 11 -/
def c10Sem : Sem where
  app := fun g vs =>
    if g = 11 then (match vs with | [v] => .val (notV v) | _ => .raiseOther 10) else stdSem.app g vs
  truth := truthOf

partial def parseLx : List String → Option (Lx × List String)
  | "[" :: "app" :: n :: rest => do
      let k ← n.toNat?
      let (args, r) ← parseLxs rest
      pure (.app k args, r)
  | "[" :: "if3" :: rest => do
      let (a, r1) ← parseLx rest
      let (b, r2) ← parseLx r1
      let (d, r3) ← parseLx r2
      match r3 with | "]" :: r4 => pure (.if3 a b d, r4) | _ => none
  | "[" :: "if2" :: rest => do
      let (a, r1) ← parseLx rest
      let (b, r2) ← parseLx r1
      match r2 with | "]" :: r3 => pure (.if2 a b, r3) | _ => none
  | "[" :: "if1" :: rest => do
      let (a, r1) ← parseLx rest
      match r1 with | "]" :: r2 => pure (.if1 a, r2) | _ => none
  | "[" :: "and" :: rest => do let (args, r) ← parseLxs rest; pure (.andor true args, r)
  | "[" :: "or" :: rest => do let (args, r) ← parseLxs rest; pure (.andor false args, r)
  | "[" :: "not" :: rest => do
      let (a, r1) ← parseLx rest
      match r1 with | "]" :: r2 => pure (.not a, r2) | _ => none
  | "[" :: "spy" :: n :: rest => do
      let k ← n.toNat?
      let (a, r1) ← parseLx rest
      match r1 with | "]" :: r2 => pure (.spy k a, r2) | _ => none
  | "[" :: "fail" :: n :: rest => do
      let k ← n.toNat?
      let (args, r) ← parseLxs rest
      pure (.fail k args, r)
  | toks@("(" :: _) => (parseFx toks).map fun (f, r) => (.fx f, r)
  | _ => none
where
  parseLxs : List String → Option (List Lx × List String)
    | "]" :: rest => some ([], rest)
    | toks => do
        let (a, r1) ← parseLx toks
        let (as, r2) ← parseLxs r1
        pure (a :: as, r2)

def lxOfWire? (w : String) : Option Lx :=
  match parseLx (w.splitOn " ") with
  | some (f, []) => some f
  | _ => none

/-- log entry of a trace element: inline spy `#k ↦ k`, formula cell ↦ 1000 + its index in the cell list -/
def logOf (m : MState) (entry : Addr) (tr : List Addr) : List Nat :=
  tr.filterMap fun a =>
    if a = entry then none else
    match a with
    | '#' :: ds => (String.ofList ds).toNat?
    | _ => some (1000 + (m.cells.findIdx fun p => p.1 = a))

def showLog (l : List Nat) : String := ",".intercalate (l.map toString)

/-! translation into the reference interpreter's expressions -/
abbrev SE := Spec.C10.E

def opOut (g : Nat) (vs : List V) : Spec.C10.Out Unit :=
  match c10Sem.app g vs with
  | .val v => .val v
  | _ => .fail ()

mutual
partial def fxToE (m : MState) (entry : Addr) (depth : Nat) : Fx → SE
  | .lit v => .const v
  | .ref a => refToE m entry depth a
  | .rng k =>
    (match m.range? k with
     | some r => .arr (r.cells.flatten.map (refToE m entry depth))
     | none => refToE m entry depth k)
  | .app g args => .strict g (args.map (fxToE m entry depth))
  | .iff c t e => .if3 (fxToE m entry depth c) (fxToE m entry depth t) (fxToE m entry depth e)
  | .sc isAnd args => .andor isAnd (args.map (fxToE m entry depth))
  | .fail _ _ => .poison
partial def refToE (m : MState) (entry : Addr) (depth : Nat) (a : Addr) : SE :=
  let a' := m.resolve a
  if a' = entry then .poison else
  match m.cell? a' with
  | none => .const (.s .blank)
  | some cell =>
    match cell.formula with
    | none => .const cell.value
    | some f =>
      if depth = 0 then .poison
      else .spy (1000 + (m.cells.findIdx fun p => p.1 = a')) (fxToE m entry (depth - 1) f)
end

partial def lxToE (m : MState) (entry : Addr) : Lx → SE
  | .fx f => fxToE m entry 12 f
  | .app g args => .strict g (args.map (lxToE m entry))
  | .if3 a b d => .if3 (lxToE m entry a) (lxToE m entry b) (lxToE m entry d)
  | .if2 a b => .if2 (lxToE m entry a) (lxToE m entry b)
  | .if1 a => .if1 (lxToE m entry a)
  | .andor isAnd args => .andor isAnd (args.map (lxToE m entry))
  | .not a => .not (lxToE m entry a)
  | .spy k a => .spy k (lxToE m entry a)
  | .fail _ _ => .poison

def outW : Spec.C10.Out Unit → String
  | .val v => v.wire
  | .fail _ => "FAIL"
  | .undef => "UNDEF"

def handle (fields : List String) : String :=
  match fields with
  | ["eval", fuel, cells, ranges, names, addr, len, lxw] =>
    (match fuel.toNat?, modelOfWire? cells ranges names, parseText? addr, len.toNat?, lxOfWire? lxw with
     | some n, some m0, some a, some ln, some f =>
       -- the entry cell is a formula cell of the model (a placeholder formula: only its being one matters)
       let entryCell : Cell := { value := .s .blank, formula := some (.lit (.s .blank)), formulaLen := ln }
       let m : MState := { m0 with cells := m0.cells ++ [(a, entryCell)] }
       let (r, tr) := evaluateLx c10Sem n m a ln f
       let (r2, l2) : String × String :=
         match f.toFx? with
         | some g =>
           let m2 : MState := { m0 with cells := m0.cells ++ [(a, { entryCell with formula := some g })] }
           let (_, r2, tr2) := evaluate c10Sem (n + 1) m2 a
           (resW r2, showLog (logOf m a tr2))
         | none => ("-", "-")
       let (slog, so) := Spec.C10.eval opOut (lxToE m a f) []
       kv [("impl", resW r), ("log", showLog (logOf m a tr)), ("impl2", r2), ("log2", l2),
           ("spec", outW so), ("slog", showLog slog)]
     | _, _, _, _, _ => "error=bad-args")
  | _ => "error=bad-request"
end XlVerif.Drv.C10
