import XlVerif.Model.C11
import XlVerif.Spec.C11
/-!
  Driver for C11.

  `C11 LOAD <ignore> <sst> <sheets> <names>` →
  `impl=<model|X:Crash>  spec=<cells#names>  wf=<flags>`

  Texts are dotted decimal code points (`e` = empty text), lists are joined by `|` (`-` = empty list).
  sheet  = `name;cell;cell…`          cell = `col,row,fform,stored`
  fform  = `-` | `P~tok~tok…` | `M<si>~tok…` | `S<si>`
  tok    = `L<text>` | `X<text>` | `C<ac>_<col>_<ar>_<row>`
  stored = `Z` | `I:<int>` | `F:<n>/<d>` | `DI:<int>` | `DF:<n>/<d>` | `S:<idx>` | `R:<text>` | `L:<text>`
           | `B:<0|1>` | `E:<text>`
  name   = `name,hidden,R:<text>` | `name,hidden,T:<sheet>_<quoted>_<ac>_<col>_<ar>_<row>[_<ac>_<col>_<ar>_<row>]`
-/
namespace XlVerif.Drv.C11
open XlVerif XlVerif.Spec.C11 XlVerif.Model.C11

def decText (s : String) : Option Text :=
  if s == "e" then some [] else (s.splitOn ".").mapM fun t => (t.toNat?).map Char.ofNat

def encText (s : Text) : String :=
  if s.isEmpty then "e" else ".".intercalate (s.map fun c => toString c.toNat)

def decList {α} (f : String → Option α) (s : String) : Option (List α) :=
  if s == "-" then some [] else (s.splitOn "|").mapM f

def decBool : String → Option Bool
  | "0" => some false | "1" => some true | _ => none

def decTok (s : String) : Option FTok :=
  if s.startsWith "L" then (decText (s.drop 1).toString).map .lit
  else if s.startsWith "X" then (decText (s.drop 1).toString).map .pfx
  else if s.startsWith "C" then
    match (s.drop 1).toString.splitOn "_" with
    | [ac, col, ar, row] => do
        some (.cell (← decBool ac) (← col.toNat?) (← decBool ar) (← row.toNat?))
    | _ => none
  else none

def encTok : FTok → String
  | .lit s => "L" ++ encText s
  | .pfx s => "X" ++ encText s
  | .cell ac col ar row => s!"C{if ac then 1 else 0}_{col}_{if ar then 1 else 0}_{row}"

def decFForm (s : String) : Option (Option FForm) :=
  if s == "-" then some none else
  match s.splitOn "~" with
  | [] => none
  | h :: ts =>
    if h == "P" then (ts.mapM decTok).map fun l => some (.plain l)
    else if h.startsWith "M" then do
      let si ← (h.drop 1).toString.toNat?
      let l ← ts.mapM decTok
      some (some (.master si l))
    else if h.startsWith "S" then do
      let si ← (h.drop 1).toString.toNat?
      if ts.isEmpty then some (some (.member si)) else none
    else none

def decNum (isInt : Bool) (s : String) : Option Num :=
  if isInt then (parseInt? s).map .int else (parseRat? s).map .flt

def decStored (s : String) : Option Stored :=
  if s == "Z" then some .empty
  else if s.startsWith "I:" then (decNum true (s.drop 2).toString).map .n
  else if s.startsWith "F:" then (decNum false (s.drop 2).toString).map .n
  else if s.startsWith "DI:" then (decNum true (s.drop 3).toString).map .nDate
  else if s.startsWith "DF:" then (decNum false (s.drop 3).toString).map .nDate
  else if s.startsWith "S:" then ((s.drop 2).toString.toNat?).map .s
  else if s.startsWith "R:" then (decText (s.drop 2).toString).map .str
  else if s.startsWith "L:" then (decText (s.drop 2).toString).map .inl
  else if s.startsWith "B:" then (decBool (s.drop 2).toString).map .b
  else if s.startsWith "E:" then (decText (s.drop 2).toString).map .e
  else none

def decCell (s : String) : Option SCell :=
  match s.splitOn "," with
  | [col, row, ff, st] => do
      some ⟨⟨← col.toNat?, ← row.toNat?⟩, ← decFForm ff, ← decStored st⟩
  | _ => none

def decSheet (s : String) : Option Sheet :=
  match s.splitOn ";" with
  | [] => none
  | n :: cs => do some ⟨← decText n, ← cs.mapM decCell⟩

def decTarget (s : String) : Option TargetForm :=
  if s.startsWith "R:" then (decText (s.drop 2).toString).map .raw
  else if s.startsWith "T:" then
    match (s.drop 2).toString.splitOn "_" with
    | [sh, q, ac, col, ar, row] => do
        some (.ref ⟨← decText sh, ← decBool q, ← decBool ac, ⟨← col.toNat?, ← row.toNat?⟩, ← decBool ar, none⟩)
    | [sh, q, ac, col, ar, row, ac2, col2, ar2, row2] => do
        some (.ref ⟨← decText sh, ← decBool q, ← decBool ac, ⟨← col.toNat?, ← row.toNat?⟩, ← decBool ar,
          some (← decBool ac2, ⟨← col2.toNat?, ← row2.toNat?⟩, ← decBool ar2)⟩)
    | _ => none
  else none

def decName (s : String) : Option DefName :=
  match s.splitOn "," with
  | [n, h, t] => do some ⟨← decText n, ← decBool h, ← decTarget t⟩
  | _ => none

/-! ### output -/

def pyWire : PyVal → String
  | .none => "Z"
  | .int z => s!"I:{z}"
  | .flt q => "F:" ++ ratWire q
  | .str s => "T:" ++ encText s
  | .bool b => if b then "B:1" else "B:0"
  | .date q => "D:" ++ ratWire q

def join (sep : String) (l : List String) : String := sep.intercalate l

def rowsWire (rows : List (List Text)) : String :=
  join ";" (rows.map fun r => "r" ++ join "~" (r.map encText))

def rangeWire (r : XLRange) : String :=
  join "," [encText r.addressStr, encText r.name, encText r.sheet, rowsWire r.cells]

def modelWire (m : M) : String :=
  let cells := m.cells.map fun (k, c) =>
    join "," [encText k, encText c.address, pyWire c.value,
      (match c.formula with | some f => encText f.formula ++ ":" ++ encText f.sheetName | none => "-"),
      (if c.definedNames.isEmpty then "-" else join "~" (c.definedNames.map encText))]
  let formulae := m.formulae.map fun (k, f) =>
    join "," [encText k, encText f.formula, encText f.sheetName,
      (let ts := rangeTerms f; if ts.isEmpty then "-" else join "~" (ts.map encText))]
  let names := m.names.map fun (k, d) =>
    match d with
    | .cell a => join "," [encText k, "C", encText a]
    | .range r => join "," [encText k, "R", rangeWire r]
  let ranges := m.ranges.map fun (k, r) => join "," [encText k, rangeWire r]
  let gcv := m.cells.map fun (k, _) => join "," [encText k, pyWire (getCellValue m k)]
  join "#" [join "|" cells, join "|" formulae, join "|" names, join "|" ranges, join "|" gcv]

def implWire : Except Crash M → String
  | .ok m => modelWire m
  | .error k => "X:" ++ k.wire

def specWire (wb : Workbook) (ig : List Text) : String :=
  let cells := (Spec.C11.cells wb ig).map fun c =>
    join "," [encText c.address, pyWire c.value, (match c.formula with | some f => encText f | none => "-")]
  let names := (Spec.C11.bindings wb ig).map fun (n, b) =>
    match b with
    | .cell a => join "," [encText n, "C", encText a]
    | .range a rows => join "," [encText n, "R", encText a, rowsWire rows]
    | .free => join "," [encText n, "U"]
  join "#" [join "|" cells, join "|" names]

def wfFlags (wb : Workbook) : String :=
  let b (x : Bool) : String := if x then "1" else "0"
  s!"scan:{b (wb.sheets.all fun sh => scanOK sh.cells)},shared:{b (wb.sheets.all fun sh => sharedOK [] sh.cells)},text:{b (wb.sheets.all fun sh => textOK sh.cells)}"

/-- the addresses of the stored cells of the sheets that are not ignored are pairwise different. -/
def nodupAddresses (wb : Workbook) (ig : List Text) : Bool :=
  let ks := (cellEntries wb ig).map Prod.fst
  ks.eraseDups.length == ks.length

def handle (fields : List String) : String :=
  match fields with
  | ["LOAD", ig, sst, sheets, names] =>
    match decList decText ig, decList decText sst, decList decSheet sheets, decList decName names with
    | some ig, some sst, some sheets, some names =>
      let wb : Workbook := ⟨sst, sheets, names⟩
      kv [("impl", implWire (load wb ig)), ("spec", specWire wb ig),
          ("wf", wfFlags wb ++ s!",nodup:{if nodupAddresses wb ig then 1 else 0}")]
    | _, _, _, _ => "error=bad-args"
  | ["SCAN", t] =>
    match decText t with
    | some t => kv [("toks", join "~" ((scan t).map encTok))]
    | none => "error=bad-args"
  | _ => "error=bad-request"

end XlVerif.Drv.C11
