import XlVerif.Model.C12
import XlVerif.Spec.C12
/-!
  Driver for C12.

  `C12 CODEC <T:file name>`
      → `impl=<writer opener>,<reader opener>  spec=<gzip|plain>  ext=<T:model's extension>  specext=<T:…>`
  `C12 RT <T:file name> <build_code 0|1> <all|strict> <maxDepth> <graph>`
      → `impl=<observable of the modelled restored model | X:Crash>  spec=<observable of the original>
         persistable=<0|1>  enc=<0|1>  depth=<n>  kf=<D1201|>`
  The graph is the object graph of the model's four dicts in prefix form (see harness/props/c12.py).
-/
namespace XlVerif.Drv.C12
open XlVerif XlVerif.Model.C12

def txt (s : String) : Option Text := parseText? s

/-- one token `S<code points>` -/
def tokText (t : String) : Option Text :=
  if t.startsWith "S" then txt (t.drop 1).toString else none

def tokCount (t : String) : Option Nat := (t.drop 1).toString.toNat?

mutual
partial def parsePy : List String → Option (Py × List String)
  | [] => none
  | t :: rest =>
    if t == "N" then some (.none, rest)
    else if t == "B1" then some (.bool true, rest)
    else if t == "B0" then some (.bool false, rest)
    else if t == "Fz" then some (.float .negZero, rest)
    else if t == "Fn" then some (.float .nan, rest)
    else if t == "Fp" then some (.float .posInf, rest)
    else if t == "Fm" then some (.float .negInf, rest)
    else if t.startsWith "I" then (parseInt? (t.drop 1).toString).map fun z => (.int z, rest)
    else if t.startsWith "F" then (parseRat? (t.drop 1).toString).map fun q => (.float (.fin q), rest)
    else if t.startsWith "S" then (tokText t).map fun s => (.str s, rest)
    else if t.startsWith "L" then do
      let n ← tokCount t
      let (xs, r) ← parseMany n rest
      pure (.list xs, r)
    else if t.startsWith "U" then do
      let n ← tokCount t
      let (xs, r) ← parseMany n rest
      pure (.tuple xs, r)
    else if t.startsWith "E" then do
      let n ← tokCount t
      let (xs, r) ← parseMany n rest
      pure (.set xs, r)
    else if t.startsWith "D" then do
      let n ← tokCount t
      let (kvs, r) ← parsePairs n rest
      pure (.dict kvs, r)
    else if t.startsWith "O" then do
      let n ← tokCount t
      match rest with
      | c :: rest' =>
        let cls ← tokText c
        let (kvs, r) ← parsePairs n rest'
        pure (.obj cls kvs, r)
      | [] => none
    else if t.startsWith "X" then do
      let n ← tokCount t
      match rest with
      | c :: rest' =>
        let cls ← tokText c
        let (xs, r) ← parseMany n rest'
        pure (.slots cls xs, r)
      | [] => none
    else if t.startsWith "R" then do
      match (t.drop 1).toString.splitOn "." with
      | [a, b] =>
        let n ← a.toNat?
        let k ← b.toNat?
        match rest with
        | c :: rest' =>
          let cls ← tokText c
          let (xs, r) ← parseMany n rest'
          let (st, r') ← parsePairs k r
          pure (.reduce cls xs st, r')
        | [] => none
      | _ => none
    else if t == "Y" then
      match rest with
      | c :: p :: rest' => do
        let cls ← tokText c
        let pl ← tokText p
        pure (.lib cls pl, rest')
      | _ => none
    else if t == "C" then
      match rest with
      | c :: rest' => (tokText c).map fun cls => (.cls cls, rest')
      | _ => none
    else if t.startsWith "A" then do
      let n ← tokCount t
      let (xs, r) ← parseTexts n rest
      pure (.alias xs, r)
    else none
partial def parseMany : Nat → List String → Option (List Py × List String)
  | 0, ts => some ([], ts)
  | n + 1, ts => do
    let (x, r) ← parsePy ts
    let (xs, r') ← parseMany n r
    pure (x :: xs, r')
partial def parsePairs : Nat → List String → Option (List (Text × Py) × List String)
  | 0, ts => some ([], ts)
  | n + 1, ts =>
    match ts with
    | k :: r => do
      let key ← tokText k
      let (v, r') ← parsePy r
      let (kvs, r'') ← parsePairs n r'
      pure ((key, v) :: kvs, r'')
    | [] => none
partial def parseTexts : Nat → List String → Option (List Text × List String)
  | 0, ts => some ([], ts)
  | n + 1, ts =>
    match ts with
    | k :: r => do
      let key ← tokText k
      let (ks, r') ← parseTexts n r
      pure (key :: ks, r')
    | [] => none
end

/-! ### canonical text of values and of the observable (twin of `valkey` / `obs_wire` in c12.py) -/

def dotted (s : Text) : String := textWire s

def lastName (c : Text) : String :=
  String.ofList ((c.reverse.takeWhile (· != '.')).reverse)

def errorWire (code : Text) : String :=
  match [Code.null, .div0, .value, .ref, .name, .num, .na].find? (fun c => c.text == code) with
  | some c => "E:" ++ c.wire
  | none => "E:OTHER"

def fltWire : Flt → String
  | .fin q => "F:" ++ ratWire q
  | .negZero => "F:0/1(-0)"
  | .nan => "N:nan"
  | .posInf => "N:+inf"
  | .negInf => "N:-inf"

def canonVal : Py → String
  | .none => "Z"
  | .bool b => if b then "B:1" else "B:0"
  | .int z => s!"I:{z}"
  | .float f => fltWire f
  | .str s => "T:" ++ dotted s
  | .slots _ [p] => canonVal p
  | .slots c _ => "X:unknown-" ++ lastName c
  | .reduce _ _ st =>
      (match lookup fValue st with
       | some (.str code) => errorWire code
       | _ => "E:OTHER")
  | .lib _ p => String.ofList p
  | .dict _ => "X:unknown-dict"
  | .list _ => "X:unknown-list"
  | .tuple _ => "X:unknown-tuple"
  | .set _ => "X:unknown-set"
  | .obj c _ => "X:unknown-" ++ lastName c
  | .cls _ => "X:unknown-type"
  | .alias _ => "X:alias"

def optVal : Option Py → String
  | some v => canonVal v
  | none => "?"

def rowWire : Py → Option String
  | .list cells =>
      (cells.mapM fun (c : Py) => match c with | Py.str s => some (dotted s) | _ => none).map ("+".intercalate ·)
  | _ => none

def matrixWire : Option Py → String
  | some (.list rows) =>
      (match rows.mapM rowWire with
       | some rs => "[" ++ "/".intercalate rs ++ "]"
       | none => "?")
  | _ => "?"

def cellWire (e : Text × (Option Text × Option Py × Option Py × Option (Option Py))) : String :=
  let (k, cls, addr, val, f) := e
  let kind := match cls with
    | some c => if c = clsCell then "c" else "?" ++ lastName c
    | none => "-"
  let ftext := match f with
    | none => "!"
    | some t => optVal t
  "~".intercalate [dotted k, kind, optVal addr, optVal val, ftext]

def nameWire (e : Text × NameTarget) : String :=
  match e with
  | (k, .cell a) => "~".intercalate [dotted k, "c", optVal a]
  | (k, .range a mx) => "~".intercalate [dotted k, "r", optVal a, matrixWire mx]
  | (k, .other) => "~".intercalate [dotted k, "?"]

def obsWire (o : Observable) : String :=
  "|".intercalate [
    " ".intercalate (o.cells.map cellWire),
    " ".intercalate (o.formulae.map fun (k, f) =>
      dotted k ++ "~" ++ (match f with | some t => optVal t | none => "?")),
    " ".intercalate (o.names.map nameWire),
    " ".intercalate (o.ranges.map fun (k, r) =>
      match r with
      | some (a, mx) => "~".intercalate [dotted k, optVal a, matrixWire mx]
      | none => dotted k ++ "~?")]

def lowerAscii (s : Text) : Text := s.map lowerChar

def openerWire : Opener → String
  | .gzip => "gzip"
  | .plain => "plain"

def strictImportable (c : Text) : Bool :=
  !("xlcalculator.xltypes.".toList.isPrefixOf c || "xlcalculator.tokenizer.".toList.isPrefixOf c)

def modelOf (g : Py) : Option PModel :=
  match g with
  | .dict kvs => do
    let c ← lookup kCells kvs
    let d ← lookup kDefinedNames kvs
    let f ← lookup kFormulae kvs
    let r ← lookup kRanges kvs
    pure ⟨c, d, f, r⟩
  | _ => none

def rootItems (m : PModel) : List (Text × Py) :=
  [(kCells, m.cells), (kDefinedNames, m.definedNames), (kFormulae, m.formulae), (kRanges, m.ranges)]

/-- a receiving object that is not fresh: it holds a cell, a name, a formula and a range of its own -/
def usedObject : PModel :=
  let junk := [("Junk!Z9".toList, Py.obj clsCell [(fAddress, .str "Junk!Z9".toList), (fValue, .int 7)])]
  ⟨.dict junk, .dict junk, .dict junk, .dict junk⟩

def handle (fields : List String) : String :=
  match fields with
  | ["CODEC", f] =>
    (match S.ofWire? f with
     | some (.text fname) =>
       let w := writerTest.opener lowerAscii fname
       let r := readerTest.opener lowerAscii fname
       kv [("impl", openerWire w ++ "," ++ openerWire r),
           ("spec", if Spec.C12.isGzipName lowerAscii fname then "gzip" else "plain"),
           ("ext", "T:" ++ dotted (splitext fname).2),
           ("specext", "T:" ++ dotted (Spec.C12.extOf fname))]
     | _ => "error=bad-name")
  | ["RT", f, bc, mode, md, graph] =>
    (match S.ofWire? f, md.toNat?, parsePy (graph.splitOn " ") with
     | some (.text fname), some maxDepth, some (g, []) =>
       (match modelOf g with
        | none => "error=not-a-model"
        | some m =>
          let imp : Text → Bool := if mode == "strict" then strictImportable else fun _ => true
          let cfg := Cfg.current imp maxDepth
          let parse : Text → Names → Py := fun _ _ => .none
          let sm := if cfg.persistsAst then m else clearAst m
          let e := encF cfg (rootItems sm)
          let dp := depthF (rootItems sm) + 1
          let impl :=
            match persist cfg lowerAscii m fname with
            | .error c => "X:" ++ c.wire
            | .ok file =>
              match construct cfg lowerAscii parse usedObject file fname (bc == "1") with
              | .error c => "X:" ++ c.wire
              | .ok r => obsWire (observe r)
          kv [("impl", impl), ("spec", obsWire (observe m)),
              ("persistable", if e && dp ≤ maxDepth then "1" else "0"),
              ("enc", if e then "1" else "0"), ("depth", toString dp),
              ("kf", if dp > maxDepth then "D1201" else "")])
     | _, _, _ => "error=bad-request")
  | _ => "error=unknown-request"

end XlVerif.Drv.C12
