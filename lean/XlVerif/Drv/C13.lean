import XlVerif.Drv.EvalWire
import XlVerif.Model.C13
import XlVerif.Spec.C13
/-! Driver for C13.
  `C13 extract <fuel> <cells> <ranges> <names> <rnames> <focus> <sets>`
     cells / ranges / names: the workbook wire of `EvalWire` (formulas are SOURCE trees: a reference may be a
       defined name); rnames: `<name>~<key>~<row>;<row>` joined by `|`; focus: addresses joined by `|`;
       sets: `<addr>~<value>` joined by `|`
  → `err=<addr>` when the model of `extract` raises KeyError, otherwise
    `cells= ranges= names= formulae=`   keys of the extracted model (in insertion order, joined by `|`)
    `impl0= impl=`   evaluation of every focused address on the extracted model before / after the sets
  and always
    `spec0= spec=`   evaluation of every focused address on the original model before / after the sets
    `closure=`       `Spec.C13.closureN` of the focus in the dependency graph, `sat=1` when it is saturated
    `wf= focusok= guard=`   hygiene of the model, "no focused address is a range key", "no defined name is
                             used inside the closure" (statistics only)
  results are joined by blanks.
-/
namespace XlVerif.Drv.C13
open XlVerif XlVerif.Model.Evaluator XlVerif.Model.C13 XlVerif.Drv.EvalWire

def rnamesOfWire? (w : String) : Option (List (Addr × RName)) :=
  (splitNE w "|").mapM fun e =>
    match e.splitOn "~" with
    | [n, k, m] => do
        let name ← parseText? n
        let key ← parseText? k
        let rows ← (splitNE m ";").mapM fun r => (splitNE r ",").mapM parseText?
        pure (name, ({ key := key, cells := rows } : RName))
    | _ => none

def setsOfWire? (w : String) : Option (List (Addr × V)) :=
  (splitNE w "|").mapM fun e =>
    match e.splitOn "~" with
    | [a, v] => do pure ((← parseText? a), (← V.ofWire? v))
    | _ => none

def keysW (l : List Addr) : String := "|".intercalate (l.map textWire)
def bW (b : Bool) : String := if b then "1" else "0"

def evalAll (fuel : Nat) (m : MState) (focus : List Addr) : String :=
  " ".intercalate (focus.map fun f => resW (fresh stdSem fuel m f))

def handle (fields : List String) : String :=
  match fields with
  | ["extract", fuel, cells, ranges, names, rnames, focus, sets] =>
    (match fuel.toNat?, modelOfWire? cells ranges names, rnamesOfWire? rnames,
           (splitNE focus "|").mapM parseText?, setsOfWire? sets with
     | some n, some st, some rn, some fs, some ss =>
       let m : XModel := { st := st, rnames := rn }
       let bm := buildCode m
       let bound := st.cells.length + st.ranges.length + st.names.length + rn.length + fs.length + 1
       let cl := Spec.C13.closureN (deps m) bound fs
       let common := [("spec0", evalAll n bm fs), ("spec", evalAll n (applySets ss bm) fs),
                      ("closure", keysW cl), ("sat", bW (Spec.C13.saturated (deps m) cl)),
                      ("wf", bW (wfb m)), ("focusok", bW (fs.all fun a => !(hasKey a st.ranges))),
                      ("guard", bW (nameFreeOn m cl))]
       (match extract m fs with
        | .error a => kv (("err", textWire a) :: common)
        | .ok x =>
          let bx := buildCode x
          kv ([("cells", keysW (x.st.cells.map (·.1))), ("ranges", keysW (x.st.ranges.map (·.1))),
               ("names", keysW (x.st.names.map (·.1) ++ x.rnames.map (·.1))),
               ("formulae", keysW x.formulae),
               ("impl0", evalAll n bx fs), ("impl", evalAll n (applySets ss bx) fs)] ++ common))
     | _, _, _, _, _ => "error=bad-args")
  | _ => "error=bad-request"
end XlVerif.Drv.C13
