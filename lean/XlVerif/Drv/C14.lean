import XlVerif.Model.C14
import XlVerif.Spec.C14
import XlVerif.Drv.ValueWire
/-!
  Driver for C14: `C14 <FN> <arg>…` → `impl=<number|E:CODE|N:nonfinite|X:…>  spec=<number|E:VALUE|->`.

  Arguments:
    `s:<py>`     a scalar; `<py>` as in `ValueWire.pyOfWire?` (`n:I:5` native, `x:F:1/2` typed, …)
    `a:<rows>`   an `Array` whose elements are the typed scalars given (rows `;`, cells `,`); short
                 rows are padded by the model as the DataFrame constructor pads them
    `r:<rows>`   a range of a compiled model: the typed values of its cells; goes through the model
                 of `RangeNode.eval`
    `l:<py>|…`   a Python list of scalars
  `spec` is the fold over exactly the addressed values (all cells of `a:` / `r:`); `-` where the
  statement demands nothing (mean / minimum / maximum of no numbers, no argument at all).
-/
namespace XlVerif.Drv.C14
open XlVerif XlVerif.Model.Value XlVerif.Model.C14 XlVerif.Drv.ValueWire

def parseRows (body : String) : Option (List (List S)) :=
  if body.isEmpty then some [] else
    (body.splitOn ";").mapM fun (r : String) =>
      if r.isEmpty then some [] else (r.splitOn ",").mapM S.ofWire?

/-- the typed value a scalar spelling stands for (what the statement's fold sees) -/
def specOfPy (v : Py) : Option S :=
  match pyToS v with
  | .ok s => some s
  | _ => none

/-- parse one argument into the model's and the statement's view of it -/
def parseArg (w : String) : Option (Arg × List Spec.C14.A) :=
  if w.startsWith "s:" then
    (pyOfWire? (w.drop 2).toString).bind fun v =>
      (specOfPy v).map fun s => (Arg.scalar v, [Spec.C14.A.scalar s])
  else if w.startsWith "a:" then
    (parseRows (w.drop 2).toString).map fun rows =>
      (Arg.arr (rows.map fun r => r.map typedPy), [Spec.C14.A.range rows])
  else if w.startsWith "r:" then
    (parseRows (w.drop 2).toString).map fun rows => (rangeArray rows, [Spec.C14.A.range rows])
  else if w.startsWith "l:" then
    let body := (w.drop 2).toString
    let items := if body.isEmpty then some [] else (body.splitOn "|").mapM pyOfWire?
    items.bind fun vs =>
      (vs.mapM specOfPy).map fun ss => (Arg.list (vs.map Arg.scalar), ss.map Spec.C14.A.scalar)
  else none

def vrWire : VR Num → String
  | .ok n => (S.num n).wire
  | .error (.xl c) => "E:" ++ c.wire
  | .error .nonfinite => "N:nonfinite"
  | .error (.py k) => "X:" ++ k.wire

def ratW (q : Rat) : String := "F:" ++ ratWire q
def optW : Option Rat → String
  | some q => ratW q
  | none => "-"

/-- the rows SUMPRODUCT's reference semantics sees: a scalar is a 1×1 range -/
def specRows : Spec.C14.A → List (List S)
  | .scalar x => [[x]]
  | .range rows => rows

def handle (fields : List String) : String :=
  match fields with
  | fn :: rest =>
    (match rest.mapM parseArg with
     | none => "error=bad-args"
     | some parsed =>
       let args := parsed.map Prod.fst
       let sas := (parsed.map Prod.snd).flatten
       let cells := Spec.C14.addressed sas
       let ext := Ext.none
       let r : Option (VR Num × String) :=
         match fn with
         | "SUM" => some (SUM ext args, ratW (Spec.C14.sum cells))
         | "AVERAGE" => some (AVERAGE ext args, optW (Spec.C14.mean cells))
         | "MIN" => some (MIN ext args, optW (Spec.C14.minimum cells))
         | "MAX" => some (MAX ext args, optW (Spec.C14.maximum cells))
         | "COUNT" => some (COUNT args, s!"I:{Spec.C14.count cells}")
         | "COUNTA" => some (COUNTA args, s!"I:{Spec.C14.counta cells}")
         | "SUMPRODUCT" =>
           some (SUMPRODUCT ext args,
             match sas with
             | [] => "-"
             | _ => (match Spec.C14.sumproduct (sas.map specRows) with
                     | some q => ratW q
                     | none => "E:VALUE"))
         | _ => none
       match r with
       | some (i, s) => kv [("impl", vrWire i), ("spec", s)]
       | none => "error=bad-request")
  | [] => "error=empty"

end XlVerif.Drv.C14
