import XlVerif.Model.C15
import XlVerif.Spec.C15
/-!
  Driver for C15.  Requests (fields after the property id):

  * `split <T:text>`                         → `impl=<op>|<rest>`            (regex split, model)  `spec=<op>|<rest>`
  * `parse <T:text>`                         → `impl=<OP>|<ordering>|<S>`    `spec=<OP>|<cls>` or `-`
  * `countif <crit S> <A:cells>`             → `impl=<Res>` `spec=<I:n|->` `mask=<0/1…|->`
  * `countifs <A:range1> <crit1 S> <A:rest>` → `impl=<Res>` `spec=<I:n|->`
  * `match <key S> <A:rows> <mt S>`          → `impl=<Res>` `spec=<I:p|E:NA|->`
  * `vlookup <key S> <A:rows> <col S> <B:rl>`→ `impl=<Res>` `spec=<S|E:NA|ERR|->`
  * `choose <index S> <A:values>`            → `impl=<Res>` `spec=<S|E:VALUE|->`
  * `sortidx <A:cells> <B:reverse>`          → `impl=<i,j,…|X:Kind|U>`  (original positions in `sorted` order)

  `spec=-` means: the statement does not constrain this input.
-/
namespace XlVerif.Drv.C15
open XlVerif XlVerif.Model.Value XlVerif.Model.C15 XlVerif.Spec.C09

def resWire : Res → String
  | .ok v => v.wire
  | .crash k => "X:" ++ k.wire
  | .unmodelled => "U"

def opWire : BinOp → String
  | .eq => "EQ" | .ne => "NE" | .lt => "LT" | .le => "LE" | .gt => "GT" | .ge => "GE"
  | .add => "ADD" | .sub => "SUB" | .mul => "MUL" | .div => "DIV"

def sopWire : Spec.C15.Op → String
  | .eq => "EQ" | .ne => "NE" | .lt => "LT" | .le => "LE" | .gt => "GT" | .ge => "GE"

def clsWire : Cls → String
  | .number q => "n:" ++ ratWire q
  | .text u => "t:" ++ textWire u
  | .logical b => if b then "b:1" else "b:0"

def rowsOfWire? (w : String) : Option (List (List S)) :=
  match V.ofWire? w with
  | some (.arr rows) => some rows
  | _ => none

def flatOfWire? (w : String) : Option (List S) := (rowsOfWire? w).map List.flatten

def specCrit (crit : S) : Option (Spec.C15.Op × Cls) := Spec.C15.critOf crit

def chunks (n : Nat) (fuel : Nat) (l : List S) : Option (List (List S × S)) :=
  match fuel with
  | 0 => none
  | fuel + 1 =>
    if l = [] then some [] else
    let r := l.take n
    match l.drop n with
    | [] => none
    | c :: more => if r.length = n then (chunks n fuel more).map ((r, c) :: ·) else none

def specCountifs (range1 : List S) (crit1 : S) (rest : List S) : String :=
  match chunks range1.length (rest.length + 1) rest with
  | none => "-"
  | some more =>
    let pairs := (range1, crit1) :: more
    let conv : Option (List (List Cls × Spec.C15.Op × Cls)) :=
      pairs.mapM fun (r, c) => do
        let col ← r.mapM cls
        let (o, k) ← specCrit c
        pure (col, o, k)
    match conv with
    | some ps => (S.num (.int (Spec.C15.countifs ps))).wire
    | none => "-"

def wholeNum? : S → Option Int
  | .num (.int z) => some z
  | .num (.flt q) => if q.den = 1 then some q.num else none
  | _ => none

def handle (fields : List String) : String :=
  match fields with
  | ["split", t] =>
    (match S.ofWire? t with
     | some (.text s) =>
       let (o, r) := regexSplit genAlts s
       let (so, sr) := Spec.C15.splitOp s
       kv [("impl", textWire o ++ "|" ++ textWire r), ("spec", textWire so ++ "|" ++ textWire sr)]
     | _ => "error=bad-args")
  | ["parse", t] =>
    (match S.ofWire? t with
     | some (.text s) =>
       let impl := match parseText Ext.none s with
         | some c => opWire c.op ++ "|" ++ (if c.ordering then "1" else "0") ++ "|" ++ c.value.wire
         | none => "U"
       let spec := match Spec.C15.critOfText s with
         | some (o, k) => sopWire o ++ "|" ++ clsWire k
         | none => "-"
       kv [("impl", impl), ("spec", spec)]
     | _ => "error=bad-args")
  | ["countif", c, cells] =>
    (match S.ofWire? c, flatOfWire? cells with
     | some crit, some l =>
       let impl := resWire (COUNTIF Ext.none l crit)
       let (spec, mask) : String × String :=
         match specCrit crit, l.mapM cls with
         | some (o, k), some cs =>
           ((S.num (.int (Spec.C15.countif o k cs))).wire,
            String.join (cs.map fun x => if Spec.C15.holds o k x then "1" else "0"))
         | _, _ => ("-", "-")
       kv [("impl", impl), ("spec", spec), ("mask", mask)]
     | _, _ => "error=bad-args")
  | ["countifs", r1, c1, rest] =>
    (match flatOfWire? r1, S.ofWire? c1, flatOfWire? rest with
     | some range1, some crit1, some more =>
       kv [("impl", resWire (COUNTIFS Ext.none range1 crit1 more)), ("spec", specCountifs range1 crit1 more)]
     | _, _, _ => "error=bad-args")
  | ["match", k, rows, mt] =>
    (match S.ofWire? k, rowsOfWire? rows, S.ofWire? mt with
     | some key, some rs, some m =>
       let impl := resWire (MATCH key rs m)
       let spec : String :=
         if rs.any (fun r => r.length ≠ 1) then "-" else
         match cls key, rs.flatten.mapM cls with
         | some kk, some cs =>
           if m = .num (.int 0) then
             (match Spec.C15.matchExact kk cs with
              | some p => (S.num (.int p)).wire
              | none => "E:NA")
           else if m = .num (.int 1) then
             if Spec.C15.ascending cs then
               (match Spec.C15.lastLe kk cs with
                | 0 => "E:NA"
                | p => (S.num (.int p)).wire)
             else "-"
           else "-"
         | _, _ => "-"
       kv [("impl", impl), ("spec", spec)]
     | _, _, _ => "error=bad-args")
  | ["vlookup", k, rows, col, rl] =>
    (match S.ofWire? k, rowsOfWire? rows, S.ofWire? col, S.ofWire? rl with
     | some key, some rs, some (.num cn), some (.bool r) =>
       let impl := resWire (VLOOKUP key rs cn r)
       let spec : String :=
         match rs with
         | [] => "-"
         | r0 :: _ =>
           if r || r0 = [] || rs.any (fun x => x.length ≠ r0.length) then "-" else
           match cls key, rs.mapM (fun row => (cls (row.headD .blank)).map fun kk => (kk, row)), wholeNum? (.num cn) with
           | some kk, some prs, some c =>
             (match Spec.C15.vlookup kk prs r0.length c with
              | .value v => v.wire
              | .na => "E:NA"
              | .colError => "ERR")
           | _, _, _ => "-"
       kv [("impl", impl), ("spec", spec)]
     | _, _, _, _ => "error=bad-args")
  | ["choose", i, vals] =>
    (match S.ofWire? i, flatOfWire? vals with
     | some idx, some vs =>
       let impl := resWire (CHOOSE Ext.none idx vs)
       let spec : String :=
         if vs.length > 254 then "-" else
         match idx with
         | .num n =>
           let q := n.toRat
           -- whole index: the statement; fractional index inside [1, n]: the value at the truncated
           -- position; below 1: outside 1..n; between n and n+1: not constrained
           if q < 1 then "E:VALUE"
           else if q > vs.length then (if q.den = 1 then "E:VALUE" else if q < vs.length + 1 then "-" else "E:VALUE")
           else (match Spec.C15.choose q.floor vs with
                 | some v => v.wire
                 | none => "E:VALUE")
         | _ => "-"
       kv [("impl", impl), ("spec", spec)]
     | _, _ => "error=bad-args")
  | ["sortidx", cells, rv] =>
    (match flatOfWire? cells, S.ofWire? rv with
     | some l, some (.bool r) =>
       let items : List Item := l.zipIdx.map fun (x, i) => (i, x)
       let out := match sortItems (if r then items.reverse else items) with
         | .error k => "X:" ++ k.wire
         | .ok none => "U"
         | .ok (some s) => ",".intercalate ((if r then s.reverse else s).map fun it => toString it.1)
       kv [("impl", out)]
     | _, _ => "error=bad-args")
  | _ => "error=bad-request"

end XlVerif.Drv.C15
