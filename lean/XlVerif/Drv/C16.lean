import XlVerif.Model.C16
import XlVerif.Spec.C16
/-!
  Driver for C16.

  `C16 <FN> <args…>` → `impl=<res>  spec=<res>  kf=<ids>`

  * rounding family (ROUND ROUNDUP ROUNDDOWN TRUNC INT EVEN CEILING FLOOR): number arguments are the
    text of `str(number.value)` (shortest repr, produced by the same Python on both sides), digit
    counts are wire numbers (`I:2`, `F:3/2`).  Results: `D:<sign><coef>e<exp>` (a decimal the code
    converts with `float(...)`), `I:<int>`, `F:<num>/<den>`.
  * elementary functions: wire numbers (`I:…` ints, `F:n/d` the exact value of a double).
    `impl` runs the model with the primitives instantiated by Lean's `Float` (execution only);
    `spec` is `ERR` (outside the domain: an Excel error value is required), an exact `I:`/`F:`
    value, or `VAL` (a finite value is required; the reference value is Python's `math`).
-/
namespace XlVerif.Drv.C16
open XlVerif XlVerif.Model.C16

/-! ### decimal text -/

def digitsToNat (cs : List Char) : Option Nat :=
  if cs.isEmpty then none else
    cs.foldlM (fun acc c => if c.isDigit then some (acc * 10 + (c.toNat - '0'.toNat)) else none) 0

def parseSignedInt (cs : List Char) : Option Int :=
  match cs with
  | '-' :: r => (digitsToNat r).map fun n => -(n : Int)
  | '+' :: r => (digitsToNat r).map fun n => (n : Int)
  | r => (digitsToNat r).map fun n => (n : Int)

/-- `str(float)` / `str(int)` → decimal triple, exactly as `decimal.Decimal(text)` reads it. -/
def parseDec (s : String) : Option Dec :=
  let cs := s.toList
  let (neg, cs) := match cs with
    | '-' :: r => (true, r)
    | '+' :: r => (false, r)
    | r => (false, r)
  let (mant, ex) := cs.span (fun c => c != 'e' && c != 'E')
  let eVal : Option Int := match ex with
    | [] => some 0
    | _ :: r => parseSignedInt r
  let (ip, fp) := mant.span (· != '.')
  let fp := fp.drop 1
  match eVal, digitsToNat (ip ++ fp) with
  | some e, some c => if ip.isEmpty && fp.isEmpty then none else some ⟨neg, c, e - fp.length⟩
  | _, _ => none

def decRat (x : Dec) : Rat :=
  let m : Rat := if 0 ≤ x.exp then ((x.coef * 10 ^ x.exp.toNat : Nat) : Rat)
                 else (x.coef : Rat) / ((10 ^ (-x.exp).toNat : Nat) : Rat)
  if x.neg then -m else m

def decWire (d : Dec) : String :=
  s!"D:{if d.neg then "-" else ""}{d.coef}e{d.exp}"

def numWire : Num → String
  | .int z => s!"I:{z}"
  | .flt q => "F:" ++ ratWire q

def resWire {α} (f : α → String) : Res α → String
  | .val a => f a
  | .xlerr c => "E:" ++ c.wire
  | .crash k => "X:" ++ k.wire
  | .nan => "N:nan" | .posInf => "N:+inf" | .negInf => "N:-inf"

def rvalWire : RVal → String
  | .dec d => decWire d
  | .num n => numWire n

def getNum (s : String) : Option Num :=
  match S.ofWire? s with
  | some (.num n) => some n
  | _ => none

/-! ### `Float` instantiation of the primitives (execution only) -/

def twoAdic : Nat → Nat → Nat → Nat × Nat
  | 0, m, k => (m, k)
  | fuel + 1, m, k => if m != 0 && m % 2 == 0 then twoAdic fuel (m / 2) (k + 1) else (m, k)

/-- exact conversion of a dyadic rational (the value of a double) to `Float` -/
def ratToFloat (q : Rat) : Float :=
  let (m, k) := twoAdic 1200 q.num.natAbs 0
  let (_, j) := twoAdic 1200 q.den 0
  let f :=
    if q.den == 2 ^ j then (Float.ofNat m).scaleB ((k : Int) - (j : Int))
    else Float.ofNat q.num.natAbs / Float.ofNat q.den
  if q.num < 0 then -f else f

/-- exact value of a finite `Float` -/
def floatToOut (f : Float) : Out Rat :=
  if f.isNaN then .nan
  else if f.isInf then (if f > 0 then .posInf else .negInf)
  else
    let b := f.toBits.toNat
    let neg := b / 2 ^ 63 == 1
    let e : Nat := (b / 2 ^ 52) % 2 ^ 11
    let frac : Nat := b % 2 ^ 52
    let (m, ex) : Nat × Int := if e == 0 then (frac, -1074) else (frac + 2 ^ 52, (e : Int) - 1075)
    let v : Rat := if 0 ≤ ex then ((m * 2 ^ ex.toNat : Nat) : Rat) else (m : Rat) / ((2 ^ (-ex).toNat : Nat) : Rat)
    .val (if neg then -v else v)

def f1 (g : Float → Float) (x : Rat) : Out Rat := floatToOut (g (ratToFloat x))

def piF : Float := Float.ofBits 0x400921FB54442D18

def floatPrims : Prims where
  sin := f1 Float.sin
  cos := f1 Float.cos
  tan := f1 Float.tan
  asin := f1 Float.asin
  acos := f1 Float.acos
  atan := f1 Float.atan
  cosh := f1 Float.cosh
  asinh := f1 Float.asinh
  acosh := f1 Float.acosh
  exp := f1 Float.exp
  ln := fun x => if x ≤ 0 then .crash .valueError else f1 Float.log x
  log10 := f1 Float.log10
  sqrt := fun x => if x < 0 then .crash .valueError else f1 Float.sqrt x
  degrees := f1 fun x => x * (180.0 / piF)
  radians := f1 fun x => x * (piF / 180.0)
  atan2 := fun y x => floatToOut (Float.atan2 (ratToFloat y) (ratToFloat x))
  pow := fun x y =>
    if x == 0 && y < 0 then .crash .zeroDivision else
    let r := Float.pow (ratToFloat x) (ratToFloat y)
    if r.isInf then .crash .overflow else floatToOut r
  logb := fun x b =>
    if x ≤ 0 || b ≤ 0 then .crash .valueError
    else if b == 1 then .crash .zeroDivision
    else floatToOut (Float.log (ratToFloat x) / Float.log (ratToFloat b))
  pi := match floatToOut piF with | .val q => q | _ => 0

/-! ### requests -/

open Spec.C16 in
def fnOf : String → Option Fn
  | "ABS" => some .ABS | "SIGN" => some .SIGN | "SQRT" => some .SQRT | "POWER" => some .POWER
  | "EXP" => some .EXP | "LN" => some .LN | "LOG" => some .LOG | "LOG10" => some .LOG10
  | "MOD" => some .MOD | "FACT" => some .FACT | "FACTDOUBLE" => some .FACTDOUBLE
  | "SIN" => some .SIN | "COS" => some .COS | "TAN" => some .TAN | "ASIN" => some .ASIN
  | "ACOS" => some .ACOS | "ATAN" => some .ATAN | "ATAN2" => some .ATAN2 | "COSH" => some .COSH
  | "ASINH" => some .ASINH | "ACOSH" => some .ACOSH | "DEGREES" => some .DEGREES
  | "RADIANS" => some .RADIANS | "PI" => some .PI
  | "ROUND" => some .ROUND | "ROUNDUP" => some .ROUNDUP | "ROUNDDOWN" => some .ROUNDDOWN
  | "TRUNC" => some .TRUNC | "INT" => some .INT | "EVEN" => some .EVEN
  | "CEILING" => some .CEILING | "FLOOR" => some .FLOOR
  | _ => none

def ratW (q : Rat) : String := "F:" ++ ratWire q
def intW (z : Int) : String := s!"I:{z}"

def absR (q : Rat) : Rat := if q < 0 then -q else q

/-- D37: double arithmetic on number and significance is exact only for an integer-valued
    significance with both operands below 2^53; elsewhere the float quotient / product decides. -/
def inexactZone (x s : Rat) : Bool :=
  s.den != 1 || absR s ≥ ((2 ^ 53 : Nat) : Rat) || absR x ≥ ((2 ^ 53 : Nat) : Rat)

/-- the rounding family: `(impl, spec, kf)` -/
def rounding (fn : String) (args : List String) : Option (String × String × String) :=
  match fn, args with
  | "ROUND", [xs, ds] => do
      let x ← parseDec xs; let d ← getNum ds
      pure (resWire rvalWire (ROUND x d), ratW (Spec.C16.round (decRat x) (pyInt d)), "")
  | "ROUNDUP", [xs, ds] => do
      let x ← parseDec xs; let d ← getNum ds
      pure (resWire rvalWire (ROUNDUP x d), ratW (Spec.C16.roundUp (decRat x) (pyInt d)), "")
  | "ROUNDDOWN", [xs, ds] => do
      let x ← parseDec xs; let d ← getNum ds
      pure (resWire rvalWire (ROUNDDOWN x d), ratW (Spec.C16.roundDown (decRat x) (pyInt d)), "")
  | "TRUNC", [xs, ds] => do
      let x ← parseDec xs; let d ← getNum ds
      pure (resWire rvalWire (TRUNC x d), ratW (Spec.C16.trunc (decRat x) (pyInt d)), "")
  | "INT", [xs] => do
      let x ← parseDec xs
      pure (resWire rvalWire (INT x), intW (Spec.C16.int (decRat x)), "")
  | "EVEN", [xs] => do
      let x ← parseDec xs
      let q := decRat x
      -- D1605: `float(number) / 2.` underflows to 0 for the smallest subnormal double
      let kf := if quotientUnderflows q 2 then "D1605" else ""
      pure (resWire rvalWire (EVEN x), intW (Spec.C16.even q), kf)
  | "CEILING", [xs, ss] => do
      let x ← parseDec xs; let s ← parseDec ss
      let xq := decRat x; let sq := decRat s
      let spec := if Spec.C16.outside .CEILING [xq, sq] then "ERR" else ratW (Spec.C16.ceiling xq sq)
      -- D37: outside the zone where double arithmetic is exact the float quotient / product decides
      let kf := if sq != 0 && quotientUnderflows xq sq then "D1605" else if inexactZone xq sq then "D37" else ""
      pure (resWire rvalWire (CEILING x s), spec, kf)
  | "FLOOR", [xs, ss] => do
      let x ← parseDec xs; let s ← parseDec ss
      let xq := decRat x; let sq := decRat s
      let spec := if Spec.C16.outside .FLOOR [xq, sq] then "ERR" else ratW (Spec.C16.floor xq sq)
      let kf := if sq != 0 && quotientUnderflows xq sq then "D1605" else if inexactZone xq sq then "D37" else ""
      pure (resWire rvalWire (FLOOR x s), spec, kf)
  | _, _ => none

/-- elementary functions: `(impl, spec)` -/
def elementary (fn : String) (args : List Num) : Option (String × String) :=
  let P := floatPrims
  let w := resWire numWire
  let dom (f : Spec.C16.Fn) (exact : Option String := none) : String :=
    if Spec.C16.outside f (args.map Num.toRat) then "ERR" else exact.getD "VAL"
  match fn, args with
  | "ABS", [x] => some (w (ABS x), ratW (Spec.C16.abs x.toRat))
  | "SIGN", [x] => some (w (SIGN x), intW (Spec.C16.sign x.toRat))
  | "SQRT", [x] => some (w (SQRT P x), dom .SQRT)
  | "POWER", [x, p] =>
      let exact : Option String := match x, p with
        | .int a, .int b => if 0 ≤ b then some (intW (a ^ b.toNat)) else none
        | _, _ => none
      some (w (POWER P x p), dom .POWER exact)
  | "EXP", [x] => some (w (EXP P x), dom .EXP)
  | "LN", [x] => some (w (LN P x), dom .LN)
  | "LOG", [x, b] => some (w (LOG P x b), dom .LOG)
  | "LOG10", [x] => some (w (LOG10 P x), dom .LOG10)
  | "MOD", [x, d] => some (w (MOD x d), dom .MOD (some (ratW (Spec.C16.mod x.toRat d.toRat))))
  | "FACT", [x] =>
      some (w (FACT x), dom .FACT (some (intW (Spec.C16.fact (Spec.C16.truncZ x.toRat).toNat))))
  | "FACTDOUBLE", [x] =>
      some (w (FACTDOUBLE x),
            dom .FACTDOUBLE (some (intW (Spec.C16.factDouble (Spec.C16.truncZ x.toRat).toNat))))
  | "SIN", [x] => some (w (SIN P x), dom .SIN)
  | "COS", [x] => some (w (COS P x), dom .COS)
  | "TAN", [x] => some (w (TAN P x), dom .TAN)
  | "ASIN", [x] => some (w (ASIN P x), dom .ASIN)
  | "ACOS", [x] => some (w (ACOS P x), dom .ACOS)
  | "ATAN", [x] => some (w (ATAN P x), dom .ATAN)
  | "ATAN2", [x, y] =>
      -- spec: the model-independent statement `ATAN2(x, y) = atan2 y x` on the same primitive
      some (w (ATAN2 P x y), w (lift (Spec.C16.atan2 P.atan2 x.toRat y.toRat)))
  | "COSH", [x] => some (w (COSH P x), dom .COSH)
  | "ASINH", [x] => some (w (ASINH P x), dom .ASINH)
  | "ACOSH", [x] => some (w (ACOSH P x), dom .ACOSH)
  | "DEGREES", [x] => some (w (DEGREES P x), dom .DEGREES)
  | "RADIANS", [x] => some (w (RADIANS P x), dom .RADIANS)
  | "PI", [] => some (w (PI P), "VAL")
  | "ISEVEN", [x] => some (if ISEVEN x then "B:1" else "B:0",
                           if (Spec.C16.truncZ x.toRat) % 2 == 0 then "B:1" else "B:0")
  | "ISODD", [x] => some (if ISODD x then "B:1" else "B:0",
                          if (Spec.C16.truncZ x.toRat) % 2 == 0 then "B:0" else "B:1")
  | _, _ => none

def isRounding (fn : String) : Bool :=
  ["ROUND", "ROUNDUP", "ROUNDDOWN", "TRUNC", "INT", "EVEN", "CEILING", "FLOOR"].contains fn

def handle (fields : List String) : String :=
  match fields with
  | fn :: rest =>
    if isRounding fn then
      match rounding fn rest with
      | some (i, s, k) => kv [("impl", i), ("spec", s), ("kf", k)]
      | none => "error=bad-request"
    else
      match rest.mapM getNum with
      | none => "error=bad-args"
      | some args =>
        match elementary fn args with
        | some (i, s) => kv [("impl", i), ("spec", s), ("kf", "")]
        | none => "error=bad-request"
  | [] => "error=empty"

end XlVerif.Drv.C16
