import XlVerif.Model.C17
import XlVerif.Spec.C17
/-! Driver for C17: `C17 <FN> <args…>` → `impl=<value|E:CODE>  spec=<value|ERR|->`. -/
namespace XlVerif.Drv.C17
open XlVerif XlVerif.Model.C17

def showR {α} (f : α → String) : R α → String
  | .ok a => f a
  | .error c => "E:" ++ c.wire

def showO {α} (f : α → String) : Option α → String
  | some a => f a
  | none => "ERR"

def tx (s : List Char) : String := (S.text s).wire
def nm (z : Int) : String := (S.num (.int z)).wire
def bl (b : Bool) : String := (S.bool b).wire

def getT : S → Option (List Char) | .text s => some s | _ => none
def getN : S → Option Num | .num n => some n | _ => none

def specJoin : List (List Char) → List Char
  | [] => []
  | [w] => w
  | w :: ws => w ++ ' ' :: specJoin ws

def handle (fields : List String) : String :=
  match fields with
  | fn :: rest =>
    match rest.mapM S.ofWire? with
    | none => "error=bad-args"
    | some args =>
      let r : Option (String × String) :=
        match fn, args with
        | "LEN", [.text s] => some (showR nm (LEN s), nm s.length)
        | "LEFT", [.text s, .num n] => some (showR tx (LEFT s n), showO tx (Spec.C17.left s (pyInt n)))
        | "RIGHT", [.text s, .num n] => some (showR tx (RIGHT s n), showO tx (Spec.C17.right s (pyInt n)))
        | "MID", [.text s, .num p, .num k] =>
            some (showR tx (MID s p k), showO tx (Spec.C17.mid s (pyInt p) (pyInt k)))
        | "FIND", [.text t, .text s, .num p] =>
            some (showR nm (FIND t s p), showO (fun (n : Nat) => nm n) (Spec.C17.find t s (pyInt p)))
        | "REPLACE", [.text s, .num p, .num k, .text t] =>
            some (showR tx (REPLACE s p k t), showO tx (Spec.C17.replace s (pyInt p) (pyInt k) t))
        | "UPPER", [.text s] => some (showR tx (UPPER s), "-")
        | "LOWER", [.text s] => some (showR tx (LOWER s), "-")
        | "TRIM", [.text s] => some (showR tx (TRIM s), tx (specJoin (Spec.C17.words s)))
        | "EXACT", [.text a, .text b] => some (showR bl (EXACT a b), bl (decide (a = b)))
        | "CONCAT", ts =>
            (ts.mapM getT).map fun l => (showR tx (CONCAT l), if l.length > 254 then "ERR" else tx l.flatten)
        | _, _ => none
      match r with
      | some (i, s) => kv [("impl", i), ("spec", s)]
      | none => "error=bad-request"
  | [] => "error=empty"

end XlVerif.Drv.C17
