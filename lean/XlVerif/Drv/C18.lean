import XlVerif.Model.C18
import XlVerif.Spec.C18
/-!
  Driver for C18: `C18 <OP> <args…>` → `impl=<out>  spec=<out|ERR|->`.

  Arguments: `I:<int>` / `F:<num>/<den>` = a number (for an XlDateTime parameter it is cast with
  `number_to_datetime`, as `DateTime.cast` does), `P:<day>:<num>/<den>` = a Python datetime (days from
  1900-01-01 and seconds into the day), `T:<code points>` = text, `O` = argument omitted.
  Outputs: a value in the wire format of `Base`, `E:<CODE>` for an Excel error value, `X:<Exception>`
  for a Python exception.  A datetime is printed as `D:<serial>` with the serial computed the way the
  harness canonicalises a `datetime` (days from 1899-12-31, one more after 1900-02-28, plus the
  time of day as a fraction) — *not* with the model's `datetimeToNumber`.
  `spec=-` means the statement does not determine the result for this input.
-/
namespace XlVerif.Drv.C18
open XlVerif XlVerif.Model.C18

def showRes {α} (f : α → String) : Res α → String
  | .ok a => f a
  | .err c => "E:" ++ c.wire
  | .crash k => "X:" ++ k.wire

def nm (z : Int) : String := (S.num (.int z)).wire
def fl (q : Rat) : String := (S.num (.flt q)).wire

/-- a datetime as the serial the harness computes for it (independent of `datetimeToNumber`) -/
def dtWire (t : DT) : String :=
  let whole : Int := if t.day > 58 then t.day + 2 else t.day + 1
  (S.date ((whole : Rat) + t.sec / 86400)).wire

inductive Arg | num (n : Num) | dt (t : DT) | text (s : List Char) | omitted

def parseArg (s : String) : Option Arg :=
  if s == "O" then some .omitted
  else if s.startsWith "P:" then
    match ((s.drop 2).toString).splitOn ":" with
    | [d, q] => do
        let day ← parseInt? d
        let sec ← parseRat? q
        some (.dt ⟨day, sec⟩)
    | _ => none
  else match S.ofWire? s with
    | some (.num n) => some (.num n)
    | some (.text t) => some (.text t)
    | _ => none

/-- `DateTime.cast` of an argument -/
def asDT : Arg → Option (Res DT)
  | .num n => some (castDateTime n)
  | .dt t => some (.ok t)
  | _ => none

def specDate (c : Spec.C18.Date) : String := s!"{c.y}-{c.m}-{c.d}"

def optW {α} (f : α → String) : Option α → String
  | some a => f a
  | none => "ERR"

/-- the exact serial (with its time-of-day fraction) of an argument whose whole part denotes a day of
    the date system, else none -/
def serialQ : Arg → Option Rat
  | .num n =>
    let q := n.toRat
    if 1 ≤ q.floor ∧ q.floor ≤ Spec.C18.maxSerial ∧ q.floor ≠ 60 then some q else none
  | .dt t =>
    if 0 ≤ t.sec ∧ t.sec < 86400 ∧ 0 ≤ t.day ∧ t.day ≤ maxDay then
      some (((if t.day > 58 then t.day + 2 else t.day + 1 : Int) : Rat) + t.sec / 86400)
    else none
  | _ => none

/-- its whole part -/
def wholeSerial (a : Arg) : Option Int := (serialQ a).map Rat.floor

def specDateOfArg (a : Arg) : Option Spec.C18.Date := (wholeSerial a).bind Spec.C18.dateOf

def allTypes : List Int := [1, 2, 3, 11, 12, 13, 14, 15, 16, 17]

def join (l : List String) : String := "|".intercalate l

/-- YEAR | MONTH | DAY | ISOWEEKNUM | WEEKDAY() | WEEKDAY(·,k) for the ten documented k -/
def fieldsImpl (n : Num) : String :=
  let wds := allTypes.map fun k => showRes nm (WEEKDAY n (some (.int k)))
  let iso := match castDateTime n with
    | .ok t => showRes nm (ISOWEEKNUM t)
    | .err c => "E:" ++ c.wire
    | .crash k => "X:" ++ k.wire
  join ([showRes nm (YEAR n), showRes nm (MONTH n), showRes nm (DAY n), iso,
         showRes nm (WEEKDAY n none)] ++ wds)

def fieldsSpec (n : Num) : String :=
  match specDateOfArg (.num n) with
  | none => "-"
  | some c =>
    let iso := Spec.C18.isoWeekday c
    let wds := allTypes.map fun k => optW nm (Spec.C18.weekdayNum k iso)
    join ([nm c.y, nm c.m, nm c.d, nm (Spec.C18.isoWeek c), optW nm (Spec.C18.weekdayNum 1 iso)] ++ wds)

def bind2 (a b : Res DT) (f : DT → DT → String) : String :=
  match a, b with
  | .ok x, .ok y => f x y
  | .err c, _ => "E:" ++ c.wire
  | .crash k, _ => "X:" ++ k.wire
  | _, .err c => "E:" ++ c.wire
  | _, .crash k => "X:" ++ k.wire

def bind1 (a : Res DT) (f : DT → String) : String :=
  match a with
  | .ok x => f x
  | .err c => "E:" ++ c.wire
  | .crash k => "X:" ++ k.wire

/-- whole basis of a number, if it is whole -/
def wholeNum (n : Num) : Option Int := let q := n.toRat; if q.den = 1 then some q.num else none

def lt (a b : Spec.C18.Date) : Bool := decide (Spec.C18.ordinal a < Spec.C18.ordinal b)

def handleOp (op : String) (args : List Arg) : Option (String × String) :=
  match op, args with
  | "FIELDS", [.num n] => some (fieldsImpl n, fieldsSpec n)
  | "WEEKDAY", [.num n, rt] =>
    let r : Option (Option Num) := match rt with
      | .omitted => some none | .num k => some (some k) | _ => none
    r.map fun r =>
      let spec := match specDateOfArg (.num (.int (pyInt n))), r with
        | some c, none => optW nm (Spec.C18.weekdayNum 1 (Spec.C18.isoWeekday c))
        | some c, some k => optW nm (Spec.C18.weekdayNum (pyInt k) (Spec.C18.isoWeekday c))
        | none, _ => "-"
      (showRes nm (WEEKDAY n r), spec)
  | "N2D", [.num n] =>
    -- serial → datetime: the date of the whole part, the fraction as time of day
    let q := n.toRat
    let spec := match wholeSerial (.num (.int q.floor)) with
      | some _ => (S.date q).wire
      | none => "-"
    some (showRes dtWire (numberToDatetime n), spec)
  | "D2N", [.dt t] =>
    let spec := match wholeSerial (.dt ⟨t.day, 0⟩) with
      | some s => fl ((s : Rat) + t.sec / 86400)
      | none => "-"
    some (fl (datetimeToNumber t), spec)
  | "DATE", [.num y, .num m, .num d] =>
    -- outside the statement: the month offset alone leaves the years 1 … 9999
    let y' := if pyInt y < 1900 then pyInt y + 1900 else pyInt y
    let ym := Spec.C18.monthShift y' 1 (pyInt m - 1)
    let spec := if 0 ≤ pyInt y ∧ pyInt y ≤ 9999 ∧ (ym.1 < 1 ∨ ym.1 > 9999) then "-" else
      match Spec.C18.date (pyInt y) (pyInt m) (pyInt d) with
      | some s => (S.date (s : Rat)).wire
      | none => "ERR"
    some (showRes dtWire (DATE y m d), spec)
  | "EDATE", [a, .num k] =>
    (asDT a).map fun r =>
      let spec := match specDateOfArg a with
        | some c => (match Spec.C18.edate c (pyInt k) with
          | some s => (S.date (s : Rat)).wire
          | none => "ERR")
        | none => "-"
      (bind1 r fun t => showRes dtWire (EDATE t k), spec)
  | "EOMONTH", [a, .num k] =>
    (asDT a).map fun r =>
      let spec := match specDateOfArg a with
        | some c => (match Spec.C18.eomonth c (pyInt k) with
          | some s => fl (s : Rat)
          | none => "ERR")
        | none => "-"
      (bind1 r fun t => showRes fl (EOMONTH t k), spec)
  | "ISOWEEKNUM", [a] =>
    (asDT a).map fun r =>
      let spec := match specDateOfArg a with
        | some c => nm (Spec.C18.isoWeek c)
        | none => "-"
      (bind1 r fun t => showRes nm (ISOWEEKNUM t), spec)
  | "DAYS", [e, s] =>
    match asDT e, asDT s with
    | some re, some rs =>
      let spec := match serialQ e, serialQ s with
        | some x, some y => if (x.floor < 60) = (y.floor < 60) then fl (x - y) else "-"
        | _, _ => "-"
      some (bind2 re rs fun x y => showRes fl (DAYS x y), spec)
    | _, _ => none
  | "DATEDIF", [s, e, .text u] =>
    match asDT s, asDT e with
    | some rs, some re =>
      let uu := u.map upperChar
      let spec := match wholeSerial s, wholeSerial e, specDateOfArg s, specDateOfArg e with
        | some x, some y, some a, some b =>
          if x > y then "-"
          else if uu = ['D'] then (if (x < 60) = (y < 60) then nm (Spec.C18.ordinal b - Spec.C18.ordinal a) else "-")
          else if uu = ['M'] then nm (Spec.C18.completeMonths a b)
          else if uu = ['Y'] then nm (Spec.C18.completeYears a b)
          else "-"
        | _, _, _, _ => "-"
      some (bind2 rs re fun x y => showRes nm (DATEDIF x y u), spec)
    | _, _ => none
  | "YEARFRAC", [s, e, .num b] =>
    match asDT s, asDT e with
    | some rs, some re =>
      let spec := match specDateOfArg s, specDateOfArg e with
        | some a, some c =>
          let (a, c) := if lt c a then (c, a) else (a, c)
          (match wholeNum b with
           | some k =>
             if k = 0 ∨ k = 4 then
               (if Spec.C18.Plain360 a ∧ Spec.C18.Plain360 c then optW fl (Spec.C18.yearfrac a c k) else "-")
             else optW fl (Spec.C18.yearfrac a c k)
           | none => "-")
        | _, _ => "-"
      some (bind2 rs re fun x y => showRes fl (YEARFRAC x y b), spec)
    | _, _ => none
  | "SPECDATE", [.num n] =>
    -- the reference date of a serial (for the harness' own cross-check against Python's datetime)
    some ("-", match specDateOfArg (.num n) with | some c => specDate c | none => "-")
  | _, _ => none

def handle (fields : List String) : String :=
  match fields with
  | op :: rest =>
    match rest.mapM parseArg with
    | none => "error=bad-args"
    | some args =>
      match handleOp op args with
      | some (i, s) => kv [("impl", i), ("spec", s)]
      | none => "error=bad-request"
  | [] => "error=empty"

end XlVerif.Drv.C18
