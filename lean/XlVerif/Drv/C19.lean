import XlVerif.Model.C19
import XlVerif.Spec.C19
/-! Driver for C19: `C19 <NAME> <number> <places | ->` →
    `impl=<value | E:CODE | X:Exception>  spec=<value | E:CODE | ANYERR | SILENT>`.
    `-` for places means the argument is omitted.
    `C19 TABLES` → a behavioural digest of the generated tables (cross-check of the translator). -/
namespace XlVerif.Drv.C19
open XlVerif XlVerif.Model.C19

def showRes : Res S → String
  | .ok v => v.wire
  | .err c => "E:" ++ c.wire
  | .crash k => "X:" ++ k.wire

def showWant : Spec.C19.Want → String
  | .val v => v.wire
  | .err c => "E:" ++ c.wire
  | .anyErr => "ANYERR"
  | .silent => "SILENT"

def baseName : Gen.C19Eng.EBase → String
  | .bin => "bin" | .oct => "oct" | .dec => "dec" | .hex => "hex"

def tables : String :=
  let pd := Gen.C19Eng.permittedDigits.map fun (b, cs) => baseName b ++ ":" ++ String.ofList cs
  let bw := Gen.C19Eng.bitWidths.map fun (b, w) => baseName b ++ ":" ++ toString w
  let bn := Gen.C19Eng.baseNumbers.map fun (b, w) => baseName b ++ ":" ++ toString w
  let bd := Gen.C19Eng.bounds.map fun (a, b, w) => baseName a ++ "+" ++ baseName b ++ ":" ++ toString w
  let wr := Gen.C19Eng.wrappers.map fun (n, o, d, p) =>
    String.ofList n ++ ":" ++ baseName o ++ ">" ++ baseName d ++ (if p then "+p" else "")
  kv [("digits", ",".intercalate pd), ("widths", ",".intercalate bw), ("bases", ",".intercalate bn),
      ("bounds", ",".intercalate bd), ("wrappers", ",".intercalate wr)]

def handle (fields : List String) : String :=
  match fields with
  | ["TABLES"] => tables
  | [fn, number, places] =>
    match S.ofWire? number with
    | none => "error=bad-number"
    | some n =>
      let pl : Option (Option S) :=
        if places == "-" then some none else (S.ofWire? places).map some
      match pl with
      | none => "error=bad-places"
      | some p =>
        kv [("impl", showRes (call fn.toList n p)), ("spec", showWant (Spec.C19.want fn.toList n p))]
  | _ => "error=bad-request"

end XlVerif.Drv.C19
