import XlVerif.Model.C19
import XlVerif.Spec.C19
/-! Driver for C19: `C19 <NAME> <number> <places | ->` →
    `impl=<value | E:CODE | X:Exception>  spec=<value | E:CODE | ANYERR | SILENT>`.
    `-` for places means the argument is omitted.
    `C19 TABLES` → a behavioural digest of the generated tables (cross-check of the translator). -/
namespace XlVerif.Drv.C19
open XlVerif XlVerif.Model.C19

def showRes : Res S → String
  | .ok v => v.wire
  | .err c => "E:" ++ c.wire
  | .crash k => "X:" ++ k.wire

def showWant : Spec.C19.Want → String
  | .val v => v.wire
  | .err c => "E:" ++ c.wire
  | .anyErr => "ANYERR"
  | .silent => "SILENT"

def baseName : Gen.C19Eng.EBase → String
  | .bin => "bin" | .oct => "oct" | .dec => "dec" | .hex => "hex"

def tables : String :=
  let bl (b : Bool) : String := if b then "true" else "false"
  let pd := Gen.C19Eng.permittedDigits.map fun (b, cs) => baseName b ++ ":" ++ textWire cs
  let bn := Gen.C19Eng.baseNumbers.map fun (b, w) => baseName b ++ ":" ++ toString w
  let sw := Gen.C19Eng.signWidths.map fun (b, w) => baseName b ++ ":" ++ toString w
  let bw := Gen.C19Eng.bitWidths.map fun (b, w) => baseName b ++ ":" ++ toString w
  let md := Gen.C19Eng.maxDigits.map fun (b, w) => baseName b ++ ":" ++ toString w
  let bd := Gen.C19Eng.bounds.map fun (a, b, lo, hi) =>
    baseName a ++ ">" ++ baseName b ++ ":" ++ toString lo ++ ".." ++ toString hi
  let wr := Gen.C19Eng.wrappers.map fun (n, o, d, p) =>
    String.ofList n ++ ":" ++ baseName o ++ ">" ++ baseName d ++ (if p then "+p" else "")
  kv [("digits", ",".intercalate pd), ("percharacter", bl Gen.C19Eng.digitsPerCharacter),
      ("bases", ",".intercalate bn), ("signwidths", ",".intercalate sw), ("widths", ",".intercalate bw),
      ("maxdigits", ",".intercalate md), ("bounds", ",".intercalate bd),
      ("places", toString Gen.C19Eng.placesMin ++ ".." ++ toString Gen.C19Eng.placesMax),
      ("upper", bl Gen.C19Eng.upperCase), ("negkeeps", bl Gen.C19Eng.negativeKeepsDigits),
      ("wrappers", ",".intercalate wr)]

def handle (fields : List String) : String :=
  match fields with
  | ["TABLES"] => tables
  | [fn, number, places] =>
    match S.ofWire? number with
    | none => "error=bad-number"
    | some n =>
      let pl : Option (Option S) :=
        if places == "-" then some none else (S.ofWire? places).map some
      match pl with
      | none => "error=bad-places"
      | some p =>
        kv [("impl", showRes (call fn.toList n p)), ("spec", showWant (Spec.C19.want fn.toList n p))]
  | _ => "error=bad-request"

end XlVerif.Drv.C19
