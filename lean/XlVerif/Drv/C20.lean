import XlVerif.Model.C20
import XlVerif.Spec.C20
/-!
  Driver for C20.  Requests (`C20` already stripped), numbers as `n/d` or `n`, lists as `L:q1,q2,…`.

  Value requests end with two optional fields `<real> <tol>`: the real code's result as an exact
  rational (`-` if it is not a finite number) and the relative tolerance.  The response is
  `impl=<model outcome> spec=<reference value|-> cmp=<ok|bad|na> cmpi=<ok|bad|na>` where `cmp` is the
  exact decision `|real − spec| ≤ tol · max(gross, |spec|)` (`gross` = the same formula on absolute
  values: the size of the terms whose rounding errors add up), `cmpi` the same against the model;
  `impl`/`spec` numbers are printed rounded to 15 decimals (display only).

  * `NPV rate L:values [real tol]`
  * `PMT rate nper pv fv type [real tol]`   (spec: solution of the annuity recursion, see `recursionLimit`)
  * `PV rate nper pmt fv type [real tol]`
  * `SLN cost salvage life [real tol]`
  * `XNPV rate L:values L:dates L:weights [real tol]`; `weights[i]` is the harness-supplied value of
        `(1+rate) ** ((dates[i]-dates[0])/365)` (the uninterpreted power of the model)
  * `PVPMT rate nper pv fv`            → `impl=<res>` of PV(rate,nper,PMT(rate,nper,pv,fv),fv)
  * `IRRCERT r eps L:flows`            → `dom=<0|1> lo=<sign> hi=<sign> agree=<0|1>`: signs of the NPV of the
        flows at `r-eps` and `r+eps`, computed exactly; `agree`: model NPV = reference NPV at both points
  * `XIRRCERT L:values L:dates L:wlo L:whi` → `dom=… lo=<sign> hi=<sign>` with the weights at `r∓eps` supplied
  * `XIRRPREP L:values L:dates`        → `vals=L:… dates=L:…` the rows the model hands to the solver
-/
namespace XlVerif.Drv.C20
open XlVerif XlVerif.Model.C20

def showQ (q : Rat) : String := "F:" ++ ratWire q

def showRes : Res → String
  | .ok q => showQ q
  | .err c => "E:" ++ c.wire
  | .crash k => "X:" ++ k.wire
  | .posInf => "N:+inf"
  | .nonfinite => "N:nonfinite"

def showL (l : List Rat) : String := "L:" ++ ",".intercalate (l.map ratWire)

def parseL? (s : String) : Option (List Rat) :=
  if s.startsWith "L:" then
    let body := (s.drop 2).toString
    if body.isEmpty then some [] else (body.splitOn ",").mapM parseRat?
  else none

def sign (q : Rat) : String := if q < 0 then "-" else if q = 0 then "0" else "+"

def absQ (q : Rat) : Rat := if q < 0 then -q else q

/-- weight table → the model's power parameter (the base is fixed by the request) -/
def tableW (ts ws : List Rat) : Rat → Rat → Rat := fun _ t =>
  match (ts.zip ws).find? (fun p => p.1 == t) with
  | some p => p.2
  | none => 0

def offsets (dates : List Rat) : List Rat :=
  match dates with
  | [] => []
  | d0 :: _ => dates.map fun d => (d - d0) / 365

def boolStr (b : Bool) : String := if b then "1" else "0"

/-- up to this many periods the reference value of PV/PMT is computed from the annuity recursion
    itself (`Spec.C20.solvePV/solvePMT`); beyond it from the closed form, which the theorems
    `solvePV_eq` / `solvePMT_eq` prove equal (exact rationals with 20 000-bit denominators make the
    recursion slow, not different). -/
def recursionLimit : Nat := 400

def natOf? (q : Rat) : Option Nat := if q.den = 1 ∧ 0 ≤ q.num then some q.num.toNat else none

/-- a short exact rational close to `q` (15 decimals), for display only: printing the 20 000-bit
    numerators of exact annuity values would dominate the run time -/
def approx (q : Rat) : String :=
  let p : Rat := 1000000000000000
  "F:" ++ ratWire ((q * p).floor / p)

def showResA : Res → String
  | .ok q => approx q
  | r => showRes r

/-- `|real − x| ≤ tol · max(gross, |x|)`, decided exactly -/
def closeTo (real x gross tol : Rat) : Bool :=
  let scale := if gross < absQ x then absQ x else gross
  decide (absQ (real - x) ≤ tol * scale)

/-- judge a real numeric result against the reference value and the model outcome -/
def judge (real tol : Option Rat) (impl : Res) (spec : Option Rat) (gross : Rat) : String :=
  let cmpS := match real, tol, spec with
    | some x, some t, some s => if closeTo x s gross t then "ok" else "bad"
    | none, _, some _ => "bad"
    | _, _, _ => "na"
  let cmpI := match real, tol, impl with
    | some x, some t, .ok i => if closeTo x i gross t then "ok" else "bad"
    | none, _, .ok _ => "bad"
    | _, _, _ => "na"
  kv [("impl", showResA impl), ("spec", match spec with | some s => approx s | none => "-"),
      ("cmp", cmpS), ("cmpi", cmpI)]

/-- trailing request fields `<real> <tol>`: the real result as an exact rational (or `-` when it is
    not a finite number) and the relative tolerance -/
def realTol : List String → Option Rat × Option Rat
  | [real, tol] => (parseRat? real, parseRat? tol)
  | _ => (none, none)

def handleValue (fields : List String) : Option String :=
  match fields with
  | "NPV" :: rate :: values :: rest =>
    match parseRat? rate, parseL? values with
    | some r, some vs =>
      let (real, tol) := realTol rest
      some (judge real tol (NPV r vs) (some (Spec.C20.npv r vs)) (Spec.C20.npv r (vs.map absQ)))
    | _, _ => some "error=bad-args"
  | "PMT" :: rate :: nper :: pv :: fv :: type :: rest =>
    match parseRat? rate, (parseRat? nper).bind natOf?, parseRat? pv, parseRat? fv, parseRat? type with
    | some r, some n, some p, some f, some t =>
      let (real, tol) := realTol rest
      let spec := if n = 0 ∨ r ≤ -1 then none else
        some (if n ≤ recursionLimit then Spec.C20.solvePMT r n p f false else Spec.C20.pmtClosed r n p f 0)
      some (judge real tol (PMT r n p f t) spec (absQ (Spec.C20.pmtClosed r n (absQ p) (absQ f) 0)))
    | _, _, _, _, _ => some "error=bad-args"
  | "PV" :: rate :: nper :: pmt :: fv :: type :: rest =>
    match parseRat? rate, (parseRat? nper).bind natOf?, parseRat? pmt, parseRat? fv, parseRat? type with
    | some r, some n, some p, some f, some t =>
      let (real, tol) := realTol rest
      let spec := if r = -1 ∨ ¬ (t = 0 ∨ t = 1) then none else
        some (if n ≤ recursionLimit then Spec.C20.solvePV r n p f (t == 1) else Spec.C20.pvClosed r n p f t)
      some (judge real tol (PV r n p f (.flt t)) spec (absQ (Spec.C20.pvClosed r n (absQ p) (absQ f) t)))
    | _, _, _, _, _ => some "error=bad-args"
  | "SLN" :: cost :: salvage :: life :: rest =>
    match parseRat? cost, parseRat? salvage, parseRat? life with
    | some c, some s, some l =>
      let (real, tol) := realTol rest
      let gross := if l = 0 then 0 else (absQ c + absQ s) / absQ l
      some (judge real tol (SLN c s l) (if l > 0 then some (Spec.C20.sln c s l) else none) gross)
    | _, _, _ => some "error=bad-args"
  | "XNPV" :: rate :: values :: dates :: weights :: rest =>
    match parseRat? rate, parseL? values, parseL? dates, parseL? weights with
    | some r, some vs, some ds, some ws =>
      let (real, tol) := realTol rest
      let w := tableW (offsets ds) ws
      some (judge real tol (XNPV w r vs ds) (some (Spec.C20.xnpv (w (1 + r)) vs ds))
        (Spec.C20.xnpv (w (1 + r)) (vs.map absQ) ds))
    | _, _, _, _ => some "error=bad-args"
  | _ => none

def handleCert (fields : List String) : String :=
  match fields with
  | ["PVPMT", rate, nper, pv, fv] =>
    match parseRat? rate, (parseRat? nper).bind natOf?, parseRat? pv, parseRat? fv with
    | some r, some n, some p, some f =>
      match PMT r n p f 0 with
      | .ok pmt => kv [("impl", showResA (PV r n pmt f (.int 0))), ("pmt", approx pmt)]
      | other => kv [("impl", showRes other)]
    | _, _, _, _ => "error=bad-args"
  | ["IRRCERT", rate, eps, flows] =>
    match parseRat? rate, parseRat? eps, parseL? flows with
    | some r, some e, some cs =>
      let lo := Spec.C20.npv (r - e) cs
      let hi := Spec.C20.npv (r + e) cs
      let agree := NPV (r - e) cs == .ok lo && NPV (r + e) cs == .ok hi
      kv [("dom", boolStr (decide (Spec.C20.OutlayThenReturns cs) && decide (-1 < r - e))),
          ("lo", sign lo), ("hi", sign hi), ("agree", boolStr agree)]
    | _, _, _ => "error=bad-args"
  | ["XIRRCERT", values, dates, wlo, whi] =>
    match parseL? values, parseL? dates, parseL? wlo, parseL? whi with
    | some vs, some ds, some wl, some wh =>
      let ts := offsets ds
      let lo := Spec.C20.xnpv (tableW ts wl 0) vs ds
      let hi := Spec.C20.xnpv (tableW ts wh 0) vs ds
      kv [("dom", boolStr (decide (Spec.C20.OutlayThenReturns vs))), ("lo", sign lo), ("hi", sign hi)]
    | _, _, _, _ => "error=bad-args"
  | ["XIRRPREP", values, dates] =>
    match parseL? values, parseL? dates with
    | some vs, some ds =>
      if vs.length ≠ ds.length then "impl=E:NUM" else
      let s := xirrSeries vs ds
      kv [("vals", showL (s.map (·.1))), ("dates", showL (s.map (·.2)))]
    | _, _ => "error=bad-args"
  | _ => "error=bad-request"

def handle (fields : List String) : String :=
  match handleValue fields with
  | some r => r
  | none => handleCert fields

end XlVerif.Drv.C20
