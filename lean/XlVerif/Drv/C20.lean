import XlVerif.Model.C20
import XlVerif.Spec.C20
/-!
  Driver for C20.  Requests (`C20` already stripped), numbers as `n/d` or `n`, lists as `L:q1,q2,…`:

  * `NPV rate L:values`                → `impl=<res> spec=<q> gross=<q>`
  * `PMT rate nper pv fv type`         → `impl=<res> spec=<q|-> closed=<q>`   (spec: solution of the annuity recursion)
  * `PV rate nper pmt fv type`         → `impl=<res> spec=<q|-> closed=<q>`
  * `PVPMT rate nper pv fv`            → `impl=<res>` of PV(rate,nper,PMT(rate,nper,pv,fv),fv)
  * `SLN cost salvage life`            → `impl=<res> spec=<q|->`
  * `XNPV rate L:values L:dates L:weights` → `impl=<res> spec=<q>`; `weights[i]` is the harness-supplied
        value of `(1+rate) ** ((dates[i]-dates[0])/365)` (the uninterpreted power of the model)
  * `IRRCERT r eps L:flows`            → `dom=<0|1> lo=<sign> hi=<sign>`: signs of the NPV of the flows at
        `r-eps` and `r+eps`, computed exactly; `impl` and `spec` NPV agree is reported as `agree=<0|1>`
  * `XIRRCERT L:values L:dates L:wlo L:whi` → `dom=… lo=<sign> hi=<sign>` with the weights at `r∓eps` supplied
  * `XIRRPREP L:values L:dates`        → `vals=L:… dates=L:…` the rows the model hands to the solver
-/
namespace XlVerif.Drv.C20
open XlVerif XlVerif.Model.C20

def showQ (q : Rat) : String := "F:" ++ ratWire q

def showRes : Res → String
  | .ok q => showQ q
  | .err c => "E:" ++ c.wire
  | .crash k => "X:" ++ k.wire
  | .posInf => "N:+inf"
  | .nonfinite => "N:nonfinite"

def showL (l : List Rat) : String := "L:" ++ ",".intercalate (l.map ratWire)

def parseL? (s : String) : Option (List Rat) :=
  if s.startsWith "L:" then
    let body := (s.drop 2).toString
    if body.isEmpty then some [] else (body.splitOn ",").mapM parseRat?
  else none

def sign (q : Rat) : String := if q < 0 then "-" else if q = 0 then "0" else "+"

def absQ (q : Rat) : Rat := if q < 0 then -q else q

/-- weight table → the model's power parameter (the base is fixed by the request) -/
def tableW (ts ws : List Rat) : Rat → Rat → Rat := fun _ t =>
  match (ts.zip ws).find? (fun p => p.1 == t) with
  | some p => p.2
  | none => 0

def offsets (dates : List Rat) : List Rat :=
  match dates with
  | [] => []
  | d0 :: _ => dates.map fun d => (d - d0) / 365

def boolStr (b : Bool) : String := if b then "1" else "0"

def natOf? (q : Rat) : Option Nat := if q.den = 1 ∧ 0 ≤ q.num then some q.num.toNat else none

def handle (fields : List String) : String :=
  match fields with
  | ["NPV", rate, values] =>
    match parseRat? rate, parseL? values with
    | some r, some vs =>
      kv [("impl", showRes (NPV r vs)), ("spec", showQ (Spec.C20.npv r vs)),
          ("gross", showQ (Spec.C20.npv r (vs.map absQ)))]
    | _, _ => "error=bad-args"
  | ["PMT", rate, nper, pv, fv, type] =>
    match parseRat? rate, (parseRat? nper).bind natOf?, parseRat? pv, parseRat? fv, parseRat? type with
    | some r, some n, some p, some f, some t =>
      let spec := if n = 0 ∨ r ≤ -1 then "-" else showQ (Spec.C20.solvePMT r n p f false)
      kv [("impl", showRes (PMT r n p f t)), ("spec", spec), ("closed", showQ (Spec.C20.pmtClosed r n p f 0))]
    | _, _, _, _, _ => "error=bad-args"
  | ["PV", rate, nper, pmt, fv, type] =>
    match parseRat? rate, (parseRat? nper).bind natOf?, parseRat? pmt, parseRat? fv, parseRat? type with
    | some r, some n, some p, some f, some t =>
      let spec := if r = -1 ∨ ¬ (t = 0 ∨ t = 1) then "-" else showQ (Spec.C20.solvePV r n p f (t == 1))
      kv [("impl", showRes (PV r n p f (.flt t))), ("spec", spec), ("closed", showQ (Spec.C20.pvClosed r n p f t))]
    | _, _, _, _, _ => "error=bad-args"
  | ["PVPMT", rate, nper, pv, fv] =>
    match parseRat? rate, (parseRat? nper).bind natOf?, parseRat? pv, parseRat? fv with
    | some r, some n, some p, some f =>
      match PMT r n p f 0 with
      | .ok pmt => kv [("impl", showRes (PV r n pmt f (.int 0))), ("pmt", showQ pmt)]
      | other => kv [("impl", showRes other)]
    | _, _, _, _ => "error=bad-args"
  | ["SLN", cost, salvage, life] =>
    match parseRat? cost, parseRat? salvage, parseRat? life with
    | some c, some s, some l =>
      kv [("impl", showRes (SLN c s l)), ("spec", if l > 0 then showQ (Spec.C20.sln c s l) else "-")]
    | _, _, _ => "error=bad-args"
  | ["XNPV", rate, values, dates, weights] =>
    match parseRat? rate, parseL? values, parseL? dates, parseL? weights with
    | some r, some vs, some ds, some ws =>
      let ts := offsets ds
      let w := tableW ts ws
      kv [("impl", showRes (XNPV w r vs ds)), ("spec", showQ (Spec.C20.xnpv (w (1 + r)) vs ds)),
          ("gross", showQ (Spec.C20.xnpv (w (1 + r)) (vs.map absQ) ds))]
    | _, _, _, _ => "error=bad-args"
  | ["IRRCERT", rate, eps, flows] =>
    match parseRat? rate, parseRat? eps, parseL? flows with
    | some r, some e, some cs =>
      let lo := Spec.C20.npv (r - e) cs
      let hi := Spec.C20.npv (r + e) cs
      let agree := NPV (r - e) cs == .ok lo && NPV (r + e) cs == .ok hi
      kv [("dom", boolStr (decide (Spec.C20.OutlayThenReturns cs) && decide (-1 < r - e))),
          ("lo", sign lo), ("hi", sign hi), ("agree", boolStr agree)]
    | _, _, _ => "error=bad-args"
  | ["XIRRCERT", values, dates, wlo, whi] =>
    match parseL? values, parseL? dates, parseL? wlo, parseL? whi with
    | some vs, some ds, some wl, some wh =>
      let ts := offsets ds
      let lo := Spec.C20.xnpv (tableW ts wl 0) vs ds
      let hi := Spec.C20.xnpv (tableW ts wh 0) vs ds
      kv [("dom", boolStr (decide (Spec.C20.OutlayThenReturns vs))), ("lo", sign lo), ("hi", sign hi)]
    | _, _, _, _ => "error=bad-args"
  | ["XIRRPREP", values, dates] =>
    match parseL? values, parseL? dates with
    | some vs, some ds =>
      if vs.length ≠ ds.length then "impl=E:NUM" else
      let s := xirrSeries vs ds
      kv [("vals", showL (s.map (·.1))), ("dates", showL (s.map (·.2)))]
    | _, _ => "error=bad-args"
  | _ => "error=bad-request"

end XlVerif.Drv.C20
