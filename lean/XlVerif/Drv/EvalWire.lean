import XlVerif.Model.Evaluator
import XlVerif.Model.Value
/-! Wire format and the concrete function semantics shared by the evaluator drivers (C04, C05, C06,
    C10, C13).

  workbook = three fields:
    cells : `<addr>~c~<S wire>` or `<addr>~f~<formula length>~<Fx wire>` joined by `|`
    ranges: `<key>~<row>;<row>` with member addresses joined by `,`, joined by `|`
    names : `<name>~<addr>` joined by `|`
  addresses / names are decimal code points joined by `.`
  Fx wire: tokens separated by single blanks: `( lit <S> )` `( ref <addr> )` `( rng <key> )`
           `( app <id> <fx>… )` `( fail <reprLen> <fx>… )` `( if <fx> <fx> <fx> )` `( and <fx>… )` `( or <fx>… )`
-/
namespace XlVerif.Drv.EvalWire
open XlVerif XlVerif.Model.Evaluator XlVerif.Model.Value

/-- function ids understood by `stdSem` (the harness renders them as formula text) -/
def fnName : Nat → String
  | 0 => "+" | 1 => "-" | 2 => "*" | 3 => "/" | 4 => "SUM" | 5 => "NOSUCHFN" | 6 => "=" | 7 => "u-"
  | 8 => "&" | 9 => "COUNTA" | 10 => "<" | _ => "?"

def scalarOf : V → S
  | .s x => x
  | .arr _ => .err .value

def ofOpR : OpR → AppR
  | .val s => .val (.s s)
  | .nonfinite => .val (.s (.err .num))
  | .py _ => .raiseOther 12

def flattenV : List V → List S
  | [] => []
  | .s x :: rest => x :: flattenV rest
  | .arr rows :: rest => rows.flatten ++ flattenV rest

/-- SUM over numbers; text / blanks inside ranges are ignored (the domain uses numeric cells);
    the leftmost error is returned -/
def sumS (xs : List S) : S :=
  match xs.findSome? (fun x => match x with | .err c => some c | _ => none) with
  | some c => .err c
  | none =>
    .num (xs.foldl (fun acc x => match x with
      | .num n => Num.add acc n
      | .bool b => Num.add acc (.int (if b then 1 else 0))
      | _ => acc) (.int 0))

def stdSem : Sem where
  app := fun f args =>
    match f, args with
    | 0, [a, b] => ofOpR (binop Ext.none .add (scalarOf a) (scalarOf b))
    | 1, [a, b] => ofOpR (binop Ext.none .sub (scalarOf a) (scalarOf b))
    | 2, [a, b] => ofOpR (binop Ext.none .mul (scalarOf a) (scalarOf b))
    | 3, [a, b] => ofOpR (binop Ext.none .div (scalarOf a) (scalarOf b))
    | 4, xs => .val (.s (sumS (flattenV xs)))
    | 5, _ => .raiseOther 20            -- `KeyError('NOSUCHFN')`
    | 6, [a, b] => ofOpR (binop Ext.none .eq (scalarOf a) (scalarOf b))
    | 7, [a] => ofOpR (neg Ext.none (scalarOf a))
    | 8, [a, b] => ofOpR (concat Ext.none (scalarOf a) (scalarOf b))
    | 9, xs => .val (.s (.num (.int ((flattenV xs).filter (fun x => !(isEmptyValue (.s x)))).length)))
    | 10, [a, b] => ofOpR (binop Ext.none .lt (scalarOf a) (scalarOf b))
    | _, _ => .raiseOther 10
  -- AND / OR (`evalSc` → `argVerdict`) flatten their evaluated arguments and apply `truth` to the ITEMS only,
  -- i.e. to scalars.  The `.arr` case is therefore reached by IF alone (`=IF(B1:B3, …)`): the real code
  -- raises ValueError there ("The truth value of an array … is ambiguous", wrapped by `evaluate` into a
  -- RuntimeError); the model does not express that — an array condition is outside the domain of the
  -- correspondences, which never generate one.
  truth := fun v =>
    match v with
    | .s (.err _) => none
    | .s x => some (truthy x)
    | .arr _ => some true

partial def parseFx : List String → Option (Fx × List String)
  | "(" :: "lit" :: w :: ")" :: rest => (V.ofWire? w).map fun v => (.lit v, rest)
  | "(" :: "ref" :: w :: ")" :: rest => (parseText? w).map fun a => (.ref a, rest)
  | "(" :: "rng" :: w :: ")" :: rest => (parseText? w).map fun a => (.rng a, rest)
  | "(" :: "app" :: n :: rest => do
      let k ← n.toNat?
      let (args, rest') ← parseArgs rest
      pure (.app k args, rest')
  | "(" :: "if" :: rest => do
      let (c, r1) ← parseFx rest
      let (t, r2) ← parseFx r1
      let (e, r3) ← parseFx r2
      match r3 with
      | ")" :: r4 => pure (.iff c t e, r4)
      | _ => none
  | "(" :: "fail" :: n :: rest => do
      let k ← n.toNat?
      let (args, rest') ← parseArgs rest
      pure (.fail k args, rest')
  | "(" :: "and" :: rest => do let (args, r) ← parseArgs rest; pure (.sc true args, r)
  | "(" :: "or" :: rest => do let (args, r) ← parseArgs rest; pure (.sc false args, r)
  | _ => none
where
  parseArgs : List String → Option (List Fx × List String)
    | ")" :: rest => some ([], rest)
    | toks => do
        let (a, r1) ← parseFx toks
        let (as, r2) ← parseArgs r1
        pure (a :: as, r2)

def fxOfWire? (w : String) : Option Fx :=
  match parseFx (w.splitOn " ") with
  | some (f, []) => some f
  | _ => none

def cellOfWire? (w : String) : Option (Addr × Cell) :=
  match w.splitOn "~" with
  | [a, "c", v] => do
      let addr ← parseText? a
      let x ← V.ofWire? v
      pure (addr, { value := x, formula := none })
  | [a, "f", n, f] => do
      let addr ← parseText? a
      let len ← n.toNat?
      let fx ← fxOfWire? f
      pure (addr, { value := .s .blank, formula := some fx, formulaLen := len })
  | _ => none

def splitNE (s sep : String) : List String := if s.isEmpty then [] else s.splitOn sep

def modelOfWire? (cells ranges names : String) : Option MState := do
  let cs ← (splitNE cells "|").mapM cellOfWire?
  let rs ← (splitNE ranges "|").mapM fun w =>
    match w.splitOn "~" with
    | [k, m] => do
        let key ← parseText? k
        let rows ← (splitNE m ";").mapM fun r => (splitNE r ",").mapM parseText?
        pure (key, ({ cells := rows } : Range))
    | _ => none
  let ns ← (splitNE names "|").mapM fun w =>
    match w.splitOn "~" with
    | [n, a] => do pure ((← parseText? n), (← parseText? a))
    | _ => none
  pure { cells := cs, ranges := rs, names := ns }

def resW : Res → String
  | .val v => v.wire
  | .exc .cycle n => s!"X:cycle:{n}"
  | .exc .problem n => s!"X:problem:{n}"
  | .exc .recursion n => s!"X:recursion:{n}"
  | .exc .runtime n => s!"X:runtime:{n}"

end XlVerif.Drv.EvalWire
