import XlVerif.Model.Value
/-! Wire helpers shared by the value-layer drivers (C07, C08, C09, C10). -/
namespace XlVerif.Drv.ValueWire
open XlVerif XlVerif.Model.Value

def OpR.wire : OpR → String
  | .val s => s.wire
  | .nonfinite => "N:nonfinite"
  | .py k => "X:" ++ k.wire

/-- spellings: `n:<S>` native, `x:<S>` typed object, `np64:<S>`, `np32:<S>` numpy scalars -/
def pyOfWire? (w : String) : Option Py :=
  if w.startsWith "n:" then
    match S.ofWire? (w.drop 2).toString with
    | some (.num (.int z)) => some (.int z)
    | some (.num (.flt q)) => some (.float q)
    | some (.text s) => some (.str s)
    | some (.bool b) => some (.bool b)
    | some .blank => some .none
    | some (.date d) => some (.datetime d)
    | _ => none
  else if w.startsWith "x:" then
    match S.ofWire? (w.drop 2).toString with
    | some (.num n) => some (.xNumber n)
    | some (.text s) => some (.xText s)
    | some (.bool b) => some (.xBoolean b)
    | some .blank => some .xBlank
    | some (.date d) => some (.xDateTime d)
    | some (.err c) => some (.xErr c)
    | none => none
  else if w.startsWith "np64:" then
    match S.ofWire? (w.drop 5).toString with
    | some (.num (.int z)) => some (.npInt64 z)
    | some (.num (.flt q)) => some (.npFloat64 q)
    | _ => none
  else if w.startsWith "np32:" then
    match S.ofWire? (w.drop 5).toString with
    | some (.num (.int z)) => some (.npInt32 z)
    | some (.num (.flt q)) => some (.npFloat32 q)
    | _ => none
  else none

def binopOfWire? : String → Option BinOp
  | "ADD" => some .add | "SUB" => some .sub | "MUL" => some .mul | "DIV" => some .div
  | "EQ" => some .eq | "NE" => some .ne | "LT" => some .lt | "GT" => some .gt
  | "LE" => some .le | "GE" => some .ge | _ => none

end XlVerif.Drv.ValueWire
