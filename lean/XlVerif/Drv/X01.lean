import XlVerif.Base
/-! Driver for X01, the integrated pipeline (stub). -/
namespace XlVerif.Drv.X01
def handle (_fields : List String) : String := "error=not-implemented"
end XlVerif.Drv.X01
