import XlVerif.Model.X01
import XlVerif.Model.X01Sem
import XlVerif.Drv.EvalWire
import XlVerif.Model.C04
/-!
  Driver for X01, the integrated pipeline.

  `wb <cells> <names> <addrs> [<default sheet>]`
      cells : `<addr>~c~<S wire>` or `<addr>~t~<formula text>` joined by `|`
      names : `<name>~<reference text>` joined by `|`
      addrs : addresses (or defined names) joined by `|`
      (addresses, names and texts are decimal code points joined by `.`)
    → `impl=<r>|<r>…  exact=<0|1>|…  fx=<compiled tree of the cell>|…`
      `<r>` in the alphabet of `EvalWire.resW`, plus
        `unsupported:<NAME>`       the evaluation called a function that is not integrated
        `unsupported:dyn:<NAME>`   … an integrated function outside its modelled domain
        `unsupported:nonfinite`    … an operator produced a non-finite float
        `X:crash:<Class>`          a Python exception of this class escaped a function body (wrapped by
                                   `evaluate` into "Problem evaluating cell …"; length of its repr not modelled)
        `X:compile:<Class>`        building the model raised
        `unsupported:compile:<what>`
      `exact=1`: every float taken or returned by a function call of this evaluation is exact in double
      arithmetic (the strict run did not raise); `exact=2`: not so, but every step that met an inexact float is
      well-conditioned (the soft run did not raise); `exact=0`: neither.
  `hist <cells> <names> <ops> [<default sheet>]`   ops: `e~<addr>` | `s~<addr>~<S wire>` joined by `|`
    → `impl=<r>|…  exact=…` for the `evaluate` calls of the history on ONE model and evaluator
  `coverage` → `integrated=<names>  exactpoint=<names>  not=<names>`
-/
namespace XlVerif.Drv.X01
open XlVerif XlVerif.Model.Evaluator XlVerif.Model.X01 XlVerif.Drv.EvalWire

def nameOfId (id : Nat) : String :=
  match funcAt id with
  | some f => String.ofList f.name
  | none => s!"#{id}"

def crashOfIdx (i : Nat) : String :=
  match [Crash.typeError, .valueError, .zeroDivision, .overflow, .recursion, .keyError, .indexError,
         .attributeError, .assertion, .invalidOperation, .runtime, .syntaxError, .other][i]? with
  | some k => k.wire
  | none => "Other"

/-- the result of an evaluation with the sentinels decoded -/
def resX : Res → String
  | .exc .runtime n =>
    if n ≥ inexactMark then "unsupported:inexact"
    else if n ≥ nonfiniteMark then "unsupported:nonfinite"
    else if n ≥ dynBase then "unsupported:dyn:" ++ nameOfId (n - dynBase)
    else if n ≥ unsupBase then "unsupported:" ++ nameOfId (n - unsupBase)
    else if n ≥ crashBase then "X:crash:" ++ crashOfIdx (n / crashBase - 1)
    else s!"X:runtime:{n}"
  | r => resW r

partial def fxW : Fx → String
  | .lit v => v.wire
  | .ref a => "@" ++ String.ofList a
  | .rng a => "@@" ++ String.ofList a
  | .app f args => nameOfId f ++ "(" ++ ",".intercalate (args.map fxW) ++ ")"
  | .iff c t e => "IF(" ++ fxW c ++ "," ++ fxW t ++ "," ++ fxW e ++ ")"
  | .sc isAnd args => (if isAnd then "AND(" else "OR(") ++ ",".intercalate (args.map fxW) ++ ")"
  | .fail n args => s!"FAIL{n}(" ++ ",".intercalate (args.map fxW) ++ ")"

def cellSrc? (w : String) : Option (Text × Content) :=
  match w.splitOn "~" with
  | [a, "c", v] => do
      let addr ← parseText? a
      let x ← S.ofWire? v
      pure (addr, .const x)
  | [a, "t", t] => do
      let addr ← parseText? a
      let text ← parseText? t
      pure (addr, .formula text)
  | _ => none

def sourceOfWire? (cells names ds : String) : Option Source := do
  let cs ← (splitNE cells "|").mapM cellSrc?
  let ns ← (splitNE names "|").mapM fun w =>
    match w.splitOn "~" with
    | [n, a] => do pure ((← parseText? n), (← parseText? a))
    | _ => none
  let d ← parseText? ds
  pure { cells := cs, names := ns, defaultSheet := d }

def fuel : Nat := 200

def cerrW : CErr → String
  | .exc k => "X:compile:" ++ k.wire
  | .unsupported what => "unsupported:compile:" ++ String.ofList what

def exactFlag (plain strict soft : Res) : String :=
  if plain == strict then "1" else if plain == soft then "2" else "0"

def evalAll (m : MState) (addrs : List Text) : String :=
  let rs := addrs.map fun a => fresh (guardOf libSem) fuel m a
  let ss := addrs.map fun a => fresh (strictOf (guardOf libSem)) fuel m a
  let ws := addrs.map fun a => fresh (softOf (guardOf libSem)) fuel m a
  let ex := (rs.zip (ss.zip ws)).map fun (r, s, w) => exactFlag r s w
  let fx := addrs.map fun a =>
    match m.cell? (m.resolve a) with
    | some c => (match c.formula with | some f => fxW f | none => "-")
    | none => "-"
  kv [("impl", "|".intercalate (rs.map resX)), ("exact", "|".intercalate ex), ("fx", "|".intercalate fx)]

/-- one call of a history: `e~<addr>` = `evaluator.evaluate(addr)`, `s~<addr>~<S wire>` = `evaluator.set_cell_value` -/
def opOfWire? (w : String) : Option Model.C04.Op :=
  match w.splitOn "~" with
  | ["e", a] => (parseText? a).map .eval
  | ["s", a, v] => do
      let addr ← parseText? a
      let x ← S.ofWire? v
      pure (.set addr (.s x))
  | _ => none

/-- a history on ONE compiled model and ONE evaluator (`Model.C04.run`, the subject of `X01_history`): the results of
    its `evaluate` calls, under the plain semantics and under the two exactness probes (each on its own copy) -/
def histAll (m : MState) (ops : List Model.C04.Op) : String :=
  let go (sem : Sem) : List Res := Model.C04.evalResults (Model.C04.run sem fuel m ops).2
  let rs := go (guardOf libSem)
  let ss := go (strictOf (guardOf libSem))
  let ws := go (softOf (guardOf libSem))
  let ex := (rs.zip (ss.zip ws)).map fun (r, s, w) => exactFlag r s w
  kv [("impl", "|".intercalate (rs.map resX)), ("exact", "|".intercalate ex)]

def handle (fields : List String) : String :=
  match fields with
  | "wb" :: cells :: names :: addrs :: rest =>
    let ds := match rest with | d :: _ => d | [] => textWire "Sheet1".toList
    (match sourceOfWire? cells names ds, (splitNE addrs "|").mapM parseText? with
     | some src, some as =>
       (match compile src with
        | .ok m => evalAll m as
        | .error e => kv [("impl", "|".intercalate (as.map fun _ => cerrW e)), ("exact", ""), ("fx", "")])
     | _, _ => "error=bad-request")
  | "hist" :: cells :: names :: ops :: rest =>
    let ds := match rest with | d :: _ => d | [] => textWire "Sheet1".toList
    (match sourceOfWire? cells names ds, (splitNE ops "|").mapM opOfWire? with
     | some src, some os =>
       (match compile src with
        | .ok m => histAll m os
        | .error e =>
          let n := (os.filter fun o => match o with | .eval _ => true | _ => false).length
          kv [("impl", "|".intercalate ((List.replicate n ()).map fun _ => cerrW e)), ("exact", "")])
     | _, _ => "error=bad-request")
  | ["coverage"] =>
    kv [("integrated", ",".intercalate integratedNames), ("exactpoint", ",".intercalate exactPointOnly),
        ("not", ",".intercalate notIntegratedNames)]
  | _ => "error=bad-request"

end XlVerif.Drv.X01
