/-
  XlVerif.Lemmas.C01 — the evaluation of the parse tree of an operator formula (`Model/C01.lean`,
  through the regenerated operator→function maps and the value layer `Model/Value.lean`) agrees with
  the reference semantics `Spec.C01.denote`.
-/
import XlVerif.Model.C01
import XlVerif.Spec.C01
import XlVerif.Lemmas.C02Pct
import XlVerif.Lemmas.C02Clean
import XlVerif.Lemmas.C01Repr
import Mathlib.Tactic.SplitIfs
import Mathlib.Tactic.Ring
import Mathlib.Tactic.Linarith
import Mathlib.Tactic.FieldSimp
import Mathlib.Tactic.Positivity
import Mathlib.Tactic.NormNum
import Mathlib.Algebra.Order.Field.Rat
namespace XlVerif.Lemmas.C01
open XlVerif XlVerif.Model.Value XlVerif.Model.Tokenizer XlVerif.Model.Parser XlVerif.Model.C01
open XlVerif.Spec.C02 XlVerif.Spec.C01 XlVerif.Lemmas.C02

/-! ### the operator → function tables -/

/-- the library function each operator symbol must be bound to -/
def funcName : Spec.C02.BinOp → List Char
  | .pow => "POWER".toList | .mul => "OP_MUL".toList | .div => "OP_DIV".toList
  | .add => "OP_ADD".toList | .sub => "OP_SUB".toList | .cat => "CONCAT".toList
  | .eq => "OP_EQ".toList | .ne => "OP_NE".toList | .lt => "OP_LT".toList
  | .gt => "OP_GT".toList | .le => "OP_LE".toList | .ge => "OP_GE".toList

def OpFuncOK (infixT pre : List (List Char × List Char)) : Prop :=
  (∀ o : Spec.C02.BinOp, lookup o.sym infixT = some (funcName o)) ∧ lookup ['-'] pre = some "OP_NEG".toList

/-- what the function bound to `o` computes on two typed operands -/
def opFun (o : Spec.C02.BinOp) (l r : S) : OpR :=
  match o with
  | .pow => Model.Value.power ext0 l r
  | .mul => binop ext0 .mul l r
  | .div => binop ext0 .div l r
  | .add => binop ext0 .add l r
  | .sub => binop ext0 .sub l r
  | .cat => Model.Value.concat ext0 l r
  | .eq => binop ext0 .eq l r
  | .ne => binop ext0 .ne l r
  | .lt => binop ext0 .lt l r
  | .gt => binop ext0 .gt l r
  | .le => binop ext0 .le l r
  | .ge => binop ext0 .ge l r

theorem applyInfix_funcName (o : Spec.C02.BinOp) (l r : S) : applyInfix (funcName o) l r = opFun o l r := by
  cases o <;> rfl

theorem applyPrefix_neg (x : S) : applyPrefix "OP_NEG".toList x = Model.Value.neg ext0 x := rfl

/-! ### agreement of outcomes -/

def Agree : OpR → Res → Prop
  | .val (.num n), .num q => n.toRat = q
  | .val (.text s), .text t => s = t
  | .val (.bool b), .bool c => b = c
  | .val (.err c), .err d => c = d
  | _, _ => False

theorem agree_num {o : OpR} {q : Rat} (h : Agree o (.num q)) : ∃ n, o = .val (.num n) ∧ n.toRat = q := by
  cases o with
  | val s => cases s <;> simp [Agree] at h; exact ⟨_, rfl, h⟩
  | nonfinite => simp [Agree] at h
  | py k => simp [Agree] at h

theorem agree_text {o : OpR} {t : List Char} (h : Agree o (.text t)) : o = .val (.text t) := by
  cases o with
  | val s => cases s <;> simp [Agree] at h; rw [h]
  | nonfinite => simp [Agree] at h
  | py k => simp [Agree] at h

theorem agree_bool {o : OpR} {b : Bool} (h : Agree o (.bool b)) : o = .val (.bool b) := by
  cases o with
  | val s => cases s <;> simp [Agree] at h; rw [h]
  | nonfinite => simp [Agree] at h
  | py k => simp [Agree] at h

theorem agree_err {o : OpR} {c : Code} (h : Agree o (.err c)) : o = .val (.err c) := by
  cases o with
  | val s => cases s <;> simp [Agree] at h; rw [h]
  | nonfinite => simp [Agree] at h
  | py k => simp [Agree] at h

theorem agree_undef {o : OpR} (h : Agree o .undef) : False := by
  cases o with
  | val s => cases s <;> simp [Agree] at h
  | nonfinite => simp [Agree] at h
  | py k => simp [Agree] at h

theorem agree_val {o : OpR} {v : Res} (h : Agree o v) : ∃ x, o = .val x := by
  cases o with
  | val s => exact ⟨s, rfl⟩
  | nonfinite => cases v <;> simp [Agree] at h
  | py k => cases v <;> simp [Agree] at h

/-! ### numbers -/

theorem toRat_add (a b : Num) : (Num.add a b).toRat = a.toRat + b.toRat := by
  cases a <;> cases b <;> simp [Num.add, Num.toRat]

theorem toRat_sub (a b : Num) : (Num.sub a b).toRat = a.toRat - b.toRat := by
  cases a <;> cases b <;> simp [Num.sub, Num.toRat]

theorem toRat_mul (a b : Num) : (Num.mul a b).toRat = a.toRat * b.toRat := by
  cases a <;> cases b <;> simp [Num.mul, Num.toRat]

/-- an operand that coerces to a number: a number, a boolean, or a text of the form `-?digits+` -/
inductive NumLike : S → Rat → Prop
  | num (n : Num) : NumLike (.num n) n.toRat
  | bool (b : Bool) : NumLike (.bool b) (if b then 1 else 0)
  | text (s : List Char) (z : Int) (h : intOfText s = some z) : NumLike (.text s) (z : Rat)

theorem NumLike.toNumber {x : S} {q : Rat} (h : NumLike x q) : ∃ n, toNumber ext0 x = .ok n ∧ n.toRat = q := by
  cases h with
  | num n => exact ⟨n, rfl, rfl⟩
  | bool b => exact ⟨.int (if b then 1 else 0), rfl, by cases b <;> simp [Num.toRat]⟩
  | text s z h => exact ⟨.int z, textNumber_intOfText s z h, rfl⟩

theorem NumLike.isErr {x : S} {q : Rat} (h : NumLike x q) : isErr x = none := by
  cases h <;> rfl

/-- the Spec's coercion, for operands that are numbers or booleans -/
theorem numLike_of_agree {x : S} {v : Res} {q : Rat} (ha : Agree (.val x) v) (hq : toNum v = .num q) :
    NumLike x q := by
  cases v with
  | num q' =>
    obtain ⟨n, hn, hq'⟩ := agree_num ha
    simp only [toNum, Coerced.num.injEq] at hq
    cases hn; rw [← hq, ← hq']; exact NumLike.num n
  | bool b =>
    have := agree_bool ha
    simp only [toNum, Coerced.num.injEq] at hq
    cases this; rw [← hq]; exact NumLike.bool b
  | text s =>
    have := agree_text ha
    cases this
    simp only [toNum] at hq
    cases hz : intOfText s with
    | none => rw [hz] at hq; cases hq
    | some z =>
      rw [hz] at hq
      simp only [Coerced.num.injEq] at hq
      rw [← hq]; exact NumLike.text s z hz
  | err c => simp [toNum] at hq
  | undef => simp [toNum] at hq

/-! ### arithmetic -/

theorem arith_numLike (f : Num → Num → Num) {x y : S} {a b : Rat} (hx : NumLike x a) (hy : NumLike y b) :
    ∃ n m, n.toRat = a ∧ m.toRat = b ∧ firstErr x y = none ∧ arith ext0 f x y = .val (.num (f n m)) := by
  obtain ⟨n, hn, hna⟩ := hx.toNumber
  obtain ⟨m, hm, hmb⟩ := hy.toNumber
  exact ⟨n, m, hna, hmb, by simp [firstErr, hx.isErr, hy.isErr], by simp [arith, hn, hm, OpR.ofNum]⟩

theorem binop_add {x y : S} {a b : Rat} (hx : NumLike x a) (hy : NumLike y b) :
    ∃ n, binop ext0 .add x y = .val (.num n) ∧ n.toRat = a + b := by
  obtain ⟨n, m, hn, hm, hfe, har⟩ := arith_numLike Num.add hx hy
  exact ⟨Num.add n m, by simp only [binop, hfe, har], by rw [toRat_add, hn, hm]⟩

theorem binop_sub {x y : S} {a b : Rat} (hx : NumLike x a) (hy : NumLike y b) :
    ∃ n, binop ext0 .sub x y = .val (.num n) ∧ n.toRat = a - b := by
  obtain ⟨n, m, hn, hm, hfe, har⟩ := arith_numLike Num.sub hx hy
  exact ⟨Num.sub n m, by simp only [binop, hfe, har], by rw [toRat_sub, hn, hm]⟩

theorem binop_mul {x y : S} {a b : Rat} (hx : NumLike x a) (hy : NumLike y b) :
    ∃ n, binop ext0 .mul x y = .val (.num n) ∧ n.toRat = a * b := by
  obtain ⟨n, m, hn, hm, hfe, har⟩ := arith_numLike Num.mul hx hy
  exact ⟨Num.mul n m, by simp only [binop, hfe, har], by rw [toRat_mul, hn, hm]⟩

theorem neg_numLike {x : S} {a : Rat} (hx : NumLike x a) :
    ∃ n, Model.Value.neg ext0 x = .val (.num n) ∧ n.toRat = -a := by
  obtain ⟨n, hn, hna⟩ := hx.toNumber
  refine ⟨Num.mul (.int (-1)) n, by simp [Model.Value.neg, hx.isErr, hn, OpR.ofNum], ?_⟩
  rw [toRat_mul, hna]; simp [Num.toRat]

theorem richCmp_eq_zero {y : S} {b : Rat} (hy : NumLike y b) :
    ∃ t : Bool, richCmp .eq y (.num (.int 0)) = .val (.bool t) ∧ (t = true → b = 0) := by
  cases hy with
  | num n =>
    refine ⟨Model.Value.keyEq (0, .n n.toRat) (0, .n 0), by simp [richCmp, sortKey, sortKeyNB, Num.toRat], ?_⟩
    intro h; simpa [Model.Value.keyEq, Key.eq] using h
  | bool c =>
    exact ⟨false, by simp [richCmp, sortKey, sortKeyNB, Model.Value.keyEq, Key.eq], by intro h; cases h⟩
  | text s z hz =>
    exact ⟨false, by simp [richCmp, sortKey, sortKeyNB, Model.Value.keyEq, Key.eq], by intro h; cases h⟩

theorem binop_div {x y : S} {a b : Rat} (hx : NumLike x a) (hy : NumLike y b) :
    binop ext0 .div x y = if b = 0 then .val (.err .div0) else .val (.num (.flt (a / b))) := by
  obtain ⟨n, hn, hna⟩ := hx.toNumber
  obtain ⟨m, hm, hmb⟩ := hy.toNumber
  obtain ⟨t, ht, htb⟩ := richCmp_eq_zero hy
  have hfe : firstErr x y = none := by simp [firstErr, hx.isErr, hy.isErr]
  simp only [binop, hfe, ht]
  cases t with
  | true => simp [htb rfl]
  | false =>
    by_cases hb : b = 0
    · simp [hm, OpR.ofNum, hmb, hb]
    · simp [hm, hn, OpR.ofNum, hmb, hna, hb]

theorem toRat_powInt (a : Num) (e : Int) (isInt : Bool) (h : a.toRat ≠ 0 ∨ 0 ≤ e) :
    (Num.powInt a e isInt).toRat = a.toRat ^ e := by
  unfold Num.powInt
  split
  · rename_i z _ _ he
    have he' : 0 ≤ e := by simpa using he
    simp only [Num.toRat]
    push_cast
    rw [← zpow_natCast, Int.toNat_of_nonneg he']
  · rfl

theorem power_numLike {x y : S} {a b : Rat} (hx : NumLike x a) (hy : NumLike y b)
    (hne : Spec.C01.power a b ≠ .undef) :
    Agree (Model.Value.power ext0 x y) (Spec.C01.power a b) := by
  have hb : b.den = 1 := by
    by_contra hb; apply hne; simp [Spec.C01.power, hb]
  have h00 : ¬ (a = 0 ∧ b = 0) := by
    intro h; apply hne; simp [Spec.C01.power, hb, h]
  obtain ⟨n, hn, hna⟩ := hx.toNumber
  obtain ⟨m, hm, hmb⟩ := hy.toNumber
  have hfe : firstErr x y = none := by simp [firstErr, hx.isErr, hy.isErr]
  have hint : Num.isIntegral m = true := by simp [Num.isIntegral, hmb, hb]
  simp only [Model.Value.power, hx.isErr, hy.isErr, hn, hm, OpR.ofNum, Spec.C01.power, hb, ne_eq,
    not_true_eq_false, if_false, hna, hmb, h00]
  by_cases h0 : a = 0 ∧ b < 0
  · simp [h0, Agree]
  · simp only [h0, if_false, hint, not_true_eq_false, and_false, if_true]
    simp only [Agree]
    rw [toRat_powInt, hna]
    rw [hna]
    by_cases ha : a = 0
    · right
      have : ¬ b < 0 := fun hb' => h0 ⟨ha, hb'⟩
      have hbn : 0 ≤ b := not_lt.mp this
      exact Rat.num_nonneg.mpr hbn
    · exact Or.inl ha

/-! ### comparisons -/

theorem upper_eq : Model.Value.upper = Spec.C01.upperAscii := rfl

/-- operands of a comparison: numbers, texts, booleans -/
inductive Ordered : S → Res → Prop
  | num (n : Num) : Ordered (.num n) (.num n.toRat)
  | text (s : List Char) : Ordered (.text s) (.text s)
  | bool (b : Bool) : Ordered (.bool b) (.bool b)

theorem ordered_of_agree {x : S} {v : Res} (ha : Agree (.val x) v)
    (hv : (∃ q, v = .num q) ∨ (∃ s, v = .text s) ∨ (∃ b, v = .bool b)) : Ordered x v := by
  rcases hv with ⟨q, rfl⟩ | ⟨s, rfl⟩ | ⟨b, rfl⟩
  · obtain ⟨n, hn, hq⟩ := agree_num ha; cases hn; rw [← hq]; exact Ordered.num n
  · have := agree_text ha; cases this; exact Ordered.text s
  · have := agree_bool ha; cases this; exact Ordered.bool b

theorem Ordered.isErr {x : S} {v : Res} (h : Ordered x v) : Model.Value.isErr x = none := by cases h <;> rfl
theorem Ordered.notBlank {x : S} {v : Res} (h : Ordered x v) : Model.Value.isBlank x = false := by cases h <;> rfl

/-- the key the model compares -/
def mkey : S → Nat × Key
  | .num n => (0, .n n.toRat)
  | .text s => (1, .t (s.map Model.Value.upper))
  | .bool b => (2, .n (if b then 1 else 0))
  | _ => (9, .n 0)

theorem Ordered.sortKey {x y : S} {v w : Res} (hx : Ordered x v) (_hy : Ordered y w) :
    Model.Value.sortKey x y = some (mkey x) := by
  cases hx <;> rfl

theorem Ordered.key {x : S} {v : Res} (hx : Ordered x v) :
    ∃ k, Spec.C01.key v = some k ∧ k.1 = (mkey x).1 ∧
      (match (mkey x).2, k.2 with
       | .n a, .n b => a = b
       | .t a, .t b => a = b
       | _, _ => False) := by
  cases hx with
  | num n => exact ⟨_, rfl, rfl, rfl⟩
  | text s => exact ⟨_, rfl, rfl, by simp [mkey, upper_eq]⟩
  | bool b => exact ⟨_, rfl, rfl, rfl⟩

theorem key_cmp {x y : S} {v w : Res} (hx : Ordered x v) (hy : Ordered y w) :
    ∃ a b, Spec.C01.key v = some a ∧ Spec.C01.key w = some b ∧
      Model.Value.keyLt (mkey x) (mkey y) = some (Spec.C01.keyLt a b) ∧
      Model.Value.keyLt (mkey y) (mkey x) = some (Spec.C01.keyLt b a) ∧
      Model.Value.keyEq (mkey x) (mkey y) = Spec.C01.keyEq a b := by
  cases hx <;> cases hy <;>
    refine ⟨_, _, rfl, rfl, ?_, ?_, ?_⟩ <;>
    simp [mkey, Model.Value.keyLt, Model.Value.keyEq, Key.lt, Key.eq, Spec.C01.keyLt, Spec.C01.keyEq,
      payloadLt, payloadEq, upper_eq]

def isCmp : Spec.C02.BinOp → Bool
  | .eq | .ne | .lt | .gt | .le | .ge => true
  | _ => false

theorem compare_ordered (o : Spec.C02.BinOp) (ho : isCmp o = true) {x y : S} {v w : Res}
    (hx : Ordered x v) (hy : Ordered y w) : Agree (opFun o x y) (Spec.C01.compare o v w) := by
  cases o <;> simp only [isCmp] at ho <;> (try (exact absurd ho (by decide))) <;>
    cases hx <;> cases hy <;>
    simp [opFun, binop, firstErr, Model.Value.isErr, Model.Value.isBlank, richCmp, sortKey, sortKeyNB,
      Model.Value.keyLt, Model.Value.keyEq, Key.lt, Key.eq, Spec.C01.compare, Spec.C01.key, Spec.C01.keyLt,
      Spec.C01.keyEq, payloadLt, payloadEq, upper_eq, Agree] <;>
    (split_ifs <;> simp_all [Agree])

/-! ### `&` -/

theorem concat_text (x y : S) (s t : List Char) (hx : toStr ext0 x = s) (hy : toStr ext0 y = t)
    (hex : Model.Value.isErr x = none) (hey : Model.Value.isErr y = none) :
    Model.Value.concat ext0 x y = .val (.text (s ++ t)) := by
  simp [Model.Value.concat, firstErr, hex, hey, hx, hy]

/-! ### literals -/

theorem pyInt_digits (ds : List Nat) (hne : ds ≠ []) (hd : AllDigits ds) :
    pyIntOfText (ds.map digitChar) = some (digitsVal ds : Int) := by
  have hws : ∀ c ∈ ds.map digitChar, isWs c = false := by
    intro c hc; obtain ⟨d, hd', rfl⟩ := List.mem_map.mp hc; exact isWs_digitChar (hd d hd')
  have hsign : signOf (ds.map digitChar) = (1, ds.map digitChar) := by
    apply signOf_noSign
    intro c s hc
    cases ds with
    | nil => exact absurd rfl hne
    | cons d ds' =>
      simp only [List.map_cons, List.cons.injEq] at hc
      rw [← hc.1]; exact digitChar_ne_sign (hd d (by simp))
  have hdig := digitsUS_digits ds hne hd [] stop_nil
  simp only [List.append_nil] at hdig
  simp [pyIntOfText, strip_nonws _ hws, hsign, hdig]

theorem pyInt_none (n : NumLit) (h : n.WF) (hni : ¬ (n.fp = none ∧ n.exp = none)) :
    pyIntOfText n.text = none := by
  have hws := isWs_numText n h
  obtain ⟨c0, s, hhead, hc0⟩ := numText_head n h
  obtain ⟨hne, hip, hfp, hexp⟩ := h
  have hsign : signOf n.text = (1, n.text) := by
    apply signOf_noSign
    intro c s' hc
    rw [hhead] at hc; cases hc; exact hc0.ne_sign
  have hrest : ∃ c s, fracText n.fp ++ expText n.exp = c :: s ∧ Stop (c :: s) := by
    cases hf : n.fp with
    | some f => exact ⟨'.', _, rfl, stop_dot _⟩
    | none =>
      cases he : n.exp with
      | none => exact absurd ⟨hf, he⟩ hni
      | some x => obtain ⟨ng, ds⟩ := x; exact ⟨'E', _, rfl, stop_E _⟩
  obtain ⟨c, s', hcs, hstop⟩ := hrest
  by_cases hi : n.ip = []
  · have hdg : digitsUS n.text = none := by
      rw [numText_eq, hcs, hi]; exact digitsUS_stop _ hstop
    simp only [pyIntOfText, strip_nonws _ hws, hsign, hdg]
  · have hdg : digitsUS n.text = some (digitsVal n.ip, n.ip.length, c :: s') := by
      rw [numText_eq, hcs]; exact digitsUS_digits n.ip hi hip _ hstop
    simp only [pyIntOfText, strip_nonws _ hws, hsign, hdg]

theorem pow10_zpow (k : Int) : Model.Value.pow10 k = (10 : Rat) ^ k := by
  unfold Model.Value.pow10
  split
  · rename_i h; rw [← zpow_natCast, Int.toNat_of_nonneg h]
  · rename_i h
    have h' : 0 ≤ -k := by omega
    rw [one_div, ← zpow_natCast, Int.toNat_of_nonneg h', zpow_neg, inv_inv]

theorem expVal_eq (e : Option (Bool × List Nat)) : Lemmas.C02.expVal e = Spec.C01.expInt e := by
  cases e with
  | none => rfl
  | some x => obtain ⟨ng, ds⟩ := x; cases ng <;> simp [Lemmas.C02.expVal, Spec.C01.expInt]

theorem litValue_nonneg (n : NumLit) : 0 ≤ litValue n := by
  unfold litValue
  exact mul_nonneg (Nat.cast_nonneg _) (zpow_nonneg (by norm_num) _)

/-- a literal small enough to be a finite double -/
def LitFinite (n : NumLit) : Prop := litValue n < floatMax

theorem textNumber_lit (n : NumLit) (h : n.WF) (hfin : LitFinite n) :
    ∃ k, textNumber ext0 n.text = .ok k ∧ k.toRat = litValue n ∧
      ((n.fp = none ∧ n.exp = none) → k = .int (digitsVal n.ip)) := by
  by_cases hi : n.fp = none ∧ n.exp = none
  · have ht : n.text = n.ip.map digitChar := by
      rw [numText_eq, hi.1, hi.2]; simp [fracText, expText]
    refine ⟨.int (digitsVal n.ip), ?_, ?_, fun _ => rfl⟩
    · simp [textNumber, ht, pyInt_digits n.ip (by simpa [NumLit.fdigits, hi.1] using h.1) h.2.1]
    · simp [litValue, Num.toRat, NumLit.fdigits, hi.1, hi.2, expInt]
  · have hq : (1 : Int) * ((digitsVal (n.ip ++ n.fdigits) : Nat) : Rat) *
        Model.Value.pow10 (Lemmas.C02.expVal n.exp - (n.fdigits.length : Nat)) = litValue n := by
      rw [pow10_zpow, expVal_eq]; simp [litValue]
    have hnn := litValue_nonneg n
    have hfm : (0 : Rat) < floatMax := by unfold floatMax; positivity
    have hf : pyFloatOfText n.text = some (.fin (litValue n)) := by
      rw [pyFloat_numText n h]
      unfold finOf
      simp only
      rw [show ((1 : Int) : Rat) * ((digitsVal (n.ip ++ n.fdigits) : Nat) : Rat) *
        Model.Value.pow10 (Lemmas.C02.expVal n.exp - (n.fdigits.length : Nat)) = litValue n from by
          simpa using hq]
      have : ¬ (litValue n ≥ floatMax ∨ litValue n ≤ -floatMax) := by
        unfold LitFinite at hfin
        intro hc; rcases hc with hc | hc <;> linarith
      simp only [this, if_false]
    exact ⟨.flt (litValue n), by simp [textNumber, pyInt_none n h hi, hf], rfl, fun hc => absurd hc hi⟩

/-- a percent literal: C02's folded value is the Spec's literal value / 100 -/
theorem pct_value (n : NumLit) (hp : n.PctOK) : n.value = litValue n := by
  unfold NumLit.value litValue
  rw [hp.1]
  simp only [expInt, zero_sub, zpow_neg, zpow_natCast]
  rw [div_eq_mul_inv]

/-! ### references -/

theorem stripDollar_cell (c : Cell) (h : c.WF) : stripDollar c.text = cellAddr c := by
  obtain ⟨_, _, hcol, _, hrow⟩ := h
  unfold stripDollar Cell.text cellAddr
  simp only [List.filter_append]
  have h1 : (if c.colAbs = true then ['$'] else []).filter (fun x => decide (x ≠ '$')) = [] := by
    cases c.colAbs <;> simp
  have h2 : (if c.rowAbs = true then ['$'] else []).filter (fun x => decide (x ≠ '$')) = [] := by
    cases c.rowAbs <;> simp
  have h3 : c.col.filter (fun x => decide (x ≠ '$')) = c.col := by
    rw [List.filter_eq_self]; intro x hx
    have := hcol x hx
    simp only [ne_eq, decide_not, Bool.not_eq_eq_eq_not, Bool.not_true, decide_eq_false_iff_not]
    intro e; subst e; exact absurd this.1 (by decide)
  have h4 : (c.row.map digitChar).filter (fun x => decide (x ≠ '$')) = c.row.map digitChar := by
    rw [List.filter_eq_self]; intro x hx
    obtain ⟨d, hd, rfl⟩ := List.mem_map.mp hx
    have hd' := hrow d hd
    simp only [ne_eq, decide_not, Bool.not_eq_eq_eq_not, Bool.not_true, decide_eq_false_iff_not]
    rcases digit_cases hd' with rfl|rfl|rfl|rfl|rfl|rfl|rfl|rfl|rfl|rfl <;> decide
  rw [h1, h2, h3, h4]; simp

theorem cell_no_bang (c : Cell) (h : c.WF) : c.text.contains '!' = false ∧ c.text.contains ':' = false := by
  have hch := coordCh_cell c h
  have hcolon := noColon_cell c h
  constructor
  · rw [Bool.eq_false_iff]; intro hc
    simp only [List.contains_eq_mem, decide_eq_true_eq] at hc
    rcases hch _ hc with e | e | e | ⟨d, hd, e⟩
    · cases e
    · cases e
    · exact absurd e (by decide)
    · rcases digit_cases hd with rfl|rfl|rfl|rfl|rfl|rfl|rfl|rfl|rfl|rfl <;> (revert e; decide)
  · rw [Bool.eq_false_iff]; intro hc
    simp only [List.contains_eq_mem, decide_eq_true_eq] at hc
    exact hcolon hc

/-! ### evaluation of the expected AST -/

/-- the model's cells and the Spec's environment describe the same numbers; integral values are held
    as Python ints (so their text form is the integer's) -/
def EnvOK (m : Model.C01.Env) (s : Spec.C01.Env) : Prop :=
  ∀ a, ∃ n, m a = some n ∧ n.toRat = s a ∧ ((s a).den = 1 → ∃ z : Int, n = .int z)

def LitsFinite : Expr → Prop
  | .num n _ => LitFinite n
  | .neg e => LitsFinite e
  | .bin _ l r => LitsFinite l ∧ LitsFinite r
  | .paren e => LitsFinite e
  | _ => True

/-- left operand, then right operand, then the operator function -/
def seq2 (o : Spec.C02.BinOp) (ol or : OpR) : OpR :=
  match ol with
  | .val x => (match or with | .val y => opFun o x y | o' => o')
  | o' => o'

theorem evalAst_bin (hT : OpFuncOK Gen.infixOpToFunc Gen.prefixOpToFunc) (m : Model.C01.Env)
    (o : Spec.C02.BinOp) (l r : Ast) :
    evalAst m (.binop (binTok o) l r) = seq2 o (evalAst m l) (evalAst m r) := by
  simp only [evalAst, binTok, hT.1 o, seq2]
  cases evalAst m l with
  | val x =>
    cases evalAst m r with
    | val y => simp only [applyInfix_funcName]
    | nonfinite => rfl
    | py k => rfl
  | nonfinite => rfl
  | py k => rfl

theorem evalAst_neg (hT : OpFuncOK Gen.infixOpToFunc Gen.prefixOpToFunc) (m : Model.C01.Env) (r : Ast) :
    evalAst m (.unop negTok r) =
      (match evalAst m r with | .val x => Model.Value.neg ext0 x | o' => o') := by
  simp only [evalAst, negTok, hT.2]
  cases evalAst m r <;> rfl

theorem opFun_err_left (o : Spec.C02.BinOp) (c : Code) (y : S) : opFun o (.err c) y = .val (.err c) := by
  cases o <;> simp [opFun, binop, Model.Value.power, Model.Value.concat, firstErr, Model.Value.isErr]

theorem opFun_err_right (o : Spec.C02.BinOp) (x : S) (c : Code) (hx : Model.Value.isErr x = none)
    (hp : o = .pow → ∃ n, toNumber ext0 x = .ok n) :
    opFun o x (.err c) = .val (.err c) := by
  have hfe : firstErr x (.err c) = some c := by unfold firstErr; rw [hx]; rfl
  cases o
  case pow =>
    obtain ⟨n, hn⟩ := hp rfl
    simp only [opFun, Model.Value.power, hx, hn, OpR.ofNum]
    rfl
  all_goals simp only [opFun, binop, Model.Value.concat, hfe]

theorem opFun_err_right_np (x : S) (c : Code) (hx : Model.Value.isErr x = none) :
    ∀ o : Spec.C02.BinOp, o ≠ .pow → opFun o x (.err c) = .val (.err c) :=
  fun o ho => opFun_err_right o x c hx (fun h => absurd h ho)

theorem eval_ref (m : Model.C01.Env) (s : Spec.C01.Env) (henv : EnvOK m s) (r : Ref) (hwf : r.WF)
    (hs : r.sheet = .none) (hl : r.last = none) :
    ∃ n, evalAst m (astOf (.ref r)) = .val (.num n) ∧ n.toRat = s (cellAddr r.first) ∧
      ((s (cellAddr r.first)).den = 1 → ∃ z : Int, n = .int z) := by
  obtain ⟨n, hn, hq, hz⟩ := henv (cellAddr r.first)
  have hden : r.denoted = r.first.text := by simp [Ref.denoted, Ref.coords, hs, hl, SheetQ.denoted]
  have hnb := cell_no_bang r.first hwf.2.1
  refine ⟨n, ?_, hq, hz⟩
  simp only [astOf, evalAst, evalOperand, refTok, hden, hnb.1, hnb.2, Bool.or_self, Bool.false_eq_true, if_false,
    stripDollar_cell r.first hwf.2.1, hn]

theorem eval_lit (m : Model.C01.Env) (n : NumLit) (hwf : n.WF) (hfin : LitFinite n) :
    ∃ k, evalAst m (astOf (.num n false)) = .val (.num k) ∧ k.toRat = litValue n ∧
      ((n.fp = none ∧ n.exp = none) → k = .int (digitsVal n.ip)) := by
  obtain ⟨k, hk, hq, hi⟩ := textNumber_lit n hwf hfin
  exact ⟨k, by simp [astOf, evalAst, evalOperand, numTok, hk], hq, hi⟩

/-- expressions that are integers by construction evaluate to that (Python) integer -/
theorem exactInt_eval (hT : OpFuncOK Gen.infixOpToFunc Gen.prefixOpToFunc) (m : Model.C01.Env)
    (s : Spec.C01.Env) (henv : EnvOK m s) : ∀ (e : Expr), WF e → inC01 e = true → LitsFinite e →
      ∀ z, exactInt s e = some z → evalAst m (astOf e) = .val (.num (.int z)) := by
  intro e
  induction e using Expr.ind with
  | num n p =>
    intro hwf _ hfin z hz
    cases p with
    | true => simp [exactInt] at hz
    | false =>
      simp only [exactInt] at hz
      split at hz
      · rename_i hcond
        simp only [Bool.and_eq_true, Option.isNone_iff_eq_none] at hcond
        obtain ⟨k, hk, _, hi⟩ := eval_lit m n hwf.1 hfin
        cases hz
        rw [hk, hi hcond]
      · cases hz
  | str _ => intro _ hin; simp [inC01] at hin
  | bool _ => intro _ hin; simp [inC01] at hin
  | err _ => intro _ hin; simp [inC01] at hin
  | ref r =>
    intro hwf hin _ z hz
    have hsl : r.sheet = .none ∧ r.last = none := by
      simp only [inC01] at hin
      cases hs : r.sheet <;> cases hl : r.last <;> simp_all
    obtain ⟨n, hn, _, hint⟩ := eval_ref m s henv r hwf hsl.1 hsl.2
    simp only [exactInt] at hz
    split at hz
    · rename_i hden
      obtain ⟨z', hz'⟩ := hint hden
      cases hz
      rw [hn, hz']
      have := (henv (cellAddr r.first))
      obtain ⟨n', hn', hq', _⟩ := this
      -- the integer held is the numerator
      have hq : n.toRat = s (cellAddr r.first) := by
        obtain ⟨n2, h2, h3, _⟩ := eval_ref m s henv r hwf hsl.1 hsl.2
        rw [hn] at h2; cases h2; exact h3
      rw [hz'] at hq
      simp only [Num.toRat] at hq
      have : (s (cellAddr r.first)).num = z' := by rw [← hq]; simp
      rw [this]
    · cases hz
  | neg e ih =>
    intro hwf hin hfin z hz
    simp only [WF] at hwf
    simp only [inC01] at hin
    simp only [exactInt, Option.map_eq_some_iff] at hz
    obtain ⟨z0, hz0, rfl⟩ := hz
    simp only [astOf, evalAst_neg hT, ih hwf.1 hin hfin z0 hz0]
    simp [Model.Value.neg, Model.Value.isErr, toNumber, OpR.ofNum, Num.mul]
  | bin o l r ihl ihr =>
    intro hwf hin hfin z hz
    simp only [WF] at hwf
    simp only [inC01, Bool.and_eq_true] at hin
    simp only [exactInt] at hz
    cases hl : exactInt s l with
    | none => rw [hl] at hz; simp at hz
    | some a =>
      cases hr : exactInt s r with
      | none => rw [hl, hr] at hz; simp at hz
      | some b =>
        rw [hl, hr] at hz
        simp only at hz
        simp only [LitsFinite] at hfin
        simp only [astOf, evalAst_bin hT, ihl hwf.1 hin.1 hfin.1 a hl, ihr hwf.2.1 hin.2 hfin.2 b hr]
        cases o
        case pow =>
          simp only at hz
          split at hz
          · rename_i hb
            cases hz
            have hb' : ¬ ((b : Rat) < 0) := by
              have : (0 : Rat) ≤ (b : Rat) := by exact_mod_cast hb
              exact not_lt.mpr this
            simp [seq2, opFun, Model.Value.power, firstErr, Model.Value.isErr, toNumber, OpR.ofNum, Num.toRat, hb',
              Num.isIntegral, Num.powInt, hb]
          · cases hz
        case mul =>
          cases hz
          simp [seq2, opFun, binop, firstErr, Model.Value.isErr, arith, toNumber, OpR.ofNum, Num.mul]
        case add =>
          cases hz
          simp [seq2, opFun, binop, firstErr, Model.Value.isErr, arith, toNumber, OpR.ofNum, Num.add]
        case sub =>
          cases hz
          simp [seq2, opFun, binop, firstErr, Model.Value.isErr, arith, toNumber, OpR.ofNum, Num.sub]
        all_goals (cases hz)
  | paren e ih =>
    intro hwf hin hfin z hz
    simp only [WF] at hwf
    simp only [inC01] at hin
    simp only [exactInt] at hz
    simpa [astOf] using ih hwf hin hfin z hz
  | call a f args _ => intro _ hin; simp [inC01] at hin

theorem intText_toStr (z : Int) : toStr ext0 (.num (.int z)) = intText z := rfl

/-- one operand of `&` -/
theorem cat_side (hT : OpFuncOK Gen.infixOpToFunc Gen.prefixOpToFunc) (m : Model.C01.Env)
    (s : Spec.C01.Env) (henv : EnvOK m s) (e : Expr) (hwf : WF e) (hin : inC01 e = true)
    (hfin : LitsFinite e)
    (ih : denote s e ≠ .undef → Agree (evalAst m (astOf e)) (denote s e)) :
    (∀ t, catArg (exactInt s e) (denote s e) = .text t →
      ∃ x, evalAst m (astOf e) = .val x ∧ toStr ext0 x = t ∧ Model.Value.isErr x = none) ∧
    (∀ c, catArg (exactInt s e) (denote s e) = .err c → evalAst m (astOf e) = .val (.err c)) := by
  cases hex : exactInt s e with
  | some z =>
    have := exactInt_eval hT m s henv e hwf hin hfin z hex
    constructor
    · intro t ht
      simp only [catArg, CatArg.text.injEq] at ht
      exact ⟨_, this, by rw [intText_toStr, ht], rfl⟩
    · intro c hc; simp [catArg] at hc
  | none =>
    constructor
    · intro t ht
      cases hv : denote s e with
      | text t' =>
        rw [hv] at ht
        simp only [catArg, CatArg.text.injEq] at ht
        have := ih (by rw [hv]; simp)
        rw [hv] at this
        exact ⟨.text t', agree_text this, ht, rfl⟩
      | num q => rw [hv] at ht; simp [catArg] at ht
      | bool b => rw [hv] at ht; simp [catArg] at ht
      | err c => rw [hv] at ht; simp [catArg] at ht
      | undef => rw [hv] at ht; simp [catArg] at ht
    · intro c hc
      cases hv : denote s e with
      | err c' =>
        rw [hv] at hc
        simp only [catArg, CatArg.err.injEq] at hc
        have := ih (by rw [hv]; simp)
        rw [hv] at this
        rw [← hc]; exact agree_err this
      | num q => rw [hv] at hc; simp [catArg] at hc
      | bool b => rw [hv] at hc; simp [catArg] at hc
      | text t => rw [hv] at hc; simp [catArg] at hc
      | undef => rw [hv] at hc; simp [catArg] at hc

theorem toNum_cases (v : Res) (hu : toNum v ≠ .undef) :
    (∃ q, toNum v = .num q) ∨ (∃ c, v = .err c) := by
  cases v with
  | num q => exact Or.inl ⟨q, rfl⟩
  | bool b => exact Or.inl ⟨_, rfl⟩
  | text t =>
    cases hz : intOfText t with
    | none => exact absurd (by simp [toNum, hz]) hu
    | some z => exact Or.inl ⟨z, by simp [toNum, hz]⟩
  | err c => exact Or.inr ⟨c, rfl⟩
  | undef => exact absurd rfl hu

/-- both operands of an arithmetic operator: values, errors first -/
theorem arith_case (f : Rat → Rat → Res) (o : Spec.C02.BinOp) (vl vr : Res) (ol or : OpR)
    (hres : arith2 f vl vr ≠ .undef)
    (ihl : vl ≠ .undef → Agree ol vl) (ihr : vr ≠ .undef → Agree or vr)
    (hnum : ∀ x y a b, NumLike x a → NumLike y b → f a b ≠ .undef → Agree (opFun o x y) (f a b)) :
    Agree (seq2 o ol or) (arith2 f vl vr) := by
  have hul : toNum vl ≠ .undef := by
    intro h; apply hres; simp [arith2, h]
  have hur : toNum vr ≠ .undef := by
    intro h; apply hres
    cases htl : toNum vl <;> simp [arith2, htl, h]
  have hvl : vl ≠ .undef := by intro h; rw [h] at hul; exact hul rfl
  have hvr : vr ≠ .undef := by intro h; rw [h] at hur; exact hur rfl
  have hal := ihl hvl
  have har := ihr hvr
  obtain ⟨x, rfl⟩ := agree_val hal
  obtain ⟨y, rfl⟩ := agree_val har
  simp only [seq2]
  rcases toNum_cases vl hul with ⟨a, hta⟩ | ⟨c, rfl⟩
  · rcases toNum_cases vr hur with ⟨b, htb⟩ | ⟨c, rfl⟩
    · have hx := numLike_of_agree hal hta
      have hy := numLike_of_agree har htb
      have : arith2 f vl vr = f a b := by simp [arith2, hta, htb]
      rw [this] at hres ⊢
      exact hnum x y a b hx hy hres
    · have hx := numLike_of_agree hal hta
      have := agree_err har
      cases this
      have h2 : arith2 f vl (.err c) = .err c := by unfold arith2; rw [hta]; rfl
      rw [h2, opFun_err_right o x c hx.isErr (fun _ => by obtain ⟨n, hn, _⟩ := hx.toNumber; exact ⟨n, hn⟩)]
      simp [Agree]
  · have := agree_err hal
    cases this
    have h2 : arith2 f (.err c) vr = .err c := by
      cases htr : toNum vr <;> simp_all [arith2, toNum]
    rw [h2, opFun_err_left]
    simp [Agree]

theorem agree_of_eq {o : OpR} {n : Num} {q : Rat} (h : o = .val (.num n)) (hq : n.toRat = q) :
    Agree o (.num q) := by
  rw [h]; exact hq

/-- **`eval_denote`.**  Evaluating the parse tree of a well-formed operator formula gives the value the
    formula denotes, wherever the statement defines it (texts produced by `&` that flow into
    arithmetic included: `pyIntOfText_intOfText`). -/
theorem eval_denote (hT : OpFuncOK Gen.infixOpToFunc Gen.prefixOpToFunc) (m : Model.C01.Env)
    (s : Spec.C01.Env) (henv : EnvOK m s) : ∀ (e : Expr), WF e → inC01 e = true → LitsFinite e →
      denote s e ≠ .undef → Agree (evalAst m (astOf e)) (denote s e) := by
  intro e
  induction e using Expr.ind with
  | num n p =>
    intro hwf _ hfin _
    cases p with
    | false =>
      obtain ⟨k, hk, hq, _⟩ := eval_lit m n hwf.1 hfin
      simp only [denote]
      exact agree_of_eq hk hq
    | true =>
      have hp := hwf.2 rfl
      simp only [denote, astOf, evalAst, evalOperand, numTok, if_true, Agree, Num.toRat, pct_value n hp]
  | str _ => intro _ hin; simp [inC01] at hin
  | bool _ => intro _ hin; simp [inC01] at hin
  | err _ => intro _ hin; simp [inC01] at hin
  | ref r =>
    intro hwf hin _ _
    have hsl : r.sheet = .none ∧ r.last = none := by
      simp only [inC01] at hin
      cases hs : r.sheet <;> cases hl : r.last <;> simp_all
    obtain ⟨n, hn, hq, _⟩ := eval_ref m s henv r hwf hsl.1 hsl.2
    simp only [denote, hsl.1, hsl.2]
    exact agree_of_eq hn hq
  | paren e ih =>
    intro hwf hin hfin hu
    simp only [WF] at hwf
    simp only [inC01] at hin
    simp only [LitsFinite] at hfin
    simp only [denote] at hu ⊢
    simpa [astOf] using ih hwf hin hfin hu
  | neg e ih =>
    intro hwf hin hfin hu
    simp only [WF] at hwf
    simp only [inC01] at hin
    simp only [LitsFinite] at hfin
    simp only [denote] at hu ⊢
    have hune : denote s e ≠ .undef := by
      intro h; rw [h] at hu; simp [toNum] at hu
    have ha := ih hwf.1 hin hfin hune
    obtain ⟨x, hx⟩ := agree_val ha
    simp only [astOf, evalAst_neg hT, hx]
    rw [hx] at ha
    have htu : toNum (denote s e) ≠ .undef := by
      intro h; rw [h] at hu; exact hu rfl
    rcases toNum_cases _ htu with ⟨q, hq⟩ | ⟨c, hc⟩
    · have hnl := numLike_of_agree ha hq
      obtain ⟨n, hn, hnq⟩ := neg_numLike hnl
      rw [hq]
      exact agree_of_eq hn hnq
    · rw [hc] at ha ⊢
      have := agree_err ha
      cases this
      simp [toNum, Model.Value.neg, Model.Value.isErr, Agree]
  | bin o l r ihl ihr =>
    intro hwf hin hfin hu
    simp only [WF] at hwf
    simp only [inC01, Bool.and_eq_true] at hin
    simp only [LitsFinite] at hfin
    have IHl := ihl hwf.1 hin.1 hfin.1
    have IHr := ihr hwf.2.1 hin.2 hfin.2
    simp only [astOf, evalAst_bin hT]
    cases o
    case add =>
      simp only [denote] at hu ⊢
      exact arith_case _ .add _ _ _ _ hu IHl IHr (fun x y a b hx hy _ => by
        obtain ⟨n, hn, hq⟩ := binop_add hx hy
        exact agree_of_eq hn hq)
    case sub =>
      simp only [denote] at hu ⊢
      exact arith_case _ .sub _ _ _ _ hu IHl IHr (fun x y a b hx hy _ => by
        obtain ⟨n, hn, hq⟩ := binop_sub hx hy
        exact agree_of_eq hn hq)
    case mul =>
      simp only [denote] at hu ⊢
      exact arith_case _ .mul _ _ _ _ hu IHl IHr (fun x y a b hx hy _ => by
        obtain ⟨n, hn, hq⟩ := binop_mul hx hy
        exact agree_of_eq hn hq)
    case div =>
      simp only [denote] at hu ⊢
      exact arith_case _ .div _ _ _ _ hu IHl IHr (fun x y a b hx hy _ => by
        simp only [opFun, binop_div hx hy, divide]
        split_ifs <;> simp [Agree, Num.toRat])
    case pow =>
      simp only [denote] at hu ⊢
      exact arith_case _ .pow _ _ _ _ hu IHl IHr (fun x y a b hx hy hne =>
        power_numLike hx hy hne)
    case cat =>
      simp only [denote] at hu ⊢
      have hsl := cat_side hT m s henv l hwf.1 hin.1 hfin.1 IHl
      have hsr := cat_side hT m s henv r hwf.2.1 hin.2 hfin.2 IHr
      cases hcl : catArg (exactInt s l) (denote s l) with
      | undef => rw [hcl] at hu; simp [Spec.C01.concat] at hu
      | err c =>
        have hel := hsl.2 c hcl
        cases hcr : catArg (exactInt s r) (denote s r) with
        | undef => rw [hcl, hcr] at hu; simp [Spec.C01.concat] at hu
        | err c' =>
          rw [hel, hsr.2 c' hcr]
          simp [seq2, Spec.C01.concat, opFun_err_left, Agree]
        | text t =>
          obtain ⟨y, hy, _, _⟩ := hsr.1 t hcr
          rw [hel, hy]
          simp [seq2, Spec.C01.concat, opFun_err_left, Agree]
      | text t =>
        obtain ⟨x, hx, hxs, hxe⟩ := hsl.1 t hcl
        cases hcr : catArg (exactInt s r) (denote s r) with
        | undef => rw [hcl, hcr] at hu; simp [Spec.C01.concat] at hu
        | err c' =>
          rw [hx, hsr.2 c' hcr]
          simp [seq2, Spec.C01.concat, opFun_err_right .cat x c' hxe (by intro h; cases h), Agree]
        | text t' =>
          obtain ⟨y, hy, hys, hye⟩ := hsr.1 t' hcr
          rw [hx, hy]
          simp [seq2, Spec.C01.concat, opFun, concat_text x y t t' hxs hys hxe hye, Agree]
    all_goals
      simp only [denote] at hu ⊢
      have hvl : denote s l ≠ .undef := by
        intro h; rw [h] at hu; simp [Spec.C01.compare] at hu
      have hvr : denote s r ≠ .undef := by
        intro h; rw [h] at hu
        cases hdl : denote s l <;> simp [Spec.C01.compare, hdl] at hu
      have hal := IHl hvl
      have har := IHr hvr
      obtain ⟨x, hx⟩ := agree_val hal
      obtain ⟨y, hy⟩ := agree_val har
      rw [hx] at hal
      rw [hy] at har
      simp only [hx, hy, seq2]
      cases hdl : denote s l with
      | undef => exact absurd hdl hvl
      | err c =>
        rw [hdl] at hal
        have := agree_err hal
        cases this
        cases hdr : denote s r <;> simp_all [Spec.C01.compare, opFun_err_left, Agree]
      | num q =>
        cases hdr : denote s r with
        | undef => exact absurd hdr hvr
        | err c =>
          rw [hdl] at hal; rw [hdr] at har
          have := agree_err har
          cases this
          obtain ⟨n, hn, _⟩ := agree_num hal
          cases hn
          rw [opFun_err_right_np (S.num n) c rfl]
          · simp [Spec.C01.compare, Agree]
          · decide
        | num q' =>
          rw [hdl] at hal; rw [hdr] at har
          exact compare_ordered _ rfl (ordered_of_agree hal (Or.inl ⟨_, rfl⟩)) (ordered_of_agree har (Or.inl ⟨_, rfl⟩))
        | text t =>
          rw [hdl] at hal; rw [hdr] at har
          exact compare_ordered _ rfl (ordered_of_agree hal (Or.inl ⟨_, rfl⟩))
            (ordered_of_agree har (Or.inr (Or.inl ⟨_, rfl⟩)))
        | bool b =>
          rw [hdl] at hal; rw [hdr] at har
          exact compare_ordered _ rfl (ordered_of_agree hal (Or.inl ⟨_, rfl⟩))
            (ordered_of_agree har (Or.inr (Or.inr ⟨_, rfl⟩)))
      | text t =>
        cases hdr : denote s r with
        | undef => exact absurd hdr hvr
        | err c =>
          rw [hdl] at hal; rw [hdr] at har
          have := agree_err har
          cases this
          have := agree_text hal
          cases this
          rw [opFun_err_right_np (S.text t) c rfl]
          · simp [Spec.C01.compare, Agree]
          · decide
        | num q' =>
          rw [hdl] at hal; rw [hdr] at har
          exact compare_ordered _ rfl (ordered_of_agree hal (Or.inr (Or.inl ⟨_, rfl⟩)))
            (ordered_of_agree har (Or.inl ⟨_, rfl⟩))
        | text t' =>
          rw [hdl] at hal; rw [hdr] at har
          exact compare_ordered _ rfl (ordered_of_agree hal (Or.inr (Or.inl ⟨_, rfl⟩)))
            (ordered_of_agree har (Or.inr (Or.inl ⟨_, rfl⟩)))
        | bool b =>
          rw [hdl] at hal; rw [hdr] at har
          exact compare_ordered _ rfl (ordered_of_agree hal (Or.inr (Or.inl ⟨_, rfl⟩)))
            (ordered_of_agree har (Or.inr (Or.inr ⟨_, rfl⟩)))
      | bool b' =>
        cases hdr : denote s r with
        | undef => exact absurd hdr hvr
        | err c =>
          rw [hdl] at hal; rw [hdr] at har
          have := agree_err har
          cases this
          have := agree_bool hal
          cases this
          rw [opFun_err_right_np (S.bool b') c rfl]
          · simp [Spec.C01.compare, Agree]
          · decide
        | num q' =>
          rw [hdl] at hal; rw [hdr] at har
          exact compare_ordered _ rfl (ordered_of_agree hal (Or.inr (Or.inr ⟨_, rfl⟩)))
            (ordered_of_agree har (Or.inl ⟨_, rfl⟩))
        | text t' =>
          rw [hdl] at hal; rw [hdr] at har
          exact compare_ordered _ rfl (ordered_of_agree hal (Or.inr (Or.inr ⟨_, rfl⟩)))
            (ordered_of_agree har (Or.inr (Or.inl ⟨_, rfl⟩)))
        | bool b =>
          rw [hdl] at hal; rw [hdr] at har
          exact compare_ordered _ rfl (ordered_of_agree hal (Or.inr (Or.inr ⟨_, rfl⟩)))
            (ordered_of_agree har (Or.inr (Or.inr ⟨_, rfl⟩)))
  | call a f args _ => intro _ hin; simp [inC01] at hin

end XlVerif.Lemmas.C01
