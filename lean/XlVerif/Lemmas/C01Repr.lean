/-
  XlVerif.Lemmas.C01Repr — the model's `int(text)` (`pyIntOfText`, hence `Text.__number__` =
  `textNumber`) reads every text of the form `-?digits+` as the integer the reference semantics
  (`Spec.C01.intOfText`) gives it.  This is what lets texts produced by `&` flow into arithmetic
  (`(1&2)+3 = 15`): Spec and model hold the SAME text, and both read it back the same way.
-/
import XlVerif.Model.C01
import XlVerif.Spec.C01
import XlVerif.Lemmas.C02Num
namespace XlVerif.Lemmas.C01
open XlVerif XlVerif.Model.Value XlVerif.Spec.C02 XlVerif.Spec.C01 XlVerif.Lemmas.C02

theorem digitCh_bounds {c : Char} (h : isDigitCh c = true) : 48 ≤ c.toNat ∧ c.toNat ≤ 57 := by
  simp only [isDigitCh, Bool.and_eq_true, decide_eq_true_eq] at h
  obtain ⟨h1, h2⟩ := h
  rw [Char.le_def] at h1 h2
  simp [UInt32.le_iff_toNat_le] at h1 h2
  have : c.toNat = c.val.toNat := rfl
  omega

theorem digitChar_of_digitCh {c : Char} (h : isDigitCh c = true) :
    c.toNat - 48 < 10 ∧ digitChar (c.toNat - 48) = c := by
  have hb := digitCh_bounds h
  refine ⟨by omega, ?_⟩
  unfold digitChar
  rw [show 48 + (c.toNat - 48) = c.toNat by omega]
  exact Char.ofNat_toNat c

theorem digits_of_chars (body : List Char) (h : body.all isDigitCh = true) :
    AllDigits (body.map fun c => c.toNat - 48) ∧ (body.map fun c => c.toNat - 48).map digitChar = body := by
  rw [List.all_eq_true] at h
  constructor
  · intro d hd
    obtain ⟨c, hc, rfl⟩ := List.mem_map.mp hd
    exact (digitChar_of_digitCh (h c hc)).1
  · rw [List.map_map]
    conv => rhs; rw [← List.map_id body]
    apply List.map_congr_left
    intro c hc
    exact (digitChar_of_digitCh (h c hc)).2

theorem isWs_digitCh {c : Char} (h : isDigitCh c = true) : isWs c = false := by
  obtain ⟨hd, he⟩ := digitChar_of_digitCh h
  rw [← he]; exact isWs_digitChar hd

/-- **the model's `int(text)` agrees with the reference reading of `-?digits+` texts** -/
theorem pyIntOfText_intOfText (s : List Char) (z : Int) (h : intOfText s = some z) :
    pyIntOfText s = some z := by
  unfold intOfText at h
  -- split on the sign
  have key : ∀ (body : List Char) (sg : Int) (r : List Char), body ≠ [] → body.all isDigitCh = true →
      signOf (strip s) = (sg, body) →
      pyIntOfText s = some (sg * ((body.foldl (fun a c => a * 10 + (c.toNat - 48)) 0 : Nat) : Int)) := by
    intro body sg _ hne hall hsign
    obtain ⟨hd, hm⟩ := digits_of_chars body hall
    have hne' : (body.map fun c => c.toNat - 48) ≠ [] := by simpa using hne
    have hdig := digitsUS_digits _ hne' hd [] stop_nil
    rw [List.append_nil, hm] at hdig
    have hval : digitsVal (body.map fun c => c.toNat - 48) =
        body.foldl (fun a c => a * 10 + (c.toNat - 48)) 0 := by
      simp [digitsVal, List.foldl_map]
    simp only [pyIntOfText, hsign, hdig, hval]
  cases s with
  | nil => simp [stripMinus] at h
  | cons c cs =>
    by_cases hc : c = '-'
    · subst hc
      simp only [stripMinus] at h
      by_cases hcond : (cs.isEmpty || !cs.all isDigitCh) = true
      · rw [if_pos hcond] at h; cases h
      · simp only [hcond, Bool.false_eq_true, if_false, if_true, Option.some.injEq] at h
        simp only [Bool.or_eq_true, Bool.not_eq_true', not_or, Bool.not_eq_false] at hcond
        have hne : cs ≠ [] := by intro e; subst e; simp at hcond
        have hall : cs.all isDigitCh = true := hcond.2
        have hws : ∀ x ∈ '-' :: cs, isWs x = false := by
          intro x hx
          rcases List.mem_cons.mp hx with rfl | hx
          · decide
          · exact isWs_digitCh (List.all_eq_true.mp hall x hx)
        have := key cs (-1) cs hne hall (by rw [strip_nonws _ hws]; rfl)
        rw [this, ← h]; simp
    · have hsm : stripMinus (c :: cs) = (false, c :: cs) := by
        unfold stripMinus
        split
        · rename_i r heq; simp only [List.cons.injEq] at heq; exact absurd heq.1 hc
        · rfl
      simp only [hsm] at h
      by_cases hcond : ((c :: cs).isEmpty || !(c :: cs).all isDigitCh) = true
      · rw [if_pos hcond] at h; cases h
      · simp only [hcond, Bool.false_eq_true, if_false, Option.some.injEq] at h
        simp only [Bool.or_eq_true, Bool.not_eq_true', not_or, Bool.not_eq_false] at hcond
        have hall : (c :: cs).all isDigitCh = true := hcond.2
        have hws : ∀ x ∈ c :: cs, isWs x = false :=
          fun x hx => isWs_digitCh (List.all_eq_true.mp hall x hx)
        have hcd : isDigitCh c = true := List.all_eq_true.mp hall c (by simp)
        have hsign : signOf (c :: cs) = (1, c :: cs) := by
          apply signOf_noSign
          intro c' s' he
          cases he
          obtain ⟨hd, he'⟩ := digitChar_of_digitCh hcd
          rw [← he']; exact digitChar_ne_sign hd
        have := key (c :: cs) 1 cs (by simp) hall (by rw [strip_nonws _ hws]; exact hsign)
        rw [this, ← h]; simp

/-- `Text.__number__` on such a text is the (Python) integer -/
theorem textNumber_intOfText (s : List Char) (z : Int) (h : intOfText s = some z) :
    textNumber Model.C01.ext0 s = .ok (.int z) := by
  simp [textNumber, pyIntOfText_intOfText s z h]

example : intOfText "-12".toList = some (-12) := by decide
example : intOfText (intText 15) = some 15 := by decide
example : intOfText "1-2".toList = none := by decide

end XlVerif.Lemmas.C01
