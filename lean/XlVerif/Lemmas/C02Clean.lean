/-
  XlVerif.Lemmas.C02Clean — no token of a well-formed expression enters the `:` re-assembly pass of
  `shunting_yard` (`needsReassembly (ptoks e) = false`), hence `shuntingYard [] (toks e) = ok (rpn e)`.
-/
import XlVerif.Lemmas.C02SY
namespace XlVerif.Lemmas.C02
open XlVerif XlVerif.Model.Tokenizer XlVerif.Model.Parser XlVerif.Model.C02 XlVerif.Spec.C02

def startsColon (v : List Char) : Bool := v.head? == some ':'

/-- the predicate of `needsReassembly` -/
def badTok (t : Tok) : Bool :=
  decide (t.st ≠ .text) &&
    (match t.v with
     | .s v => startsColon v || isInfix ":OFFSET".toList v || isInfix ":INDEX".toList v
     | .f _ => false)

/-- the token is not touched by the re-assembly pass -/
def Clean (t : Tok) : Prop := badTok t = false

theorem startsColon_eq (v : List Char) :
    (match v with | ':' :: _ => true | _ => false) = startsColon v := by
  cases v with
  | nil => rfl
  | cons c tl =>
    by_cases hc : c = ':'
    · subst hc; rfl
    · simp [startsColon, hc]

theorem needsReassembly_eq (ts : List Tok) : needsReassembly ts = ts.any badTok := by
  unfold needsReassembly
  congr 1
  funext t
  unfold badTok
  cases t.v with
  | s v => show (_ && ((match v with | ':' :: _ => true | _ => false) || _ || _)) = _; rw [startsColon_eq]
  | f q => rfl

theorem needsReassembly_false (ts : List Tok) (h : ∀ t ∈ ts, Clean t) : needsReassembly ts = false := by
  rw [needsReassembly_eq, List.any_eq_false]
  intro t ht
  rw [h t ht]; simp

/-! ### texts without `:` -/

theorem isInfix_colon_free (p : List Char) (s : List Char) (h : ':' ∉ s) : isInfix (':' :: p) s = false := by
  induction s with
  | nil => simp [isInfix]
  | cons c tl ih =>
    have hc : c ≠ ':' := fun e => h (by simp [e])
    have htl : ':' ∉ tl := fun e => h (by simp [e])
    simp only [isInfix, ih htl, Bool.or_false]
    simp [List.isPrefixOf, Ne.symm hc]

theorem startsColon_false (v : List Char) (h : ':' ∉ v) : startsColon v = false := by
  cases v with
  | nil => rfl
  | cons c tl =>
    have hc : c ≠ ':' := fun e => h (by simp [e])
    simp [startsColon, hc]

theorem clean_of_noColon (v : List Char) (t : TType) (st : TSub) (h : ':' ∉ v) : Clean ⟨.s v, t, st⟩ := by
  unfold Clean badTok
  have h1 : isInfix ":OFFSET".toList v = false := isInfix_colon_free _ v h
  have h2 : isInfix ":INDEX".toList v = false := isInfix_colon_free _ v h
  simp only [h1, h2, startsColon_false v h, Bool.or_self, Bool.and_false]

theorem digitChar_ne_colon {d : Nat} (h : d < 10) : digitChar d ≠ ':' := by
  have : d = 0 ∨ d = 1 ∨ d = 2 ∨ d = 3 ∨ d = 4 ∨ d = 5 ∨ d = 6 ∨ d = 7 ∨ d = 8 ∨ d = 9 := by omega
  rcases this with rfl|rfl|rfl|rfl|rfl|rfl|rfl|rfl|rfl|rfl <;> decide

theorem noColon_digits (ds : List Nat) (h : AllDigits ds) : ':' ∉ ds.map digitChar := by
  intro hm
  rw [List.mem_map] at hm
  obtain ⟨d, hd, e⟩ := hm
  exact digitChar_ne_colon (h d hd) e

theorem nameCh_ne_colon {c : Char} (h : nameCh c = true) : c ≠ ':' := by
  intro e; subst e; revert h; decide

theorem noColon_name (f : List Char) (h : NameWF f) : ':' ∉ f :=
  fun hm => nameCh_ne_colon (h.2 _ hm) rfl

theorem noColon_numText (n : NumLit) (h : n.WF) : ':' ∉ n.text := by
  obtain ⟨_, hip, hfp, hexp⟩ := h
  unfold NumLit.text
  intro hm
  rcases List.mem_append.mp hm with hm | hm
  · rcases List.mem_append.mp hm with hm | hm
    · exact noColon_digits _ hip hm
    · cases hf : n.fp with
      | none => rw [hf] at hm; cases hm
      | some f =>
        rw [hf] at hm hfp
        rcases List.mem_cons.mp hm with e | hm
        · exact absurd e (by decide)
        · exact noColon_digits _ hfp hm
  · cases he : n.exp with
    | none => rw [he] at hm; cases hm
    | some x =>
      obtain ⟨ng, ds⟩ := x
      rw [he] at hm hexp
      simp only at hm hexp
      rcases List.mem_cons.mp hm with e | hm
      · exact absurd e (by decide)
      · rcases List.mem_cons.mp hm with e | hm
        · cases ng <;> exact absurd e (by decide)
        · exact noColon_digits _ hexp.2 hm

theorem upper_ne_colon {c : Char} (h : 'A' ≤ c ∧ c ≤ 'Z') : c ≠ ':' := by
  intro e; subst e; exact absurd h.1 (by decide)

theorem noColon_cell (c : Cell) (h : c.WF) : ':' ∉ c.text := by
  obtain ⟨_, _, hcol, _, hrow⟩ := h
  unfold Cell.text
  intro hm
  simp only [List.mem_append] at hm
  rcases hm with ((hm | hm) | hm) | hm
  · cases c.colAbs <;> simp at hm
  · exact upper_ne_colon (hcol _ hm) rfl
  · cases c.rowAbs <;> simp at hm
  · exact noColon_digits _ hrow hm

/-! ### references: one `:` at most, followed by a cell coordinate -/

/-- a pattern of capital letters longer than a column name is no prefix of a cell coordinate -/
theorem isPrefixOf_col (x : Char) (hx : ¬ ('A' ≤ x ∧ x ≤ 'Z')) (tail : List Char) :
    ∀ (col pat : List Char), col.length < pat.length → (∀ c ∈ pat, 'A' ≤ c ∧ c ≤ 'Z') →
      pat.isPrefixOf (col ++ x :: tail) = false := by
  intro col
  induction col with
  | nil =>
    intro pat hl hp
    cases pat with
    | nil => simp at hl
    | cons p ps =>
      have : p ≠ x := fun e => hx (e ▸ hp p (by simp))
      simp [List.isPrefixOf, this]
  | cons c cs ih =>
    intro pat hl hp
    cases pat with
    | nil => simp at hl
    | cons p ps =>
      simp only [List.cons_append, List.isPrefixOf, Bool.and_eq_false_iff]
      right
      exact ih ps (by simpa using hl) (fun d hd => hp d (by simp [hd]))

theorem digitChar_not_upper {d : Nat} (h : d < 10) : ¬ ('A' ≤ digitChar d ∧ digitChar d ≤ 'Z') := by
  have : d = 0 ∨ d = 1 ∨ d = 2 ∨ d = 3 ∨ d = 4 ∨ d = 5 ∨ d = 6 ∨ d = 7 ∨ d = 8 ∨ d = 9 := by omega
  rcases this with rfl|rfl|rfl|rfl|rfl|rfl|rfl|rfl|rfl|rfl <;> decide

theorem isPrefixOf_cell (c : Cell) (h : c.WF) (pat : List Char) (hl : 3 < pat.length)
    (hp : ∀ x ∈ pat, 'A' ≤ x ∧ x ≤ 'Z') : pat.isPrefixOf c.text = false := by
  obtain ⟨_, hlen, _, hrow, hdig⟩ := h
  unfold Cell.text
  cases hca : c.colAbs with
  | true =>
    cases pat with
    | nil => simp at hl
    | cons p ps =>
      have : p ≠ '$' := fun e => absurd (e ▸ hp p (by simp)).1 (by decide)
      simp [List.isPrefixOf, this]
  | false =>
    simp only [Bool.false_eq_true, if_false, List.nil_append, List.append_assoc]
    cases hra : c.rowAbs with
    | true =>
      simp only [if_true, List.cons_append, List.nil_append]
      exact isPrefixOf_col '$' (by decide) _ c.col pat (by omega) hp
    | false =>
      simp only [Bool.false_eq_true, if_false, List.nil_append]
      cases hr : c.row with
      | nil => exact absurd hr hrow
      | cons d ds =>
        simp only [List.map_cons]
        exact isPrefixOf_col (digitChar d) (digitChar_not_upper (hdig d (by rw [hr]; simp))) _ c.col pat
          (by omega) hp

theorem isInfix_skip (p : List Char) (pre rest : List Char) (h : ':' ∉ pre) :
    isInfix (':' :: p) (pre ++ rest) = isInfix (':' :: p) rest := by
  induction pre with
  | nil => rfl
  | cons c tl ih =>
    have hc : c ≠ ':' := fun e => h (by simp [e])
    have htl : ':' ∉ tl := fun e => h (by simp [e])
    simp only [List.cons_append, isInfix, ih htl]
    simp [List.isPrefixOf, Ne.symm hc]

theorem noColon_sheet (s : SheetQ) (h : s.WF) : ':' ∉ s.denoted := by
  cases s with
  | none => simp [SheetQ.denoted]
  | plain n =>
    simp only [SheetQ.denoted, List.mem_append, List.mem_singleton, not_or]
    exact ⟨noColon_name n h, by decide⟩
  | quoted n =>
    simp only [SheetQ.denoted, List.mem_append, List.mem_singleton, not_or]
    exact ⟨h, by decide⟩

theorem cell_text_ne_nil (c : Cell) (h : c.WF) : c.text ≠ [] := by
  unfold Cell.text
  intro e
  simp only [List.append_eq_nil_iff] at e
  exact h.1 e.1.1.2

theorem clean_ref (r : Ref) (h : r.WF) : Clean (refTok r) := by
  obtain ⟨hs, hf, hl⟩ := h
  have hpre : ':' ∉ r.sheet.denoted ++ r.first.text := by
    simp only [List.mem_append, not_or]
    exact ⟨noColon_sheet _ hs, noColon_cell _ hf⟩
  cases hlast : r.last with
  | none =>
    have : r.denoted = r.sheet.denoted ++ r.first.text := by simp [Ref.denoted, Ref.coords, hlast]
    unfold refTok; rw [this]
    exact clean_of_noColon _ _ _ hpre
  | some c =>
    rw [hlast] at hl
    have hc : c.WF := hl
    have hden : r.denoted = (r.sheet.denoted ++ r.first.text) ++ ':' :: c.text := by
      simp [Ref.denoted, Ref.coords, hlast]
    have hpost : ':' ∉ c.text := noColon_cell c hc
    have hinf : ∀ p : List Char, 3 < p.length → (∀ x ∈ p, 'A' ≤ x ∧ x ≤ 'Z') →
        isInfix (':' :: p) r.denoted = false := by
      intro p hp1 hp2
      rw [hden, isInfix_skip _ _ _ hpre]
      simp only [isInfix, isInfix_colon_free p c.text hpost, Bool.or_false]
      simp [List.isPrefixOf, isPrefixOf_cell c hc p hp1 hp2]
    have h1 : isInfix ":OFFSET".toList r.denoted = false :=
      hinf "OFFSET".toList (by decide) (by decide)
    have h2 : isInfix ":INDEX".toList r.denoted = false :=
      hinf "INDEX".toList (by decide) (by decide)
    have h3 : startsColon r.denoted = false := by
      have hne : r.sheet.denoted ++ r.first.text ≠ [] := by
        intro e; simp only [List.append_eq_nil_iff] at e; exact cell_text_ne_nil _ hf e.2
      rw [hden]
      cases hp : r.sheet.denoted ++ r.first.text with
      | nil => exact absurd hp hne
      | cons x xs =>
        have hx : x ≠ ':' := fun e => hpre (by rw [hp, e]; simp)
        simp [startsColon, hx]
    unfold Clean badTok refTok
    simp only [h1, h2, h3, Bool.or_self, Bool.and_false]

/-! ### every token of a well-formed expression is clean -/

theorem clean_ptoks (e : Expr) : WF e → ∀ t ∈ ptoks e, Clean t := by
  induction e using Expr.ind with
  | num n p =>
    intro hwf t ht
    simp only [ptoks, List.mem_singleton] at ht
    subst ht
    cases p with
    | true => simp [numTok, Clean, badTok]
    | false => exact clean_of_noColon _ _ _ (noColon_numText n hwf.1)
  | str s => intro _ t ht; simp only [ptoks, List.mem_singleton] at ht; subst ht; simp [strTok, Clean, badTok]
  | bool b =>
    intro _ t ht; simp only [ptoks, List.mem_singleton] at ht; subst ht
    cases b <;> exact clean_of_noColon _ _ _ (by decide)
  | err c =>
    intro _ t ht; simp only [ptoks, List.mem_singleton] at ht; subst ht
    cases c <;> exact clean_of_noColon _ _ _ (by decide)
  | ref r => intro hwf t ht; simp only [ptoks, List.mem_singleton] at ht; subst ht; exact clean_ref r hwf
  | neg e ih =>
    intro hwf t ht
    simp only [ptoks, List.mem_cons] at ht
    rcases ht with rfl | ht
    · exact clean_of_noColon _ _ _ (by decide)
    · exact ih hwf.1 t ht
  | bin o l r ihl ihr =>
    intro hwf t ht
    simp only [ptoks, List.mem_append, List.mem_cons] at ht
    rcases ht with ht | rfl | ht
    · exact ihl hwf.1 t ht
    · cases o <;> exact clean_of_noColon _ _ _ (by decide)
    · exact ihr hwf.2.1 t ht
  | paren e ih =>
    intro hwf t ht
    simp only [ptoks, List.mem_append, List.mem_cons, List.mem_singleton, List.not_mem_nil, or_false] at ht
    rcases ht with (rfl | ht) | rfl
    · exact clean_of_noColon _ _ _ (by decide)
    · exact ih hwf t ht
    · exact clean_of_noColon _ _ _ (by decide)
  | call a f args ih =>
    intro hwf t ht
    simp only [WF] at hwf
    have hargs := (WFs_iff args).mp hwf.2
    have hA : ∀ (as : List Expr), (∀ x ∈ as, x ∈ args) → ∀ t ∈ ptoksArgs as, Clean t := by
      intro as
      induction as with
      | nil => intro _ t ht; cases ht
      | cons x xs ihx =>
        intro hsub t ht
        cases xs with
        | nil =>
          rw [ptoksArgs_single] at ht
          exact ih x (hsub x (by simp)) (hargs x (hsub x (by simp))) t ht
        | cons x' xs' =>
          rw [ptoksArgs_cons2] at ht
          simp only [List.mem_append, List.mem_cons] at ht
          rcases ht with ht | rfl | ht
          · exact ih x (hsub x (by simp)) (hargs x (hsub x (by simp))) t ht
          · exact clean_of_noColon _ _ _ (by decide)
          · exact ihx (fun y hy => hsub y (by simp [hy])) t ht
    simp only [ptoks, List.mem_cons, List.mem_append, List.mem_singleton, List.not_mem_nil, or_false] at ht
    rcases ht with (rfl | rfl | ht) | rfl
    · exact clean_of_noColon _ _ _ (noColon_name f hwf.1)
    · exact clean_of_noColon _ _ _ (by decide)
    · exact hA args (fun x hx => hx) t ht
    · exact clean_of_noColon _ _ _ (by decide)

/-- `sy_render`: the shunting yard on the token list of a well-formed `e` gives the RPN of its tree -/
theorem sy_toks (T : Tbl) (e : Expr) (hwf : WF e) : shuntingYard [] (toks e) = .ok (rpn e) := by
  unfold shuntingYard
  simp only [prepare_toks, needsReassembly_false _ (clean_ptoks e hwf), Bool.false_eq_true, if_false]
  exact sy_core T e hwf

/-- token level: from the token list of `e` to its tree -/
theorem parse_toks (T : Tbl) (e : Expr) (hwf : WF e) :
    (match shuntingYard [] (toks e) with
     | Except.error x => Except.error x
     | Except.ok nodes => buildAst nodes []) = .ok (astOf e) := by
  rw [sy_toks T e hwf]
  exact buildAst_rpn e

end XlVerif.Lemmas.C02
