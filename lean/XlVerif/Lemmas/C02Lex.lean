/-
  XlVerif.Lemmas.C02Lex — single-step and run lemmas for the character loop `lex` of
  `Model/Tokenizer.lean` (pass 1 of `getTokens`): plain characters, blank runs, operators, parentheses,
  commas, string literals of arbitrary content, quoted sheet names, error literals, percent and
  scientific-notation signs.
-/
import XlVerif.Lemmas.C02Toks
namespace XlVerif.Lemmas.C02
open XlVerif XlVerif.Model.Tokenizer XlVerif.Model.Parser XlVerif.Model.C02 XlVerif.Spec.C02

/-! ### the end of pass 1 -/

/-- what `pass1` does with the final lexer state: `if len(token) > 0: tokens.add(token, OPERAND)` -/
def fin (r : Except Err St) : Except Err (List Tok) :=
  match r with
  | .error e => .error e
  | .ok st => .ok (st.flushAs .operand).toks

theorem pass1_eq (f : List Char) : pass1 f = fin (lex .normal false {} (stripLeading f)) := rfl

/-! ### character classes (from the generated tokenizer constants) -/

theorem isOperatorChar_iff (c : Char) : isOperatorChar c = true ↔
    (c = '+' ∨ c = '-' ∨ c = '*' ∨ c = '/' ∨ c = '^' ∨ c = '&' ∨ c = '=' ∨ c = '>' ∨ c = '<') := by
  simp [isOperatorChar, Gen.tokOperators]

theorem isComparator_iff (a b : Char) : isComparator a b = true ↔
    ((a = '>' ∧ b = '=') ∨ (a = '<' ∧ b = '=') ∨ (a = '<' ∧ b = '>')) := by
  simp [isComparator, Gen.tokComparators]

/-- characters the loop just accumulates -/
def plainCh (c : Char) : Bool :=
  !isBlank c && c != '"' && c != '\'' && c != '[' && c != '#' && c != '{' && c != ';' && c != '}' &&
  !isOperatorChar c && c != '%' && c != '(' && c != ',' && c != ')'

theorem isBlank_iff (c : Char) : isBlank c = true ↔ (c = ' ' ∨ c = '\n') := by
  simp [isBlank]

/-! ### flushing -/

theorem flushAs_nil (st : St) (t : TType) (h : st.acc = []) : st.flushAs t = st := by
  simp [St.flushAs, h]

theorem flushAs_acc (st : St) (t : TType) : (st.flushAs t).acc = [] := by
  unfold St.flushAs; split <;> simp_all

theorem flush_flush (st : St) (t : TType) : (st.flushAs t).flushAs t = st.flushAs t :=
  flushAs_nil _ _ (flushAs_acc st t)

theorem flushAs_stack (st : St) (t : TType) : (st.flushAs t).stack = st.stack := by
  unfold St.flushAs; split <;> rfl

/-! ### plain characters -/

theorem lex_plain_char (st : St) (c : Char) (cs : List Char) (h : plainCh c = true) :
    lex .normal false st (c :: cs) = lex .normal false { st with acc := st.acc ++ [c] } cs := by
  simp only [plainCh, Bool.and_eq_true, Bool.not_eq_true', bne_iff_ne, ne_eq] at h
  obtain ⟨⟨⟨⟨⟨⟨⟨⟨⟨⟨⟨⟨h1, h2⟩, h3⟩, h4⟩, h5⟩, h6⟩, h7⟩, h8⟩, h9⟩, h10⟩, h11⟩, h12⟩, h13⟩ := h
  have hop := h9
  rw [Bool.eq_false_iff, ne_eq, isOperatorChar_iff] at hop
  have hplus : c ≠ '+' := fun e => hop (Or.inl e)
  have hminus : c ≠ '-' := fun e => hop (Or.inr (Or.inl e))
  have hcmp : ∀ d, isComparator c d = false := by
    intro d; rw [Bool.eq_false_iff, ne_eq, isComparator_iff]
    rintro (⟨e, _⟩ | ⟨e, _⟩ | ⟨e, _⟩) <;> exact hop (by simp [e])
  rw [lex]
  simp only [Bool.false_and, Bool.false_eq_true, if_false, hplus, hminus, decide_false, Bool.or_self, h1, h2, h3,
    h4, h5, h6, h7, h8, h9, h10, h11, h12, h13]
  cases cs with
  | nil => simp
  | cons d ds => simp [hcmp d]

theorem lex_plain (w : List Char) (hw : ∀ c ∈ w, plainCh c = true) (st : St) (rest : List Char) :
    lex .normal false st (w ++ rest) = lex .normal false { st with acc := st.acc ++ w } rest := by
  induction w generalizing st with
  | nil => simp
  | cons c w ih =>
    rw [List.cons_append, lex_plain_char _ _ _ (hw c (by simp)), ih (fun d hd => hw d (by simp [hd]))]
    simp

/-! ### blanks -/

def wsTok : Tok := tok [] .wspace

/-- the white-space token of a blank run: one token if the run is non-empty -/
def wsT (r : Run) : List Tok := if r = [] then [] else [wsTok]

theorem isBlank_sp (r : Run) : ∀ c ∈ sp r, isBlank c = true := by
  intro c hc
  simp only [sp, List.mem_map] at hc
  obtain ⟨b, _, rfl⟩ := hc
  cases b <;> decide

theorem lex_skip (st : St) (c : Char) (cs : List Char) (h : isBlank c = false) :
    lex .normal true st (c :: cs) = lex .normal false st (c :: cs) := by
  rw [lex, lex]; simp only [h, Bool.and_false, Bool.and_self, Bool.false_eq_true, if_false]

theorem lex_blank_skip (st : St) (c : Char) (cs : List Char) (h : isBlank c = true) :
    lex .normal true st (c :: cs) = lex .normal true st cs := by
  rw [lex]; simp [h]

theorem lex_blank (st : St) (c : Char) (cs : List Char) (h : isBlank c = true) (hacc : st.acc = []) :
    lex .normal false st (c :: cs) = lex .normal true { st with toks := st.toks ++ [wsTok] } cs := by
  rw [isBlank_iff] at h
  rcases h with rfl | rfl <;>
  · rw [lex]
    simp [isBlank, St.flushAs, hacc, St.emit, wsTok, isComparator, Gen.tokComparators, isOperatorChar, Gen.tokOperators]

theorem lex_sp_true (r : Run) (st : St) (c : Char) (cs : List Char) (hc : isBlank c = false) :
    lex .normal true st (sp r ++ c :: cs) = lex .normal false st (c :: cs) := by
  induction r with
  | nil => simpa [sp] using lex_skip st c cs hc
  | cons b r ih =>
    have hb : isBlank (if b = true then '\n' else ' ') = true := by cases b <;> decide
    simp only [sp, List.map_cons, List.cons_append] at ih ⊢
    rw [lex_blank_skip _ _ _ hb]; exact ih

theorem lex_sp_true_end (r : Run) (st : St) : lex .normal true st (sp r) = .ok st := by
  induction r with
  | nil => simp [sp, lex]
  | cons b r ih =>
    have hb : isBlank (if b = true then '\n' else ' ') = true := by cases b <;> decide
    simp only [sp, List.map_cons] at ih ⊢
    rw [lex_blank_skip _ _ _ hb]; exact ih

/-- a blank run before a non-blank character: one white-space token (none if the run is empty) -/
theorem lex_sp (r : Run) (st : St) (c : Char) (cs : List Char) (hc : isBlank c = false) (hacc : st.acc = []) :
    lex .normal false st (sp r ++ c :: cs) = lex .normal false { st with toks := st.toks ++ wsT r } (c :: cs) := by
  cases r with
  | nil => simp [sp, wsT]
  | cons b r =>
    have hb : isBlank (if b = true then '\n' else ' ') = true := by cases b <;> decide
    simp only [sp, List.map_cons, List.cons_append]
    rw [lex_blank _ _ _ hb hacc]
    have := lex_sp_true r { st with toks := st.toks ++ [wsTok] } c cs hc
    simp only [sp] at this
    rw [this]
    simp [wsT]

/-- a trailing blank run -/
theorem lex_sp_end (r : Run) (st : St) (hacc : st.acc = []) :
    lex .normal false st (sp r) = .ok { st with toks := st.toks ++ wsT r } := by
  cases r with
  | nil => simp [sp, wsT, lex]
  | cons b r =>
    have hb : isBlank (if b = true then '\n' else ' ') = true := by cases b <;> decide
    simp only [sp, List.map_cons]
    rw [lex_blank _ _ _ hb hacc]
    have := lex_sp_true_end r { st with toks := st.toks ++ [wsTok] }
    simp only [sp] at this
    rw [this]
    simp [wsT]

/-! ### operators -/

theorem lex_op1 (st : St) (c : Char) (cs : List Char) (hop : isOperatorChar c = true) (hacc : st.acc = [])
    (hcmp : ∀ d, cs.head? = some d → isComparator c d = false) :
    lex .normal false st (c :: cs) = lex .normal false { st with toks := st.toks ++ [tok [c] .opIn] } cs := by
  rw [isOperatorChar_iff] at hop
  cases cs with
  | nil =>
    rcases hop with rfl|rfl|rfl|rfl|rfl|rfl|rfl|rfl|rfl <;>
    · conv => lhs; rw [lex]
      simp [isBlank, St.flushAs, hacc, St.emit, isOperatorChar, Gen.tokOperators]
  | cons d ds =>
    have hc := hcmp d rfl
    rcases hop with rfl|rfl|rfl|rfl|rfl|rfl|rfl|rfl|rfl <;>
    · rw [lex]
      simp [isBlank, St.flushAs, hacc, St.emit, hc, isOperatorChar, Gen.tokOperators]

theorem lex_op2 (st : St) (c d : Char) (cs : List Char) (hcmp : isComparator c d = true) (hacc : st.acc = []) :
    lex .normal false st (c :: d :: cs) =
      lex .normal false { st with toks := st.toks ++ [tok [c, d] .opIn .logical] } cs := by
  rw [isComparator_iff] at hcmp
  rcases hcmp with ⟨rfl, rfl⟩ | ⟨rfl, rfl⟩ | ⟨rfl, rfl⟩ <;>
  · rw [lex]
    simp [isBlank, St.flushAs, hacc, St.emit, isComparator, Gen.tokComparators]

/-! ### parentheses, commas -/

theorem lex_lparen (st : St) (cs : List Char) (hacc : st.acc = []) :
    lex .normal false st ('(' :: cs) =
      lex .normal false { st with toks := st.toks ++ [tok [] .subexpr .start],
                                  stack := tok [] .subexpr .start :: st.stack } cs := by
  cases cs <;>
  · conv => lhs; rw [lex]
    simp [isBlank, hacc, St.push, isComparator, Gen.tokComparators, isOperatorChar, Gen.tokOperators]

theorem lex_fnparen (st : St) (cs : List Char) (hacc : st.acc ≠ []) :
    lex .normal false st ('(' :: cs) =
      lex .normal false { st with toks := st.toks ++ [tok st.acc .function .start],
                                  stack := tok st.acc .function .start :: st.stack, acc := [] } cs := by
  cases cs <;>
  · conv => lhs; rw [lex]
    simp [isBlank, hacc, isComparator, Gen.tokComparators, isOperatorChar, Gen.tokOperators]

theorem lex_rparen (st : St) (cs : List Char) (t : Tok) (stk : List Tok) (hacc : st.acc = [])
    (hstk : st.stack = t :: stk) :
    lex .normal false st (')' :: cs) =
      lex .normal false { st with toks := st.toks ++ [⟨.s [], t.t, .stop⟩], stack := stk } cs := by
  cases cs <;>
  · conv => lhs; rw [lex]
    simp [isBlank, hacc, St.flushAs, St.popStop, hstk, isComparator, Gen.tokComparators, isOperatorChar,
      Gen.tokOperators]

theorem lex_comma (st : St) (d : Char) (cs : List Char) (t : Tok) (stk : List Tok) (hacc : st.acc = [])
    (hstk : st.stack = t :: stk) (ht : t.t = .function) (hd : d ≠ ',') :
    lex .normal false st (',' :: d :: cs) =
      lex .normal false { st with toks := st.toks ++ [tok [','] .argument] } (d :: cs) := by
  rw [lex]
  simp [isBlank, hacc, St.flushAs, St.emit, hstk, ht, hd, isComparator, Gen.tokComparators, isOperatorChar,
    Gen.tokOperators]

/-! ### string literals of arbitrary content -/

theorem lex_quote (st : St) (cs : List Char) (hacc : st.acc = []) :
    lex .normal false st ('"' :: cs) = lex .inString false st cs := by
  rw [lex]
  simp [isBlank, hacc, St.flushAs]

/-- inside a string: the doubled-quote rendering of ANY text `s`, then the closing quote, followed by
    something that is not a quote, appends exactly `s` to the token and emits it as one text operand -/
theorem lex_inString (s : List Char) : ∀ (st : St) (rest : List Char), rest.head? ≠ some '"' →
    lex .inString false st (escape '"' s ++ '"' :: rest) =
      lex .normal false { st with toks := st.toks ++ [tok (st.acc ++ s) .operand .text], acc := [] } rest := by
  induction s with
  | nil =>
    intro st rest hr
    simp only [escape, List.nil_append, List.append_nil]
    rw [lex]
    simp [hr]
  | cons c s ih =>
    intro st rest hr
    by_cases hc : c = '"'
    · subst hc
      simp only [escape, if_true, List.cons_append]
      rw [lex]
      simp only [if_true, List.head?_cons, List.tail_cons]
      rw [ih _ _ hr]
      simp
    · simp only [escape, hc, if_false, List.cons_append]
      rw [lex]
      simp only [hc, if_false]
      rw [ih _ _ hr]
      simp

/-- `string_roundtrip`: lexing `"` ++ escape s ++ `"` in operand position yields exactly one text
    operand with value `s` — for ANY characters in `s` -/
theorem string_roundtrip (s : List Char) (st : St) (rest : List Char) (hacc : st.acc = [])
    (hr : rest.head? ≠ some '"') :
    lex .normal false st ('"' :: escape '"' s ++ '"' :: rest) =
      lex .normal false { st with toks := st.toks ++ [tok s .operand .text] } rest := by
  rw [List.cons_append, lex_quote _ _ hacc, lex_inString s st rest hr]
  simp [hacc]

/-! ### quoted sheet names -/

theorem lex_apos (st : St) (cs : List Char) (hacc : st.acc = []) :
    lex .normal false st ('\'' :: cs) = lex .inPath false st cs := by
  rw [lex]
  simp [isBlank, hacc, St.flushAs]

theorem lex_inPath (s : List Char) : ∀ (st : St) (rest : List Char), rest.head? ≠ some '\'' →
    lex .inPath false st (escape '\'' s ++ '\'' :: rest) =
      lex .normal false { st with acc := st.acc ++ s } rest := by
  induction s with
  | nil =>
    intro st rest hr
    simp only [escape, List.nil_append, List.append_nil]
    rw [lex]
    simp [hr]
  | cons c s ih =>
    intro st rest hr
    by_cases hc : c = '\''
    · subst hc
      simp only [escape, if_true, List.cons_append]
      rw [lex]
      simp only [if_true, List.head?_cons, List.tail_cons]
      rw [ih _ _ hr]
      simp
    · simp only [escape, hc, if_false, List.cons_append]
      rw [lex]
      simp only [hc, if_false]
      rw [ih _ _ hr]
      simp

/-- `quoted_sheet_roundtrip`: `'` ++ escape name ++ `'` puts exactly `name` into the token being
    accumulated (the reference text continues after it), for ANY characters in `name` -/
theorem quoted_sheet_roundtrip (s : List Char) (st : St) (rest : List Char) (hacc : st.acc = [])
    (hr : rest.head? ≠ some '\'') :
    lex .normal false st ('\'' :: escape '\'' s ++ '\'' :: rest) =
      lex .normal false { st with acc := s } rest := by
  rw [List.cons_append, lex_apos _ _ hacc, lex_inPath s st rest hr]
  simp [hacc]

/-! ### error literals -/

theorem lex_hash (st : St) (cs : List Char) (hacc : st.acc = []) :
    lex .normal false st ('#' :: cs) = lex .inError false { st with acc := ['#'] } cs := by
  rw [lex]
  simp [isBlank, hacc, St.flushAs]

/-- in error mode: characters accumulate until the token is one of the listed literals -/
theorem lex_inError (suf : List Char) : ∀ (pre : List Char) (st : St) (rest : List Char), suf ≠ [] →
    (∀ k, 0 < k → k < suf.length → isErrorLiteral (pre ++ suf.take k) = false) →
    isErrorLiteral (pre ++ suf) = true → st.acc = pre →
    lex .inError false st (suf ++ rest) =
      lex .normal false { st with toks := st.toks ++ [tok (pre ++ suf) .operand .error], acc := [] } rest := by
  induction suf with
  | nil => intro _ _ _ h; exact absurd rfl h
  | cons c suf ih =>
    intro pre st rest _ hpre hfull hacc
    rw [List.cons_append, lex]
    simp only [hacc]
    by_cases hs : suf = []
    · subst hs
      simp only [List.nil_append] at hfull ⊢
      simp [hfull]
    · have h1 : isErrorLiteral (pre ++ [c]) = false := by
        have := hpre 1 (by omega) (by
          cases suf with
          | nil => exact absurd rfl hs
          | cons _ _ => simp)
        simpa using this
      simp only [h1, Bool.false_eq_true, if_false]
      have := ih (pre ++ [c]) { st with acc := pre ++ [c] } rest hs
        (by
          intro k hk0 hk
          have := hpre (k + 1) (by omega) (by simp; omega)
          simpa using this)
        (by simpa using hfull) rfl
      rw [this]
      simp

/-- the error-literal table contains the seven codes, and no proper prefix of one is listed -/
def ErrTableOK (lits : List (List Char)) : Prop :=
  ∀ c : Code, ∃ suf, c.text = '#' :: suf ∧ suf ≠ [] ∧ lits.contains ('#' :: suf) = true ∧
    ∀ k, k < suf.length → 0 < k → lits.contains ('#' :: suf.take k) = false

theorem errlit_roundtrip (hT : ErrTableOK Gen.tokErrorLiterals) (c : Code) (st : St) (rest : List Char)
    (hacc : st.acc = []) :
    lex .normal false st (c.text ++ rest) =
      lex .normal false { st with toks := st.toks ++ [tok c.text .operand .error] } rest := by
  obtain ⟨suf, htext, hne, hfull, hpre⟩ := hT c
  rw [htext, List.cons_append, lex_hash _ _ hacc]
  have := lex_inError suf ['#'] { st with acc := ['#'] } rest hne
    (fun k hk0 hk => hpre k hk hk0) hfull rfl
  rw [this]
  simp [hacc]

/-! ### percent and scientific-notation signs -/

theorem lex_pct (st : St) (cs : List Char) (q : Rat) (hacc : st.acc ≠ []) (hq : percentOf st.acc = some q) :
    lex .normal false st ('%' :: cs) =
      lex .normal false { st with toks := st.toks ++ [⟨.f q, .operand, .none⟩], acc := [] } cs := by
  cases cs <;>
  · conv => lhs; rw [lex]
    simp [isBlank, hacc, hq, isComparator, Gen.tokComparators, isOperatorChar, Gen.tokOperators]

theorem lex_sn_sign (st : St) (c : Char) (cs : List Char) (hc : c = '+' ∨ c = '-') (hlen : st.acc.length > 1)
    (hsn : matchSN st.acc = true) :
    lex .normal false st (c :: cs) = lex .normal false { st with acc := st.acc ++ [c] } cs := by
  rcases hc with rfl | rfl <;>
  · rw [lex]
    simp [isBlank, hlen, hsn]

/-! ### delimiters flush the accumulator -/

/-- the accumulated token does not look like the start of a scientific-notation literal -/
def NoSN (acc : List Char) : Prop := ¬ (acc.length > 1 ∧ matchSN acc = true)

/-- what may follow an operand: nothing, a blank, an operator, `)` or `,` -/
def Delim : List Char → Prop
  | [] => True
  | c :: _ => isBlank c = true ∨ isOperatorChar c = true ∨ c = ')' ∨ c = ','

theorem fin_lex_delim (st : St) (rest : List Char) (hd : Delim rest) (hsn : NoSN st.acc) :
    fin (lex .normal false st rest) = fin (lex .normal false (st.flushAs .operand) rest) := by
  cases rest with
  | nil => simp [lex, fin, flush_flush]
  | cons c cs =>
    have hsn' : (decide (st.acc.length > 1) && matchSN st.acc) = false := by
      rw [Bool.eq_false_iff]; intro h; simp only [Bool.and_eq_true, decide_eq_true_eq] at h; exact hsn h
    have hacc := flushAs_acc st .operand
    simp only [Delim] at hd
    rw [isBlank_iff, isOperatorChar_iff] at hd
    congr 1
    rcases hd with (rfl|rfl) | (rfl|rfl|rfl|rfl|rfl|rfl|rfl|rfl|rfl) | rfl | rfl <;>
    · rw [lex, lex]
      simp [isBlank, hsn', hacc, flush_flush, flushAs_stack, isOperatorChar, Gen.tokOperators]

end XlVerif.Lemmas.C02
