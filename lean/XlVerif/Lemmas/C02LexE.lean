/-
  XlVerif.Lemmas.C02LexE — `lex_render`: the character loop on the rendering of any well-formed
  expression, with any blank placement, emits exactly its raw token list (continuation style:
  the rendering may be followed by any text that starts with a delimiter).
-/
import XlVerif.Lemmas.C02Pass
namespace XlVerif.Lemmas.C02
open XlVerif XlVerif.Model.Tokenizer XlVerif.Model.Parser XlVerif.Model.C02 XlVerif.Spec.C02

/-! ### names -/

theorem plain_of_nameCh {c : Char} (h : nameCh c = true) : plainCh c = true := by
  have hne : ∀ x ∈ specialChars, c ≠ x := by
    intro x hx e; subst e
    simp only [nameCh, Bool.not_eq_true', List.contains_eq_mem, decide_eq_false_iff_not] at h
    exact h hx
  have hop : isOperatorChar c = false := by
    rw [Bool.eq_false_iff, ne_eq, isOperatorChar_iff]
    rintro (e|e|e|e|e|e|e|e|e) <;> exact hne _ (by simp [specialChars]) e
  have hbl : isBlank c = false := by
    rw [Bool.eq_false_iff, ne_eq, isBlank_iff]
    rintro (e|e) <;> exact hne _ (by simp [specialChars]) e
  simp [plainCh, hop, hbl, hne '"' (by simp [specialChars]), hne '\'' (by simp [specialChars]),
    hne '[' (by simp [specialChars]), hne '#' (by simp [specialChars]), hne '{' (by simp [specialChars]),
    hne ';' (by simp [specialChars]), hne '}' (by simp [specialChars]), hne '%' (by simp [specialChars]),
    hne '(' (by simp [specialChars]), hne ',' (by simp [specialChars]), hne ')' (by simp [specialChars])]

/-- what the first character of an expression is not -/
def HeadOK (c : Char) : Prop := isBlank c = false ∧ c ≠ '=' ∧ c ≠ '>' ∧ c ≠ ','

theorem headOK_of_nameCh {c : Char} (h : nameCh c = true) : HeadOK c := by
  have hne : ∀ x ∈ specialChars, c ≠ x := by
    intro x hx e; subst e
    simp only [nameCh, Bool.not_eq_true', List.contains_eq_mem, decide_eq_false_iff_not] at h
    exact h hx
  refine ⟨?_, hne _ (by simp [specialChars]), hne _ (by simp [specialChars]), hne _ (by simp [specialChars])⟩
  rw [Bool.eq_false_iff, ne_eq, isBlank_iff]
  rintro (e|e) <;> exact hne _ (by simp [specialChars]) e

theorem headOK_digit {d : Nat} (h : d < 10) : HeadOK (digitChar d) := by
  rcases digit_cases h with rfl|rfl|rfl|rfl|rfl|rfl|rfl|rfl|rfl|rfl <;> (unfold HeadOK; decide)

theorem headOK_numHead {c : Char} (h : NumHead c) : HeadOK c := by
  rcases h with rfl | ⟨d, hd, rfl⟩
  · unfold HeadOK; decide
  · exact headOK_digit hd

theorem headOK_upper {c : Char} (h : 'A' ≤ c ∧ c ≤ 'Z') : HeadOK c := by
  have ne : ∀ x : Char, ¬ ('A' ≤ x ∧ x ≤ 'Z') → c ≠ x := fun x hx e => hx (e ▸ h)
  refine ⟨?_, ne _ (by decide), ne _ (by decide), ne _ (by decide)⟩
  rw [Bool.eq_false_iff, ne_eq, isBlank_iff]
  rintro (e|e) <;> exact ne _ (by decide) e

theorem body_head (e : Expr) (h : WF e) (b : Blanks) : ∃ c cs, body b e = c :: cs ∧ HeadOK c := by
  induction e using Expr.ind generalizing b with
  | num n p =>
    obtain ⟨c, s, hs, hc⟩ := numText_head n h.1
    exact ⟨c, s ++ (if p then ['%'] else []), by simp [body, hs], headOK_numHead hc⟩
  | str s => exact ⟨'"', escape '"' s ++ ['"'], by simp [body], by unfold HeadOK; decide⟩
  | bool b' =>
    cases b' with
    | true => exact ⟨'T', ['R', 'U', 'E'], by simp [body], by unfold HeadOK; decide⟩
    | false => exact ⟨'F', ['A', 'L', 'S', 'E'], by simp [body], by unfold HeadOK; decide⟩
  | err c =>
    have : ∃ tl, c.text = '#' :: tl := by cases c <;> exact ⟨_, rfl⟩
    obtain ⟨tl, htl⟩ := this
    exact ⟨'#', tl, by simp [body, htl], by unfold HeadOK; decide⟩
  | ref r =>
    obtain ⟨hs, hf, _⟩ := h
    obtain ⟨x, s, hx, hx'⟩ := cell_head _ hf
    have hxok : HeadOK x := by
      rcases hx' with rfl | hu
      · unfold HeadOK; decide
      · exact headOK_upper hu
    cases hsh : r.sheet with
    | none =>
      have hco : ∃ tl, r.coords = x :: tl := ⟨_, by unfold Ref.coords; rw [hx]; rfl⟩
      obtain ⟨tl, htl⟩ := hco
      exact ⟨x, tl, by simp [body, Ref.text, hsh, SheetQ.text, htl], hxok⟩
    | plain n =>
      rw [hsh] at hs
      obtain ⟨hne, hch⟩ := hs
      cases n with
      | nil => exact absurd rfl hne
      | cons c n' =>
        exact ⟨c, n' ++ ['!'] ++ r.coords, by simp [body, Ref.text, hsh, SheetQ.text],
          headOK_of_nameCh (hch c (by simp))⟩
    | quoted n =>
      exact ⟨'\'', escape '\'' n ++ ['\'', '!'] ++ r.coords, by simp [body, Ref.text, hsh, SheetQ.text],
        by unfold HeadOK; decide⟩
  | neg e _ => exact ⟨'-', sp (b.slot 0) ++ body (b.sub 0) e, by simp [body], by unfold HeadOK; decide⟩
  | bin o l r ihl _ =>
    obtain ⟨c, cs, h1, h2⟩ := ihl h.1 (b.sub 0)
    exact ⟨c, cs ++ sp (b.slot 0) ++ o.sym ++ sp (b.slot 1) ++ body (b.sub 1) r, by simp [body, h1], h2⟩
  | paren e _ =>
    exact ⟨'(', sp (b.slot 0) ++ body (b.sub 0) e ++ sp (b.slot 1) ++ [')'], by simp [body],
      by unfold HeadOK; decide⟩
  | call a f args _ =>
    simp only [WF] at h
    obtain ⟨hne, hch⟩ := h.1
    have : ∃ tl, body b (.call a f args) = (if a then ['@'] else []) ++ f ++ tl := by
      cases args with
      | nil => exact ⟨'(' :: (sp (b.slot 0) ++ [')']), by simp [body]⟩
      | cons x xs => exact ⟨'(' :: (bodyArgs b 0 (x :: xs) ++ [')']), by simp [body]⟩
    obtain ⟨tl, htl⟩ := this
    rw [htl]
    cases a with
    | true => exact ⟨'@', f ++ tl, by simp, by unfold HeadOK; decide⟩
    | false =>
      cases f with
      | nil => exact absurd rfl hne
      | cons c f' => exact ⟨c, f' ++ tl, by simp, headOK_of_nameCh (hch c (by simp))⟩

theorem bodyArgs_single (b : Blanks) (i : Nat) (a : Expr) :
    bodyArgs b i [a] = sp (b.slot (2 * i)) ++ body (b.sub i) a ++ sp (b.slot (2 * i + 1)) := by
  simp [bodyArgs]

theorem bodyArgs_cons2 (b : Blanks) (i : Nat) (a a' : Expr) (as : List Expr) :
    bodyArgs b i (a :: a' :: as) =
      sp (b.slot (2 * i)) ++ body (b.sub i) a ++ sp (b.slot (2 * i + 1)) ++ ',' :: bodyArgs b (i + 1) (a' :: as) := by
  simp [bodyArgs]

/-- what follows a comma: a blank or the first character of the next argument, never a comma -/
theorem bodyArgs_head (b : Blanks) (i : Nat) (a : Expr) (as : List Expr) (h : WF a) (x : List Char) :
    ∃ d ds, bodyArgs b i (a :: as) ++ x = d :: ds ∧ d ≠ ',' := by
  obtain ⟨c, cs, hc, hok⟩ := body_head a h (b.sub i)
  have : ∃ tl, bodyArgs b i (a :: as) = sp (b.slot (2 * i)) ++ (body (b.sub i) a ++ tl) := by
    cases as with
    | nil => exact ⟨_, by rw [bodyArgs_single, List.append_assoc]⟩
    | cons a' as' => exact ⟨_, by rw [bodyArgs_cons2, List.append_assoc, List.append_assoc]⟩
  obtain ⟨tl, htl⟩ := this
  rw [htl]
  cases hr : b.slot (2 * i) with
  | nil => exact ⟨c, cs ++ tl ++ x, by simp [sp, hc], hok.2.2.2⟩
  | cons y r' =>
    exact ⟨if y = true then '\n' else ' ', _, by simp only [sp, List.map_cons, List.cons_append]; rfl,
      by cases y <;> decide⟩

/-! ### delimiters -/

theorem delim_sp (r : Run) (c : Char) (cs : List Char) (h : Delim (c :: cs)) : Delim (sp r ++ c :: cs) := by
  cases r with
  | nil => simpa [sp] using h
  | cons x r =>
    simp only [sp, List.map_cons, List.cons_append, Delim]
    left; cases x <;> decide

theorem delim_sp_nil (r : Run) : Delim (sp r) := by
  cases r with
  | nil => simp [sp, Delim]
  | cons x r =>
    simp only [sp, List.map_cons, Delim]
    left; cases x <;> decide

theorem delim_not_quote (rest : List Char) (h : Delim rest) : rest.head? ≠ some '"' := by
  cases rest with
  | nil => simp
  | cons c cs =>
    simp only [Delim] at h
    rw [isBlank_iff, isOperatorChar_iff] at h
    simp only [List.head?_cons, ne_eq, Option.some.injEq]
    rintro rfl
    revert h; decide

/-! ### binary operators -/

theorem lex_binop (o : BinOp) (st : St) (cs : List Char) (hacc : st.acc = [])
    (hnext : ∀ d, cs.head? = some d → d ≠ '=' ∧ d ≠ '>') :
    lex .normal false st (o.sym ++ cs) = lex .normal false { st with toks := st.toks ++ [rawBin o] } cs := by
  have h1 : ∀ c : Char, isOperatorChar c = true →
      (∀ d, isComparator c d = true → d = '=' ∨ d = '>') →
      lex .normal false st (c :: cs) = lex .normal false { st with toks := st.toks ++ [tok [c] .opIn] } cs := by
    intro c hc hcmp
    apply lex_op1 _ _ _ hc hacc
    intro d hd
    rw [Bool.eq_false_iff]
    intro hcd
    have := hnext d hd
    rcases hcmp d hcd with e | e
    · exact this.1 e
    · exact this.2 e
  have hcmp : ∀ c d : Char, isComparator c d = true → d = '=' ∨ d = '>' := by
    intro c d h
    rw [isComparator_iff] at h
    rcases h with ⟨_, e⟩ | ⟨_, e⟩ | ⟨_, e⟩
    · exact Or.inl e
    · exact Or.inl e
    · exact Or.inr e
  cases o
  case pow => exact h1 '^' (by decide) (hcmp _)
  case mul => exact h1 '*' (by decide) (hcmp _)
  case div => exact h1 '/' (by decide) (hcmp _)
  case add => exact h1 '+' (by decide) (hcmp _)
  case sub => exact h1 '-' (by decide) (hcmp _)
  case cat => exact h1 '&' (by decide) (hcmp _)
  case eq => exact h1 '=' (by decide) (hcmp _)
  case lt => exact h1 '<' (by decide) (hcmp _)
  case gt => exact h1 '>' (by decide) (hcmp _)
  case ne => exact lex_op2 st '<' '>' cs (by decide) hacc
  case le => exact lex_op2 st '<' '=' cs (by decide) hacc
  case ge => exact lex_op2 st '>' '=' cs (by decide) hacc

/-! ### atoms -/

theorem plain_digits (ds : List Nat) (h : AllDigits ds) : ∀ c ∈ ds.map digitChar, plainCh c = true := by
  intro c hc
  obtain ⟨d, hd, rfl⟩ := List.mem_map.mp hc
  exact plain_digitChar (h d hd)

theorem plain_fracText (fp : Option (List Nat))
    (h : match fp with | none => True | some f => AllDigits f) :
    ∀ c ∈ fracText fp, plainCh c = true := by
  cases fp with
  | none => intro c hc; cases hc
  | some f =>
    intro c hc
    simp only [fracText, List.mem_cons] at hc
    rcases hc with rfl | hc
    · decide
    · exact plain_digits f h c hc

/-- the characters of a numeric literal all go into the token being accumulated (the exponent sign
    through the scientific-notation guard) -/
theorem lex_numText (n : NumLit) (h : n.WF) (st : St) (rest : List Char) (hacc : st.acc = []) :
    lex .normal false st (n.text ++ rest) = lex .normal false { st with acc := n.text } rest := by
  obtain ⟨hne, hip, hfp, hexp⟩ := h
  rw [numText_eq]
  simp only [List.append_assoc]
  rw [lex_plain _ (plain_digits n.ip hip), lex_plain _ (plain_fracText n.fp hfp)]
  cases he : n.exp with
  | none => simp [expText, hacc]
  | some x =>
    obtain ⟨ng, ds⟩ := x
    rw [he] at hexp
    obtain ⟨_, hds⟩ := hexp
    simp only [expText, List.cons_append]
    rw [lex_plain_char _ 'E' _ (by decide)]
    have hsn := matchSN_mant n.ip hip n.fp hfp hne
    have hlen : (n.ip.map digitChar ++ fracText n.fp).length ≥ 1 := by
      rcases hne with h1 | h1
      · cases hi : n.ip with
        | nil => exact absurd hi h1
        | cons _ _ => simp
      · cases hf : n.fp with
        | none => simp [NumLit.fdigits, hf] at h1
        | some f => simp [fracText]; omega
    rw [lex_sn_sign _ (if ng then '-' else '+') _ (by cases ng <;> simp)
      (by simp only [hacc, List.nil_append, List.length_append, List.length_cons, List.length_nil] at hlen ⊢; omega)
      (by simpa [hacc] using hsn)]
    rw [lex_plain _ (plain_digits ds hds)]
    simp [hacc]

/-- the characters of a reference text end up, unquoted, in the token being accumulated -/
theorem lex_refText (r : Ref) (h : r.WF) (st : St) (rest : List Char) (hacc : st.acc = []) :
    lex .normal false st (r.text ++ rest) = lex .normal false { st with acc := r.denoted } rest := by
  have hco : ∀ c ∈ r.coords, plainCh c = true := fun c hc => (coordCh_coords r h c hc).plain
  obtain ⟨hs, _, _⟩ := h
  unfold Ref.text Ref.denoted
  cases hsh : r.sheet with
  | none =>
    simp only [SheetQ.text, SheetQ.denoted, List.nil_append]
    rw [lex_plain _ hco]; simp [hacc]
  | plain n =>
    rw [hsh] at hs
    simp only [SheetQ.text, SheetQ.denoted, List.append_assoc]
    rw [lex_plain _ (fun c hc => plain_of_nameCh (hs.2 c hc)), List.cons_append, List.nil_append,
      lex_plain_char _ '!' _ (by decide), lex_plain _ hco]
    simp [hacc]
  | quoted n =>
    simp only [SheetQ.text, SheetQ.denoted, List.append_assoc, List.cons_append, List.nil_append]
    have := quoted_sheet_roundtrip n st ('!' :: (r.coords ++ rest)) hacc (by simp)
    simp only [List.cons_append, List.append_assoc] at this
    rw [this, lex_plain_char _ '!' _ (by decide), lex_plain _ hco]
    simp

/-! ### the main lemma -/

/-- table obligations and the percent-value fact the lexer lemma rests on -/
structure LexHyps : Prop where
  err : ErrTableOK Gen.tokErrorLiterals
  pct : ∀ n : NumLit, n.WF → n.PctOK → percentOf n.text = some (n.value / 100)

/-- `LexInv e`: lexing the text of `e` (any blanks), in a state with an empty token accumulator and
    followed by a delimiter, appends the raw tokens of `e` and restores the state otherwise -/
def LexInv (e : Expr) : Prop :=
  WF e → ∀ (b : Blanks) (st : St) (rest : List Char), st.acc = [] → Delim rest →
    fin (lex .normal false st (body b e ++ rest)) =
      fin (lex .normal false { st with toks := st.toks ++ raw b e } rest)

theorem flush_acc (st : St) (a : List Char) (ha : a ≠ []) (hacc : st.acc = []) :
    ({ st with acc := a } : St).flushAs .operand = { st with toks := st.toks ++ [tok a .operand] } := by
  simp [St.flushAs, ha, hacc]

theorem lexInv_args (H : LexHyps) (b : Blanks) (rest : List Char) :
    ∀ (args : List Expr), args ≠ [] → (∀ x ∈ args, LexInv x) → (∀ x ∈ args, WF x) →
      ∀ (i : Nat) (st : St) (t : Tok) (stk : List Tok), st.acc = [] → st.stack = t :: stk →
        t.t = .function →
        fin (lex .normal false st (bodyArgs b i args ++ ')' :: rest)) =
          fin (lex .normal false { st with toks := st.toks ++ rawArgs b i args } (')' :: rest)) := by
  intro args
  induction args with
  | nil => intro h; exact absurd rfl h
  | cons a as ih =>
    intro _ hP hwf i st t stk hacc hstk ht
    obtain ⟨c, cs, hc, hok⟩ := body_head a (hwf a (by simp)) (b.sub i)
    have hdr : Delim (')' :: rest) := Or.inr (Or.inr (Or.inl rfl))
    cases as with
    | nil =>
      rw [bodyArgs_single, rawArgs_single]
      simp only [List.append_assoc]
      rw [hc, List.cons_append, lex_sp _ _ c _ hok.1 hacc, ← List.cons_append, ← hc]
      rw [hP a (by simp) (hwf a (by simp)) (b.sub i) _ _ (by simp [hacc]) (delim_sp _ _ _ hdr)]
      rw [lex_sp _ _ ')' _ (by decide) (by simp [hacc])]
      simp [List.append_assoc]
    | cons a' as' =>
      rw [bodyArgs_cons2, rawArgs_cons2]
      simp only [List.append_assoc, List.cons_append]
      rw [hc, List.cons_append, lex_sp _ _ c _ hok.1 hacc, ← List.cons_append, ← hc]
      rw [hP a (by simp) (hwf a (by simp)) (b.sub i) _ _ (by simp [hacc])
        (delim_sp _ _ _ (Or.inr (Or.inr (Or.inr rfl))))]
      rw [lex_sp _ _ ',' _ (by decide) (by simp [hacc])]
      -- the comma: what follows is a blank or the head of the next argument
      obtain ⟨d, ds, hd, hdne⟩ := bodyArgs_head b (i + 1) a' as' (hwf a' (by simp)) (')' :: rest)
      rw [hd, lex_comma _ d ds t stk (by simp [hacc]) (by simp [hstk]) ht hdne, ← hd]
      rw [ih (by simp) (fun x hx => hP x (by simp [hx])) (fun x hx => hwf x (by simp [hx])) (i + 1) _ t stk
        (by simp [hacc]) (by simp [hstk]) ht]
      simp [List.append_assoc, commaTok, tok]

theorem lexInv (H : LexHyps) : ∀ e, LexInv e := by
  intro e
  induction e using Expr.ind with
  | num n p =>
    intro hwf b st rest hacc hd
    cases p with
    | true =>
      have hq := H.pct n hwf.1 (hwf.2 rfl)
      obtain ⟨d, s, hs, _⟩ := numText_head n hwf.1
      simp only [body, raw, if_true, List.append_assoc, List.cons_append, List.nil_append]
      rw [lex_numText n hwf.1 st _ hacc, lex_pct _ _ _ (by simp [hs]) (by simpa using hq)]
      simp [rawNum, hacc]
    | false =>
      simp only [body, raw, Bool.false_eq_true, if_false, List.append_nil]
      rw [lex_numText n hwf.1 st _ hacc]
      rw [fin_lex_delim _ _ hd (by simpa using noSN_numText n hwf.1)]
      rw [flush_acc st n.text (numText_ne_nil n hwf.1) hacc]
      simp [rawNum]
  | str s =>
    intro _ b st rest hacc hd
    simp only [body, raw, List.cons_append, List.append_assoc, List.nil_append]
    have := string_roundtrip s st rest hacc (delim_not_quote rest hd)
    simp only [List.cons_append] at this
    rw [this]
    rfl
  | bool b' =>
    intro _ b st rest hacc hd
    have hpl : ∀ c ∈ boolText b', plainCh c = true := by cases b' <;> decide
    have hsn : NoSN (boolText b') := by cases b' <;> (intro h; revert h; decide)
    have hb : body b (.bool b') = boolText b' := by cases b' <;> simp [body, boolText]
    rw [hb, lex_plain _ hpl]
    simp only [hacc, List.nil_append]
    rw [fin_lex_delim _ _ hd hsn, flush_acc st _ (by cases b' <;> simp [boolText]) hacc]
    simp [raw, rawBool, hacc]
  | err c =>
    intro _ b st rest hacc _
    simp only [body, raw]
    rw [errlit_roundtrip H.err c st rest hacc]
    rfl
  | ref r =>
    intro hwf b st rest hacc hd
    obtain ⟨q, d, hd', he⟩ := denoted_ends_digit r hwf
    simp only [body, raw]
    rw [lex_refText r hwf st rest hacc]
    rw [fin_lex_delim _ _ hd (by simpa [he] using noSN_ends_digit q d hd')]
    rw [flush_acc st r.denoted (by simp [he]) hacc]
    simp [rawRef]
  | neg e ih =>
    intro hwf b st rest hacc hd
    simp only [WF] at hwf
    obtain ⟨c, cs, hc, hok⟩ := body_head e hwf.1 (b.sub 0)
    simp only [body, raw, List.cons_append, List.append_assoc]
    rw [lex_op1 st '-' _ (by decide) hacc (by
      intro d _; rw [Bool.eq_false_iff, ne_eq, isComparator_iff]; rintro (⟨e, _⟩ | ⟨e, _⟩ | ⟨e, _⟩) <;> cases e)]
    rw [hc, List.cons_append, lex_sp _ _ c _ hok.1 (by simp [hacc]), ← List.cons_append, ← hc]
    rw [ih hwf.1 (b.sub 0) _ rest (by simp [hacc]) hd]
    simp [rawNeg, List.append_assoc]
  | bin o l r ihl ihr =>
    intro hwf b st rest hacc hd
    simp only [WF] at hwf
    obtain ⟨c, cs, hc, hok⟩ := body_head r hwf.2.1 (b.sub 1)
    simp only [body, raw, List.append_assoc]
    have hsym : ∃ x xs, o.sym = x :: xs ∧ isOperatorChar x = true := by
      cases o <;> exact ⟨_, _, rfl, by decide⟩
    obtain ⟨x, xs, hx, hxop⟩ := hsym
    have hdl : Delim (sp (b.slot 0) ++ (o.sym ++ (sp (b.slot 1) ++ (body (b.sub 1) r ++ rest)))) := by
      rw [hx, List.cons_append]
      exact delim_sp _ _ _ (Or.inr (Or.inl hxop))
    rw [ihl hwf.1 (b.sub 0) st _ hacc hdl]
    have hxb : isBlank x = false := by
      rw [isOperatorChar_iff] at hxop
      rcases hxop with rfl|rfl|rfl|rfl|rfl|rfl|rfl|rfl|rfl <;> decide
    rw [hx, List.cons_append, lex_sp _ _ x _ hxb (by simp [hacc]), ← List.cons_append, ← hx]
    rw [lex_binop o _ _ (by simp [hacc]) (by
      intro d hdh
      cases hr : b.slot 1 with
      | nil =>
        rw [hr, hc] at hdh
        simp only [sp, List.map_nil, List.nil_append, List.cons_append, List.head?_cons, Option.some.injEq] at hdh
        subst hdh; exact ⟨hok.2.1, hok.2.2.1⟩
      | cons y r' =>
        rw [hr] at hdh
        simp only [sp, List.map_cons, List.cons_append, List.head?_cons, Option.some.injEq] at hdh
        subst hdh; cases y <;> decide)]
    rw [hc, List.cons_append, lex_sp _ _ c _ hok.1 (by simp [hacc]), ← List.cons_append, ← hc]
    rw [ihr hwf.2.1 (b.sub 1) _ rest (by simp [hacc]) hd]
    simp [List.append_assoc]
  | paren e ih =>
    intro hwf b st rest hacc _
    simp only [WF] at hwf
    obtain ⟨c, cs, hc, hok⟩ := body_head e hwf (b.sub 0)
    simp only [body, raw, List.cons_append, List.append_assoc, List.nil_append]
    rw [lex_lparen st _ hacc]
    rw [hc, List.cons_append, lex_sp _ _ c _ hok.1 (by simp [hacc]), ← List.cons_append, ← hc]
    rw [ih hwf (b.sub 0) _ _ (by simp [hacc]) (delim_sp _ _ _ (Or.inr (Or.inr (Or.inl rfl))))]
    rw [lex_sp _ _ ')' _ (by decide) (by simp [hacc])]
    rw [lex_rparen _ _ (tok [] .subexpr .start) st.stack (by simp [hacc]) rfl]
    simp [lpTok, rpTok, tok, List.append_assoc]
  | call a f args ih =>
    intro hwf b st rest hacc _
    simp only [WF] at hwf
    have hargs := (WFs_iff args).mp hwf.2
    have hpl : ∀ c ∈ (if a then ['@'] else []) ++ f, plainCh c = true := by
      intro c hc
      rcases List.mem_append.mp hc with hc | hc
      · cases a <;> simp at hc; subst hc; decide
      · exact plain_of_nameCh (hwf.1.2 c hc)
    have hne : (if a then ['@'] else []) ++ f ≠ [] := by
      intro e; simp only [List.append_eq_nil_iff] at e; exact hwf.1.1 e.2
    simp only [body, raw, List.append_assoc, List.cons_append]
    rw [← List.append_assoc, lex_plain _ hpl]
    simp only [hacc, List.nil_append]
    rw [lex_fnparen _ _ (by simpa using hne)]
    simp only
    cases args with
    | nil =>
      simp only [List.append_assoc, List.cons_append, List.nil_append]
      rw [lex_sp _ _ ')' _ (by decide) rfl]
      rw [lex_rparen _ _ (rawFn a f) st.stack rfl (by simp [rawFn])]
      simp [rawFn, fnStop, tok, List.append_assoc]
    | cons x xs =>
      simp only [List.append_assoc, List.cons_append, List.nil_append]
      rw [lexInv_args H b rest (x :: xs) (by simp) ih hargs 0 _ (rawFn a f) st.stack rfl (by simp [rawFn])
        (by simp [rawFn, tok])]
      rw [lex_rparen _ _ (rawFn a f) st.stack rfl rfl]
      simp [rawFn, fnStop, tok, List.append_assoc]

end XlVerif.Lemmas.C02
