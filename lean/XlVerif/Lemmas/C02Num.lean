/-
  XlVerif.Lemmas.C02Num — what `float(token)` (the model's `pyFloatOfText`) says about the operand
  texts of a well-formed formula: every numeric literal converts (so pass 3 types it `number`), every
  reference text and TRUE/FALSE do not (so they become `range` / `logical`); the scientific-notation
  guard `matchSN` fires exactly inside scientific literals (any decimal mantissa, then `E±`).
  (The digit-scanner lemmas follow `Lemmas/C08Numeral.lean`.)
-/
import XlVerif.Lemmas.C02Lex
namespace XlVerif.Lemmas.C02
open XlVerif XlVerif.Model.Value XlVerif.Model.Tokenizer XlVerif.Spec.C02

/-! ### digit characters -/

theorem digit_cases {d : Nat} (h : d < 10) :
    d = 0 ∨ d = 1 ∨ d = 2 ∨ d = 3 ∨ d = 4 ∨ d = 5 ∨ d = 6 ∨ d = 7 ∨ d = 8 ∨ d = 9 := by omega

theorem isDigit_digitChar {d : Nat} (h : d < 10) : isDigit (digitChar d) = true := by
  rcases digit_cases h with rfl|rfl|rfl|rfl|rfl|rfl|rfl|rfl|rfl|rfl <;> decide

theorem digitVal_digitChar {d : Nat} (h : d < 10) : digitVal (digitChar d) = d := by
  rcases digit_cases h with rfl|rfl|rfl|rfl|rfl|rfl|rfl|rfl|rfl|rfl <;> decide

theorem isWs_digitChar {d : Nat} (h : d < 10) : isWs (digitChar d) = false := by
  rcases digit_cases h with rfl|rfl|rfl|rfl|rfl|rfl|rfl|rfl|rfl|rfl <;> decide

theorem digitChar_ne_sign {d : Nat} (h : d < 10) : digitChar d ≠ '+' ∧ digitChar d ≠ '-' := by
  rcases digit_cases h with rfl|rfl|rfl|rfl|rfl|rfl|rfl|rfl|rfl|rfl <;> decide

theorem lower_digitChar {d : Nat} (h : d < 10) : lower (digitChar d) = digitChar d := by
  rcases digit_cases h with rfl|rfl|rfl|rfl|rfl|rfl|rfl|rfl|rfl|rfl <;> decide

theorem digitChar_ne_in {d : Nat} (h : d < 10) : digitChar d ≠ 'i' ∧ digitChar d ≠ 'n' := by
  rcases digit_cases h with rfl|rfl|rfl|rfl|rfl|rfl|rfl|rfl|rfl|rfl <;> decide

theorem plain_digitChar {d : Nat} (h : d < 10) : plainCh (digitChar d) = true := by
  rcases digit_cases h with rfl|rfl|rfl|rfl|rfl|rfl|rfl|rfl|rfl|rfl <;> decide

theorem digitChar_not_eE {d : Nat} (h : d < 10) : digitChar d ≠ 'e' ∧ digitChar d ≠ 'E' := by
  rcases digit_cases h with rfl|rfl|rfl|rfl|rfl|rfl|rfl|rfl|rfl|rfl <;> decide

/-! ### `digitsUS` on a run of digit characters -/

/-- the text after a digit run does not continue it -/
def Stop (rest : List Char) : Prop := ∀ c s, rest = c :: s → isDigit c = false ∧ c ≠ '_'

theorem stop_nil : Stop [] := by intro c s h; cases h
theorem stop_dot (s : List Char) : Stop ('.' :: s) := by intro c s' h; cases h; decide
theorem stop_E (s : List Char) : Stop ('E' :: s) := by intro c s' h; cases h; decide

theorem go_cons_digit (acc k : Nat) (c : Char) (r : List Char) (h : isDigit c = true) :
    digitsUS.go acc k (c :: r) = digitsUS.go (acc * 10 + digitVal c) (k + 1) r := by
  rw [digitsUS.go.eq_def]; simp [h]

theorem go_stop (acc k : Nat) (rest : List Char) (hs : Stop rest) :
    digitsUS.go acc k rest = (acc, k, rest) := by
  cases rest with
  | nil => rw [digitsUS.go.eq_def]
  | cons c s =>
    obtain ⟨h1, h2⟩ := hs c s rfl
    rw [digitsUS.go.eq_def]; simp [h1, h2]

theorem go_digits (ds : List Nat) (hd : AllDigits ds) (rest : List Char) (hs : Stop rest) :
    ∀ acc k, digitsUS.go acc k (ds.map digitChar ++ rest) =
      (ds.foldl (fun a d => a * 10 + d) acc, k + ds.length, rest) := by
  induction ds with
  | nil => intro acc k; simpa using go_stop acc k rest hs
  | cons d ds ih =>
    intro acc k
    have hd0 : d < 10 := hd d (by simp)
    have ih' := ih (fun x hx => hd x (by simp [hx]))
    simp only [List.map_cons, List.cons_append]
    rw [go_cons_digit _ _ _ _ (isDigit_digitChar hd0), ih', digitVal_digitChar hd0]
    simp only [List.foldl_cons, List.length_cons]
    congr 2
    omega

theorem digitsUS_digits (ds : List Nat) (hne : ds ≠ []) (hd : AllDigits ds)
    (rest : List Char) (hs : Stop rest) :
    digitsUS (ds.map digitChar ++ rest) = some (digitsVal ds, ds.length, rest) := by
  cases ds with
  | nil => exact absurd rfl hne
  | cons d ds =>
    have hd0 : d < 10 := hd d (by simp)
    have h := go_digits ds (fun x hx => hd x (by simp [hx])) rest hs
    simp only [List.map_cons, List.cons_append, digitsUS, isDigit_digitChar hd0, if_true,
      digitVal_digitChar hd0, h, digitsVal, List.foldl_cons, List.length_cons]
    congr 3
    · simp
    · omega

theorem digitsUS_stop (rest : List Char) (hs : Stop rest) : digitsUS rest = none := by
  cases rest with
  | nil => rfl
  | cons c s =>
    obtain ⟨h1, _⟩ := hs c s rfl
    simp [digitsUS, h1]

theorem foldl_digits (fp : List Nat) : ∀ acc : Nat,
    fp.foldl (fun a d => a * 10 + d) acc =
      acc * 10 ^ fp.length + fp.foldl (fun a d => a * 10 + d) 0 := by
  induction fp with
  | nil => intro acc; simp
  | cons d fp ih =>
    intro acc
    simp only [List.foldl_cons, List.length_cons]
    rw [ih (acc * 10 + d), ih (0 * 10 + d)]
    simp only [Nat.zero_mul, Nat.zero_add, Nat.pow_succ, Nat.add_mul]
    rw [Nat.mul_assoc, Nat.mul_comm 10, Nat.add_assoc]

theorem digitsVal_append (ip fp : List Nat) :
    digitsVal (ip ++ fp) = digitsVal ip * 10 ^ fp.length + digitsVal fp := by
  simp only [digitsVal, List.foldl_append]
  exact foldl_digits fp _

/-! ### `strip`, `signOf` -/

theorem stripL_cons_nonws (c : Char) (s : List Char) (h : isWs c = false) : stripL (c :: s) = c :: s := by
  simp [stripL, h]

theorem strip_nonws (body : List Char) (hws : ∀ c ∈ body, isWs c = false) : strip body = body := by
  unfold strip
  cases body with
  | nil => rfl
  | cons c s =>
    rw [stripL_cons_nonws c _ (hws c (by simp))]
    cases hr : (c :: s).reverse with
    | nil => simp at hr
    | cons c' s' =>
      have hmem : c' ∈ c :: s := by
        have : c' ∈ (c :: s).reverse := by rw [hr]; simp
        exact List.mem_reverse.mp this
      rw [stripL_cons_nonws c' s' (hws c' hmem), ← hr, List.reverse_reverse]

theorem signOf_noSign (rest : List Char) (h : ∀ c s, rest = c :: s → c ≠ '+' ∧ c ≠ '-') :
    signOf rest = (1, rest) := by
  rw [signOf.eq_3]
  · intro s hs; exact (h _ _ hs).1 rfl
  · intro s hs; exact (h _ _ hs).2 rfl

/-! ### `pyFloatOfText`, decomposed -/

def mantOf (r : List Char) : Option (Nat × Nat × List Char) :=
  match digitsUS r with
  | some (iv, _, '.' :: r1) =>
    (match digitsUS r1 with
     | some (fv, fn, r2) => some (iv * 10 ^ fn + fv, fn, r2)
     | Option.none => some (iv, 0, r1))
  | some (iv, _, r1) => some (iv, 0, r1)
  | Option.none =>
    match r with
    | '.' :: r1 => (match digitsUS r1 with
                    | some (fv, fn, r2) => some (fv, fn, r2)
                    | Option.none => Option.none)
    | _ => Option.none

def finOf (sg : Int) (m fn : Nat) (e : Int) : Option PyFloat :=
  let q : Rat := (sg : Rat) * (m : Rat) * Model.Value.pow10 (e - fn)
  if q ≥ floatMax ∨ q ≤ -floatMax then some .nonfinite else some (.fin q)

def tailOf (sg : Int) (m fn : Nat) (rest : List Char) : Option PyFloat :=
  match rest with
  | [] => finOf sg m fn 0
  | c :: r3 =>
    if c = 'e' ∨ c = 'E' then
      let (es, r4) := signOf r3
      match digitsUS r4 with
      | some (ev, _, []) => finOf sg m fn (es * ev)
      | _ => Option.none
    else Option.none

theorem pyFloatOfText_eq (t : List Char) :
    pyFloatOfText t =
      (let (sg, r) := signOf (strip t)
       let lw := r.map lower
       if lw = "inf".toList ∨ lw = "infinity".toList ∨ lw = "nan".toList then some .nonfinite else
       match mantOf r with
       | Option.none => Option.none
       | some (m, fn, rest) => tailOf sg m fn rest) := rfl

theorem finOf_isSome (sg : Int) (m fn : Nat) (e : Int) : (finOf sg m fn e).isSome = true := by
  unfold finOf; dsimp only; split <;> rfl

theorem mantOf_int (ip : List Nat) (hne : ip ≠ []) (hd : AllDigits ip) (tail : List Char)
    (hs : Stop tail) (hnd : ∀ s, tail ≠ '.' :: s) :
    mantOf (ip.map digitChar ++ tail) = some (digitsVal ip, 0, tail) := by
  unfold mantOf
  rw [digitsUS_digits ip hne hd tail hs]
  split
  · rename_i h; simp only [Option.some.injEq, Prod.mk.injEq] at h
    exact absurd h.2.2 (hnd _)
  · rename_i h; simp only [Option.some.injEq, Prod.mk.injEq] at h
    obtain ⟨rfl, -, rfl⟩ := h; rfl
  · rename_i h; cases h

theorem mantOf_int_frac (ip : List Nat) (hne : ip ≠ []) (hd : AllDigits ip)
    (fp : List Nat) (hnf : fp ≠ []) (hf : AllDigits fp) (tail : List Char) (hs : Stop tail) :
    mantOf (ip.map digitChar ++ '.' :: (fp.map digitChar ++ tail)) =
      some (digitsVal ip * 10 ^ fp.length + digitsVal fp, fp.length, tail) := by
  unfold mantOf
  rw [digitsUS_digits ip hne hd _ (stop_dot _)]
  simp only [digitsUS_digits fp hnf hf tail hs]

theorem mantOf_int_dot (ip : List Nat) (hne : ip ≠ []) (hd : AllDigits ip) (tail : List Char)
    (hs : Stop tail) :
    mantOf (ip.map digitChar ++ '.' :: tail) = some (digitsVal ip, 0, tail) := by
  unfold mantOf
  rw [digitsUS_digits ip hne hd _ (stop_dot tail)]
  simp only [digitsUS_stop tail hs]

theorem mantOf_frac (fp : List Nat) (hnf : fp ≠ []) (hf : AllDigits fp) (tail : List Char)
    (hs : Stop tail) :
    mantOf ('.' :: (fp.map digitChar ++ tail)) = some (digitsVal fp, fp.length, tail) := by
  unfold mantOf
  rw [digitsUS_stop _ (stop_dot _)]
  simp only [digitsUS_digits fp hnf hf tail hs]

/-! ### numeric literals -/

/-- the exponent part of a literal -/
def expText : Option (Bool × List Nat) → List Char
  | none => []
  | some (neg, ds) => 'E' :: (if neg then '-' else '+') :: ds.map digitChar

def expVal : Option (Bool × List Nat) → Int
  | none => 0
  | some (neg, ds) => (if neg then -1 else 1) * (digitsVal ds : Int)

def fracText : Option (List Nat) → List Char
  | none => []
  | some f => '.' :: f.map digitChar

theorem numText_eq (n : NumLit) : n.text = n.ip.map digitChar ++ (fracText n.fp ++ expText n.exp) := by
  unfold NumLit.text fracText expText
  cases n.fp <;> cases n.exp <;> simp
  all_goals (rename_i x; obtain ⟨a, b⟩ := x; simp)

theorem stop_expText (e) : Stop (expText e) := by
  cases e with
  | none => exact stop_nil
  | some x => exact stop_E _

theorem tailOf_expText (sg : Int) (m fn : Nat) (e : Option (Bool × List Nat))
    (he : match e with | none => True | some (_, ds) => ds ≠ [] ∧ AllDigits ds) :
    tailOf sg m fn (expText e) = finOf sg m fn (expVal e) := by
  cases e with
  | none => rfl
  | some x =>
    obtain ⟨neg, ds⟩ := x
    obtain ⟨hne, hd⟩ := he
    have hns : ∀ c s, ds.map digitChar = c :: s → c ≠ '+' ∧ c ≠ '-' := by
      intro c s h
      cases ds with
      | nil => exact absurd rfl hne
      | cons d ds' =>
        simp only [List.map_cons, List.cons.injEq] at h
        rw [← h.1]; exact digitChar_ne_sign (hd d (by simp))
    have h1 : signOf ((if neg then '-' else '+') :: ds.map digitChar) =
        ((if neg then -1 else 1), ds.map digitChar) := by
      cases neg <;> simp [signOf]
    have h2 : digitsUS (ds.map digitChar) = some (digitsVal ds, ds.length, []) := by
      simpa using digitsUS_digits ds hne hd [] stop_nil
    simp only [tailOf, expText, or_true, if_true, h1, h2, expVal]

theorem isWs_numText (n : NumLit) (h : n.WF) : ∀ c ∈ n.text, isWs c = false := by
  obtain ⟨_, hip, hfp, hexp⟩ := h
  intro c hc
  rw [numText_eq] at hc
  have hdig : ∀ ds : List Nat, AllDigits ds → c ∈ ds.map digitChar → isWs c = false := by
    intro ds hds hm
    obtain ⟨d, hd', rfl⟩ := List.mem_map.mp hm
    exact isWs_digitChar (hds d hd')
  simp only [List.mem_append] at hc
  rcases hc with hc | hc | hc
  · exact hdig _ hip hc
  · cases hf : n.fp with
    | none => rw [hf] at hc; cases hc
    | some f =>
      rw [hf] at hc hfp
      simp only [fracText, List.mem_cons] at hc
      rcases hc with rfl | hc
      · decide
      · exact hdig _ hfp hc
  · cases he : n.exp with
    | none => rw [he] at hc; cases hc
    | some x =>
      obtain ⟨ng, ds⟩ := x
      rw [he] at hc hexp
      simp only [expText, List.mem_cons] at hc
      rcases hc with rfl | rfl | hc
      · decide
      · cases ng <;> decide
      · exact hdig _ hexp.2 hc

/-- the first character of a literal: a digit or the point -/
def NumHead (c : Char) : Prop := c = '.' ∨ ∃ d, d < 10 ∧ c = digitChar d

theorem NumHead.ne_sign {c : Char} (h : NumHead c) : c ≠ '+' ∧ c ≠ '-' := by
  rcases h with rfl | ⟨d, hd, rfl⟩
  · decide
  · exact digitChar_ne_sign hd

theorem NumHead.lower {c : Char} (h : NumHead c) : lower c = c := by
  rcases h with rfl | ⟨d, hd, rfl⟩
  · decide
  · exact lower_digitChar hd

theorem NumHead.ne_in {c : Char} (h : NumHead c) : c ≠ 'i' ∧ c ≠ 'n' := by
  rcases h with rfl | ⟨d, hd, rfl⟩
  · decide
  · exact digitChar_ne_in hd

/-- the head of a literal is a digit or the point -/
theorem numText_head (n : NumLit) (h : n.WF) : ∃ c s, n.text = c :: s ∧ NumHead c := by
  obtain ⟨hne, hip, _, _⟩ := h
  rw [numText_eq]
  cases hi : n.ip with
  | cons d ds => exact ⟨digitChar d, _, rfl, Or.inr ⟨d, hip d (by simp [hi]), rfl⟩⟩
  | nil =>
    cases hf : n.fp with
    | none => simp [NumLit.fdigits, hi, hf] at hne
    | some f => exact ⟨'.', f.map digitChar ++ expText n.exp, rfl, Or.inl rfl⟩

theorem numText_ne_nil (n : NumLit) (h : n.WF) : n.text ≠ [] := by
  obtain ⟨c, s, hs, _⟩ := numText_head n h
  rw [hs]; simp

/-- the mantissa scanner on the mantissa of every well-formed literal -/
theorem mantOf_lit (n : NumLit) (h : n.WF) (tail : List Char) (hs : Stop tail) (hnd : ∀ s, tail ≠ '.' :: s) :
    mantOf (n.ip.map digitChar ++ (fracText n.fp ++ tail)) =
      some (digitsVal (n.ip ++ n.fdigits), n.fdigits.length, tail) := by
  obtain ⟨hne, hip, hfp, _⟩ := h
  cases hf : n.fp with
  | none =>
    have hi : n.ip ≠ [] := by simpa [NumLit.fdigits, hf] using hne
    simp only [fracText, List.nil_append, NumLit.fdigits, hf, List.append_nil, List.length_nil]
    exact mantOf_int n.ip hi hip _ hs hnd
  | some f =>
    rw [hf] at hfp
    simp only [NumLit.fdigits, hf] at hne
    simp only [fracText, List.cons_append, NumLit.fdigits, hf]
    by_cases hi : n.ip = []
    · have hf' : f ≠ [] := by simpa [hi] using hne
      rw [hi]
      simpa using mantOf_frac f hf' hfp tail hs
    · by_cases hf' : f = []
      · subst hf'
        simpa using mantOf_int_dot n.ip hi hip tail hs
      · rw [mantOf_int_frac n.ip hi hip f hf' hfp tail hs, digitsVal_append]

theorem pyFloat_numText (n : NumLit) (h : n.WF) :
    pyFloatOfText n.text =
      finOf 1 (digitsVal (n.ip ++ n.fdigits)) n.fdigits.length (expVal n.exp) := by
  have hws := isWs_numText n h
  obtain ⟨c0, s, hhead, hc0⟩ := numText_head n h
  have hm := mantOf_lit n h
  obtain ⟨hne, hip, hfp, hexp⟩ := h
  rw [pyFloatOfText_eq, strip_nonws _ hws]
  have hsign : signOf n.text = (1, n.text) := by
    apply signOf_noSign
    intro c s' hc
    rw [hhead] at hc; cases hc; exact hc0.ne_sign
  have hinf : ¬ (n.text.map lower = "inf".toList ∨ n.text.map lower = "infinity".toList ∨
      n.text.map lower = "nan".toList) := by
    have e1 : "inf".toList = ['i', 'n', 'f'] := rfl
    have e2 : "infinity".toList = ['i', 'n', 'f', 'i', 'n', 'i', 't', 'y'] := rfl
    have e3 : "nan".toList = ['n', 'a', 'n'] := rfl
    rw [e1, e2, e3, hhead]
    simp only [List.map_cons, hc0.lower, List.cons.injEq]
    have := hc0.ne_in
    simp [this.1, this.2]
  simp only [hsign, hinf, if_false]
  have hexp' : match n.exp with | none => True | some (_, ds) => ds ≠ [] ∧ AllDigits ds := by
    cases he : n.exp with
    | none => trivial
    | some x => obtain ⟨ng, ds⟩ := x; rw [he] at hexp; exact ⟨hexp.1, hexp.2⟩
  have hnd : ∀ s, expText n.exp ≠ '.' :: s := by
    intro s; cases n.exp with
    | none => simp [expText]
    | some x => obtain ⟨ng, ds⟩ := x; simp [expText]
  rw [numText_eq, hm _ (stop_expText _) hnd]
  exact tailOf_expText _ _ _ _ hexp'

/-- pass 3 types every numeric literal as a number -/
theorem floatOk_numText (n : NumLit) (h : n.WF) : floatOk (.s n.text) = true := by
  simp only [floatOk, pyFloat_numText n h, finOf_isSome]

/-! ### texts that are not numbers -/

theorem pyFloat_none_of_head (t : List Char) (c : Char) (s : List Char) (ht : t = c :: s)
    (hws : ∀ x ∈ t, isWs x = false) (h1 : isDigit c = false) (h2 : c ≠ '.') (h3 : c ≠ '+') (h4 : c ≠ '-')
    (hinf : ¬ (t.map lower = "inf".toList ∨ t.map lower = "infinity".toList ∨ t.map lower = "nan".toList)) :
    pyFloatOfText t = none := by
  rw [pyFloatOfText_eq, strip_nonws _ hws]
  have hsign : signOf t = (1, t) := by
    apply signOf_noSign
    intro c' s' hc
    rw [ht] at hc; cases hc; exact ⟨h3, h4⟩
  simp only [hsign, hinf, if_false]
  have : mantOf t = none := by
    have hd : digitsUS t = none := by rw [ht]; simp [digitsUS, h1]
    simp only [mantOf, hd]
    rw [ht]
    split
    · rename_i r1 heq; simp only [List.cons.injEq] at heq; exact absurd heq.1 h2
    · rfl
  rw [this]

/-- a text containing `!` is no number: the digit scanner never consumes a `!` -/
theorem digitsUS_go_suffix (acc k : Nat) (s : List Char) :
    ∃ pre, s = pre ++ (digitsUS.go acc k s).2.2 ∧ ∀ c ∈ pre, c ≠ '!' := by
  fun_induction digitsUS.go acc k s with
  | case1 acc k => exact ⟨[], rfl, by simp⟩
  | case2 acc k d r hd ih =>
    obtain ⟨pre, h1, h2⟩ := ih
    refine ⟨d :: pre, by simp [← h1], ?_⟩
    intro c hc
    rcases List.mem_cons.mp hc with rfl | hc
    · intro e; subst e; revert hd; decide
    · exact h2 c hc
  | case3 acc k e r' he _ ih =>
    obtain ⟨pre, h1, h2⟩ := ih
    refine ⟨'_' :: e :: pre, by simp [← h1], ?_⟩
    intro c hc
    simp only [List.mem_cons] at hc
    rcases hc with rfl | rfl | hc
    · decide
    · intro e'; subst e'; revert he; decide
    · exact h2 c hc
  | case4 => exact ⟨[], by simp, by simp⟩
  | case5 => exact ⟨[], by simp, by simp⟩
  | case6 => exact ⟨[], by simp, by simp⟩

theorem has_go (acc k : Nat) (s : List Char) (h : '!' ∈ s) : '!' ∈ (digitsUS.go acc k s).2.2 := by
  obtain ⟨pre, h1, h2⟩ := digitsUS_go_suffix acc k s
  rw [h1] at h
  rcases List.mem_append.mp h with h | h
  · exact absurd rfl (h2 _ h)
  · exact h

theorem has_digitsUS (s : List Char) (v n : Nat) (rest : List Char) (h : '!' ∈ s)
    (hd : digitsUS s = some (v, n, rest)) : '!' ∈ rest := by
  cases s with
  | nil => cases h
  | cons c s' =>
    simp only [digitsUS] at hd
    by_cases hc : isDigit c = true
    · simp only [hc, if_true, Option.some.injEq] at hd
      have hne : c ≠ '!' := by intro e; subst e; revert hc; decide
      have hs' : '!' ∈ s' := by
        rcases List.mem_cons.mp h with e | h
        · exact absurd e.symm hne
        · exact h
      have := has_go (digitVal c) 1 s' hs'
      rw [hd] at this
      exact this
    · simp [hc] at hd

theorem has_stripL (s : List Char) (h : '!' ∈ s) : '!' ∈ stripL s := by
  induction s with
  | nil => cases h
  | cons c s ih =>
    simp only [stripL]
    by_cases hc : isWs c = true
    · simp only [hc, if_true]
      rcases List.mem_cons.mp h with e | h
      · subst e; exact absurd hc (by decide)
      · exact ih h
    · simp only [hc, Bool.false_eq_true, if_false]; exact h

theorem has_strip (s : List Char) (h : '!' ∈ s) : '!' ∈ strip s := by
  unfold strip
  exact List.mem_reverse.mpr (has_stripL _ (List.mem_reverse.mpr (has_stripL _ h)))

theorem has_signOf (s : List Char) (h : '!' ∈ s) : '!' ∈ (signOf s).2 := by
  unfold signOf
  split
  · rcases List.mem_cons.mp h with e | h
    · cases e
    · exact h
  · rcases List.mem_cons.mp h with e | h
    · cases e
    · exact h
  · exact h

theorem mantOf_has (r : List Char) (m fn : Nat) (rest : List Char) (h : '!' ∈ r)
    (hm : mantOf r = some (m, fn, rest)) : '!' ∈ rest := by
  unfold mantOf at hm
  cases hd : digitsUS r with
  | some x =>
    obtain ⟨iv, n, r0⟩ := x
    have h0 := has_digitsUS r _ _ _ h hd
    rw [hd] at hm
    by_cases hdot : ∃ r1, r0 = '.' :: r1
    · obtain ⟨r1, rfl⟩ := hdot
      have h1' : '!' ∈ r1 := by
        rcases List.mem_cons.mp h0 with e | h1
        · cases e
        · exact h1
      simp only at hm
      cases hd2 : digitsUS r1 with
      | some y =>
        obtain ⟨fv, fn', r2⟩ := y
        rw [hd2] at hm
        simp only [Option.some.injEq, Prod.mk.injEq] at hm
        rw [← hm.2.2]; exact has_digitsUS r1 _ _ _ h1' hd2
      | none =>
        rw [hd2] at hm
        simp only [Option.some.injEq, Prod.mk.injEq] at hm
        rw [← hm.2.2]; exact h1'
    · have : (match (some (iv, n, r0) : Option (Nat × Nat × List Char)) with
          | some (iv, _, '.' :: r1) =>
            (match digitsUS r1 with
             | some (fv, fn, r2) => some (iv * 10 ^ fn + fv, fn, r2)
             | Option.none => some (iv, 0, r1))
          | some (iv, _, r1) => some (iv, 0, r1)
          | Option.none => Option.none) = some (iv, 0, r0) := by
        split
        · rename_i heq; simp only [Option.some.injEq, Prod.mk.injEq] at heq
          exact absurd ⟨_, heq.2.2⟩ hdot
        · rename_i heq; simp only [Option.some.injEq, Prod.mk.injEq] at heq
          obtain ⟨rfl, -, rfl⟩ := heq; rfl
        · rename_i heq; cases heq
      cases r0 with
      | nil => cases h0
      | cons c0 r0' =>
        have hc0 : c0 ≠ '.' := fun e => hdot ⟨r0', by rw [e]⟩
        split at hm
        · rename_i heq; simp only [Option.some.injEq, Prod.mk.injEq, List.cons.injEq] at heq
          exact absurd heq.2.2.1 hc0
        · rename_i heq; simp only [Option.some.injEq, Prod.mk.injEq] at heq
          simp only [Option.some.injEq, Prod.mk.injEq] at hm
          rw [← hm.2.2, ← heq.2.2]; exact h0
        · rename_i heq; cases heq
  | none =>
    rw [hd] at hm
    simp only at hm
    cases r with
    | nil => cases h
    | cons c r1 =>
      by_cases hc : c = '.'
      · subst hc
        have h1' : '!' ∈ r1 := by
          rcases List.mem_cons.mp h with e | h1
          · cases e
          · exact h1
        simp only at hm
        cases hd2 : digitsUS r1 with
        | some y =>
          obtain ⟨fv, fn', r2⟩ := y
          rw [hd2] at hm
          simp only [Option.some.injEq, Prod.mk.injEq] at hm
          rw [← hm.2.2]; exact has_digitsUS r1 _ _ _ h1' hd2
        | none => rw [hd2] at hm; cases hm
      · split at hm
        · rename_i heq; simp only [List.cons.injEq] at heq; exact absurd heq.1 hc
        · cases hm

theorem tailOf_has (sg : Int) (m fn : Nat) (rest : List Char) (h : '!' ∈ rest) :
    tailOf sg m fn rest = none := by
  unfold tailOf
  cases rest with
  | nil => cases h
  | cons c r3 =>
    simp only
    by_cases hc : c = 'e' ∨ c = 'E'
    · simp only [hc, if_true]
      have h3 : '!' ∈ r3 := by
        rcases List.mem_cons.mp h with e | h
        · subst e; rcases hc with hc | hc <;> cases hc
        · exact h
      have h4 := has_signOf r3 h3
      cases hs : signOf r3 with
      | mk es r4 =>
        rw [hs] at h4
        simp only
        cases hd : digitsUS r4 with
        | none => rfl
        | some x =>
          obtain ⟨ev, n, rr⟩ := x
          have := has_digitsUS r4 _ _ _ h4 hd
          cases rr with
          | nil => cases this
          | cons _ _ => rfl
    · simp only [hc, if_false]

/-- `float(text)` fails for every text containing `!` (every sheet-qualified reference) -/
theorem pyFloat_bang (t : List Char) (h : '!' ∈ t) : pyFloatOfText t = none := by
  rw [pyFloatOfText_eq]
  have h1 := has_signOf _ (has_strip t h)
  cases hs : signOf (strip t) with
  | mk sg r =>
    rw [hs] at h1
    simp only at h1 ⊢
    have hinf : ¬ (r.map lower = "inf".toList ∨ r.map lower = "infinity".toList ∨
        r.map lower = "nan".toList) := by
      have hm : '!' ∈ r.map lower := List.mem_map.mpr ⟨'!', h1, by decide⟩
      rintro (e | e | e) <;> (rw [e] at hm; revert hm; decide)
    simp only [hinf, if_false]
    cases hm : mantOf r with
    | none => rfl
    | some x =>
      obtain ⟨m, fn, rest⟩ := x
      exact tailOf_has _ _ _ _ (mantOf_has r m fn rest h1 hm)

/-! ### reference texts -/

theorem isWs_upper {c : Char} (h : 'A' ≤ c ∧ c ≤ 'Z') : isWs c = false := by
  have h1 : c ≠ ' ' := by intro e; subst e; exact absurd h.1 (by decide)
  have h2 : c ≠ '\t' := by intro e; subst e; exact absurd h.1 (by decide)
  have h3 : c ≠ '\n' := by intro e; subst e; exact absurd h.1 (by decide)
  have h4 : c ≠ '\r' := by intro e; subst e; exact absurd h.1 (by decide)
  have h5 : c.toNat ≠ 11 := by
    intro e; have := h.1; rw [Char.le_def] at this; simp [UInt32.le_iff_toNat_le] at this
    have : c.toNat = c.val.toNat := rfl
    omega
  have h6 : c.toNat ≠ 12 := by
    intro e; have := h.1; rw [Char.le_def] at this; simp [UInt32.le_iff_toNat_le] at this
    have : c.toNat = c.val.toNat := rfl
    omega
  simp [isWs, h1, h2, h3, h4, h5, h6]

/-- the characters of cell coordinates -/
def CoordCh (x : Char) : Prop := x = '$' ∨ x = ':' ∨ ('A' ≤ x ∧ x ≤ 'Z') ∨ ∃ d, d < 10 ∧ x = digitChar d

theorem coordCh_cell (c : Cell) (h : c.WF) : ∀ x ∈ c.text, CoordCh x := by
  obtain ⟨_, _, hcol, _, hrow⟩ := h
  intro x hx
  unfold Cell.text at hx
  simp only [List.mem_append] at hx
  rcases hx with ((hx | hx) | hx) | hx
  · by_cases hca : c.colAbs = true <;> simp [hca] at hx; exact Or.inl hx
  · exact Or.inr (Or.inr (Or.inl (hcol x hx)))
  · by_cases hra : c.rowAbs = true <;> simp [hra] at hx; exact Or.inl hx
  · obtain ⟨d, hd, rfl⟩ := List.mem_map.mp hx
    exact Or.inr (Or.inr (Or.inr ⟨d, hrow d hd, rfl⟩))

theorem coordCh_coords (r : Ref) (h : r.WF) : ∀ x ∈ r.coords, CoordCh x := by
  obtain ⟨_, hf, hl⟩ := h
  intro x hx
  unfold Ref.coords at hx
  rcases List.mem_append.mp hx with hx | hx
  · exact coordCh_cell _ hf x hx
  · cases hlast : r.last with
    | none => rw [hlast] at hx; cases hx
    | some c =>
      rw [hlast] at hx hl
      rcases List.mem_cons.mp hx with rfl | hx
      · exact Or.inr (Or.inl rfl)
      · exact coordCh_cell _ hl x hx

theorem CoordCh.isWs {x : Char} (h : CoordCh x) : isWs x = false := by
  rcases h with rfl | rfl | h | ⟨d, hd, rfl⟩
  · decide
  · decide
  · exact isWs_upper h
  · exact isWs_digitChar hd

theorem plain_upper {c : Char} (h : 'A' ≤ c ∧ c ≤ 'Z') : plainCh c = true := by
  have hne : ∀ x : Char, ¬ ('A' ≤ x) → c ≠ x := fun x hx e => hx (e ▸ h.1)
  have hop : isOperatorChar c = false := by
    rw [Bool.eq_false_iff, ne_eq, isOperatorChar_iff]
    rintro (e|e|e|e|e|e|e|e|e) <;> (subst e; exact absurd h (by decide))
  have hbl : isBlank c = false := by
    rw [Bool.eq_false_iff, ne_eq, isBlank_iff]
    rintro (e|e) <;> (subst e; exact absurd h (by decide))
  have ne : ∀ x : Char, ¬ ('A' ≤ x ∧ x ≤ 'Z') → c ≠ x := fun x hx e => hx (e ▸ h)
  simp [plainCh, hop, hbl, ne '"' (by decide), ne '\'' (by decide), ne '[' (by decide), ne '#' (by decide),
    ne '{' (by decide), ne ';' (by decide), ne '}' (by decide), ne '%' (by decide), ne '(' (by decide),
    ne ',' (by decide), ne ')' (by decide)]

theorem CoordCh.plain {x : Char} (h : CoordCh x) : plainCh x = true := by
  rcases h with rfl | rfl | h | ⟨d, hd, rfl⟩
  · decide
  · decide
  · exact plain_upper h
  · exact plain_digitChar hd

/-- cell coordinates end in a digit -/
theorem cell_ends_digit (c : Cell) (h : c.WF) : ∃ q d, d < 10 ∧ c.text = q ++ [digitChar d] := by
  obtain ⟨_, _, _, hrow, hdig⟩ := h
  have : ∃ ds d, c.row = ds ++ [d] := by
    cases hr : c.row.reverse with
    | nil => simp at hr; exact absurd hr hrow
    | cons d ds => exact ⟨ds.reverse, d, by rw [← List.reverse_reverse c.row, hr]; simp⟩
  obtain ⟨ds, d, hr⟩ := this
  refine ⟨(if c.colAbs then ['$'] else []) ++ c.col ++ (if c.rowAbs then ['$'] else []) ++ ds.map digitChar, d,
    hdig d (by rw [hr]; simp), ?_⟩
  unfold Cell.text
  rw [hr]; simp

theorem coords_ends_digit (r : Ref) (h : r.WF) : ∃ q d, d < 10 ∧ r.coords = q ++ [digitChar d] := by
  obtain ⟨_, hf, hl⟩ := h
  unfold Ref.coords
  cases hlast : r.last with
  | none =>
    obtain ⟨q, d, hd, e⟩ := cell_ends_digit _ hf
    exact ⟨q, d, hd, by simp [e]⟩
  | some c =>
    rw [hlast] at hl
    obtain ⟨q, d, hd, e⟩ := cell_ends_digit c hl
    exact ⟨r.first.text ++ ':' :: q, d, hd, by simp [e]⟩

theorem denoted_ends_digit (r : Ref) (h : r.WF) : ∃ q d, d < 10 ∧ r.denoted = q ++ [digitChar d] := by
  obtain ⟨q, d, hd, e⟩ := coords_ends_digit r h
  exact ⟨r.sheet.denoted ++ q, d, hd, by simp [Ref.denoted, e]⟩

theorem cell_head (c : Cell) (h : c.WF) : ∃ x s, c.text = x :: s ∧ (x = '$' ∨ ('A' ≤ x ∧ x ≤ 'Z')) := by
  obtain ⟨hne, _, hcol, _, _⟩ := h
  unfold Cell.text
  cases c.colAbs with
  | true =>
    exact ⟨'$', c.col ++ (if c.rowAbs then ['$'] else []) ++ c.row.map digitChar, by simp, Or.inl rfl⟩
  | false =>
    cases hc : c.col with
    | nil => exact absurd hc hne
    | cons x xs =>
      exact ⟨x, xs ++ (if c.rowAbs then ['$'] else []) ++ c.row.map digitChar, by simp,
        Or.inr (hcol x (by rw [hc]; simp))⟩

/-- pass 3 never types a reference text as a number -/
theorem floatOk_ref (r : Ref) (h : r.WF) : floatOk (.s r.denoted) = false := by
  have hden : r.denoted = r.sheet.denoted ++ r.coords := rfl
  simp only [floatOk]
  cases hs : r.sheet with
  | none =>
    have ht : r.denoted = r.coords := by simp [hden, hs, SheetQ.denoted]
    obtain ⟨x, s, hx, hx'⟩ := cell_head _ h.2.1
    have hcs : ∃ tl, r.coords = x :: tl := ⟨_, by unfold Ref.coords; rw [hx]; rfl⟩
    obtain ⟨tl, hcs⟩ := hcs
    obtain ⟨q, d, hd, he⟩ := coords_ends_digit r h
    have hws : ∀ y ∈ r.coords, isWs y = false := fun y hy => (coordCh_coords r h y hy).isWs
    have hx1 : isDigit x = false ∧ x ≠ '.' ∧ x ≠ '+' ∧ x ≠ '-' := by
      rcases hx' with rfl | hu
      · decide
      · refine ⟨?_, ?_, ?_, ?_⟩
        · rw [Bool.eq_false_iff]; intro hd'
          simp only [isDigit, Bool.and_eq_true, decide_eq_true_eq] at hd'
          exact absurd (Char.le_trans hu.1 hd'.2) (by decide)
        all_goals (intro e; subst e; exact absurd hu (by decide))
    have hinf : ¬ (r.coords.map lower = "inf".toList ∨ r.coords.map lower = "infinity".toList ∨
        r.coords.map lower = "nan".toList) := by
      have hm : digitChar d ∈ r.coords.map lower :=
        List.mem_map.mpr ⟨digitChar d, by rw [he]; simp, lower_digitChar hd⟩
      have hdg := isDigit_digitChar hd
      have n1 : ∀ y ∈ "inf".toList, isDigit y = false := by decide
      have n2 : ∀ y ∈ "infinity".toList, isDigit y = false := by decide
      have n3 : ∀ y ∈ "nan".toList, isDigit y = false := by decide
      rintro (e | e | e) <;> rw [e] at hm
      · rw [n1 _ hm] at hdg; cases hdg
      · rw [n2 _ hm] at hdg; cases hdg
      · rw [n3 _ hm] at hdg; cases hdg
    rw [ht, pyFloat_none_of_head r.coords x _ hcs hws hx1.1 hx1.2.1 hx1.2.2.1 hx1.2.2.2 hinf]
    rfl
  | plain n =>
    rw [pyFloat_bang _ (by simp [hden, hs, SheetQ.denoted])]; rfl
  | quoted n =>
    rw [pyFloat_bang _ (by simp [hden, hs, SheetQ.denoted])]; rfl

theorem ref_not_bool (r : Ref) (h : r.WF) :
    r.denoted ≠ "TRUE".toList ∧ r.denoted ≠ "FALSE".toList := by
  obtain ⟨q, d, hd, he⟩ := denoted_ends_digit r h
  have hE := (digitChar_not_eE hd).2
  constructor
  · intro e
    have : q ++ [digitChar d] = ['T', 'R', 'U'] ++ ['E'] := by rw [← he, e]; rfl
    exact hE (by simpa using (List.append_inj' this rfl).2)
  · intro e
    have : q ++ [digitChar d] = ['F', 'A', 'L', 'S'] ++ ['E'] := by rw [← he, e]; rfl
    exact hE (by simpa using (List.append_inj' this rfl).2)

/-! ### the scientific-notation guard -/

theorem matchSN_last (t : List Char) (h : matchSN t = true) : ∃ p, t = p ++ ['e'] ∨ t = p ++ ['E'] := by
  have hsplit := List.takeWhile_append_dropWhile (p := isDigit) (l := t)
  unfold matchSN at h
  simp only at h
  split at h
  · cases h
  · rename_i c more heq
    rw [heq] at hsplit
    by_cases hc : c = '.'
    · subst hc
      simp only [if_true, Bool.and_eq_true, Bool.or_eq_true, decide_eq_true_eq] at h
      have hsplit2 := List.takeWhile_append_dropWhile (p := isDigit) (l := more)
      rcases h.2 with e | e
      · have hm : more = more.takeWhile isDigit ++ ['e'] := by rw [← e]; exact hsplit2.symm
        refine ⟨t.takeWhile isDigit ++ '.' :: more.takeWhile isDigit, Or.inl ?_⟩
        conv => lhs; rw [← hsplit, hm]
        simp
      · have hm : more = more.takeWhile isDigit ++ ['E'] := by rw [← e]; exact hsplit2.symm
        refine ⟨t.takeWhile isDigit ++ '.' :: more.takeWhile isDigit, Or.inr ?_⟩
        conv => lhs; rw [← hsplit, hm]
        simp
    · simp only [hc, if_false, Bool.and_eq_true, Bool.or_eq_true, decide_eq_true_eq,
        List.isEmpty_iff] at h
      obtain ⟨⟨_, hmore⟩, hce⟩ := h
      subst hmore
      rcases hce with rfl | rfl
      · exact ⟨_, Or.inl hsplit.symm⟩
      · exact ⟨_, Or.inr hsplit.symm⟩

/-- a token that ends in a digit is not the start of a scientific-notation literal -/
theorem noSN_ends_digit (q : List Char) (d : Nat) (hd : d < 10) : NoSN (q ++ [digitChar d]) := by
  intro h
  obtain ⟨p, hp | hp⟩ := matchSN_last _ h.2
  · exact (digitChar_not_eE hd).1 (by simpa using (List.append_inj' hp rfl).2)
  · exact (digitChar_not_eE hd).2 (by simpa using (List.append_inj' hp rfl).2)

theorem noSN_nil : NoSN [] := by intro h; simp at h

theorem takeWhile_digits (ds : List Nat) (hd : AllDigits ds) (x : Char) (hx : isDigit x = false)
    (tl : List Char) :
    (ds.map digitChar ++ x :: tl).takeWhile isDigit = ds.map digitChar ∧
    (ds.map digitChar ++ x :: tl).dropWhile isDigit = x :: tl := by
  induction ds with
  | nil => simp [hx]
  | cons d ds ih =>
    have := ih (fun y hy => hd y (by simp [hy]))
    simp [isDigit_digitChar (hd d (by simp)), this.1, this.2]

/-- the mantissa of a scientific literal — any decimal numeral — followed by `E`, triggers the guard -/
theorem matchSN_mant (ip : List Nat) (hip : AllDigits ip) (fp : Option (List Nat))
    (hfp : match fp with | none => True | some f => AllDigits f)
    (hne : ip ≠ [] ∨ (match fp with | none => [] | some f => f) ≠ []) :
    matchSN (ip.map digitChar ++ (fracText fp ++ ['E'])) = true := by
  cases fp with
  | none =>
    have hi : ip ≠ [] := by simpa using hne
    have := takeWhile_digits ip hip 'E' (by decide) []
    simp only [fracText, List.nil_append, matchSN, this.1, this.2]
    simpa using hi
  | some f =>
    have h1 := takeWhile_digits ip hip '.' (by decide) (f.map digitChar ++ ['E'])
    have h2 := takeWhile_digits f hfp 'E' (by decide) []
    simp only [fracText, List.cons_append, matchSN, h1.1, h1.2, h2.1, h2.2, if_true]
    simpa using hne

/-- a literal's own text never looks like the start of a scientific-notation literal: it ends in a digit
    or (for `5.`) in the point -/
theorem noSN_numText (n : NumLit) (h : n.WF) : NoSN n.text := by
  obtain ⟨hne, hip, hfp, hexp⟩ := h
  intro hsn
  obtain ⟨p, hp⟩ := matchSN_last _ hsn.2
  have hlast : ∀ (q : List Char) (x : Char), x ≠ 'e' → x ≠ 'E' → n.text = q ++ [x] → False := by
    intro q x h1 h2 e
    rcases hp with hp | hp <;> rw [e] at hp
    · exact h1 (by simpa using (List.append_inj' hp rfl).2)
    · exact h2 (by simpa using (List.append_inj' hp rfl).2)
  have last : ∀ ds : List Nat, ds ≠ [] → AllDigits ds → ∃ q d, d < 10 ∧ ds.map digitChar = q ++ [digitChar d] := by
    intro ds hne hd
    cases hr : ds.reverse with
    | nil => simp at hr; exact absurd hr hne
    | cons d ds' =>
      have : ds = ds'.reverse ++ [d] := by rw [← List.reverse_reverse ds, hr]; simp
      exact ⟨ds'.reverse.map digitChar, d, hd d (by rw [this]; simp), by rw [this]; simp⟩
  cases he : n.exp with
  | some x =>
    obtain ⟨ng, ds⟩ := x
    rw [he] at hexp
    obtain ⟨q, d, hd, e⟩ := last ds hexp.1 hexp.2
    exact hlast (n.ip.map digitChar ++ (fracText n.fp ++ ('E' :: (if ng then '-' else '+') :: q))) _
      (digitChar_not_eE hd).1 (digitChar_not_eE hd).2 (by rw [numText_eq, he]; simp [expText, e])
  | none =>
    cases hf : n.fp with
    | some f =>
      rw [hf] at hfp
      by_cases hf' : f = []
      · exact hlast (n.ip.map digitChar) '.' (by decide) (by decide) (by
          rw [numText_eq, he, hf, hf']; simp [expText, fracText])
      · obtain ⟨q, d, hd, e⟩ := last f hf' hfp
        exact hlast (n.ip.map digitChar ++ '.' :: q) _ (digitChar_not_eE hd).1 (digitChar_not_eE hd).2 (by
          rw [numText_eq, he, hf]; simp [expText, fracText, e])
    | none =>
      have hi : n.ip ≠ [] := by simpa [NumLit.fdigits, hf] using hne
      obtain ⟨q, d, hd, e⟩ := last n.ip hi hip
      exact hlast q _ (digitChar_not_eE hd).1 (digitChar_not_eE hd).2 (by
        rw [numText_eq, he, hf]; simp [expText, fracText, e])

end XlVerif.Lemmas.C02
