/-
  XlVerif.Lemmas.C02Pass — passes 2–4 of `getTokens` on the raw token list of a rendering:
  every white-space token is dropped (the blank oracle never puts one between two operands), the
  operands / operators get their subtypes, unary minus becomes a prefix operator, `@` is removed.
-/
import XlVerif.Lemmas.C02Num
namespace XlVerif.Lemmas.C02
open XlVerif XlVerif.Model.Tokenizer XlVerif.Model.Parser XlVerif.Model.C02 XlVerif.Spec.C02

/-! ### raw tokens (as the character loop emits them) -/

def rawNum (n : NumLit) (pct : Bool) : Tok :=
  if pct then ⟨.f (n.value / 100), .operand, .none⟩ else tok n.text .operand
def rawBool (b : Bool) : Tok := tok (boolText b) .operand
def rawRef (r : Ref) : Tok := tok r.denoted .operand
def rawNeg : Tok := tok ['-'] .opIn
def rawBin (o : BinOp) : Tok := ⟨.s o.sym, .opIn, if o.sym.length = 1 then .none else .logical⟩
def rawFn (a : Bool) (f : List Char) : Tok := tok ((if a then ['@'] else []) ++ f) .function .start

mutual
/-- pass-1 output for `body b e` -/
def raw : Blanks → Expr → List Tok
  | _, .num n p => [rawNum n p]
  | _, .str s => [strTok s]
  | _, .bool b => [rawBool b]
  | _, .err c => [errTok c]
  | _, .ref r => [rawRef r]
  | b, .neg e => rawNeg :: wsT (b.slot 0) ++ raw (b.sub 0) e
  | b, .bin o l r => raw (b.sub 0) l ++ wsT (b.slot 0) ++ rawBin o :: wsT (b.slot 1) ++ raw (b.sub 1) r
  | b, .paren e => lpTok :: wsT (b.slot 0) ++ raw (b.sub 0) e ++ wsT (b.slot 1) ++ [rpTok]
  | b, .call a f args =>
      rawFn a f ::
        (match args with
         | [] => wsT (b.slot 0) ++ [fnStop]
         | _ :: _ => rawArgs b 0 args ++ [fnStop])
def rawArgs : Blanks → Nat → List Expr → List Tok
  | _, _, [] => []
  | b, i, a :: as =>
      wsT (b.slot (2 * i)) ++ raw (b.sub i) a ++ wsT (b.slot (2 * i + 1)) ++
        (match as with
         | [] => []
         | _ :: _ => commaTok :: rawArgs b (i + 1) as)
end

mutual
/-- the same without white-space tokens (pass-2 output) -/
def raw0 : Expr → List Tok
  | .num n p => [rawNum n p]
  | .str s => [strTok s]
  | .bool b => [rawBool b]
  | .err c => [errTok c]
  | .ref r => [rawRef r]
  | .neg e => rawNeg :: raw0 e
  | .bin o l r => raw0 l ++ rawBin o :: raw0 r
  | .paren e => lpTok :: raw0 e ++ [rpTok]
  | .call a f args => rawFn a f :: raw0Args args ++ [fnStop]
def raw0Args : List Expr → List Tok
  | [] => []
  | a :: as => raw0 a ++ (match as with | [] => [] | _ :: _ => commaTok :: raw0Args as)
end

theorem rawArgs_single (b : Blanks) (i : Nat) (a : Expr) :
    rawArgs b i [a] = wsT (b.slot (2 * i)) ++ raw (b.sub i) a ++ wsT (b.slot (2 * i + 1)) := by
  simp [rawArgs]

theorem rawArgs_cons2 (b : Blanks) (i : Nat) (a a' : Expr) (as : List Expr) :
    rawArgs b i (a :: a' :: as) =
      wsT (b.slot (2 * i)) ++ raw (b.sub i) a ++ wsT (b.slot (2 * i + 1)) ++
        commaTok :: rawArgs b (i + 1) (a' :: as) := by
  simp [rawArgs]

theorem raw0Args_single (a : Expr) : raw0Args [a] = raw0 a := by simp [raw0Args]

theorem raw0Args_cons2 (a a' : Expr) (as : List Expr) :
    raw0Args (a :: a' :: as) = raw0 a ++ commaTok :: raw0Args (a' :: as) := by
  simp [raw0Args]

/-! ### pass 2 -/

theorem pass2_nonws (prev : Option Tok) (t : Tok) (rest : List Tok) (h : t.t ≠ .wspace) :
    pass2Aux prev (t :: rest) = t :: pass2Aux (some t) rest := by
  simp [pass2Aux, h]

/-- a blank run after a token that is not the end of an operand disappears -/
theorem pass2_ws_after (p : Tok) (r : Run) (rest : List Tok) (hp : isOperandLike p .stop = false) :
    ∃ p', pass2Aux (some p) (wsT r ++ rest) = pass2Aux (some p') rest := by
  unfold wsT
  split
  · exact ⟨p, rfl⟩
  · refine ⟨wsTok, ?_⟩
    cases rest with
    | nil => simp [pass2Aux, wsTok, tok]
    | cons n rest' =>
      simp only [List.cons_append, List.nil_append]
      conv => lhs; rw [pass2Aux]
      simp [wsTok, tok, hp]

/-- a blank run before a token that is not the start of an operand disappears -/
theorem pass2_ws_before (l : Option Tok) (r : Run) (n : Tok) (rest : List Tok)
    (hn : isOperandLike n .start = false) (hw : n.t ≠ .wspace) :
    pass2Aux l (wsT r ++ n :: rest) = n :: pass2Aux (some n) rest := by
  unfold wsT
  split
  · exact pass2_nonws _ _ _ hw
  · simp only [List.cons_append, List.nil_append]
    rw [show pass2Aux l (wsTok :: n :: rest) = pass2Aux (some wsTok) (n :: rest) by
      cases l <;> simp [pass2Aux, wsTok, tok, hn]]
    exact pass2_nonws _ _ _ hw

theorem pass2_ws_end (l : Option Tok) (r : Run) : pass2Aux l (wsT r) = [] := by
  unfold wsT
  split
  · rfl
  · cases l <;> simp [pass2Aux, wsTok, tok]

theorem rawNum_t (n : NumLit) (p : Bool) : (rawNum n p).t = .operand := by cases p <;> rfl

/-- `P2 e`: pass 2 on the raw tokens of `e` followed by `rest` drops all its white-space tokens,
    provided what pass 2 makes of `rest` does not depend on the preceding token -/
def P2 (e : Expr) : Prop :=
  ∀ (b : Blanks) (prev : Option Tok) (rest out : List Tok), (∀ l, pass2Aux l rest = out) →
    pass2Aux prev (raw b e ++ rest) = raw0 e ++ out

theorem p2_atom (e : Expr) (t : Tok) (h1 : ∀ b, raw b e = [t]) (h2 : raw0 e = [t]) (h3 : t.t = .operand) :
    P2 e := by
  intro b prev rest out hout
  rw [h1, h2]
  simp only [List.cons_append, List.nil_append]
  rw [pass2_nonws _ _ _ (by rw [h3]; simp), hout]

theorem p2_args (b : Blanks) (rest out : List Tok) (hout : ∀ l, pass2Aux l rest = out) :
    ∀ (args : List Expr), args ≠ [] → (∀ x ∈ args, P2 x) → ∀ (i : Nat) (p : Tok),
      isOperandLike p .stop = false →
      pass2Aux (some p) (rawArgs b i args ++ fnStop :: rest) = raw0Args args ++ fnStop :: out := by
  intro args
  induction args with
  | nil => intro h; exact absurd rfl h
  | cons a as ih =>
    intro _ hP i p hp
    have hstop : ∀ l (r : Run), pass2Aux l (wsT r ++ fnStop :: rest) = fnStop :: out := by
      intro l r
      rw [pass2_ws_before l r fnStop rest (by simp [fnStop, isOperandLike]) (by simp [fnStop]), hout]
    cases as with
    | nil =>
      rw [rawArgs_single, raw0Args_single, List.append_assoc, List.append_assoc]
      obtain ⟨p', hp'⟩ := pass2_ws_after p (b.slot (2 * i)) (raw (b.sub i) a ++ (wsT (b.slot (2 * i + 1)) ++ fnStop :: rest)) hp
      rw [hp']
      exact hP a (by simp) (b.sub i) (some p') _ _ (fun l => hstop l _)
    | cons a' as' =>
      rw [rawArgs_cons2, raw0Args_cons2]
      simp only [List.append_assoc, List.cons_append]
      obtain ⟨p', hp'⟩ := pass2_ws_after p (b.slot (2 * i))
        (raw (b.sub i) a ++ (wsT (b.slot (2 * i + 1)) ++ commaTok :: (rawArgs b (i + 1) (a' :: as') ++ fnStop :: rest))) hp
      rw [hp']
      refine hP a (by simp) (b.sub i) (some p') _ _ (fun l => ?_)
      rw [pass2_ws_before l _ commaTok _ (by simp [commaTok, isOperandLike]) (by simp [commaTok])]
      rw [ih (by simp) (fun x hx => hP x (by simp [hx])) (i + 1) commaTok (by simp [commaTok, isOperandLike])]

theorem p2 : ∀ e, P2 e := by
  intro e
  induction e using Expr.ind with
  | num n p => exact p2_atom _ (rawNum n p) (fun _ => by simp [raw]) (by simp [raw0]) (rawNum_t n p)
  | str s => exact p2_atom _ (strTok s) (fun _ => by simp [raw]) (by simp [raw0]) rfl
  | bool b => exact p2_atom _ (rawBool b) (fun _ => by simp [raw]) (by simp [raw0]) rfl
  | err c => exact p2_atom _ (errTok c) (fun _ => by simp [raw]) (by simp [raw0]) rfl
  | ref r => exact p2_atom _ (rawRef r) (fun _ => by simp [raw]) (by simp [raw0]) rfl
  | neg e ih =>
    intro b prev rest out hout
    simp only [raw, raw0, List.cons_append, List.append_assoc]
    rw [pass2_nonws _ _ _ (by simp [rawNeg, tok])]
    obtain ⟨p', hp'⟩ := pass2_ws_after rawNeg (b.slot 0) (raw (b.sub 0) e ++ rest) (by simp [rawNeg, tok, isOperandLike])
    rw [hp', ih (b.sub 0) (some p') rest out hout]
  | bin o l r ihl ihr =>
    intro b prev rest out hout
    simp only [raw, raw0, List.cons_append, List.append_assoc]
    refine ihl (b.sub 0) prev _ _ (fun l' => ?_)
    have hop1 : isOperandLike (rawBin o) .start = false := by simp [rawBin, isOperandLike]
    have hop2 : isOperandLike (rawBin o) .stop = false := by simp [rawBin, isOperandLike]
    rw [pass2_ws_before l' _ (rawBin o) _ hop1 (by simp [rawBin])]
    obtain ⟨p', hp'⟩ := pass2_ws_after (rawBin o) (b.slot 1) (raw (b.sub 1) r ++ rest) hop2
    rw [hp', ihr (b.sub 1) (some p') rest out hout]
  | paren e ih =>
    intro b prev rest out hout
    simp only [raw, raw0, List.cons_append, List.append_assoc, List.nil_append]
    rw [pass2_nonws _ _ _ (by simp [lpTok])]
    obtain ⟨p', hp'⟩ := pass2_ws_after lpTok (b.slot 0)
      (raw (b.sub 0) e ++ (wsT (b.slot 1) ++ rpTok :: rest)) (by simp [lpTok, isOperandLike])
    rw [hp']
    rw [ih (b.sub 0) (some p') _ (rpTok :: out) (fun l' => by
      rw [pass2_ws_before l' _ rpTok _ (by simp [rpTok, isOperandLike]) (by simp [rpTok]), hout])]
  | call a f args ih =>
    intro b prev rest out hout
    simp only [raw, raw0, List.cons_append, List.append_assoc]
    rw [pass2_nonws _ _ _ (by simp [rawFn, tok])]
    have hfn : isOperandLike (rawFn a f) .stop = false := by simp [rawFn, tok, isOperandLike]
    cases args with
    | nil =>
      simp only [raw0Args, List.nil_append, List.append_assoc, List.cons_append]
      obtain ⟨p', hp'⟩ := pass2_ws_after (rawFn a f) (b.slot 0) (fnStop :: rest) hfn
      rw [hp', pass2_nonws _ _ _ (by simp [fnStop]), hout]
    | cons x xs =>
      simp only [List.append_assoc, List.cons_append, List.nil_append]
      rw [p2_args b rest out hout (x :: xs) (by simp) ih 0 (rawFn a f) hfn]

/-- pass 2 on a whole formula: the raw tokens of the body followed by the trailing blanks -/
theorem pass2_raw (b : Blanks) (e : Expr) (r : Run) : pass2 (raw b e ++ wsT r) = raw0 e := by
  unfold pass2
  rw [p2 e b none (wsT r) [] (fun l => pass2_ws_end l r)]
  simp

/-! ### pass 3 -/

/-- the previous token is no value (so a following `-` is a prefix operator) -/
def NotVal : Option Tok → Prop
  | none => True
  | some p => prevIsValue p = false

theorem retype_rawNum (prev : Option Tok) (n : NumLit) (p : Bool) (h : n.WF) :
    retype prev (rawNum n p) = numTok n p := by
  cases p with
  | true => simp [retype, rawNum, numTok, floatOk]
  | false => simp [retype, rawNum, numTok, tok, floatOk_numText n h]

theorem retype_str (prev : Option Tok) (s : List Char) : retype prev (strTok s) = strTok s := by
  simp [retype, strTok]

theorem retype_err (prev : Option Tok) (c : Code) : retype prev (errTok c) = errTok c := by
  simp [retype, errTok]

theorem retype_rawBool (prev : Option Tok) (b : Bool) : retype prev (rawBool b) = boolTok b := by
  have h1 : floatOk (.s ['T', 'R', 'U', 'E']) = false := by decide
  have h2 : floatOk (.s ['F', 'A', 'L', 'S', 'E']) = false := by decide
  cases b <;> simp [retype, rawBool, boolTok, tok, boolText, h1, h2]

theorem retype_rawRef (prev : Option Tok) (r : Ref) (h : r.WF) : retype prev (rawRef r) = refTok r := by
  have h2 := ref_not_bool r h
  have h3 : r.denoted ≠ ['T', 'R', 'U', 'E'] := h2.1
  have h4 : r.denoted ≠ ['F', 'A', 'L', 'S', 'E'] := h2.2
  simp only [retype, rawRef, refTok, tok]
  simp [floatOk_ref r h, h3, h4]

theorem retype_rawNeg (prev : Option Tok) (h : NotVal prev) : retype prev rawNeg = negTok := by
  cases prev with
  | none => simp [retype, rawNeg, negTok, tok]
  | some p =>
    simp only [NotVal] at h
    simp [retype, rawNeg, negTok, tok, h]

theorem retype_rawBin (p : Tok) (o : BinOp) (h : prevIsValue p = true) :
    retype (some p) (rawBin o) = binTok o := by
  cases o <;> simp [retype, rawBin, binTok, BinOp.sym, opSub, h]

theorem retype_lp (prev : Option Tok) : retype prev lpTok = lpTok := by simp [retype, lpTok]
theorem retype_rp (prev : Option Tok) : retype prev rpTok = rpTok := by simp [retype, rpTok]
theorem retype_fnStop (prev : Option Tok) : retype prev fnStop = fnStop := by simp [retype, fnStop]
theorem retype_comma (prev : Option Tok) : retype prev commaTok = commaTok := by simp [retype, commaTok]

theorem retype_rawFn (prev : Option Tok) (a : Bool) (f : List Char) (h : NameWF f) :
    retype prev (rawFn a f) = fnTok f := by
  cases a with
  | true => simp [retype, rawFn, fnTok, tok]
  | false =>
    obtain ⟨hne, hch⟩ := h
    cases f with
    | nil => exact absurd rfl hne
    | cons c f' =>
      have hc : c ≠ '@' := by
        intro e; have := hch c (by simp); rw [e] at this; revert this; decide
      simp only [retype, rawFn, fnTok, tok, Bool.false_eq_true, if_false, List.nil_append]
      simp only [show (TType.function = TType.opIn) = False by simp, show (TType.function = TType.operand) = False by simp,
        decide_false, Bool.false_and, Bool.false_eq_true, if_false, if_true]
      split
      · rename_i rest heq; simp only [TV.s.injEq, List.cons.injEq] at heq; exact absurd heq.1 hc
      · rfl

theorem pass3_cons (prev : Option Tok) (t : Tok) (rest : List Tok) :
    pass3Aux prev (t :: rest) = retype prev t :: pass3Aux (some (retype prev t)) rest := rfl

/-- `P3 e`: pass 3 types the tokens of `e`, given that no value precedes it and that what follows is
    typed independently of which value token precedes -/
def P3 (e : Expr) : Prop :=
  WF e → ∀ (prev : Option Tok) (rest out : List Tok), NotVal prev →
    (∀ l, prevIsValue l = true → pass3Aux (some l) rest = out) →
    pass3Aux prev (raw0 e ++ rest) = toks e ++ out

theorem p3_atom (e : Expr) (t t' : Tok) (h1 : raw0 e = [t]) (h2 : toks e = [t'])
    (h3 : WF e → ∀ prev, retype prev t = t') (h4 : prevIsValue t' = true) : P3 e := by
  intro hwf prev rest out _ hout
  rw [h1, h2]
  simp only [List.cons_append, List.nil_append, pass3_cons, h3 hwf]
  rw [hout t' h4]

theorem numTok_val (n : NumLit) (p : Bool) : prevIsValue (numTok n p) = true := by
  cases p <;> simp [numTok, prevIsValue]

theorem p3_args : ∀ (args : List Expr), args ≠ [] → (∀ x ∈ args, P3 x) → (∀ x ∈ args, WF x) →
    ∀ (p : Tok) (rest out : List Tok), prevIsValue p = false →
      (∀ l, prevIsValue l = true → pass3Aux (some l) rest = out) →
      pass3Aux (some p) (raw0Args args ++ fnStop :: rest) = toksArgs args ++ fnStop :: out := by
  intro args
  induction args with
  | nil => intro h; exact absurd rfl h
  | cons a as ih =>
    intro _ hP hwf p rest out hp hout
    have hstop : ∀ l, prevIsValue l = true → pass3Aux (some l) (fnStop :: rest) = fnStop :: out := by
      intro l _
      rw [pass3_cons, retype_fnStop, hout fnStop (by simp [fnStop, prevIsValue])]
    cases as with
    | nil =>
      rw [raw0Args_single, toksArgs_single]
      exact hP a (by simp) (hwf a (by simp)) (some p) _ _ hp hstop
    | cons a' as' =>
      rw [raw0Args_cons2, toksArgs_cons2]
      simp only [List.append_assoc, List.cons_append]
      refine hP a (by simp) (hwf a (by simp)) (some p) _ _ hp (fun l _ => ?_)
      rw [pass3_cons, retype_comma]
      rw [ih (by simp) (fun x hx => hP x (by simp [hx])) (fun x hx => hwf x (by simp [hx])) commaTok rest out
        (by simp [commaTok, prevIsValue]) hout]

theorem p3 : ∀ e, P3 e := by
  intro e
  induction e using Expr.ind with
  | num n p =>
    exact p3_atom _ (rawNum n p) (numTok n p) (by simp [raw0]) (by simp [toks])
      (fun hwf prev => retype_rawNum prev n p hwf.1) (numTok_val n p)
  | str s =>
    exact p3_atom _ (strTok s) (strTok s) (by simp [raw0]) (by simp [toks])
      (fun _ prev => retype_str prev s) (by simp [strTok, prevIsValue])
  | bool b =>
    exact p3_atom _ (rawBool b) (boolTok b) (by simp [raw0]) (by simp [toks])
      (fun _ prev => retype_rawBool prev b) (by simp [boolTok, prevIsValue])
  | err c =>
    exact p3_atom _ (errTok c) (errTok c) (by simp [raw0]) (by simp [toks])
      (fun _ prev => retype_err prev c) (by simp [errTok, prevIsValue])
  | ref r =>
    exact p3_atom _ (rawRef r) (refTok r) (by simp [raw0]) (by simp [toks])
      (fun hwf prev => retype_rawRef prev r hwf) (by simp [refTok, prevIsValue])
  | neg e ih =>
    intro hwf prev rest out hprev hout
    simp only [WF] at hwf
    simp only [raw0, toks, List.cons_append, pass3_cons, retype_rawNeg prev hprev]
    rw [ih hwf.1 (some negTok) rest out (by simp [NotVal, negTok, prevIsValue]) hout]
  | bin o l r ihl ihr =>
    intro hwf prev rest out hprev hout
    simp only [WF] at hwf
    simp only [raw0, toks, List.append_assoc, List.cons_append]
    refine ihl hwf.1 prev _ _ hprev (fun l' hl' => ?_)
    rw [pass3_cons, retype_rawBin l' o hl']
    rw [ihr hwf.2.1 (some (binTok o)) rest out (by simp [NotVal, binTok, prevIsValue]) hout]
  | paren e ih =>
    intro hwf prev rest out _ hout
    simp only [WF] at hwf
    simp only [raw0, toks, List.append_assoc, List.cons_append, List.nil_append, pass3_cons, retype_lp]
    rw [ih hwf (some lpTok) (rpTok :: rest) (rpTok :: out) (by simp [NotVal, lpTok, prevIsValue])
      (fun l' _ => by rw [pass3_cons, retype_rp, hout rpTok (by simp [rpTok, prevIsValue])])]
  | call a f args ih =>
    intro hwf prev rest out _ hout
    simp only [WF] at hwf
    have hargs := (WFs_iff args).mp hwf.2
    simp only [raw0, toks, List.append_assoc, List.cons_append, List.nil_append, pass3_cons,
      retype_rawFn prev a f hwf.1]
    cases args with
    | nil =>
      simp only [raw0Args, toksArgs, List.nil_append, pass3_cons, retype_fnStop]
      rw [hout fnStop (by simp [fnStop, prevIsValue])]
    | cons x xs =>
      rw [p3_args (x :: xs) (by simp) ih hargs (fnTok f) rest out (by simp [fnTok, prevIsValue]) hout]

theorem pass3_raw0 (e : Expr) (h : WF e) : pass3 (raw0 e) = toks e := by
  unfold pass3
  have := p3 e h none [] [] trivial (fun l _ => rfl)
  simpa using this

/-! ### pass 4 -/

theorem toks_no_noop (e : Expr) : ∀ t ∈ toks e, t.t ≠ .noop := by
  induction e using Expr.rec (motive_2 := fun as => ∀ t ∈ toksArgs as, t.t ≠ .noop) with
  | num n p => intro t ht; simp only [toks, List.mem_singleton] at ht; subst ht; cases p <;> simp [numTok]
  | str s => intro t ht; simp only [toks, List.mem_singleton] at ht; subst ht; simp [strTok]
  | bool b => intro t ht; simp only [toks, List.mem_singleton] at ht; subst ht; simp [boolTok]
  | err c => intro t ht; simp only [toks, List.mem_singleton] at ht; subst ht; simp [errTok]
  | ref r => intro t ht; simp only [toks, List.mem_singleton] at ht; subst ht; simp [refTok]
  | neg e ih =>
    intro t ht; simp only [toks, List.mem_cons] at ht
    rcases ht with rfl | ht
    · simp [negTok]
    · exact ih t ht
  | bin o l r ihl ihr =>
    intro t ht; simp only [toks, List.mem_append, List.mem_cons] at ht
    rcases ht with ht | rfl | ht
    · exact ihl t ht
    · simp [binTok]
    · exact ihr t ht
  | paren e ih =>
    intro t ht; simp only [toks, List.mem_cons, List.mem_append, List.mem_singleton, List.not_mem_nil, or_false] at ht
    rcases ht with (rfl | ht) | rfl
    · simp [lpTok]
    · exact ih t ht
    · simp [rpTok]
  | call a f args ih =>
    intro t ht; simp only [toks, List.mem_cons, List.mem_append, List.mem_singleton, List.not_mem_nil, or_false] at ht
    rcases ht with (rfl | ht) | rfl
    · simp [fnTok]
    · exact ih t ht
    · simp [fnStop]
  | nil => rename_i t ht; cases ht
  | cons a as iha ihas =>
    rename_i t ht
    cases as with
    | nil => rw [toksArgs_single] at ht; exact iha t ht
    | cons a' as' =>
      rw [toksArgs_cons2] at ht
      simp only [List.mem_append, List.mem_cons] at ht
      rcases ht with ht | rfl | ht
      · exact iha t ht
      · simp [commaTok]
      · exact ihas t ht

theorem pass4_toks (e : Expr) : pass4 (toks e) = toks e := by
  unfold pass4
  rw [List.filter_eq_self]
  intro t ht
  simpa using toks_no_noop e t ht

/-- passes 2–4 on the raw tokens of a rendering -/
theorem passes_raw (b : Blanks) (e : Expr) (h : WF e) (r : Run) :
    pass4 (pass3 (pass2 (raw b e ++ wsT r))) = toks e := by
  rw [pass2_raw, pass3_raw0 e h, pass4_toks]

end XlVerif.Lemmas.C02
