/-
  XlVerif.Lemmas.C02Pct — the value the tokenizer folds a percent literal to: for a literal without
  exponent and at most 300 integer digits, `float(token) / 100` is (over ideal reals) the literal's
  decimal value divided by 100, and the conversion is finite.
-/
import XlVerif.Lemmas.C02Num
import Mathlib.Tactic.Ring
import Mathlib.Tactic.Linarith
import Mathlib.Tactic.FieldSimp
import Mathlib.Tactic.Positivity
import Mathlib.Tactic.NormNum
import Mathlib.Algebra.Order.Field.Rat
namespace XlVerif.Lemmas.C02
open XlVerif XlVerif.Model.Value XlVerif.Model.Tokenizer XlVerif.Spec.C02

theorem pow10_neg (k : Nat) : Model.Value.pow10 (0 - (k : Int)) = 1 / (10 : Rat) ^ k := by
  unfold Model.Value.pow10
  cases k with
  | zero => simp
  | succ k =>
    have h1 : ¬ ((0 : Int) - ((k + 1 : Nat) : Int) ≥ 0) := by omega
    have h2 : (-((0 : Int) - ((k + 1 : Nat) : Int))).toNat = k + 1 := by omega
    simp only [h1, if_false, h2]

theorem digitsVal_lt (ds : List Nat) (h : AllDigits ds) : digitsVal ds < 10 ^ ds.length := by
  induction ds using List.reverseRecOn with
  | nil => simp [digitsVal]
  | append_singleton ds d ih =>
    have hd : d < 10 := h d (by simp)
    have ih' := ih (fun x hx => h x (by simp [hx]))
    rw [digitsVal_append]
    simp only [List.length_append, List.length_cons, List.length_nil, Nat.pow_succ, Nat.pow_zero, Nat.mul_one,
      Nat.zero_add]
    have : digitsVal [d] = d := by simp [digitsVal]
    rw [this]
    nlinarith

theorem floatMax_big : (10 : Rat) ^ 300 < floatMax := by
  unfold floatMax
  calc (10 : Rat) ^ 300 = ((10 : Rat) ^ 3) ^ 100 := by rw [← pow_mul]
    _ < ((2 : Rat) ^ 10) ^ 100 := pow_lt_pow_left₀ (by norm_num) (by positivity) (by norm_num)
    _ = (2 : Rat) ^ 1000 := by rw [← pow_mul]
    _ ≤ (2 : Rat) ^ 1024 := pow_le_pow_right₀ (by norm_num) (by norm_num)

theorem percentOf_numText (n : NumLit) (h : n.WF) (hp : n.PctOK) :
    percentOf n.text = some (n.value / 100) := by
  obtain ⟨hexp, hlen⟩ := hp
  have hfd : AllDigits n.fdigits := by
    obtain ⟨_, _, hfp, _⟩ := h
    unfold NumLit.fdigits
    cases hf : n.fp with
    | none => intro d hd; cases hd
    | some f => rw [hf] at hfp; exact hfp
  have hall : AllDigits (n.ip ++ n.fdigits) := by
    intro d hd
    rcases List.mem_append.mp hd with hd | hd
    · exact h.2.1 d hd
    · exact hfd d hd
  have hm := digitsVal_lt _ hall
  unfold percentOf
  rw [pyFloat_numText n h, hexp]
  simp only [expVal]
  unfold finOf
  simp only [pow10_neg]
  set m := digitsVal (n.ip ++ n.fdigits) with hmdef
  set k := n.fdigits.length with hk
  have hq : ((1 : Int) : Rat) * (m : Rat) * (1 / (10 : Rat) ^ k) = n.value := by
    unfold NumLit.value
    rw [← hmdef, ← hk]
    have : (10 : Rat) ^ k ≠ 0 := by positivity
    field_simp
    push_cast
    ring
  rw [hq]
  have hnn : (0 : Rat) ≤ n.value := by
    unfold NumLit.value
    positivity
  have hlt : n.value < floatMax := by
    have h1 : n.value < (10 : Rat) ^ n.ip.length := by
      unfold NumLit.value
      rw [← hmdef, ← hk]
      have hpos : (0 : Rat) < (10 : Rat) ^ k := by positivity
      rw [div_lt_iff₀ hpos]
      have : (m : Rat) < ((10 ^ (n.ip ++ n.fdigits).length : Nat) : Rat) := by exact_mod_cast hm
      rw [List.length_append, ← hk] at this
      push_cast at this
      rw [pow_add] at this
      exact this
    have h2 : (10 : Rat) ^ n.ip.length ≤ (10 : Rat) ^ 300 :=
      pow_le_pow_right₀ (by norm_num) hlen
    linarith [floatMax_big]
  have hfm : (0 : Rat) < floatMax := by unfold floatMax; positivity
  have hfin : ¬ (n.value ≥ floatMax ∨ n.value ≤ -floatMax) := by
    intro hc
    rcases hc with hc | hc <;> linarith
  simp only [hfin, if_false]

end XlVerif.Lemmas.C02
