/-
  XlVerif.Lemmas.C02SY — the shunting yard of `Model/Parser.lean` on the token list of any
  well-formed expression yields the RPN of its tree (`sy_ptoks`), and `buildAst` rebuilds the tree
  from that RPN (`build_rpn`).  The only facts used about the operator table are the order and
  associativity conditions `TableOK`.
-/
import XlVerif.Lemmas.C02Toks
namespace XlVerif.Lemmas.C02
open XlVerif XlVerif.Model.Tokenizer XlVerif.Model.Parser XlVerif.Model.C02 XlVerif.Spec.C02

/-! ### the table condition -/

def lookupOp (t : List Gen.OpRow) (k : List Char) : Option (Nat × Bool) :=
  (t.find? fun r => r.key = k).map fun r => (r.prec, r.rightAssoc)

/-- Order and associativity conditions on `parser.OPERATORS` (no literal numbers): every binary
    operator is present and left-associative, the table orders them as Excel's grammar does, the unary
    minus is present, right-associative and binds tighter than every binary operator. -/
def tableOKB (t : List Gen.OpRow) : Bool :=
  (match lookupOp t ['u', '-'] with
   | some (pn, ra) =>
     ra && BinOp.all.all fun (o : BinOp) =>
       match lookupOp t o.sym with
       | some (p, r) => !r && decide (p < pn)
       | none => false
   | none => false) &&
  BinOp.all.all fun o1 => BinOp.all.all fun o2 =>
    match lookupOp t o1.sym, lookupOp t o2.sym with
    | some (p1, _), some (p2, _) => decide (p1 ≤ p2 ↔ o1.prec ≤ o2.prec)
    | _, _ => false

def TableOK (t : List Gen.OpRow) : Prop := tableOKB t = true

theorem BinOp.mem_all (o : BinOp) : o ∈ BinOp.all := by cases o <;> simp [BinOp.all]

/-- what the proofs use of the table -/
structure Tbl where
  tp : BinOp → Nat
  tn : Nat
  bin : ∀ o, opInfo (binTok o) = some (tp o, false)
  neg : opInfo negTok = some (tn, true)
  ord : ∀ o1 o2, tp o1 ≤ tp o2 ↔ o1.prec ≤ o2.prec
  top : ∀ o, tp o < tn

theorem opInfo_binTok (o : BinOp) : opInfo (binTok o) = lookupOp Gen.operators o.sym := by
  simp [opInfo, binTok, lookupOp]

theorem opInfo_negTok : opInfo negTok = lookupOp Gen.operators ['u', '-'] := by
  simp [opInfo, negTok, lookupOp]

theorem tbl_of_tableOK (h : TableOK Gen.operators) : Nonempty Tbl := by
  unfold TableOK tableOKB at h
  rw [Bool.and_eq_true] at h
  obtain ⟨h1, h2⟩ := h
  cases hn : lookupOp Gen.operators ['u', '-'] with
  | none => rw [hn] at h1; cases h1
  | some pr =>
    obtain ⟨pn, ra⟩ := pr
    rw [hn] at h1
    simp only [Bool.and_eq_true, List.all_eq_true] at h1
    obtain ⟨hra, hall⟩ := h1
    have hb : ∀ o : BinOp, ∃ p, lookupOp Gen.operators o.sym = some (p, false) ∧ p < pn := by
      intro o
      have := hall o (BinOp.mem_all o)
      cases ho : lookupOp Gen.operators o.sym with
      | none => rw [ho] at this; cases this
      | some pr' =>
        obtain ⟨p, r⟩ := pr'
        rw [ho] at this
        simp only [Bool.and_eq_true, Bool.not_eq_true', decide_eq_true_eq] at this
        exact ⟨p, by rw [this.1], this.2⟩
    refine ⟨⟨fun o => (hb o).choose, pn, ?_, ?_, ?_, ?_⟩⟩
    · intro o; rw [opInfo_binTok]; exact (hb o).choose_spec.1
    · rw [opInfo_negTok, hn, hra]
    · intro o1 o2
      simp only [List.all_eq_true] at h2
      have := h2 o1 (BinOp.mem_all o1) o2 (BinOp.mem_all o2)
      rw [(hb o1).choose_spec.1, (hb o2).choose_spec.1] at this
      simpa using this
    · intro o; exact (hb o).choose_spec.2

/-! ### `run`: the token loop as a structural recursion -/

def run (s : SY) : List Tok → Except PErr SY
  | [] => .ok s
  | t :: ts => match step s t with
    | .ok s' => run s' ts
    | .error e => .error e

theorem foldlM_eq_run (ts : List Tok) (s : SY) : ts.foldlM step s = run s ts := by
  induction ts generalizing s with
  | nil => rfl
  | cons t ts ih =>
    simp only [List.foldlM_cons, run]
    cases h : step s t with
    | error e => rfl
    | ok s' => exact ih s'

theorem run_append (s : SY) (a b : List Tok) :
    run s (a ++ b) = (match run s a with | .ok s' => run s' b | .error e => .error e) := by
  induction a generalizing s with
  | nil => rfl
  | cons t ts ih =>
    simp only [List.cons_append, run]
    cases step s t with
    | error e => rfl
    | ok s' => exact ih s'

theorem run_append_ok {s s' : SY} {a : List Tok} (b : List Tok) (h : run s a = .ok s') :
    run s (a ++ b) = run s' b := by
  rw [run_append, h]

/-! ### operator items on the stack -/

inductive OpItem | bin (o : BinOp) | neg
  deriving DecidableEq

def OpItem.tok : OpItem → Tok
  | .bin o => binTok o
  | .neg => negTok

def OpItem.lvl : OpItem → Nat
  | .bin o => o.prec
  | .neg => negPrec

def nodesOf (pend : List OpItem) : List Node := pend.map fun i => Node.operator i.tok
def toksOf (pend : List OpItem) : List Tok := pend.map OpItem.tok

def AllGe (p : Nat) (pend : List OpItem) : Prop := ∀ x ∈ pend, p ≤ x.lvl

theorem AllGe.nil (p : Nat) : AllGe p [] := by intro x hx; cases hx

theorem AllGe.mono {p q : Nat} {l : List OpItem} (h : AllGe p l) (hq : q ≤ p) : AllGe q l :=
  fun x hx => Nat.le_trans hq (h x hx)

theorem OpItem.tok_isOp (i : OpItem) : isOperator i.tok = true := by
  cases i <;> simp [OpItem.tok, isOperator, binTok, negTok]

theorem OpItem.tok_createNode (i : OpItem) : createNode i.tok = .ok (.operator i.tok) := by
  cases i <;> simp [OpItem.tok, createNode, isOperator, binTok, negTok]

theorem OpItem.st_ne_start (i : OpItem) : i.tok.st ≠ .start := by
  cases i with
  | bin o => cases o <;> simp [OpItem.tok, binTok, opSub]
  | neg => simp [OpItem.tok, negTok]

theorem OpItem.st_ne_stop (i : OpItem) : i.tok.st ≠ .stop := by
  cases i with
  | bin o => cases o <;> simp [OpItem.tok, binTok, opSub]
  | neg => simp [OpItem.tok, negTok]

theorem OpItem.tok_opInfo (T : Tbl) (i : OpItem) : ∃ p r, opInfo i.tok = some (p, r) := by
  cases i with
  | bin o => exact ⟨_, _, T.bin o⟩
  | neg => exact ⟨_, _, T.neg⟩

/-- every operator token on the stack is one of ours (so it is in the table) -/
def StackOK (st : List Tok) : Prop := ∀ x ∈ st, isOperator x = true → ∃ i : OpItem, x = i.tok

theorem StackOK.cons_nonop {st : List Tok} {t : Tok} (h : StackOK st) (ht : isOperator t = false) :
    StackOK (t :: st) := by
  intro x hx hop
  rcases List.mem_cons.mp hx with rfl | hx
  · rw [ht] at hop; cases hop
  · exact h x hx hop

theorem StackOK.cons_op {st : List Tok} (h : StackOK st) (i : OpItem) : StackOK (i.tok :: st) := by
  intro x hx hop
  rcases List.mem_cons.mp hx with rfl | hx
  · exact ⟨i, rfl⟩
  · exact h x hx hop

theorem StackOK.append {st : List Tok} (h : StackOK st) (pend : List OpItem) :
    StackOK (toksOf pend ++ st) := by
  induction pend with
  | nil => simpa [toksOf] using h
  | cons i pend ih => simpa [toksOf] using StackOK.cons_op (by simpa [toksOf] using ih) i

theorem StackOK.tail {st : List Tok} {t : Tok} (h : StackOK (t :: st)) : StackOK st :=
  fun x hx hop => h x (List.mem_cons_of_mem _ hx) hop

theorem stack_not_bad (T : Tbl) (st : List Tok) (h : StackOK st) :
    ((st.takeWhile isOperator).any fun x => (opInfo x).isNone) = false := by
  induction st with
  | nil => rfl
  | cons t st ih =>
    simp only [List.takeWhile_cons]
    cases hop : isOperator t with
    | false => simp
    | true =>
      obtain ⟨i, rfl⟩ := h t (by simp) hop
      obtain ⟨p, r, hpr⟩ := OpItem.tok_opInfo T i
      simp [hpr, ih h.tail]

/-! ### `popWhile` -/

theorem popWhile_pend (p : Tok → Bool) (pend : List OpItem) (st : List Tok) :
    ∀ (s : SY) (fuel : Nat), (∀ x ∈ pend, p x.tok = true) →
      (match st with | [] => True | t :: _ => p t = false) → pend.length < fuel →
      popWhile p fuel { s with stack := toksOf pend ++ st } =
        .ok { s with output := s.output ++ nodesOf pend, stack := st } := by
  induction pend with
  | nil =>
    intro s fuel _ hst hf
    cases fuel with
    | zero => cases hf
    | succ fuel =>
      cases st with
      | nil => simp [popWhile, toksOf, nodesOf]
      | cons t st => simp [popWhile, toksOf, nodesOf, hst]
  | cons i pend ih =>
    intro s fuel hp hst hf
    cases fuel with
    | zero => cases hf
    | succ fuel =>
      have hi := hp i (by simp)
      simp only [toksOf, List.map_cons, List.cons_append, popWhile, hi, if_true, OpItem.tok_createNode]
      have := ih { s with output := s.output ++ [Node.operator i.tok] } fuel
        (fun x hx => hp x (by simp [hx])) hst (by simp at hf; omega)
      simp only [toksOf] at this
      rw [this]
      simp [nodesOf]

/-! ### single steps -/

theorem step_operand (s : SY) (t : Tok) (h : t.t = .operand) :
    step s t = .ok { s with output := s.output ++ [.operand t], wereValues := setTopTrue s.wereValues } := by
  simp [step, h, createNode, Except.map]

theorem step_fn (s : SY) (f : List Char) :
    step s (fnName f) = .ok { s with stack := fnName f :: s.stack, argCount := 0 :: s.argCount,
                                      wereValues := false :: setTopTrue s.wereValues } := by
  simp [step, fnName]

theorem step_argLp (s : SY) : step s argLp = .ok { s with stack := argLp :: s.stack } := by
  simp [step, argLp, isOperator]

theorem step_lp (s : SY) : step s lpTok' = .ok { s with stack := lpTok' :: s.stack } := by
  simp [step, lpTok', isOperator]

/-- context condition: the top of the stack does not capture an expression of level `l` -/
def Ok (l : Nat) : List Tok → Prop
  | [] => True
  | s :: _ => (isOperator s = false ∧ s.t ≠ .function) ∨ (∃ o, s = binTok o ∧ o.prec < l) ∨
              (s = negTok ∧ negPrec ≤ l)

theorem BinOp.prec_lt (o : BinOp) : o.prec < negPrec := by cases o <;> simp [BinOp.prec, negPrec]
theorem BinOp.prec_pos (o : BinOp) : 0 < o.prec := by cases o <;> simp [BinOp.prec]

theorem binTok_ne_negTok (o : BinOp) : binTok o ≠ negTok := by
  simp [binTok, negTok]

theorem binTok_inj {o o' : BinOp} (h : binTok o = binTok o') : o = o' := by
  cases o <;> cases o' <;> simp [binTok, BinOp.sym] at h <;> rfl

/-- the pop condition of the operator loop for an incoming operator `(p1, right1)` -/
def popIt (p1 : Nat) (right1 : Bool) (x : Tok) : Bool :=
  isOperator x && (match opInfo x with
    | some (p2, _) => if right1 then p1 < p2 else p1 ≤ p2
    | none => false)

theorem step_operator (s : SY) (t : Tok) (p1 : Nat) (r1 : Bool) (hop : isOperator t = true)
    (ht1 : t.t ≠ .operand) (ht2 : t.t ≠ .function) (ht3 : t.t ≠ .argument)
    (hinfo : opInfo t = some (p1, r1))
    (hbad : ((s.stack.takeWhile isOperator).any fun x => (opInfo x).isNone) = false) :
    step s t = (popWhile (popIt p1 r1) (s.stack.length + 1) s).map fun s' => { s' with stack := t :: s'.stack } := by
  unfold step
  simp only [ht1, ht2, ht3, if_false, hop, if_true, hinfo, hbad, Bool.false_eq_true]
  rfl

/-- an incoming binary operator pops the pending operators of an operand of its level and stops -/
theorem step_bin (T : Tbl) (o : BinOp) (s : SY) (pend : List OpItem) (st : List Tok)
    (hs : s.stack = toksOf pend ++ st) (hok : StackOK st) (hge : AllGe o.prec pend) (hctx : Ok o.prec st) :
    step s (binTok o) = .ok { s with output := s.output ++ nodesOf pend, stack := binTok o :: st } := by
  have hbad := stack_not_bad T s.stack (by rw [hs]; exact hok.append pend)
  have hfuel : pend.length < s.stack.length + 1 := by rw [hs]; simp [toksOf]; omega
  have hpop := popWhile_pend (popIt (T.tp o) false) pend st s (s.stack.length + 1)
    (by
      intro x hx
      have hl := hge x hx
      cases x with
      | bin o' =>
        simp only [OpItem.lvl] at hl
        have := (T.ord o o').mpr hl
        have h1 : isOperator (binTok o') = true := OpItem.tok_isOp (.bin o')
        simp [popIt, OpItem.tok, h1, T.bin o', this]
      | neg =>
        have := Nat.le_of_lt (T.top o)
        have h1 : isOperator negTok = true := OpItem.tok_isOp .neg
        simp [popIt, OpItem.tok, h1, T.neg, this])
    (by
      cases st with
      | nil => trivial
      | cons t st =>
        simp only [Ok] at hctx
        rcases hctx with h | ⟨o', rfl, h⟩ | ⟨rfl, h⟩
        · simp [popIt, h.1]
        · have : ¬ T.tp o ≤ T.tp o' := by rw [T.ord]; omega
          simp [popIt, T.bin o', this]
        · have := BinOp.prec_lt o; omega)
    hfuel
  rw [step_operator s (binTok o) (T.tp o) false (OpItem.tok_isOp (.bin o)) (by simp [binTok]) (by simp [binTok])
    (by simp [binTok]) (T.bin o) hbad]
  have hs' : s = { s with stack := toksOf pend ++ st } := by rw [← hs]
  rw [hs'] at hpop ⊢
  simp only at hpop ⊢
  rw [hpop]
  rfl

/-- an incoming unary minus pops nothing -/
theorem step_neg (T : Tbl) (s : SY) (hok : StackOK s.stack) :
    step s negTok = .ok { s with stack := negTok :: s.stack } := by
  have hbad := stack_not_bad T s.stack hok
  have hpop : popWhile (popIt T.tn true) (s.stack.length + 1) s = .ok s := by
    cases hst : s.stack with
    | nil => simp [popWhile, hst]
    | cons t st =>
      have : popIt T.tn true t = false := by
        cases hop : isOperator t with
        | false => simp [popIt, hop]
        | true =>
          obtain ⟨i, rfl⟩ := hok t (by rw [hst]; simp) hop
          cases i with
          | bin o =>
            have := T.top o
            have h2 : ¬ T.tn < T.tp o := by omega
            simp [popIt, OpItem.tok, T.bin o, h2]
          | neg => simp [popIt, OpItem.tok, T.neg]
      simp [popWhile, hst, this]
  rw [step_operator s negTok T.tn true (OpItem.tok_isOp .neg) (by simp [negTok]) (by simp [negTok])
    (by simp [negTok]) T.neg hbad, hpop]
  rfl

/-- a closing parenthesis of a sub-expression -/
theorem step_rp (s : SY) (pend : List OpItem) (st : List Tok)
    (hs : s.stack = toksOf pend ++ lpTok' :: st)
    (hst : match st with | [] => True | f :: _ => f.t ≠ .function) :
    step s rpTok' = .ok { s with output := s.output ++ nodesOf pend, stack := st } := by
  have hfuel : pend.length < s.stack.length + 1 := by rw [hs]; simp [toksOf]; omega
  have hpop := popWhile_pend (fun x => decide (x.st ≠ .start)) pend (lpTok' :: st) s (s.stack.length + 1)
    (by intro x _; simpa using x.st_ne_start) (by simp [lpTok']) hfuel
  have hs' : s = { s with stack := toksOf pend ++ lpTok' :: st } := by rw [← hs]
  rw [hs'] at hpop ⊢
  simp only [step, rpTok', isOperator]
  simp only [show (TType.subexpr = TType.operand) = False by simp, show (TType.subexpr = TType.function) = False by simp,
    show (TType.subexpr = TType.argument) = False by simp, show (TType.subexpr = TType.opPre) = False by simp,
    show (TType.subexpr = TType.opIn) = False by simp, show (TType.subexpr = TType.opPost) = False by simp,
    show (TSub.stop = TSub.start) = False by simp,
    if_false, decide_false, Bool.or_self, Bool.false_eq_true, if_true]
  rw [hpop]
  cases st with
  | nil => rfl
  | cons f st' =>
    simp only at hst
    simp [hst]

/-- the closing parenthesis of a call -/
theorem step_argRp (s : SY) (pend : List OpItem) (f : List Char) (st : List Tok) (w : Bool) (wv : List Bool)
    (k : Nat) (ac : List Nat)
    (hs : s.stack = toksOf pend ++ argLp :: fnName f :: st) (hw : s.wereValues = w :: wv)
    (ha : s.argCount = k :: ac) :
    step s argRp = .ok { output := s.output ++ nodesOf pend ++ [.func (fnName f) (if w then k + 1 else k)],
                         stack := st, wereValues := wv, argCount := ac } := by
  have hfuel : pend.length < s.stack.length + 1 := by rw [hs]; simp [toksOf]; omega
  have hpop := popWhile_pend (fun x => decide (x.st ≠ .start)) pend (argLp :: fnName f :: st) s (s.stack.length + 1)
    (by intro x _; simpa using x.st_ne_start) (by simp [argLp]) hfuel
  have hs' : s = { s with stack := toksOf pend ++ argLp :: fnName f :: st } := by rw [← hs]
  rw [hs'] at hpop ⊢
  simp only [step, argRp, isOperator]
  simp only [show (TType.arglist = TType.operand) = False by simp, show (TType.arglist = TType.function) = False by simp,
    show (TType.arglist = TType.argument) = False by simp, show (TType.arglist = TType.opPre) = False by simp,
    show (TType.arglist = TType.opIn) = False by simp, show (TType.arglist = TType.opPost) = False by simp,
    show (TSub.stop = TSub.start) = False by simp,
    if_false, decide_false, Bool.or_self, Bool.false_eq_true, if_true]
  rw [hpop]
  simp [fnName, hw, ha, createNode, Except.map]

/-- an argument separator -/
theorem step_comma (s : SY) (pend : List OpItem) (st : List Tok) (wv : List Bool) (k : Nat) (ac : List Nat)
    (hs : s.stack = toksOf pend ++ argLp :: st) (hw : s.wereValues = true :: wv) (ha : s.argCount = k :: ac) :
    step s commaTok = .ok { output := s.output ++ nodesOf pend, stack := argLp :: st,
                            wereValues := false :: wv, argCount := (k + 1) :: ac } := by
  have hfuel : pend.length < s.stack.length + 1 := by rw [hs]; simp [toksOf]; omega
  have hpop := popWhile_pend (fun x => decide (x.st ≠ .start)) pend (argLp :: st) s (s.stack.length + 1)
    (by intro x _; simpa using x.st_ne_start) (by simp [argLp]) hfuel
  have hs' : s = { s with stack := toksOf pend ++ argLp :: st } := by rw [← hs]
  rw [hs'] at hpop ⊢
  simp only [step, commaTok]
  simp only [show (TType.argument = TType.operand) = False by simp,
    show (TType.argument = TType.function) = False by simp, if_false, if_true]
  rw [hpop]
  simp [hw, ha]

/-! ### the main invariant -/

theorem Ok.mono {l l' : Nat} {st : List Tok} (h : Ok l st) (hl : l ≤ l') : Ok l' st := by
  cases st with
  | nil => trivial
  | cons t st =>
    simp only [Ok] at h ⊢
    rcases h with h | ⟨o, rfl, h⟩ | ⟨rfl, h⟩
    · exact Or.inl h
    · exact Or.inr (Or.inl ⟨o, rfl, by omega⟩)
    · exact Or.inr (Or.inr ⟨rfl, by omega⟩)

theorem Ok.nonop {l : Nat} {t : Tok} {st : List Tok} (h1 : isOperator t = false) (h2 : t.t ≠ .function) :
    Ok l (t :: st) := Or.inl ⟨h1, h2⟩

theorem Ok.notFn {l : Nat} {t : Tok} {st : List Tok} (h : Ok l (t :: st)) : t.t ≠ .function := by
  simp only [Ok] at h
  rcases h with h | ⟨o, rfl, _⟩ | ⟨rfl, _⟩
  · exact h.2
  · simp [binTok]
  · simp [negTok]

theorem setTopTrue_idem (l : List Bool) : setTopTrue (setTopTrue l) = setTopTrue l := by
  cases l <;> rfl

/-- after the tokens of `e`: the stack has grown by pending operators of level ≥ level e whose
    flushing completes the RPN of `e`; `were_values` has its top set, `arg_count` is unchanged -/
def After (e : Expr) (s : SY) (r : Except PErr SY) : Prop :=
  ∃ pend out', r = .ok { output := out', stack := toksOf pend ++ s.stack,
                          wereValues := setTopTrue s.wereValues, argCount := s.argCount } ∧
    AllGe e.level pend ∧ out' ++ nodesOf pend = s.output ++ rpn e

def SYInv (e : Expr) : Prop :=
  WF e → ∀ s : SY, StackOK s.stack → Ok e.level s.stack → After e s (run s (ptoks e))

theorem syInv_atom (e : Expr) (tk : Tok) (h1 : ptoks e = [tk]) (h2 : rpn e = [.operand tk])
    (h3 : tk.t = .operand) : SYInv e := by
  intro _ s _ _
  refine ⟨[], s.output ++ [.operand tk], ?_, AllGe.nil _, (by simp [nodesOf, h2])⟩
  rw [h1]
  simp [run, step_operand s tk h3, toksOf]

theorem numTok_t (n : NumLit) (p : Bool) : (numTok n p).t = .operand := by
  cases p <;> rfl

theorem run_args (f : List Char) (st : List Tok) (hst : StackOK st) (wv : List Bool)
    (ac : List Nat) : ∀ (args : List Expr), (∀ x ∈ args, SYInv x) → (∀ x ∈ args, WF x) →
      ∀ (out : List Node) (w : Bool) (k : Nat), (args = [] → w = false) →
      run { output := out, stack := argLp :: fnName f :: st, wereValues := w :: wv, argCount := k :: ac }
          (ptoksArgs args ++ [argRp]) =
        .ok { output := out ++ rpnArgs args ++ [.func (fnName f) (k + args.length)], stack := st,
              wereValues := wv, argCount := ac } := by
  intro args
  induction args with
  | nil =>
    intro _ _ out w k hw
    have := hw rfl
    subst this
    simp only [ptoksArgs, List.nil_append, run]
    rw [step_argRp _ [] f st false wv k ac rfl rfl rfl]
    simp [nodesOf, rpnArgs]
  | cons a as ih =>
    intro hP hwf out w k _
    have hstk : StackOK (argLp :: fnName f :: st) :=
      (hst.cons_nonop (by simp [fnName, isOperator])).cons_nonop (by simp [argLp, isOperator])
    obtain ⟨pend, out', h1, _, h3⟩ := hP a (by simp) (hwf a (by simp))
      { output := out, stack := argLp :: fnName f :: st, wereValues := w :: wv, argCount := k :: ac }
      hstk (Ok.nonop (by simp [argLp, isOperator]) (by simp [argLp]))
    simp only [setTopTrue] at h1
    cases as with
    | nil =>
      rw [ptoksArgs_single, run_append_ok _ h1]
      simp only [run]
      rw [step_argRp _ pend f st true wv k ac rfl rfl rfl]
      simp only [if_true, rpnArgs, List.append_nil, List.length_cons, List.length_nil, Nat.zero_add]
      rw [h3]
    | cons a' as' =>
      rw [ptoksArgs_cons2, List.append_assoc, run_append_ok _ h1]
      simp only [List.cons_append, run]
      rw [step_comma _ pend (fnName f :: st) wv k ac rfl rfl rfl]
      simp only
      have := ih (fun x hx => hP x (by simp [hx])) (fun x hx => hwf x (by simp [hx]))
        (out' ++ nodesOf pend) false (k + 1) (by intro h; cases h)
      rw [this, h3]
      simp only [rpnArgs, List.append_assoc, List.length_cons]
      rw [show k + 1 + (as'.length + 1) = k + (as'.length + 1 + 1) by omega]

theorem syInv (T : Tbl) : ∀ e, SYInv e := by
  intro e
  induction e using Expr.ind with
  | num n p => exact syInv_atom _ (numTok n p) (by simp [ptoks]) (by simp [rpn]) (numTok_t n p)
  | str s => exact syInv_atom _ (strTok s) (by simp [ptoks]) (by simp [rpn]) rfl
  | bool b => exact syInv_atom _ (boolTok b) (by simp [ptoks]) (by simp [rpn]) rfl
  | err c => exact syInv_atom _ (errTok c) (by simp [ptoks]) (by simp [rpn]) rfl
  | ref r => exact syInv_atom _ (refTok r) (by simp [ptoks]) (by simp [rpn]) rfl
  | neg e ih =>
    intro hwf s hok _
    simp only [WF] at hwf
    obtain ⟨pend, out', h1, h2, h3⟩ := ih hwf.1 { s with stack := negTok :: s.stack }
      (hok.cons_op .neg) (Or.inr (Or.inr ⟨rfl, hwf.2⟩))
    refine ⟨pend ++ [.neg], out', ?_, ?_, ?_⟩
    · simp only [ptoks, run, step_neg T s hok]
      simpa [toksOf, OpItem.tok] using h1
    · intro x hx
      rcases List.mem_append.mp hx with hx | hx
      · exact Nat.le_trans hwf.2 (h2 x hx)
      · simp at hx; subst hx; simp [OpItem.lvl, Expr.level]
    · simp only [nodesOf, List.map_append, List.map_cons, List.map_nil, OpItem.tok, rpn] at h3 ⊢
      rw [← List.append_assoc, h3]; simp
  | bin o l r ihl ihr =>
    intro hwf s hok hctx
    simp only [WF] at hwf
    obtain ⟨hwl, hwr, hl, hr⟩ := hwf
    simp only [Expr.level] at hctx
    obtain ⟨pl, out1, h1, h2, h3⟩ := ihl hwl s hok (hctx.mono hl)
    have hstep := step_bin T o
      { output := out1, stack := toksOf pl ++ s.stack, wereValues := setTopTrue s.wereValues,
        argCount := s.argCount } pl s.stack rfl hok (h2.mono hl) hctx
    obtain ⟨pr, out2, h4, h5, h6⟩ := ihr hwr
      { output := out1 ++ nodesOf pl, stack := binTok o :: s.stack,
        wereValues := setTopTrue s.wereValues, argCount := s.argCount }
      (hok.cons_op (.bin o)) (Or.inr (Or.inl ⟨o, rfl, hr⟩))
    refine ⟨pr ++ [.bin o], out2, ?_, ?_, ?_⟩
    · simp only [ptoks]
      rw [run_append_ok _ h1]
      simp only [run, hstep]
      simpa [toksOf, OpItem.tok, setTopTrue_idem] using h4
    · intro x hx
      rcases List.mem_append.mp hx with hx | hx
      · exact Nat.le_of_lt (Nat.lt_of_lt_of_le hr (h5 x hx))
      · simp at hx; subst hx; simp [OpItem.lvl, Expr.level]
    · simp only [nodesOf, List.map_append, List.map_cons, List.map_nil, OpItem.tok, rpn] at h6 h3 ⊢
      rw [← List.append_assoc, h6, h3]; simp
  | paren e ih =>
    intro hwf s hok hctx
    simp only [WF] at hwf
    obtain ⟨pend, out', h1, _, h3⟩ := ih hwf { s with stack := lpTok' :: s.stack }
      (hok.cons_nonop (by simp [lpTok', isOperator])) (Ok.nonop (by simp [lpTok', isOperator]) (by simp [lpTok']))
    refine ⟨[], out' ++ nodesOf pend, ?_, AllGe.nil _, (by simp [nodesOf, rpn] at h3 ⊢; exact h3)⟩
    simp only [ptoks, List.cons_append, run, step_lp]
    rw [run_append_ok _ h1]
    simp only [run]
    rw [step_rp _ pend s.stack rfl (by
      cases hs : s.stack with
      | nil => trivial
      | cons t st => rw [hs] at hctx; exact hctx.notFn)]
    simp [toksOf]
  | call a f args ih =>
    intro hwf s hok _
    simp only [WF] at hwf
    have hargs := (WFs_iff args).mp hwf.2
    refine ⟨[], s.output ++ rpnArgs args ++ [.func (fnName f) args.length], ?_,
      AllGe.nil _, (by simp [nodesOf, rpn])⟩
    simp only [ptoks, List.cons_append, run, step_fn, step_argLp]
    have := run_args f s.stack hok (setTopTrue s.wereValues) s.argCount args ih hargs s.output false 0
      (fun _ => rfl)
    simp only [Nat.zero_add] at this
    rw [this]
    simp [toksOf]

/-! ### `drain`, `prepare`, `buildAst` -/

theorem drain_after (e : Expr) (r : Except PErr SY) (h : After e {} r) :
    (match r with | .ok s => drain s | .error x => .error x) = .ok (rpn e) := by
  obtain ⟨pend, out', rfl, _, h3⟩ := h
  simp only [drain]
  have := popWhile_pend (fun x => decide (x.st ≠ .start) && decide (x.st ≠ .stop)) pend []
    { output := out', stack := [], wereValues := setTopTrue [], argCount := [] } (pend.length + 1)
    (by intro x _; simp [x.st_ne_start, x.st_ne_stop]) trivial (by omega)
  simp only [List.append_nil] at this ⊢
  simp only [toksOf, List.length_map] at this ⊢
  rw [this]
  simpa using h3

theorem prepare_append (a b : List Tok) : prepare [] (a ++ b) = prepare [] a ++ prepare [] b := by
  induction a with
  | nil => rfl
  | cons t ts ih =>
    simp only [List.cons_append, prepare]
    split <;> (try split) <;> (try split) <;> (try split) <;> (try split) <;>
      (try cases t.v) <;> simp [ih, Model.Value.lookup]

theorem prepare_toks (e : Expr) : prepare [] (toks e) = ptoks e := by
  induction e using Expr.rec (motive_2 := fun as => prepare [] (toksArgs as) = ptoksArgs as) with
  | num n p => cases p <;> simp [toks, ptoks, prepare, numTok]
  | str s => simp [toks, ptoks, prepare, strTok]
  | bool b => simp [toks, ptoks, prepare, boolTok]
  | err c => simp [toks, ptoks, prepare, errTok]
  | ref r => simp [toks, ptoks, prepare, refTok, Model.Value.lookup]
  | neg e ih => simp [toks, ptoks, prepare, negTok, ih]
  | bin o l r ihl ihr =>
    simp only [toks, ptoks, prepare_append, ihl]
    simp [prepare, binTok, ihr]
  | paren e ih =>
    simp only [toks, ptoks, prepare, lpTok, List.cons_append]
    simp [prepare_append, ih, prepare, rpTok, lpTok', rpTok']
  | call a f args ih =>
    simp only [toks, ptoks, prepare, fnTok, List.cons_append]
    simp [prepare_append, ih, prepare, fnStop, fnName, argLp, argRp, tok]
  | nil => rfl
  | cons a as iha ihas =>
    cases as with
    | nil => simpa [toksArgs, ptoksArgs] using iha
    | cons a' as' =>
      rw [toksArgs_cons2, ptoksArgs_cons2, prepare_append, iha]
      simp only [prepare, commaTok]
      simp [ihas]

/-- the shunting yard proper (after `prepare` and the `:` check) on the tokens of a well-formed `e` -/
theorem sy_core (T : Tbl) (e : Expr) (hwf : WF e) :
    (match (ptoks e).foldlM step ({} : SY) with
     | Except.error x => Except.error x
     | Except.ok s => drain s) = .ok (rpn e) := by
  rw [foldlM_eq_run]
  have := syInv T e hwf {} (by intro x hx; cases hx) trivial
  have h := drain_after e _ this
  cases hr : run {} (ptoks e) with
  | error x => rw [hr] at h; exact h
  | ok s => rw [hr] at h; exact h

/-! ### `buildAst` -/

theorem build_rpn (e : Expr) : ∀ (rest : List Node) (st : List Ast),
    buildAst (rpn e ++ rest) st = buildAst rest (astOf e :: st) := by
  induction e using Expr.rec (motive_2 := fun as => ∀ (rest : List Node) (st : List Ast),
      buildAst (rpnArgs as ++ rest) st = buildAst rest ((astsOf as).reverse ++ st)) with
  | num n p => intro rest st; simp [rpn, buildAst, astOf]
  | str s => intro rest st; simp [rpn, buildAst, astOf]
  | bool b => intro rest st; simp [rpn, buildAst, astOf]
  | err c => intro rest st; simp [rpn, buildAst, astOf]
  | ref r => intro rest st; simp [rpn, buildAst, astOf]
  | neg e ih =>
    intro rest st
    simp only [rpn, List.append_assoc, ih, List.cons_append, List.nil_append, buildAst, astOf]
    simp [negTok]
  | bin o l r ihl ihr =>
    intro rest st
    simp only [rpn, List.append_assoc, ihl, ihr, List.cons_append, List.nil_append, buildAst, astOf]
    simp [binTok]
  | paren e ih => intro rest st; simpa [rpn, astOf] using ih rest st
  | call a f args ih =>
    intro rest st
    simp only [rpn, List.append_assoc, ih, List.cons_append, List.nil_append, buildAst, astOf]
    have hl : ((astsOf args).reverse ++ st).length ≥ args.length := by simp [astsOf_length]
    have h1 : ¬ ((astsOf args).reverse ++ st).length < args.length := by omega
    simp only [h1, if_false]
    have h2 : ((astsOf args).reverse ++ st).take args.length = (astsOf args).reverse := by
      rw [List.take_append_of_le_length (by simp [astsOf_length])]
      rw [List.take_of_length_le (by simp [astsOf_length])]
    have h3 : ((astsOf args).reverse ++ st).drop args.length = st := by
      rw [List.drop_append_of_le_length (by simp [astsOf_length])]
      rw [List.drop_of_length_le (by simp [astsOf_length])]
      rfl
    rw [h2, h3, List.reverse_reverse]
  | nil => rfl
  | cons a as iha ihas =>
    simp only [rpnArgs, List.append_assoc, iha, ihas, astsOf, List.reverse_cons]
    simp

theorem buildAst_rpn (e : Expr) : buildAst (rpn e) [] = .ok (astOf e) := by
  have := build_rpn e [] []
  simpa [buildAst] using this

end XlVerif.Lemmas.C02
