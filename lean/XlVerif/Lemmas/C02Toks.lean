/-
  XlVerif.Lemmas.C02Toks — the token lists, the RPN and the (token-carrying) AST that belong to a
  `Spec.C02.Expr`, as the model of the tokenizer / parser should produce them.  Pure definitions
  (plus the trivial `shape (astOf e) = treeOf e`); the theorems that the model really produces them
  are in `C02Lex`, `C02Pass`, `C02SY`.
-/
import XlVerif.Model.C02
namespace XlVerif.Lemmas.C02
open XlVerif XlVerif.Model.Tokenizer XlVerif.Model.Parser XlVerif.Model.C02 XlVerif.Spec.C02

/-! ### tokens (as they leave `getTokens`, i.e. after pass 4) -/

def numTok (n : NumLit) (pct : Bool) : Tok :=
  if pct then ⟨.f (n.value / 100), .operand, .number⟩ else ⟨.s n.text, .operand, .number⟩
def strTok (s : List Char) : Tok := ⟨.s s, .operand, .text⟩
def boolText (b : Bool) : List Char := if b then ['T', 'R', 'U', 'E'] else ['F', 'A', 'L', 'S', 'E']
def boolTok (b : Bool) : Tok := ⟨.s (boolText b), .operand, .logical⟩
def errTok (c : Code) : Tok := ⟨.s c.text, .operand, .error⟩
def refTok (r : Ref) : Tok := ⟨.s r.denoted, .operand, .range⟩
def negTok : Tok := ⟨.s ['-'], .opPre, .none⟩

def opSub : BinOp → TSub
  | .pow => .math | .mul => .math | .div => .math | .add => .math | .sub => .math | .cat => .concat
  | _ => .logical
def binTok (o : BinOp) : Tok := ⟨.s o.sym, .opIn, opSub o⟩
def lpTok : Tok := ⟨.s [], .subexpr, .start⟩
def rpTok : Tok := ⟨.s [], .subexpr, .stop⟩
def fnTok (f : List Char) : Tok := ⟨.s f, .function, .start⟩
def fnStop : Tok := ⟨.s [], .function, .stop⟩
def commaTok : Tok := ⟨.s [','], .argument, .none⟩

/-- the token of an atom -/
def atomTok : Expr → Option Tok
  | .num n p => some (numTok n p)
  | .str s => some (strTok s)
  | .bool b => some (boolTok b)
  | .err c => some (errTok c)
  | .ref r => some (refTok r)
  | _ => none

mutual
/-- the token list `getTokens` returns for (any rendering of) `e` -/
def toks : Expr → List Tok
  | .num n p => [numTok n p]
  | .str s => [strTok s]
  | .bool b => [boolTok b]
  | .err c => [errTok c]
  | .ref r => [refTok r]
  | .neg e => negTok :: toks e
  | .bin o l r => toks l ++ binTok o :: toks r
  | .paren e => lpTok :: toks e ++ [rpTok]
  | .call _ f args => fnTok f :: toksArgs args ++ [fnStop]
def toksArgs : List Expr → List Tok
  | [] => []
  | a :: as => toks a ++ (match as with | [] => [] | _ :: _ => commaTok :: toksArgs as)
end

/-! ### after `prepare` (step A of `shunting_yard`) -/

def fnName (f : List Char) : Tok := ⟨.s f, .function, .none⟩
def argLp : Tok := ⟨.s ['('], .arglist, .start⟩
def argRp : Tok := ⟨.s [')'], .arglist, .stop⟩
def lpTok' : Tok := ⟨.s ['('], .subexpr, .start⟩
def rpTok' : Tok := ⟨.s [')'], .subexpr, .stop⟩

mutual
def ptoks : Expr → List Tok
  | .num n p => [numTok n p]
  | .str s => [strTok s]
  | .bool b => [boolTok b]
  | .err c => [errTok c]
  | .ref r => [refTok r]
  | .neg e => negTok :: ptoks e
  | .bin o l r => ptoks l ++ binTok o :: ptoks r
  | .paren e => lpTok' :: ptoks e ++ [rpTok']
  | .call _ f args => fnName f :: argLp :: ptoksArgs args ++ [argRp]
def ptoksArgs : List Expr → List Tok
  | [] => []
  | a :: as => ptoks a ++ (match as with | [] => [] | _ :: _ => commaTok :: ptoksArgs as)
end

/-! ### RPN and AST -/

mutual
def rpn : Expr → List Node
  | .num n p => [.operand (numTok n p)]
  | .str s => [.operand (strTok s)]
  | .bool b => [.operand (boolTok b)]
  | .err c => [.operand (errTok c)]
  | .ref r => [.operand (refTok r)]
  | .neg e => rpn e ++ [.operator negTok]
  | .bin o l r => rpn l ++ rpn r ++ [.operator (binTok o)]
  | .paren e => rpn e
  | .call _ f args => rpnArgs args ++ [.func (fnName f) args.length]
def rpnArgs : List Expr → List Node
  | [] => []
  | a :: as => rpn a ++ rpnArgs as
end

mutual
def astOf : Expr → Ast
  | .num n p => .operand (numTok n p)
  | .str s => .operand (strTok s)
  | .bool b => .operand (boolTok b)
  | .err c => .operand (errTok c)
  | .ref r => .operand (refTok r)
  | .neg e => .unop negTok (astOf e)
  | .bin o l r => .binop (binTok o) (astOf l) (astOf r)
  | .paren e => astOf e
  | .call _ f args => .func (fnName f) (astsOf args)
def astsOf : List Expr → List Ast
  | [] => []
  | a :: as => astOf a :: astsOf as
end

theorem ptoksArgs_cons2 (a a' : Expr) (as' : List Expr) :
    ptoksArgs (a :: a' :: as') = ptoks a ++ commaTok :: ptoksArgs (a' :: as') := by
  simp [ptoksArgs]

theorem ptoksArgs_single (a : Expr) : ptoksArgs [a] = ptoks a := by simp [ptoksArgs]

theorem toksArgs_cons2 (a a' : Expr) (as' : List Expr) :
    toksArgs (a :: a' :: as') = toks a ++ commaTok :: toksArgs (a' :: as') := by
  simp [toksArgs]

theorem toksArgs_single (a : Expr) : toksArgs [a] = toks a := by simp [toksArgs]

/-! ### induction principle for the nested type -/

theorem Expr.ind {P : Expr → Prop}
    (num : ∀ n p, P (.num n p)) (str : ∀ s, P (.str s)) (bool : ∀ b, P (.bool b))
    (err : ∀ c, P (.err c)) (ref : ∀ r, P (.ref r))
    (neg : ∀ e, P e → P (.neg e)) (bin : ∀ o l r, P l → P r → P (.bin o l r))
    (paren : ∀ e, P e → P (.paren e))
    (call : ∀ a f args, (∀ x ∈ args, P x) → P (.call a f args)) : ∀ e, P e := by
  intro e
  induction e using Expr.rec (motive_2 := fun as => ∀ x ∈ as, P x) with
  | num n p => exact num n p
  | str s => exact str s
  | bool b => exact bool b
  | err c => exact err c
  | ref r => exact ref r
  | neg e ih => exact neg e ih
  | bin o l r ihl ihr => exact bin o l r ihl ihr
  | paren e ih => exact paren e ih
  | call a f args ih => exact call a f args ih
  | nil => rename_i x hx; cases hx
  | cons a as iha ihas =>
    rename_i x hx
    cases hx with
    | head => exact iha
    | tail _ h => exact ihas x h

theorem WFs_iff (as : List Expr) : WFs as ↔ ∀ a ∈ as, WF a := by
  induction as with
  | nil => simp [WFs]
  | cons a as ih => simp [WFs, ih]

theorem astsOf_length (as : List Expr) : (astsOf as).length = as.length := by
  induction as with
  | nil => rfl
  | cons a as ih => simp [astsOf, ih]

/-! ### `shape` of the expected AST is the denoted tree -/

theorem boolText_ne (b : Bool) : boolText b = "TRUE".toList ↔ b = true := by
  cases b <;> simp [boolText]

theorem shape_astOf (e : Expr) : shape (astOf e) = treeOf e := by
  induction e using Expr.rec (motive_2 := fun as => shapes (astsOf as) = treesOf as) with
  | num n p => cases p <;> simp [astOf, shape, shapeOperand, numTok, treeOf]
  | str s => simp [astOf, shape, shapeOperand, strTok, treeOf]
  | bool b => cases b <;> simp [astOf, shape, shapeOperand, boolTok, boolText, treeOf]
  | err c => simp [astOf, shape, shapeOperand, errTok, treeOf]
  | ref r => simp [astOf, shape, shapeOperand, refTok, treeOf]
  | neg e ih => simp [astOf, shape, negTok, treeOf, ih]
  | bin o l r ihl ihr => simp [astOf, shape, binTok, treeOf, ihl, ihr]
  | paren e ih => simpa [astOf, treeOf] using ih
  | call a f args ih => simp [astOf, shape, fnName, treeOf, ih]
  | nil => rfl
  | cons a as iha ihas => simp [astsOf, shapes, treesOf, iha, ihas]

end XlVerif.Lemmas.C02
