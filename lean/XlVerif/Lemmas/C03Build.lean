/-
  Helper lemmas for C03: what building the model (`read_and_parse_dict` / `parse_archive`) establishes
  about `Model.ranges` and `Model.cells`.
-/
import XlVerif.Lemmas.C03Eval
namespace XlVerif.Lemmas.C03
open XlVerif XlVerif.Model.C03

/-- every registered range holds the matrix `resolve_ranges` gives for its key -/
def RangesOK (wb : Wb) : Prop :=
  ∀ k m, dget wb.ranges k = some m → ∃ sh, resolveRanges k = .val (sh, m)

theorem RangesOK_dset (wb : Wb) (k sh : Text) (m : List (List Text)) (cells : Dict Cell) (names : Dict Defn)
    (h : RangesOK wb) (hr : resolveRanges k = .val (sh, m)) :
    RangesOK { cells := cells, ranges := dset wb.ranges k m, names := names } := by
  intro j mj hj
  by_cases hjk : j = k
  · subst hjk
    rw [dget_dset_same] at hj
    injection hj with hj; subst hj
    exact ⟨sh, hr⟩
  · rw [dget_dset_other _ _ _ _ hjk] at hj
    exact h j mj hj

theorem RangesOK_of_ranges_eq (wb wb' : Wb) (h : RangesOK wb) (he : wb'.ranges = wb.ranges) : RangesOK wb' := by
  intro k m hk; rw [he] at hk; exact h k m hk

theorem defineName_RangesOK (wb wb' : Wb) (name text : Text) (h : RangesOK wb)
    (hd : defineName wb name text = .val wb') : RangesOK wb' := by
  unfold defineName at hd
  by_cases hcolon : has ':' (nameAddress text) = true
  · cases hr : resolveRanges (nameAddress text) with
    | val p =>
      obtain ⟨sh, m⟩ := p
      simp only [hcolon, Bool.not_true, Bool.false_eq_true, if_false, hr] at hd
      injection hd with hd
      subst hd
      exact RangesOK_dset wb _ sh m _ _ h hr
    | crash k => simp only [hcolon, Bool.not_true, Bool.false_eq_true, if_false, hr] at hd; cases hd
    | nan => simp only [hcolon, Bool.not_true, Bool.false_eq_true, if_false, hr] at hd; cases hd
    | posInf => simp only [hcolon, Bool.not_true, Bool.false_eq_true, if_false, hr] at hd; cases hd
    | negInf => simp only [hcolon, Bool.not_true, Bool.false_eq_true, if_false, hr] at hd; cases hd
    | diverge => simp only [hcolon, Bool.not_true, Bool.false_eq_true, if_false, hr] at hd; cases hd
  · have hcolon' : has ':' (nameAddress text) = false := by simpa using hcolon
    simp only [hcolon', Bool.not_false, if_true] at hd
    by_cases hcell : dhas wb.cells (nameAddress text) = true
    · simp only [hcell, if_true] at hd
      injection hd with hd
      subst hd
      exact RangesOK_of_ranges_eq wb _ h rfl
    · have hcell' : dhas wb.cells (nameAddress text) = false := by simpa using hcell
      simp only [hcell', Bool.false_eq_true, if_false] at hd
      injection hd with hd
      subst hd; exact h

theorem buildDefinedNames_RangesOK : ∀ (names : List (Text × Text)) (wb wb' : Wb), RangesOK wb →
    buildDefinedNames names wb = .val wb' → RangesOK wb'
  | [], wb, wb', h, hb => by
    simp only [buildDefinedNames] at hb
    injection hb with hb; subst hb; exact h
  | (n, t) :: rest, wb, wb', h, hb => by
    simp only [buildDefinedNames] at hb
    cases hd : defineName wb n t with
    | val wb1 =>
      simp only [hd] at hb
      exact buildDefinedNames_RangesOK rest wb1 wb' (defineName_RangesOK wb wb1 n t h hd) hb
    | crash k => simp only [hd] at hb; cases hb
    | nan => simp only [hd] at hb; cases hb
    | posInf => simp only [hd] at hb; cases hb
    | negInf => simp only [hd] at hb; cases hb
    | diverge => simp only [hd] at hb; cases hb

/-! ### `addBlankCells`: only adds cells, every listed address has one afterwards -/

theorem dhas_dset_same {α} (d : Dict α) (k : Text) (v : α) : dhas (dset d k v) k = true := by
  unfold dhas; rw [dget_dset_same]; rfl

theorem dhas_dset_mono {α} (d : Dict α) (k j : Text) (v : α) (h : dhas d j = true) : dhas (dset d k v) j = true := by
  by_cases hjk : j = k
  · subst hjk; exact dhas_dset_same d j v
  · unfold dhas at *; rw [dget_dset_other _ _ _ _ hjk]; exact h

theorem addBlankCells_spec : ∀ (l : List Text) (cells cells' : Dict Cell), addBlankCells l cells = .val cells' →
    (∀ a ∈ l, dhas cells' a = true) ∧ (∀ k, dhas cells k = true → dget cells' k = dget cells k) ∧
    (∀ k, dhas cells k = false → dhas cells' k = true → dget cells' k = some ⟨.blank, none⟩)
  | [], cells, cells', h => by
    simp only [addBlankCells] at h
    injection h with h; subst h
    exact ⟨by simp, fun _ _ => rfl, (fun k h1 h2 => by rw [h1] at h2; cases h2)⟩
  | a :: rest, cells, cells', h => by
    unfold addBlankCells at h
    by_cases ha : dhas cells a = true
    · simp only [ha, if_true] at h
      obtain ⟨h1, h2, h3⟩ := addBlankCells_spec rest cells cells' h
      refine ⟨?_, h2, h3⟩
      intro b hb
      rcases List.mem_cons.mp hb with rfl | hb
      · unfold dhas; rw [h2 b ha]; exact ha
      · exact h1 b hb
    · have ha' : dhas cells a = false := by simpa using ha
      simp only [ha', Bool.false_eq_true, if_false] at h
      cases hx : xlCellCheck a with
      | val u =>
        simp only [hx] at h
        obtain ⟨h1, h2, h3⟩ := addBlankCells_spec rest (dset cells a ⟨.blank, none⟩) cells' h
        have hnew : dget cells' a = some ⟨.blank, none⟩ := by
          rw [h2 a (dhas_dset_same _ _ _), dget_dset_same]
        refine ⟨?_, ?_, ?_⟩
        · intro b hb
          rcases List.mem_cons.mp hb with rfl | hb
          · unfold dhas; rw [hnew]; rfl
          · exact h1 b hb
        · intro k hk
          have hka : k ≠ a := by intro e; subst e; rw [ha'] at hk; cases hk
          rw [h2 k (dhas_dset_mono _ _ _ _ hk), dget_dset_other _ _ _ _ hka]
        · intro k hk1 hk2
          by_cases hka : k = a
          · subst hka; exact hnew
          · have : dhas (dset cells a ⟨.blank, none⟩) k = false := by
              unfold dhas at *; rw [dget_dset_other _ _ _ _ hka]; exact hk1
            exact h3 k this hk2
      | crash k => simp only [hx] at h; cases h
      | nan => simp only [hx] at h; cases h
      | posInf => simp only [hx] at h; cases h
      | negInf => simp only [hx] at h; cases h
      | diverge => simp only [hx] at h; cases h

/-- one term of `build_ranges`: a range term is registered under its own text with the matrix of
    `resolve_ranges`, and afterwards every member has a cell; existing cells are untouched, new ones are
    blank (`None`). -/
theorem buildRangesTerm_spec (dflt : Text) (wb wb' : Wb) (term : Text) (hok : RangesOK wb)
    (hb : buildRangesTerm dflt wb term = .val wb') :
    RangesOK wb' ∧ wb'.names = wb.names ∧
    (∀ k, dhas wb.cells k = true → dget wb'.cells k = dget wb.cells k) ∧
    (∀ k, dhas wb.cells k = false → dhas wb'.cells k = true → dget wb'.cells k = some ⟨.blank, none⟩) ∧
    (has ':' term = true → has '!' term = true →
      ∃ sh m, resolveRanges term = .val (sh, m) ∧ dget wb'.ranges term = some m ∧
        ∀ a ∈ m.flatten, dhas wb'.cells a = true) := by
  unfold buildRangesTerm at hb
  by_cases hcolon : has ':' term = true
  · simp only [hcolon, if_true] at hb
    cases hr : resolveRanges (if has '!' term = true then term else dflt ++ ['!'] ++ term) with
    | val p =>
      obtain ⟨sh, m⟩ := p
      simp only [hr, dget_dset_same] at hb
      cases hadd : addBlankCells m.flatten wb.cells with
      | val cells =>
        simp only [hadd] at hb
        injection hb with hb
        subst hb
        obtain ⟨h1, h2, h3⟩ := addBlankCells_spec _ _ _ hadd
        refine ⟨RangesOK_dset wb _ sh m _ _ hok hr, rfl, h2, h3, ?_⟩
        intro _ hbang
        simp only [hbang, if_true] at hr
        refine ⟨sh, m, hr, ?_, h1⟩
        simp only [hbang, if_true]
        exact dget_dset_same _ _ _
      | crash k => simp only [hadd] at hb; cases hb
      | nan => simp only [hadd] at hb; cases hb
      | posInf => simp only [hadd] at hb; cases hb
      | negInf => simp only [hadd] at hb; cases hb
      | diverge => simp only [hadd] at hb; cases hb
    | crash k => simp only [hr] at hb; cases hb
    | nan => simp only [hr] at hb; cases hb
    | posInf => simp only [hr] at hb; cases hb
    | negInf => simp only [hr] at hb; cases hb
    | diverge => simp only [hr] at hb; cases hb
  · have hcolon' : has ':' term = false := by simpa using hcolon
    simp only [hcolon', Bool.false_eq_true, if_false] at hb
    cases hg : dget wb.ranges term with
    | none =>
      simp only [hg] at hb
      injection hb with hb; subst hb
      exact ⟨hok, rfl, fun _ _ => rfl, (fun k h1 h2 => by rw [h1] at h2; cases h2),
        (fun h => by rw [hcolon'] at h; cases h)⟩
    | some m =>
      simp only [hg] at hb
      cases hadd : addBlankCells m.flatten wb.cells with
      | val cells =>
        simp only [hadd] at hb
        injection hb with hb
        subst hb
        obtain ⟨_, h2, h3⟩ := addBlankCells_spec _ _ _ hadd
        exact ⟨RangesOK_of_ranges_eq wb _ hok rfl, rfl, h2, h3, (fun h => by rw [hcolon'] at h; cases h)⟩
      | crash k => simp only [hadd] at hb; cases hb
      | nan => simp only [hadd] at hb; cases hb
      | posInf => simp only [hadd] at hb; cases hb
      | negInf => simp only [hadd] at hb; cases hb
      | diverge => simp only [hadd] at hb; cases hb

theorem buildRangesTerms_RangesOK (dflt : Text) : ∀ (terms : List Text) (wb wb' : Wb), RangesOK wb →
    buildRangesTerms dflt terms wb = .val wb' → RangesOK wb'
  | [], wb, wb', h, hb => by
    simp only [buildRangesTerms] at hb
    injection hb with hb; subst hb; exact h
  | t :: rest, wb, wb', h, hb => by
    simp only [buildRangesTerms] at hb
    cases hd : buildRangesTerm dflt wb t with
    | val wb1 =>
      simp only [hd] at hb
      exact buildRangesTerms_RangesOK dflt rest wb1 wb' (buildRangesTerm_spec dflt wb wb1 t h hd).1 hb
    | crash k => simp only [hd] at hb; cases hb
    | nan => simp only [hd] at hb; cases hb
    | posInf => simp only [hd] at hb; cases hb
    | negInf => simp only [hd] at hb; cases hb
    | diverge => simp only [hd] at hb; cases hb

/-- a term of `build_ranges` never disturbs a range that is registered already -/
theorem buildRangesTerm_keeps (dflt : Text) (wb wb' : Wb) (term : Text) (hok : RangesOK wb)
    (hb : buildRangesTerm dflt wb term = .val wb') :
    ∀ k m, dget wb.ranges k = some m → dget wb'.ranges k = some m := by
  intro k m hk
  unfold buildRangesTerm at hb
  by_cases hcolon : has ':' term = true
  · simp only [hcolon, if_true] at hb
    cases hr : resolveRanges (if has '!' term = true then term else dflt ++ ['!'] ++ term) with
    | val p =>
      obtain ⟨sh, m'⟩ := p
      simp only [hr, dget_dset_same] at hb
      cases hadd : addBlankCells m'.flatten wb.cells with
      | val cells =>
        simp only [hadd] at hb
        injection hb with hb
        subst hb
        by_cases hkr : k = (if has '!' term = true then term else dflt ++ ['!'] ++ term)
        · obtain ⟨sh0, h0⟩ := hok k m hk
          rw [hkr] at h0
          rw [h0] at hr
          injection hr with hr
          injection hr with _ hm
          show dget (dset wb.ranges _ m') k = some m
          rw [hkr, dget_dset_same, hm]
        · show dget (dset wb.ranges _ m') k = some m
          rw [dget_dset_other _ _ _ _ hkr]; exact hk
      | crash k => simp only [hadd] at hb; cases hb
      | nan => simp only [hadd] at hb; cases hb
      | posInf => simp only [hadd] at hb; cases hb
      | negInf => simp only [hadd] at hb; cases hb
      | diverge => simp only [hadd] at hb; cases hb
    | crash k => simp only [hr] at hb; cases hb
    | nan => simp only [hr] at hb; cases hb
    | posInf => simp only [hr] at hb; cases hb
    | negInf => simp only [hr] at hb; cases hb
    | diverge => simp only [hr] at hb; cases hb
  · have hcolon' : has ':' term = false := by simpa using hcolon
    simp only [hcolon', Bool.false_eq_true, if_false] at hb
    cases hg : dget wb.ranges term with
    | none =>
      simp only [hg] at hb
      injection hb with hb; subst hb; exact hk
    | some m0 =>
      simp only [hg] at hb
      cases hadd : addBlankCells m0.flatten wb.cells with
      | val cells =>
        simp only [hadd] at hb
        injection hb with hb
        subst hb; exact hk
      | crash k => simp only [hadd] at hb; cases hb
      | nan => simp only [hadd] at hb; cases hb
      | posInf => simp only [hadd] at hb; cases hb
      | negInf => simp only [hadd] at hb; cases hb
      | diverge => simp only [hadd] at hb; cases hb

/-- **`build_ranges` registers every range term it is given** (and keeps the ranges registered before) -/
theorem buildRangesTerms_registers (dflt : Text) : ∀ (terms : List Text) (wb wb' : Wb), RangesOK wb →
    buildRangesTerms dflt terms wb = .val wb' →
    (∀ k m, dget wb.ranges k = some m → dget wb'.ranges k = some m) ∧
    ∀ t ∈ terms, has ':' t = true → has '!' t = true →
      ∃ sh m, resolveRanges t = .val (sh, m) ∧ dget wb'.ranges t = some m
  | [], wb, wb', _, hb => by
    simp only [buildRangesTerms] at hb
    injection hb with hb; subst hb
    exact ⟨fun _ _ h => h, fun t ht => by cases ht⟩
  | t0 :: rest, wb, wb', hok, hb => by
    simp only [buildRangesTerms] at hb
    cases hd : buildRangesTerm dflt wb t0 with
    | val wb1 =>
      simp only [hd] at hb
      obtain ⟨hok1, _, _, _, hreg⟩ := buildRangesTerm_spec dflt wb wb1 t0 hok hd
      have hkeep := buildRangesTerm_keeps dflt wb wb1 t0 hok hd
      obtain ⟨hk2, hr2⟩ := buildRangesTerms_registers dflt rest wb1 wb' hok1 hb
      refine ⟨fun k m h => hk2 k m (hkeep k m h), ?_⟩
      intro t ht h1 h2
      rcases List.mem_cons.mp ht with rfl | ht
      · obtain ⟨sh, m, e1, e2, _⟩ := hreg h1 h2
        exact ⟨sh, m, e1, hk2 _ _ e2⟩
      · exact hr2 t ht h1 h2
    | crash k => simp only [hd] at hb; cases hb
    | nan => simp only [hd] at hb; cases hb
    | posInf => simp only [hd] at hb; cases hb
    | negInf => simp only [hd] at hb; cases hb
    | diverge => simp only [hd] at hb; cases hb

/-- **the model built from a dict / an archive holds, for every registered range (formula ranges and
    named ranges), exactly the matrix `resolve_ranges` gives for its key.** -/
theorem compile_RangesOK (dflt : Text) (items : List (Text × Item)) (names : List (Text × Text)) (wb : Wb)
    (h : compile dflt items names = .val wb) : RangesOK wb := by
  unfold compile at h
  cases hc : readCells dflt items [] with
  | val cells =>
    simp only [hc] at h
    cases hn : buildDefinedNames names { cells := cells } with
    | val wb1 =>
      simp only [hn] at h
      have ok1 : RangesOK wb1 := buildDefinedNames_RangesOK names _ wb1 (by intro k m hk; cases hk) hn
      cases hbr : buildRanges dflt wb1 with
      | val wb2 =>
        simp only [hbr] at h
        injection h with h
        subst h
        unfold buildRanges at hbr
        exact RangesOK_of_ranges_eq wb2 _ (buildRangesTerms_RangesOK dflt _ wb1 wb2 ok1 hbr) rfl
      | crash k => simp only [hbr] at h; cases h
      | nan => simp only [hbr] at h; cases h
      | posInf => simp only [hbr] at h; cases h
      | negInf => simp only [hbr] at h; cases h
      | diverge => simp only [hbr] at h; cases h
    | crash k => simp only [hn] at h; cases h
    | nan => simp only [hn] at h; cases h
    | posInf => simp only [hn] at h; cases h
    | negInf => simp only [hn] at h; cases h
    | diverge => simp only [hn] at h; cases h
  | crash k => simp only [hc, Out.map] at h; cases h
  | nan => simp only [hc, Out.map] at h; cases h
  | posInf => simp only [hc, Out.map] at h; cases h
  | negInf => simp only [hc, Out.map] at h; cases h
  | diverge => simp only [hc, Out.map] at h; cases h

end XlVerif.Lemmas.C03
