/-
  Helper lemmas for C03: bijective base 26 (`col2num` / `num2col`, openpyxl's pair) and decimal
  numerals (`natRepr` / `digitsVal`).
-/
import XlVerif.Model.C03
import Mathlib.Tactic.Ring
namespace XlVerif.Lemmas.C03
open XlVerif XlVerif.Model.C03

/-! ### characters -/

theorem toNat_ofNat_small (n : Nat) (h : n < 55296) : (Char.ofNat n).toNat = n := by
  unfold Char.ofNat
  have hv : n.isValidChar := Or.inl h
  simp only [hv, dite_true]
  rfl

theorem upperLetter_toNat (r : Nat) (h : r ≤ 26) : (upperLetter r).toNat = 64 + r := by
  unfold upperLetter; exact toNat_ofNat_small _ (by omega)

theorem digitChar_toNat (d : Nat) (h : d < 10) : (digitChar d).toNat = 48 + d := by
  unfold digitChar; exact toNat_ofNat_small _ (by omega)

theorem char_eq_of_toNat_eq {a b : Char} (h : a.toNat = b.toNat) : a = b := by
  apply Char.ext
  apply UInt32.toNat_inj.mp
  exact h

theorem upperLetter_of_isUpper (c : Char) (h : isUpper c = true) : upperLetter (c.toNat - 64) = c := by
  unfold isUpper at h
  simp only [Bool.and_eq_true, decide_eq_true_eq] at h
  apply char_eq_of_toNat_eq
  rw [upperLetter_toNat _ (by omega)]; omega

theorem isUpper_upperLetter (r : Nat) (h1 : 1 ≤ r) (h2 : r ≤ 26) : isUpper (upperLetter r) = true := by
  unfold isUpper
  rw [upperLetter_toNat r h2]
  simp only [Bool.and_eq_true, decide_eq_true_eq]; omega

theorem isUpper_ne_dollar (c : Char) (h : isUpper c = true) : (c != '$') = true := by
  unfold isUpper at h
  simp only [Bool.and_eq_true, decide_eq_true_eq] at h
  simp only [bne_iff_ne, ne_eq]
  intro hc; subst hc
  have : ('$' : Char).toNat = 36 := rfl
  omega

/-! ### value of a column name (most significant letter first) -/

/-- `Σ (cᵢ - 64)·26^(len-1-i)` over the natural numbers -/
def lval : Text → Nat
  | [] => 0
  | c :: s => (c.toNat - 64) * 26 ^ s.length + lval s

theorem lval_append_single (s : Text) (c : Char) : lval (s ++ [c]) = 26 * lval s + (c.toNat - 64) := by
  induction s with
  | nil => simp [lval]
  | cons x t ih =>
    simp only [List.cons_append, lval, ih, List.length_append, List.length_cons, List.length_nil]
    ring

theorem col2numRev_append (l : Text) (c : Char) (i : Nat) :
    col2numRev (l ++ [c]) i = col2numRev l i + ((c.toNat : Int) - 64) * (26 : Int) ^ (i + l.length) := by
  induction l generalizing i with
  | nil => simp [col2numRev]
  | cons x t ih =>
    simp only [List.cons_append, col2numRev, ih, List.length_cons]
    have : i + 1 + t.length = i + (t.length + 1) := by omega
    rw [this]; ring

theorem col2numRev_reverse (s : Text) (h : ∀ c ∈ s, isUpper c = true) :
    col2numRev s.reverse 0 = (lval s : Int) := by
  induction s with
  | nil => simp [col2numRev, lval]
  | cons c t ih =>
    have hc : isUpper c = true := h c (by simp)
    have ht : ∀ d ∈ t, isUpper d = true := fun d hd => h d (by simp [hd])
    unfold isUpper at hc
    simp only [Bool.and_eq_true, decide_eq_true_eq] at hc
    rw [List.reverse_cons, col2numRev_append, ih ht, lval]
    simp only [List.length_reverse, Nat.zero_add]
    have : ((c.toNat : Int) - 64) = ((c.toNat - 64 : Nat) : Int) := by omega
    rw [this]; push_cast; ring

theorem filter_ne_dollar (s : Text) (h : ∀ c ∈ s, isUpper c = true) : s.filter (· != '$') = s := by
  apply List.filter_eq_self.mpr
  intro c hc; exact isUpper_ne_dollar c (h c hc)

/-- `col2num` on a non-empty name of upper-case letters is the bijective base-26 value. -/
theorem col2num_eq_lval (s : Text) (hs : s ≠ []) (h : ∀ c ∈ s, isUpper c = true) :
    col2num s = some (lval s : Int) := by
  unfold col2num
  simp only [hs, if_false]
  have hr : ∀ c ∈ s.reverse, isUpper c = true := fun c hc => h c (List.mem_reverse.mp hc)
  rw [filter_ne_dollar _ hr, col2numRev_reverse s h]

/-! ### the loop of `num2col` -/

theorem num2colLoop_upper : ∀ (f q : Nat) (s : Text), (∀ c ∈ s, isUpper c = true) →
    ∀ c ∈ num2colLoop f q s, isUpper c = true
  | 0, _, s, hs => by simpa [num2colLoop] using hs
  | f + 1, q, s, hs => by
    unfold num2colLoop
    split
    · split
      · apply num2colLoop_upper f _ _
        intro c hc
        rcases List.mem_cons.mp hc with rfl | hc
        · exact isUpper_upperLetter 26 (by omega) (by omega)
        · exact hs c hc
      · apply num2colLoop_upper f _ _
        intro c hc
        rcases List.mem_cons.mp hc with rfl | hc
        · exact isUpper_upperLetter _ (by omega) (by omega)
        · exact hs c hc
    · exact hs

theorem num2colLoop_lval : ∀ (f q : Nat) (s : Text), q ≤ f →
    lval (num2colLoop f q s) = q * 26 ^ s.length + lval s
  | 0, q, s, h => by
    have : q = 0 := by omega
    subst this; simp [num2colLoop]
  | f + 1, q, s, h => by
    unfold num2colLoop
    by_cases hq : q > 0
    · simp only [hq, if_true]
      by_cases hr : q % 26 = 0
      · simp only [hr, if_true]
        rw [num2colLoop_lval f _ _ (by omega)]
        simp only [lval, List.length_cons, upperLetter_toNat 26 (by omega)]
        obtain ⟨k, hk⟩ : ∃ k, q = 26 * (k + 1) := ⟨q / 26 - 1, by omega⟩
        have h1 : q / 26 - 1 = k := by omega
        rw [h1, hk]
        have : 64 + 26 - 64 = 26 := by omega
        rw [this]; ring
      · simp only [hr, if_false]
        rw [num2colLoop_lval f _ _ (by omega)]
        simp only [lval, List.length_cons, upperLetter_toNat (q % 26) (by omega)]
        have h2 : 64 + q % 26 - 64 = q % 26 := by omega
        rw [h2]
        have h3 : q = 26 * (q / 26) + q % 26 := by omega
        conv => rhs; rw [h3]
        ring
    · have : q = 0 := by omega
      subst this; simp

theorem num2colLoop_ne_nil : ∀ (f q : Nat) (s : Text), 0 < q → q ≤ f → num2colLoop f q s ≠ []
  | 0, q, s, h0, h => by omega
  | f + 1, q, s, h0, h => by
    intro hnil
    have := num2colLoop_lval (f + 1) q s h
    rw [hnil] at this
    simp only [lval] at this
    have hp : 0 < 26 ^ s.length := Nat.pow_pos (by omega)
    have : 0 < q * 26 ^ s.length := Nat.mul_pos h0 hp
    omega

/-- the loop rebuilds a name from its value: for a name `t` of upper-case letters,
    `num2colLoop f (lval t) acc = t ++ acc` -/
theorem num2colLoop_lval_inv_rev : ∀ (r : Text) (f : Nat) (acc : Text), (∀ c ∈ r, isUpper c = true) →
    lval r.reverse ≤ f → num2colLoop f (lval r.reverse) acc = r.reverse ++ acc := by
  intro r
  induction r with
  | nil =>
    intro f acc _ _
    cases f <;> simp [num2colLoop, lval]
  | cons c r ih =>
    intro f acc hu hf
    have hc : isUpper c = true := hu c (by simp)
    have ht : ∀ d ∈ r, isUpper d = true := fun d hd => hu d (by simp [hd])
    have hcu := hc
    unfold isUpper at hc
    simp only [Bool.and_eq_true, decide_eq_true_eq] at hc
    rw [List.reverse_cons, lval_append_single] at hf ⊢
    cases f with
    | zero => omega
    | succ f =>
      unfold num2colLoop
      have hq : 26 * lval r.reverse + (c.toNat - 64) > 0 := by omega
      simp only [hq, if_true]
      by_cases h26 : c.toNat - 64 = 26
      · have hr : (26 * lval r.reverse + (c.toNat - 64)) % 26 = 0 := by omega
        simp only [hr, if_true]
        have hd : (26 * lval r.reverse + (c.toNat - 64)) / 26 - 1 = lval r.reverse := by omega
        rw [hd, ih f _ ht (by omega)]
        have : upperLetter 26 = c := by
          have := upperLetter_of_isUpper c hcu
          rw [h26] at this; exact this
        rw [this]; simp
      · have hr : (26 * lval r.reverse + (c.toNat - 64)) % 26 = c.toNat - 64 := by omega
        have hr0 : ¬ (26 * lval r.reverse + (c.toNat - 64)) % 26 = 0 := by omega
        simp only [hr0, if_false]
        have hd : (26 * lval r.reverse + (c.toNat - 64)) / 26 = lval r.reverse := by omega
        rw [hd, hr, ih f _ ht (by omega), upperLetter_of_isUpper c hcu]
        simp

theorem num2colLoop_lval_inv (t : Text) (f : Nat) (acc : Text) (hu : ∀ c ∈ t, isUpper c = true)
    (hf : lval t ≤ f) : num2colLoop f (lval t) acc = t ++ acc := by
  have := num2colLoop_lval_inv_rev t.reverse f acc
    (fun c hc => hu c (List.mem_reverse.mp hc)) (by simpa using hf)
  simpa using this

/-- more fuel than needed changes nothing -/
theorem num2colLoop_fuel : ∀ (f g q : Nat) (s : Text), q ≤ f → q ≤ g →
    num2colLoop f q s = num2colLoop g q s
  | 0, g, q, s, h1, _ => by
    have : q = 0 := by omega
    subst this
    cases g <;> simp [num2colLoop]
  | f + 1, 0, q, s, _, h2 => by
    have : q = 0 := by omega
    subst this
    simp [num2colLoop]
  | f + 1, g + 1, q, s, h1, h2 => by
    unfold num2colLoop
    by_cases hq : q > 0
    · simp only [hq, if_true]
      split
      · exact num2colLoop_fuel f g _ _ (by omega) (by omega)
      · exact num2colLoop_fuel f g _ _ (by omega) (by omega)
    · simp [hq]

/-! ### openpyxl's loop is the same loop -/

theorem gclLoop_eq : ∀ (f q : Nat) (s : Text), gclLoop f q s = num2colLoop f q s
  | 0, _, _ => rfl
  | f + 1, q, s => by
    unfold gclLoop num2colLoop
    by_cases hq : q > 0
    · have h0 : q ≠ 0 := by omega
      simp only [hq, h0, ne_eq, not_false_eq_true, if_true]
      split
      · rw [gclLoop_eq f]; rfl
      · rw [gclLoop_eq f]
    · have : q = 0 := by omega
      subst this; simp

/-! ### decimal numerals -/

def allDigits (s : Text) : Prop := ∀ c ∈ s, isDigit c = true

theorem isDigit_digitChar (d : Nat) (h : d < 10) : isDigit (digitChar d) = true := by
  unfold isDigit
  rw [digitChar_toNat d h]
  simp only [Bool.and_eq_true, decide_eq_true_eq]; omega

/-- value of a digit string, with an accumulator -/
theorem digitsVal_foldl (s : Text) (a : Nat) :
    s.foldl (fun a c => a * 10 + (c.toNat - 48)) a = a * 10 ^ s.length + digitsVal s := by
  unfold digitsVal
  induction s generalizing a with
  | nil => simp
  | cons c t ih =>
    simp only [List.foldl_cons, List.length_cons]
    rw [ih, ih (0 * 10 + (c.toNat - 48))]
    ring

theorem digitsVal_cons (c : Char) (s : Text) :
    digitsVal (c :: s) = (c.toNat - 48) * 10 ^ s.length + digitsVal s := by
  have := digitsVal_foldl s (0 * 10 + (c.toNat - 48))
  unfold digitsVal at this ⊢
  simp only [List.foldl_cons]
  rw [this]
  ring

theorem natReprLoop_spec : ∀ (f n : Nat) (s : Text), n < f → allDigits s →
    allDigits (natReprLoop f n s) ∧ natReprLoop f n s ≠ [] ∧
    digitsVal (natReprLoop f n s) = n * 10 ^ s.length + digitsVal s
  | 0, n, s, h, _ => by omega
  | f + 1, n, s, h, hs => by
    unfold natReprLoop
    by_cases hn : n < 10
    · simp only [hn, if_true]
      refine ⟨?_, by simp, ?_⟩
      · intro c hc
        rcases List.mem_cons.mp hc with rfl | hc
        · exact isDigit_digitChar n hn
        · exact hs c hc
      · rw [digitsVal_cons, digitChar_toNat n hn]
        have : 48 + n - 48 = n := by omega
        rw [this]
    · simp only [hn, if_false]
      have hs' : allDigits (digitChar (n % 10) :: s) := by
        intro c hc
        rcases List.mem_cons.mp hc with rfl | hc
        · exact isDigit_digitChar _ (by omega)
        · exact hs c hc
      obtain ⟨h1, h2, h3⟩ := natReprLoop_spec f (n / 10) (digitChar (n % 10) :: s) (by omega) hs'
      refine ⟨h1, h2, ?_⟩
      rw [h3, digitsVal_cons, digitChar_toNat _ (by omega)]
      have e1 : 48 + n % 10 - 48 = n % 10 := by omega
      have e2 : n = 10 * (n / 10) + n % 10 := by omega
      rw [e1, List.length_cons]
      conv => rhs; rw [e2]
      ring

theorem natRepr_digits (n : Nat) : allDigits (natRepr n) ∧ natRepr n ≠ [] ∧ digitsVal (natRepr n) = n := by
  unfold natRepr
  obtain ⟨h1, h2, h3⟩ := natReprLoop_spec (n + 1) n [] (by omega) (by intro c hc; cases hc)
  refine ⟨h1, h2, ?_⟩
  rw [h3]; simp [digitsVal]

theorem natRepr_injective {a b : Nat} (h : natRepr a = natRepr b) : a = b := by
  have ha := (natRepr_digits a).2.2
  have hb := (natRepr_digits b).2.2
  rw [h] at ha; omega

end XlVerif.Lemmas.C03
