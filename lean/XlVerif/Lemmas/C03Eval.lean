/-
  Helper lemmas for C03: the loops of `RangeNode.eval` and association lists.
-/
import XlVerif.Lemmas.C03Text
namespace XlVerif.Lemmas.C03
open XlVerif XlVerif.Model.C03

/-! ### association lists -/

theorem dget_map {α β} (g : Text → α → β) : ∀ (d : Dict α) (k : Text),
    dget (d.map fun kc => (kc.1, g kc.1 kc.2)) k = (dget d k).map (g k)
  | [], _ => rfl
  | (k', v) :: d, k => by
    simp only [List.map_cons, dget]
    by_cases h : k' = k
    · subst h; simp
    · simp [h, dget_map g d k]

theorem dget_dset_same {α} : ∀ (d : Dict α) (k : Text) (v : α), dget (dset d k v) k = some v
  | [], k, v => by simp [dset, dget]
  | (k', v') :: d, k, v => by
    by_cases h : k' = k
    · simp [dset, dget, h]
    · simp [dset, dget, h, dget_dset_same d k v]

theorem dget_dset_other {α} : ∀ (d : Dict α) (k j : Text) (v : α), j ≠ k → dget (dset d k v) j = dget d j
  | [], k, j, v, h => by simp [dset, dget, Ne.symm h]
  | (k', v') :: d, k, j, v, h => by
    by_cases hk : k' = k
    · subst hk; simp [dset, dget, Ne.symm h]
    · by_cases hj : k' = j
      · subst hj; simp [dset, dget, hk]
      · simp [dset, dget, hk, hj, dget_dset_other d k j v h]

/-! ### the loops of `RangeNode.eval` -/

/-- the scalar a member evaluates to (blank when the evaluation is not a scalar value) -/
def valOf (ec : Text → Out V) (a : Text) : S :=
  match ec a with
  | .val (.s x) => x
  | _ => .blank

/-- the member evaluates to a scalar value -/
def scalarAt (ec : Text → Out V) (a : Text) : Prop := ∃ x, ec a = .val (.s x)

theorem valOf_of_eq {ec : Text → Out V} {a : Text} {x : S} (h : ec a = .val (.s x)) : valOf ec a = x := by
  unfold valOf; rw [h]

/-- which members of a range are empty, row by row -/
def blankPattern (ec : Text → Out V) (rows : List (List Text)) : List (List Bool) :=
  rows.map fun row => row.map fun a => isEmptyS (valOf ec a)

theorem readRow_ok (me : Nat) (ec : Text → Out V) (rest : List Bool) : ∀ (row : List Text) (cnt : Nat),
    (∀ a ∈ row, scalarAt ec a) →
    runOK me cnt (row.map (fun a => isEmptyS (valOf ec a)) ++ rest) = true →
    ∃ cnt', readRow me ec row cnt = .val (row.map (valOf ec), cnt') ∧ runOK me cnt' rest = true
  | [], cnt, _, h => ⟨cnt, by simp [readRow], by simpa using h⟩
  | a :: row, cnt, hs, h => by
    obtain ⟨x, hx⟩ := hs a (by simp)
    have hv := valOf_of_eq hx
    have hs' : ∀ b ∈ row, scalarAt ec b := fun b hb => hs b (by simp [hb])
    simp only [List.map_cons, List.cons_append, hv] at h
    unfold readRow
    simp only [hx]
    by_cases he : isEmptyS x = true
    · simp only [he, runOK, Bool.and_eq_true, decide_eq_true_eq] at h
      obtain ⟨cnt', h1, h2⟩ := readRow_ok me ec rest row (cnt + 1) hs' h.2
      have hgt : ¬ cnt + 1 > me := by omega
      simp only [he, if_true, hgt, if_false, h1, List.map_cons, hv]
      exact ⟨cnt', rfl, h2⟩
    · have he' : isEmptyS x = false := by simpa using he
      simp only [he', runOK] at h
      obtain ⟨cnt', h1, h2⟩ := readRow_ok me ec rest row 0 hs' h
      simp only [he', Bool.false_eq_true, if_false, h1, List.map_cons, hv]
      exact ⟨cnt', rfl, h2⟩

theorem readRows_ok (me : Nat) (ec : Text → Out V) : ∀ (rows : List (List Text)) (er cnt : Nat),
    (∀ row ∈ rows, row ≠ []) → (∀ a ∈ rows.flatten, scalarAt ec a) →
    runOK me cnt (blankPattern ec rows).flatten = true →
    readRows me ec rows er cnt = .val (rows.map fun row => row.map (valOf ec))
  | [], _, _, _, _, _ => by simp [readRows]
  | row :: rows, er, cnt, hne, hs, h => by
    have hrow : ∀ a ∈ row, scalarAt ec a := fun a ha => hs a (by simp [ha])
    have hrest : ∀ a ∈ rows.flatten, scalarAt ec a := fun a ha => hs a (by
      simp only [List.flatten_cons, List.mem_append]; exact Or.inr ha)
    simp only [blankPattern, List.map_cons, List.flatten_cons] at h
    obtain ⟨cnt', h1, h2⟩ := readRow_ok me ec _ row cnt hrow h
    have hx : row.map (valOf ec) ≠ [] := by
      have := hne row (by simp)
      cases row with
      | nil => exact absurd rfl this
      | cons a t => simp
    unfold readRows
    simp only [h1, hx, if_false]
    rw [readRows_ok me ec rows 0 cnt' (fun r hr => hne r (by simp [hr])) hrest h2]
    simp

/-- members that are all empty are read as (possibly fewer) empty values — never as an error -/
theorem readRow_empty (me : Nat) (ec : Text → Out V) : ∀ (row : List Text) (cnt : Nat),
    (∀ a ∈ row, ∃ x, ec a = .val (.s x) ∧ isEmptyS x = true) →
    ∃ xs cnt', readRow me ec row cnt = .val (xs, cnt') ∧ ∀ x ∈ xs, isEmptyS x = true
  | [], cnt, _ => ⟨[], cnt, by simp [readRow], by simp⟩
  | a :: row, cnt, h => by
    obtain ⟨x, hx, he⟩ := h a (by simp)
    unfold readRow
    simp only [hx, he, if_true]
    by_cases hgt : cnt + 1 > me
    · exact ⟨[], cnt + 1, by simp [hgt], by simp⟩
    · obtain ⟨xs, cnt', h1, h2⟩ := readRow_empty me ec row (cnt + 1) (fun b hb => h b (by simp [hb]))
      refine ⟨x :: xs, cnt', by simp [hgt, h1], ?_⟩
      intro y hy
      rcases List.mem_cons.mp hy with rfl | hy
      · exact he
      · exact h2 y hy

theorem readRows_empty (me : Nat) (ec : Text → Out V) : ∀ (rows : List (List Text)) (er cnt : Nat),
    (∀ a ∈ rows.flatten, ∃ x, ec a = .val (.s x) ∧ isEmptyS x = true) →
    ∃ m, readRows me ec rows er cnt = .val m ∧ ∀ x ∈ m.flatten, isEmptyS x = true
  | [], _, _, _ => ⟨[], by simp [readRows], by simp⟩
  | row :: rows, er, cnt, h => by
    obtain ⟨xs, cnt', h1, h2⟩ := readRow_empty me ec row cnt (fun a ha => h a (by simp [ha]))
    have hrest : ∀ a ∈ rows.flatten, ∃ x, ec a = .val (.s x) ∧ isEmptyS x = true := fun a ha => h a (by
      simp only [List.flatten_cons, List.mem_append]; exact Or.inr ha)
    unfold readRows
    simp only [h1]
    by_cases hx : xs = []
    · simp only [hx, if_true]
      by_cases hgt : er + 1 > me
      · exact ⟨[], by simp [hgt], by simp⟩
      · obtain ⟨m, h3, h4⟩ := readRows_empty me ec rows (er + 1) cnt' hrest
        exact ⟨[] :: m, by simp [hgt, h3], by simpa using h4⟩
    · obtain ⟨m, h3, h4⟩ := readRows_empty me ec rows 0 cnt' hrest
      refine ⟨xs :: m, by simp [hx, h3], ?_⟩
      intro y hy
      simp only [List.flatten_cons, List.mem_append] at hy
      rcases hy with hy | hy
      · exact h2 y hy
      · exact h4 y hy

/-! ### the guard of D6 as "longest run of blanks ≤ MAX_EMPTY" -/

theorem maxRunAux_le (me : Nat) : ∀ (l : List Bool) (best cur : Nat),
    maxRunAux best cur l ≤ me ↔ best ≤ me ∧ cur ≤ me ∧ runOK me cur l = true
  | [], best, cur => by simp [maxRunAux, runOK]
  | true :: bs, best, cur => by
    simp only [maxRunAux, runOK, Bool.and_eq_true, decide_eq_true_eq]
    rw [maxRunAux_le me bs best (cur + 1)]
    constructor
    · rintro ⟨h1, h2, h3⟩; exact ⟨h1, by omega, h2, h3⟩
    · rintro ⟨h1, _, h3, h4⟩; exact ⟨h1, h3, h4⟩
  | false :: bs, best, cur => by
    simp only [maxRunAux, runOK]
    rw [maxRunAux_le me bs (max best cur) 0]
    constructor
    · rintro ⟨h1, _, h3⟩; exact ⟨by omega, by omega, h3⟩
    · rintro ⟨h1, h2, h3⟩; exact ⟨by omega, by omega, h3⟩

theorem noTruncation_iff (me : Nat) (pattern : List (List Bool)) :
    noTruncation me pattern = true ↔ maxBlankRun pattern ≤ me := by
  unfold noTruncation maxBlankRun
  rw [maxRunAux_le]; simp

end XlVerif.Lemmas.C03
