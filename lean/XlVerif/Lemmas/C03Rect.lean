/-
  Helper lemmas for C03: `range_boundaries` and `resolve_ranges` on a spelt cell or range.
-/
import XlVerif.Lemmas.C03Text
namespace XlVerif.Lemmas.C03
open XlVerif XlVerif.Model.C03

/-- `sheet + '!'`, or nothing for the empty sheet -/
def sheetPrefix (sheet : Text) : Text := if sheet = [] then [] else sheet ++ ['!']

/-- text of the cell (column `c`, row `r`) behind a sheet prefix -/
def cellKey (pre : Text) (c r : Nat) : Text := pre ++ colLetters c ++ natRepr r

/-- the addresses of a rectangle: rows `r1 … r2`, in each row columns `c1 … c2` -/
def rectTexts (pre : Text) (c1 r1 c2 r2 : Nat) : List (List Text) :=
  (rangeIncl r1 r2).map fun r => (rangeIncl c1 c2).map fun c => cellKey pre c r

theorem optCol_colLetters (c : Nat) (h1 : 1 ≤ c) (h2 : c ≤ 18278) :
    optCol (some (colLetters c)) = .val (some c) := by
  show (columnIndexFromString (colLetters c)).map some = _
  rw [columnIndexFromString_upper _ (colLetters_ne_nil c h1) (colLetters_length c h2) (colLetters_upper c),
    colLetters_lval]
  rfl

theorem optCol_none : optCol none = .val none := rfl

theorem rangeBoundaries_range (d1 : Bool) (c1 : Nat) (d2 : Bool) (r1 : Nat) (d3 : Bool) (c2 : Nat) (d4 : Bool) (r2 : Nat)
    (h1 : 1 ≤ c1) (h1' : c1 ≤ 18278) (h2 : 1 ≤ c2) (h2' : c2 ≤ 18278) :
    rangeBoundaries (rangeText d1 c1 d2 r1 d3 c2 d4 r2) = .val ⟨some c1, some r1, some c2, some r2⟩ := by
  unfold rangeBoundaries
  rw [absoluteRe_range d1 c1 d2 r1 d3 c2 d4 r2 h1 h2 (colLetters_length c1 h1') (colLetters_length c2 h2')]
  simp only [Option.isSome_some, Bool.and_self, Bool.or_self, Bool.not_true, Bool.and_false, Bool.or_false,
    Bool.false_eq_true, if_false, optCol_colLetters c1 h1 h1', optCol_colLetters c2 h2 h2', Option.map_some,
    (natRepr_digits r1).2.2, (natRepr_digits r2).2.2, if_true]

theorem rangeBoundaries_cell (dc : Bool) (c : Nat) (dr : Bool) (r : Nat) (h1 : 1 ≤ c) (h1' : c ≤ 18278) :
    rangeBoundaries (coordText dc c dr r) = .val ⟨some c, some r, some c, some r⟩ := by
  unfold rangeBoundaries
  rw [absoluteRe_cell dc c dr r h1 (colLetters_length c h1')]
  simp only [Option.isSome_some, Option.isSome_none, Bool.false_and, Bool.false_eq_true, if_false,
    optCol_colLetters c h1 h1', optCol_none, Option.map_some, (natRepr_digits r).2.2, Option.map_none]

theorem num2colLoop_zero (f : Nat) (s : Text) : num2colLoop f 0 s = s := by
  cases f <;> simp [num2colLoop]

theorem getColumnLetter_eq (c : Nat) (h1 : 1 ≤ c) (h2 : c ≤ 18278) :
    getColumnLetter (c : Int) = .val (colLetters c) := by
  unfold getColumnLetter
  have hr : ¬ ¬ (1 ≤ (c : Int) ∧ (c : Int) ≤ 18278) := by omega
  simp only [hr, if_false, Int.toNat_natCast]
  by_cases h26 : (c : Int) < 26
  · simp only [h26, if_true]
    unfold colLetters
    obtain ⟨m, rfl⟩ : ∃ m, c = m + 1 := ⟨c - 1, by omega⟩
    unfold num2colLoop
    have e1 : (m + 1) % 26 = m + 1 := by omega
    have e2 : (m + 1) / 26 = 0 := by omega
    have e3 : ¬ (m + 1 = 0) := by omega
    simp only [Nat.zero_lt_succ, if_true, e1, e2, e3, if_false, num2colLoop_zero]
  · simp only [h26, if_false, gclLoop_eq]
    rfl

theorem cellText_eq (pre : Text) (c r : Nat) (h1 : 1 ≤ c) (h2 : c ≤ 18278) :
    cellText pre c r = .val (cellKey pre c r) := by
  unfold cellText cellKey
  rw [getColumnLetter_eq c h1 h2]

theorem mapOut_val {α β} (f : α → Out β) (g : α → β) : ∀ (l : List α), (∀ a ∈ l, f a = .val (g a)) →
    mapOut f l = .val (l.map g)
  | [], _ => rfl
  | a :: l, h => by
    simp only [mapOut, h a (by simp), mapOut_val f g l (fun b hb => h b (by simp [hb])), List.map_cons]

theorem mem_rangeIncl (lo hi x : Nat) : x ∈ rangeIncl lo hi ↔ lo ≤ x ∧ x ≤ hi := by
  unfold rangeIncl
  rw [List.mem_range'_1]; omega

theorem mergeRows_nil (f : Nat) (b : RowSets) : mergeRows f [] b = b := by
  cases f <;> simp [mergeRows]

/-- the matrix printed by `resolve_ranges` for one area -/
theorem matrix_of_area (pre : Text) (c1 r1 c2 r2 : Nat) (h1 : 1 ≤ c1) (h2 : c2 ≤ 18278) :
    mapOut (fun (rc : Nat × List Nat) => mapOut (fun c => cellText pre c rc.1) rc.2) (areaRows c1 r1 c2 r2)
      = .val (rectTexts pre c1 r1 c2 r2) := by
  unfold areaRows rectTexts
  rw [mapOut_val _ (fun (rc : Nat × List Nat) => rc.2.map fun c => cellKey pre c rc.1)]
  · simp [List.map_map, Function.comp_def]
  · intro rc hrc
    obtain ⟨r, _, rfl⟩ := List.mem_map.mp hrc
    apply mapOut_val
    intro c hc
    have := (mem_rangeIncl c1 c2 c).mp hc
    exact cellText_eq pre c r (by omega) (by omega)

theorem orDefault_some (n d : Nat) (h : 1 ≤ n) : orDefault (some n) d = n := by
  cases n with
  | zero => omega
  | succ m => rfl

/-- `resolve_ranges` on an unqualified coordinate text whose boundaries are known -/
theorem resolveRanges_unqualified (coords dflt : Text) (c1 r1 c2 r2 : Nat)
    (hch : ∀ ch ∈ coords, coordChar ch)
    (hb : rangeBoundaries coords = .val ⟨some c1, some r1, some c2, some r2⟩)
    (hc1 : 1 ≤ c1) (hc2 : 1 ≤ c2) (hc2' : c2 ≤ 18278) (hr1 : 1 ≤ r1) (hr2 : 1 ≤ r2) :
    resolveRanges coords dflt = .val (dflt, rectTexts (sheetPrefix dflt) c1 r1 c2 r2) := by
  unfold resolveRanges
  rw [splitOn_no_sep ',' coords (fun c hc => coordChar_ne c (hch c hc) ',' (Or.inl rfl))]
  have hno : has '!' coords = false :=
    has_false '!' coords (fun c hc => coordChar_ne c (hch c hc) '!' (Or.inr (Or.inl rfl)))
  simp only [resolveAreas, hno, Bool.false_eq_true, if_false, hb, orDefault_some _ _ hc1, orDefault_some _ _ hc2,
    orDefault_some _ _ hr1, orDefault_some _ _ hr2, mergeRows_nil, Option.getD_none]
  have := matrix_of_area (if dflt = [] then [] else dflt ++ ['!']) c1 r1 c2 r2 hc1 hc2'
  simp only [this, sheetPrefix]

/-- `resolve_ranges` on a coordinate text behind a sheet prefix `S!` (`S` may itself contain `!`) -/
theorem resolveRanges_qualified (S S' coords dflt : Text) (c1 r1 c2 r2 : Nat)
    (hS2 : ∀ ch ∈ S, ch ≠ ',') (hres : resolveSheet S = some S')
    (hch : ∀ ch ∈ coords, coordChar ch)
    (hb : rangeBoundaries coords = .val ⟨some c1, some r1, some c2, some r2⟩)
    (hc1 : 1 ≤ c1) (hc2 : 1 ≤ c2) (hc2' : c2 ≤ 18278) (hr1 : 1 ≤ r1) (hr2 : 1 ≤ r2) :
    resolveRanges (S ++ '!' :: coords) dflt = .val (S', rectTexts (sheetPrefix S') c1 r1 c2 r2) := by
  unfold resolveRanges
  have hcomma : ∀ c ∈ S ++ '!' :: coords, c ≠ ',' := by
    intro c hc
    rcases List.mem_append.mp hc with h | h
    · exact hS2 c h
    · rcases List.mem_cons.mp h with rfl | h
      · decide
      · exact coordChar_ne c (hch c h) ',' (Or.inl rfl)
  rw [splitOn_no_sep ',' _ hcomma]
  have hhas : has '!' (S ++ '!' :: coords) = true := (has_iff _ _).mpr (by simp)
  have hsplit : rsplitLast '!' (S ++ '!' :: coords) = some (S, coords) :=
    rsplitLast_append '!' S coords (fun c hc => coordChar_ne c (hch c hc) '!' (Or.inr (Or.inl rfl)))
  simp only [resolveAreas, hhas, if_true, hsplit, hres, Option.isSome_none, Bool.false_and, Bool.false_eq_true,
    if_false, hb, orDefault_some _ _ hc1, orDefault_some _ _ hc2, orDefault_some _ _ hr1, orDefault_some _ _ hr2,
    mergeRows_nil, Option.getD_some]
  have := matrix_of_area (if S' = [] then [] else S' ++ ['!']) c1 r1 c2 r2 hc1 hc2'
  simp only [this, sheetPrefix]

/-! ### the addresses of a rectangle are pairwise different -/

theorem span_letters_digits (l1 d1 l2 d2 : Text) (hl1 : ∀ c ∈ l1, isUpper c = true) (hl2 : ∀ c ∈ l2, isUpper c = true)
    (hd1 : allDigits d1) (hd2 : allDigits d2) (h : l1 ++ d1 = l2 ++ d2) : l1 = l2 ∧ d1 = d2 := by
  induction l1 generalizing l2 with
  | nil =>
    cases l2 with
    | nil => exact ⟨rfl, by simpa using h⟩
    | cons c t =>
      exfalso
      simp only [List.nil_append, List.cons_append] at h
      have hc := hl2 c (by simp)
      have hd := hd1 c (by rw [h]; simp)
      have := not_isLetter_of_isDigit c hd
      rw [isLetter_of_isUpper c hc] at this; cases this
  | cons a t ih =>
    cases l2 with
    | nil =>
      exfalso
      simp only [List.nil_append, List.cons_append] at h
      have hc := hl1 a (by simp)
      have hd := hd2 a (by rw [← h]; simp)
      have := not_isLetter_of_isDigit a hd
      rw [isLetter_of_isUpper a hc] at this; cases this
    | cons b u =>
      simp only [List.cons_append, List.cons.injEq] at h
      obtain ⟨rfl, h'⟩ := h
      obtain ⟨e1, e2⟩ := ih u (fun c hc => hl1 c (by simp [hc])) (fun c hc => hl2 c (by simp [hc])) h'
      exact ⟨by rw [e1], e2⟩

/-- **different (column, row) pairs have different address texts** -/
theorem cellKey_injective (pre : Text) {c r c' r' : Nat} (h : cellKey pre c r = cellKey pre c' r') :
    c = c' ∧ r = r' := by
  unfold cellKey at h
  simp only [List.append_assoc] at h
  have h' := List.append_cancel_left h
  obtain ⟨e1, e2⟩ := span_letters_digits _ _ _ _ (colLetters_upper c) (colLetters_upper c')
    (natRepr_digits r).1 (natRepr_digits r').1 h'
  exact ⟨colLetters_injective e1, natRepr_injective e2⟩

end XlVerif.Lemmas.C03
