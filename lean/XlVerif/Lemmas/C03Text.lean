/-
  Helper lemmas for C03: spelling of references (`$` flags, sheet prefix, quoting) and what the
  text functions of the model (`splitOn`, `absoluteRe`, `resolveSheet`, `tokRef`, …) make of them.
-/
import XlVerif.Lemmas.C03Cols
namespace XlVerif.Lemmas.C03
open XlVerif XlVerif.Model.C03

/-! ### spelling -/

/-- `"$"` or nothing -/
def dollar (b : Bool) : Text := if b then ['$'] else []

/-- column letters of a column number (`num2col` without the error case) -/
def colLetters (c : Nat) : Text := num2colLoop c c []

/-- `[$]COL[$]ROW` -/
def coordText (dc : Bool) (c : Nat) (dr : Bool) (r : Nat) : Text :=
  dollar dc ++ colLetters c ++ dollar dr ++ natRepr r

/-- `[$]C1[$]R1:[$]C2[$]R2` -/
def rangeText (d1 : Bool) (c1 : Nat) (d2 : Bool) (r1 : Nat) (d3 : Bool) (c2 : Nat) (d4 : Bool) (r2 : Nat) : Text :=
  coordText d1 c1 d2 r1 ++ ':' :: coordText d3 c2 d4 r2

/-- a character of a coordinate or range text -/
def coordChar (ch : Char) : Prop := ch = '$' ∨ ch = ':' ∨ isUpper ch = true ∨ isDigit ch = true

theorem colLetters_upper (c : Nat) : ∀ ch ∈ colLetters c, isUpper ch = true :=
  num2colLoop_upper c c [] (by intro _ h; cases h)

theorem colLetters_lval (c : Nat) : lval (colLetters c) = c := by
  unfold colLetters
  rw [num2colLoop_lval c c [] (Nat.le_refl _)]; simp [lval]

theorem colLetters_ne_nil (c : Nat) (h : 1 ≤ c) : colLetters c ≠ [] :=
  num2colLoop_ne_nil c c [] (by omega) (Nat.le_refl _)

theorem colLetters_injective {a b : Nat} (h : colLetters a = colLetters b) : a = b := by
  have := colLetters_lval a
  rw [h, colLetters_lval] at this; exact this.symm

theorem dollar_chars (b : Bool) : ∀ ch ∈ dollar b, ch = '$' := by
  intro ch h; cases b <;> simp [dollar] at h; exact h

theorem coordText_chars (dc : Bool) (c : Nat) (dr : Bool) (r : Nat) : ∀ ch ∈ coordText dc c dr r, coordChar ch := by
  intro ch h
  unfold coordText at h
  simp only [List.mem_append] at h
  rcases h with ((h | h) | h) | h
  · exact Or.inl (dollar_chars _ ch h)
  · exact Or.inr (Or.inr (Or.inl (colLetters_upper c ch h)))
  · exact Or.inl (dollar_chars _ ch h)
  · exact Or.inr (Or.inr (Or.inr ((natRepr_digits r).1 ch h)))

theorem rangeText_chars (d1 : Bool) (c1 : Nat) (d2 : Bool) (r1 : Nat) (d3 : Bool) (c2 : Nat) (d4 : Bool) (r2 : Nat) :
    ∀ ch ∈ rangeText d1 c1 d2 r1 d3 c2 d4 r2, coordChar ch := by
  intro ch h
  unfold rangeText at h
  rcases List.mem_append.mp h with h | h
  · exact coordText_chars _ _ _ _ ch h
  · rcases List.mem_cons.mp h with rfl | h
    · exact Or.inr (Or.inl rfl)
    · exact coordText_chars _ _ _ _ ch h

theorem coordChar_ne (ch : Char) (h : coordChar ch) (x : Char) (hx : x = ',' ∨ x = '!' ∨ x = '\'') : ch ≠ x := by
  intro he; subst he
  rcases hx with rfl | rfl | rfl <;> rcases h with h | h | h | h <;> revert h <;> decide

/-! ### Python text helpers -/

theorem splitOn_ne_nil (sep : Char) (s : Text) : splitOn sep s ≠ [] := by
  induction s with
  | nil => simp [splitOn]
  | cons c t ih =>
    unfold splitOn
    split
    · simp
    · split <;> simp

theorem splitOn_no_sep (sep : Char) (s : Text) (h : ∀ c ∈ s, c ≠ sep) : splitOn sep s = [s] := by
  induction s with
  | nil => rfl
  | cons c t ih =>
    have ht := ih (fun d hd => h d (by simp [hd]))
    have hc : c ≠ sep := h c (by simp)
    unfold splitOn
    rw [ht]; simp [hc]

theorem splitOn_append (sep : Char) (a b : Text) (h : ∀ c ∈ a, c ≠ sep) :
    splitOn sep (a ++ sep :: b) = a :: splitOn sep b := by
  induction a with
  | nil =>
    simp only [List.nil_append]
    rw [splitOn]
    cases hb : splitOn sep b with
    | nil => exact absurd hb (splitOn_ne_nil sep b)
    | cons w ws => simp
  | cons c t ih =>
    have ht := ih (fun d hd => h d (by simp [hd]))
    have hc : c ≠ sep := h c (by simp)
    simp only [List.cons_append]
    rw [splitOn, ht]; simp [hc]

theorem has_iff (c : Char) (s : Text) : has c s = true ↔ c ∈ s := by
  unfold has; simp

theorem has_false (c : Char) (s : Text) (h : ∀ d ∈ s, d ≠ c) : has c s = false := by
  cases hh : has c s with
  | false => rfl
  | true => exact absurd rfl (h c ((has_iff c s).mp hh))

theorem removeChar_append (c : Char) (a b : Text) : removeChar c (a ++ b) = removeChar c a ++ removeChar c b := by
  unfold removeChar; simp

theorem removeChar_id (c : Char) (s : Text) (h : ∀ d ∈ s, d ≠ c) : removeChar c s = s := by
  unfold removeChar
  apply List.filter_eq_self.mpr
  intro d hd; simp [h d hd]

theorem removeChar_dollar (b : Bool) : removeChar '$' (dollar b) = [] := by
  cases b <;> simp [dollar, removeChar]

theorem isUpper_ne (c x : Char) (h : isUpper c = true) (hx : x.toNat < 65 ∨ 90 < x.toNat) : c ≠ x := by
  intro he; subst he
  unfold isUpper at h
  simp only [Bool.and_eq_true, decide_eq_true_eq] at h; omega

theorem isDigit_ne (c x : Char) (h : isDigit c = true) (hx : x.toNat < 48 ∨ 57 < x.toNat) : c ≠ x := by
  intro he; subst he
  unfold isDigit at h
  simp only [Bool.and_eq_true, decide_eq_true_eq] at h; omega

theorem removeChar_coordText (dc : Bool) (c : Nat) (dr : Bool) (r : Nat) :
    removeChar '$' (coordText dc c dr r) = colLetters c ++ natRepr r := by
  unfold coordText
  rw [removeChar_append, removeChar_append, removeChar_append, removeChar_dollar, removeChar_dollar,
    removeChar_id _ (colLetters c) (fun d hd => isUpper_ne d '$' (colLetters_upper c d hd) (by decide)),
    removeChar_id _ (natRepr r) (fun d hd => isDigit_ne d '$' ((natRepr_digits r).1 d hd) (by decide))]
  simp

theorem removeChar_rangeText (d1 : Bool) (c1 : Nat) (d2 : Bool) (r1 : Nat) (d3 : Bool) (c2 : Nat) (d4 : Bool) (r2 : Nat) :
    removeChar '$' (rangeText d1 c1 d2 r1 d3 c2 d4 r2) =
      colLetters c1 ++ natRepr r1 ++ ':' :: (colLetters c2 ++ natRepr r2) := by
  unfold rangeText
  rw [removeChar_append, removeChar_coordText]
  show _ ++ removeChar '$' ([':'] ++ coordText d3 c2 d4 r2) = _
  rw [removeChar_append, removeChar_coordText]
  simp [removeChar]


/-! ### `rsplit('!', 1)` / `rpartition('!')` -/

theorem rsplitLast_none (sep : Char) : ∀ (s : Text), (∀ c ∈ s, c ≠ sep) → rsplitLast sep s = none
  | [], _ => rfl
  | c :: s, h => by
    simp only [rsplitLast, rsplitLast_none sep s (fun d hd => h d (by simp [hd])), h c (by simp), if_false]

/-- splitting at the last separator: whatever the text before it contains -/
theorem rsplitLast_append (sep : Char) : ∀ (a b : Text), (∀ c ∈ b, c ≠ sep) →
    rsplitLast sep (a ++ sep :: b) = some (a, b)
  | [], b, h => by
    simp only [List.nil_append, rsplitLast, rsplitLast_none sep b h, if_true]
  | c :: a, b, h => by
    simp only [List.cons_append, rsplitLast, rsplitLast_append sep a b h]

theorem rsplitLast_none_mem (sep : Char) : ∀ (t : Text), rsplitLast sep t = none → ∀ d ∈ t, d ≠ sep
  | [], _, d, hd => by cases hd
  | x :: t, ht, d, hd => by
    simp only [rsplitLast] at ht
    cases hr2 : rsplitLast sep t with
    | some p => simp [hr2] at ht
    | none =>
      simp only [hr2] at ht
      by_cases hx : x = sep
      · simp [hx] at ht
      · rcases List.mem_cons.mp hd with rfl | hd
        · exact hx
        · exact rsplitLast_none_mem sep t hr2 d hd

theorem rsplitLast_some_mem (sep : Char) : ∀ (s a b : Text), rsplitLast sep s = some (a, b) →
    s = a ++ sep :: b ∧ ∀ c ∈ b, c ≠ sep
  | [], a, b, h => by simp [rsplitLast] at h
  | c :: s, a, b, h => by
    simp only [rsplitLast] at h
    cases hr : rsplitLast sep s with
    | some p =>
      obtain ⟨a', b'⟩ := p
      simp only [hr, Option.some.injEq, Prod.mk.injEq] at h
      obtain ⟨rfl, rfl⟩ := h
      obtain ⟨h1, h2⟩ := rsplitLast_some_mem sep s a' b' hr
      exact ⟨by rw [h1]; rfl, h2⟩
    | none =>
      simp only [hr] at h
      by_cases hc : c = sep
      · simp only [hc, if_true, Option.some.injEq, Prod.mk.injEq] at h
        obtain ⟨rfl, rfl⟩ := h
        exact ⟨by rw [hc]; rfl, rsplitLast_none_mem sep s hr⟩
      · simp [hc] at h

theorem removeChar_ne_mem (c : Char) (s : Text) (x : Char) (h : ∀ d ∈ s, d ≠ x) : ∀ d ∈ removeChar c s, d ≠ x := by
  intro d hd
  unfold removeChar at hd
  exact h d (List.mem_filter.mp hd).1

theorem removeChar_idem (c : Char) (s : Text) : removeChar c (removeChar c s) = removeChar c s := by
  unfold removeChar; simp [List.filter_filter]

/-- a sheet-qualified text: the `$` of the coordinates go, the sheet part stays as it is -/
theorem stripCoordDollar_qualified (S coords : Text) (h : ∀ c ∈ coords, c ≠ '!') :
    stripCoordDollar (S ++ '!' :: coords) = S ++ '!' :: removeChar '$' coords := by
  unfold stripCoordDollar
  rw [rsplitLast_append '!' S coords h]

theorem stripCoordDollar_unqualified (coords : Text) (h : ∀ c ∈ coords, c ≠ '!') :
    stripCoordDollar coords = removeChar '$' coords := by
  unfold stripCoordDollar
  rw [rsplitLast_none '!' coords h]

/-! ### the lexer of `ABSOLUTE_RE` on a spelt coordinate -/

theorem isLetter_of_isUpper (c : Char) (h : isUpper c = true) : isLetter c = true := by
  unfold isLetter; simp [h]

theorem not_isLetter_of_isDigit (c : Char) (h : isDigit c = true) : isLetter c = false := by
  unfold isDigit at h
  unfold isLetter isUpper isLower
  simp only [Bool.and_eq_true, decide_eq_true_eq] at h
  simp only [Bool.or_eq_false_iff, Bool.and_eq_false_iff, decide_eq_false_iff_not]
  constructor <;> omega

/-- the head of a text is not a letter / not a digit / not a dollar (or the text is empty) -/
def headNot (p : Char → Bool) : Text → Prop
  | [] => True
  | c :: _ => p c = false

theorem optDollar_dollar (b : Bool) (s : Text) (h : headNot (· == '$') s) : optDollar (dollar b ++ s) = s := by
  cases b
  · simp only [dollar, Bool.false_eq_true, if_false, List.nil_append]
    cases s with
    | nil => rfl
    | cons c t =>
      simp only [headNot, beq_eq_false_iff_ne, ne_eq] at h
      unfold optDollar
      split
      · rename_i heq; cases heq; exact absurd rfl h
      · rfl
  · simp [dollar, optDollar]

theorem takeLetters_append : ∀ (n : Nat) (col rest : Text), (∀ c ∈ col, isUpper c = true) →
    col.length ≤ n → headNot isLetter rest → takeLetters n (col ++ rest) = (col, rest)
  | 0, col, rest, _, hl, _ => by
    have : col = [] := List.length_eq_zero_iff.mp (by omega)
    subst this; simp [takeLetters]
  | n + 1, [], rest, _, _, hr => by
    cases rest with
    | nil => simp [takeLetters]
    | cons c t =>
      simp only [headNot] at hr
      simp [takeLetters, hr]
  | n + 1, c :: col, rest, hu, hl, hr => by
    have hc : isLetter c = true := isLetter_of_isUpper c (hu c (by simp))
    have ih := takeLetters_append n col rest (fun d hd => hu d (by simp [hd]))
      (by simpa using hl) hr
    simp only [List.cons_append, takeLetters, hc, if_true, ih]

theorem takeDigits_append : ∀ (row rest : Text), allDigits row → headNot isDigit rest →
    takeDigits (row ++ rest) = (row, rest)
  | [], rest, _, hr => by
    cases rest with
    | nil => simp [takeDigits]
    | cons c t =>
      simp only [headNot] at hr
      simp [takeDigits, hr]
  | c :: row, rest, hd, hr => by
    have hc : isDigit c = true := hd c (by simp)
    have ih := takeDigits_append row rest (fun d h => hd d (by simp [h])) hr
    simp only [List.cons_append, takeDigits, hc, if_true, ih]

theorem headNot_of_mem {p q : Char → Bool} (s rest : Text) (hs : s ≠ [])
    (h : ∀ c ∈ s, q c = true) (hpq : ∀ c, q c = true → p c = false) : headNot p (s ++ rest) := by
  cases s with
  | nil => exact absurd rfl hs
  | cons c t => exact hpq c (h c (by simp))

theorem upper_not_dollar (c : Char) (h : isUpper c = true) : (c == '$') = false := by
  simp only [beq_eq_false_iff_ne, ne_eq]
  exact isUpper_ne c '$' h (by decide)

theorem digit_not_dollar (c : Char) (h : isDigit c = true) : (c == '$') = false := by
  simp only [beq_eq_false_iff_ne, ne_eq]
  exact isDigit_ne c '$' h (by decide)

/-- lexing one spelt coordinate that is followed by `rest` -/
theorem lex_coord (dc : Bool) (c : Nat) (dr : Bool) (r : Nat) (rest : Text)
    (hc1 : 1 ≤ c) (hlen : (colLetters c).length ≤ 3) (hrest : headNot isDigit rest) :
    let s1 := optDollar (coordText dc c dr r ++ rest)
    let p1 := takeLetters 3 s1
    let s2 := optDollar p1.2
    let p2 := takeDigits s2
    p1.1 = colLetters c ∧ p2.1 = natRepr r ∧ p2.2 = rest := by
  have hU := colLetters_upper c
  have hD := (natRepr_digits r).1
  have hDne := (natRepr_digits r).2.1
  have hCne := colLetters_ne_nil c hc1
  have e0 : coordText dc c dr r ++ rest = dollar dc ++ (colLetters c ++ (dollar dr ++ (natRepr r ++ rest))) := by
    unfold coordText; simp
  have h1 : optDollar (coordText dc c dr r ++ rest) = colLetters c ++ (dollar dr ++ (natRepr r ++ rest)) := by
    rw [e0]
    exact optDollar_dollar _ _ (headNot_of_mem _ _ hCne hU upper_not_dollar)
  have hnl : headNot isLetter (dollar dr ++ (natRepr r ++ rest)) := by
    cases dr
    · simp only [dollar, Bool.false_eq_true, if_false, List.nil_append]
      exact headNot_of_mem _ _ hDne hD not_isLetter_of_isDigit
    · simp only [dollar, if_true, List.cons_append, List.nil_append, headNot]; decide
  have h2 : takeLetters 3 (colLetters c ++ (dollar dr ++ (natRepr r ++ rest))) =
      (colLetters c, dollar dr ++ (natRepr r ++ rest)) := takeLetters_append 3 _ _ hU hlen hnl
  have h3 : optDollar (dollar dr ++ (natRepr r ++ rest)) = natRepr r ++ rest :=
    optDollar_dollar _ _ (headNot_of_mem _ _ hDne hD digit_not_dollar)
  have h4 : takeDigits (natRepr r ++ rest) = (natRepr r, rest) := takeDigits_append _ _ hD hrest
  simp only [h1, h2, h3, h4, and_self]

theorem optGroup_some (t : Text) (h : t ≠ []) : optGroup t = some t := by
  unfold optGroup; simp [h]

theorem absoluteRe_range (d1 : Bool) (c1 : Nat) (d2 : Bool) (r1 : Nat) (d3 : Bool) (c2 : Nat) (d4 : Bool) (r2 : Nat)
    (h1 : 1 ≤ c1) (h2 : 1 ≤ c2) (l1 : (colLetters c1).length ≤ 3) (l2 : (colLetters c2).length ≤ 3) :
    absoluteRe (rangeText d1 c1 d2 r1 d3 c2 d4 r2) =
      some ⟨some (colLetters c1), some (natRepr r1), true, some (colLetters c2), some (natRepr r2)⟩ := by
  have A := lex_coord d1 c1 d2 r1 (':' :: coordText d3 c2 d4 r2) h1 l1 (by simp only [headNot]; decide)
  have B := lex_coord d3 c2 d4 r2 [] h2 l2 trivial
  simp only [List.append_nil] at B
  obtain ⟨a1, a2, a3⟩ := A
  obtain ⟨b1, b2, b3⟩ := B
  unfold absoluteRe rangeText
  simp only [a1, a2, a3, b1, b2, b3, if_true,
    optGroup_some _ (colLetters_ne_nil c1 h1), optGroup_some _ (colLetters_ne_nil c2 h2),
    optGroup_some _ (natRepr_digits r1).2.1, optGroup_some _ (natRepr_digits r2).2.1]

theorem absoluteRe_cell (dc : Bool) (c : Nat) (dr : Bool) (r : Nat) (h1 : 1 ≤ c) (l1 : (colLetters c).length ≤ 3) :
    absoluteRe (coordText dc c dr r) = some ⟨some (colLetters c), some (natRepr r), false, none, none⟩ := by
  have A := lex_coord dc c dr r [] h1 l1 trivial
  simp only [List.append_nil] at A
  obtain ⟨a1, a2, a3⟩ := A
  unfold absoluteRe
  simp only [a1, a2, a3, optGroup_some _ (colLetters_ne_nil c h1), optGroup_some _ (natRepr_digits r).2.1]

/-! ### column names of at most three letters -/

theorem up_bounds (c : Char) (h : isUpper c = true) : 65 ≤ c.toNat ∧ c.toNat ≤ 90 := by
  unfold isUpper at h
  simpa only [Bool.and_eq_true, decide_eq_true_eq] using h

theorem lval_four (a b c d : Char) (t : Text) (h : ∀ x ∈ a :: b :: c :: d :: t, isUpper x = true) :
    18279 ≤ lval (a :: b :: c :: d :: t) := by
  have ha := up_bounds a (h a (by simp))
  have hb := up_bounds b (h b (by simp))
  have hc := up_bounds c (h c (by simp))
  have hd := up_bounds d (h d (by simp))
  simp only [lval, List.length_cons]
  have p3 : 26 ^ 3 ≤ 26 ^ (t.length + 1 + 1 + 1) := Nat.pow_le_pow_right (by omega) (by omega)
  have p2 : 26 ^ 2 ≤ 26 ^ (t.length + 1 + 1) := Nat.pow_le_pow_right (by omega) (by omega)
  have p1 : 26 ^ 1 ≤ 26 ^ (t.length + 1) := Nat.pow_le_pow_right (by omega) (by omega)
  have p0 : 26 ^ 0 ≤ 26 ^ t.length := Nat.pow_le_pow_right (by omega) (by omega)
  have m3 : 1 * 26 ^ (t.length + 1 + 1 + 1) ≤ (a.toNat - 64) * 26 ^ (t.length + 1 + 1 + 1) :=
    Nat.mul_le_mul_right _ (by omega)
  have m2 : 1 * 26 ^ (t.length + 1 + 1) ≤ (b.toNat - 64) * 26 ^ (t.length + 1 + 1) :=
    Nat.mul_le_mul_right _ (by omega)
  have m1 : 1 * 26 ^ (t.length + 1) ≤ (c.toNat - 64) * 26 ^ (t.length + 1) :=
    Nat.mul_le_mul_right _ (by omega)
  have m0 : 1 * 26 ^ t.length ≤ (d.toNat - 64) * 26 ^ t.length :=
    Nat.mul_le_mul_right _ (by omega)
  have e3 : (26 : Nat) ^ 3 = 17576 := by decide
  have e2 : (26 : Nat) ^ 2 = 676 := by decide
  have e1 : (26 : Nat) ^ 1 = 26 := by decide
  have e0 : (26 : Nat) ^ 0 = 1 := by decide
  generalize 26 ^ (t.length + 1 + 1 + 1) = P3 at *
  generalize 26 ^ (t.length + 1 + 1) = P2 at *
  generalize 26 ^ (t.length + 1) = P1 at *
  generalize 26 ^ t.length = P0 at *
  generalize (a.toNat - 64) * P3 = A at *
  generalize (b.toNat - 64) * P2 = B at *
  generalize (c.toNat - 64) * P1 = C at *
  generalize (d.toNat - 64) * P0 = D at *
  omega

theorem cifs3 (s : Text) (hs : s ≠ []) (hl : s.length ≤ 3) (hu : ∀ c ∈ s, isUpper c = true) :
    cifsSum s.reverse [1, 26, 676] = some (lval s) ∧ 0 < lval s ∧ lval s < 18279 := by
  match s, hs, hl, hu with
  | [a], _, _, hu =>
    have ha := up_bounds a (hu a (by simp))
    simp only [List.reverse_cons, List.reverse_nil, List.nil_append, cifsSum, hu a (by simp), if_true, lval,
      List.length_nil, Option.map_some]
    refine ⟨?_, ?_, ?_⟩ <;> first | omega | (simp <;> omega)
  | [a, b], _, _, hu =>
    have ha := up_bounds a (hu a (by simp))
    have hb := up_bounds b (hu b (by simp))
    simp only [List.reverse_cons, List.reverse_nil, List.nil_append, List.cons_append, cifsSum, hu a (by simp),
      hu b (by simp), if_true, lval, List.length_nil, List.length_cons, Option.map_some]
    refine ⟨?_, ?_, ?_⟩ <;> first | omega | (simp <;> omega)
  | [a, b, c], _, _, hu =>
    have ha := up_bounds a (hu a (by simp))
    have hb := up_bounds b (hu b (by simp))
    have hc := up_bounds c (hu c (by simp))
    simp only [List.reverse_cons, List.reverse_nil, List.nil_append, List.cons_append, cifsSum, hu a (by simp),
      hu b (by simp), hu c (by simp), if_true, lval, List.length_nil, List.length_cons, Option.map_some]
    refine ⟨?_, ?_, ?_⟩ <;> first | omega | (simp <;> omega)
  | _ :: _ :: _ :: _ :: _, _, hl, _ => simp at hl

theorem colLetters_length (c : Nat) (h : c ≤ 18278) : (colLetters c).length ≤ 3 := by
  have hu := colLetters_upper c
  have hv := colLetters_lval c
  match hh : colLetters c with
  | [] => simp
  | [_] => simp
  | [_, _] => simp
  | [_, _, _] => simp
  | a :: b :: c' :: d :: t =>
    rw [hh] at hu hv
    have := lval_four a b c' d t hu
    omega

theorem upperChar_of_isUpper (c : Char) (h : isUpper c = true) : upperChar c = c := by
  have hb := up_bounds c h
  unfold upperChar isLower
  have : ¬ (97 ≤ c.toNat ∧ c.toNat ≤ 122) := by omega
  simp [this]

theorem map_upperChar (s : Text) (h : ∀ c ∈ s, isUpper c = true) : s.map upperChar = s := by
  induction s with
  | nil => rfl
  | cons c t ih =>
    simp only [List.map_cons, upperChar_of_isUpper c (h c (by simp)), ih (fun d hd => h d (by simp [hd]))]

/-- `column_index_from_string` is the bijective base-26 value on names of 1–3 upper-case letters -/
theorem columnIndexFromString_upper (s : Text) (hs : s ≠ []) (hl : s.length ≤ 3) (hu : ∀ c ∈ s, isUpper c = true) :
    columnIndexFromString s = .val (lval s) := by
  unfold columnIndexFromString
  have h3 : ¬ s.length > 3 := by omega
  obtain ⟨e1, e2, e3⟩ := cifs3 s hs hl hu
  simp only [h3, if_false, map_upperChar s hu, e1, e2, e3, and_self, if_true]

/-! ### quoting of sheet names -/

/-- every apostrophe written twice -/
def doubleQuotes : Text → Text
  | [] => []
  | c :: s => if c = '\'' then '\'' :: '\'' :: doubleQuotes s else c :: doubleQuotes s

/-- the quoted spelling `'…'` of a sheet name -/
def quoteSheet (s : Text) : Text := '\'' :: (doubleQuotes s ++ ['\''])

theorem tokRefLoop_true_other (c : Char) (s : Text) (hc : c ≠ '\'') :
    tokRefLoop true (c :: s) = c :: tokRefLoop true s := by
  rw [tokRefLoop] <;> (intros; simp_all)

theorem tokRefLoop_false_other (c : Char) (s : Text) (hc : c ≠ '\'') :
    tokRefLoop false (c :: s) = c :: tokRefLoop false s := by
  rw [tokRefLoop] <;> (intros; simp_all)

theorem tokRefLoop_true_close (c : Char) (s : Text) (hc : c ≠ '\'') :
    tokRefLoop true ('\'' :: c :: s) = tokRefLoop false (c :: s) := by
  rw [tokRefLoop] <;> (intros; simp_all)

/-- inside the quotes the tokenizer reads the doubled apostrophes back; the closing quote ends the
    `inPath` state (the text after it must not start with another apostrophe) -/
theorem tokRefLoop_quoted : ∀ (s rest : Text), headNot (· == '\'') rest →
    tokRefLoop true (doubleQuotes s ++ '\'' :: rest) = s ++ tokRefLoop false rest
  | [], rest, hr => by
    simp only [doubleQuotes, List.nil_append]
    cases rest with
    | nil => simp [tokRefLoop]
    | cons c t =>
      simp only [headNot, beq_eq_false_iff_ne, ne_eq] at hr
      exact tokRefLoop_true_close c t hr
  | c :: s, rest, hr => by
    by_cases hc : c = '\''
    · subst hc
      simp only [doubleQuotes, if_true, List.cons_append, tokRefLoop]
      rw [tokRefLoop_quoted s rest hr]
    · simp only [doubleQuotes, hc, if_false, List.cons_append]
      rw [tokRefLoop_true_other c _ hc, tokRefLoop_quoted s rest hr]

theorem tokRefLoop_false_plain : ∀ (s : Text), (∀ c ∈ s, c ≠ '\'') → tokRefLoop false s = s
  | [], _ => by simp [tokRefLoop]
  | c :: s, h => by
    rw [tokRefLoop_false_other c s (h c (by simp)), tokRefLoop_false_plain s (fun d hd => h d (by simp [hd]))]

/-- **the tokenizer reduces a quoted sheet prefix to the sheet name** -/
theorem tokRef_quoted (sheet rest : Text) (hr : ∀ c ∈ rest, c ≠ '\'') :
    tokRef (quoteSheet sheet ++ '!' :: rest) = sheet ++ '!' :: rest := by
  unfold tokRef quoteSheet
  simp only [List.cons_append, List.append_assoc, List.nil_append]
  rw [tokRefLoop]
  rw [tokRefLoop_quoted sheet ('!' :: rest) (by simp only [headNot]; decide)]
  rw [tokRefLoop_false_plain ('!' :: rest)]
  intro c hc
  rcases List.mem_cons.mp hc with rfl | hc
  · decide
  · exact hr c hc

/-! ### `resolve_sheet` -/

theorem quotedBody_doubleQuotes : ∀ (s : Text), quotedBody (doubleQuotes s ++ ['\'']) = some (doubleQuotes s)
  | [] => by simp [doubleQuotes, quotedBody]
  | c :: s => by
    by_cases hc : c = '\''
    · subst hc
      simp only [doubleQuotes, if_true, List.cons_append]
      rw [quotedBody]
      · rw [quotedBody_doubleQuotes s]; rfl
    · simp only [doubleQuotes, hc, if_false, List.cons_append]
      rw [quotedBody]
      · rw [quotedBody_doubleQuotes s]; rfl
      all_goals (intros; simp_all)

theorem undouble_doubleQuotes : ∀ (s : Text), undouble (doubleQuotes s) = s
  | [] => by simp [doubleQuotes, undouble]
  | c :: s => by
    by_cases hc : c = '\''
    · subst hc
      simp only [doubleQuotes, if_true, undouble, undouble_doubleQuotes s]
    · simp only [doubleQuotes, hc, if_false]
      rw [undouble]
      · rw [undouble_doubleQuotes s]
      all_goals (intros; simp_all)

theorem doubleQuotes_ne_nil (s : Text) (h : s ≠ []) : doubleQuotes s ≠ [] := by
  cases s with
  | nil => exact absurd rfl h
  | cons c t => simp only [doubleQuotes]; split <;> simp

theorem strip_id (s : Text) (h1 : headNot isSpace s) (h2 : headNot isSpace s.reverse) : strip s = s := by
  unfold strip
  have e1 : s.dropWhile isSpace = s := by
    cases s with
    | nil => rfl
    | cons c t => simp only [headNot] at h1; simp [List.dropWhile, h1]
  rw [e1]
  have e2 : s.reverse.dropWhile isSpace = s.reverse := by
    cases hr : s.reverse with
    | nil => rfl
    | cons c t => rw [hr] at h2; simp only [headNot] at h2; simp [List.dropWhile, h2]
  rw [e2, List.reverse_reverse]

/-- **`resolve_sheet` of the quoted spelling of a sheet name is the sheet name** -/
theorem resolveSheet_quoted (sheet : Text) (h : sheet ≠ []) : resolveSheet (quoteSheet sheet) = some sheet := by
  unfold resolveSheet
  have hs : strip (quoteSheet sheet) = quoteSheet sheet := by
    apply strip_id
    · simp only [quoteSheet, headNot]; decide
    · simp only [quoteSheet, List.reverse_cons, List.reverse_append, List.reverse_nil, List.nil_append,
        List.cons_append, headNot]; decide
  rw [hs]
  simp only [quoteSheet, quotedBody_doubleQuotes, doubleQuotes_ne_nil sheet h, if_false, undouble_doubleQuotes]

/-- a sheet name that needs no stripping and does not start with an apostrophe resolves to itself -/
theorem resolveSheet_plain (sheet : Text) (h1 : headNot isSpace sheet) (h2 : headNot isSpace sheet.reverse)
    (h3 : headNot (· == '\'') sheet) : resolveSheet sheet = some sheet := by
  unfold resolveSheet
  rw [strip_id sheet h1 h2]
  cases sheet with
  | nil => rfl
  | cons c t =>
    simp only [headNot, beq_eq_false_iff_ne, ne_eq] at h3
    show (match c :: t with
      | '\'' :: rest =>
        match quotedBody rest with
        | some m => if m = [] then none else some (undouble m)
        | none => some (c :: t)
      | _ => some (c :: t)) = some (c :: t)
    split
    · rename_i heq; injection heq with hc _; exact absurd hc h3
    · rfl

end XlVerif.Lemmas.C03
