/-
  Lemmas for C04 — fuel.  The in-progress stack is duplicate-free (a repeated address is reported as
  a cycle) and holds addresses of formula cells only, so its depth never exceeds the number of formula
  cells; with more fuel than that the out-of-fuel outcome (`recursion`, CPython's RecursionError) is
  unreachable.  Proved on the reference `Spec.C04.cellVal` and transferred by `evaluate_eq_value`.
-/
import XlVerif.Lemmas.C04Ref
namespace XlVerif.Lemmas.C04
open XlVerif XlVerif.Model.Evaluator
open XlVerif.Spec.C04 (rowVal rowsVal fxVal argsVal scVal cellVal)

/-- pigeonhole: a duplicate-free list contained in another is not longer -/
theorem nodup_subset_length {α : Type} [DecidableEq α] : ∀ (l l' : List α), l.Nodup → (∀ x ∈ l, x ∈ l') →
    l.length ≤ l'.length := by
  intro l
  induction l with
  | nil => intro l' _ _; exact Nat.zero_le _
  | cons x xs ih =>
    intro l' hn hs
    rw [List.nodup_cons] at hn
    have hx : x ∈ l' := hs x (List.mem_cons_self)
    have h1 : ∀ y ∈ xs, y ∈ l'.erase x := by
      intro y hy
      have hne : y ≠ x := fun e => hn.1 (e ▸ hy)
      exact (List.mem_erase_of_ne hne).2 (hs y (List.mem_cons_of_mem _ hy))
    have h2 := ih (l'.erase x) hn.2 h1
    rw [List.length_erase_of_mem hx] at h2
    have : 0 < l'.length := List.length_pos_of_mem hx
    simp only [List.length_cons]
    omega

def isFormulaKey (m : MState) (a : Addr) : Prop := ∃ c, m.cell? a = some c ∧ c.formula.isSome

theorem assoc_mem {β : Type} (k : Addr) (l : List (Addr × β)) (b : β) (h : assoc k l = some b) : (k, b) ∈ l := by
  induction l with
  | nil => simp [assoc] at h
  | cons p rest ih =>
    obtain ⟨k', b'⟩ := p
    by_cases hk : k = k'
    · simp only [assoc, hk, if_true, Option.some.injEq] at h
      subst hk h; exact List.mem_cons_self
    · simp only [assoc, hk, if_false] at h
      exact List.mem_cons_of_mem _ (ih h)

theorem stack_le_formulaCount (m : MState) (active : List Addr) (hn : active.Nodup)
    (hk : ∀ x ∈ active, isFormulaKey m x) : active.length ≤ formulaCount m := by
  have h := nodup_subset_length active ((m.cells.filter fun p => p.2.formula.isSome).map Prod.fst) hn (by
    intro x hx
    obtain ⟨c, hc, hf⟩ := hk x hx
    have := assoc_mem x m.cells c hc
    exact List.mem_map.2 ⟨(x, c), List.mem_filter.2 ⟨this, hf⟩, rfl⟩)
  rw [List.length_map] at h
  have e : formulaCount m = (m.cells.filter fun p => p.2.formula.isSome).length := by
    unfold formulaCount
    congr 2
  rw [e]; exact h

set_option linter.unusedSectionVars false

def isRec (r : Res) : Prop := ∃ n, r = .exc .recursion n

section
variable (K : Nat) (cv : Addr → Res) (hcv : ∀ a, ¬ isRec (cv a))
include hcv

theorem rowVal_norec : ∀ (row : List Addr) (ec : Nat) (acc : List V) (e : Res),
    rowVal K cv row ec acc = .error e → ¬ isRec e := by
  intro row
  induction row with
  | nil => intro ec acc e h; simp [rowVal] at h
  | cons a rest ih =>
    intro ec acc e h
    rw [rowVal] at h
    cases hv : cv a with
    | val v =>
      rw [hv] at h
      simp only at h
      split at h
      · split at h
        · simp at h
        · exact ih _ _ _ h
      · exact ih _ _ _ h
    | exc k n =>
      rw [hv] at h
      simp only [Except.error.injEq] at h
      rw [← h, ← hv]; exact hcv a

theorem rowsVal_norec : ∀ (rows : List (List Addr)) (ec er : Nat) (acc : List (List V)) (e : Res),
    rowsVal K cv rows ec er acc = .error e → ¬ isRec e := by
  intro rows
  induction rows with
  | nil => intro ec er acc e h; simp [rowsVal] at h
  | cons row rest ih =>
    intro ec er acc e h
    rw [rowsVal] at h
    cases hr : rowVal K cv row ec [] with
    | error e' =>
      rw [hr] at h
      simp only [Except.error.injEq] at h
      rw [← h]; exact rowVal_norec K cv hcv row ec [] e' hr
    | ok p =>
      obtain ⟨ec', cells⟩ := p
      rw [hr] at h
      simp only at h
      split at h
      · split at h
        · simp at h
        · exact ih _ _ _ _ h
      · exact ih _ _ _ _ h

variable (sem : Sem) (m : MState)

mutual
theorem fxVal_norec : ∀ (f : Fx), ¬ isRec (fxVal K sem m cv f)
  | .lit v => by rw [fxVal]; intro ⟨n, h⟩; cases h
  | .ref a => by rw [fxVal]; exact hcv a
  | .rng key => by
    rw [fxVal]
    cases m.range? key with
    | none => exact hcv key
    | some r =>
      simp only
      cases hr : rowsVal K cv r.cells 0 0 [] with
      | ok rows => intro ⟨n, h⟩; cases h
      | error e => exact rowsVal_norec K cv hcv _ _ _ _ e hr
  | .app f args => by
    rw [fxVal]
    cases hr : argsVal K sem m cv args with
    | error e => exact argsVal_norec args e hr
    | ok vs =>
      simp only
      cases sem.app f vs <;> (intro ⟨n, h⟩; cases h)
  | .iff c t e => by
    rw [fxVal]
    have hc := fxVal_norec c
    cases hr : fxVal K sem m cv c with
    | exc k n => rw [hr] at hc; exact hc
    | val v =>
      simp only
      cases sem.truth v with
      | none => intro ⟨n, h⟩; cases h
      | some b =>
        cases b with
        | true => exact fxVal_norec t
        | false => exact fxVal_norec e
  | .sc isAnd args => by rw [fxVal]; exact scVal_norec args isAnd
  | .fail n _ => by rw [fxVal]; intro ⟨n, h⟩; cases h

theorem argsVal_norec : ∀ (l : List Fx) (e : Res), argsVal K sem m cv l = .error e → ¬ isRec e
  | [], e, h => by simp [argsVal] at h
  | a :: rest, e, h => by
    rw [argsVal] at h
    have ha := fxVal_norec a
    cases hr : fxVal K sem m cv a with
    | exc k n =>
      rw [hr] at h ha
      simp only [Except.error.injEq] at h
      rw [← h]; exact ha
    | val v =>
      rw [hr] at h
      simp only at h
      cases hr2 : argsVal K sem m cv rest with
      | ok vs => rw [hr2] at h; simp at h
      | error e' =>
        rw [hr2] at h
        simp only [Except.error.injEq] at h
        rw [← h]; exact argsVal_norec rest e' hr2

theorem scVal_norec : ∀ (l : List Fx) (isAnd : Bool), ¬ isRec (scVal K sem m cv isAnd l)
  | [], isAnd => by rw [scVal]; intro ⟨n, h⟩; cases h
  | a :: rest, isAnd => by
    rw [scVal]
    have ha := fxVal_norec a
    cases hr : fxVal K sem m cv a with
    | exc k n => rw [hr] at ha; exact ha
    | val v =>
      simp only
      split
      · intro ⟨n, h⟩; cases h
      · split
        · intro ⟨n, h⟩; cases h
        · exact scVal_norec rest isAnd
end
end

/-- with fuel beyond the number of formula cells not yet on the stack, the value of a cell is never the
    out-of-fuel outcome -/
theorem cellVal_norec (K : Nat) (sem : Sem) (m : MState) : ∀ (fuel : Nat) (active : List Addr) (a : Addr),
    active.Nodup → (∀ x ∈ active, isFormulaKey m x) → formulaCount m < fuel + active.length →
    ¬ isRec (cellVal K sem m fuel active a) := by
  intro fuel
  induction fuel with
  | zero =>
    intro active a hn hk hf
    have := stack_le_formulaCount m active hn hk
    omega
  | succ n ih =>
    intro active a hn hk hf
    rw [cellVal]
    cases hc : m.cell? (m.resolve a) with
    | none => intro ⟨k, h⟩; cases h
    | some cell =>
      simp only
      cases hfc : cell.formula with
      | none => intro ⟨k, h⟩; cases h
      | some f =>
        simp only
        by_cases hcy : active.contains (m.resolve a) = true
        · simp only [hcy, if_true]; intro ⟨k, h⟩; cases h
        · simp only [hcy]
          have hnot : m.resolve a ∉ active := by simpa using hcy
          have hcv : ∀ b, ¬ isRec (cellVal K sem m n (m.resolve a :: active) b) := by
            intro b
            apply ih
            · exact List.nodup_cons.2 ⟨hnot, hn⟩
            · intro x hx
              cases List.mem_cons.1 hx with
              | inl e => exact e ▸ ⟨cell, hc, by rw [hfc]; rfl⟩
              | inr e => exact hk x e
            · simp only [List.length_cons]; omega
          have h := fxVal_norec K _ hcv sem m f
          cases hr : fxVal K sem m (cellVal K sem m n (m.resolve a :: active)) f with
          | val v => intro ⟨k, h'⟩; cases h'
          | exc kind k =>
            rw [hr] at h
            cases kind with
            | recursion => exact absurd ⟨k, rfl⟩ h
            | cycle => intro ⟨k', h'⟩; cases h'
            | problem => intro ⟨k', h'⟩; cases h'
            | runtime => intro ⟨k', h'⟩; cases h'

end XlVerif.Lemmas.C04
