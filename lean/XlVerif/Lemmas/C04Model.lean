/-
  Lemmas for C04 / C05 — the model layer: association lists, `erase`, `set_cell_value`,
  `get_cell_value`, and the instances of the generic simulation (`Lemmas/C04Sim.lean`) for the
  mutable model.
-/
import XlVerif.Lemmas.C04Sim
namespace XlVerif.Lemmas.C04
open XlVerif XlVerif.Model.Evaluator

/-! ### association lists -/

theorem assoc_map {β γ : Type} (g : β → γ) (k : Addr) (l : List (Addr × β)) :
    assoc k (l.map fun p => (p.1, g p.2)) = (assoc k l).map g := by
  induction l with
  | nil => rfl
  | cons p rest ih =>
    obtain ⟨k', b⟩ := p
    by_cases h : k = k' <;> simp [assoc, h, ih]

theorem assoc_append_none {β : Type} (k : Addr) (l l' : List (Addr × β)) (h : assoc k l = none) :
    assoc k (l ++ l') = assoc k l' := by
  induction l with
  | nil => rfl
  | cons p rest ih =>
    obtain ⟨k', b⟩ := p
    by_cases hk : k = k'
    · simp [assoc, hk] at h
    · simp only [assoc, hk, if_false] at h
      simp [assoc, hk, ih h]

theorem assoc_append_some {β : Type} (k : Addr) (l l' : List (Addr × β)) (b : β) (h : assoc k l = some b) :
    assoc k (l ++ l') = some b := by
  induction l with
  | nil => simp [assoc] at h
  | cons p rest ih =>
    obtain ⟨k', b'⟩ := p
    by_cases hk : k = k'
    · simp only [assoc, hk, if_true] at h; simp [assoc, hk, h]
    · simp only [assoc, hk, if_false] at h; simp [assoc, hk, ih h]

theorem assocUpdate_keys {β : Type} (k : Addr) (f : β → β) (l : List (Addr × β)) :
    (assocUpdate k f l).map Prod.fst = l.map Prod.fst := by
  induction l with
  | nil => rfl
  | cons p rest ih =>
    obtain ⟨k', b⟩ := p
    by_cases h : k = k' <;> simp [assocUpdate, h, ih]

theorem assocUpdate_none {β : Type} (k : Addr) (f : β → β) (l : List (Addr × β)) (h : assoc k l = none) :
    assocUpdate k f l = l := by
  induction l with
  | nil => rfl
  | cons p rest ih =>
    obtain ⟨k', b⟩ := p
    by_cases hk : k = k'
    · simp [assoc, hk] at h
    · simp only [assoc, hk, if_false] at h
      simp [assocUpdate, hk, ih h]

theorem assoc_assocUpdate_same {β : Type} (k : Addr) (f : β → β) (l : List (Addr × β)) :
    assoc k (assocUpdate k f l) = (assoc k l).map f := by
  induction l with
  | nil => rfl
  | cons p rest ih =>
    obtain ⟨k', b⟩ := p
    by_cases h : k = k' <;> simp [assocUpdate, assoc, h, ih]

theorem assoc_assocUpdate_other {β : Type} (k k' : Addr) (f : β → β) (l : List (Addr × β)) (h : k' ≠ k) :
    assoc k' (assocUpdate k f l) = assoc k' l := by
  induction l with
  | nil => rfl
  | cons p rest ih =>
    obtain ⟨k2, b⟩ := p
    by_cases h2 : k = k2
    · subst h2; simp [assocUpdate, assoc, h]
    · by_cases h3 : k' = k2 <;> simp [assocUpdate, assoc, h2, h3, ih]

/-- mapping after an update = updating after the map, when the two updates correspond -/
theorem map_assocUpdate_comm {β γ : Type} (g : β → γ) (f : β → β) (f' : γ → γ) (k : Addr)
    (h : ∀ b, g (f b) = f' (g b)) (l : List (Addr × β)) :
    (assocUpdate k f l).map (fun p => (p.1, g p.2)) = assocUpdate k f' (l.map fun p => (p.1, g p.2)) := by
  induction l with
  | nil => rfl
  | cons p rest ih =>
    obtain ⟨k', b⟩ := p
    by_cases hk : k = k' <;> simp [assocUpdate, hk, ih, h]

/-- an update is invisible under a map that forgets what it changed (only the entry found matters) -/
theorem map_assocUpdate_first {β γ : Type} (g : β → γ) (f : β → β) (k : Addr) (l : List (Addr × β))
    (h : ∀ b, assoc k l = some b → g (f b) = g b) :
    (assocUpdate k f l).map (fun p => (p.1, g p.2)) = l.map fun p => (p.1, g p.2) := by
  induction l with
  | nil => rfl
  | cons p rest ih =>
    obtain ⟨k', b⟩ := p
    by_cases hk : k = k'
    · have := h b (by simp [assoc, hk])
      simp [assocUpdate, hk, this]
    · have := ih (fun b hb => h b (by simp [assoc, hk, hb]))
      simp [assocUpdate, hk, this]

/-! ### `erase` -/

def eraseRange (r : Range) : Range := { r with value := none }

theorem erase_cells (m : MState) : (erase m).cells = m.cells.map fun p => (p.1, eraseCell p.2) := by
  unfold erase
  simp only
  apply List.map_congr_left
  intro p _
  obtain ⟨a, c⟩ := p
  rfl

theorem erase_ranges (m : MState) : (erase m).ranges = m.ranges.map fun p => (p.1, eraseRange p.2) := by
  unfold erase
  simp only
  apply List.map_congr_left
  intro p _
  obtain ⟨a, c⟩ := p
  rfl

@[simp] theorem erase_names (m : MState) : (erase m).names = m.names := rfl

theorem erase_def (m : MState) :
    erase m = { cells := m.cells.map fun p => (p.1, eraseCell p.2),
                ranges := m.ranges.map fun p => (p.1, eraseRange p.2), names := m.names } := by
  have e1 := erase_cells m
  have e2 := erase_ranges m
  have e3 := erase_names m
  generalize erase m = x at *
  obtain ⟨xc, xr, xn⟩ := x
  simp only at e1 e2 e3
  subst e1 e2 e3
  rfl

theorem erase_eq_iff (m m' : MState) :
    erase m = erase m' ↔
      (m.cells.map fun p => (p.1, eraseCell p.2)) = (m'.cells.map fun p => (p.1, eraseCell p.2))
      ∧ (m.ranges.map fun p => (p.1, eraseRange p.2)) = (m'.ranges.map fun p => (p.1, eraseRange p.2))
      ∧ m.names = m'.names := by
  constructor
  · intro h
    refine ⟨?_, ?_, ?_⟩
    · rw [← erase_cells, ← erase_cells, h]
    · rw [← erase_ranges, ← erase_ranges, h]
    · rw [← erase_names m, ← erase_names m', h]
  · intro ⟨h1, h2, h3⟩
    rw [erase_def, erase_def, h1, h2, h3]

@[simp] theorem eraseCell_formula (c : Cell) : (eraseCell c).formula = c.formula := by
  unfold eraseCell; split <;> rfl

@[simp] theorem eraseCell_idem (c : Cell) : eraseCell (eraseCell c) = eraseCell c := by
  obtain ⟨v, f, n⟩ := c
  cases f <;> simp [eraseCell]

theorem eraseCell_const (c : Cell) (h : c.formula = none) : eraseCell c = c := by
  simp [eraseCell, h]

theorem erase_cell? (m : MState) (a : Addr) : (erase m).cell? a = (m.cell? a).map eraseCell := by
  unfold MState.cell?
  rw [erase_cells, assoc_map]

theorem erase_range? (m : MState) (k : Addr) : (erase m).range? k = (m.range? k).map eraseRange := by
  unfold MState.range?
  rw [erase_ranges, assoc_map]

@[simp] theorem erase_resolve (m : MState) (a : Addr) : (erase m).resolve a = m.resolve a := rfl

@[simp] theorem erase_erase (m : MState) : erase (erase m) = erase m := by
  rw [erase_eq_iff]
  refine ⟨?_, ?_, rfl⟩
  · rw [erase_cells, List.map_map]
    apply List.map_congr_left
    intro p _; simp
  · rw [erase_ranges, List.map_map]
    apply List.map_congr_left
    intro p _; simp [eraseRange]

theorem resolve_of_erase_eq {m m' : MState} (h : erase m = erase m') (a : Addr) : m.resolve a = m'.resolve a := by
  have := congrArg (fun x => x.resolve a) h
  simpa using this

theorem cell?_of_erase_eq {m m' : MState} (h : erase m = erase m') (a : Addr) :
    (m.cell? a).map eraseCell = (m'.cell? a).map eraseCell := by
  rw [← erase_cell?, ← erase_cell?, h]

theorem range?_of_erase_eq {m m' : MState} (h : erase m = erase m') (k : Addr) :
    (m.range? k).map eraseRange = (m'.range? k).map eraseRange := by
  rw [← erase_range?, ← erase_range?, h]

/-! ### write-backs are invisible after `erase` -/

@[simp] theorem mutStore_resolve (m : MState) (a : Addr) : mutStore.resolve m a = m.resolve a := rfl
@[simp] theorem mutStore_cell (m : MState) (a : Addr) : mutStore.cell? m a = m.cell? a := rfl
@[simp] theorem mutStore_range (m : MState) (a : Addr) : mutStore.range? m a = m.range? a := rfl
theorem mutStore_writeCell (m : MState) (a : Addr) (v : V) :
    mutStore.writeCell m a v = { m with cells := assocUpdate a (fun c => { c with value := v }) m.cells } := rfl
theorem mutStore_writeRange (m : MState) (a : Addr) (v : V) :
    mutStore.writeRange m a v = { m with ranges := assocUpdate a (fun r => { r with value := some v }) m.ranges } :=
  rfl

theorem erase_writeRange (m : MState) (k : Addr) (v : V) : erase (mutStore.writeRange m k v) = erase m := by
  rw [erase_eq_iff]
  refine ⟨rfl, ?_, rfl⟩
  exact map_assocUpdate_first eraseRange _ k m.ranges (fun b _ => rfl)

theorem erase_writeCell (m : MState) (a : Addr) (v : V)
    (h : ∀ c, m.cell? a = some c → c.formula.isSome) : erase (mutStore.writeCell m a v) = erase m := by
  rw [erase_eq_iff]
  refine ⟨?_, rfl, rfl⟩
  apply map_assocUpdate_first eraseCell _ a m.cells
  intro b hb
  have := h b hb
  simp [eraseCell, this]

/-! ### the simulation instances -/

/-- the mutable model against the read-only model `erase m0` -/
theorem compat_mut_pure (m0 : MState) :
    Compat mutStore (erase m0) (fun (_ : Unit) _ _ => ()) (fun _ _ _ => ()) (fun s _ => erase s = erase m0) where
  res := fun s _ a h => by
    show s.resolve a = (erase m0).resolve a
    rw [erase_resolve]; exact resolve_of_erase_eq h a
  cell := fun s _ a h => by
    show (s.cell? a).map eraseCell = ((erase m0).cell? a).map eraseCell
    rw [erase_cell?, Option.map_map, cell?_of_erase_eq h a]
    cases m0.cell? a <;> simp
  rng := fun s _ k h => by
    show (s.range? k).map _ = ((erase m0).range? k).map _
    rw [erase_range?, ← range?_of_erase_eq h k]
    cases s.range? k <;> simp [eraseRange]
  wcell := fun s _ a v h hf => by
    show erase (mutStore.writeCell s a v) = erase m0
    rw [← h]
    apply erase_writeCell
    intro c hc
    obtain ⟨cell, h1, h2⟩ := hf
    have := cell?_of_erase_eq h a
    rw [hc, ← erase_cell?, h1] at this
    simp only [Option.map_some, Option.some.injEq] at this
    rw [← eraseCell_formula c, this]
    exact h2
  wrng := fun s _ k v h => by
    show erase (mutStore.writeRange s k v) = erase m0
    rw [erase_writeRange]; exact h

/-- a read-only model against its erasure (stored values of formula cells are never read) -/
theorem compat_pure_erase (m : MState) :
    Compat (pureStore m) (erase m) (fun (_ : Unit) _ _ => ()) (fun _ _ _ => ()) (fun _ _ => True) where
  res := fun _ _ a _ => rfl
  cell := fun _ _ a _ => by
    show (m.cell? a).map eraseCell = ((erase m).cell? a).map eraseCell
    rw [erase_cell?]
    cases m.cell? a <;> simp
  rng := fun _ _ k _ => by
    show (m.range? k).map _ = ((erase m).range? k).map _
    rw [erase_range?]
    cases m.range? k <;> simp [eraseRange]
  wcell := fun _ _ _ _ _ _ => trivial
  wrng := fun _ _ _ _ _ => trivial

/-! ### `set_cell_value` / `get_cell_value` -/

/-- `set_cell_value` seen through `erase` -/
def setErased (im : MState) (a : Addr) (v : V) : MState :=
  match im.cell? (im.resolve a) with
  | some _ =>
    { im with cells :=
        assocUpdate (im.resolve a) (fun d => if d.formula.isSome then d else { d with value := v }) im.cells }
  | none => { im with cells := im.cells ++ [(im.resolve a, { value := v, formula := none })] }

theorem setCellValue_eq (m : MState) (a : Addr) (v : V) :
    m.setCellValue a v =
      match m.cell? (m.resolve a) with
      | some _ => { m with cells := assocUpdate (m.resolve a) (fun c => { c with value := v }) m.cells }
      | none => { m with cells := m.cells ++ [(m.resolve a, { value := v, formula := none })] } := rfl

theorem erase_setCellValue (m : MState) (a : Addr) (v : V) :
    erase (m.setCellValue a v) = setErased (erase m) a v := by
  rw [setCellValue_eq]
  unfold setErased
  simp only [erase_resolve, erase_cell?]
  cases hc : m.cell? (m.resolve a) with
  | some c =>
    simp only [Option.map_some]
    rw [erase_def, erase_def]
    simp only [MState.mk.injEq, and_true]
    apply map_assocUpdate_comm
    intro b
    obtain ⟨bv, bf, bn⟩ := b
    cases bf <;> simp [eraseCell]
  | none =>
    simp only [Option.map_none]
    rw [erase_def, erase_def]
    simp [eraseCell]

theorem erase_setCellValue_congr {m m' : MState} (h : erase m = erase m') (a : Addr) (v : V) :
    erase (m.setCellValue a v) = erase (m'.setCellValue a v) := by
  rw [erase_setCellValue, erase_setCellValue, h]

@[simp] theorem setCellValue_names (m : MState) (a : Addr) (v : V) : (m.setCellValue a v).names = m.names := by
  rw [setCellValue_eq]
  split <;> rfl

@[simp] theorem setCellValue_resolve (m : MState) (a b : Addr) (v : V) :
    (m.setCellValue a v).resolve b = m.resolve b := by
  unfold MState.resolve
  rw [setCellValue_names]

theorem setCellValue_cell?_same (m : MState) (a : Addr) (v : V) :
    ∃ c, (m.setCellValue a v).cell? (m.resolve a) = some c ∧ c.value = v := by
  rw [setCellValue_eq]
  cases hc : m.cell? (m.resolve a) with
  | some c =>
    refine ⟨{ c with value := v }, ?_, rfl⟩
    show assoc _ (assocUpdate _ _ _) = _
    rw [assoc_assocUpdate_same]
    unfold MState.cell? at hc
    rw [hc]; rfl
  | none =>
    refine ⟨{ value := v, formula := none }, ?_, rfl⟩
    show assoc _ (_ ++ _) = _
    unfold MState.cell? at hc
    rw [assoc_append_none _ _ _ hc]
    simp [assoc]

theorem setCellValue_cell?_other (m : MState) (a b : Addr) (v : V) (h : b ≠ m.resolve a) :
    (m.setCellValue a v).cell? b = m.cell? b := by
  rw [setCellValue_eq]
  cases hc : m.cell? (m.resolve a) with
  | some c =>
    show assoc _ (assocUpdate _ _ _) = _
    rw [assoc_assocUpdate_other _ _ _ _ h]; rfl
  | none =>
    show assoc _ (_ ++ _) = assoc _ _
    cases hb : assoc b m.cells with
    | some c => exact assoc_append_some _ _ _ _ hb
    | none =>
      rw [assoc_append_none _ _ _ hb]
      simp [assoc, h]

end XlVerif.Lemmas.C04
