/-
  Lemmas for C04 / C05 — the evaluator over a read-only model computes the reference value
  `Spec.C04.cellVal` (which has no contexts, memos, write-backs or trace).  The content is the
  soundness of the per-context memo: every entry of `Ctx.memo` is the value the reference gives for
  that cell under the same in-progress stack, so a memo hit returns what a re-evaluation would.
-/
import XlVerif.Lemmas.C04Model
import XlVerif.Spec.C04
namespace XlVerif.Lemmas.C04
open XlVerif XlVerif.Model.Evaluator
open XlVerif.Spec.C04 (rowVal rowsVal fxVal argsVal scVal cellVal)

theorem isEmpty_eq (v : V) : Spec.C04.isEmpty v = isEmptyValue v := by
  cases v with
  | arr rows => rfl
  | s x =>
    cases x with
    | text t => cases t <;> rfl
    | _ => rfl

theorem elems_eq (v : V) : Spec.C04.elems v = argItems v := by cases v <;> rfl

/-- loop (1) of AND / OR is "the leftmost element that is an error" -/
theorem firstErrorItem_eq (truth : V → Option Bool) (xs : List S) :
    firstErrorItem truth xs = xs.find? (fun x => (truth (.s x)).isNone) := by
  induction xs with
  | nil => rfl
  | cons x rest ih =>
    cases h : truth (.s x) with
    | none => simp [firstErrorItem, h]
    | some b => simp [firstErrorItem, h, ih]

/-- loop (2) of AND / OR is "the first non-blank element whose truth value is not the neutral one" -/
theorem firstDeciding_eq (truth : V → Option Bool) (isAnd : Bool) (xs : List S) :
    firstDeciding truth isAnd xs =
      (Spec.C04.nonBlank xs).findSome? (fun x => (truth (.s x)).filter (· != isAnd)) := by
  induction xs with
  | nil => rfl
  | cons x rest ih =>
    unfold Spec.C04.nonBlank at ih ⊢
    by_cases he : isEmptyValue (.s x) = true
    · simp [firstDeciding, he, isEmpty_eq, ih]
    · cases h : truth (.s x) with
      | none => simp [firstDeciding, he, isEmpty_eq, h, ih]
      | some b =>
        by_cases hb : b = isAnd
        · simp [firstDeciding, he, isEmpty_eq, h, hb, ih]
        · simp [firstDeciding, he, isEmpty_eq, h, hb, Option.filter]

/-- the verdict of the model on one evaluated argument, read off the reference's two searches -/
theorem argVerdict_ref (sem : Sem) (isAnd : Bool) (v : V) :
    match argVerdict sem isAnd v with
    | .error e => ∃ x, e = .s x ∧
        (Spec.C04.elems v).find? (fun x => (sem.truth (.s x)).isNone) = some x
    | .decided b =>
        (Spec.C04.elems v).find? (fun x => (sem.truth (.s x)).isNone) = none ∧
        (Spec.C04.nonBlank (Spec.C04.elems v)).findSome? (fun x => (sem.truth (.s x)).filter (· != isAnd)) = some b
    | .neutral =>
        (Spec.C04.elems v).find? (fun x => (sem.truth (.s x)).isNone) = none ∧
        (Spec.C04.nonBlank (Spec.C04.elems v)).findSome? (fun x => (sem.truth (.s x)).filter (· != isAnd)) = none := by
  rw [elems_eq, ← firstErrorItem_eq, ← firstDeciding_eq]
  unfold argVerdict itemsVerdict
  cases firstErrorItem sem.truth (argItems v) with
  | some x => exact ⟨x, rfl, rfl⟩
  | none =>
    cases firstDeciding sem.truth isAnd (argItems v) with
    | some b => exact ⟨rfl, rfl⟩
    | none => exact ⟨rfl, rfl⟩

theorem toArray_eq (rows : List (List V)) :
    toArray rows = .arr (rows.map fun r => r.map Spec.C04.scalar) := by
  unfold toArray
  congr 1

/-- the reference's own `setInput` is `Model.set_cell_value` -/
theorem setInput_eq (m : MState) (a : Addr) (v : V) : Spec.C04.setInput m a v = m.setCellValue a v := by
  have hl : ∀ {β : Type} (k : Addr) (l : List (Addr × β)), Spec.C04.lookup k l = assoc k l := by
    intro β k l
    induction l with
    | nil => rfl
    | cons p rest ih => obtain ⟨k', b⟩ := p; simp [Spec.C04.lookup, assoc, ih]
  have hr : ∀ (k : Addr) (l : List (Addr × Cell)),
      Spec.C04.replaceValue k v l = assocUpdate k (fun c => { c with value := v }) l := by
    intro k l
    induction l with
    | nil => rfl
    | cons p rest ih =>
      obtain ⟨k', b⟩ := p
      by_cases hk : k = k' <;> simp [Spec.C04.replaceValue, assocUpdate, ih, hk]
  rw [setCellValue_eq]
  unfold Spec.C04.setInput
  simp only [hl, hr]
  rfl


theorem results_set (K : Nat) (sem : Sem) (fuel : Nat) (m : MState) (a : Addr) (v : V)
    (rest : List XlVerif.Model.C04.Op) :
    Spec.C04.results K sem fuel m (.set a v :: rest) = Spec.C04.results K sem fuel (Spec.C04.setInput m a v) rest := rfl
theorem results_eval (K : Nat) (sem : Sem) (fuel : Nat) (m : MState) (a : Addr) (rest : List XlVerif.Model.C04.Op) :
    Spec.C04.results K sem fuel m (.eval a :: rest)
      = Spec.C04.value K sem fuel m a :: Spec.C04.results K sem fuel m rest := rfl
theorem results_get (K : Nat) (sem : Sem) (fuel : Nat) (m : MState) (a : Addr) (rest : List XlVerif.Model.C04.Op) :
    Spec.C04.results K sem fuel m (.get a :: rest) = Spec.C04.results K sem fuel m rest := rfl

theorem sumLens_eq (l : List Addr) : Spec.C04.sumLens l = sumLens l := rfl

section
variable {τ : Type} (E : List Addr) (cv : Addr → Res)

/-- the context is still on stack `E` and every memo entry is the reference value of its cell -/
structure Inv (c : Ctx τ) : Prop where
  ev : c.evaluating = E
  memo : ∀ a v, assoc a c.memo = some v → cv a = .val v

/-- the cross-cell evaluator, started with an empty memo on stack `E`, returns the reference value
    and restores the stack -/
def GoodV (ce : Ctx τ → Addr → Ctx τ × Res) : Prop :=
  ∀ c a, c.evaluating = E → c.memo = [] → (ce c a).2 = cv a ∧ (ce c a).1.evaluating = E

variable {E cv} {ce : Ctx τ → Addr → Ctx τ × Res}

theorem evalRef_ref (hg : GoodV E cv ce) {c : Ctx τ} (a : Addr) (hi : Inv E cv c) :
    Inv E cv (evalRef ce c a).1 ∧ (evalRef ce c a).2 = cv a := by
  unfold evalRef
  cases hm : assoc a c.memo with
  | some v => exact ⟨hi, (hi.memo a v hm).symm⟩
  | none =>
    have h := hg { c with memo := [] } a hi.ev rfl
    rcases h1 : ce { c with memo := [] } a with ⟨c1, r1⟩
    rw [h1] at h
    obtain ⟨hr, he⟩ := h
    simp only at hr he
    simp only
    cases r1 with
    | exc k n => exact ⟨⟨he, hi.memo⟩, hr⟩
    | val v =>
      refine ⟨⟨he, ?_⟩, hr⟩
      intro a' v' hx
      simp only at hx
      cases hb : assoc a' c.memo with
      | some w =>
        rw [assoc_append_some _ _ _ _ hb] at hx
        cases hx
        exact hi.memo a' _ hb
      | none =>
        rw [assoc_append_none _ _ _ hb] at hx
        by_cases hk : a' = a
        · subst hk
          simp only [assoc, if_true, Option.some.injEq] at hx
          subst hx
          exact hr.symm
        · simp [assoc, hk] at hx

theorem evalRow_ref (hg : GoodV E cv ce) : ∀ (row : List Addr) (c : Ctx τ) (ec : Nat) (acc : List V),
    Inv E cv c →
      Inv E cv (evalRow ce c row ec acc).1 ∧ (evalRow ce c row ec acc).2 = rowVal Gen.maxEmpty cv row ec acc := by
  intro row
  induction row with
  | nil => intro c ec acc hi; exact ⟨hi, rfl⟩
  | cons a rest ih =>
    intro c ec acc hi
    have h := evalRef_ref hg a hi
    rw [evalRow, rowVal]
    rcases h1 : evalRef ce c a with ⟨c1, r1⟩
    rw [h1] at h
    obtain ⟨hi1, hr⟩ := h
    simp only at hi1 hr
    rw [← hr]
    cases r1 with
    | exc k n => exact ⟨hi1, by first | rfl | trivial⟩
    | val v =>
      simp only [isEmpty_eq]
      by_cases he : isEmptyValue v = true
      · simp only [he, if_true]
        by_cases hm : ec + 1 > Gen.maxEmpty
        · simp only [hm, if_true]; exact ⟨hi1, by first | rfl | trivial⟩
        · simp only [hm, if_false]; exact ih c1 _ _ hi1
      · simp only [he]; exact ih c1 _ _ hi1

theorem evalRows_ref (hg : GoodV E cv ce) : ∀ (rows : List (List Addr)) (c : Ctx τ) (w : Walk),
    Inv E cv c →
      Inv E cv (evalRows ce c rows w).1 ∧
        (evalRows ce c rows w).2.map Walk.rows = rowsVal Gen.maxEmpty cv rows w.emptyCol w.emptyRow w.rows := by
  intro rows
  induction rows with
  | nil => intro c w hi; exact ⟨hi, rfl⟩
  | cons row rest ih =>
    intro c w hi
    have h := evalRow_ref hg row c w.emptyCol [] hi
    rw [evalRows, rowsVal]
    rcases h1 : evalRow ce c row w.emptyCol [] with ⟨c1, r1⟩
    rw [h1] at h
    obtain ⟨hi1, hr⟩ := h
    simp only at hi1 hr
    rw [← hr]
    cases r1 with
    | error e => exact ⟨hi1, by first | rfl | trivial⟩
    | ok p =>
      obtain ⟨ec, cells⟩ := p
      simp only
      by_cases he : cells.isEmpty = true
      · simp only [he, if_true]
        by_cases hm : w.emptyRow + 1 > Gen.maxEmpty
        · simp only [hm, if_true]; exact ⟨hi1, by first | rfl | trivial⟩
        · simp only [hm, if_false]; exact ih c1 _ hi1
      · simp only [he]; exact ih c1 _ hi1

variable {im : MState} {wc wr : τ → Addr → V → τ} (sem : Sem)

mutual
theorem evalFx_ref (hg : GoodV E cv ce) : ∀ (f : Fx) (c : Ctx τ), Inv E cv c →
    Inv E cv (evalFx (roStore im wc wr) sem ce c f).1 ∧
      (evalFx (roStore im wc wr) sem ce c f).2 = fxVal Gen.maxEmpty sem im cv f
  | .lit v, c, hi => by rw [evalFx, fxVal]; exact ⟨hi, rfl⟩
  | .ref a, c, hi => by rw [evalFx, fxVal]; exact evalRef_ref hg a hi
  | .rng key, c, hi => by
    rw [evalFx, fxVal]
    simp only [roStore_range, roStore_writeRange]
    cases h2 : im.range? key with
    | none => exact evalRef_ref hg key hi
    | some r =>
      simp only
      have h := evalRows_ref hg r.cells c {} hi
      rcases h3 : evalRows ce c r.cells {} with ⟨c1, r1⟩
      rw [h3] at h
      obtain ⟨hi1, hr⟩ := h
      simp only at hi1 hr
      change _ = rowsVal Gen.maxEmpty cv r.cells 0 0 [] at hr
      rw [← hr]
      cases r1 with
      | error e => exact ⟨hi1, by first | rfl | trivial⟩
      | ok w => exact ⟨⟨hi1.ev, hi1.memo⟩, by simp only [Except.map, toArray_eq]⟩
  | .app f args, c, hi => by
    rw [evalFx, fxVal]
    have h := evalArgs_ref hg args c hi
    rcases h3 : evalArgs (roStore im wc wr) sem ce c args with ⟨c1, r1⟩
    rw [h3] at h
    obtain ⟨hi1, hr⟩ := h
    simp only at hi1 hr
    rw [← hr]
    cases r1 with
    | error e => exact ⟨hi1, by first | rfl | trivial⟩
    | ok vs =>
      simp only
      cases sem.app f vs <;> exact ⟨hi1, by first | rfl | trivial⟩
  | .iff cond t e, c, hi => by
    rw [evalFx, fxVal]
    have h := evalFx_ref hg cond c hi
    rcases h3 : evalFx (roStore im wc wr) sem ce c cond with ⟨c1, r1⟩
    rw [h3] at h
    obtain ⟨hi1, hr⟩ := h
    simp only at hi1 hr
    rw [← hr]
    cases r1 with
    | exc k n => exact ⟨hi1, by first | rfl | trivial⟩
    | val v =>
      simp only
      cases sem.truth v with
      | none => exact ⟨hi1, by first | rfl | trivial⟩
      | some b =>
        cases b with
        | true => exact evalFx_ref hg t c1 hi1
        | false => exact evalFx_ref hg e c1 hi1
  | .sc isAnd args, c, hi => by rw [evalFx, fxVal]; exact evalSc_ref hg args isAnd c hi
  | .fail n _, c, hi => by rw [evalFx, fxVal]; exact ⟨hi, rfl⟩

theorem evalArgs_ref (hg : GoodV E cv ce) : ∀ (l : List Fx) (c : Ctx τ), Inv E cv c →
    Inv E cv (evalArgs (roStore im wc wr) sem ce c l).1 ∧
      (evalArgs (roStore im wc wr) sem ce c l).2 = argsVal Gen.maxEmpty sem im cv l
  | [], c, hi => by rw [evalArgs, argsVal]; exact ⟨hi, rfl⟩
  | a :: rest, c, hi => by
    rw [evalArgs, argsVal]
    have h := evalFx_ref hg a c hi
    rcases h3 : evalFx (roStore im wc wr) sem ce c a with ⟨c1, r1⟩
    rw [h3] at h
    obtain ⟨hi1, hr⟩ := h
    simp only at hi1 hr
    rw [← hr]
    cases r1 with
    | exc k n => exact ⟨hi1, by first | rfl | trivial⟩
    | val v =>
      simp only
      have h' := evalArgs_ref hg rest c1 hi1
      rcases h5 : evalArgs (roStore im wc wr) sem ce c1 rest with ⟨c2, r3⟩
      rw [h5] at h'
      obtain ⟨hi2, hr2⟩ := h'
      simp only at hi2 hr2
      rw [← hr2]
      cases r3 <;> exact ⟨hi2, rfl⟩

theorem evalSc_ref (hg : GoodV E cv ce) : ∀ (l : List Fx) (isAnd : Bool) (c : Ctx τ), Inv E cv c →
    Inv E cv (evalSc (roStore im wc wr) sem ce c isAnd l).1 ∧
      (evalSc (roStore im wc wr) sem ce c isAnd l).2 = scVal Gen.maxEmpty sem im cv isAnd l
  | [], isAnd, c, hi => by rw [evalSc, scVal]; exact ⟨hi, rfl⟩
  | a :: rest, isAnd, c, hi => by
    rw [evalSc, scVal]
    have h := evalFx_ref hg a c hi
    rcases h3 : evalFx (roStore im wc wr) sem ce c a with ⟨c1, r1⟩
    rw [h3] at h
    obtain ⟨hi1, hr⟩ := h
    simp only at hi1 hr
    rw [← hr]
    cases r1 with
    | exc k n => exact ⟨hi1, by first | rfl | trivial⟩
    | val v =>
      simp only
      have hv := argVerdict_ref sem isAnd v
      cases hav : argVerdict sem isAnd v with
      | neutral =>
        rw [hav] at hv
        rw [hv.1, hv.2]
        exact evalSc_ref hg rest isAnd c1 hi1
      | decided b =>
        rw [hav] at hv
        rw [hv.1, hv.2]
        exact ⟨hi1, rfl⟩
      | error e =>
        rw [hav] at hv
        obtain ⟨x, rfl, hx⟩ := hv
        rw [hx]
        exact ⟨hi1, rfl⟩
end

/-- `evaluate` over a read-only model, started with an empty memo, returns the reference value of the
    cell under the current stack, and restores the stack -/
theorem evalCell_ref : ∀ (fuel : Nat) (c : Ctx τ) (a : Addr), c.memo = [] →
    (evalCell (roStore im wc wr) sem fuel c a).2 = cellVal Gen.maxEmpty sem im fuel c.evaluating a ∧
      (evalCell (roStore im wc wr) sem fuel c a).1.evaluating = c.evaluating := by
  intro fuel
  induction fuel with
  | zero => intro c a _; rw [evalCell, cellVal]; exact ⟨rfl, rfl⟩
  | succ n ih =>
    intro c a hm
    rw [evalCell, cellVal]
    simp only [roStore_resolve, roStore_cell, roStore_writeCell]
    cases h2 : im.cell? (im.resolve a) with
    | none => exact ⟨rfl, rfl⟩
    | some cell =>
      simp only
      cases hfc : cell.formula with
      | none => exact ⟨rfl, rfl⟩
      | some f =>
        simp only
        by_cases hcy : c.evaluating.contains (im.resolve a) = true
        · simp only [hcy, if_true, sumLens_eq]; exact ⟨by first | rfl | trivial, by first | rfl | trivial⟩
        · simp only [hcy]
          have hg : GoodV (im.resolve a :: c.evaluating)
              (cellVal Gen.maxEmpty sem im n (im.resolve a :: c.evaluating))
              (evalCell (roStore im wc wr) sem n) := by
            intro c' a' he hm'
            have := ih c' a' hm'
            rw [he] at this
            exact this
          have h := evalFx_ref sem (im := im) (wc := wc) (wr := wr) hg f
            { c with evaluating := im.resolve a :: c.evaluating, trace := c.trace ++ [im.resolve a] }
            ⟨rfl, by intro a' v hx; simp [hm, assoc] at hx⟩
          rcases h3 : evalFx (roStore im wc wr) sem (evalCell (roStore im wc wr) sem n)
            { c with evaluating := im.resolve a :: c.evaluating, trace := c.trace ++ [im.resolve a] } f
            with ⟨c2, r1⟩
          rw [h3] at h
          obtain ⟨_, hr⟩ := h
          simp only at hr
          rw [← hr]
          cases r1 with
          | val v => exact ⟨rfl, rfl⟩
          | exc k m =>
            cases k <;> exact ⟨rfl, rfl⟩
end

end XlVerif.Lemmas.C04
