/-
  Lemmas for C04 / C05 — the generic-store simulation.

  `evalCell` is one definition generic in the store it threads.  Here two runs of it are related:
  one over an arbitrary store `S : Store σ`, one over a *read-only* store `roStore im wc wr` that
  reads the fixed model `im` and does whatever it likes with write-backs (`wc`, `wr` on a state `τ`
  that is never read).  If a relation `Q : σ → τ → Prop` makes the reads of `S` agree with `im` up to
  the stored values of formula cells and the cached range arrays (`Compat`), then the two runs return
  the same result, the same memo, the same in-progress stack and the same trace, and `Q` still holds
  (`evalCell_sim`).  Instances (Props/C04, Props/C05):
    * `mutStore` against `pureStore (erase m)`  (`Q s _ := erase s = erase m`)     → `evalCell_pure`
    * `pureStore m` against `pureStore (erase m)` (`Q _ _ := True`)                → `fresh_erase`
    * `mutStore` against the write log            (`Q s log := s = replay m log ∧ …`) → `retained_bounded`
-/
import XlVerif.Model.Evaluator
namespace XlVerif.Lemmas.C04
open XlVerif XlVerif.Model.Evaluator

/-- what `erase` does to one cell -/
def eraseCell (c : Cell) : Cell := if c.formula.isSome then { c with value := .s .blank } else c

theorem eraseCell_eq {c c' : Cell} (h : eraseCell c = eraseCell c') :
    c.formula = c'.formula ∧ c.formulaLen = c'.formulaLen ∧ (c.formula = none → c.value = c'.value) := by
  obtain ⟨v, f, n⟩ := c
  obtain ⟨v', f', n'⟩ := c'
  unfold eraseCell at h
  cases f <;> cases f' <;> simp_all

/-- a store that reads the fixed model `im`; write-backs go to a state that is never read -/
def roStore {τ : Type} (im : MState) (wc wr : τ → Addr → V → τ) : Store τ where
  cell? := fun _ a => im.cell? a
  range? := fun _ a => im.range? a
  resolve := fun _ a => im.resolve a
  writeCell := wc
  writeRange := wr

@[simp] theorem roStore_resolve {τ : Type} (im : MState) (wc wr : τ → Addr → V → τ) (t : τ) (a : Addr) :
    (roStore im wc wr).resolve t a = im.resolve a := rfl
@[simp] theorem roStore_cell {τ : Type} (im : MState) (wc wr : τ → Addr → V → τ) (t : τ) (a : Addr) :
    (roStore im wc wr).cell? t a = im.cell? a := rfl
@[simp] theorem roStore_range {τ : Type} (im : MState) (wc wr : τ → Addr → V → τ) (t : τ) (a : Addr) :
    (roStore im wc wr).range? t a = im.range? a := rfl
@[simp] theorem roStore_writeCell {τ : Type} (im : MState) (wc wr : τ → Addr → V → τ) :
    (roStore im wc wr).writeCell = wc := rfl
@[simp] theorem roStore_writeRange {τ : Type} (im : MState) (wc wr : τ → Addr → V → τ) :
    (roStore im wc wr).writeRange = wr := rfl

theorem pureStore_eq_roStore (m : MState) :
    pureStore m = roStore m (fun _ _ _ => ()) (fun _ _ _ => ()) := rfl

section
variable {σ τ : Type}

/-- the reads of `S` agree with `im` up to erased information, and related states stay related under
    the write-backs the evaluator performs (a cell is only written when it has a formula) -/
structure Compat (S : Store σ) (im : MState) (wc wr : τ → Addr → V → τ) (Q : σ → τ → Prop) : Prop where
  res : ∀ s t a, Q s t → S.resolve s a = im.resolve a
  cell : ∀ s t a, Q s t → (S.cell? s a).map eraseCell = (im.cell? a).map eraseCell
  rng : ∀ s t k, Q s t → (S.range? s k).map (·.cells) = (im.range? k).map (·.cells)
  wcell : ∀ s t a v, Q s t → (∃ cell, im.cell? a = some cell ∧ cell.formula.isSome) →
    Q (S.writeCell s a v) (wc t a v)
  wrng : ∀ s t k v, Q s t → Q (S.writeRange s k v) (wr t k v)

/-- related contexts: related states, identical stack, memo and trace -/
structure CRel (Q : σ → τ → Prop) (c : Ctx σ) (d : Ctx τ) : Prop where
  st : Q c.st d.st
  ev : c.evaluating = d.evaluating
  memo : c.memo = d.memo
  trace : c.trace = d.trace

/-- related outcomes: related contexts and the same result -/
def PR (Q : σ → τ → Prop) {β : Type} (x : Ctx σ × β) (y : Ctx τ × β) : Prop :=
  CRel Q x.1 y.1 ∧ x.2 = y.2

/-- the two cross-cell evaluators simulate each other -/
def Good (Q : σ → τ → Prop) (ce : Ctx σ → Addr → Ctx σ × Res) (de : Ctx τ → Addr → Ctx τ × Res) : Prop :=
  ∀ c d a, CRel Q c d → PR Q (ce c a) (de d a)

variable {Q : σ → τ → Prop} {ce : Ctx σ → Addr → Ctx σ × Res} {de : Ctx τ → Addr → Ctx τ × Res}

theorem evalRef_sim (hg : Good Q ce de) {c : Ctx σ} {d : Ctx τ} (a : Addr) (hc : CRel Q c d) :
    PR Q (evalRef ce c a) (evalRef de d a) := by
  unfold evalRef
  rw [← hc.memo]
  cases hm : assoc a c.memo with
  | some v => exact ⟨hc, rfl⟩
  | none =>
    have h := hg { c with memo := [] } { d with memo := [] } a ⟨hc.st, hc.ev, rfl, hc.trace⟩
    rcases h1 : ce { c with memo := [] } a with ⟨c1, r1⟩
    rcases h2 : de { d with memo := [] } a with ⟨d1, r2⟩
    rw [h1, h2] at h
    obtain ⟨hc1, hr⟩ := h
    simp only at hc1 hr
    subst hr
    simp only
    cases r1 with
    | val v => exact ⟨⟨hc1.st, hc1.ev, by simp only [hc.memo], hc1.trace⟩, rfl⟩
    | exc k n => exact ⟨⟨hc1.st, hc1.ev, by simp only [hc.memo], hc1.trace⟩, rfl⟩

theorem evalRow_sim (hg : Good Q ce de) : ∀ (row : List Addr) (c : Ctx σ) (d : Ctx τ) (ec : Nat)
    (acc : List V), CRel Q c d → PR Q (evalRow ce c row ec acc) (evalRow de d row ec acc) := by
  intro row
  induction row with
  | nil => intro c d ec acc hc; exact ⟨hc, rfl⟩
  | cons a rest ih =>
    intro c d ec acc hc
    have h := evalRef_sim hg a hc
    rw [evalRow, evalRow]
    rcases h1 : evalRef ce c a with ⟨c1, r1⟩
    rcases h2 : evalRef de d a with ⟨d1, r2⟩
    rw [h1, h2] at h
    obtain ⟨hc1, hr⟩ := h
    simp only at hc1 hr
    subst hr
    cases r1 with
    | exc k n => exact ⟨hc1, rfl⟩
    | val v =>
      simp only
      by_cases he : isEmptyValue v = true
      · simp only [he, if_true]
        by_cases hm : ec + 1 > Gen.maxEmpty
        · simp only [hm, if_true]; exact ⟨hc1, rfl⟩
        · simp only [hm, if_false]; exact ih c1 d1 _ _ hc1
      · simp only [he]; exact ih c1 d1 _ _ hc1

theorem evalRows_sim (hg : Good Q ce de) : ∀ (rows : List (List Addr)) (c : Ctx σ) (d : Ctx τ) (w : Walk),
    CRel Q c d → PR Q (evalRows ce c rows w) (evalRows de d rows w) := by
  intro rows
  induction rows with
  | nil => intro c d w hc; exact ⟨hc, rfl⟩
  | cons row rest ih =>
    intro c d w hc
    have h := evalRow_sim hg row c d w.emptyCol [] hc
    rw [evalRows, evalRows]
    rcases h1 : evalRow ce c row w.emptyCol [] with ⟨c1, r1⟩
    rcases h2 : evalRow de d row w.emptyCol [] with ⟨d1, r2⟩
    rw [h1, h2] at h
    obtain ⟨hc1, hr⟩ := h
    simp only at hc1 hr
    subst hr
    cases r1 with
    | error e => exact ⟨hc1, rfl⟩
    | ok p =>
      obtain ⟨ec, cells⟩ := p
      simp only
      by_cases he : cells.isEmpty = true
      · simp only [he, if_true]
        by_cases hm : w.emptyRow + 1 > Gen.maxEmpty
        · simp only [hm, if_true]; exact ⟨hc1, rfl⟩
        · simp only [hm, if_false]; exact ih c1 d1 _ hc1
      · simp only [he]; exact ih c1 d1 _ hc1

variable {S : Store σ} {im : MState} {wc wr : τ → Addr → V → τ} (sem : Sem)

mutual
theorem evalFx_sim (hq : Compat S im wc wr Q) (hg : Good Q ce de) : ∀ (f : Fx) (c : Ctx σ) (d : Ctx τ),
    CRel Q c d → PR Q (evalFx S sem ce c f) (evalFx (roStore im wc wr) sem de d f)
  | .lit v, c, d, hc => by rw [evalFx, evalFx]; exact ⟨hc, rfl⟩
  | .ref a, c, d, hc => by rw [evalFx, evalFx]; exact evalRef_sim hg a hc
  | .rng key, c, d, hc => by
    rw [evalFx, evalFx]
    have hr := hq.rng c.st d.st key hc.st
    change _ = (im.range? key).map _ at hr
    change PR Q _ (match im.range? key with | some r => _ | none => _)
    cases h1 : S.range? c.st key with
    | none =>
      cases h2 : im.range? key with
      | none => exact evalRef_sim hg key hc
      | some r => rw [h1, h2] at hr; simp at hr
    | some r =>
      cases h2 : im.range? key with
      | none => rw [h1, h2] at hr; simp at hr
      | some r' =>
        rw [h1, h2] at hr
        simp only [Option.map_some, Option.some.injEq] at hr
        simp only [← hr]
        have h := evalRows_sim hg r.cells c d {} hc
        rcases h3 : evalRows ce c r.cells {} with ⟨c1, r1⟩
        rcases h4 : evalRows de d r.cells {} with ⟨d1, r2⟩
        rw [h3, h4] at h
        obtain ⟨hc1, hrr⟩ := h
        simp only at hc1 hrr
        subst hrr
        cases r1 with
        | error e => exact ⟨hc1, rfl⟩
        | ok w => exact ⟨⟨hq.wrng _ _ key _ hc1.st, hc1.ev, hc1.memo, hc1.trace⟩, rfl⟩
  | .app f args, c, d, hc => by
    rw [evalFx, evalFx]
    have h := evalArgs_sim hq hg args c d hc
    rcases h3 : evalArgs S sem ce c args with ⟨c1, r1⟩
    rcases h4 : evalArgs (roStore im wc wr) sem de d args with ⟨d1, r2⟩
    rw [h3, h4] at h
    obtain ⟨hc1, hrr⟩ := h
    simp only at hc1 hrr
    subst hrr
    cases r1 with
    | error e => exact ⟨hc1, rfl⟩
    | ok vs =>
      simp only
      cases sem.app f vs <;> exact ⟨hc1, rfl⟩
  | .iff cond t e, c, d, hc => by
    rw [evalFx, evalFx]
    have h := evalFx_sim hq hg cond c d hc
    rcases h3 : evalFx S sem ce c cond with ⟨c1, r1⟩
    rcases h4 : evalFx (roStore im wc wr) sem de d cond with ⟨d1, r2⟩
    rw [h3, h4] at h
    obtain ⟨hc1, hrr⟩ := h
    simp only at hc1 hrr
    subst hrr
    cases r1 with
    | exc k n => exact ⟨hc1, rfl⟩
    | val v =>
      simp only
      cases sem.truth v with
      | none => exact ⟨hc1, rfl⟩
      | some b =>
        cases b with
        | true => exact evalFx_sim hq hg t c1 d1 hc1
        | false => exact evalFx_sim hq hg e c1 d1 hc1
  | .sc isAnd args, c, d, hc => by rw [evalFx, evalFx]; exact evalSc_sim hq hg args isAnd c d hc
  | .fail n _, c, d, hc => by rw [evalFx, evalFx]; exact ⟨hc, rfl⟩

theorem evalArgs_sim (hq : Compat S im wc wr Q) (hg : Good Q ce de) : ∀ (l : List Fx) (c : Ctx σ) (d : Ctx τ),
    CRel Q c d → PR Q (evalArgs S sem ce c l) (evalArgs (roStore im wc wr) sem de d l)
  | [], c, d, hc => by rw [evalArgs, evalArgs]; exact ⟨hc, rfl⟩
  | a :: rest, c, d, hc => by
    rw [evalArgs, evalArgs]
    have h := evalFx_sim hq hg a c d hc
    rcases h3 : evalFx S sem ce c a with ⟨c1, r1⟩
    rcases h4 : evalFx (roStore im wc wr) sem de d a with ⟨d1, r2⟩
    rw [h3, h4] at h
    obtain ⟨hc1, hrr⟩ := h
    simp only at hc1 hrr
    subst hrr
    cases r1 with
    | exc k n => exact ⟨hc1, rfl⟩
    | val v =>
      simp only
      have h' := evalArgs_sim hq hg rest c1 d1 hc1
      rcases h5 : evalArgs S sem ce c1 rest with ⟨c2, r3⟩
      rcases h6 : evalArgs (roStore im wc wr) sem de d1 rest with ⟨d2, r4⟩
      rw [h5, h6] at h'
      obtain ⟨hc2, hrr⟩ := h'
      simp only at hc2 hrr
      subst hrr
      cases r3 <;> exact ⟨hc2, rfl⟩

theorem evalSc_sim (hq : Compat S im wc wr Q) (hg : Good Q ce de) : ∀ (l : List Fx) (isAnd : Bool)
    (c : Ctx σ) (d : Ctx τ),
    CRel Q c d → PR Q (evalSc S sem ce c isAnd l) (evalSc (roStore im wc wr) sem de d isAnd l)
  | [], isAnd, c, d, hc => by rw [evalSc, evalSc]; exact ⟨hc, rfl⟩
  | a :: rest, isAnd, c, d, hc => by
    rw [evalSc, evalSc]
    have h := evalFx_sim hq hg a c d hc
    rcases h3 : evalFx S sem ce c a with ⟨c1, r1⟩
    rcases h4 : evalFx (roStore im wc wr) sem de d a with ⟨d1, r2⟩
    rw [h3, h4] at h
    obtain ⟨hc1, hrr⟩ := h
    simp only at hc1 hrr
    subst hrr
    cases r1 with
    | exc k n => exact ⟨hc1, rfl⟩
    | val v =>
      simp only
      cases argVerdict sem isAnd v with
      | neutral => exact evalSc_sim hq hg rest isAnd c1 d1 hc1
      | decided b => exact ⟨hc1, rfl⟩
      | error e => exact ⟨hc1, rfl⟩
end

/-- the simulation for `Evaluator.evaluate`, by induction on the fuel -/
theorem evalCell_sim (hq : Compat S im wc wr Q) : ∀ (fuel : Nat) (c : Ctx σ) (d : Ctx τ) (a : Addr),
    CRel Q c d → PR Q (evalCell S sem fuel c a) (evalCell (roStore im wc wr) sem fuel d a) := by
  intro fuel
  induction fuel with
  | zero => intro c d a hc; rw [evalCell, evalCell]; exact ⟨hc, rfl⟩
  | succ n ih =>
    intro c d a hc
    have hgood : Good Q (evalCell S sem n) (evalCell (roStore im wc wr) sem n) := fun c d a h => ih c d a h
    rw [evalCell, evalCell]
    have hres := hq.res c.st d.st a hc.st
    have hcell := hq.cell c.st d.st (im.resolve a) hc.st
    simp only [roStore_resolve, roStore_cell, roStore_writeCell, hres]
    cases h1 : S.cell? c.st (im.resolve a) with
    | none =>
      cases h2 : im.cell? (im.resolve a) with
      | none => exact ⟨hc, rfl⟩
      | some cell' => rw [h1, h2] at hcell; simp at hcell
    | some cell =>
      cases h2 : im.cell? (im.resolve a) with
      | none => rw [h1, h2] at hcell; simp at hcell
      | some cell' =>
        rw [h1, h2] at hcell
        simp only [Option.map_some, Option.some.injEq] at hcell
        obtain ⟨hf, hl, hv⟩ := eraseCell_eq hcell
        simp only
        cases hfc : cell.formula with
        | none =>
          rw [hfc] at hf
          simp only [← hf]
          rw [hv hfc]
          exact ⟨hc, rfl⟩
        | some f =>
          rw [hfc] at hf
          simp only [← hf, ← hc.ev]
          by_cases hcy : c.evaluating.contains (im.resolve a) = true
          · simp only [hcy, if_true]; exact ⟨hc, rfl⟩
          · simp only [hcy]
            have h := evalFx_sim sem hq hgood f
              { c with evaluating := im.resolve a :: c.evaluating, trace := c.trace ++ [im.resolve a] }
              { d with evaluating := im.resolve a :: c.evaluating, trace := d.trace ++ [im.resolve a] }
              ⟨hc.st, rfl, hc.memo, by simp only [hc.trace]⟩
            rcases h3 : evalFx S sem (evalCell S sem n)
              { c with evaluating := im.resolve a :: c.evaluating, trace := c.trace ++ [im.resolve a] } f
              with ⟨c2, r1⟩
            rcases h4 : evalFx (roStore im wc wr) sem (evalCell (roStore im wc wr) sem n)
              { d with evaluating := im.resolve a :: c.evaluating, trace := d.trace ++ [im.resolve a] } f
              with ⟨d2, r2⟩
            rw [h3, h4] at h
            obtain ⟨hc2, hrr⟩ := h
            simp only at hc2 hrr
            subst hrr
            have hform : ∃ cell, im.cell? (im.resolve a) = some cell ∧ cell.formula.isSome :=
              ⟨cell', h2, by rw [← hf]; rfl⟩
            cases r1 with
            | val v =>
              exact ⟨⟨hq.wcell _ _ _ _ hc2.st hform, rfl, hc2.memo, hc2.trace⟩, rfl⟩
            | exc k m =>
              cases k with
              | problem => exact ⟨⟨hc2.st, rfl, hc2.memo, hc2.trace⟩, by simp [hl]⟩
              | cycle => exact ⟨⟨hc2.st, rfl, hc2.memo, hc2.trace⟩, rfl⟩
              | recursion => exact ⟨⟨hc2.st, rfl, hc2.memo, hc2.trace⟩, rfl⟩
              | runtime => exact ⟨⟨hc2.st, rfl, hc2.memo, hc2.trace⟩, rfl⟩
end

end XlVerif.Lemmas.C04
