/-
  Lemmas for C05 — the write log.  `evalCell` over the *logging* store reads the fixed inputs and
  appends every write-back to a list; by the generic simulation the mutable model after `evaluate` is
  the initial model with that log replayed, and the log is a function of the inputs alone.  Replaying
  a log twice is replaying it once (a write-back sets the value stored under a key), so repeated
  evaluation reaches a fixed point after the first pass: nothing accumulates.
-/
import XlVerif.Lemmas.C04Ref
import XlVerif.Model.C04
namespace XlVerif.Lemmas.C05
open XlVerif XlVerif.Model.Evaluator XlVerif.Model.C04 XlVerif.Lemmas.C04

/-! ### updates of association lists absorb and commute -/

theorem assocUpdate_absorb {β : Type} (k : Addr) (f g : β → β) (h : ∀ b, f (g b) = f b) (l : List (Addr × β)) :
    assocUpdate k f (assocUpdate k g l) = assocUpdate k f l := by
  induction l with
  | nil => rfl
  | cons p rest ih =>
    obtain ⟨k', b⟩ := p
    by_cases hk : k = k' <;> simp [assocUpdate, hk, ih, h]

theorem assocUpdate_comm {β : Type} (k k' : Addr) (f g : β → β) (hne : k ≠ k') (l : List (Addr × β)) :
    assocUpdate k f (assocUpdate k' g l) = assocUpdate k' g (assocUpdate k f l) := by
  induction l with
  | nil => rfl
  | cons p rest ih =>
    obtain ⟨k2, b⟩ := p
    by_cases h1 : k = k2
    · subst h1
      have h2 : ¬ k' = k := fun e => hne e.symm
      simp [assocUpdate, h2]
    · by_cases h2 : k' = k2
      · subst h2; simp [assocUpdate, h1]
      · simp [assocUpdate, h1, h2, ih]

/-! ### write-backs and their replay -/

inductive Write
  | cell (a : Addr) (v : V)       -- `cell.value = value`
  | range (k : Addr) (v : V)      -- `context.ranges[addr].value = data`
  deriving Repr

def applyW (m : MState) : Write → MState
  | .cell a v => mutStore.writeCell m a v
  | .range k v => mutStore.writeRange m k v

def replay (m : MState) (ws : List Write) : MState := ws.foldl applyW m

/-- two writes target the same slot -/
def sameSlot : Write → Write → Prop
  | .cell a _, .cell b _ => a = b
  | .range a _, .range b _ => a = b
  | _, _ => False

theorem applyW_absorb (m : MState) (w w' : Write) (h : sameSlot w w') : applyW (applyW m w) w' = applyW m w' := by
  cases w with
  | cell a v =>
    cases w' with
    | cell b v' =>
      have : a = b := h
      subst this
      simp only [applyW, mutStore_writeCell, MState.mk.injEq, and_true]
      apply assocUpdate_absorb; intro b; rfl
    | range b v' => exact absurd h (by simp [sameSlot])
  | range a v =>
    cases w' with
    | cell b v' => exact absurd h (by simp [sameSlot])
    | range b v' =>
      have : a = b := h
      subst this
      simp only [applyW, mutStore_writeRange, MState.mk.injEq, true_and, and_true]
      apply assocUpdate_absorb; intro b; rfl

theorem applyW_comm (m : MState) (w w' : Write) (h : ¬ sameSlot w w') :
    applyW (applyW m w) w' = applyW (applyW m w') w := by
  cases w with
  | cell a v =>
    cases w' with
    | cell b v' =>
      have hne : b ≠ a := fun e => h e.symm
      simp only [applyW, mutStore_writeCell, MState.mk.injEq, and_true]
      exact assocUpdate_comm _ _ _ _ hne _
    | range b v' => rfl
  | range a v =>
    cases w' with
    | cell b v' => rfl
    | range b v' =>
      have hne : b ≠ a := fun e => h e.symm
      simp only [applyW, mutStore_writeRange, MState.mk.injEq, true_and, and_true]
      exact assocUpdate_comm _ _ _ _ hne _

instance (w w' : Write) : Decidable (sameSlot w w') := by
  cases w <;> cases w' <;> simp only [sameSlot] <;> infer_instance

theorem replay_cons (m : MState) (w : Write) (ws : List Write) : replay m (w :: ws) = replay (applyW m w) ws := rfl

theorem replay_append (m : MState) (u w : List Write) : replay m (u ++ w) = replay (replay m u) w := by
  simp [replay, List.foldl_append]

/-- a write is forgotten when a later write targets the same slot -/
theorem replay_absorb (w : Write) : ∀ (ws : List Write) (m : MState), (∃ w' ∈ ws, sameSlot w w') →
    replay (applyW m w) ws = replay m ws := by
  intro ws
  induction ws with
  | nil => intro m ⟨w', hw, _⟩; cases hw
  | cons x rest ih =>
    intro m ⟨w', hw, hs⟩
    rw [replay_cons, replay_cons]
    by_cases hx : sameSlot w x
    · rw [applyW_absorb m w x hx]
    · rw [applyW_comm m w x hx]
      apply ih
      cases List.mem_cons.1 hw with
      | inl e => subst e; exact absurd hs hx
      | inr e => exact ⟨w', e, hs⟩

/-- replaying `u` first makes no difference when every slot it writes is written again by `ws` -/
theorem replay_replay (ws : List Write) : ∀ (u : List Write) (m : MState),
    (∀ x ∈ u, ∃ w' ∈ ws, sameSlot x w') → replay (replay m u) ws = replay m ws := by
  intro u
  induction u with
  | nil => intro m _; rfl
  | cons x rest ih =>
    intro m h
    rw [replay_cons, ih _ (fun y hy => h y (List.mem_cons_of_mem _ hy))]
    exact replay_absorb x ws m (h x List.mem_cons_self)

theorem sameSlot_refl (w : Write) : sameSlot w w := by cases w <;> rfl

theorem replay_idem (m : MState) (ws : List Write) : replay (replay m ws) ws = replay m ws :=
  replay_replay ws ws m (fun x hx => ⟨x, hx, sameSlot_refl x⟩)

/-! ### the logging store -/

def logCell (l : List Write) (a : Addr) (v : V) : List Write := l ++ [.cell a v]
def logRange (l : List Write) (k : Addr) (v : V) : List Write := l ++ [.range k v]

/-- reads the inputs `im`, appends write-backs to the log -/
def logStore (im : MState) : Store (List Write) := roStore im logCell logRange

/-- the write-backs `evaluate a` performs — a function of the inputs -/
def writesOf (sem : Sem) (fuel : Nat) (im : MState) (a : Addr) : List Write :=
  (evalCell (logStore im) sem fuel { st := [], evaluating := [], memo := [] } a).1.st

theorem compat_mut_log (m0 : MState) :
    Compat mutStore (erase m0) logCell logRange (fun s l => s = replay m0 l ∧ erase s = erase m0) where
  res := fun s _ a h => (compat_mut_pure m0).res s () a h.2
  cell := fun s _ a h => (compat_mut_pure m0).cell s () a h.2
  rng := fun s _ k h => (compat_mut_pure m0).rng s () k h.2
  wcell := fun s l a v h hf => by
    refine ⟨?_, (compat_mut_pure m0).wcell s () a v h.2 hf⟩
    rw [logCell, replay_append, ← h.1]; rfl
  wrng := fun s l k v h => by
    refine ⟨?_, (compat_mut_pure m0).wrng s () k v h.2⟩
    rw [logRange, replay_append, ← h.1]; rfl

/-- the context `evaluate` ends with: the model is the initial one with the log replayed, the result
    is the reference value, and the in-progress stack is empty again -/
theorem evalCell_log (sem : Sem) (fuel : Nat) (m : MState) (a : Addr) :
    let out := evalCell mutStore sem fuel { st := m, evaluating := [], memo := [] } a
    out.1.st = replay m (writesOf sem fuel (erase m) a) ∧ erase out.1.st = erase m ∧ out.1.evaluating = [] := by
  have h := evalCell_sim sem (compat_mut_log m) fuel
    { st := m, evaluating := [], memo := [] } { st := [], evaluating := [], memo := [] } a ⟨⟨rfl, rfl⟩, rfl, rfl, rfl⟩
  have h2 := (evalCell_ref (im := erase m) (wc := logCell) (wr := logRange) sem fuel
    { st := [], evaluating := [], memo := [] } a rfl).2
  refine ⟨h.1.st.1, h.1.st.2, ?_⟩
  rw [h.1.ev]; exact h2

theorem evaluate_replay (sem : Sem) (fuel : Nat) (m : MState) (a : Addr) :
    (evaluate sem fuel m a).1 = replay m (writesOf sem fuel (erase m) a) :=
  (evalCell_log sem fuel m a).1

/-! ### evaluators sharing a model -/

def AllEmpty (stacks : List (List Addr)) : Prop := ∀ st ∈ stacks, st = []

theorem getD_allEmpty : ∀ (stacks : List (List Addr)) (e : Nat), AllEmpty stacks → stacks.getD e [] = [] := by
  intro stacks
  induction stacks with
  | nil => intro e _; rfl
  | cons x rest ih =>
    intro e h
    cases e with
    | zero => exact h x List.mem_cons_self
    | succ k =>
      simp only [List.getD_cons_succ]
      exact ih k (fun st hs => h st (List.mem_cons_of_mem _ hs))

theorem set_allEmpty : ∀ (stacks : List (List Addr)) (e : Nat), AllEmpty stacks → stacks.set e [] = stacks := by
  intro stacks
  induction stacks with
  | nil => intro e _; rfl
  | cons x rest ih =>
    intro e h
    cases e with
    | zero => simp only [List.set_cons_zero]; rw [h x List.mem_cons_self]
    | succ k =>
      simp only [List.set_cons_succ]
      rw [ih k (fun st hs => h st (List.mem_cons_of_mem _ hs))]

/-- between calls every evaluator's stack is empty, so which evaluator issues a call is irrelevant -/
theorem sys_evaluate (sem : Sem) (fuel : Nat) (s : Sys) (e : Nat) (a : Addr) (h : AllEmpty s.stacks) :
    Sys.evaluate sem fuel s e a =
      ({ model := (evaluate sem fuel s.model a).1, stacks := s.stacks }, (evaluate sem fuel s.model a).2.1) := by
  unfold Sys.evaluate
  rw [getD_allEmpty _ _ h]
  have := (evalCell_log sem fuel s.model a).2.2
  simp only [this, set_allEmpty _ _ h]
  rfl

theorem allEmpty_init (m : MState) (k : Nat) : AllEmpty (Sys.init m k).stacks := by
  intro st hs
  exact (List.mem_replicate.1 hs).2

/-- the writes of a whole schedule -/
def schedWrites (sem : Sem) (fuel : Nat) (im : MState) (sched : List (Nat × Addr)) : List Write :=
  sched.flatMap fun p => writesOf sem fuel im p.2

theorem replay_erase (m : MState) (sem : Sem) (fuel : Nat) : ∀ (sched : List (Nat × Addr)) (m' : MState),
    erase m' = erase m → erase (replay m' (schedWrites sem fuel (erase m) sched)) = erase m := by
  intro sched
  induction sched with
  | nil => intro m' h; exact h
  | cons p rest ih =>
    intro m' h
    simp only [schedWrites, List.flatMap_cons, replay_append]
    apply ih
    have : replay m' (writesOf sem fuel (erase m) p.2) = (evaluate sem fuel m' p.2).1 := by
      rw [evaluate_replay, h]
    rw [this]
    exact ((evalCell_pure_erase sem fuel m' p.2).trans h)
where
  evalCell_pure_erase (sem : Sem) (fuel : Nat) (m : MState) (a : Addr) : erase (evaluate sem fuel m a).1 = erase m :=
    (evalCell_log sem fuel m a).2.1

/-- running a schedule: model = replay of the schedule's writes, results = reference values, stacks
    untouched -/
theorem runSched_eq (sem : Sem) (fuel : Nat) (m : MState) : ∀ (sched : List (Nat × Addr)) (s : Sys),
    AllEmpty s.stacks → erase s.model = erase m →
    (Sys.runSched sem fuel s sched).1 =
        { model := replay s.model (schedWrites sem fuel (erase m) sched), stacks := s.stacks }
      ∧ (Sys.runSched sem fuel s sched).2 = sched.map fun p => fresh sem fuel (erase m) p.2 := by
  intro sched
  induction sched with
  | nil => intro s _ _; exact ⟨rfl, rfl⟩
  | cons p rest ih =>
    intro s he hm
    obtain ⟨e, a⟩ := p
    rw [Sys.runSched, sys_evaluate sem fuel s e a he]
    have h1 := evalCell_log sem fuel s.model a
    simp only at h1
    have hm' : erase (evaluate sem fuel s.model a).1 = erase m := h1.2.1.trans hm
    obtain ⟨i1, i2⟩ := ih { model := (evaluate sem fuel s.model a).1, stacks := s.stacks } he hm'
    simp only at i1 i2
    refine ⟨?_, ?_⟩
    · simp only [i1, schedWrites, List.flatMap_cons, replay_append, Sys.mk.injEq, and_true]
      rw [evaluate_replay, hm]
    · simp only [i2, List.map_cons, List.cons.injEq, and_true]
      have := evalCell_sim sem (compat_mut_pure s.model) fuel
        { st := s.model, evaluating := [], memo := [] } { st := (), evaluating := [], memo := [] } a
        ⟨rfl, rfl, rfl, rfl⟩
      rw [← hm]; exact this.2

theorem rounds_succ (sem : Sem) (fuel : Nat) (sched : List (Nat × Addr)) (n : Nat) (s : Sys) :
    Sys.rounds sem fuel sched (n + 1) s = Sys.rounds sem fuel sched n (Sys.runSched sem fuel s sched).1 := rfl

end XlVerif.Lemmas.C05
