/-
  XlVerif.Lemmas.C06 — invariants of the evaluator model used by Props/C06 (and C10).

  1. `Fx.ind`            structural induction over formula trees (nested lists as `∀ a ∈ args`)
  2. `Agree` / `Lawful`  the store keeps formulas, range shapes and names ("static" data) fixed
  3. `fx_prov`           provenance of every exception leaving `evalFx`: it is the outcome of some
                         `eval_cell` on a target of the formula, or a raise of a function body, or an unknown function
  4. `fx_val`            strict formulas: a value means every target was evaluated to a value
-/
import XlVerif.Model.C06
import XlVerif.Spec.C06
namespace XlVerif.Lemmas.C06
open XlVerif XlVerif.Model.Evaluator XlVerif.Model.C06

theorem Fx.ind {P : Fx → Prop}
    (lit : ∀ v, P (.lit v)) (ref : ∀ a, P (.ref a)) (rng : ∀ k, P (.rng k))
    (app : ∀ f args, (∀ a ∈ args, P a) → P (.app f args))
    (iff : ∀ c t e, P c → P t → P e → P (.iff c t e))
    (sc : ∀ b args, (∀ a ∈ args, P a) → P (.sc b args))
    (fail : ∀ n args, (∀ a ∈ args, P a) → P (.fail n args)) : ∀ f, P f := by
  intro f
  induction f using Fx.rec (motive_2 := fun l => ∀ a ∈ l, P a) with
  | lit v => exact lit v
  | ref a => exact ref a
  | rng k => exact rng k
  | app f args ih => exact app f args ih
  | iff c t e ihc iht ihe => exact iff c t e ihc iht ihe
  | sc b args ih => exact sc b args ih
  | fail n args ih => exact fail n args ih
  | nil => rename_i x hx; cases hx
  | cons a l iha ihl =>
    rename_i x hx
    rcases List.mem_cons.mp hx with rfl | hx
    · exact iha
    · exact ihl x hx

@[simp] theorem targets_lit (rc) (v : V) : targets rc (.lit v) = [] := by simp [targets]
@[simp] theorem targets_ref (rc) (a : Addr) : targets rc (.ref a) = [a] := by simp [targets]
theorem targets_rng (rc) (k : Addr) :
    targets rc (.rng k) = (match rc k with | some rows => rows.flatten | none => [k]) := by
  simp only [targets]; split <;> simp_all
@[simp] theorem targets_app (rc) (f : Nat) (args : List Fx) : targets rc (.app f args) = targetsL rc args := by
  simp [targets]
@[simp] theorem targets_iff (rc) (c t e : Fx) :
    targets rc (.iff c t e) = targets rc c ++ (targets rc t ++ targets rc e) := by simp [targets]
@[simp] theorem targets_sc (rc) (b : Bool) (args : List Fx) : targets rc (.sc b args) = targetsL rc args := by
  simp [targets]
@[simp] theorem targets_fail (rc) (n : Nat) (args : List Fx) : targets rc (.fail n args) = [] := by simp [targets]
@[simp] theorem targetsL_nil (rc) : targetsL rc [] = [] := by simp [targetsL]
@[simp] theorem targetsL_cons (rc) (a : Fx) (l : List Fx) :
    targetsL rc (a :: l) = targets rc a ++ targetsL rc l := by simp [targetsL]

@[simp] theorem failLens_lit (v : V) : failLens (.lit v) = [] := by simp [failLens]
@[simp] theorem failLens_ref (a : Addr) : failLens (.ref a) = [] := by simp [failLens]
@[simp] theorem failLens_rng (k : Addr) : failLens (.rng k) = [] := by simp [failLens]
@[simp] theorem failLens_app (f : Nat) (args : List Fx) : failLens (.app f args) = failLensL args := by
  simp [failLens]
@[simp] theorem failLens_iff (c t e : Fx) :
    failLens (.iff c t e) = failLens c ++ (failLens t ++ failLens e) := by simp [failLens]
@[simp] theorem failLens_sc (b : Bool) (args : List Fx) : failLens (.sc b args) = failLensL args := by
  simp [failLens]
@[simp] theorem failLens_fail (n : Nat) (args : List Fx) : failLens (.fail n args) = [n] := by simp [failLens]
@[simp] theorem failLensL_nil : failLensL [] = [] := by simp [failLensL]
@[simp] theorem failLensL_cons (a : Fx) (l : List Fx) : failLensL (a :: l) = failLens a ++ failLensL l := by
  simp [failLensL]


/-! ### provenance of exceptions -/
section prov
variable {σ : Type} (S : Store σ) (sem : Sem) (ce : Ctx σ → Addr → Ctx σ × Res)
variable (I : Ctx σ → Prop) (rc : Addr → Option (List (List Addr)))

/-- what the context invariant `I` has to be stable under -/
structure Frame : Prop where
  memo : ∀ c m, I c → I { c with memo := m }
  wr : ∀ c k v, I c → I { c with st := S.writeRange c.st k v }
  rng : ∀ c k, I c → (S.range? c.st k).map (·.cells) = rc k
  ce : ∀ c b, I c → I (ce c b).1

/-- where a result of `evalFx` can come from -/
def Prov (ts : List Addr) (fl : List Nat) (r : Res) : Prop :=
  (∃ v, r = .val v)
  ∨ (∃ c b, I c ∧ b ∈ ts ∧ (ce c b).2 = r)
  ∨ (∃ g vs n, sem.app g vs = .raiseRuntime n ∧ r = .exc .runtime n)
  ∨ (∃ n, r = .exc .problem n ∧ ((∃ g vs, sem.app g vs = .raiseOther n) ∨ n ∈ fl))

variable {sem ce I}
theorem Prov.mono {ts ts' : List Addr} {fl fl' : List Nat} {r : Res}
    (h : Prov sem ce I ts fl r) (hts : ∀ x ∈ ts, x ∈ ts') (hfl : ∀ x ∈ fl, x ∈ fl') :
    Prov sem ce I ts' fl' r := by
  rcases h with h | ⟨c, b, hI, hb, he⟩ | h | ⟨n, hr, h | h⟩
  · exact .inl h
  · exact .inr (.inl ⟨c, b, hI, hts b hb, he⟩)
  · exact .inr (.inr (.inl h))
  · exact .inr (.inr (.inr ⟨n, hr, .inl h⟩))
  · exact .inr (.inr (.inr ⟨n, hr, .inr (hfl n h)⟩))

variable {S rc}
variable (F : Frame S ce I rc)
include F

theorem ref_prov (c : Ctx σ) (a : Addr) (hI : I c) :
    I (evalRef ce c a).1 ∧ Prov sem ce I [a] [] (evalRef ce c a).2 := by
  unfold evalRef
  cases hm : assoc a c.memo with
  | some v => exact ⟨hI, .inl ⟨v, rfl⟩⟩
  | none =>
    have h0 : I { c with memo := [] } := F.memo c [] hI
    have h1 := F.ce _ a h0
    simp only
    cases hr : ce { c with memo := [] } a with
    | mk c' r =>
      rw [hr] at h1
      cases r with
      | val v => exact ⟨F.memo _ _ h1, .inl ⟨v, rfl⟩⟩
      | exc k n =>
        refine ⟨F.memo _ _ h1, .inr (.inl ⟨_, a, h0, by simp, ?_⟩)⟩
        rw [hr]


theorem row_prov (row : List Addr) : ∀ (c : Ctx σ) (ec : Nat) (acc : List V), I c →
    I (evalRow ce c row ec acc).1 ∧
      ∀ e, (evalRow ce c row ec acc).2 = .error e → Prov sem ce I row [] e := by
  induction row with
  | nil => intro c ec acc hI; simp [evalRow, hI]
  | cons a rest ih =>
    intro c ec acc hI
    have h1 := ref_prov (sem := sem) F c a hI
    cases hr : evalRef ce c a with
    | mk c' r =>
      rw [hr] at h1
      cases r with
      | val v =>
        simp only [evalRow, hr]
        by_cases hE : isEmptyValue v = true
        · simp only [hE, if_true]
          by_cases hG : ec + 1 > Gen.maxEmpty
          · simp [hG, h1.1]
          · simp only [hG, if_false]
            have := ih c' (ec + 1) (acc ++ [v]) h1.1
            exact ⟨this.1, fun e he => (this.2 e he).mono (by simp_all) (by simp)⟩
        · simp only [hE]
          have := ih c' 0 (acc ++ [v]) h1.1
          exact ⟨this.1, fun e he => (this.2 e he).mono (by simp_all) (by simp)⟩
      | exc k n =>
        simp only [evalRow, hr]
        refine ⟨h1.1, fun e he => ?_⟩
        cases he
        exact h1.2.mono (by simp) (by simp)

theorem rows_prov (rows : List (List Addr)) : ∀ (c : Ctx σ) (w : Walk), I c →
    I (evalRows ce c rows w).1 ∧
      ∀ e, (evalRows ce c rows w).2 = .error e → Prov sem ce I rows.flatten [] e := by
  induction rows with
  | nil => intro c w hI; simp [evalRows, hI]
  | cons row rest ih =>
    intro c w hI
    have h1 := row_prov (sem := sem) F row c w.emptyCol [] hI
    cases hr : evalRow ce c row w.emptyCol [] with
    | mk c' r =>
      rw [hr] at h1
      cases r with
      | error e =>
        simp only [evalRows, hr]
        refine ⟨h1.1, fun e' he => ?_⟩
        cases he
        exact (h1.2 e rfl).mono (by simp_all) (by simp)
      | ok p =>
        obtain ⟨ec, cells⟩ := p
        simp only [evalRows, hr]
        have key : ∀ w', I (evalRows ce c' rest w').1 ∧ ∀ e, (evalRows ce c' rest w').2 = .error e →
            Prov sem ce I (row :: rest).flatten [] e := fun w' =>
          ⟨(ih c' w' h1.1).1, fun e he => ((ih c' w' h1.1).2 e he).mono (by simp_all) (by simp)⟩
        split
        · split
          · exact ⟨h1.1, by simp⟩
          · exact key _
        · exact key _


/-- the statement proved for every formula -/
def FxProv (f : Fx) : Prop :=
  ∀ c : Ctx σ, I c → I (evalFx S sem ce c f).1 ∧
    Prov sem ce I (targets rc f) (failLens f) (evalFx S sem ce c f).2

omit F in
theorem args_prov (args : List Fx) (ih : ∀ a ∈ args, FxProv (S := S) (sem := sem) (ce := ce) (I := I) (rc := rc) a) :
    ∀ c : Ctx σ, I c → I (evalArgs S sem ce c args).1 ∧
      ∀ e, (evalArgs S sem ce c args).2 = .error e →
        Prov sem ce I (targetsL rc args) (failLensL args) e := by
  induction args with
  | nil => intro c hI; simp [evalArgs, hI]
  | cons a rest ihr =>
    intro c hI
    have h1 := ih a (by simp) c hI
    have ihr' := ihr (fun x hx => ih x (by simp [hx]))
    cases hr : evalFx S sem ce c a with
    | mk c' r =>
      rw [hr] at h1
      cases r with
      | val v =>
        simp only [evalArgs, hr]
        have h2 := ihr' c' h1.1
        cases hr2 : evalArgs S sem ce c' rest with
        | mk c'' r2 =>
          rw [hr2] at h2
          cases r2 with
          | ok vs => exact ⟨h2.1, by simp⟩
          | error e =>
            refine ⟨h2.1, fun e' he => ?_⟩
            cases he
            exact (h2.2 e rfl).mono (by simp_all) (by simp_all)
      | exc k n =>
        simp only [evalArgs, hr]
        refine ⟨h1.1, fun e' he => ?_⟩
        cases he
        exact h1.2.mono (by simp_all) (by simp_all)

omit F in
theorem sc_prov (args : List Fx) (ih : ∀ a ∈ args, FxProv (S := S) (sem := sem) (ce := ce) (I := I) (rc := rc) a) :
    ∀ (c : Ctx σ) (isAnd : Bool), I c → I (evalSc S sem ce c isAnd args).1 ∧
      Prov sem ce I (targetsL rc args) (failLensL args) (evalSc S sem ce c isAnd args).2 := by
  induction args with
  | nil => intro c isAnd hI; exact ⟨by simp [evalSc, hI], .inl ⟨.s (.bool isAnd), by simp [evalSc]⟩⟩
  | cons a rest ihr =>
    intro c isAnd hI
    have h1 := ih a (by simp) c hI
    have ihr' := ihr (fun x hx => ih x (by simp [hx]))
    have key : ∀ c', I c' → I (evalSc S sem ce c' isAnd rest).1 ∧
        Prov sem ce I (targetsL rc (a :: rest)) (failLensL (a :: rest)) (evalSc S sem ce c' isAnd rest).2 :=
      fun c' h => ⟨(ihr' c' isAnd h).1, (ihr' c' isAnd h).2.mono (by simp_all) (by simp_all)⟩
    cases hr : evalFx S sem ce c a with
    | mk c' r =>
      rw [hr] at h1
      cases r with
      | val v =>
        simp only [evalSc, hr]
        split
        · exact key c' h1.1
        · exact ⟨h1.1, .inl ⟨_, rfl⟩⟩
        · exact ⟨h1.1, .inl ⟨_, rfl⟩⟩
      | exc k n =>
        simp only [evalSc, hr]
        exact ⟨h1.1, h1.2.mono (by simp_all) (by simp_all)⟩

theorem fx_prov (f : Fx) : FxProv (S := S) (sem := sem) (ce := ce) (I := I) (rc := rc) f := by
  induction f using Fx.ind with
  | lit v => intro c hI; exact ⟨by simp [evalFx, hI], .inl ⟨v, by simp [evalFx]⟩⟩
  | ref a =>
    intro c hI
    have := ref_prov (sem := sem) F c a hI
    simp only [evalFx]
    exact ⟨this.1, this.2.mono (by simp) (by simp)⟩
  | rng k =>
    intro c hI
    have hk := F.rng c k hI
    simp only [evalFx]
    cases hr : S.range? c.st k with
    | none =>
      rw [hr] at hk
      have := ref_prov (sem := sem) F c k hI
      simp only
      refine ⟨this.1, this.2.mono ?_ (by simp)⟩
      rw [targets_rng, ← hk]; simp
    | some r =>
      rw [hr] at hk
      have h1 := rows_prov (sem := sem) F r.cells c {} hI
      simp only
      cases hw : evalRows ce c r.cells {} with
      | mk c' res =>
        rw [hw] at h1
        cases res with
        | ok w => exact ⟨F.wr _ _ _ h1.1, .inl ⟨_, rfl⟩⟩
        | error e =>
          refine ⟨h1.1, (h1.2 e rfl).mono ?_ (by simp)⟩
          rw [targets_rng, ← hk]; simp
  | app g args ih =>
    intro c hI
    have h1 := args_prov args ih c hI
    simp only [evalFx]
    cases hr : evalArgs S sem ce c args with
    | mk c' res =>
      rw [hr] at h1
      cases res with
      | ok vs =>
        simp only
        cases ha : sem.app g vs with
        | val v => exact ⟨h1.1, .inl ⟨v, rfl⟩⟩
        | raiseRuntime n => exact ⟨h1.1, .inr (.inr (.inl ⟨g, vs, n, ha, rfl⟩))⟩
        | raiseOther n => exact ⟨h1.1, .inr (.inr (.inr ⟨n, rfl, .inl ⟨g, vs, ha⟩⟩))⟩
      | error e => exact ⟨h1.1, (h1.2 e rfl).mono (by simp) (by simp)⟩
  | iff cond t e ihc iht ihe =>
    intro c hI
    have h1 := ihc c hI
    simp only [evalFx]
    cases hr : evalFx S sem ce c cond with
    | mk c' r =>
      rw [hr] at h1
      cases r with
      | val v =>
        simp only
        cases ht : sem.truth v with
        | none => exact ⟨h1.1, .inl ⟨v, rfl⟩⟩
        | some b =>
          cases b with
          | true =>
            have := iht c' h1.1
            exact ⟨this.1, this.2.mono (by simp_all) (by simp_all)⟩
          | false =>
            have := ihe c' h1.1
            exact ⟨this.1, this.2.mono (by simp_all) (by simp_all)⟩
      | exc k n => exact ⟨h1.1, h1.2.mono (by simp_all) (by simp_all)⟩
  | sc b args ih =>
    intro c hI
    have := sc_prov args ih c b hI
    simp only [evalFx]
    exact ⟨this.1, this.2.mono (by simp) (by simp)⟩
  | fail n args _ =>
    intro c hI
    simp only [evalFx]
    exact ⟨hI, .inr (.inr (.inr ⟨n, rfl, .inr (by simp)⟩))⟩

end prov

/-! ### strict formulas: a value means that every target was evaluated to a value -/
theorem assoc_mem {β} (a : Addr) (l : List (Addr × β)) (v : β) (h : assoc a l = some v) : (a, v) ∈ l := by
  induction l with
  | nil => simp [assoc] at h
  | cons p rest ih =>
    obtain ⟨k, w⟩ := p
    by_cases hk : a = k
    · subst hk; simp [assoc] at h; simp [h]
    · simp [assoc, hk] at h; simp [ih h]

section val
variable {σ : Type} {S : Store σ} {sem : Sem} {ce : Ctx σ → Addr → Ctx σ × Res}
variable {I : Ctx σ → Prop} {rc : Addr → Option (List (List Addr))}
variable (F : Frame S ce I rc) (G : Addr → Prop)
variable (hce : ∀ c b c' v, I c → c.memo = [] → ce c b = (c', .val v) → G b)

/-- every memoised address satisfies `G` -/
def Mi (c : Ctx σ) : Prop := ∀ p ∈ c.memo, G p.1

include sem F hce in
theorem ref_val (c : Ctx σ) (a : Addr) (c' : Ctx σ) (v : V) (hI : I c) (hM : Mi G c)
    (h : evalRef ce c a = (c', .val v)) : G a ∧ Mi G c' ∧ I c' := by
  have hI' := (ref_prov (sem := sem) F c a hI).1
  rw [h] at hI'
  unfold evalRef at h
  cases hm : assoc a c.memo with
  | some w =>
    rw [hm] at h
    simp only [Prod.mk.injEq] at h
    obtain ⟨rfl, _⟩ := h
    exact ⟨hM _ (assoc_mem a c.memo w hm), hM, hI'⟩
  | none =>
    rw [hm] at h
    simp only at h
    cases hr : ce { c with memo := [] } a with
    | mk c2 r =>
      rw [hr] at h
      cases r with
      | val w =>
        simp only [Prod.mk.injEq] at h
        obtain ⟨rfl, _⟩ := h
        have hg := hce _ a c2 w (F.memo c [] hI) rfl hr
        refine ⟨hg, fun p hp => ?_, hI'⟩
        simp only [List.mem_append, List.mem_singleton] at hp
        rcases hp with hp | rfl
        · exact hM p hp
        · exact hg
      | exc k n => simp at h

include sem F hce in
theorem row_val (row : List Addr) : ∀ (c : Ctx σ) (ec : Nat) (acc : List V) (c' : Ctx σ) (ec' : Nat) (cells : List V),
    I c → Mi G c → ec + row.length ≤ Gen.maxEmpty →
    evalRow ce c row ec acc = (c', .ok (ec', cells)) →
    (∀ b ∈ row, G b) ∧ Mi G c' ∧ I c' ∧ ec' ≤ ec + row.length ∧ cells.length = acc.length + row.length := by
  induction row with
  | nil =>
    intro c ec acc c' ec' cells hI hM _ h
    simp only [evalRow, Prod.mk.injEq, Except.ok.injEq] at h
    obtain ⟨rfl, rfl, rfl⟩ := h
    exact ⟨by simp, hM, hI, by simp, by simp⟩
  | cons a rest ih =>
    intro c ec acc c' ec' cells hI hM hlen h
    simp only [List.length_cons] at hlen
    cases hr : evalRef ce c a with
    | mk c1 r =>
      cases r with
      | exc k n => simp [evalRow, hr] at h
      | val v =>
        obtain ⟨hg, hM1, hI1⟩ := ref_val (sem := sem) F G hce c a c1 v hI hM hr
        simp only [evalRow, hr] at h
        by_cases hE : isEmptyValue v = true
        · simp only [hE, if_true] at h
          have hG : ¬ ec + 1 > Gen.maxEmpty := by omega
          simp only [hG, if_false] at h
          have := ih c1 (ec + 1) (acc ++ [v]) c' ec' cells hI1 hM1 (by omega) h
          refine ⟨fun b hb => ?_, this.2.1, this.2.2.1, by simp only [List.length_cons]; omega, ?_⟩
          · rcases List.mem_cons.mp hb with rfl | hb
            · exact hg
            · exact this.1 b hb
          · have := this.2.2.2.2; simp only [List.length_append, List.length_cons, List.length_nil] at this ⊢; omega
        · simp only [hE] at h
          have := ih c1 0 (acc ++ [v]) c' ec' cells hI1 hM1 (by omega) h
          refine ⟨fun b hb => ?_, this.2.1, this.2.2.1, by simp only [List.length_cons]; omega, ?_⟩
          · rcases List.mem_cons.mp hb with rfl | hb
            · exact hg
            · exact this.1 b hb
          · have := this.2.2.2.2; simp only [List.length_append, List.length_cons, List.length_nil] at this ⊢; omega

include sem F hce in
theorem rows_val (rows : List (List Addr)) : ∀ (c : Ctx σ) (w : Walk) (c' : Ctx σ) (w' : Walk),
    I c → Mi G c → w.emptyCol + rows.flatten.length ≤ Gen.maxEmpty → w.emptyRow + rows.length ≤ Gen.maxEmpty →
    evalRows ce c rows w = (c', .ok w') →
    (∀ b ∈ rows.flatten, G b) ∧ Mi G c' ∧ I c' := by
  induction rows with
  | nil =>
    intro c w c' w' hI hM _ _ h
    simp only [evalRows, Prod.mk.injEq] at h
    obtain ⟨rfl, _⟩ := h
    exact ⟨by simp, hM, hI⟩
  | cons row rest ih =>
    intro c w c' w' hI hM hcol hrow h
    simp only [List.flatten_cons, List.length_append, List.length_cons] at hcol hrow
    cases hr : evalRow ce c row w.emptyCol [] with
    | mk c1 r =>
      cases r with
      | error e => simp [evalRows, hr] at h
      | ok p =>
        obtain ⟨ec, cells⟩ := p
        obtain ⟨hg, hM1, hI1, hec, _⟩ :=
          row_val (sem := sem) F G hce row c w.emptyCol [] c1 ec cells hI hM (by omega) hr
        simp only [evalRows, hr] at h
        have key : ∀ wn : Walk, wn.emptyCol = ec → wn.emptyRow ≤ w.emptyRow + 1 →
            evalRows ce c1 rest wn = (c', .ok w') → (∀ b ∈ (row :: rest).flatten, G b) ∧ Mi G c' ∧ I c' := by
          intro wn h1 h2 h3
          have := ih c1 wn c' w' hI1 hM1 (by omega) (by omega) h3
          refine ⟨fun b hb => ?_, this.2⟩
          simp only [List.flatten_cons, List.mem_append] at hb
          rcases hb with hb | hb
          · exact hg b hb
          · exact this.1 b hb
        split at h
        · have hG : ¬ w.emptyRow + 1 > Gen.maxEmpty := by omega
          simp only [hG, if_false] at h
          exact key _ rfl (by simp) h
        · exact key _ rfl (by simp) h

/-- the statement proved for every strict formula -/
def FxVal (f : Fx) : Prop :=
  strict f = true → ∀ (c c' : Ctx σ) (v : V), I c → Mi G c → evalFx S sem ce c f = (c', .val v) →
    (∀ b ∈ targets rc f, G b) ∧ Mi G c' ∧ I c'

theorem args_val (args : List Fx)
    (ih : ∀ a ∈ args, FxVal (S := S) (sem := sem) (ce := ce) (I := I) (rc := rc) G a) :
    strictL args = true → ∀ (c c' : Ctx σ) (vs : List V), I c → Mi G c →
      evalArgs S sem ce c args = (c', .ok vs) → (∀ b ∈ targetsL rc args, G b) ∧ Mi G c' ∧ I c' := by
  induction args with
  | nil =>
    intro _ c c' vs hI hM h
    simp only [evalArgs, Prod.mk.injEq] at h
    obtain ⟨rfl, _⟩ := h
    exact ⟨by simp, hM, hI⟩
  | cons a rest ihr =>
    intro hs c c' vs hI hM h
    simp only [strictL, Bool.and_eq_true] at hs
    cases hr : evalFx S sem ce c a with
    | mk c1 r =>
      cases r with
      | exc k n => simp [evalArgs, hr] at h
      | val v =>
        obtain ⟨hg, hM1, hI1⟩ := ih a (by simp) hs.1 c c1 v hI hM hr
        simp only [evalArgs, hr] at h
        cases hr2 : evalArgs S sem ce c1 rest with
        | mk c2 r2 =>
          rw [hr2] at h
          cases r2 with
          | error e => simp at h
          | ok ws =>
            simp only [Prod.mk.injEq] at h
            obtain ⟨rfl, _⟩ := h
            have := ihr (fun x hx => ih x (by simp [hx])) hs.2 c1 c2 ws hI1 hM1 hr2
            refine ⟨fun b hb => ?_, this.2⟩
            simp only [targetsL_cons, List.mem_append] at hb
            rcases hb with hb | hb
            · exact hg b hb
            · exact this.1 b hb

include sem F hce in
theorem fx_val (hsmall : ∀ k rows, rc k = some rows → rows.flatten.length ≤ Gen.maxEmpty ∧ rows.length ≤ Gen.maxEmpty)
    (f : Fx) : FxVal (S := S) (sem := sem) (ce := ce) (I := I) (rc := rc) G f := by
  induction f using Fx.ind with
  | lit v =>
    intro _ c c' w hI hM h
    simp only [evalFx, Prod.mk.injEq] at h
    obtain ⟨rfl, _⟩ := h
    exact ⟨by simp, hM, hI⟩
  | ref a =>
    intro _ c c' w hI hM h
    simp only [evalFx] at h
    have := ref_val (sem := sem) F G hce c a c' w hI hM h
    exact ⟨by simpa using this.1, this.2⟩
  | rng k =>
    intro _ c c' w hI hM h
    have hk := F.rng c k hI
    simp only [evalFx] at h
    cases hr : S.range? c.st k with
    | none =>
      rw [hr] at h hk
      simp only at h
      have := ref_val (sem := sem) F G hce c k c' w hI hM h
      refine ⟨?_, this.2⟩
      rw [targets_rng, ← hk]; simpa using this.1
    | some r =>
      rw [hr] at h hk
      simp only at h
      simp only [Option.map_some] at hk
      have hsm := hsmall k r.cells hk.symm
      cases hw : evalRows ce c r.cells {} with
      | mk c1 res =>
        rw [hw] at h
        cases res with
        | error e =>
          simp only [Prod.mk.injEq] at h
          have hp := (rows_prov (sem := sem) F r.cells c {} hI).2 e (by rw [hw])
          -- an error result of the walk is never a value
          exact absurd h.2 (by
            intro he
            have : ∀ (rows : List (List Addr)) (c : Ctx σ) (w0 : Walk) (c1 : Ctx σ) (x : V),
                evalRows ce c rows w0 ≠ (c1, .error (.val x)) := by
              intro rows
              induction rows with
              | nil => intro c w0 c1 x; simp [evalRows]
              | cons row rest ihrows =>
                intro c w0 c1 x
                have hrow : ∀ (row : List Addr) (c : Ctx σ) (ec : Nat) (acc : List V) (c1 : Ctx σ) (x : V),
                    evalRow ce c row ec acc ≠ (c1, .error (.val x)) := by
                  intro row
                  induction row with
                  | nil => intro c ec acc c1 x; simp [evalRow]
                  | cons a rest ihrow =>
                    intro c ec acc c1 x
                    simp only [evalRow]
                    cases hra : evalRef ce c a with
                    | mk c2 r2 =>
                      cases r2 with
                      | val y =>
                        simp only
                        split
                        · split
                          · simp
                          · exact ihrow _ _ _ _ _
                        · exact ihrow _ _ _ _ _
                      | exc k n => simp
                simp only [evalRows]
                cases hrr : evalRow ce c row w0.emptyCol [] with
                | mk c2 r2 =>
                  cases r2 with
                  | error e2 =>
                    simp only
                    intro hcontra
                    simp only [Prod.mk.injEq, Except.error.injEq] at hcontra
                    exact hrow row c w0.emptyCol [] c2 x (by rw [hrr, hcontra.2])
                  | ok p =>
                    simp only
                    split
                    · split
                      · simp
                      · exact ihrows _ _ _ _
                    · exact ihrows _ _ _ _
            rw [he] at hw
            exact this _ _ _ _ _ hw)
        | ok wk =>
          simp only [Prod.mk.injEq] at h
          obtain ⟨rfl, _⟩ := h
          have := rows_val (sem := sem) F G hce r.cells c {} c1 wk hI hM
            (by simpa using hsm.1) (by simpa using hsm.2) hw
          refine ⟨?_, this.2.1, F.wr _ _ _ this.2.2⟩
          rw [targets_rng, ← hk]; exact this.1
  | app g args ih =>
    intro hs c c' w hI hM h
    simp only [strict] at hs
    simp only [evalFx] at h
    cases hr : evalArgs S sem ce c args with
    | mk c1 res =>
      rw [hr] at h
      cases res with
      | error e =>
        simp only [Prod.mk.injEq] at h
        -- an error result of `evalArgs` is never a value
        have : ∀ (args : List Fx) (c c1 : Ctx σ) (x : V), evalArgs S sem ce c args ≠ (c1, .error (.val x)) := by
          intro args
          induction args with
          | nil => intro c c1 x; simp [evalArgs]
          | cons a rest iha =>
            intro c c1 x
            simp only [evalArgs]
            cases hra : evalFx S sem ce c a with
            | mk c2 r2 =>
              cases r2 with
              | val y =>
                simp only
                cases hrb : evalArgs S sem ce c2 rest with
                | mk c3 r3 =>
                  cases r3 with
                  | ok _ => simp
                  | error e3 =>
                    simp only
                    intro hcontra
                    simp only [Prod.mk.injEq, Except.error.injEq] at hcontra
                    exact iha c2 c3 x (by rw [hrb, hcontra.2])
              | exc k n => simp
        rw [h.2] at hr
        exact absurd hr (this _ _ _ _)
      | ok vs =>
        have := args_val G args ih hs c c1 vs hI hM hr
        simp only at h
        cases ha : sem.app g vs with
        | val x =>
          rw [ha] at h
          simp only [Prod.mk.injEq] at h
          obtain ⟨rfl, _⟩ := h
          exact ⟨by simpa using this.1, this.2⟩
        | raiseRuntime n => rw [ha] at h; simp at h
        | raiseOther n => rw [ha] at h; simp at h
  | iff _ _ _ _ _ _ => intro hs; simp [strict] at hs
  | sc _ _ _ => intro hs; simp [strict] at hs
  | fail _ _ _ => intro hs; simp [strict] at hs

end val

/-! ### counting: the trace grows by at most `D` per target when every `eval_cell` adds at most `D` -/
section count
variable {σ : Type} {S : Store σ} {sem : Sem} {ce : Ctx σ → Addr → Ctx σ × Res}
variable {I : Ctx σ → Prop} {rc : Addr → Option (List (List Addr))}
variable (F : Frame S ce I rc) (D : Nat)
variable (hce : ∀ c b, I c → (ce c b).1.trace.length ≤ c.trace.length + D)

include F hce in
theorem ref_count (c : Ctx σ) (a : Addr) (hI : I c) :
    (evalRef ce c a).1.trace.length ≤ c.trace.length + D := by
  unfold evalRef
  cases hm : assoc a c.memo with
  | some v => simp
  | none =>
    have := hce { c with memo := [] } a (F.memo c [] hI)
    simp only
    cases hr : ce { c with memo := [] } a with
    | mk c' r =>
      rw [hr] at this
      cases r <;> simpa using this

include sem F hce in
theorem row_count (row : List Addr) : ∀ (c : Ctx σ) (ec : Nat) (acc : List V), I c →
    (evalRow ce c row ec acc).1.trace.length ≤ c.trace.length + row.length * D := by
  induction row with
  | nil => intro c ec acc _; simp [evalRow]
  | cons a rest ih =>
    intro c ec acc hI
    have h1 := ref_count F D hce c a hI
    have h2 := (ref_prov (sem := sem) F c a hI).1
    simp only [List.length_cons, Nat.add_mul, Nat.one_mul]
    cases hr : evalRef ce c a with
    | mk c' r =>
      rw [hr] at h1 h2
      simp only at h1 h2
      cases r with
      | val v =>
        simp only [evalRow, hr]
        split
        · split
          · simp only; omega
          · have := ih c' (ec + 1) (acc ++ [v]) h2; omega
        · have := ih c' 0 (acc ++ [v]) h2; omega
      | exc k n => simp only [evalRow, hr]; omega

include sem F hce in
theorem rows_count (rows : List (List Addr)) : ∀ (c : Ctx σ) (w : Walk), I c →
    (evalRows ce c rows w).1.trace.length ≤ c.trace.length + rows.flatten.length * D := by
  induction rows with
  | nil => intro c w _; simp [evalRows]
  | cons row rest ih =>
    intro c w hI
    have h1 := row_count (sem := sem) F D hce row c w.emptyCol [] hI
    have h2 := (row_prov (sem := sem) F row c w.emptyCol [] hI).1
    simp only [List.flatten_cons, List.length_append, Nat.add_mul]
    cases hr : evalRow ce c row w.emptyCol [] with
    | mk c' r =>
      rw [hr] at h1 h2
      simp only at h1 h2
      cases r with
      | error e => simp only [evalRows, hr]; omega
      | ok p =>
        simp only [evalRows, hr]
        have key : ∀ w', (evalRows ce c' rest w').1.trace.length ≤
            c.trace.length + (row.length * D + rest.flatten.length * D) := fun w' => by
          have := ih c' w' h2; omega
        split
        · split
          · simp only; omega
          · exact key _
        · exact key _

/-- the statement proved for every formula -/
def FxCount (f : Fx) : Prop :=
  ∀ c : Ctx σ, I c → (evalFx S sem ce c f).1.trace.length ≤ c.trace.length + (targets rc f).length * D

include F in
theorem args_count (args : List Fx)
    (ih : ∀ a ∈ args, FxCount (S := S) (sem := sem) (ce := ce) (I := I) (rc := rc) D a) :
    ∀ c : Ctx σ, I c →
      (evalArgs S sem ce c args).1.trace.length ≤ c.trace.length + (targetsL rc args).length * D := by
  induction args with
  | nil => intro c _; simp [evalArgs]
  | cons a rest ihr =>
    intro c hI
    have h1 := ih a (by simp) c hI
    have h2 := (fx_prov (sem := sem) F a c hI).1
    simp only [targetsL_cons, List.length_append, Nat.add_mul]
    cases hr : evalFx S sem ce c a with
    | mk c' r =>
      rw [hr] at h1 h2
      simp only at h1 h2
      cases r with
      | val v =>
        simp only [evalArgs, hr]
        have := ihr (fun x hx => ih x (by simp [hx])) c' h2
        cases hr2 : evalArgs S sem ce c' rest with
        | mk c'' r2 =>
          rw [hr2] at this
          cases r2 <;> (simp only at this ⊢; omega)
      | exc k n => simp only [evalArgs, hr]; omega

include F in
theorem sc_count (args : List Fx)
    (ih : ∀ a ∈ args, FxCount (S := S) (sem := sem) (ce := ce) (I := I) (rc := rc) D a) :
    ∀ (c : Ctx σ) (isAnd : Bool), I c →
      (evalSc S sem ce c isAnd args).1.trace.length ≤ c.trace.length + (targetsL rc args).length * D := by
  induction args with
  | nil => intro c isAnd _; simp [evalSc]
  | cons a rest ihr =>
    intro c isAnd hI
    have h1 := ih a (by simp) c hI
    have h2 := (fx_prov (sem := sem) F a c hI).1
    simp only [targetsL_cons, List.length_append, Nat.add_mul]
    cases hr : evalFx S sem ce c a with
    | mk c' r =>
      rw [hr] at h1 h2
      simp only at h1 h2
      have key := ihr (fun x hx => ih x (by simp [hx])) c' isAnd h2
      cases r with
      | val v =>
        simp only [evalSc, hr]
        split
        · omega
        · simp only; omega
        · simp only; omega
      | exc k n => simp only [evalSc, hr]; omega

include F hce in
theorem fx_count (f : Fx) : FxCount (S := S) (sem := sem) (ce := ce) (I := I) (rc := rc) D f := by
  induction f using Fx.ind with
  | lit v => intro c _; simp [evalFx]
  | ref a =>
    intro c hI
    have := ref_count F D hce c a hI
    simpa [evalFx] using this
  | rng k =>
    intro c hI
    have hk := F.rng c k hI
    simp only [evalFx]
    cases hr : S.range? c.st k with
    | none =>
      rw [hr] at hk
      have := ref_count F D hce c k hI
      rw [targets_rng, ← hk]
      simpa using this
    | some r =>
      rw [hr] at hk
      have h1 := rows_count (sem := sem) F D hce r.cells c {} hI
      rw [targets_rng, ← hk]
      simp only [Option.map_some]
      cases hw : evalRows ce c r.cells {} with
      | mk c' res =>
        rw [hw] at h1
        cases res <;> exact h1
  | app g args ih =>
    intro c hI
    have h1 := args_count F D args ih c hI
    simp only [evalFx, targets_app]
    cases hr : evalArgs S sem ce c args with
    | mk c' res =>
      rw [hr] at h1
      cases res with
      | ok vs => simp only; cases sem.app g vs <;> exact h1
      | error e => exact h1
  | iff cond t e ihc iht ihe =>
    intro c hI
    have h1 := ihc c hI
    have h2 := (fx_prov (sem := sem) F cond c hI).1
    simp only [evalFx, targets_iff, List.length_append, Nat.add_mul]
    cases hr : evalFx S sem ce c cond with
    | mk c' r =>
      rw [hr] at h1 h2
      simp only at h1 h2
      cases r with
      | val v =>
        simp only
        cases sem.truth v with
        | none => simp only; omega
        | some b =>
          cases b with
          | true => have := iht c' h2; simp only; omega
          | false => have := ihe c' h2; simp only; omega
      | exc k n => simp only; omega
  | sc b args ih =>
    intro c hI
    have := sc_count F D args ih c b hI
    simpa [evalFx] using this
  | fail n args _ => intro c _; simp [evalFx]

end count

/-! ### the static data of a model is never changed by evaluation -/
def stat (c : Cell) : Option Fx × Nat := (c.formula, c.formulaLen)

structure Agree {σ : Type} (S : Store σ) (m : MState) (st : σ) : Prop where
  res : ∀ a, S.resolve st a = m.resolve a
  cell : ∀ a, (S.cell? st a).map stat = (m.cell? a).map stat
  rng : ∀ k, (S.range? st k).map (·.cells) = rcOf m k

structure Lawful {σ : Type} (S : Store σ) (m : MState) : Prop where
  wc : ∀ st a v, Agree S m st → Agree S m (S.writeCell st a v)
  wr : ∀ st k v, Agree S m st → Agree S m (S.writeRange st k v)

/-- the in-progress stack is duplicate-free and consists of formula cells -/
def WFE (m : MState) (E : List Addr) : Prop := E.Nodup ∧ ∀ e ∈ E, ∃ f, formulaAt m e = some f

/-- closure conditions for a postcondition of `evalCell` (fuel, in-progress stack, address, result) -/
structure PostOK (sem : Sem) (m : MState) (Post : Nat → List Addr → Addr → Res → Prop) : Prop where
  val : ∀ fuel E a v, Post fuel E a (.val v)
  zero : ∀ E a, WFE m E → Post 0 E a (.exc .recursion 0)
  cycle : ∀ fuel E a, WFE m E → m.resolve a ∈ E →
    Post (fuel + 1) E a (.exc .cycle (20 + (m.resolve a).length + sumLens E))
  up : ∀ fuel E a f b k n, WFE m E → formulaAt m (m.resolve a) = some f → m.resolve a ∉ E →
    b ∈ targets (rcOf m) f → Post fuel (m.resolve a :: E) b (.exc k n) → k ≠ .problem →
    Post (fuel + 1) E a (.exc k n)
  rt : ∀ fuel E a g vs n, WFE m E → sem.app g vs = .raiseRuntime n → Post (fuel + 1) E a (.exc .runtime n)
  pb : ∀ fuel E a cell f n, WFE m E → m.cell? (m.resolve a) = some cell → cell.formula = some f →
    m.resolve a ∉ E →
    ((∃ g vs, sem.app g vs = .raiseOther n) ∨ n ∈ failLens f) →
    Post (fuel + 1) E a (.exc .runtime (35 + (m.resolve a).length + cell.formulaLen + n))

section cell
variable {σ : Type} {S : Store σ} {sem : Sem} {m : MState}

/-- the induction principle; `K` is an additional invariant of the trace that is stable under appending -/
theorem cell_postK (hL : Lawful S m) {Post : Nat → List Addr → Addr → Res → Prop} (P : PostOK sem m Post)
    (K : List Addr → Prop) (hK : ∀ tr x, K tr → K (tr ++ [x])) :
    ∀ (fuel : Nat) (c : Ctx σ) (a : Addr), Agree S m c.st → WFE m c.evaluating → K c.trace →
      (Agree S m (evalCell S sem fuel c a).1.st ∧ (evalCell S sem fuel c a).1.evaluating = c.evaluating ∧
      Post fuel c.evaluating a (evalCell S sem fuel c a).2 ∧ ∀ n, (evalCell S sem fuel c a).2 ≠ .exc .problem n) ∧
      K (evalCell S sem fuel c a).1.trace := by
  intro fuel
  induction fuel with
  | zero =>
    intro c a hA hW hKc
    simp only [evalCell]
    exact ⟨⟨hA, (by first | rfl | trivial), P.zero _ _ hW, by simp⟩, hKc⟩
  | succ fuel ih =>
    intro c a hA hW hKc
    have hres := hA.res a
    simp only [evalCell]
    rw [hres]
    have hcell := hA.cell (m.resolve a)
    cases hc : S.cell? c.st (m.resolve a) with
    | none => exact ⟨⟨hA, (by first | rfl | trivial), P.val _ _ _ _, by simp⟩, hKc⟩
    | some cell =>
      rw [hc] at hcell
      simp only
      cases hf : cell.formula with
      | none => exact ⟨⟨hA, (by first | rfl | trivial), P.val _ _ _ _, by simp⟩, hKc⟩
      | some f =>
        simp only
        -- the model's own cell record
        cases hmc : m.cell? (m.resolve a) with
        | none => rw [hmc] at hcell; simp at hcell
        | some mcell =>
          rw [hmc] at hcell
          simp only [Option.map_some, Option.some.injEq, stat, Prod.mk.injEq] at hcell
          have hmf : mcell.formula = some f := by rw [← hcell.1, hf]
          have hfa : formulaAt m (m.resolve a) = some f := by simp [formulaAt, hmc, hmf]
          by_cases hin : c.evaluating.contains (m.resolve a) = true
          · simp only [hin, if_true]
            exact ⟨⟨hA, (by first | rfl | trivial), P.cycle _ _ _ hW (by simpa using hin), by simp⟩, hKc⟩
          · simp only [hin]
            have hnin : m.resolve a ∉ c.evaluating := by simpa using hin
            -- the invariant for the nested evaluation
            let I : Ctx σ → Prop := fun x => (Agree S m x.st ∧ x.evaluating = m.resolve a :: c.evaluating) ∧ K x.trace
            have hW' : WFE m (m.resolve a :: c.evaluating) := by
              refine ⟨List.nodup_cons.mpr ⟨hnin, hW.1⟩, fun e he => ?_⟩
              rcases List.mem_cons.mp he with rfl | he
              · exact ⟨f, hfa⟩
              · exact hW.2 e he
            have F : Frame S (evalCell S sem fuel) I (rcOf m) := {
              memo := fun x mm hx => hx
              wr := fun x k v hx => ⟨⟨hL.wr _ _ _ hx.1.1, hx.1.2⟩, hx.2⟩
              rng := fun x k hx => hx.1.1.rng k
              ce := fun x b hx => by
                have := ih x b hx.1.1 (by rw [hx.1.2]; exact hW') hx.2
                exact ⟨⟨this.1.1, by rw [this.1.2.1]; exact hx.1.2⟩, this.2⟩ }
            have hp := fx_prov (sem := sem) F f
              { c with evaluating := m.resolve a :: c.evaluating, trace := c.trace ++ [m.resolve a] } ⟨⟨hA, rfl⟩, hK _ _ hKc⟩
            cases hr : evalFx S sem (evalCell S sem fuel)
                { c with evaluating := m.resolve a :: c.evaluating, trace := c.trace ++ [m.resolve a] } f with
            | mk c2 r =>
              rw [hr] at hp
              obtain ⟨⟨⟨hA2, hE2⟩, hK2⟩, hprov⟩ := hp
              simp only at hA2 hE2 hprov hK2
              cases r with
              | val v => exact ⟨⟨hL.wc _ _ _ hA2, (by first | rfl | trivial), P.val _ _ _ _, by simp⟩, hK2⟩
              | exc k n =>
                rcases hprov with ⟨v, hv⟩ | ⟨x, b, hx, hb, he⟩ | ⟨g, vs, n', ha, he⟩ | ⟨n', he, hsrc⟩
                · cases hv
                · have hb' := (ih x b hx.1.1 (by rw [hx.1.2]; exact hW') hx.2).1
                  rw [he, hx.1.2] at hb'
                  have hk : k ≠ .problem := fun h => hb'.2.2.2 n (by rw [h])
                  have := P.up fuel c.evaluating a f b k n hW hfa hnin hb hb'.2.2.1 hk
                  cases k with
                  | problem => exact absurd rfl hk
                  | cycle => exact ⟨⟨hA2, (by first | rfl | trivial), this, by simp⟩, hK2⟩
                  | recursion => exact ⟨⟨hA2, (by first | rfl | trivial), this, by simp⟩, hK2⟩
                  | runtime => exact ⟨⟨hA2, (by first | rfl | trivial), this, by simp⟩, hK2⟩
                · cases he
                  exact ⟨⟨hA2, (by first | rfl | trivial), P.rt _ _ _ _ _ _ hW ha, by simp⟩, hK2⟩
                · cases he
                  have := P.pb fuel c.evaluating a mcell f n hW hmc hmf hnin hsrc
                  rw [← hcell.2] at this
                  exact ⟨⟨hA2, (by first | rfl | trivial), this, by simp⟩, hK2⟩

theorem cell_post (hL : Lawful S m) {Post : Nat → List Addr → Addr → Res → Prop} (P : PostOK sem m Post) :
    ∀ (fuel : Nat) (c : Ctx σ) (a : Addr), Agree S m c.st → WFE m c.evaluating →
      Agree S m (evalCell S sem fuel c a).1.st ∧ (evalCell S sem fuel c a).1.evaluating = c.evaluating ∧
      Post fuel c.evaluating a (evalCell S sem fuel c a).2 ∧ ∀ n, (evalCell S sem fuel c a).2 ≠ .exc .problem n :=
  fun fuel c a hA hW => (cell_postK hL P (fun _ => True) (fun _ _ _ => trivial) fuel c a hA hW trivial).1
end cell


/-! ### the two concrete stores are lawful -/
theorem assoc_assocUpdate {β} (x a : Addr) (g : β → β) (l : List (Addr × β)) :
    assoc x (assocUpdate a g l) = if x = a then (assoc x l).map g else assoc x l := by
  induction l with
  | nil => simp [assoc, assocUpdate]
  | cons p rest ih =>
    obtain ⟨k, v⟩ := p
    by_cases hak : a = k
    · subst hak
      by_cases hx : x = a
      · subst hx; simp [assoc, assocUpdate]
      · simp [assoc, assocUpdate, hx]
    · by_cases hxk : x = k
      · subst hxk
        have : ¬ x = a := fun h => hak h.symm
        simp [assoc, assocUpdate, hak, this]
      · simp [assoc, assocUpdate, hak, hxk, ih]

theorem agree_mut_refl (m : MState) : Agree mutStore m m :=
  ⟨fun _ => rfl, fun _ => rfl, fun _ => rfl⟩

theorem lawful_mut (m : MState) : Lawful mutStore m := by
  constructor
  · intro st a v h
    refine ⟨fun x => h.res x, fun x => ?_, fun k => h.rng k⟩
    have := h.cell x
    simp only [mutStore, MState.cell?] at this ⊢
    rw [assoc_assocUpdate]
    split
    · rw [← this]; cases assoc x st.cells <;> simp [stat]
    · exact this
  · intro st k v h
    refine ⟨fun x => h.res x, fun x => h.cell x, fun x => ?_⟩
    have := h.rng x
    simp only [mutStore, MState.range?] at this ⊢
    rw [assoc_assocUpdate]
    split
    · rw [← this]; cases assoc x st.ranges <;> simp
    · exact this

theorem agree_pure (m : MState) (u : Unit) : Agree (pureStore m) m u :=
  ⟨fun _ => rfl, fun _ => rfl, fun _ => rfl⟩

theorem lawful_pure (m : MState) : Lawful (pureStore m) m :=
  ⟨fun _ _ _ _ => agree_pure m _, fun _ _ _ _ => agree_pure m _⟩

/-! ### counting: a duplicate-free stack of formula cells is no longer than `formulaCount` -/
theorem nodup_subset_length {α} [DecidableEq α] : ∀ (l l' : List α), l.Nodup → (∀ x ∈ l, x ∈ l') →
    l.length ≤ l'.length := by
  intro l
  induction l with
  | nil => intro l' _ _; simp
  | cons a rest ih =>
    intro l' hn hs
    have ha : a ∈ l' := hs a (by simp)
    have hn' := List.nodup_cons.mp hn
    have := ih (l'.erase a) hn'.2 (fun x hx => by
      have hx' : x ∈ l' := hs x (by simp [hx])
      have : x ≠ a := fun h => hn'.1 (h ▸ hx)
      exact (List.mem_erase_of_ne this).mpr hx')
    rw [List.length_erase_of_mem ha] at this
    have : 0 < l'.length := List.length_pos_of_mem ha
    simp only [List.length_cons]
    omega

theorem wfe_length {m : MState} {E : List Addr} (h : WFE m E) : E.length ≤ formulaCount m := by
  unfold formulaCount
  rw [← List.length_map (f := Prod.fst)]
  apply nodup_subset_length _ _ h.1
  intro e he
  obtain ⟨f, hf⟩ := h.2 e he
  simp only [formulaAt, MState.cell?] at hf
  cases hc : assoc e m.cells with
  | none => simp [hc] at hf
  | some cell =>
    simp [hc] at hf
    have := assoc_mem e m.cells cell hc
    simp only [List.mem_map, List.mem_filter]
    exact ⟨(e, cell), ⟨this, by simp [hf]⟩, rfl⟩

theorem foldl_max_ge {β} (g : β → Nat) (l : List β) (n : Nat) :
    n ≤ l.foldl (fun k p => max k (g p)) n ∧ ∀ p ∈ l, g p ≤ l.foldl (fun k p => max k (g p)) n := by
  induction l generalizing n with
  | nil => simp
  | cons q rest ih =>
    simp only [List.foldl_cons]
    have := ih (max n (g q))
    refine ⟨by omega, fun p hp => ?_⟩
    rcases List.mem_cons.mp hp with rfl | hp
    · omega
    · exact this.2 p hp

theorem cell_bounds {m : MState} {a : Addr} {cell : Cell} (h : m.cell? a = some cell) :
    a.length ≤ maxAddrLen m ∧ cell.formulaLen ≤ maxFormulaLen m := by
  have hm := assoc_mem a m.cells cell h
  exact ⟨(foldl_max_ge (fun p : Addr × Cell => p.1.length) m.cells 0).2 _ hm,
    (foldl_max_ge (fun p : Addr × Cell => p.2.formulaLen) m.cells 0).2 _ hm⟩

theorem sumLens_le (E : List Addr) (L : Nat) (h : ∀ e ∈ E, e.length ≤ L) : sumLens E ≤ E.length * (L + 3) := by
  unfold sumLens
  suffices ∀ n, E.foldl (fun n a => n + a.length + 3) n ≤ n + E.length * (L + 3) by simpa using this 0
  induction E with
  | nil => intro n; simp
  | cons e rest ih =>
    intro n
    simp only [List.foldl_cons, List.length_cons]
    have := ih (fun x hx => h x (by simp [hx])) (n + e.length + 3)
    have he := h e (by simp)
    rw [Nat.add_mul]
    omega


/-! ### a strict cell that evaluates to a value has no cycle below it -/
theorem postOK_true (sem : Sem) (m : MState) : PostOK sem m (fun _ _ _ _ => True) :=
  ⟨by intros; trivial, by intros; trivial, by intros; trivial, by intros; trivial, by intros; trivial,
   by intros; trivial⟩

theorem strict_failLens (f : Fx) : strict f = true → failLens f = [] := by
  induction f using Fx.ind with
  | lit v => simp
  | ref a => simp
  | rng k => simp
  | app g args ih =>
    intro hs
    simp only [strict] at hs
    simp only [failLens_app]
    induction args with
    | nil => simp
    | cons a rest ihr =>
      simp only [strictL, Bool.and_eq_true] at hs
      simp [ih a (by simp) hs.1, ihr (fun x hx => ih x (by simp [hx])) hs.2]
  | iff _ _ _ _ _ _ => intro hs; simp [strict] at hs
  | sc _ _ _ => intro hs; simp [strict] at hs
  | fail _ _ _ => intro hs; simp [strict] at hs

section cellval
open XlVerif.Spec.C06 in
theorem no_deps_no_cycle {m : MState} {x : Addr} (h : deps m x = []) : ¬ ReachesCycle (deps m) x := by
  rintro ⟨y, hy, z, hz, _⟩
  cases hy with
  | refl => rw [h] at hz; cases hz
  | step hd _ => rw [h] at hd; cases hd

open XlVerif.Spec.C06 in
theorem deps_good {m : MState} {x : Addr} (h : ∀ z ∈ deps m x, ¬ ReachesCycle (deps m) z) :
    ¬ ReachesCycle (deps m) x := by
  rintro ⟨y, hy, hc⟩
  cases hy with
  | refl =>
    obtain ⟨z, hz, hr⟩ := hc
    exact h z hz ⟨x, hr, ⟨z, hz, hr⟩⟩
  | step hd hr => exact h _ hd ⟨y, hr, hc⟩

variable {σ : Type} {S : Store σ} {sem : Sem} {m : MState}

open XlVerif.Spec.C06 in
theorem cell_val (hL : Lawful S m) (hs : strictModel m) (hr : smallRanges m) :
    ∀ (fuel : Nat) (c c' : Ctx σ) (a : Addr) (v : V), Agree S m c.st → WFE m c.evaluating → c.memo = [] →
      evalCell S sem fuel c a = (c', .val v) → ¬ ReachesCycle (deps m) (m.resolve a) := by
  intro fuel
  induction fuel with
  | zero => intro c c' a v _ _ _ h; simp [evalCell] at h
  | succ fuel ih =>
    intro c c' a v hA hW hmemo h
    have hres := hA.res a
    simp only [evalCell] at h
    rw [hres] at h
    have hcell := hA.cell (m.resolve a)
    cases hc : S.cell? c.st (m.resolve a) with
    | none =>
      rw [hc] at hcell
      apply no_deps_no_cycle
      cases hmc : m.cell? (m.resolve a) with
      | none => simp [deps, formulaAt, hmc]
      | some mcell => rw [hmc] at hcell; simp at hcell
    | some cell =>
      rw [hc] at hcell h
      cases hmc : m.cell? (m.resolve a) with
      | none => rw [hmc] at hcell; simp at hcell
      | some mcell =>
        rw [hmc] at hcell
        simp only [Option.map_some, Option.some.injEq, stat, Prod.mk.injEq] at hcell
        simp only at h
        cases hf : cell.formula with
        | none =>
          apply no_deps_no_cycle
          have : mcell.formula = none := by rw [← hcell.1, hf]
          simp [deps, formulaAt, hmc, this]
        | some f =>
          rw [hf] at h
          simp only at h
          have hmf : mcell.formula = some f := by rw [← hcell.1, hf]
          have hfa : formulaAt m (m.resolve a) = some f := by simp [formulaAt, hmc, hmf]
          by_cases hnin : m.resolve a ∈ c.evaluating
          · simp [hnin] at h
          · have hnc : c.evaluating.contains (m.resolve a) = false := by simpa using hnin
            rw [hnc] at h
            simp only [Bool.false_eq_true, if_false] at h
            let I : Ctx σ → Prop := fun x => Agree S m x.st ∧ x.evaluating = m.resolve a :: c.evaluating
            have hW' : WFE m (m.resolve a :: c.evaluating) := by
              refine ⟨List.nodup_cons.mpr ⟨hnin, hW.1⟩, fun e he => ?_⟩
              rcases List.mem_cons.mp he with rfl | he
              · exact ⟨f, hfa⟩
              · exact hW.2 e he
            have F : Frame S (evalCell S sem fuel) I (rcOf m) := {
              memo := fun x mm hx => hx
              wr := fun x k v hx => ⟨hL.wr _ _ _ hx.1, hx.2⟩
              rng := fun x k hx => hx.1.rng k
              ce := fun x b hx => by
                have := cell_post hL (postOK_true sem m) fuel x b hx.1 (by rw [hx.2]; exact hW')
                exact ⟨this.1, by rw [this.2.1]; exact hx.2⟩ }
            cases hr2 : evalFx S sem (evalCell S sem fuel)
                { c with evaluating := m.resolve a :: c.evaluating, trace := c.trace ++ [m.resolve a] } f with
            | mk c2 r =>
              rw [hr2] at h
              cases r with
              | exc k n => cases k <;> simp at h
              | val w =>
                have := fx_val (sem := sem) F (fun b => ¬ ReachesCycle (deps m) (m.resolve b))
                  (fun x b x' w' hx hxm hxe => ih x x' b w' hx.1 (by rw [hx.2]; exact hW') hxm hxe)
                  hr f (hs _ f hfa)
                  { c with evaluating := m.resolve a :: c.evaluating, trace := c.trace ++ [m.resolve a] }
                  c2 w ⟨hA, rfl⟩ (by intro p hp; simp [hmemo] at hp) hr2
                apply deps_good
                intro z hz
                simp only [deps, hfa, List.mem_map] at hz
                obtain ⟨b, hb, rfl⟩ := hz
                exact this.1 b hb
end cellval


/-! ### chains: the number of formula evaluations is linear -/
section chain
variable {σ : Type} {S : Store σ} {sem : Sem} {m : MState}

theorem cell_chain (hL : Lawful S m) (hch : chainModel m) :
    ∀ (fuel : Nat) (c : Ctx σ) (a : Addr), Agree S m c.st → WFE m c.evaluating →
      (evalCell S sem fuel c a).1.trace.length + c.evaluating.length ≤ c.trace.length + formulaCount m := by
  intro fuel
  induction fuel with
  | zero => intro c a _ hW; have := wfe_length hW; simp only [evalCell]; omega
  | succ fuel ih =>
    intro c a hA hW
    have hlen := wfe_length hW
    have hres := hA.res a
    simp only [evalCell]
    rw [hres]
    have hcell := hA.cell (m.resolve a)
    cases hc : S.cell? c.st (m.resolve a) with
    | none => simp only; omega
    | some cell =>
      rw [hc] at hcell
      simp only
      cases hf : cell.formula with
      | none => simp only; omega
      | some f =>
        simp only
        cases hmc : m.cell? (m.resolve a) with
        | none => rw [hmc] at hcell; simp at hcell
        | some mcell =>
          rw [hmc] at hcell
          simp only [Option.map_some, Option.some.injEq, stat, Prod.mk.injEq] at hcell
          have hmf : mcell.formula = some f := by rw [← hcell.1, hf]
          have hfa : formulaAt m (m.resolve a) = some f := by simp [formulaAt, hmc, hmf]
          by_cases hin : c.evaluating.contains (m.resolve a) = true
          · simp only [hin, if_true]; omega
          · simp only [hin]
            have hnin : m.resolve a ∉ c.evaluating := by simpa using hin
            let I : Ctx σ → Prop := fun x => Agree S m x.st ∧ x.evaluating = m.resolve a :: c.evaluating
            have hW' : WFE m (m.resolve a :: c.evaluating) := by
              refine ⟨List.nodup_cons.mpr ⟨hnin, hW.1⟩, fun e he => ?_⟩
              rcases List.mem_cons.mp he with rfl | he
              · exact ⟨f, hfa⟩
              · exact hW.2 e he
            have hlen' := wfe_length hW'
            simp only [List.length_cons] at hlen'
            have F : Frame S (evalCell S sem fuel) I (rcOf m) := {
              memo := fun x mm hx => hx
              wr := fun x k v hx => ⟨hL.wr _ _ _ hx.1, hx.2⟩
              rng := fun x k hx => hx.1.rng k
              ce := fun x b hx => by
                have := cell_post hL (postOK_true sem m) fuel x b hx.1 (by rw [hx.2]; exact hW')
                exact ⟨this.1, by rw [this.2.1]; exact hx.2⟩ }
            have hcnt := fx_count (sem := sem) F (formulaCount m - (c.evaluating.length + 1))
              (fun x b hx => by
                have := ih x b hx.1 (by rw [hx.2]; exact hW')
                rw [hx.2] at this
                simp only [List.length_cons] at this
                omega) f
              { c with evaluating := m.resolve a :: c.evaluating, trace := c.trace ++ [m.resolve a] } ⟨hA, rfl⟩
            have h1 := hch _ f hfa
            have h2 : (targets (rcOf m) f).length * (formulaCount m - (c.evaluating.length + 1))
                ≤ formulaCount m - (c.evaluating.length + 1) := by
              calc _ ≤ 1 * (formulaCount m - (c.evaluating.length + 1)) := Nat.mul_le_mul_right _ h1
                _ = _ := Nat.one_mul _
            simp only [List.length_append, List.length_cons, List.length_nil] at hcnt
            cases hr : evalFx S sem (evalCell S sem fuel)
                { c with evaluating := m.resolve a :: c.evaluating, trace := c.trace ++ [m.resolve a] } f with
            | mk c2 r =>
              rw [hr] at hcnt
              simp only at hcnt
              cases r with
              | val v => simp only [Bool.false_eq_true, if_false]; omega
              | exc k n => cases k <;> (simp only [Bool.false_eq_true, if_false]; omega)
end chain


/-! ### `_evaluating` is restored on EVERY path out of `evaluate` (value, cycle report, failure, recursion) -/
theorem evaluating_restored {σ : Type} (S : Store σ) (sem : Sem) (fuel : Nat) (c : Ctx σ) (a : Addr) :
    (evalCell S sem fuel c a).1.evaluating = c.evaluating := by
  cases fuel with
  | zero => simp [evalCell]
  | succ fuel =>
    simp only [evalCell]
    split
    · rfl
    · split
      · rfl
      · split
        · rfl
        · generalize evalFx S sem (evalCell S sem fuel) _ _ = p
          obtain ⟨c2, r⟩ := p
          cases r with
          | val v => rfl
          | exc k n => cases k <;> rfl

end XlVerif.Lemmas.C06
