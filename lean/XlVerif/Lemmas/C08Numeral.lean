/-
  XlVerif.Lemmas.C08Numeral — the model's text→number parser (`textNumber`) reads every well-formed
  decimal / scientific numeral (`Spec.C08.Numeral`) as the value it denotes.
-/
import XlVerif.Model.Value
import XlVerif.Spec.C08
namespace XlVerif.Lemmas.C08Numeral
open XlVerif XlVerif.Model.Value XlVerif.Spec.C08

/-- the integer a numeral without point and exponent denotes -/
def intValue (n : Numeral) : Int := (if n.neg then -1 else 1) * (digitsVal n.ip : Int)

/-! ### digit characters -/

theorem digit_cases {d : Nat} (h : d < 10) :
    d = 0 ∨ d = 1 ∨ d = 2 ∨ d = 3 ∨ d = 4 ∨ d = 5 ∨ d = 6 ∨ d = 7 ∨ d = 8 ∨ d = 9 := by omega

theorem isDigit_digitChar {d : Nat} (h : d < 10) : isDigit (digitChar d) = true := by
  rcases digit_cases h with rfl|rfl|rfl|rfl|rfl|rfl|rfl|rfl|rfl|rfl <;> decide

theorem digitVal_digitChar {d : Nat} (h : d < 10) : digitVal (digitChar d) = d := by
  rcases digit_cases h with rfl|rfl|rfl|rfl|rfl|rfl|rfl|rfl|rfl|rfl <;> decide

theorem isWs_digitChar {d : Nat} (h : d < 10) : isWs (digitChar d) = false := by
  rcases digit_cases h with rfl|rfl|rfl|rfl|rfl|rfl|rfl|rfl|rfl|rfl <;> decide

theorem digitChar_ne_sign {d : Nat} (h : d < 10) : digitChar d ≠ '+' ∧ digitChar d ≠ '-' := by
  rcases digit_cases h with rfl|rfl|rfl|rfl|rfl|rfl|rfl|rfl|rfl|rfl <;> decide

theorem lower_digitChar {d : Nat} (h : d < 10) : lower (digitChar d) = digitChar d := by
  rcases digit_cases h with rfl|rfl|rfl|rfl|rfl|rfl|rfl|rfl|rfl|rfl <;> decide

theorem digitChar_ne_in {d : Nat} (h : d < 10) : digitChar d ≠ 'i' ∧ digitChar d ≠ 'n' := by
  rcases digit_cases h with rfl|rfl|rfl|rfl|rfl|rfl|rfl|rfl|rfl|rfl <;> decide

/-! ### `digitsUS` on a run of digit characters -/

/-- the text after a digit run does not continue it -/
def Stop (rest : List Char) : Prop := ∀ c s, rest = c :: s → isDigit c = false ∧ c ≠ '_'

theorem stop_nil : Stop [] := by intro c s h; cases h
theorem stop_dot (s : List Char) : Stop ('.' :: s) := by
  intro c s' h; cases h; decide
theorem stop_e (s : List Char) : Stop ('e' :: s) := by
  intro c s' h; cases h; decide

theorem go_cons_digit (acc k : Nat) (c : Char) (r : List Char) (h : isDigit c = true) :
    digitsUS.go acc k (c :: r) = digitsUS.go (acc * 10 + digitVal c) (k + 1) r := by
  rw [digitsUS.go.eq_def]; simp [h]

theorem go_stop (acc k : Nat) (rest : List Char) (hs : Stop rest) :
    digitsUS.go acc k rest = (acc, k, rest) := by
  cases rest with
  | nil => rw [digitsUS.go.eq_def]
  | cons c s =>
    obtain ⟨h1, h2⟩ := hs c s rfl
    rw [digitsUS.go.eq_def]; simp [h1, h2]

theorem go_digits (ds : List Nat) (hd : ∀ d ∈ ds, d < 10) (rest : List Char) (hs : Stop rest) :
    ∀ acc k, digitsUS.go acc k (ds.map digitChar ++ rest) =
      (ds.foldl (fun a d => a * 10 + d) acc, k + ds.length, rest) := by
  induction ds with
  | nil => intro acc k; simpa using go_stop acc k rest hs
  | cons d ds ih =>
    intro acc k
    have hd0 : d < 10 := hd d (by simp)
    have ih' := ih (fun x hx => hd x (by simp [hx]))
    simp only [List.map_cons, List.cons_append]
    rw [go_cons_digit _ _ _ _ (isDigit_digitChar hd0), ih', digitVal_digitChar hd0]
    simp only [List.foldl_cons, List.length_cons]
    congr 2
    omega

theorem digitsUS_digits (ds : List Nat) (hne : ds ≠ []) (hd : ∀ d ∈ ds, d < 10)
    (rest : List Char) (hs : Stop rest) :
    digitsUS (ds.map digitChar ++ rest) = some (digitsVal ds, ds.length, rest) := by
  cases ds with
  | nil => exact absurd rfl hne
  | cons d ds =>
    have hd0 : d < 10 := hd d (by simp)
    have h := go_digits ds (fun x hx => hd x (by simp [hx])) rest hs
    simp only [List.map_cons, List.cons_append, digitsUS, isDigit_digitChar hd0, if_true,
      digitVal_digitChar hd0, h, digitsVal, List.foldl_cons, List.length_cons]
    congr 3
    · simp
    · omega

theorem digitsUS_stop (rest : List Char) (hs : Stop rest) : digitsUS rest = none := by
  cases rest with
  | nil => rfl
  | cons c s => simp [digitsUS, (hs c s rfl).1]

/-! ### arithmetic of digit strings -/

theorem foldl_digits (fp : List Nat) : ∀ acc : Nat,
    fp.foldl (fun a d => a * 10 + d) acc =
      acc * 10 ^ fp.length + fp.foldl (fun a d => a * 10 + d) 0 := by
  induction fp with
  | nil => intro acc; simp
  | cons d fp ih =>
    intro acc
    simp only [List.foldl_cons, List.length_cons]
    rw [ih (acc * 10 + d), ih (0 * 10 + d)]
    simp only [Nat.zero_mul, Nat.zero_add, Nat.pow_succ, Nat.add_mul]
    rw [Nat.mul_assoc, Nat.mul_comm 10, Nat.add_assoc]

theorem digitsVal_append (ip fp : List Nat) :
    digitsVal (ip ++ fp) = digitsVal ip * 10 ^ fp.length + digitsVal fp := by
  simp only [digitsVal, List.foldl_append]
  exact foldl_digits fp _

/-! ### `strip` -/

theorem stripL_blanks (a : Nat) (s : List Char) : stripL (List.replicate a ' ' ++ s) = stripL s := by
  induction a with
  | zero => simp
  | succ a ih =>
    simp only [List.replicate_succ, List.cons_append, stripL]
    have : isWs ' ' = true := by decide
    simp [this, ih]

theorem stripL_cons_nonws (c : Char) (s : List Char) (h : isWs c = false) :
    stripL (c :: s) = c :: s := by
  simp [stripL, h]

theorem strip_pad (a b : Nat) (body : List Char) (hne : body ≠ [])
    (hws : ∀ c ∈ body, isWs c = false) :
    strip (List.replicate a ' ' ++ body ++ List.replicate b ' ') = body := by
  unfold strip
  rw [List.append_assoc, stripL_blanks]
  cases body with
  | nil => exact absurd rfl hne
  | cons c s =>
    rw [List.cons_append, stripL_cons_nonws c _ (hws c (by simp))]
    rw [← List.cons_append, List.reverse_append, List.reverse_replicate, stripL_blanks]
    cases hr : (c :: s).reverse with
    | nil => simp at hr
    | cons c' s' =>
      have hmem : c' ∈ c :: s := by
        have : c' ∈ (c :: s).reverse := by rw [hr]; simp
        exact List.mem_reverse.mp this
      rw [stripL_cons_nonws c' s' (hws c' hmem), ← hr, List.reverse_reverse]

/-! ### `signOf` -/

/-- the text after a sign does not begin with another sign -/
def NoSign (rest : List Char) : Prop := ∀ c s, rest = c :: s → c ≠ '+' ∧ c ≠ '-'

def signS (neg plus : Bool) : List Char := if neg then ['-'] else if plus then ['+'] else []

theorem signOf_noSign (rest : List Char) (h : NoSign rest) : signOf rest = (1, rest) := by
  rw [signOf.eq_3]
  · intro s hs; exact (h _ _ hs).1 rfl
  · intro s hs; exact (h _ _ hs).2 rfl

theorem signOf_signS (neg plus : Bool) (rest : List Char) (h : NoSign rest) :
    signOf (signS neg plus ++ rest) = ((if neg then -1 else 1), rest) := by
  cases neg <;> cases plus
  · simpa [signS] using signOf_noSign rest h
  · simp [signS, signOf]
  · simp [signS, signOf]
  · simp [signS, signOf]

theorem noSign_dot (s : List Char) : NoSign ('.' :: s) := by
  intro c s' h; cases h; decide

theorem noSign_digits (ds : List Nat) (hne : ds ≠ []) (hd : ∀ d ∈ ds, d < 10) (rest : List Char) :
    NoSign (ds.map digitChar ++ rest) := by
  cases ds with
  | nil => exact absurd rfl hne
  | cons d ds =>
    intro c s h
    simp only [List.map_cons, List.cons_append, List.cons.injEq] at h
    rw [← h.1]; exact digitChar_ne_sign (hd d (by simp))

/-! ### `pyFloatOfText`, decomposed -/

/-- the mantissa scanner inside `pyFloatOfText` -/
def mantOf (r : List Char) : Option (Nat × Nat × List Char) :=
  match digitsUS r with
  | some (iv, _, '.' :: r1) =>
    (match digitsUS r1 with
     | some (fv, fn, r2) => some (iv * 10 ^ fn + fv, fn, r2)
     | Option.none => some (iv, 0, r1))
  | some (iv, _, r1) => some (iv, 0, r1)
  | Option.none =>
    match r with
    | '.' :: r1 => (match digitsUS r1 with
                    | some (fv, fn, r2) => some (fv, fn, r2)
                    | Option.none => Option.none)
    | _ => Option.none

def finOf (sg : Int) (m fn : Nat) (e : Int) : Option PyFloat :=
  let q : Rat := (sg : Rat) * (m : Rat) * Model.Value.pow10 (e - fn)
  if q ≥ floatMax ∨ q ≤ -floatMax then some .nonfinite else some (.fin q)

def tailOf (sg : Int) (m fn : Nat) (rest : List Char) : Option PyFloat :=
  match rest with
  | [] => finOf sg m fn 0
  | c :: r3 =>
    if c = 'e' ∨ c = 'E' then
      let (es, r4) := signOf r3
      match digitsUS r4 with
      | some (ev, _, []) => finOf sg m fn (es * ev)
      | _ => Option.none
    else Option.none

theorem pyFloatOfText_eq (t : List Char) :
    pyFloatOfText t =
      (let (sg, r) := signOf (strip t)
       let lw := r.map lower
       if lw = "inf".toList ∨ lw = "infinity".toList ∨ lw = "nan".toList then some .nonfinite else
       match mantOf r with
       | Option.none => Option.none
       | some (m, fn, rest) => tailOf sg m fn rest) := rfl

/-- the text after the mantissa: nothing, or an exponent -/
def NoDot (rest : List Char) : Prop := ∀ s, rest ≠ '.' :: s

theorem mantOf_int (ip : List Nat) (hne : ip ≠ []) (hd : ∀ d ∈ ip, d < 10) (tail : List Char)
    (hs : Stop tail) (hnd : NoDot tail) :
    mantOf (ip.map digitChar ++ tail) = some (digitsVal ip, 0, tail) := by
  unfold mantOf
  rw [digitsUS_digits ip hne hd tail hs]
  split
  · rename_i h; simp only [Option.some.injEq, Prod.mk.injEq] at h
    exact absurd h.2.2 (hnd _)
  · rename_i h; simp only [Option.some.injEq, Prod.mk.injEq] at h
    obtain ⟨rfl, -, rfl⟩ := h; rfl
  · rename_i h; cases h

theorem mantOf_int_dot (ip : List Nat) (hne : ip ≠ []) (hd : ∀ d ∈ ip, d < 10) (tail : List Char)
    (hs : Stop tail) :
    mantOf (ip.map digitChar ++ '.' :: tail) = some (digitsVal ip, 0, tail) := by
  unfold mantOf
  rw [digitsUS_digits ip hne hd _ (stop_dot tail)]
  simp only [digitsUS_stop tail hs]

theorem mantOf_int_frac (ip : List Nat) (hne : ip ≠ []) (hd : ∀ d ∈ ip, d < 10)
    (fp : List Nat) (hnf : fp ≠ []) (hf : ∀ d ∈ fp, d < 10) (tail : List Char) (hs : Stop tail) :
    mantOf (ip.map digitChar ++ '.' :: (fp.map digitChar ++ tail)) =
      some (digitsVal ip * 10 ^ fp.length + digitsVal fp, fp.length, tail) := by
  unfold mantOf
  rw [digitsUS_digits ip hne hd _ (stop_dot _)]
  simp only [digitsUS_digits fp hnf hf tail hs]

theorem mantOf_frac (fp : List Nat) (hnf : fp ≠ []) (hf : ∀ d ∈ fp, d < 10) (tail : List Char)
    (hs : Stop tail) :
    mantOf ('.' :: (fp.map digitChar ++ tail)) = some (digitsVal fp, fp.length, tail) := by
  unfold mantOf
  rw [digitsUS_stop _ (stop_dot _)]
  simp only [digitsUS_digits fp hnf hf tail hs]

def dotS (dot : Bool) : List Char := if dot then ['.'] else []

/-- the mantissa scanner on every well-formed mantissa -/
theorem mantOf_numeral (ip fp : List Nat) (dot : Bool) (hd : ∀ d ∈ ip, d < 10)
    (hf : ∀ d ∈ fp, d < 10) (hne : ip ≠ [] ∨ fp ≠ []) (hdot : dot = false → fp = [])
    (tail : List Char) (hs : Stop tail) (hnd : NoDot tail) :
    mantOf (ip.map digitChar ++ (dotS dot ++ (fp.map digitChar ++ tail))) =
      some (digitsVal (ip ++ fp), fp.length, tail) := by
  rw [digitsVal_append]
  cases dot with
  | false =>
    have hfp := hdot rfl
    subst hfp
    have hip : ip ≠ [] := by simpa using hne
    simpa [dotS, digitsVal] using mantOf_int ip hip hd tail hs hnd
  | true =>
    by_cases hip : ip = []
    · subst hip
      have hfp : fp ≠ [] := by simpa using hne
      simpa [dotS, digitsVal] using mantOf_frac fp hfp hf tail hs
    · by_cases hfp : fp = []
      · subst hfp
        simpa [dotS, digitsVal] using mantOf_int_dot ip hip hd tail hs
      · simpa [dotS] using mantOf_int_frac ip hip hd fp hfp hf tail hs

/-! ### exponent part -/

def expS : Option (Bool × Bool × List Nat) → List Char
  | none => []
  | some (en, ep, ds) => 'e' :: (signS en ep ++ ds.map digitChar)

def expVal : Option (Bool × Bool × List Nat) → Int
  | none => 0
  | some (en, _, ds) => (if en then -1 else 1) * (digitsVal ds : Int)

def ExpWf : Option (Bool × Bool × List Nat) → Prop
  | none => True
  | some (_, _, ds) => ds ≠ [] ∧ (∀ d ∈ ds, d < 10)

theorem stop_expS (e) : Stop (expS e) := by
  cases e with
  | none => exact stop_nil
  | some x => exact stop_e _

theorem noDot_expS (e) : NoDot (expS e) := by
  cases e with
  | none => intro s h; cases h
  | some x => intro s h; simp only [expS, List.cons.injEq] at h; exact absurd h.1 (by decide)

theorem tailOf_expS (sg : Int) (m fn : Nat) (e) (he : ExpWf e) :
    tailOf sg m fn (expS e) = finOf sg m fn (expVal e) := by
  cases e with
  | none => rfl
  | some x =>
    obtain ⟨en, ep, ds⟩ := x
    obtain ⟨hne, hd⟩ := he
    have h1 : signOf (signS en ep ++ ds.map digitChar) = ((if en then -1 else 1), ds.map digitChar) := by
      have := signOf_signS en ep (ds.map digitChar ++ []) (noSign_digits ds hne hd [])
      simpa using this
    have h2 : digitsUS (ds.map digitChar) = some (digitsVal ds, ds.length, []) := by
      simpa using digitsUS_digits ds hne hd [] stop_nil
    simp only [tailOf, expS, true_or, if_true, h1, h2, expVal]

theorem finOf_finite (sg : Int) (m fn : Nat) (e : Int)
    (h : -floatMax < (sg : Rat) * (m : Rat) * Model.Value.pow10 (e - fn) ∧
         (sg : Rat) * (m : Rat) * Model.Value.pow10 (e - fn) < floatMax) :
    finOf sg m fn e = some (.fin ((sg : Rat) * (m : Rat) * Model.Value.pow10 (e - fn))) := by
  unfold finOf
  have : ¬ ((sg : Rat) * (m : Rat) * Model.Value.pow10 (e - fn) ≥ floatMax ∨
            (sg : Rat) * (m : Rat) * Model.Value.pow10 (e - fn) ≤ -floatMax) := by
    generalize (sg : Rat) * (m : Rat) * Model.Value.pow10 (e - fn) = q at h
    generalize floatMax = M at h
    grind
  simp only [this, if_false]

/-! ### the rendering -/

/-- the numeral without its surrounding blanks, after the sign -/
def unsigned (n : Numeral) : List Char :=
  n.ip.map digitChar ++ (dotS n.dot ++ (n.fp.map digitChar ++ expS n.exp))

def body (n : Numeral) : List Char := signS n.neg n.plus ++ unsigned n

theorem render_eq (n : Numeral) :
    n.render = List.replicate n.lead ' ' ++ body n ++ List.replicate n.trail ' ' := by
  unfold Numeral.render body unsigned signS dotS
  cases n.exp with
  | none => simp [expS]
  | some x => obtain ⟨en, ep, ds⟩ := x; simp [expS, signS]

theorem expWf_of_wf (n : Numeral) (h : n.wf) : ExpWf n.exp := by
  have := h.2.2.2.2.2
  revert this
  cases n.exp with
  | none => intro _; trivial
  | some x => obtain ⟨en, ep, ds⟩ := x; intro h; exact ⟨h.1, h.2.1⟩

theorem isWs_signS (neg plus : Bool) : ∀ c ∈ signS neg plus, isWs c = false := by
  cases neg <;> cases plus <;> simp [signS] <;> decide

theorem isWs_digits (ds : List Nat) (hd : ∀ d ∈ ds, d < 10) :
    ∀ c ∈ ds.map digitChar, isWs c = false := by
  intro c hc
  obtain ⟨d, hd', rfl⟩ := List.mem_map.mp hc
  exact isWs_digitChar (hd d hd')

theorem isWs_dotS (dot : Bool) : ∀ c ∈ dotS dot, isWs c = false := by
  cases dot <;> simp [dotS] <;> decide

theorem isWs_expS (e) (he : ExpWf e) : ∀ c ∈ expS e, isWs c = false := by
  cases e with
  | none => simp [expS]
  | some x =>
    obtain ⟨en, ep, ds⟩ := x
    intro c hc
    simp only [expS, List.mem_cons, List.mem_append] at hc
    rcases hc with rfl | hc | hc
    · decide
    · exact isWs_signS en ep c hc
    · exact isWs_digits ds he.2 c hc

theorem isWs_body (n : Numeral) (h : n.wf) : ∀ c ∈ body n, isWs c = false := by
  intro c hc
  simp only [body, unsigned, List.mem_append] at hc
  rcases hc with hc | hc | hc | hc | hc
  · exact isWs_signS _ _ c hc
  · exact isWs_digits _ h.1 c hc
  · exact isWs_dotS _ c hc
  · exact isWs_digits _ h.2.1 c hc
  · exact isWs_expS _ (expWf_of_wf n h) c hc

/-- what the unsigned text begins with: a digit, or the point -/
theorem unsigned_head (n : Numeral) (h : n.wf) :
    (∃ d s, d < 10 ∧ unsigned n = digitChar d :: s) ∨ (n.ip = [] ∧ ∃ s, unsigned n = '.' :: s) := by
  obtain ⟨hd, hf, hne, hdot, -, -⟩ := h
  unfold unsigned
  cases hip : n.ip with
  | cons d ds =>
    left
    exact ⟨d, _, hd d (by simp [hip]), rfl⟩
  | nil =>
    right
    refine ⟨rfl, ?_⟩
    have hfp : n.fp ≠ [] := by simpa [hip] using hne
    have : n.dot = true := by
      cases hd' : n.dot with
      | true => rfl
      | false => exact absurd (hdot hd') hfp
    simp [this, dotS]

theorem body_ne_nil (n : Numeral) (h : n.wf) : body n ≠ [] := by
  unfold body
  rcases unsigned_head n h with ⟨d, s, -, hu⟩ | ⟨-, s, hu⟩ <;> simp [hu]

theorem strip_render (n : Numeral) (h : n.wf) : strip n.render = body n := by
  rw [render_eq]
  exact strip_pad _ _ _ (body_ne_nil n h) (isWs_body n h)

theorem noSign_unsigned (n : Numeral) (h : n.wf) : NoSign (unsigned n) := by
  rcases unsigned_head n h with ⟨d, s, hd, hu⟩ | ⟨-, s, hu⟩
  · rw [hu]; intro c s' hc; cases hc; exact digitChar_ne_sign hd
  · rw [hu]; exact noSign_dot s

theorem signOf_render (n : Numeral) (h : n.wf) :
    signOf (strip n.render) = ((if n.neg then -1 else 1), unsigned n) := by
  rw [strip_render n h]
  exact signOf_signS _ _ _ (noSign_unsigned n h)

theorem not_infnan (n : Numeral) (h : n.wf) :
    ¬ ((unsigned n).map lower = "inf".toList ∨ (unsigned n).map lower = "infinity".toList ∨
       (unsigned n).map lower = "nan".toList) := by
  have e1 : "inf".toList = ['i', 'n', 'f'] := rfl
  have e2 : "infinity".toList = ['i', 'n', 'f', 'i', 'n', 'i', 't', 'y'] := rfl
  have e3 : "nan".toList = ['n', 'a', 'n'] := rfl
  rw [e1, e2, e3]
  rcases unsigned_head n h with ⟨d, s, hd, hu⟩ | ⟨-, s, hu⟩
  · rw [hu]
    simp only [List.map_cons, lower_digitChar hd, List.cons.injEq]
    have := digitChar_ne_in hd
    simp [this.1, this.2]
  · rw [hu]
    have : lower '.' = '.' := by decide
    simp only [List.map_cons, this, List.cons.injEq]
    have h1 : ('.' : Char) ≠ 'i' := by decide
    have h2 : ('.' : Char) ≠ 'n' := by decide
    simp [h1, h2]

/-! ### the two Python casts on a rendering -/

theorem pyFloat_render (n : Numeral) (h : n.wf) :
    pyFloatOfText n.render =
      finOf (if n.neg then -1 else 1) (digitsVal (n.ip ++ n.fp)) n.fp.length (expVal n.exp) := by
  rw [pyFloatOfText_eq]
  simp only [signOf_render n h, not_infnan n h, if_false]
  have hew := expWf_of_wf n h
  obtain ⟨hd, hf, hne, hdot, -, -⟩ := h
  have hm := mantOf_numeral n.ip n.fp n.dot hd hf hne hdot (expS n.exp) (stop_expS _) (noDot_expS _)
  unfold unsigned
  rw [hm]
  exact tailOf_expS _ _ _ _ hew

theorem pyInt_render_int (n : Numeral) (h : n.wf) (hdot : n.dot = false) (hexp : n.exp = none) :
    pyIntOfText n.render = some (intValue n) := by
  have hs := signOf_render n h
  obtain ⟨hd, -, hne, hdf, -, -⟩ := h
  have hfp := hdf hdot
  have hip : n.ip ≠ [] := by simpa [hfp] using hne
  have hu : unsigned n = n.ip.map digitChar := by simp [unsigned, hdot, hexp, hfp, dotS, expS]
  have hdg : digitsUS (unsigned n) = some (digitsVal n.ip, n.ip.length, []) := by
    rw [hu]; simpa using digitsUS_digits n.ip hip hd [] stop_nil
  simp only [pyIntOfText, hs, hdg, intValue]

theorem pyInt_render_none (n : Numeral) (h : n.wf) (hni : ¬ (n.dot = false ∧ n.exp = none)) :
    pyIntOfText n.render = none := by
  have hs := signOf_render n h
  have hew := expWf_of_wf n h
  obtain ⟨hd, -, hne, hdf, -, -⟩ := h
  -- the text after the integer digits is non-empty and stops the digit run
  have hrest : ∃ c s, dotS n.dot ++ (n.fp.map digitChar ++ expS n.exp) = c :: s ∧ Stop (c :: s) := by
    cases hdot : n.dot with
    | true => exact ⟨'.', _, rfl, stop_dot _⟩
    | false =>
      have hfp := hdf hdot
      cases hexp : n.exp with
      | none => exact absurd ⟨hdot, hexp⟩ hni
      | some x =>
        obtain ⟨en, ep, ds⟩ := x
        exact ⟨'e', signS en ep ++ ds.map digitChar, by rw [hfp]; rfl, stop_e _⟩
  obtain ⟨c, s, hcs, hstop⟩ := hrest
  have hdg : digitsUS (unsigned n) = none ∨
      digitsUS (unsigned n) = some (digitsVal n.ip, n.ip.length, c :: s) := by
    unfold unsigned
    rw [hcs]
    by_cases hip : n.ip = []
    · left; rw [hip]; exact digitsUS_stop _ hstop
    · right; exact digitsUS_digits n.ip hip hd _ hstop
  rcases hdg with hdg | hdg <;> simp only [pyIntOfText, hs, hdg]

/-! ### the theorem -/

theorem pow10_eq (e : Int) : Model.Value.pow10 e = Spec.C08.pow10 e := rfl

theorem value_eq (n : Numeral) :
    (((if n.neg then -1 else 1 : Int) : Int) : Rat) * ((digitsVal (n.ip ++ n.fp) : Nat) : Rat) *
        Model.Value.pow10 (expVal n.exp - (n.fp.length : Nat)) = n.value := by
  unfold Numeral.value
  rw [pow10_eq]
  have h1 : (((if n.neg then -1 else 1 : Int) : Int) : Rat) = (if n.neg then -1 else 1 : Rat) := by
    cases n.neg <;> simp
  have h2 : expVal n.exp = (match n.exp with
      | none => 0
      | some (en, _, ds) => if en then -(digitsVal ds : Int) else (digitsVal ds : Int)) := by
    cases n.exp with
    | none => rfl
    | some x => obtain ⟨en, ep, ds⟩ := x; cases en <;> simp [expVal]
  rw [h1, h2]
  rfl

theorem textNumber_render (ext : Ext) (n : Numeral) (h : n.wf)
    (hfin : -floatMax < n.value ∧ n.value < floatMax) :
    textNumber ext n.render =
      .ok (if n.dot = false ∧ n.exp = none then .int (intValue n) else .flt n.value) := by
  by_cases hi : n.dot = false ∧ n.exp = none
  · simp only [textNumber, pyInt_render_int n h hi.1 hi.2, hi, and_self, if_true]
  · have hf : pyFloatOfText n.render = some (.fin n.value) := by
      rw [pyFloat_render n h, finOf_finite _ _ _ _ (by rw [value_eq]; exact hfin), value_eq]
    simp only [textNumber, pyInt_render_none n h hi, hf, hi, if_false]

/-! ### non-vacuity: concrete renderings covered by the theorem -/

example : ({ neg := true, ip := [1, 2], dot := true, fp := [5], exp := some (false, true, [3]),
             lead := 1, trail := 2 } : Numeral).render = " -12.5e+3  ".toList := by decide
example : ({ neg := false, ip := [], dot := true, fp := [5] } : Numeral).render = ".5".toList := by
  decide
example : ({ neg := false, ip := [5], dot := true, exp := some (true, false, [3]) } : Numeral).render
    = "5.e-3".toList := by decide
example : ({ neg := false, ip := [], dot := true, fp := [5] } : Numeral).wf := by
  simp [Numeral.wf]

end XlVerif.Lemmas.C08Numeral
