/-
  XlVerif.Lemmas.C10 — helper lemmas for Props/C10: agreement of the truth functions, the item loops of
  AND/OR, and the bridge between model thunks and Spec computations.
-/
import XlVerif.Model.C10
import XlVerif.Spec.C10
namespace XlVerif.Lemmas.C10
open XlVerif XlVerif.Model.Evaluator XlVerif.Model.Value XlVerif.Model.C10

abbrev Exc := ExcKind × Nat

/-- results of the model as Spec outcomes -/
def toOut : Res → Spec.C10.Out Exc
  | .val v => .val v
  | .exc k n => .fail (k, n)

/-- a model thunk as a Spec computation -/
def lift {τ : Type} (t : XExpr τ) : Spec.C10.Comp τ Exc := fun s => ((t s).1, toOut (t s).2)

theorem lift_const {τ : Type} (v : V) : lift (constT (τ := τ) v) = Spec.C10.const (τ := τ) v := rfl

/-- the model's `bool()` agrees with the statement's truth rules wherever these are defined -/
theorem truthOf_spec (v : V) :
    match Spec.C10.truthV v with
    | .yes => truthOf v = some true
    | .no => truthOf v = some false
    | .error c => v = .s (.err c) ∧ truthOf v = none
    | .undef => True := by
  cases v with
  | arr rows => simp [Spec.C10.truthV]
  | s x =>
    cases x with
    | num n =>
      simp only [Spec.C10.truthV, Spec.C10.truth]
      by_cases h : n.toRat = 0
      · simp [h, truthOf, truthy]
      · simp [h, truthOf, truthy]
    | text t =>
      cases t with
      | nil =>
        have : truthy (.text []) = false := by decide
        simp [Spec.C10.truthV, Spec.C10.truth, truthOf, this]
      | cons ch tl => simp [Spec.C10.truthV, Spec.C10.truth]
    | bool b => cases b <;> simp [Spec.C10.truthV, Spec.C10.truth, truthOf, truthy]
    | blank => simp [Spec.C10.truthV, Spec.C10.truth, truthOf, truthy]
    | date d => simp [Spec.C10.truthV, Spec.C10.truth]
    | err c => simp [Spec.C10.truthV, Spec.C10.truth, truthOf]

theorem flat_eq_elems (v : V) : flat v = Spec.C10.elems v := by cases v <;> rfl

theorem isBlankItem_eq (x : S) : isBlankItem x = Spec.C10.isBlank x := by
  cases x with
  | text t => cases t <;> rfl
  | _ => rfl

theorem firstError_eq (xs : List S) : firstError xs = xs.findSome? Spec.C10.errOf := by
  induction xs with
  | nil => rfl
  | cons x rest ih => cases x <;> simp [firstError, List.findSome?_cons, Spec.C10.errOf, ih]

/-- truth of a scalar in the statement's domain -/
theorem truthy_of_truth (x : S) (h : Spec.C10.truth x ≠ .undef) (he : ∀ c, Spec.C10.truth x ≠ .error c) :
    truthy x = decide (Spec.C10.truth x = .yes) := by
  have := truthOf_spec (.s x)
  simp only [Spec.C10.truthV] at this
  cases ht : Spec.C10.truth x with
  | yes => rw [ht] at this; simp [truthOf] at this; cases x <;> simp_all
  | no => rw [ht] at this; cases x <;> simp_all [truthOf]
  | error c => exact absurd ht (he c)
  | undef => exact absurd ht h

theorem no_error_of_firstError {xs : List S} (h : xs.findSome? Spec.C10.errOf = none) :
    ∀ x ∈ xs, ∀ c, Spec.C10.truth x ≠ .error c := by
  intro x hx c hc
  have := List.findSome?_eq_none_iff.mp h x hx
  cases x <;> simp_all [Spec.C10.truth, Spec.C10.errOf]
  all_goals (split at hc <;> simp_all)

/-- the second loop of AND/OR on an error-free argument whose non-blank items are in the domain -/
theorem decides_eq (isAnd : Bool) (xs : List S) (he : ∀ x ∈ xs, ∀ c, Spec.C10.truth x ≠ .error c)
    (hd : ∀ x ∈ Spec.C10.nonBlank xs, Spec.C10.truth x ≠ .undef) :
    decides isAnd xs = !((Spec.C10.nonBlank xs).all fun x => decide (Spec.C10.truth x = .yes) = isAnd) := by
  induction xs with
  | nil => simp [decides, Spec.C10.nonBlank]
  | cons x rest ih =>
    have ihr := ih (fun y hy => he y (by simp [hy])) (fun y hy => hd y (by
      simp only [Spec.C10.nonBlank, List.mem_filter] at hy ⊢
      exact ⟨by simp [hy.1], hy.2⟩))
    simp only [decides, isBlankItem_eq]
    by_cases hb : Spec.C10.isBlank x = true
    · simp only [hb, if_true, ihr]
      simp [Spec.C10.nonBlank, hb]
    · have hb' : Spec.C10.isBlank x = false := by simpa using hb
      have hx : x ∈ Spec.C10.nonBlank (x :: rest) := by simp [Spec.C10.nonBlank, hb']
      have ht := truthy_of_truth x (hd x hx) (he x (by simp))
      simp only [hb', Bool.false_eq_true, if_false, ht, ihr]
      simp only [Spec.C10.nonBlank, List.filter_cons, hb', Bool.not_false, if_true, List.all_cons]
      by_cases hq : decide (Spec.C10.truth x = .yes) = isAnd
      · simp [hq]
      · simp [hq]

/-- the model's verdict on one argument is the statement's verdict (where that is defined) -/
theorem stepOf_spec (isAnd : Bool) (v : V) :
    match Spec.C10.verdict isAnd (Spec.C10.elems v) with
    | .error c => stepOf isAnd v = .error c
    | .decided => stepOf isAnd v = .decided
    | .continue => stepOf isAnd v = .continue
    | .undef => True := by
  unfold Spec.C10.verdict stepOf
  rw [firstError_eq, flat_eq_elems]
  cases hf : (Spec.C10.elems v).findSome? Spec.C10.errOf with
  | some c => simp
  | none =>
    simp only
    by_cases hu : (Spec.C10.nonBlank (Spec.C10.elems v)).any (fun x => decide (Spec.C10.truth x = .undef)) = true
    · simp [hu]
    · simp only [hu]
      have hd : ∀ x ∈ Spec.C10.nonBlank (Spec.C10.elems v), Spec.C10.truth x ≠ .undef := by
        intro x hx hc
        apply hu
        simp only [List.any_eq_true, decide_eq_true_eq]
        exact ⟨x, hx, hc⟩
      rw [decides_eq isAnd _ (no_error_of_firstError hf) hd]
      by_cases ha : (Spec.C10.nonBlank (Spec.C10.elems v)).all
          (fun x => decide (decide (Spec.C10.truth x = .yes) = isAnd)) = true
      · simp [ha]
      · simp [ha]

/-! ### the per-argument verdict of the shared evaluator model (`Evaluator.argVerdict`) under the truth function
    of logical.py is the verdict of `Model.C10.stepOf` — for scalars AND for arrays (range arguments) -/

theorem argItems_eq_flat (v : V) : argItems v = flat v := by cases v <;> rfl

theorem isEmptyValue_item (x : S) : isEmptyValue (.s x) = isBlankItem x := by
  cases x with
  | text t => cases t <;> rfl
  | _ => rfl

theorem firstErrorItem_truthOf (xs : List S) :
    firstErrorItem truthOf xs = (firstError xs).map S.err := by
  induction xs with
  | nil => rfl
  | cons x rest ih => cases x <;> simp [firstErrorItem, firstError, truthOf, ih]

theorem firstDeciding_truthOf (isAnd : Bool) (xs : List S) (he : firstError xs = none) :
    firstDeciding truthOf isAnd xs = if decides isAnd xs then some (!isAnd) else none := by
  induction xs with
  | nil => simp [firstDeciding, decides]
  | cons x rest ih =>
    cases x with
    | err c => simp [firstError] at he
    | _ =>
      all_goals
        have he' : firstError rest = none := by simpa [firstError] using he
        simp only [firstDeciding, decides, isEmptyValue_item, truthOf, ih he']
        split
        · rfl
        · split
          · rfl
          · rename_i hq
            cases isAnd <;> simp_all

/-- `Model.C10.Step` (the verdict of logical.py's loop body) as a verdict of the evaluator model -/
def stepVerdict (isAnd : Bool) : Step → Verdict
  | .error c => .error (.s (.err c))
  | .decided => .decided (!isAnd)
  | .continue => .neutral

theorem itemsVerdict_truthOf (isAnd : Bool) (v : V) :
    itemsVerdict truthOf isAnd (argItems v) = stepVerdict isAnd (stepOf isAnd v) := by
  unfold itemsVerdict stepOf
  rw [argItems_eq_flat, firstErrorItem_truthOf]
  cases he : firstError (flat v) with
  | some c => rfl
  | none =>
    simp only [Option.map_none, firstDeciding_truthOf isAnd _ he]
    cases decides isAnd (flat v) <;> rfl

end XlVerif.Lemmas.C10
