/-
  Helper lemmas for C11: Python dicts as association lists, the folds of the loader.
-/
import XlVerif.Model.C11
namespace XlVerif.Lemmas.C11
open XlVerif XlVerif.Model.C11
open XlVerif.Spec.C11 (Text Coord PyVal Stored FTok FForm SCell Sheet Target TargetForm DefName Workbook
  colName digits coordText refText renderToks)

/-! ### dicts -/

theorem dget_dset {α} (d : Dict α) (k k' : Text) (v : α) :
    dget (dset d k v) k' = if k = k' then some v else dget d k' := by
  induction d with
  | nil => simp [dset, dget]
  | cons e d ih =>
    obtain ⟨k0, v0⟩ := e
    by_cases h0 : k0 = k
    · subst h0; simp only [dset, if_true, dget]
      by_cases h1 : k0 = k' <;> simp [h1]
    · simp only [dset, h0, if_false, dget, ih]
      by_cases h1 : k0 = k'
      · subst h1; simp [Ne.symm h0]
      · simp [h1]

theorem dkeys_dset {α} (d : Dict α) (k k' : Text) (v : α) :
    k' ∈ dkeys (dset d k v) ↔ k' = k ∨ k' ∈ dkeys d := by
  induction d with
  | nil => simp [dset, dkeys]
  | cons e d ih =>
    obtain ⟨k0, v0⟩ := e
    by_cases h0 : k0 = k
    · subst h0; simp [dset, dkeys]
    · simp only [dset, h0, if_false, dkeys, List.map_cons, List.mem_cons] at ih ⊢
      rw [ih]; constructor <;> intro h <;> rcases h with h | h | h <;> simp [h]

theorem dhas_iff {α} (d : Dict α) (k : Text) : dhas d k = true ↔ k ∈ dkeys d := by
  induction d with
  | nil => simp [dhas, dget, dkeys]
  | cons e d ih =>
    obtain ⟨k0, v0⟩ := e
    by_cases h0 : k0 = k
    · subst h0; simp [dhas, dget, dkeys]
    · simp only [dhas, dget, h0, if_false, dkeys, List.map_cons, List.mem_cons] at ih ⊢
      rw [ih]; constructor
      · intro h; exact Or.inr h
      · intro h; rcases h with h | h
        · exact absurd h.symm h0
        · exact h

theorem dget_none_iff {α} (d : Dict α) (k : Text) : dget d k = none ↔ k ∉ dkeys d := by
  rw [← dhas_iff]; unfold dhas; cases dget d k <;> simp

theorem dget_dmodify {α} (d : Dict α) (k k' : Text) (f : α → α) :
    dget (dmodify d k f) k' = if k = k' then (dget d k').map f else dget d k' := by
  induction d with
  | nil => simp [dmodify, dget]
  | cons e d ih =>
    obtain ⟨k0, v0⟩ := e
    by_cases h0 : k0 = k
    · subst h0
      simp only [dmodify, if_true, dget]
      by_cases h1 : k0 = k' <;> simp [h1]
    · simp only [dmodify, h0, if_false, dget, ih]
      by_cases h1 : k0 = k'
      · subst h1; simp [Ne.symm h0]
      · simp [h1]

theorem dkeys_dmodify {α} (d : Dict α) (k : Text) (f : α → α) : dkeys (dmodify d k f) = dkeys d := by
  induction d with
  | nil => rfl
  | cons e d ih =>
    obtain ⟨k0, v0⟩ := e
    by_cases h0 : k0 = k
    · simp [dmodify, h0, dkeys]
    · simp only [dmodify, h0, if_false, dkeys, List.map_cons] at ih ⊢
      rw [ih]

/-- folding `d[k] = v` over a list of entries. -/
def dsetAll {α} (d : Dict α) (l : List (Text × α)) : Dict α := l.foldl (fun d e => dset d e.1 e.2) d

theorem dofList_eq {α} (l : List (Text × α)) : dofList l = dsetAll [] l := rfl

theorem dkeys_dsetAll {α} (l : List (Text × α)) (d : Dict α) (k : Text) :
    k ∈ dkeys (dsetAll d l) ↔ k ∈ dkeys d ∨ k ∈ l.map Prod.fst := by
  induction l generalizing d with
  | nil => simp [dsetAll]
  | cons e l ih =>
    simp only [dsetAll, List.foldl_cons] at ih ⊢
    rw [ih, dkeys_dset]
    simp only [List.map_cons, List.mem_cons]
    constructor
    · rintro ((h | h) | h)
      · exact Or.inr (Or.inl h)
      · exact Or.inl h
      · exact Or.inr (Or.inr h)
    · rintro (h | h | h)
      · exact Or.inl (Or.inr h)
      · exact Or.inl (Or.inl h)
      · exact Or.inr h

theorem dget_dsetAll_of_not_mem {α} (l : List (Text × α)) (d : Dict α) (k : Text)
    (h : k ∉ l.map Prod.fst) : dget (dsetAll d l) k = dget d k := by
  induction l generalizing d with
  | nil => rfl
  | cons e l ih =>
    simp only [List.map_cons, List.mem_cons, not_or] at h
    simp only [dsetAll, List.foldl_cons] at ih ⊢
    rw [ih _ h.2, dget_dset, if_neg (Ne.symm h.1)]

theorem dget_dsetAll_of_nodup {α} (l : List (Text × α)) (d : Dict α) (k : Text) (v : α)
    (hn : (l.map Prod.fst).Nodup) (hm : (k, v) ∈ l) : dget (dsetAll d l) k = some v := by
  induction l generalizing d with
  | nil => cases hm
  | cons e l ih =>
    simp only [List.map_cons, List.nodup_cons] at hn
    simp only [dsetAll, List.foldl_cons] at ih ⊢
    rcases List.mem_cons.mp hm with h | h
    · subst h
      have := dget_dsetAll_of_not_mem l (dset d k v) k hn.1
      simp only [dsetAll] at this
      rw [this, dget_dset, if_pos rfl]
    · exact ih _ hn.2 h


/-! ### `link_cells_to_defined_names` keeps keys and contents -/

/-- what the statement speaks about: address, value (constant or cached result) and formula. -/
def content (c : XLCell) : Text × PyVal × Option XLFormula := (c.address, c.value, c.formula)

theorem content_addName (n : Text) (c : XLCell) : content (addName n c) = content c := rfl

theorem dkeys_foldl_dmodify {α} (l : List Text) (cs : Dict α) (f : α → α) :
    dkeys (l.foldl (fun cs a => dmodify cs a f) cs) = dkeys cs := by
  induction l generalizing cs with
  | nil => rfl
  | cons a l ih => simp only [List.foldl_cons]; rw [ih, dkeys_dmodify]

theorem content_dmodify (cs : Dict XLCell) (a n k : Text) :
    (dget (dmodify cs a (addName n)) k).map content = (dget cs k).map content := by
  rw [dget_dmodify]
  by_cases h : a = k
  · simp only [h, if_true, Option.map_map]
    cases dget cs k <;> simp [content_addName]
  · simp [h]

theorem content_foldl_dmodify (l : List Text) (cs : Dict XLCell) (n k : Text) :
    (dget (l.foldl (fun cs a => dmodify cs a (addName n)) cs) k).map content = (dget cs k).map content := by
  induction l generalizing cs with
  | nil => rfl
  | cons a l ih => simp only [List.foldl_cons]; rw [ih, content_dmodify]

theorem dkeys_linkOne (cs : Dict XLCell) (n : Text) (d : Defn) : dkeys (linkOne cs n d) = dkeys cs := by
  cases d with
  | cell a => exact dkeys_dmodify _ _ _
  | range r => exact dkeys_foldl_dmodify _ _ _

theorem content_linkOne (cs : Dict XLCell) (n : Text) (d : Defn) (k : Text) :
    (dget (linkOne cs n d) k).map content = (dget cs k).map content := by
  cases d with
  | cell a => exact content_dmodify _ _ _ _
  | range r => exact content_foldl_dmodify _ _ _ _

theorem dkeys_linkAll (ns : Dict Defn) (cs : Dict XLCell) :
    dkeys (ns.foldl (fun cs d => linkOne cs d.1 d.2) cs) = dkeys cs := by
  induction ns generalizing cs with
  | nil => rfl
  | cons d ns ih => simp only [List.foldl_cons]; rw [ih, dkeys_linkOne]

theorem content_linkAll (ns : Dict Defn) (cs : Dict XLCell) (k : Text) :
    (dget (ns.foldl (fun cs d => linkOne cs d.1 d.2) cs) k).map content = (dget cs k).map content := by
  induction ns generalizing cs with
  | nil => rfl
  | cons d ns ih => simp only [List.foldl_cons]; rw [ih, content_linkOne]

/-! ### `build_ranges` only appends empty placeholders -/

/-- `XLCell(cell_address, None)`. -/
def blank (a : Text) : XLCell := ⟨a, .none, none, []⟩

/-- the members of every area a formula of `fs` refers to. -/
def areaMembers (fs : Dict XLFormula) : List Text :=
  fs.flatMap fun e => (rangeTerms e.2).flatMap fun t => (mkRange t t).cells.flatten

theorem useRange_cells (ts : List Text) (m : M) :
    (ts.foldl useRange m).cells = (ts.flatMap fun t => (mkRange t t).cells.flatten).foldl addBlank m.cells := by
  induction ts generalizing m with
  | nil => rfl
  | cons t ts ih =>
    simp only [List.foldl_cons, List.flatMap_cons, List.foldl_append]
    rw [ih]; rfl

theorem useRange_formulae (ts : List Text) (m : M) : (ts.foldl useRange m).formulae = m.formulae := by
  induction ts generalizing m with
  | nil => rfl
  | cons t ts ih => simp only [List.foldl_cons]; rw [ih]; rfl

theorem useRange_names (ts : List Text) (m : M) : (ts.foldl useRange m).names = m.names := by
  induction ts generalizing m with
  | nil => rfl
  | cons t ts ih => simp only [List.foldl_cons]; rw [ih]; rfl

theorem buildRanges_aux (fs : Dict XLFormula) (m : M) :
    (fs.foldl (fun m e => (rangeTerms e.2).foldl useRange m) m).cells
      = (areaMembers fs).foldl addBlank m.cells
    ∧ (fs.foldl (fun m e => (rangeTerms e.2).foldl useRange m) m).formulae = m.formulae
    ∧ (fs.foldl (fun m e => (rangeTerms e.2).foldl useRange m) m).names = m.names := by
  induction fs generalizing m with
  | nil => exact ⟨rfl, rfl, rfl⟩
  | cons e fs ih =>
    simp only [List.foldl_cons, areaMembers, List.flatMap_cons, List.foldl_append]
    obtain ⟨h1, h2, h3⟩ := ih ((rangeTerms e.2).foldl useRange m)
    refine ⟨?_, ?_, ?_⟩
    · rw [h1, useRange_cells]; rfl
    · rw [h2, useRange_formulae]
    · rw [h3, useRange_names]

theorem buildRanges_cells (m : M) :
    (buildRanges m).cells = (areaMembers m.formulae).foldl addBlank m.cells := (buildRanges_aux _ _).1
theorem buildRanges_formulae (m : M) : (buildRanges m).formulae = m.formulae := (buildRanges_aux _ _).2.1
theorem buildRanges_names (m : M) : (buildRanges m).names = m.names := (buildRanges_aux _ _).2.2

theorem dget_addBlanks (l : List Text) (cs : Dict XLCell) (k : Text) :
    dget (l.foldl addBlank cs) k =
      if k ∈ dkeys cs then dget cs k else if k ∈ l then some (blank k) else none := by
  induction l generalizing cs with
  | nil =>
    simp only [List.foldl_nil, List.not_mem_nil, if_false]
    by_cases h : k ∈ dkeys cs
    · simp [h]
    · simp [h, (dget_none_iff cs k).mpr h]
  | cons a l ih =>
    simp only [List.foldl_cons]
    rw [ih]
    by_cases ha : dhas cs a = true
    · have ha' := (dhas_iff cs a).mp ha
      simp only [addBlank, ha, if_true]
      by_cases hk : k ∈ dkeys cs
      · simp [hk]
      · have : k ≠ a := fun e => hk (e ▸ ha')
        simp [hk, this]
    · have ha' : a ∉ dkeys cs := fun h => ha ((dhas_iff cs a).mpr h)
      have e : addBlank cs a = dset cs a (blank a) := by simp [addBlank, ha, blank]
      rw [e]
      by_cases hka : k = a
      · subst hka
        have h1 : k ∈ dkeys (dset cs k (blank k)) := (dkeys_dset _ _ _ _).mpr (Or.inl rfl)
        simp [h1, dget_dset, ha']
      · have hak : ¬ a = k := fun e => hka e.symm
        by_cases hk : k ∈ dkeys cs
        · have h1 : k ∈ dkeys (dset cs a (blank a)) := (dkeys_dset _ _ _ _).mpr (Or.inr hk)
          simp [h1, hk, dget_dset, hak]
        · have h1 : k ∉ dkeys (dset cs a (blank a)) := fun h =>
            ((dkeys_dset _ _ _ _).mp h).elim hka hk
          simp [h1, hk, hka]

theorem dkeys_addBlanks (l : List Text) (cs : Dict XLCell) (k : Text) :
    k ∈ dkeys (l.foldl addBlank cs) ↔ k ∈ dkeys cs ∨ k ∈ l := by
  have h := dget_addBlanks l cs k
  by_cases h1 : k ∈ dkeys cs
  · simp only [h1, if_true] at h
    refine ⟨fun _ => Or.inl h1, fun _ => ?_⟩
    apply Classical.byContradiction; intro hn
    rw [(dget_none_iff _ _).mpr hn] at h
    exact (dget_none_iff cs k).mp h.symm h1
  · by_cases h2 : k ∈ l
    · simp only [h1, h2, if_true, if_false] at h
      refine ⟨fun _ => Or.inr h2, fun _ => ?_⟩
      apply Classical.byContradiction; intro hn
      rw [(dget_none_iff _ _).mpr hn] at h; cases h
    · simp only [h1, h2, if_false] at h
      refine ⟨fun hm => ?_, fun hm => hm.elim (fun x => absurd x h1) (fun x => absurd x h2)⟩
      exact absurd hm ((dget_none_iff _ _).mp h)

/-! ### `build_defined_names` leaves the cells alone -/

theorem linkFormula_cells (m : M) (n a : Text) : (linkFormula m n a).cells = m.cells := by
  unfold linkFormula; split
  · split <;> rfl
  · rfl
theorem linkFormula_names (m : M) (n a : Text) : (linkFormula m n a).names = m.names := by
  unfold linkFormula; split
  · split <;> rfl
  · rfl

theorem defineName_cells (m : M) (n t : Text) : (defineName m n t).cells = m.cells := by
  unfold defineName
  simp only
  split
  · split
    · rfl
    · rw [linkFormula_cells]
  · rw [linkFormula_cells]

theorem buildDefinedNames_cells (defs : List (Text × Text)) (m : M) :
    (buildDefinedNames m defs).cells = m.cells := by
  unfold buildDefinedNames
  induction defs generalizing m with
  | nil => rfl
  | cons d defs ih => simp only [List.foldl_cons]; rw [ih, defineName_cells]

end XlVerif.Lemmas.C11
