/-
  Helper lemmas for C11: addresses `Sheet!A1` are injective, so a workbook with pairwise different sheet
  names and pairwise different coordinates per sheet has pairwise different addresses.
-/
import XlVerif.Lemmas.C11Names
import XlVerif.Lemmas.C11Text
namespace XlVerif.Lemmas.C11
open XlVerif XlVerif.Model.C11
open XlVerif.Spec.C11 (Text Coord SCell Sheet Workbook Target colName digits coordText refText)

theorem coordText_injective {c1 c2 : Coord} (h : coordText c1 = coordText c2) : c1 = c2 := by
  have h1 := boundary_bare c1
  have h2 := boundary_bare c2
  rw [bare_eq_coordText] at h1 h2
  rw [h, h2] at h1
  cases c1; cases c2
  simp only [Prod.mk.injEq] at h1
  simp [h1.1, h1.2]

theorem coordText_no_bang (c : Coord) : '!' ∉ coordText c := fun h => (bare_chars c _ h).2.1 rfl

/-- `S!A1 = S'!A1'` only for the same sheet and the same cell (whatever the sheet names contain). -/
theorem addr_injective {s1 s2 : Text} {c1 c2 : Coord} (h : Spec.C11.addr s1 c1 = Spec.C11.addr s2 c2) :
    s1 = s2 ∧ c1 = c2 := by
  unfold Spec.C11.addr at h
  have e1 := rsplit1_of '!' s1 (coordText c1) (coordText_no_bang c1)
  have e2 := rsplit1_of '!' s2 (coordText c2) (coordText_no_bang c2)
  rw [h, e2] at e1
  simp only [Prod.mk.injEq] at e1
  exact ⟨e1.1.symm, (coordText_injective e1.2).symm⟩

theorem sheetEntries_keys (sst : List Text) (sh : Sheet) :
    (sheetEntries sst sh).map Prod.fst = sh.cells.map fun c => Spec.C11.addr sh.name c.coord := by
  unfold sheetEntries
  rw [List.map_map]
  have := parseCells_coordinate sst [] sh.cells
  have h2 : (parseCells sst [] sh.cells).map (fun pc : PCell => sh.name ++ '!' :: pc.coordinate)
      = ((parseCells sst [] sh.cells).map PCell.coordinate).map (fun co => sh.name ++ '!' :: co) := by
    rw [List.map_map]; rfl
  show List.map (fun pc : PCell => sh.name ++ '!' :: pc.coordinate) _ = _
  rw [h2, this, List.map_map]; rfl

theorem nodup_map_of_inj {α β} (f : α → β) (l : List α) (hinj : ∀ a ∈ l, ∀ b ∈ l, f a = f b → a = b)
    (h : l.Nodup) : (l.map f).Nodup := by
  induction l with
  | nil => exact List.nodup_nil
  | cons a l ih =>
    rw [List.nodup_cons] at h
    rw [List.map_cons, List.nodup_cons]
    refine ⟨?_, ih (fun x hx y hy => hinj x (List.mem_cons_of_mem _ hx) y (List.mem_cons_of_mem _ hy)) h.2⟩
    intro hm
    obtain ⟨b, hb, hfb⟩ := List.mem_map.mp hm
    have := hinj b (List.mem_cons_of_mem _ hb) a List.mem_cons_self hfb
    exact h.1 (this ▸ hb)

/-- SpreadsheetML's invariants — sheet names pairwise different, one `<c>` per coordinate on a sheet — give
    pairwise different addresses (the hypothesis of `load_content`, `cached_before_eval`, …). -/
theorem nodup_keys (wb : Workbook) (ig : List Text) (hs : (wb.sheets.map (·.name)).Nodup)
    (hc : ∀ sh ∈ wb.sheets, (sh.cells.map (·.coord)).Nodup) :
    ((cellEntries wb ig).map Prod.fst).Nodup := by
  unfold cellEntries
  generalize wb.sheets = l at hs hc
  induction l with
  | nil => exact List.nodup_nil
  | cons sh l ih =>
    simp only [List.map_cons, List.nodup_cons] at hs
    have ih' := ih hs.2 (fun s hsm => hc s (List.mem_cons_of_mem _ hsm))
    simp only [List.filter_cons]
    split
    · simp only [List.flatMap_cons, List.map_append]
      rw [List.nodup_append]
      refine ⟨?_, ih', ?_⟩
      · rw [sheetEntries_keys]
        have e : sh.cells.map (fun c => Spec.C11.addr sh.name c.coord)
            = (sh.cells.map SCell.coord).map (fun co => Spec.C11.addr sh.name co) := by
          rw [List.map_map]; rfl
        rw [e]
        exact nodup_map_of_inj _ _ (fun a _ b _ hab => (addr_injective hab).2) (hc sh List.mem_cons_self)
      · intro a ha b hb hab
        rw [sheetEntries_keys] at ha
        obtain ⟨c, _, rfl⟩ := List.mem_map.mp ha
        obtain ⟨e, he, rfl⟩ := List.mem_map.mp hb
        obtain ⟨sh', hsh', hes⟩ := List.mem_flatMap.mp he
        have hk : e.1 ∈ (sheetEntries wb.sst sh').map Prod.fst := List.mem_map_of_mem (f := Prod.fst) hes
        rw [sheetEntries_keys] at hk
        obtain ⟨c', _, hc'⟩ := List.mem_map.mp hk
        rw [← hc'] at hab
        have := (addr_injective hab).1
        apply hs.1
        rw [this]
        exact List.mem_map_of_mem (f := (·.name)) (List.mem_filter.mp hsh').1
    · exact ih'


/-! ### the guard of `names_bound_spec_partial` -/

/-- Targets inside the domain of `names_bound_spec_partial`: the sheet name is non-empty, has no blank at
    either end, does not begin with an apostrophe, has no `:` (Excel forbids it) and no `,` (the model does
    not follow `resolve_ranges` through its `split(',')`), and the corners are real coordinates.
    `$`, `!` and apostrophes inside the name are fine (repairs D0302, D1102, D1101). -/
def GoodTarget (t : Target) : Prop :=
  t.sheet ≠ [] ∧ ':' ∉ t.sheet ∧ ',' ∉ t.sheet ∧ t.sheet.head? ≠ some '\'' ∧ strip t.sheet = t.sheet ∧
  1 ≤ t.c1.col ∧ 1 ≤ t.c1.row ∧ (∀ p, t.snd = some p → 1 ≤ p.2.1.col ∧ 1 ≤ p.2.1.row)

instance (t : Target) : Decidable (GoodTarget t) := by
  unfold GoodTarget
  have : Decidable (∀ p, t.snd = some p → 1 ≤ p.2.1.col ∧ 1 ≤ p.2.1.row) := by
    cases h : t.snd with
    | none => exact isTrue (by intro p hp; cases hp)
    | some q =>
      by_cases hq : 1 ≤ q.2.1.col ∧ 1 ≤ q.2.1.row
      · exact isTrue (by intro p hp; injection hp with hp; rw [← hp]; exact hq)
      · exact isFalse (fun hall => hq (hall q rfl))
  infer_instance

/-- The address `build_defined_names` computes is the statement's address of the target. -/
theorem normAddress_good (t : Target) (hg : GoodTarget t) :
    normAddress (Model.C11.Target.text t) = Spec.C11.Target.address t := by
  obtain ⟨hne, _, _, ha, hst, _⟩ := hg
  rw [normAddress_target t hne (fun _ => ⟨ha, hst⟩)]
  unfold restText Spec.C11.Target.address Spec.C11.addr
  rcases t.snd with _ | ⟨a, c2, b⟩
  · simp [bare_eq_coordText]
  · simp [bare_eq_coordText, List.append_assoc]

theorem targetText_ne_ref (t : Target) : Model.C11.Target.text t ≠ "#REF!".toList := by
  intro e
  have h2 : rsplit1 '!' (sheetPart t ++ '!' :: refsText t) = (sheetPart t, refsText t) :=
    rsplit1_of _ _ _ (refsText_no_bang t)
  rw [← target_text_eq', e] at h2
  have h3 : rsplit1 '!' "#REF!".toList = ("#REF".toList, []) := by decide
  rw [h3] at h2
  have h4 : refsText t = [] := (Prod.mk.inj h2).2.symm
  unfold refsText refText at h4
  have h5 := (List.append_eq_nil_iff.mp h4).1
  exact digits_ne_nil t.c1.row (List.append_eq_nil_iff.mp h5).2

/-! ### `link_cells_to_defined_names` does not raise when no area name is empty -/

theorem mem_dset {α} (d : Dict α) (k : Text) (v : α) (e : Text × α) (h : e ∈ dset d k v) :
    e ∈ d ∨ e = (k, v) := by
  induction d with
  | nil => simp [dset] at h; exact Or.inr h
  | cons x d ih =>
    obtain ⟨k0, v0⟩ := x
    unfold dset at h
    split at h
    · rcases List.mem_cons.mp h with h | h
      · exact Or.inr h
      · exact Or.inl (List.mem_cons_of_mem _ h)
    · rcases List.mem_cons.mp h with h | h
      · exact Or.inl (h ▸ List.mem_cons_self)
      · rcases ih h with h | h
        · exact Or.inl (List.mem_cons_of_mem _ h)
        · exact Or.inr h

/-- no area among the names of `m` is without rows. -/
def NoEmptyArea (m : M) : Prop := ∀ k r, (k, Defn.range r) ∈ m.names → r.cells ≠ []

theorem defineName_noEmptyArea (m : M) (n t : Text) (h : NoEmptyArea m)
    (ht : (normAddress t).contains ':' = true → (mkRange (normAddress t) n).cells ≠ []) :
    NoEmptyArea (defineName m n t) := by
  intro k r hk
  unfold defineName at hk
  simp only at hk
  split at hk
  · split at hk
    · exact h k r hk
    · rw [linkFormula_names] at hk
      rcases mem_dset _ _ _ _ hk with hk | hk
      · exact h k r hk
      · cases hk
  · rename_i hc
    rw [linkFormula_names] at hk
    rcases mem_dset _ _ _ _ hk with hk | hk
    · exact h k r hk
    · injection hk with _ h2; injection h2 with h2
      rw [h2]; exact ht (by simpa using hc)

theorem buildDefinedNames_noEmptyArea (defs : List (Text × Text)) (m : M) (h : NoEmptyArea m)
    (ht : ∀ d ∈ defs, (normAddress d.2).contains ':' = true → (mkRange (normAddress d.2) d.1).cells ≠ []) :
    NoEmptyArea (buildDefinedNames m defs) := by
  unfold buildDefinedNames
  induction defs generalizing m with
  | nil => exact h
  | cons d defs ih =>
    simp only [List.foldl_cons]
    exact ih _ (defineName_noEmptyArea m d.1 d.2 h (ht d List.mem_cons_self))
      (fun e he => ht e (List.mem_cons_of_mem _ he))

theorem emptyRangeCrash_false_of (m : M) (h : NoEmptyArea m) : emptyRangeCrash m = false := by
  unfold emptyRangeCrash
  cases hc : m.names.any _ with
  | false => rfl
  | true =>
    exfalso
    obtain ⟨⟨k, d⟩, hm, hd⟩ := List.any_eq_true.mp hc
    cases d with
    | cell a => simp at hd
    | range r => exact h k r hm (by simpa using hd)

end XlVerif.Lemmas.C11
