/-
  Helper lemmas for C11: `build_defined_names` name by name; where entries of the cell dict come from.
-/
import XlVerif.Lemmas.C11Refine
namespace XlVerif.Lemmas.C11
open XlVerif XlVerif.Model.C11
open XlVerif.Spec.C11 (Text Coord PyVal Stored FTok FForm SCell Sheet Target TargetForm DefName Workbook
  colName digits coordText refText renderToks findMaster sharedOK textOK CellSpec shownFormula formulaText valueOf)

theorem dget_dsetAll_some {α} (l : List (Text × α)) (d : Dict α) (k : Text) (v : α)
    (h : dget (dsetAll d l) k = some v) : (k, v) ∈ l ∨ dget d k = some v := by
  induction l generalizing d with
  | nil => exact Or.inr h
  | cons e l ih =>
    simp only [dsetAll, List.foldl_cons] at ih h
    rcases ih _ h with h1 | h1
    · exact Or.inl (List.mem_cons_of_mem _ h1)
    · rw [dget_dset] at h1
      by_cases he : e.1 = k
      · simp only [he, if_true] at h1
        injection h1 with h1
        left; rw [← h1, ← he]; exact List.mem_cons_self
      · simp only [he, if_false] at h1; exact Or.inr h1

/-- the value `build_defined_names` leaves under `name` when the loop body runs for `(name, target)`. -/
def boundTo (m : M) (name target : Text) : Option Defn :=
  let a := normAddress target
  if !a.contains ':' then (if dhas m.cells a then some (.cell a) else dget m.names name)
  else some (.range (mkRange a name))

theorem defineName_names_self (m : M) (n t : Text) : dget (defineName m n t).names n = boundTo m n t := by
  unfold defineName boundTo
  simp only
  split
  · split
    · rename_i h
      have h' : dhas m.cells (normAddress t) = false := by simpa using h
      simp [h']
    · rename_i h
      have h' : dhas m.cells (normAddress t) = true := by simpa using h
      simp [h', linkFormula_names, dget_dset]
  · simp [linkFormula_names, dget_dset]

theorem defineName_names_other (m : M) (n t k : Text) (h : n ≠ k) :
    dget (defineName m n t).names k = dget m.names k := by
  unfold defineName
  simp only
  split
  · split
    · rfl
    · simp [linkFormula_names, dget_dset, h]
  · simp [linkFormula_names, dget_dset, h]

theorem buildDefinedNames_names_other (defs : List (Text × Text)) (m : M) (k : Text)
    (h : k ∉ defs.map Prod.fst) : dget (buildDefinedNames m defs).names k = dget m.names k := by
  unfold buildDefinedNames
  induction defs generalizing m with
  | nil => rfl
  | cons d defs ih =>
    simp only [List.map_cons, List.mem_cons, not_or] at h
    simp only [List.foldl_cons]
    rw [ih _ h.2, defineName_names_other _ _ _ _ (Ne.symm h.1)]

theorem boundTo_congr (m m' : M) (n t : Text) (hc : m'.cells = m.cells) (hn : dget m'.names n = dget m.names n) :
    boundTo m' n t = boundTo m n t := by
  unfold boundTo; simp only [hc, hn]

theorem buildDefinedNames_names (defs : List (Text × Text)) (m : M) (n t : Text)
    (hn : (defs.map Prod.fst).Nodup) (hm : (n, t) ∈ defs) :
    dget (buildDefinedNames m defs).names n = boundTo m n t := by
  induction defs generalizing m with
  | nil => cases hm
  | cons d defs ih =>
    simp only [List.map_cons, List.nodup_cons] at hn
    have hstep : buildDefinedNames m (d :: defs) = buildDefinedNames (defineName m d.1 d.2) defs := rfl
    rw [hstep]
    rcases List.mem_cons.mp hm with h | h
    · subst h
      rw [buildDefinedNames_names_other _ _ _ hn.1, defineName_names_self]
    · have hne : d.1 ≠ n := by
        intro e; apply hn.1; rw [e]; exact List.mem_map_of_mem (f := Prod.fst) h
      rw [ih _ hn.2 h]
      exact boundTo_congr _ _ _ _ (defineName_cells _ _ _) (defineName_names_other _ _ _ _ hne)

theorem dkeys_buildDefinedNames (defs : List (Text × Text)) (m : M) (k : Text)
    (h : k ∈ dkeys (buildDefinedNames m defs).names) : k ∈ dkeys m.names ∨ k ∈ defs.map Prod.fst := by
  apply Classical.byContradiction
  intro hc
  simp only [not_or] at hc
  have := buildDefinedNames_names_other defs m k hc.2
  rw [(dget_none_iff _ _).mpr hc.1] at this
  exact (dget_none_iff _ _).mp this h

/-! ### where the entries come from -/

theorem mem_cellEntries {wb : Workbook} {ig : List Text} {e : Text × XLCell} (h : e ∈ cellEntries wb ig) :
    ∃ sh ∈ wb.sheets, sh.name ∉ ig ∧ e ∈ sheetEntries wb.sst sh := by
  unfold cellEntries at h
  obtain ⟨sh, hsh, he⟩ := List.mem_flatMap.mp h
  obtain ⟨h1, h2⟩ := List.mem_filter.mp hsh
  refine ⟨sh, h1, ?_, he⟩
  intro hin
  have : ig.contains sh.name = true := List.contains_iff_mem.mpr hin
  rw [this] at h2; exact absurd h2 (by decide)

theorem sheetEntries_address {sst : List Text} {sh : Sheet} {e : Text × XLCell} (h : e ∈ sheetEntries sst sh) :
    e.2.address = e.1 ∧ e.2.definedNames = [] := by
  unfold sheetEntries at h
  obtain ⟨pc, _, rfl⟩ := List.mem_map.mp h
  exact ⟨rfl, rfl⟩


/-! ### under `sharedOK` every stored cell has a formula to show -/

theorem sharedOK_shown (all : List SCell) :
    ∀ (rest pre : List SCell), all = pre ++ rest → sharedOK pre rest = true →
      ∀ c ∈ rest, (shownFormula all c).isSome = true := by
  intro rest
  induction rest with
  | nil => intro _ _ _ c hc; cases hc
  | cons c cs ih =>
    intro pre hall hsh x hx
    unfold sharedOK at hsh
    rw [Bool.and_eq_true] at hsh
    rcases List.mem_cons.mp hx with rfl | hx
    · cases hf : x.formula with
      | none => simp [shownFormula, hf]
      | some ff =>
        cases ff with
        | plain toks => simp [shownFormula, hf]
        | master si toks => simp [shownFormula, hf]
        | member si =>
          have h1 := hsh.1
          simp only [hf, Option.isSome_iff_exists] at h1
          obtain ⟨p, hp⟩ := h1
          have : findMaster si all = some p := by rw [hall, findMaster_append, hp]
          simp [shownFormula, hf, this]
    · exact ih (pre ++ [c]) (by rw [hall]; simp) hsh.2 x hx

/-- the statement's cell for a stored cell of a sheet that is not ignored. -/
theorem spec_cell_mem {wb : Workbook} {ig : List Text} {sh : Sheet} (hsh : sh ∈ wb.sheets)
    (hig : sh.name ∉ ig) (hok : sharedOK [] sh.cells = true) {c : SCell} (hc : c ∈ sh.cells) :
    ∃ f, shownFormula sh.cells c = some f ∧
      (⟨Spec.C11.addr sh.name c.coord, valueOf wb.sst c.stored, f⟩ : CellSpec) ∈ Spec.C11.cells wb ig := by
  have h1 := sharedOK_shown sh.cells sh.cells [] rfl hok c hc
  obtain ⟨f, hf⟩ := Option.isSome_iff_exists.mp h1
  refine ⟨f, hf, ?_⟩
  unfold Spec.C11.cells
  apply List.mem_flatMap.mpr
  refine ⟨sh, List.mem_filter.mpr ⟨hsh, ?_⟩, ?_⟩
  · simpa using hig
  · unfold Spec.C11.sheetCells
    apply List.mem_filterMap.mpr
    exact ⟨c, hc, by simp [hf]⟩


/-! ### concrete workbooks for the `example`s of `Props.C11` -/
namespace Examples
open XlVerif.Spec.C11

/-- two sheets (one needing quotes), a shared group with relative and `$` references, a cross-sheet area,
    a name for a cell and a name for an area covering empty cells. -/
def exWb : Workbook :=
  { sst := ["s".toList],
    sheets := [
      { name := "My Sheet".toList,
        cells := [⟨⟨1, 1⟩, none, .n (.int 3)⟩, ⟨⟨2, 1⟩, none, .s 0⟩,
                  ⟨⟨1, 2⟩, some (.master 0 [.cell false 1 false 1, .lit ['+'], .cell true 1 true 1]), .n (.int 6)⟩,
                  ⟨⟨2, 2⟩, some (.member 0), .empty⟩] },
      { name := "S2".toList,
        cells := [⟨⟨1, 1⟩, some (.plain [.lit "SUM".toList, .lit ['('], .pfx "'My Sheet'".toList,
                    .cell false 1 false 1, .lit [':'], .cell false 2 false 3, .lit [')']]), .str "x".toList⟩] }],
    names := [⟨"one".toList, false, .ref ⟨"My Sheet".toList, true, true, ⟨1, 1⟩, true, none⟩⟩,
              ⟨"rng".toList, false, .ref ⟨"My Sheet".toList, true, true, ⟨1, 1⟩, true, some (true, ⟨2, 3⟩, true)⟩⟩] }

/-- regression workbook for D1101 (fixed): a defined name whose sheet name contains an apostrophe. -/
def aposWb : Workbook :=
  { sst := [],
    sheets := [{ name := "It's".toList, cells := [⟨⟨1, 1⟩, none, .n (.int 8)⟩] }],
    names := [⟨"ap".toList, false, .ref ⟨"It's".toList, true, true, ⟨1, 1⟩, true, none⟩⟩] }

/-- regression workbook for D1102 (fixed): a sheet name containing `!`. -/
def bangWb : Workbook :=
  { sst := [], sheets := [{ name := "A!B".toList, cells := [⟨⟨1, 1⟩, none, .n (.int 8)⟩] }], names := [] }

end Examples

end XlVerif.Lemmas.C11
