/-
  Helper lemmas for C11: the cells the reader produces for a sheet are the cells the statement demands
  (`Spec.C11.sheetCells`) — induction over the cells in document order with the shared-formula table.
-/
import XlVerif.Lemmas.C11
namespace XlVerif.Lemmas.C11
open XlVerif XlVerif.Model.C11
open XlVerif.Spec.C11 (Text Coord PyVal Stored FTok FForm SCell Sheet Target TargetForm DefName Workbook
  colName digits coordText refText renderToks findMaster sharedOK textOK CellSpec shownFormula formulaText valueOf)

theorem parseCells_coordinate (sst : List Text) (T : Shared) (cells : List SCell) :
    (parseCells sst T cells).map (·.coordinate) = cells.map fun c => coordText c.coord := by
  induction cells generalizing T with
  | nil => rfl
  | cons c cs ih =>
    unfold parseCells
    split <;> simp [ih]

theorem parseCells_value (sst : List Text) (T : Shared) (cells : List SCell) :
    (parseCells sst T cells).map (·.value) = cells.map fun c => castValue sst c.stored := by
  induction cells generalizing T with
  | nil => rfl
  | cons c cs ih =>
    unfold parseCells
    split <;> simp [ih]

/-- the translator's token map is the statement's displacement. -/
theorem shiftTok_eq (dc dr : Int) (t : FTok) : shiftTok dc dr t = FTok.shift dc dr t := by
  cases t <;> rfl

theorem castValue_eq (sst : List Text) (st : Stored) (h1 : st ≠ .str []) (h2 : st ≠ .e []) :
    castValue sst st = valueOf sst st := by
  cases st with
  | n v => cases v <;> rfl
  | str t => by_cases h : t = [] <;> simp_all [castValue, valueOf]
  | e t => by_cases h : t = [] <;> simp_all [castValue, valueOf]
  | _ => rfl

/-! ### `findMaster` -/

theorem findMaster_append (si : Nat) (l1 l2 : List SCell) :
    findMaster si (l1 ++ l2) = match findMaster si l1 with
      | some x => some x
      | none => findMaster si l2 := by
  induction l1 with
  | nil => rfl
  | cons c l1 ih =>
    simp only [List.cons_append]
    cases hc : c.formula with
    | none => simp [findMaster, hc, ih]
    | some ff =>
      cases ff with
      | master sj toks => by_cases h : sj = si <;> simp [findMaster, hc, h, ih]
      | plain toks => simp [findMaster, hc, ih]
      | member sj => simp [findMaster, hc, ih]

theorem findMaster_mem {si : Nat} {l : List SCell} {co : Coord} {toks : List FTok}
    (h : findMaster si l = some (co, toks)) :
    ∃ c ∈ l, c.formula = some (.master si toks) ∧ c.coord = co := by
  induction l with
  | nil => cases h
  | cons c l ih =>
    unfold findMaster at h
    split at h
    · rename_i sj tk hf
      split at h
      · rename_i hs
        injection h with h; injection h with h1 h2
        exact ⟨c, List.mem_cons_self, by rw [hf, hs, h2], h1⟩
      · obtain ⟨c', hc, hh⟩ := ih h
        exact ⟨c', List.mem_cons_of_mem _ hc, hh⟩
    · obtain ⟨c', hc, hh⟩ := ih h
      exact ⟨c', List.mem_cons_of_mem _ hc, hh⟩

theorem findMaster_single (si : Nat) (c : SCell) :
    findMaster si [c] = match c.formula with
      | some (.master sj toks) => if sj = si then some (c.coord, toks) else none
      | _ => none := by
  cases hc : c.formula with
  | none => simp [findMaster, hc]
  | some ff =>
    cases ff with
    | master sj toks => by_cases h : sj = si <;> simp [findMaster, hc, h]
    | plain toks => simp [findMaster, hc]
    | member sj => simp [findMaster, hc]

/-! ### the refinement -/

/-- what the statement sees of a cell the reader produced on sheet `name`. -/
def specOfP (name : Text) (pc : PCell) : CellSpec := ⟨name ++ '!' :: pc.coordinate, pc.value, pc.formula⟩

/-- the invariant: the table holds exactly the masters seen so far. -/
def TableInv (T : Shared) (pre : List SCell) : Prop :=
  ∀ si, sharedGet T si = (findMaster si pre).map fun p => (renderToks p.2, p.1)

theorem tableInv_nil : TableInv [] [] := fun _ => rfl

theorem tableInv_snoc_of_not_master {T : Shared} {pre : List SCell} {c : SCell}
    (h : TableInv T pre) (hc : ∀ sj toks, c.formula ≠ some (.master sj toks)) :
    TableInv T (pre ++ [c]) := by
  intro si
  have h1 : findMaster si [c] = none := by
    rw [findMaster_single]
    split
    · rename_i sj toks hf'; exact absurd hf' (hc sj toks)
    · rfl
  rw [findMaster_append, h si, h1]
  cases findMaster si pre <;> rfl

theorem sheet_refine_aux (sst : List Text) (name : Text) (all : List SCell)
    (hscan : scanOK all = true) :
    ∀ (rest pre : List SCell) (T : Shared), all = pre ++ rest → TableInv T pre →
      sharedOK pre rest = true → textOK rest = true →
      (parseCells sst T rest).map (specOfP name) =
        rest.filterMap fun c => (shownFormula all c).map fun f =>
          ({ address := Spec.C11.addr name c.coord, value := valueOf sst c.stored, formula := f } : CellSpec) := by
  intro rest
  induction rest with
  | nil => intros; rfl
  | cons c cs ih =>
    intro pre T hall hinv hsh htx
    have hall' : all = (pre ++ [c]) ++ cs := by rw [hall]; simp
    simp only [textOK, List.all_cons, Bool.and_eq_true, bne_iff_ne, ne_eq] at htx
    obtain ⟨⟨ht1, ht2⟩, htx'⟩ := htx
    have hval : castValue sst c.stored = valueOf sst c.stored := castValue_eq sst _ ht1 ht2
    unfold sharedOK at hsh
    rw [Bool.and_eq_true] at hsh
    obtain ⟨hshc, hsh'⟩ := hsh
    unfold parseCells
    simp only [List.filterMap_cons]
    cases hf : c.formula with
    | none =>
      have hinv' : TableInv T (pre ++ [c]) :=
        tableInv_snoc_of_not_master hinv (by intro sj toks; rw [hf]; exact fun h => nomatch h)
      have hsf : shownFormula all c = some none := by simp [shownFormula, hf]
      simp only [hsf, Option.map_some, List.map_cons]
      rw [ih (pre ++ [c]) T hall' hinv' hsh' (by simpa [textOK] using htx')]
      simp [specOfP, Spec.C11.addr, hval]
    | some ff =>
      cases ff with
      | plain toks =>
        have hinv' : TableInv T (pre ++ [c]) :=
          tableInv_snoc_of_not_master hinv (by intro sj tk; rw [hf]; exact fun h => nomatch h)
        have hsf : shownFormula all c = some (some (formulaText toks)) := by simp [shownFormula, hf]
        simp only [hsf, Option.map_some, List.map_cons]
        rw [ih (pre ++ [c]) T hall' hinv' hsh' (by simpa [textOK] using htx')]
        simp [specOfP, Spec.C11.addr, hval, formulaText]
      | master si toks =>
        simp only [hf, Bool.and_eq_true, Option.isNone_iff_eq_none, bne_iff_ne, ne_eq] at hshc
        obtain ⟨hnone, hne⟩ := hshc
        have hget : sharedGet T si = none := by rw [hinv si, hnone]; rfl
        have hps : parseShared T si (renderToks toks) c.coord
            = ('=' :: renderToks toks, (si, renderToks toks, c.coord) :: T) := by
          simp [parseShared, hget, hne]
        have hinv' : TableInv ((si, renderToks toks, c.coord) :: T) (pre ++ [c]) := by
          intro sj
          rw [findMaster_append, findMaster_single, hf]
          by_cases hs : si = sj
          · subst hs; simp [sharedGet, hnone]
          · simp only [sharedGet, hs, if_false, hinv sj]
            cases findMaster sj pre <;> simp
        have hsf : shownFormula all c = some (some (formulaText toks)) := by simp [shownFormula, hf]
        simp only [hsf, Option.map_some, List.map_cons, hps]
        rw [ih (pre ++ [c]) _ hall' hinv' hsh' (by simpa [textOK] using htx')]
        simp [specOfP, Spec.C11.addr, hval, formulaText]
      | member si =>
        simp only [hf, Option.isSome_iff_exists] at hshc
        obtain ⟨⟨mc, mtoks⟩, hfm⟩ := hshc
        have hget : sharedGet T si = some (renderToks mtoks, mc) := by rw [hinv si, hfm]; rfl
        have hps : parseShared T si [] c.coord = (translate (renderToks mtoks) mc c.coord, T) := by
          simp [parseShared, hget]
        have hinv' : TableInv T (pre ++ [c]) :=
          tableInv_snoc_of_not_master hinv (by intro sj tk; rw [hf]; exact fun h => nomatch h)
        have hall_fm : findMaster si all = some (mc, mtoks) := by
          rw [hall, findMaster_append, hfm]
        obtain ⟨cm, hcm, hcmf, _⟩ := findMaster_mem hfm
        have hcm_all : cm ∈ all := by rw [hall]; exact List.mem_append_left _ hcm
        have hsc : scan (renderToks mtoks) = mtoks := by
          have := (List.all_eq_true.mp hscan) cm hcm_all
          simp only [hcmf, beq_iff_eq] at this
          exact this
        have hsf : shownFormula all c = some (some (formulaText
            (mtoks.map (FTok.shift ((c.coord.col : Int) - mc.col) ((c.coord.row : Int) - mc.row))))) := by
          simp [shownFormula, hf, hall_fm]
        simp only [hsf, Option.map_some, List.map_cons, hps]
        rw [ih (pre ++ [c]) T hall' hinv' hsh' (by simpa [textOK] using htx')]
        have hmap : (mtoks.map (shiftTok ((c.coord.col : Int) - mc.col) ((c.coord.row : Int) - mc.row)))
            = mtoks.map (FTok.shift ((c.coord.col : Int) - mc.col) ((c.coord.row : Int) - mc.row)) :=
          List.map_congr_left fun t _ => shiftTok_eq _ _ t
        simp [specOfP, Spec.C11.addr, hval, formulaText, translate, hsc, hmap]


/-- what the statement sees of a cell of the model. -/
def specOfE (e : Text × XLCell) : CellSpec := ⟨e.1, e.2.value, e.2.formula.map (·.formula)⟩

/-- the hypotheses under which the abstract workbook is a SpreadsheetML file inside the statement. -/
def SheetWF (sh : Sheet) : Prop := scanOK sh.cells = true ∧ sharedOK [] sh.cells = true ∧ textOK sh.cells = true

instance (sh : Sheet) : Decidable (SheetWF sh) := by unfold SheetWF; infer_instance

theorem sheet_refine (sst : List Text) (sh : Sheet) (h : SheetWF sh) :
    (sheetEntries sst sh).map specOfE = Spec.C11.sheetCells sst sh := by
  have := sheet_refine_aux sst sh.name sh.cells h.1 sh.cells [] [] rfl tableInv_nil h.2.1 h.2.2
  unfold Spec.C11.sheetCells
  rw [← this]
  unfold sheetEntries
  rw [List.map_map]
  apply List.map_congr_left
  intro pc _
  simp only [Function.comp, specOfE, specOfP, Option.map_map]
  congr 1
  cases pc.formula <;> rfl

theorem cells_refine (wb : Workbook) (ig : List Text) (h : ∀ sh ∈ wb.sheets, SheetWF sh) :
    (cellEntries wb ig).map specOfE = Spec.C11.cells wb ig := by
  unfold cellEntries Spec.C11.cells
  generalize hl : (wb.sheets.filter fun sh => !ig.contains sh.name) = l
  have hsub : ∀ sh ∈ l, SheetWF sh := by
    intro sh hm; rw [← hl] at hm; exact h sh (List.mem_filter.mp hm).1
  clear hl
  induction l with
  | nil => rfl
  | cons sh l ih =>
    simp only [List.flatMap_cons, List.map_append]
    rw [sheet_refine _ _ (hsub sh List.mem_cons_self), ih fun s hs => hsub s (List.mem_cons_of_mem _ hs)]

end XlVerif.Lemmas.C11
