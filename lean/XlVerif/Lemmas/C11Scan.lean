/-
  Helper lemmas for C11: the reference scanner reads a rendered token list back (`scan ∘ renderToks = id`)
  whenever the tokens are well separated — a syntactic sufficient condition for the hypothesis `scanOK`.
-/
import XlVerif.Lemmas.C11Text
namespace XlVerif.Lemmas.C11
open XlVerif XlVerif.Model.C11
open XlVerif.Spec.C11 (Text FTok refText renderToks)

/-- what may follow a word (a name, a number, a reference) without being glued to it. -/
def afterWord (R : Text) : Prop := ∀ c, R.head? = some c → isWordChar c = false

/-- A token that the scanner reads back, given the rendering `R` of what follows it. -/
inductive TokOK : FTok → Text → Prop
  /-- a text literal without an inner quote (`"a""b"` is two such tokens) -/
  | str (body R : Text) (h : '"' ∉ body) : TokOK (.lit ('"' :: (body ++ ['"']))) R
  /-- a single operator / bracket / separator character -/
  | sym (c : Char) (R : Text) (h1 : isWordChar c = false) (h2 : c ≠ '"') (h3 : c ≠ '\'') : TokOK (.lit [c]) R
  /-- a function name: a word directly followed by `(` -/
  | func (c : Char) (w R : Text) (h1 : ∀ x ∈ c :: w, isWordChar x = true) (h2 : R.head? = some '(') :
      TokOK (.lit (c :: w)) R
  /-- a name or a number: a word that is not of the shape of a reference -/
  | word (c : Char) (w R : Text) (h1 : ∀ x ∈ c :: w, isWordChar x = true) (h2 : afterWord R)
      (h3 : R.head? ≠ some '!') (h4 : parseRef (c :: w) = none) : TokOK (.lit (c :: w)) R
  /-- a bare sheet prefix `Sheet1!` -/
  | pfxWord (c : Char) (w R : Text) (h1 : ∀ x ∈ c :: w, isWordChar x = true) : TokOK (.pfx (c :: w)) R
  /-- a quoted sheet prefix `'My Sheet'!` (apostrophes inside doubled) -/
  | pfxQuoted (rest body R : Text) (h : quotedBody rest = some body) : TokOK (.pfx ('\'' :: rest)) R
  /-- a cell reference whose text the reference pattern reads back -/
  | cell (ac : Bool) (col : Nat) (ar : Bool) (row : Nat) (c : Char) (w R : Text)
      (h0 : refText ac col ar row = c :: w) (h1 : ∀ x ∈ c :: w, isWordChar x = true)
      (h2 : afterWord R) (h3 : R.head? ≠ some '!') (h4 : R.head? ≠ some '(')
      (h5 : parseRef (c :: w) = some (.cell ac col ar row)) : TokOK (.cell ac col ar row) R

inductive ToksOK : List FTok → Prop
  | nil : ToksOK []
  | cons (t : FTok) (ts : List FTok) (h : TokOK t (renderToks ts)) (hs : ToksOK ts) : ToksOK (t :: ts)

theorem renderToks_cons (t : FTok) (ts : List FTok) : renderToks (t :: ts) = t.render ++ renderToks ts := by
  simp [renderToks]

theorem wordChar_ne {c : Char} (h : isWordChar c = true) : c ≠ '"' ∧ c ≠ '\'' ∧ c ≠ '!' ∧ c ≠ '(' := by
  refine ⟨?_, ?_, ?_, ?_⟩ <;> (rintro rfl; revert h; decide)

/-- a word followed by `R`: the scanner's `takeWhile` / `dropWhile` cut exactly at the seam. -/
theorem word_cut (w R : Text) (h1 : ∀ x ∈ w, isWordChar x = true) (h2 : afterWord R) :
    (w ++ R).takeWhile isWordChar = w ∧ (w ++ R).dropWhile isWordChar = R := by
  cases R with
  | nil => simp only [List.append_nil]; exact ⟨takeWhile_all _ _ h1, dropWhile_all _ _ h1⟩
  | cons x R' =>
    have hx : isWordChar x = false := h2 x rfl
    exact ⟨takeWhile_append_stop _ _ _ _ h1 hx, dropWhile_append_stop _ _ _ _ h1 hx⟩

theorem afterWord_of_head {R : Text} {c : Char} (h : R.head? = some c) (hc : isWordChar c = false) :
    afterWord R := by
  intro x hx; rw [h] at hx; injection hx with hx; rw [← hx]; exact hc

theorem spanStr_of (body R : Text) (h : '"' ∉ body) : spanStr (body ++ '"' :: R) = (body ++ ['"'], R) := by
  have hp : ∀ a ∈ body, (decide (a ≠ '"')) = true := by
    intro a ha; simp only [ne_eq, decide_eq_true_eq]; rintro rfl; exact h ha
  unfold spanStr
  rw [dropWhile_append_stop _ _ _ _ hp (by simp), takeWhile_append_stop _ _ _ _ hp (by simp)]

theorem spanQuote_of (rest : Text) : ∀ body, quotedBody rest = some body →
    ∀ X : Text, X.head? ≠ some '\'' → spanQuote (rest ++ X) = (rest, X) := by
  induction rest using quotedBody.induct with
  | case1 => intro body h; simp [quotedBody] at h
  | case2 => -- c = '\'' , s = []
    intro body _ X hX
    cases X with
    | nil => simp [spanQuote]
    | cons x X' =>
      have : x ≠ '\'' := by intro e; apply hX; simp [e]
      simp [spanQuote, this]
  | case3 s' ih => -- '\'' :: '\'' :: s'
    intro body h X hX
    simp only [quotedBody, if_true] at h
    cases hq : quotedBody s' with
    | none => simp [hq] at h
    | some b =>
      have := ih b hq X hX
      simp only [List.cons_append]
      unfold spanQuote
      simp [this]
  | case4 d s' hd => -- '\'' :: d :: s', d ≠ '\''
    intro body h; simp [quotedBody, hd] at h
  | case5 c s hc ih =>
    intro body h X hX
    unfold quotedBody at h
    simp only [hc, if_false] at h
    cases hq : quotedBody s with
    | none => simp [hq] at h
    | some b =>
      have := ih b hq X hX
      simp only [List.cons_append]
      unfold spanQuote
      simp [hc, this]

theorem scanF_cons (f : Nat) (c : Char) (s : Text) :
    scanF (f + 1) (c :: s) =
      if c = '"' then .lit ('"' :: (spanStr s).1) :: scanF f (spanStr s).2
      else if c = '\'' then
        if (spanQuote s).2.head? = some '!' then .pfx ('\'' :: (spanQuote s).1) :: scanF f ((spanQuote s).2.drop 1)
        else .lit ('\'' :: (spanQuote s).1) :: scanF f (spanQuote s).2
      else if isWordChar c then
        if (s.dropWhile isWordChar).head? = some '!' then
          .pfx (c :: s.takeWhile isWordChar) :: scanF f ((s.dropWhile isWordChar).drop 1)
        else if (s.dropWhile isWordChar).head? = some '(' then
          .lit (c :: s.takeWhile isWordChar) :: scanF f (s.dropWhile isWordChar)
        else (parseRef (c :: s.takeWhile isWordChar)).getD (.lit (c :: s.takeWhile isWordChar)) ::
          scanF f (s.dropWhile isWordChar)
      else .lit [c] :: scanF f s := by
  rw [scanF]

/-- one step of the scanner on `render t ++ R`. -/
theorem scanF_step (t : FTok) (R : Text) (h : TokOK t R) (f : Nat) (hf : (t.render ++ R).length ≤ f) :
    ∃ f', R.length ≤ f' ∧ scanF f (t.render ++ R) = t :: scanF f' R := by
  cases h with
  | str body _ hb =>
    cases f with
    | zero => simp [FTok.render] at hf
    | succ f =>
      refine ⟨f, by simp [FTok.render] at hf; omega, ?_⟩
      simp only [FTok.render, List.cons_append, List.append_assoc]
      rw [scanF_cons]
      simp [spanStr_of body R hb]
  | sym c _ h1 h2 h3 =>
    cases f with
    | zero => simp [FTok.render] at hf
    | succ f =>
      refine ⟨f, by simp [FTok.render] at hf; omega, ?_⟩
      simp only [FTok.render, List.cons_append, List.nil_append]
      rw [scanF_cons]
      simp [h1, h2, h3]
  | func c w _ h1 h2 =>
    cases f with
    | zero => simp [FTok.render] at hf
    | succ f =>
      refine ⟨f, by simp [FTok.render] at hf; omega, ?_⟩
      have hc := wordChar_ne (h1 c List.mem_cons_self)
      have hcw : isWordChar c = true := h1 c List.mem_cons_self
      have hcut := word_cut w R (fun x hx => h1 x (List.mem_cons_of_mem _ hx))
        (afterWord_of_head h2 (by decide))
      simp only [FTok.render, List.cons_append]
      rw [scanF_cons]
      simp [hc.1, hc.2.1, hcw, hcut.1, hcut.2, h2]
  | word c w _ h1 h2 h3 h4 =>
    cases f with
    | zero => simp [FTok.render] at hf
    | succ f =>
      refine ⟨f, by simp [FTok.render] at hf; omega, ?_⟩
      have hc := wordChar_ne (h1 c List.mem_cons_self)
      have hcw : isWordChar c = true := h1 c List.mem_cons_self
      have hcut := word_cut w R (fun x hx => h1 x (List.mem_cons_of_mem _ hx)) h2
      simp only [FTok.render, List.cons_append]
      rw [scanF_cons]
      by_cases hpar : R.head? = some '('
      · simp [hc.1, hc.2.1, hcw, hcut.1, hcut.2, hpar]
      · simp [hc.1, hc.2.1, hcw, hcut.1, hcut.2, h3, hpar, h4]
  | pfxWord c w _ h1 =>
    cases f with
    | zero => simp [FTok.render] at hf
    | succ f =>
      refine ⟨f, by simp [FTok.render] at hf; omega, ?_⟩
      have hc := wordChar_ne (h1 c List.mem_cons_self)
      have hcw : isWordChar c = true := h1 c List.mem_cons_self
      have hcut := word_cut w ('!' :: R) (fun x hx => h1 x (List.mem_cons_of_mem _ hx))
        (afterWord_of_head rfl (by decide))
      simp only [FTok.render, List.cons_append, List.append_assoc]
      rw [scanF_cons]
      simp [hc.1, hc.2.1, hcw, hcut.1, hcut.2]
  | pfxQuoted rest body _ hq =>
    cases f with
    | zero => simp [FTok.render] at hf
    | succ f =>
      refine ⟨f, by simp [FTok.render] at hf; omega, ?_⟩
      have hsq := spanQuote_of rest body hq ('!' :: R) (by simp)
      simp only [FTok.render, List.cons_append, List.append_assoc]
      rw [scanF_cons]
      simp [hsq]
  | cell ac col ar row c w _ h0 h1 h2 h3 h4 h5 =>
    cases f with
    | zero => simp [FTok.render, h0] at hf
    | succ f =>
      refine ⟨f, by simp [FTok.render, h0] at hf; omega, ?_⟩
      have hc := wordChar_ne (h1 c List.mem_cons_self)
      have hcw : isWordChar c = true := h1 c List.mem_cons_self
      have hcut := word_cut w R (fun x hx => h1 x (List.mem_cons_of_mem _ hx)) h2
      simp only [FTok.render, h0, List.cons_append]
      rw [scanF_cons]
      simp [hc.1, hc.2.1, hcw, hcut.1, hcut.2, h3, h4, h5]

theorem scanF_render (toks : List FTok) (h : ToksOK toks) :
    ∀ f, (renderToks toks).length ≤ f → scanF f (renderToks toks) = toks := by
  induction h with
  | nil =>
    intro f _
    cases f <;> simp [renderToks, scanF]
  | cons t ts ht _ ih =>
    intro f hf
    rw [renderToks_cons] at hf ⊢
    obtain ⟨f', hf', hstep⟩ := scanF_step t _ ht f hf
    rw [hstep, ih f' hf']

/-- well-separated tokens are read back by the scanner. -/
theorem scan_render (toks : List FTok) (h : ToksOK toks) : scan (renderToks toks) = toks :=
  scanF_render toks h _ (Nat.le_refl _)

end XlVerif.Lemmas.C11
