/-
  Helper lemmas for C11: A1 notation read back (`colIndex ∘ colName`, `natOf ∘ digits`), character classes,
  and the text operations of `build_defined_names` / `resolve_sheet` / `resolve_ranges` on the text of a
  defined name's target.
-/
import XlVerif.Model.C11
namespace XlVerif.Lemmas.C11
open XlVerif XlVerif.Model.C11
open XlVerif.Spec.C11 (Text Coord Target colName colNameF digits digitsF letterOf digitOf coordText refText)

/-! ### characters -/

theorem letterOf_toNat : ∀ k, k < 26 → (letterOf k).toNat = 65 + k := by decide
theorem digitOf_toNat : ∀ k, k < 10 → (digitOf k).toNat = 48 + k := by decide

theorem isUpper_letterOf (k : Nat) (h : k < 26) : isUpper (letterOf k) = true := by
  simp only [isUpper, letterOf_toNat k h]; simp; omega
theorem isDigit_digitOf (k : Nat) (h : k < 10) : isDigit (digitOf k) = true := by
  simp only [isDigit, digitOf_toNat k h]; simp; omega

theorem colNameF_upper (f n : Nat) : ∀ c ∈ colNameF f n, isUpper c = true := by
  induction f generalizing n with
  | zero => intro c hc; simp [colNameF] at hc
  | succ f ih =>
    cases n with
    | zero => intro c hc; simp [colNameF] at hc
    | succ n =>
      intro c hc
      simp only [colNameF, List.mem_append, List.mem_singleton] at hc
      rcases hc with hc | hc
      · exact ih _ c hc
      · rw [hc]; exact isUpper_letterOf _ (Nat.mod_lt _ (by decide))

theorem colName_upper (n : Nat) : ∀ c ∈ colName n, isUpper c = true := colNameF_upper n n

theorem digitsF_digit (f n : Nat) : ∀ c ∈ digitsF f n, isDigit c = true := by
  induction f generalizing n with
  | zero =>
    intro c hc
    simp only [digitsF, List.mem_singleton] at hc
    rw [hc]; exact isDigit_digitOf _ (Nat.mod_lt _ (by decide))
  | succ f ih =>
    intro c hc
    unfold digitsF at hc
    split at hc
    · rename_i h
      simp only [List.mem_singleton] at hc
      rw [hc]; exact isDigit_digitOf _ h
    · simp only [List.mem_append, List.mem_singleton] at hc
      rcases hc with hc | hc
      · exact ih _ c hc
      · rw [hc]; exact isDigit_digitOf _ (Nat.mod_lt _ (by decide))

theorem digits_digit (n : Nat) : ∀ c ∈ digits n, isDigit c = true := digitsF_digit n n

theorem digitsF_ne_nil (f n : Nat) : digitsF f n ≠ [] := by
  cases f with
  | zero => simp [digitsF]
  | succ f => unfold digitsF; split <;> simp

theorem digits_ne_nil (n : Nat) : digits n ≠ [] := digitsF_ne_nil n n

/-- an upper-case letter or a digit is none of the separators. -/
theorem upper_ne {c : Char} (h : isUpper c = true) :
    c ≠ '$' ∧ c ≠ '!' ∧ c ≠ ':' ∧ c ≠ '\'' ∧ isDigit c = false := by
  simp only [isUpper, Bool.and_eq_true, decide_eq_true_eq] at h
  refine ⟨?_, ?_, ?_, ?_, ?_⟩
  · rintro rfl; revert h; decide
  · rintro rfl; revert h; decide
  · rintro rfl; revert h; decide
  · rintro rfl; revert h; decide
  · simp only [isDigit, Bool.and_eq_false_iff, decide_eq_false_iff_not]; omega

theorem digit_ne {c : Char} (h : isDigit c = true) :
    c ≠ '$' ∧ c ≠ '!' ∧ c ≠ ':' ∧ c ≠ '\'' ∧ isUpper c = false := by
  simp only [isDigit, Bool.and_eq_true, decide_eq_true_eq] at h
  refine ⟨?_, ?_, ?_, ?_, ?_⟩
  · rintro rfl; revert h; decide
  · rintro rfl; revert h; decide
  · rintro rfl; revert h; decide
  · rintro rfl; revert h; decide
  · simp only [isUpper, Bool.and_eq_false_iff, decide_eq_false_iff_not]; omega

/-! ### reading A1 notation back -/

theorem colIndex_append_single (s : Text) (c : Char) : colIndex (s ++ [c]) = colIndex s * 26 + (c.toNat - 64) := by
  simp [colIndex, List.foldl_append]

theorem colIndex_colNameF (f n : Nat) (h : n ≤ f) : colIndex (colNameF f n) = n := by
  induction f generalizing n with
  | zero => have : n = 0 := by omega
            subst this; rfl
  | succ f ih =>
    cases n with
    | zero => rfl
    | succ n =>
      simp only [colNameF]
      rw [colIndex_append_single, ih (n / 26) (by have := Nat.div_le_self n 26; omega),
        letterOf_toNat _ (Nat.mod_lt _ (by decide))]
      have := Nat.div_add_mod n 26
      omega

/-- `column_index_from_string(get_column_letter(n)) = n`. -/
theorem colIndex_colName (n : Nat) : colIndex (colName n) = n := colIndex_colNameF n n (Nat.le_refl _)

theorem natOf_append_single (s : Text) (c : Char) : natOf (s ++ [c]) = natOf s * 10 + (c.toNat - 48) := by
  simp [natOf, List.foldl_append]

theorem natOf_single (c : Char) : natOf [c] = c.toNat - 48 := by simp [natOf]

theorem natOf_digitsF (f n : Nat) (h : n ≤ f) : natOf (digitsF f n) = n := by
  induction f generalizing n with
  | zero =>
    have : n = 0 := by omega
    subst this; rfl
  | succ f ih =>
    unfold digitsF
    split
    · rename_i h10
      rw [natOf_single, digitOf_toNat _ h10]; omega
    · rename_i h10
      rw [natOf_append_single, ih (n / 10) (by omega), digitOf_toNat _ (Nat.mod_lt _ (by decide))]
      have := Nat.div_add_mod n 10
      omega

/-- `int(str(n)) = n`. -/
theorem natOf_digits (n : Nat) : natOf (digits n) = n := natOf_digitsF n n (Nat.le_refl _)

/-! ### lists cut at a separator -/

theorem takeWhile_append_stop {α} (p : α → Bool) (l1 : List α) (x : α) (l2 : List α)
    (h1 : ∀ a ∈ l1, p a = true) (hx : p x = false) : (l1 ++ x :: l2).takeWhile p = l1 := by
  induction l1 with
  | nil => simp [hx]
  | cons a l1 ih =>
    simp only [List.cons_append, List.takeWhile, h1 a List.mem_cons_self]
    rw [ih fun b hb => h1 b (List.mem_cons_of_mem _ hb)]

theorem dropWhile_append_stop {α} (p : α → Bool) (l1 : List α) (x : α) (l2 : List α)
    (h1 : ∀ a ∈ l1, p a = true) (hx : p x = false) : (l1 ++ x :: l2).dropWhile p = x :: l2 := by
  induction l1 with
  | nil => simp [hx]
  | cons a l1 ih =>
    simp only [List.cons_append, List.dropWhile, h1 a List.mem_cons_self]
    exact ih fun b hb => h1 b (List.mem_cons_of_mem _ hb)

theorem takeWhile_all {α} (p : α → Bool) (l : List α) (h : ∀ a ∈ l, p a = true) : l.takeWhile p = l := by
  induction l with
  | nil => rfl
  | cons a l ih =>
    simp only [List.takeWhile, h a List.mem_cons_self]
    rw [ih fun b hb => h b (List.mem_cons_of_mem _ hb)]

theorem dropWhile_all {α} (p : α → Bool) (l : List α) (h : ∀ a ∈ l, p a = true) : l.dropWhile p = [] := by
  induction l with
  | nil => rfl
  | cons a l ih =>
    simp only [List.dropWhile, h a List.mem_cons_self]
    exact ih fun b hb => h b (List.mem_cons_of_mem _ hb)

theorem split1_of (c : Char) (l1 l2 : Text) (h : c ∉ l1) : split1 c (l1 ++ c :: l2) = (l1, some l2) := by
  have hp : ∀ a ∈ l1, (decide (a ≠ c)) = true := by
    intro a ha; simp only [ne_eq, decide_eq_true_eq]; rintro rfl; exact h ha
  unfold split1
  rw [dropWhile_append_stop _ _ _ _ hp (by simp), takeWhile_append_stop _ _ _ _ hp (by simp)]

theorem split1_none (c : Char) (l : Text) (h : c ∉ l) : split1 c l = (l, none) := by
  have hp : ∀ a ∈ l, (decide (a ≠ c)) = true := by
    intro a ha; simp only [ne_eq, decide_eq_true_eq]; rintro rfl; exact h ha
  unfold split1
  rw [dropWhile_all _ _ hp]

theorem rsplit1_of (c : Char) (l1 l2 : Text) (h : c ∉ l2) : rsplit1 c (l1 ++ c :: l2) = (l1, l2) := by
  have hp : ∀ a ∈ l2.reverse, (decide (a ≠ c)) = true := by
    intro a ha; simp only [ne_eq, decide_eq_true_eq]; rintro rfl; exact h (List.mem_reverse.mp ha)
  unfold rsplit1
  have hr : (l1 ++ c :: l2).reverse = l2.reverse ++ c :: l1.reverse := by simp
  simp only [hr, takeWhile_append_stop _ _ _ _ hp (by simp : decide (c ≠ c) = false), List.reverse_reverse]
  have : (l1 ++ c :: l2).length - l2.length - 1 = l1.length := by simp; omega
  rw [this, List.take_left']
  rfl


/-! ### the text of a defined name's target -/

/-- `A1` without `$`. -/
def bare (c : Coord) : Text := colName c.col ++ digits c.row

theorem bare_eq_coordText (c : Coord) : bare c = coordText c := rfl

theorem bare_chars (c : Coord) : ∀ x ∈ bare c, x ≠ '$' ∧ x ≠ '!' ∧ x ≠ ':' ∧ x ≠ '\'' := by
  intro x hx
  simp only [bare, List.mem_append] at hx
  rcases hx with hx | hx
  · have := upper_ne (colName_upper _ x hx); exact ⟨this.1, this.2.1, this.2.2.1, this.2.2.2.1⟩
  · have := digit_ne (digits_digit _ x hx); exact ⟨this.1, this.2.1, this.2.2.1, this.2.2.2.1⟩

theorem filter_dollar_self (l : Text) (h : '$' ∉ l) : l.filter (· ≠ '$') = l := by
  apply List.filter_eq_self.mpr
  intro a ha; simp only [ne_eq, decide_eq_true_eq]; rintro rfl; exact h ha

theorem filter_refText (ac : Bool) (c : Coord) (ar : Bool) :
    (refText ac c.col ar c.row).filter (· ≠ '$') = bare c := by
  have h1 : (colName c.col).filter (· ≠ '$') = colName c.col :=
    filter_dollar_self _ fun h => (upper_ne (colName_upper _ _ h)).1 rfl
  have h2 : (digits c.row).filter (· ≠ '$') = digits c.row :=
    filter_dollar_self _ fun h => (digit_ne (digits_digit _ _ h)).1 rfl
  unfold refText bare
  simp only [List.filter_append, h1, h2]
  cases ac <;> cases ar <;> simp

/-- the reference part of the target without its `$`. -/
def restText (t : Target) : Text :=
  bare t.c1 ++ (match t.snd with | none => [] | some (_, c2, _) => ':' :: bare c2)

theorem restText_no_bang (t : Target) : '!' ∉ restText t := by
  unfold restText
  intro h
  rcases List.mem_append.mp h with h | h
  · exact (bare_chars _ _ h).2.1 rfl
  · cases hs : t.snd with
    | none => simp [hs] at h
    | some p =>
      obtain ⟨a, c2, b⟩ := p
      simp only [hs, List.mem_cons] at h
      rcases h with h | h
      · revert h; decide
      · exact (bare_chars _ _ h).2.1 rfl

theorem mem_doubleApos {x : Char} (hx : x ≠ '\'') (s : Text) : x ∈ doubleApos s ↔ x ∈ s := by
  induction s with
  | nil => simp [doubleApos]
  | cons c s ih =>
    unfold doubleApos
    by_cases hc : c = '\''
    · subst hc; simp [ih, hx]
    · simp [hc, ih]

theorem doubleApos_eq_self (s : Text) (h : '\'' ∉ s) : doubleApos s = s := by
  induction s with
  | nil => rfl
  | cons c s ih =>
    simp only [List.mem_cons, not_or] at h
    unfold doubleApos
    rw [if_neg (Ne.symm h.1), ih h.2]

theorem doubleApos_eq_nil (s : Text) : doubleApos s = [] ↔ s = [] := by
  cases s with
  | nil => simp [doubleApos]
  | cons c s => unfold doubleApos; split <;> simp

/-- the sheet part as the file writes it. -/
def sheetPart (t : Target) : Text := if t.quoted then '\'' :: doubleApos t.sheet ++ ['\''] else t.sheet

theorem mem_sheetPart {x : Char} (hx : x ≠ '\'') (t : Target) : x ∈ sheetPart t ↔ x ∈ t.sheet := by
  unfold sheetPart
  split
  · simp [mem_doubleApos hx, hx]
  · rfl

theorem target_text_eq (t : Target) :
    Model.C11.Target.text t = sheetPart t ++ '!' :: (refText t.ac1 t.c1.col t.ar1 t.c1.row ++
      (match t.snd with | none => [] | some (ac2, c2, ar2) => ':' :: refText ac2 c2.col ar2 c2.row)) := by
  unfold Model.C11.Target.text sheetPart
  split <;> simp [List.append_assoc] <;> (rcases t.snd with _ | ⟨a, c, b⟩ <;> rfl)

/-- the reference part of the target as the file writes it (with its `$`). -/
def refsText (t : Target) : Text :=
  refText t.ac1 t.c1.col t.ar1 t.c1.row ++
    (match t.snd with | none => [] | some (ac2, c2, ar2) => ':' :: refText ac2 c2.col ar2 c2.row)

theorem target_text_eq' (t : Target) : Model.C11.Target.text t = sheetPart t ++ '!' :: refsText t :=
  target_text_eq t

theorem refText_no_bang (ac : Bool) (c : Coord) (ar : Bool) : '!' ∉ refText ac c.col ar c.row := by
  intro h
  unfold refText at h
  simp only [List.mem_append] at h
  rcases h with ((h | h) | h) | h
  · cases ac <;> simp at h
  · exact (upper_ne (colName_upper _ _ h)).2.1 rfl
  · cases ar <;> simp at h
  · exact (digit_ne (digits_digit _ _ h)).2.1 rfl

theorem refsText_no_bang (t : Target) : '!' ∉ refsText t := by
  unfold refsText
  intro h
  rcases List.mem_append.mp h with h | h
  · exact refText_no_bang _ _ _ h
  · rcases hs : t.snd with _ | ⟨a, c2, b⟩
    · simp [hs] at h
    · simp only [hs, List.mem_cons] at h
      rcases h with h | h
      · revert h; decide
      · exact refText_no_bang _ _ _ h

theorem filter_refsText (t : Target) : (refsText t).filter (· ≠ '$') = restText t := by
  have e2 : decide (':' ≠ '$') = true := by decide
  unfold refsText restText
  rw [List.filter_append, filter_refText]
  rcases t.snd with _ | ⟨a, c2, b⟩
  · rfl
  · show bare t.c1 ++ List.filter _ (':' :: refText a c2.col b c2.row) = _
    rw [List.filter_cons, if_pos e2, filter_refText]

/-! ### `resolve_sheet` -/

theorem strip_quoted (b : Text) : strip ('\'' :: (b ++ ['\''])) = '\'' :: (b ++ ['\'']) := by
  unfold strip
  have h1 : ('\'' :: (b ++ ['\''])).dropWhile isSpace = '\'' :: (b ++ ['\'']) := by
    simp [List.dropWhile, isSpace]
  have h2 : ('\'' :: (b ++ ['\''])).reverse = '\'' :: (b.reverse ++ ['\'']) := by simp
  have h3 : ('\'' :: (b.reverse ++ ['\''])).dropWhile isSpace = '\'' :: (b.reverse ++ ['\'']) := by
    simp [List.dropWhile, isSpace]
  rw [h1, h2, h3]; simp

theorem quotedBody_doubleApos (s : Text) : quotedBody (doubleApos s ++ ['\'']) = some (doubleApos s) := by
  induction s with
  | nil => simp [doubleApos, quotedBody]
  | cons c s ih =>
    unfold doubleApos
    by_cases hc : c = '\''
    · subst hc
      simp only [if_true, List.cons_append]
      unfold quotedBody
      simp [ih]
    · simp only [hc, if_false, List.cons_append]
      unfold quotedBody
      simp [hc, ih]

theorem unApos_doubleApos (s : Text) : unApos (doubleApos s) = s := by
  induction s with
  | nil => rfl
  | cons c s ih =>
    unfold doubleApos
    by_cases hc : c = '\''
    · subst hc; simp only [if_true]; unfold unApos; simp [ih]
    · simp only [hc, if_false]; unfold unApos; simp [hc, ih]

/-- a quoted title resolves to the sheet name itself: the quotes dropped, doubled apostrophes un-doubled
    (the repair of finding D1101). -/
theorem resolveSheet_quoted (s : Text) (h : s ≠ []) :
    resolveSheet ('\'' :: doubleApos s ++ ['\'']) = s := by
  unfold resolveSheet
  have : '\'' :: doubleApos s ++ ['\''] = '\'' :: (doubleApos s ++ ['\'']) := rfl
  rw [this, strip_quoted]
  simp only [if_true, quotedBody_doubleApos]
  have : doubleApos s ≠ [] := fun e => h ((doubleApos_eq_nil s).mp e)
  simp [this, unApos_doubleApos]

theorem resolveSheet_plain (s : Text) (h1 : s.head? ≠ some '\'') (h2 : strip s = s) : resolveSheet s = s := by
  unfold resolveSheet
  rw [h2]
  cases s with
  | nil => rfl
  | cons c rest =>
    have : c ≠ '\'' := by intro e; apply h1; simp [e]
    simp [this]

/-! ### `build_defined_names`: the address computed from the target text -/

theorem resolveSheet_sheetPart (t : Target) (hne : t.sheet ≠ [])
    (hplain : t.quoted = false → t.sheet.head? ≠ some '\'' ∧ strip t.sheet = t.sheet) :
    resolveSheet (sheetPart t) = t.sheet := by
  unfold sheetPart
  cases hq : t.quoted with
  | true => simp only [if_true]; exact resolveSheet_quoted _ hne
  | false =>
    simp only [Bool.false_eq_true, if_false]
    exact resolveSheet_plain _ (hplain hq).1 (hplain hq).2

/-- **The address `build_defined_names` computes** for the target `'Sheet'!$A$1[:$B$2]`: cut at the last
    `!`, the `$` dropped from the coordinates only, the sheet part unquoted — whatever characters the
    sheet name contains. -/
theorem normAddress_target (t : Target) (hne : t.sheet ≠ [])
    (hplain : t.quoted = false → t.sheet.head? ≠ some '\'' ∧ strip t.sheet = t.sheet) :
    normAddress (Model.C11.Target.text t) = t.sheet ++ '!' :: restText t := by
  unfold normAddress
  rw [target_text_eq']
  have hc : (sheetPart t ++ '!' :: refsText t).contains '!' = true := by
    apply List.contains_iff_mem.mpr; simp
  rw [if_pos hc, rsplit1_of _ _ _ (refsText_no_bang t)]
  simp only [resolveSheet_sheetPart t hne hplain, filter_refsText]

/-! ### `resolve_ranges`: the matrix of an area -/

theorem boundary_bare (c : Coord) : boundary (bare c) = (c.col, c.row) := by
  unfold boundary
  have hf : (bare c).filter (· ≠ '$') = bare c :=
    filter_dollar_self _ fun h => (bare_chars c _ h).1 rfl
  simp only [hf]
  unfold bare
  obtain ⟨d, ds, hd⟩ := List.exists_cons_of_ne_nil (digits_ne_nil c.row)
  have hdd : isUpper d = false := (digit_ne (digits_digit c.row d (by rw [hd]; exact List.mem_cons_self))).2.2.2.2
  rw [hd, takeWhile_append_stop _ _ _ _ (colName_upper c.col) hdd,
    dropWhile_append_stop _ _ _ _ (colName_upper c.col) hdd, ← hd,
    takeWhile_all _ _ (digits_digit c.row), colIndex_colName, natOf_digits]

theorem rangeBoundaries_area (c1 c2 : Coord) (h1 : 1 ≤ c1.col) (h2 : 1 ≤ c1.row) (h3 : 1 ≤ c2.col)
    (h4 : 1 ≤ c2.row) :
    rangeBoundaries (bare c1 ++ ':' :: bare c2) = ((c1.col, c1.row), (c2.col, c2.row)) := by
  unfold rangeBoundaries
  rw [split1_of ':' _ _ fun h => (bare_chars c1 _ h).2.2.1 rfl]
  simp only [boundary_bare]
  have e1 : ¬ c1.col = 0 := by omega
  have e2 : ¬ c1.row = 0 := by omega
  have e3 : ¬ c2.col = 0 := by omega
  have e4 : ¬ c2.row = 0 := by omega
  simp [e1, e2, e3, e4]

theorem area_no_bang (c1 c2 : Coord) : '!' ∉ bare c1 ++ ':' :: bare c2 := by
  intro h
  rcases List.mem_append.mp h with h | h
  · exact (bare_chars _ _ h).2.1 rfl
  · rcases List.mem_cons.mp h with h | h
    · revert h; decide
    · exact (bare_chars _ _ h).2.1 rfl

/-- `XLRange(sheet!A1:B2).cells` is the matrix of the area, row by row — as the statement lists it. -/
theorem resolveRanges_area (sheet : Text) (c1 c2 : Coord) (hne : sheet ≠ [])
    (hr : resolveSheet sheet = sheet)
    (h1 : 1 ≤ c1.col) (h2 : 1 ≤ c1.row) (h3 : 1 ≤ c2.col) (h4 : 1 ≤ c2.row) :
    resolveRanges (sheet ++ '!' :: (bare c1 ++ ':' :: bare c2)) = (sheet, Spec.C11.members sheet c1 c2) := by
  unfold resolveRanges
  have hc : (sheet ++ '!' :: (bare c1 ++ ':' :: bare c2)).contains '!' = true := by
    apply List.contains_iff_mem.mpr; simp
  rw [rsplit1_of '!' _ _ (area_no_bang c1 c2)]
  simp only [hc, if_true, hr, rangeBoundaries_area c1 c2 h1 h2 h3 h4, hne, if_false]
  unfold Spec.C11.members Spec.C11.addr coordText
  simp [List.append_assoc]

end XlVerif.Lemmas.C11
