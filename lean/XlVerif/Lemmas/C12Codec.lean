/-
  Helper lemmas for C12: the modelled jsonpickle codec is the identity on encodable graphs.
-/
import XlVerif.Model.C12
set_option linter.unusedSectionVars false
namespace XlVerif.Lemmas.C12
open XlVerif XlVerif.Model.C12

/-! ### keys -/

theorem okKey_iff (k : Text) : okKey k = true ↔ isReserved k = false ∧ jsonKeyPrefix.isPrefixOf k = false := by
  simp [okKey]

theorem escape_ok (b : Bool) (k : Text) (h : okKey k = true) : escapeKey b k = k := by
  simp [escapeKey, ((okKey_iff k).mp h).2]

theorem unescape_ok (b : Bool) (k : Text) (h : okKey k = true) : unescapeKey b k = k := by
  simp [unescapeKey, ((okKey_iff k).mp h).2]

/-- what `keys=True` is for: an escaped key is restored (for keys outside the fragment the numbering of back
    references is the problem, not the key itself) -/
theorem unescape_escape (b : Bool) (k : Text) : unescapeKey b (escapeKey b k) = k := by
  unfold unescapeKey escapeKey
  cases b
  · simp
  · by_cases h : jsonKeyPrefix.isPrefixOf k = true
    · simp [h, List.isPrefixOf_iff_prefix.mpr (List.prefix_append jsonKeyPrefix k)]
    · simp [h]

theorem lookup_none_of_encF (cfg : Cfg) (t : Text) (ht : isReserved t = true) :
    ∀ kvs, encF cfg kvs = true → lookup t kvs = none
  | [], _ => rfl
  | (k, v) :: r, h => by
    simp only [encF, Bool.and_eq_true] at h
    have hk := ((okKey_iff k).mp h.1.1).1
    have : k ≠ t := by intro e; rw [e, ht] at hk; cases hk
    simp only [lookup, this, if_false]
    exact lookup_none_of_encF cfg t ht r h.2

theorem restoreItems_id (cfg : Cfg) (b : Bool) :
    ∀ kvs, encF cfg kvs = true → restoreItems b kvs = kvs
  | [], _ => rfl
  | (k, v) :: r, h => by
    simp only [encF, Bool.and_eq_true] at h
    simp only [restoreItems, ((okKey_iff k).mp h.1.1).1, unescape_ok b k h.1.1, restoreItems_id cfg b r h.2]
    rfl

theorem decodeL_strs (cfg : Cfg) : ∀ h : List Text, decodeL cfg (h.map Json.str) = h.map Py.str
  | [] => rfl
  | s :: r => by simp [decodeL, decode, decodeL_strs cfg r]

theorem textsOf_strs : ∀ h : List Text, textsOf (h.map Py.str) = h
  | [] => rfl
  | s :: r => by simp [textsOf, textsOf_strs r]

theorem tag_reserved :
    isReserved tId = true ∧ isReserved tTuple = true ∧ isReserved tSet = true ∧ isReserved tObject = true ∧
    isReserved tType = true ∧ isReserved tReduce = true ∧ isReserved tNewargs = true ∧ isReserved tLib = true := by
  decide

theorem lookup_cons_ne {α} {k t : Text} (v : α) (r : List (Text × α)) (h : k ≠ t) :
    lookup t ((k, v) :: r) = lookup t r := by simp [lookup, h]
theorem lookup_nil {α} (t : Text) : lookup t ([] : List (Text × α)) = none := rfl
theorem lookup_cons_eq {α} (t : Text) (v : α) (r : List (Text × α)) : lookup t ((t, v) :: r) = some v := by
  simp [lookup]

section
variable (cfg : Cfg)

mutual
theorem decode_encode : ∀ g : Py, enc cfg g = true → decode cfg (encode cfg g) = g
  | .none, _ => rfl
  | .bool _, _ => rfl
  | .int _, _ => rfl
  | .float _, _ => rfl
  | .str _, _ => rfl
  | .list xs, h => by
    simp only [enc] at h
    simp only [encode, decode, decodeL_encodeL xs h]
  | .tuple xs, h => by
    simp only [enc] at h
    simp only [encode, decode, decodeF, interp, lookup_cons_eq, decodeL_encodeL xs h]
  | .set xs, h => by
    simp only [enc] at h
    simp only [encode, decode, decodeF, interp, lookup_cons_eq, decodeL_encodeL xs h,
      lookup_cons_ne _ _ (by decide : tSet ≠ tTuple), lookup_nil]
  | .dict kvs, h => by
    simp only [enc] at h
    have t := tag_reserved
    simp only [encode, decode, decodeF_encodeF kvs h, interp,
      lookup_none_of_encF cfg _ t.1 kvs h, lookup_none_of_encF cfg _ t.2.1 kvs h,
      lookup_none_of_encF cfg _ t.2.2.1 kvs h, lookup_none_of_encF cfg _ t.2.2.2.1 kvs h,
      lookup_none_of_encF cfg _ t.2.2.2.2.1 kvs h, lookup_none_of_encF cfg _ t.2.2.2.2.2.1 kvs h]
    rw [restoreItems_id cfg _ kvs h]
  | .obj c fs, h => by
    simp only [enc, Bool.and_eq_true, Bool.not_eq_true'] at h
    obtain ⟨⟨hr, hn⟩, hf⟩ := h
    have t := tag_reserved
    simp only [encode, decode, decodeF, decodeF_encodeF fs hf, interp, lookup_cons_eq,
      lookup_cons_ne _ _ (by decide : tObject ≠ tTuple), lookup_cons_ne _ _ (by decide : tObject ≠ tSet),
      lookup_cons_ne _ _ (by decide : tObject ≠ tId), lookup_cons_ne _ _ (by decide : tObject ≠ tNewargs),
      lookup_cons_ne _ _ (by decide : tObject ≠ tLib),
      lookup_none_of_encF cfg _ t.1 fs hf, lookup_none_of_encF cfg _ t.2.1 fs hf,
      lookup_none_of_encF cfg _ t.2.2.1 fs hf, lookup_none_of_encF cfg _ t.2.2.2.2.2.2.1 fs hf,
      lookup_none_of_encF cfg _ t.2.2.2.2.2.2.2 fs hf, hr, hn, restoreItems, t.2.2.2.1]
    simp only [Bool.not_true, Bool.false_eq_true, if_false, if_true]
    rw [restoreItems_id cfg _ fs hf]
  | .slots c args, h => by
    simp only [enc, Bool.and_eq_true] at h
    obtain ⟨⟨hn, hr⟩, ha⟩ := h
    simp only [encode, hn, if_true, decode, decodeF, interp, lookup_cons_eq, lookup_nil, decodeL_encodeL args ha,
      lookup_cons_ne _ _ (by decide : tObject ≠ tTuple), lookup_cons_ne _ _ (by decide : tObject ≠ tSet),
      lookup_cons_ne _ _ (by decide : tObject ≠ tId), lookup_cons_ne _ _ (by decide : tObject ≠ tNewargs),
      lookup_cons_ne _ _ (by decide : tNewargs ≠ tTuple), lookup_cons_ne _ _ (by decide : tNewargs ≠ tSet),
      lookup_cons_ne _ _ (by decide : tNewargs ≠ tId), hr]
    simp
  | .reduce c args st, h => by
    simp only [enc, Bool.and_eq_true] at h
    obtain ⟨⟨hr, ha⟩, hs⟩ := h
    have t := tag_reserved
    simp only [encode, decode, decodeL, decodeF, interp, lookup_cons_eq, lookup_nil, decodeL_encodeL args ha,
      decodeF_encodeF st hs,
      lookup_cons_ne _ _ (by decide : tReduce ≠ tTuple), lookup_cons_ne _ _ (by decide : tReduce ≠ tSet),
      lookup_cons_ne _ _ (by decide : tReduce ≠ tId), lookup_cons_ne _ _ (by decide : tReduce ≠ tObject),
      lookup_cons_ne _ _ (by decide : tReduce ≠ tType),
      lookup_cons_ne _ _ (by decide : tType ≠ tTuple), lookup_cons_ne _ _ (by decide : tType ≠ tSet),
      lookup_cons_ne _ _ (by decide : tType ≠ tId), lookup_cons_ne _ _ (by decide : tType ≠ tObject), hr,
      lookup_none_of_encF cfg _ t.1 st hs, lookup_none_of_encF cfg _ t.2.1 st hs,
      lookup_none_of_encF cfg _ t.2.2.1 st hs, lookup_none_of_encF cfg _ t.2.2.2.1 st hs,
      lookup_none_of_encF cfg _ t.2.2.2.2.1 st hs, lookup_none_of_encF cfg _ t.2.2.2.2.2.1 st hs]
    simp only [if_true]
    rw [restoreItems_id cfg _ st hs]
  | .lib c p, h => by
    simp only [enc] at h
    simp only [encode, decode, decodeF, interp, lookup_cons_eq, lookup_nil,
      lookup_cons_ne _ _ (by decide : tObject ≠ tTuple), lookup_cons_ne _ _ (by decide : tObject ≠ tSet),
      lookup_cons_ne _ _ (by decide : tObject ≠ tId), lookup_cons_ne _ _ (by decide : tObject ≠ tNewargs),
      lookup_cons_ne _ _ (by decide : tObject ≠ tLib),
      lookup_cons_ne _ _ (by decide : tLib ≠ tTuple), lookup_cons_ne _ _ (by decide : tLib ≠ tSet),
      lookup_cons_ne _ _ (by decide : tLib ≠ tId), lookup_cons_ne _ _ (by decide : tLib ≠ tNewargs), h]
    simp
  | .cls n, h => by
    simp only [enc] at h
    simp only [encode, decode, decodeF, interp, lookup_cons_eq, lookup_nil,
      lookup_cons_ne _ _ (by decide : tType ≠ tTuple), lookup_cons_ne _ _ (by decide : tType ≠ tSet),
      lookup_cons_ne _ _ (by decide : tType ≠ tId), lookup_cons_ne _ _ (by decide : tType ≠ tObject), h]
    simp
  | .alias p, _ => by
    simp only [encode, decode, decodeF, interp, lookup_cons_eq, lookup_nil,
      lookup_cons_ne _ _ (by decide : tId ≠ tTuple), lookup_cons_ne _ _ (by decide : tId ≠ tSet),
      decodeL_strs, textsOf_strs]
theorem decodeL_encodeL : ∀ gs : List Py, encL cfg gs = true → decodeL cfg (encodeL cfg gs) = gs
  | [], _ => rfl
  | x :: xs, h => by
    simp only [encL, Bool.and_eq_true] at h
    simp only [encodeL, decodeL, decode_encode x h.1, decodeL_encodeL xs h.2]
theorem decodeF_encodeF : ∀ kvs : List (Text × Py), encF cfg kvs = true →
    decodeF cfg (encodeF cfg kvs) = kvs
  | [], _ => rfl
  | (k, v) :: r, h => by
    simp only [encF, Bool.and_eq_true] at h
    simp only [encodeF, decodeF, escape_ok _ k h.1.1, decode_encode v h.1.2, decodeF_encodeF r h.2]
end
end
end XlVerif.Lemmas.C12
