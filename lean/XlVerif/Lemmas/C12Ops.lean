/-
  Helper lemmas for C12: attribute updates, `withAst`, `build_code`, and what they preserve
  (encodability, the observable).
-/
import XlVerif.Model.C12
namespace XlVerif.Lemmas.C12
open XlVerif XlVerif.Model.C12

theorem lookup_setField_same (k : Text) (v : Py) : ∀ fs, lookup k (setField k v fs) = some v
  | [] => by simp [setField, lookup]
  | (k', v') :: r => by
    by_cases h : k' = k
    · simp [setField, h, lookup]
    · simp [setField, h, lookup, lookup_setField_same k v r]

theorem lookup_setField_ne {k t : Text} (v : Py) (h : k ≠ t) : ∀ fs, lookup t (setField k v fs) = lookup t fs
  | [] => by simp [setField, lookup, h]
  | (k', v') :: r => by
    by_cases hk : k' = k
    · subst hk; simp [setField, lookup, h]
    · by_cases ht : k' = t
      · subst ht; simp [setField, hk, lookup]
      · simp [setField, hk, lookup, ht, lookup_setField_ne v h r]

theorem setField_setField (k : Text) (v w : Py) : ∀ fs, setField k v (setField k w fs) = setField k v fs
  | [] => by simp [setField]
  | (k', v') :: r => by
    by_cases h : k' = k
    · simp [setField, h]
    · simp [setField, h, setField_setField k v w r]

/-! ### encodability is preserved by attribute updates -/

theorem encF_setField (cfg : Cfg) (k : Text) (v : Py) (hk : okKey k = true) (hv : enc cfg v = true) :
    ∀ fs, encF cfg fs = true → encF cfg (setField k v fs) = true
  | [], _ => by simp [setField, encF, hk, hv]
  | (k', v') :: r, h => by
    simp only [encF, Bool.and_eq_true] at h
    by_cases e : k' = k
    · simp [setField, e, encF, hk, hv, h.2]
    · simp [setField, e, encF, h.1.1, h.1.2, encF_setField cfg k v hk hv r h.2]

theorem enc_of_lookup (cfg : Cfg) (k : Text) : ∀ fs, encF cfg fs = true → ∀ v, lookup k fs = some v → enc cfg v = true
  | [], _, _, h => by simp [lookup] at h
  | (k', v') :: r, h, v, hl => by
    simp only [encF, Bool.and_eq_true] at h
    by_cases e : k' = k
    · simp [lookup, e] at hl; subst hl; exact h.1.2
    · simp [lookup, e] at hl; exact enc_of_lookup cfg k r h.2 v hl

theorem field_names_ok : okKey fFormula = true ∧ okKey fAst = true ∧ okKey fValue = true ∧
    okKey fNeedUpdate = true ∧ okKey fAddress = true := by decide

theorem enc_withAst (cfg : Cfg) (a : Py) (ha : enc cfg a = true) (c : Py) (hc : enc cfg c = true) :
    enc cfg (withAst a c) = true := by
  unfold withAst
  split
  · rename_i cl fs
    split
    · rename_i fc ffs hl
      simp only [enc, Bool.and_eq_true, Bool.not_eq_true'] at hc
      have hf := enc_of_lookup cfg fFormula fs hc.2 _ hl
      simp only [enc, Bool.and_eq_true, Bool.not_eq_true'] at hf
      simp only [enc, Bool.and_eq_true, Bool.not_eq_true']
      refine ⟨hc.1, encF_setField cfg _ _ field_names_ok.1 ?_ fs hc.2⟩
      simp only [enc, Bool.and_eq_true, Bool.not_eq_true']
      exact ⟨hf.1, encF_setField cfg _ _ field_names_ok.2.1 ha ffs hf.2⟩
    · exact hc
  · exact hc

theorem encF_mapDict (cfg : Cfg) (f : Py → Py) (hf : ∀ c, enc cfg c = true → enc cfg (f c) = true) :
    ∀ kvs, encF cfg kvs = true → encF cfg (mapDict f kvs) = true
  | [], _ => rfl
  | (k, c) :: r, h => by
    simp only [encF, Bool.and_eq_true] at h
    simp [mapDict, encF, h.1.1, hf c h.1.2, encF_mapDict cfg f hf r h.2]

/-- all four dicts of a model are encodable -/
def encModel (cfg : Cfg) (m : PModel) : Bool :=
  enc cfg m.cells && enc cfg m.definedNames && enc cfg m.formulae && enc cfg m.ranges

theorem encModel_mapCells (cfg : Cfg) (f : Py → Py) (hf : ∀ c, enc cfg c = true → enc cfg (f c) = true)
    (m : PModel) (h : encModel cfg m = true) : encModel cfg (m.mapCells f) = true := by
  unfold PModel.mapCells
  split
  · rename_i kvs hc
    simp only [encModel, hc, enc, Bool.and_eq_true] at h ⊢
    exact ⟨⟨⟨encF_mapDict cfg f hf kvs h.1.1.1, h.1.1.2⟩, h.1.2⟩, h.2⟩
  · exact h

/-! ### `withAst` does not change what a cell shows -/

theorem ne_of_decide {a b : Text} (h : decide (a = b) = false) : a ≠ b := by simpa using h

theorem cellView_withAst (a c : Py) : cellView (withAst a c) = cellView c := by
  unfold withAst
  split
  · rename_i cl fs
    split
    · rename_i fc ffs hl
      have h1 : fFormula ≠ fAddress := by decide
      have h2 : fFormula ≠ fValue := by decide
      have h3 : fAst ≠ fFormula := by decide
      simp only [cellView, lookup_setField_same, lookup_setField_ne _ h1, lookup_setField_ne _ h2,
        lookup_setField_ne _ h3, hl]
    · rfl
  · rfl

theorem formulaTextOf_withAst (a c : Py) : formulaTextOf (withAst a c) = formulaTextOf c := by
  unfold withAst
  split
  · rename_i cl fs
    split
    · rename_i fc ffs hl
      have h3 : fAst ≠ fFormula := by decide
      simp only [formulaTextOf, lookup_setField_same, lookup_setField_ne _ h3, hl]
    · rfl
  · rfl

theorem withAst_withAst (a b c : Py) : withAst a (withAst b c) = withAst a c := by
  cases c with
  | obj cl fs =>
    cases hl : lookup fFormula fs with
    | none => simp [withAst, hl]
    | some x => cases x <;> simp [withAst, hl, lookup_setField_same, setField_setField]
  | _ => rfl

theorem map_view_mapDict (f : Py → Py) (hf : ∀ c, cellView (f c) = cellView c) :
    ∀ kvs, (mapDict f kvs).map (fun (p : Text × Py) => (p.1, cellView p.2)) =
           kvs.map (fun (p : Text × Py) => (p.1, cellView p.2))
  | [] => rfl
  | (k, c) :: r => by simp [mapDict, hf c, map_view_mapDict f hf r]

theorem viewsOf_mapCells (f : Py → Py) (hf : ∀ c, cellView (f c) = cellView c) (m : PModel) :
    viewsOf (m.mapCells f).cells = viewsOf m.cells := by
  unfold PModel.mapCells
  split
  · rename_i kvs hc
    simp only [hc, viewsOf]
    exact map_view_mapDict f hf kvs
  · rfl

theorem observe_mapCells (f : Py → Py) (hf : ∀ c, cellView (f c) = cellView c) (m : PModel) :
    observe (m.mapCells f) = observe m := by
  have hv := viewsOf_mapCells f hf m
  unfold observe
  rw [hv]
  unfold PModel.mapCells
  split <;> rfl

theorem observe_clearAst (m : PModel) : observe (clearAst m) = observe m :=
  observe_mapCells _ (cellView_withAst .none) m

theorem cellView_compile (parse : Text → Names → Py) (names : Names) (c : Py) :
    cellView (match formulaTextOf c with | some t => withAst (parse t names) c | none => c) = cellView c := by
  split
  · exact cellView_withAst _ _
  · rfl

theorem observe_buildCode (parse : Text → Names → Py) (m : PModel) : observe (buildCode parse m) = observe m :=
  observe_mapCells _ (cellView_compile parse _) m

/-! ### `build_code` after a change of the ASTs only -/

def compileCell (parse : Text → Names → Py) (names : Names) (c : Py) : Py :=
  match formulaTextOf c with
  | some t => withAst (parse t names) c
  | none => c

theorem buildCode_eq (parse : Text → Names → Py) (m : PModel) :
    buildCode parse m = m.mapCells (compileCell parse (observe m).names) := rfl

theorem withAst_of_noFormula (a c : Py) (h : formulaTextOf c = none) (ht : textedCell c = true) :
    withAst a c = c := by
  cases c with
  | obj cl fs =>
    simp only [formulaTextOf, textedCell, withAst] at h ht ⊢
    cases hl : lookup fFormula fs with
    | none => simp
    | some x =>
      cases x with
      | obj fc ffs =>
        simp only [hl] at h ht
        cases hf : lookup fFormula ffs with
        | none => simp [hf] at ht
        | some y => cases y <;> simp_all
      | _ => simp
  | _ => rfl

theorem compileCell_withAst (parse : Text → Names → Py) (names : Names) (a c : Py) (ht : textedCell c = true) :
    compileCell parse names (withAst a c) = compileCell parse names c := by
  unfold compileCell
  rw [formulaTextOf_withAst]
  cases h : formulaTextOf c with
  | some t => simp only [withAst_withAst]
  | none => simp only [withAst_of_noFormula a c h ht]

theorem mapDict_mapDict_compile (parse : Text → Names → Py) (names : Names) (a : Py) :
    ∀ kvs, textedItems kvs = true →
      mapDict (compileCell parse names) (mapDict (withAst a) kvs) = mapDict (compileCell parse names) kvs
  | [], _ => rfl
  | (k, c) :: r, h => by
    simp only [textedItems, Bool.and_eq_true] at h
    simp only [mapDict, compileCell_withAst parse names a c h.1, mapDict_mapDict_compile parse names a r h.2]

/-- compiling does not care about the ASTs that were there before -/
theorem buildCode_clearAst (parse : Text → Names → Py) (m : PModel) (ht : Texted m = true) :
    buildCode parse (clearAst m) = buildCode parse m := by
  rw [buildCode_eq, buildCode_eq, observe_clearAst]
  obtain ⟨cells, dn, fo, ra⟩ := m
  cases cells with
  | dict kvs =>
    simp only [Texted] at ht
    simp only [clearAst, PModel.mapCells, mapDict_mapDict_compile parse _ .none kvs ht]
  | _ => rfl

theorem textedCell_compile (parse : Text → Names → Py) (names : Names) (c : Py) :
    textedCell (compileCell parse names c) = textedCell c := by
  unfold compileCell
  split
  · rename_i t ht
    cases c with
    | obj cl fs =>
      simp only [formulaTextOf] at ht
      cases hl : lookup fFormula fs with
      | none => simp [hl] at ht
      | some x =>
        cases x with
        | obj fc ffs =>
          have h3 : fAst ≠ fFormula := by decide
          simp only [withAst, hl, textedCell, lookup_setField_same, lookup_setField_ne _ h3]
        | _ => simp [hl] at ht
    | _ => simp [formulaTextOf] at ht
  · rfl

theorem compileCell_idem (parse : Text → Names → Py) (names : Names) (c : Py) :
    compileCell parse names (compileCell parse names c) = compileCell parse names c := by
  unfold compileCell
  cases h : formulaTextOf c with
  | some t => simp only [formulaTextOf_withAst, h, withAst_withAst]
  | none => simp only [h]

theorem mapDict_compile_idem (parse : Text → Names → Py) (names : Names) :
    ∀ kvs, mapDict (compileCell parse names) (mapDict (compileCell parse names) kvs) =
           mapDict (compileCell parse names) kvs
  | [] => rfl
  | (k, c) :: r => by simp only [mapDict, compileCell_idem, mapDict_compile_idem parse names r]

/-- compiling twice is compiling once -/
theorem buildCode_idem (parse : Text → Names → Py) (m : PModel) :
    buildCode parse (buildCode parse m) = buildCode parse m := by
  rw [buildCode_eq parse (buildCode parse m), observe_buildCode, buildCode_eq]
  obtain ⟨cells, dn, fo, ra⟩ := m
  cases cells with
  | dict kvs => simp only [PModel.mapCells, mapDict_compile_idem]
  | _ => rfl

/-! ### depth -/

theorem depthF_setField_le (k : Text) (v : Py) : ∀ fs, depthF (setField k v fs) ≤ max (depthF fs) (depth v)
  | [] => by simp [setField, depthF]
  | (k', v') :: r => by
    by_cases h : k' = k
    · simp only [setField, h, if_true, depthF]; omega
    · have := depthF_setField_le k v r
      simp only [setField, h, if_false, depthF]; omega

theorem depth_le_of_lookup (k : Text) : ∀ fs v, lookup k fs = some v → depth v ≤ depthF fs
  | [], _, h => by simp [lookup] at h
  | (k', v') :: r, v, h => by
    by_cases e : k' = k
    · simp [lookup, e] at h; subst h; simp only [depthF]; omega
    · simp [lookup, e] at h
      have := depth_le_of_lookup k r v h
      simp only [depthF]; omega

/-- replacing the AST by `a` nests the cell no deeper than before or than `a` under two objects -/
theorem depth_withAst_le (a c : Py) : depth (withAst a c) ≤ max (depth c) (depth a + 2) := by
  unfold withAst
  split
  · rename_i cl fs
    split
    · rename_i fc ffs hl
      have h1 := depth_le_of_lookup _ _ _ hl
      have h2 := depthF_setField_le fFormula (.obj fc (setField fAst a ffs)) fs
      have h3 := depthF_setField_le fAst a ffs
      simp only [depth] at h1 h2 ⊢
      omega
    · omega
  · omega

theorem depthF_mapDict_le (f : Py → Py) (n : Nat) (hf : ∀ c, depth c ≤ n → depth (f c) ≤ n) :
    ∀ kvs, depthF kvs ≤ n → depthF (mapDict f kvs) ≤ n
  | [], _ => by simp [mapDict, depthF]
  | (k, c) :: r, h => by
    simp only [depthF, Nat.max_le] at h
    simp only [mapDict, depthF, Nat.max_le]
    exact ⟨hf c h.1, depthF_mapDict_le f n hf r h.2⟩

/-! ### lists as sets; membership forms of `encF` and `depthF` -/

/-- two lists hold the same elements -/
def sameSet (a b : List Text) : Bool := a.all (b.contains ·) && b.all (a.contains ·)

theorem contains_of_sameSet {a b : List Text} (h : sameSet a b = true) (e : Text) :
    a.contains e = b.contains e := by
  simp only [sameSet, Bool.and_eq_true, List.all_eq_true, List.contains_iff_mem] at h
  rw [Bool.eq_iff_iff]
  simp only [List.contains_iff_mem]
  exact ⟨fun x => h.1 e x, fun x => h.2 e x⟩

theorem encF_iff (cfg : Cfg) : ∀ l : List (Text × Py),
    encF cfg l = true ↔ ∀ p ∈ l, okKey p.1 = true ∧ enc cfg p.2 = true
  | [] => by simp [encF]
  | (k, v) :: r => by simp [encF, encF_iff cfg r, and_assoc]

theorem depthF_le_iff (n : Nat) : ∀ l : List (Text × Py), depthF l ≤ n ↔ ∀ p ∈ l, depth p.2 ≤ n
  | [] => by simp [depthF]
  | (k, v) :: r => by simp [depthF, depthF_le_iff n r, Nat.max_le]

/-! ### the persisted dict and the reader's assignments, from the `Gen` tables -/

/-- the dict the writer builds holds exactly the four dicts of the model, and the reader's assignments
    rebuild the model from it — whatever the receiving object `self` held before: every one of its four dicts
    is rebound (computed from the `Gen` tables, whatever their order) -/
theorem output_ok (m : PModel) :
    ∃ out, outputOf m Gen.C12.persistWrites = .ok out ∧ (∀ p ∈ out, p ∈ rootItems m) ∧
      ∀ self : PModel, assignAll out Gen.C12.readAssigns self = .ok m := by
  refine ⟨_, rfl, ?_, ?_⟩
  · simp [rootItems, kCells, kDefinedNames, kFormulae, kRanges]
  · intro self; cases m; cases self; rfl

theorem observe_stripped (cfg : Cfg) (m : PModel) : observe (stripped cfg m) = observe m := by
  unfold stripped; split
  · rfl
  · exact observe_clearAst m

theorem buildCode_stripped (cfg : Cfg) (parse : Text → Names → Py) (m : PModel) (ht : Texted m = true) :
    buildCode parse (stripped cfg m) = buildCode parse m := by
  unfold stripped; split
  · rfl
  · exact buildCode_clearAst parse m ht

/-! ### encodable / shallow models under the operations of a history -/

theorem encodable_iff (cfg : Cfg) (m : PModel) : Encodable cfg m ↔ encModel cfg m = true := by
  have h : okKey kCells = true ∧ okKey kDefinedNames = true ∧ okKey kFormulae = true ∧
      okKey kRanges = true := by decide
  simp only [Encodable, rootItems, encF, encModel, h.1, h.2.1, h.2.2.1, h.2.2.2,
    Bool.true_and, Bool.and_true, Bool.and_assoc]

theorem depth_withAst_none_le (c : Py) : depth (withAst .none c) ≤ depth c := by
  unfold withAst
  split
  · rename_i cl fs
    split
    · rename_i fc ffs hl
      have h1 := depth_le_of_lookup _ _ _ hl
      have h2 := depthF_setField_le fFormula (.obj fc (setField fAst .none ffs)) fs
      have h3 := depthF_setField_le fAst .none ffs
      simp only [depth] at h1 h2 h3 ⊢
      omega
    · omega
  · omega

theorem shallow_clearAst (cfg : Cfg) (m : PModel) (h : Shallow cfg m) : Shallow cfg (clearAst m) := by
  obtain ⟨cells, dn, fo, ra⟩ := m
  cases cells with
  | dict kvs =>
    have : depthF (mapDict (withAst .none) kvs) ≤ depthF kvs :=
      depthF_mapDict_le _ _ (fun c hc => Nat.le_trans (depth_withAst_none_le c) hc) kvs (Nat.le_refl _)
    simp only [Shallow, clearAst, PModel.mapCells, rootItems, depthF, depth] at h ⊢
    omega
  | _ => exact h

theorem encodable_clearAst (cfg : Cfg) (m : PModel) (h : Encodable cfg m) : Encodable cfg (clearAst m) :=
  (encodable_iff cfg _).mpr
    (encModel_mapCells cfg _ (fun c hc => enc_withAst cfg .none rfl c hc) m ((encodable_iff cfg m).mp h))

theorem encF_foldl_setField (cfg : Cfg) : ∀ (sets : List (Text × Py)) (fs : List (Text × Py)),
    encF cfg sets = true → encF cfg fs = true →
      encF cfg (sets.foldl (fun acc (p : Text × Py) => setField p.1 p.2 acc) fs) = true
  | [], _, _, h => h
  | (k, v) :: r, fs, hs, h => by
    simp only [encF, Bool.and_eq_true] at hs
    exact encF_foldl_setField cfg r _ hs.2 (encF_setField cfg k v hs.1.1 hs.1.2 fs h)

theorem depthF_foldl_setField_le : ∀ (sets : List (Text × Py)) (fs : List (Text × Py)),
    depthF (sets.foldl (fun acc (p : Text × Py) => setField p.1 p.2 acc) fs) ≤ max (depthF fs) (depthF sets)
  | [], _ => by simp [depthF]
  | (k, v) :: r, fs => by
    have h1 := depthF_foldl_setField_le r (setField k v fs)
    have h2 := depthF_setField_le k v fs
    simp only [List.foldl, depthF] at h1 ⊢
    omega

theorem enc_storeCell (cfg : Cfg) (addr : Text) (sets : List (Text × Py)) (hs : encF cfg sets = true)
    (p : Text × Py) (hk : okKey p.1 = true) (hp : enc cfg p.2 = true) :
    okKey (storeCell addr sets p).1 = true ∧ enc cfg (storeCell addr sets p).2 = true := by
  obtain ⟨k, c⟩ := p
  unfold storeCell
  split
  · refine ⟨hk, ?_⟩
    cases c with
    | obj cl fs =>
      simp only [enc, Bool.and_eq_true] at hp ⊢
      exact ⟨hp.1, encF_foldl_setField cfg sets fs hs hp.2⟩
    | _ => exact hp
  · exact ⟨hk, hp⟩

theorem encodable_storeAt (cfg : Cfg) (addr : Text) (sets : List (Text × Py)) (hs : encF cfg sets = true)
    (m : PModel) (h : Encodable cfg m) : Encodable cfg (storeAt addr sets m) := by
  rw [encodable_iff] at h ⊢
  obtain ⟨cells, dn, fo, ra⟩ := m
  cases cells with
  | dict kvs =>
    simp only [encModel, enc, Bool.and_eq_true] at h
    simp only [storeAt, encModel, enc, Bool.and_eq_true]
    refine ⟨⟨⟨?_, h.1.1.2⟩, h.1.2⟩, h.2⟩
    rw [encF_iff] at h ⊢
    intro q hq
    obtain ⟨p, hp, rfl⟩ := List.mem_map.mp hq
    exact enc_storeCell cfg addr sets hs p (h.1.1.1 p hp).1 (h.1.1.1 p hp).2
  | _ => exact h

theorem depthF_map_le (g : Text × Py → Text × Py) (n : Nat)
    (hg : ∀ p, depth (g p).2 ≤ max (depth p.2) n) :
    ∀ kvs : List (Text × Py), depthF (kvs.map g) ≤ max (depthF kvs) n
  | [] => by simp [depthF]
  | (k, c) :: r => by
    have h1 := hg (k, c)
    have h2 := depthF_map_le g n hg r
    cases hgp : g (k, c) with
    | mk k' c' =>
      rw [hgp] at h1
      simp only [List.map, hgp, depthF] at h1 h2 ⊢
      omega

theorem depth_storeCell_le (addr : Text) (sets : List (Text × Py)) (p : Text × Py) :
    depth (storeCell addr sets p).2 ≤ max (depth p.2) (depthF sets + 1) := by
  obtain ⟨k, c⟩ := p
  unfold storeCell
  split
  · cases c with
    | obj cl fs =>
      have := depthF_foldl_setField_le sets fs
      simp only [depth]
      omega
    | _ => simp only; omega
  · simp only; omega

theorem shallow_storeAt (cfg : Cfg) (addr : Text) (sets : List (Text × Py))
    (hs : depthF sets + 3 ≤ cfg.maxDepth) (m : PModel) (h : Shallow cfg m) :
    Shallow cfg (storeAt addr sets m) := by
  obtain ⟨cells, dn, fo, ra⟩ := m
  cases cells with
  | dict kvs =>
    have key := depthF_map_le (storeCell addr sets) (depthF sets + 1) (depth_storeCell_le addr sets) kvs
    simp only [Shallow, storeAt, rootItems, depthF, depth] at h ⊢
    omega
  | _ => exact h

theorem encF_append (cfg : Cfg) : ∀ a b : List (Text × Py),
    encF cfg a = true → encF cfg b = true → encF cfg (a ++ b) = true
  | [], _, _, hb => hb
  | (k, v) :: r, b, ha, hb => by
    simp only [encF, Bool.and_eq_true] at ha
    simp only [List.cons_append, encF, Bool.and_eq_true]
    exact ⟨ha.1, encF_append cfg r b ha.2 hb⟩

theorem depthF_append : ∀ a b : List (Text × Py), depthF (a ++ b) = max (depthF a) (depthF b)
  | [], b => by simp [depthF]
  | (k, v) :: r, b => by simp only [List.cons_append, depthF, depthF_append r b]; omega

/-! ### values -/

/-- the reading process can import the value classes and jsonpickle's handler classes by name (they are not in
    the allow-list) -/
def ImportsValueClasses (imp : Text → Bool) : Prop :=
  ∀ c, (Gen.C12.excelTypeClasses.contains c || Gen.C12.errorClasses.contains c || handled.contains c) = true →
    imp c = true

theorem enc_native (imp : Text → Bool) (d : Nat) (hi : ImportsValueClasses imp) (v : Py)
    (h : nativeVal v = true) : enc (Cfg.current imp d) v = true := by
  cases v <;> simp_all [nativeVal, enc, Cfg.resolvable, Cfg.current]
  rename_i c p
  exact Or.inr (hi c (by simp [h]))

theorem encL_native (imp : Text → Bool) (d : Nat) (hi : ImportsValueClasses imp) :
    ∀ l : List Py, l.all nativeVal = true → encL (Cfg.current imp d) l = true
  | [], _ => rfl
  | v :: r, h => by
    simp only [List.all_cons, Bool.and_eq_true] at h
    simp only [encL, enc_native imp d hi v h.1, encL_native imp d hi r h.2, Bool.and_self]

theorem encF_native (imp : Text → Bool) (d : Nat) (hi : ImportsValueClasses imp) :
    ∀ l : List (Text × Py), nativeItems l = true → encF (Cfg.current imp d) l = true
  | [], _ => rfl
  | (k, v) :: r, h => by
    simp only [nativeItems, Bool.and_eq_true] at h
    simp only [encF, h.1.1, enc_native imp d hi v h.1.2, encF_native imp d hi r h.2, Bool.and_self]

end XlVerif.Lemmas.C12
