/-
  Helper lemmas for C12: attribute updates, `withAst`, `build_code`, and what they preserve
  (encodability, the observable).
-/
import XlVerif.Model.C12
namespace XlVerif.Lemmas.C12
open XlVerif XlVerif.Model.C12

theorem lookup_setField_same (k : Text) (v : Py) : ∀ fs, lookup k (setField k v fs) = some v
  | [] => by simp [setField, lookup]
  | (k', v') :: r => by
    by_cases h : k' = k
    · simp [setField, h, lookup]
    · simp [setField, h, lookup, lookup_setField_same k v r]

theorem lookup_setField_ne {k t : Text} (v : Py) (h : k ≠ t) : ∀ fs, lookup t (setField k v fs) = lookup t fs
  | [] => by simp [setField, lookup, h]
  | (k', v') :: r => by
    by_cases hk : k' = k
    · subst hk; simp [setField, lookup, h]
    · by_cases ht : k' = t
      · subst ht; simp [setField, hk, lookup]
      · simp [setField, hk, lookup, ht, lookup_setField_ne v h r]

theorem setField_setField (k : Text) (v w : Py) : ∀ fs, setField k v (setField k w fs) = setField k v fs
  | [] => by simp [setField]
  | (k', v') :: r => by
    by_cases h : k' = k
    · simp [setField, h]
    · simp [setField, h, setField_setField k v w r]

/-! ### encodability is preserved by attribute updates -/

theorem encF_setField (cfg : Cfg) (k : Text) (v : Py) (hk : isReserved k = false) (hv : enc cfg v = true) :
    ∀ fs, encF cfg fs = true → encF cfg (setField k v fs) = true
  | [], _ => by simp [setField, encF, hk, hv]
  | (k', v') :: r, h => by
    simp only [encF, Bool.and_eq_true, Bool.not_eq_true'] at h
    by_cases e : k' = k
    · simp [setField, e, encF, hk, hv, h.2]
    · simp [setField, e, encF, h.1.1, h.1.2, encF_setField cfg k v hk hv r h.2]

theorem enc_of_lookup (cfg : Cfg) (k : Text) : ∀ fs, encF cfg fs = true → ∀ v, lookup k fs = some v → enc cfg v = true
  | [], _, _, h => by simp [lookup] at h
  | (k', v') :: r, h, v, hl => by
    simp only [encF, Bool.and_eq_true] at h
    by_cases e : k' = k
    · simp [lookup, e] at hl; subst hl; exact h.1.2
    · simp [lookup, e] at hl; exact enc_of_lookup cfg k r h.2 v hl

theorem field_names_ok : isReserved fFormula = false ∧ isReserved fAst = false ∧ isReserved fValue = false ∧
    isReserved fNeedUpdate = false ∧ isReserved fAddress = false := by decide

theorem enc_withAst (cfg : Cfg) (a : Py) (ha : enc cfg a = true) (c : Py) (hc : enc cfg c = true) :
    enc cfg (withAst a c) = true := by
  unfold withAst
  split
  · rename_i cl fs
    split
    · rename_i fc ffs hl
      simp only [enc, Bool.and_eq_true, Bool.not_eq_true'] at hc
      have hf := enc_of_lookup cfg fFormula fs hc.2 _ hl
      simp only [enc, Bool.and_eq_true, Bool.not_eq_true'] at hf
      simp only [enc, Bool.and_eq_true, Bool.not_eq_true']
      refine ⟨hc.1, encF_setField cfg _ _ field_names_ok.1 ?_ fs hc.2⟩
      simp only [enc, Bool.and_eq_true, Bool.not_eq_true']
      exact ⟨hf.1, encF_setField cfg _ _ field_names_ok.2.1 ha ffs hf.2⟩
    · exact hc
  · exact hc

theorem encF_mapDict (cfg : Cfg) (f : Py → Py) (hf : ∀ c, enc cfg c = true → enc cfg (f c) = true) :
    ∀ kvs, encF cfg kvs = true → encF cfg (mapDict f kvs) = true
  | [], _ => rfl
  | (k, c) :: r, h => by
    simp only [encF, Bool.and_eq_true] at h
    simp [mapDict, encF, h.1.1, hf c h.1.2, encF_mapDict cfg f hf r h.2]

/-- all four dicts of a model are encodable -/
def encModel (cfg : Cfg) (m : PModel) : Bool :=
  enc cfg m.cells && enc cfg m.definedNames && enc cfg m.formulae && enc cfg m.ranges

theorem encModel_mapCells (cfg : Cfg) (f : Py → Py) (hf : ∀ c, enc cfg c = true → enc cfg (f c) = true)
    (m : PModel) (h : encModel cfg m = true) : encModel cfg (m.mapCells f) = true := by
  unfold PModel.mapCells
  split
  · rename_i kvs hc
    simp only [encModel, hc, enc, Bool.and_eq_true] at h ⊢
    exact ⟨⟨⟨encF_mapDict cfg f hf kvs h.1.1.1, h.1.1.2⟩, h.1.2⟩, h.2⟩
  · exact h

/-! ### `withAst` does not change what a cell shows -/

theorem ne_of_decide {a b : Text} (h : decide (a = b) = false) : a ≠ b := by simpa using h

theorem cellView_withAst (a c : Py) : cellView (withAst a c) = cellView c := by
  unfold withAst
  split
  · rename_i cl fs
    split
    · rename_i fc ffs hl
      have h1 : fFormula ≠ fAddress := by decide
      have h2 : fFormula ≠ fValue := by decide
      have h3 : fAst ≠ fFormula := by decide
      simp only [cellView, lookup_setField_same, lookup_setField_ne _ h1, lookup_setField_ne _ h2,
        lookup_setField_ne _ h3, hl]
    · rfl
  · rfl

theorem formulaTextOf_withAst (a c : Py) : formulaTextOf (withAst a c) = formulaTextOf c := by
  unfold withAst
  split
  · rename_i cl fs
    split
    · rename_i fc ffs hl
      have h3 : fAst ≠ fFormula := by decide
      simp only [formulaTextOf, lookup_setField_same, lookup_setField_ne _ h3, hl]
    · rfl
  · rfl

theorem withAst_withAst (a b c : Py) : withAst a (withAst b c) = withAst a c := by
  cases c with
  | obj cl fs =>
    cases hl : lookup fFormula fs with
    | none => simp [withAst, hl]
    | some x => cases x <;> simp [withAst, hl, lookup_setField_same, setField_setField]
  | _ => rfl

theorem map_view_mapDict (f : Py → Py) (hf : ∀ c, cellView (f c) = cellView c) :
    ∀ kvs, (mapDict f kvs).map (fun (p : Text × Py) => (p.1, cellView p.2)) =
           kvs.map (fun (p : Text × Py) => (p.1, cellView p.2))
  | [] => rfl
  | (k, c) :: r => by simp [mapDict, hf c, map_view_mapDict f hf r]

theorem viewsOf_mapCells (f : Py → Py) (hf : ∀ c, cellView (f c) = cellView c) (m : PModel) :
    viewsOf (m.mapCells f).cells = viewsOf m.cells := by
  unfold PModel.mapCells
  split
  · rename_i kvs hc
    simp only [hc, viewsOf]
    exact map_view_mapDict f hf kvs
  · rfl

theorem observe_mapCells (f : Py → Py) (hf : ∀ c, cellView (f c) = cellView c) (m : PModel) :
    observe (m.mapCells f) = observe m := by
  have hv := viewsOf_mapCells f hf m
  unfold observe
  rw [hv]
  unfold PModel.mapCells
  split <;> rfl

theorem observe_clearAst (m : PModel) : observe (clearAst m) = observe m :=
  observe_mapCells _ (cellView_withAst .none) m

theorem cellView_compile (parse : Text → Names → Py) (names : Names) (c : Py) :
    cellView (match formulaTextOf c with | some t => withAst (parse t names) c | none => c) = cellView c := by
  split
  · exact cellView_withAst _ _
  · rfl

theorem observe_buildCode (parse : Text → Names → Py) (m : PModel) : observe (buildCode parse m) = observe m :=
  observe_mapCells _ (cellView_compile parse _) m

/-! ### `build_code` after a change of the ASTs only -/

/-- every cell that carries a formula object carries a formula text (what `build_code` hands to the parser) -/
def textedCell (c : Py) : Bool :=
  match c with
  | .obj _ fs =>
    match lookup fFormula fs with
    | some (.obj _ ffs) => (match lookup fFormula ffs with | some (.str _) => true | _ => false)
    | _ => true
  | _ => true

def textedItems : List (Text × Py) → Bool
  | [] => true
  | (_, c) :: r => textedCell c && textedItems r

def Texted (m : PModel) : Bool :=
  match m.cells with
  | .dict kvs => textedItems kvs
  | _ => true

def compileCell (parse : Text → Names → Py) (names : Names) (c : Py) : Py :=
  match formulaTextOf c with
  | some t => withAst (parse t names) c
  | none => c

theorem buildCode_eq (parse : Text → Names → Py) (m : PModel) :
    buildCode parse m = m.mapCells (compileCell parse (observe m).names) := rfl

theorem withAst_of_noFormula (a c : Py) (h : formulaTextOf c = none) (ht : textedCell c = true) :
    withAst a c = c := by
  cases c with
  | obj cl fs =>
    simp only [formulaTextOf, textedCell, withAst] at h ht ⊢
    cases hl : lookup fFormula fs with
    | none => simp
    | some x =>
      cases x with
      | obj fc ffs =>
        simp only [hl] at h ht
        cases hf : lookup fFormula ffs with
        | none => simp [hf] at ht
        | some y => cases y <;> simp_all
      | _ => simp
  | _ => rfl

theorem compileCell_withAst (parse : Text → Names → Py) (names : Names) (a c : Py) (ht : textedCell c = true) :
    compileCell parse names (withAst a c) = compileCell parse names c := by
  unfold compileCell
  rw [formulaTextOf_withAst]
  cases h : formulaTextOf c with
  | some t => simp only [withAst_withAst]
  | none => simp only [withAst_of_noFormula a c h ht]

theorem mapDict_mapDict_compile (parse : Text → Names → Py) (names : Names) (a : Py) :
    ∀ kvs, textedItems kvs = true →
      mapDict (compileCell parse names) (mapDict (withAst a) kvs) = mapDict (compileCell parse names) kvs
  | [], _ => rfl
  | (k, c) :: r, h => by
    simp only [textedItems, Bool.and_eq_true] at h
    simp only [mapDict, compileCell_withAst parse names a c h.1, mapDict_mapDict_compile parse names a r h.2]

/-- compiling does not care about the ASTs that were there before -/
theorem buildCode_clearAst (parse : Text → Names → Py) (m : PModel) (ht : Texted m = true) :
    buildCode parse (clearAst m) = buildCode parse m := by
  rw [buildCode_eq, buildCode_eq, observe_clearAst]
  obtain ⟨cells, dn, fo, ra⟩ := m
  cases cells with
  | dict kvs =>
    simp only [Texted] at ht
    simp only [clearAst, PModel.mapCells, mapDict_mapDict_compile parse _ .none kvs ht]
  | _ => rfl

theorem textedCell_compile (parse : Text → Names → Py) (names : Names) (c : Py) :
    textedCell (compileCell parse names c) = textedCell c := by
  unfold compileCell
  split
  · rename_i t ht
    cases c with
    | obj cl fs =>
      simp only [formulaTextOf] at ht
      cases hl : lookup fFormula fs with
      | none => simp [hl] at ht
      | some x =>
        cases x with
        | obj fc ffs =>
          have h3 : fAst ≠ fFormula := by decide
          simp only [withAst, hl, textedCell, lookup_setField_same, lookup_setField_ne _ h3]
        | _ => simp [hl] at ht
    | _ => simp [formulaTextOf] at ht
  · rfl

theorem compileCell_idem (parse : Text → Names → Py) (names : Names) (c : Py) :
    compileCell parse names (compileCell parse names c) = compileCell parse names c := by
  unfold compileCell
  cases h : formulaTextOf c with
  | some t => simp only [formulaTextOf_withAst, h, withAst_withAst]
  | none => simp only [h]

theorem mapDict_compile_idem (parse : Text → Names → Py) (names : Names) :
    ∀ kvs, mapDict (compileCell parse names) (mapDict (compileCell parse names) kvs) =
           mapDict (compileCell parse names) kvs
  | [] => rfl
  | (k, c) :: r => by simp only [mapDict, compileCell_idem, mapDict_compile_idem parse names r]

/-- compiling twice is compiling once -/
theorem buildCode_idem (parse : Text → Names → Py) (m : PModel) :
    buildCode parse (buildCode parse m) = buildCode parse m := by
  rw [buildCode_eq parse (buildCode parse m), observe_buildCode, buildCode_eq]
  obtain ⟨cells, dn, fo, ra⟩ := m
  cases cells with
  | dict kvs => simp only [PModel.mapCells, mapDict_compile_idem]
  | _ => rfl

/-! ### depth -/

theorem depthF_setField_le (k : Text) (v : Py) : ∀ fs, depthF (setField k v fs) ≤ max (depthF fs) (depth v)
  | [] => by simp [setField, depthF]
  | (k', v') :: r => by
    by_cases h : k' = k
    · simp only [setField, h, if_true, depthF]; omega
    · have := depthF_setField_le k v r
      simp only [setField, h, if_false, depthF]; omega

theorem depth_le_of_lookup (k : Text) : ∀ fs v, lookup k fs = some v → depth v ≤ depthF fs
  | [], _, h => by simp [lookup] at h
  | (k', v') :: r, v, h => by
    by_cases e : k' = k
    · simp [lookup, e] at h; subst h; simp only [depthF]; omega
    · simp [lookup, e] at h
      have := depth_le_of_lookup k r v h
      simp only [depthF]; omega

/-- replacing the AST by `a` nests the cell no deeper than before or than `a` under two objects -/
theorem depth_withAst_le (a c : Py) : depth (withAst a c) ≤ max (depth c) (depth a + 2) := by
  unfold withAst
  split
  · rename_i cl fs
    split
    · rename_i fc ffs hl
      have h1 := depth_le_of_lookup _ _ _ hl
      have h2 := depthF_setField_le fFormula (.obj fc (setField fAst a ffs)) fs
      have h3 := depthF_setField_le fAst a ffs
      simp only [depth] at h1 h2 ⊢
      omega
    · omega
  · omega

theorem depthF_mapDict_le (f : Py → Py) (n : Nat) (hf : ∀ c, depth c ≤ n → depth (f c) ≤ n) :
    ∀ kvs, depthF kvs ≤ n → depthF (mapDict f kvs) ≤ n
  | [], _ => by simp [mapDict, depthF]
  | (k, c) :: r, h => by
    simp only [depthF, Nat.max_le] at h
    simp only [mapDict, depthF, Nat.max_le]
    exact ⟨hf c h.1, depthF_mapDict_le f n hf r h.2⟩

end XlVerif.Lemmas.C12
