/-
  C12 helper: the model of `os.path.splitext` (two `rfind`s and the leading-dots loop, as in genericpath.py)
  computes the extension the reference semantics describes (last dot of the last path component, unless only
  dots precede it), for every path.
-/
import XlVerif.Model.C12
import XlVerif.Spec.C12
namespace XlVerif.Lemmas.C12
open XlVerif XlVerif.Model.C12

theorem rfind_append (c : Char) : ∀ (a l : Text) (i : Nat) (best : Int),
    rfind c (a ++ l) i best = rfind c l (i + a.length) (rfind c a i best)
  | [], l, i, best => by simp [rfind]
  | x :: a, l, i, best => by
    simp only [List.cons_append, rfind, List.length_cons]
    rw [rfind_append c a l (i + 1)]
    congr 1
    omega

theorem rfind_notin (c : Char) : ∀ (l : Text) (i : Nat) (best : Int), c ∉ l → rfind c l i best = best
  | [], _, _, _ => rfl
  | x :: l, i, best, h => by
    have hx : x ≠ c := fun e => h (by simp [e])
    have hl : c ∉ l := fun e => h (by simp [e])
    simp only [rfind, hx, if_false]
    exact rfind_notin c l (i + 1) best hl

/-- a list either does not contain `c`, or splits at its last `c` -/
theorem split_last (c : Char) : ∀ l : Text, c ∉ l ∨ ∃ a s, l = a ++ c :: s ∧ c ∉ s
  | [] => Or.inl (by simp)
  | x :: l => by
    rcases split_last c l with h | ⟨a, s, hl, hs⟩
    · by_cases hx : x = c
      · exact Or.inr ⟨[], l, by simp [hx], h⟩
      · exact Or.inl (by simp [h]; exact fun e => hx e.symm)
    · exact Or.inr ⟨x :: a, s, by simp [hl], hs⟩

theorem rfind_last (c : Char) (a s : Text) (i : Nat) (best : Int) (hs : c ∉ s) :
    rfind c (a ++ c :: s) i best = ((i + a.length : Nat) : Int) := by
  rw [rfind_append]
  simp only [rfind, if_true]
  exact rfind_notin c s _ _ hs

theorem rfind_lt (c : Char) : ∀ (l : Text) (i : Nat) (best : Int), best < ((i + l.length : Nat) : Int) →
    rfind c l i best < ((i + l.length : Nat) : Int)
  | [], _, _, h => by simpa [rfind] using h
  | x :: l, i, best, h => by
    simp only [rfind, List.length_cons]
    have := rfind_lt c l (i + 1) (if x = c then (i : Int) else best) (by split <;> simp only [List.length_cons] at h <;> omega)
    have e : i + 1 + l.length = i + (l.length + 1) := by omega
    rw [e] at this
    exact this

theorem takeWhile_append_cons {α} (p : α → Bool) : ∀ (u : List α) (y : α) (v : List α),
    (∀ x ∈ u, p x = true) → p y = false → (u ++ y :: v).takeWhile p = u
  | [], y, v, _, hy => by simp [hy]
  | x :: u, y, v, hu, hy => by
    have hx : p x = true := hu x (by simp)
    simp only [List.cons_append, List.takeWhile, hx]
    rw [takeWhile_append_cons p u y v (fun z hz => hu z (by simp [hz])) hy]

theorem takeWhile_all {α} (p : α → Bool) : ∀ (u : List α), (∀ x ∈ u, p x = true) → u.takeWhile p = u
  | [], _ => rfl
  | x :: u, hu => by
    have hx : p x = true := hu x (by simp)
    simp only [List.takeWhile, hx]
    rw [takeWhile_all p u (fun z hz => hu z (by simp [hz]))]

/-- the part after the last `c` -/
def afterLast (c : Char) (l : Text) : Text := (l.reverse.takeWhile (· != c)).reverse

theorem afterLast_split (c : Char) (a s : Text) (hs : c ∉ s) : afterLast c (a ++ c :: s) = s := by
  unfold afterLast
  have : (a ++ c :: s).reverse = s.reverse ++ c :: a.reverse := by simp
  rw [this, takeWhile_append_cons]
  · simp
  · intro x hx
    have : x ∈ s := by simpa using hx
    simp only [bne_iff_ne, ne_eq]
    intro e; exact hs (e ▸ this)
  · simp

theorem afterLast_notin (c : Char) (l : Text) (h : c ∉ l) : afterLast c l = l := by
  unfold afterLast
  rw [takeWhile_all]
  · simp
  · intro x hx
    have : x ∈ l := by simpa using hx
    simp only [bne_iff_ne, ne_eq]
    intro e; exact h (e ▸ this)

theorem all_dots_iff (stem : Text) : stem.all (· == '.') = !stem.any (· != '.') := by
  induction stem with
  | nil => rfl
  | cons x r ih => simp only [List.all_cons, List.any_cons, ih, Bool.not_or]; cases h : (x == '.') <;> simp [bne, h]

theorem lastComponent_eq (p : Text) : Spec.C12.lastComponent p = afterLast '/' p := rfl

/-- `pre` is a whole number of path components: empty, or ending in the last `/` of the path -/
theorem splitext_core (pre comp : Text)
    (hsep : rfind '/' (pre ++ comp) 0 (-1) = (pre.length : Int) - 1)
    (hlast : afterLast '/' (pre ++ comp) = comp) :
    (splitext (pre ++ comp)).2 = Spec.C12.extOf (pre ++ comp) := by
  have hdp : rfind '.' pre 0 (-1) < ((0 + pre.length : Nat) : Int) := rfind_lt '.' pre 0 (-1) (by omega)
  unfold Spec.C12.extOf
  simp only [lastComponent_eq, hlast]
  show (splitext (pre ++ comp)).2 = (if (afterLast '.' comp).length = comp.length then []
    else if (comp.take (comp.length - (afterLast '.' comp).length - 1)).all (· == '.') then []
    else '.' :: afterLast '.' comp)
  rcases split_last '.' comp with h | ⟨stem, suf, hcomp, hsuf⟩
  · -- no dot in the last component
    have hd : rfind '.' (pre ++ comp) 0 (-1) = rfind '.' pre 0 (-1) := by
      rw [rfind_append, rfind_notin _ _ _ _ h]
    have hcond : ¬ rfind '.' pre 0 (-1) > (pre.length : Int) - 1 := by omega
    simp only [splitext, hsep, hd, hcond, if_false, afterLast_notin '.' comp h, if_true]
  · subst hcomp
    have hd : rfind '.' (pre ++ (stem ++ '.' :: suf)) 0 (-1) = ((pre.length + stem.length : Nat) : Int) := by
      rw [← List.append_assoc, rfind_last '.' (pre ++ stem) suf 0 (-1) hsuf]
      simp
    have hcond : ((pre.length + stem.length : Nat) : Int) > (pre.length : Int) - 1 := by omega
    have e1 : ((pre.length : Int) - 1 + 1).toNat = pre.length := by omega
    have e2 : (((pre.length + stem.length : Nat) : Int) - ((pre.length : Int) - 1 + 1)).toNat = stem.length := by
      omega
    have e3 : (((pre.length + stem.length : Nat) : Int)).toNat = pre.length + stem.length := by omega
    have hbetween : ((pre ++ (stem ++ '.' :: suf)).drop pre.length).take stem.length = stem := by
      simp
    have hdrop : (pre ++ (stem ++ '.' :: suf)).drop (pre.length + stem.length) = '.' :: suf := by
      rw [← List.append_assoc]
      have : pre.length + stem.length = (pre ++ stem).length := by simp
      rw [this, List.drop_left]
    have hlen : ¬ suf.length = (stem ++ '.' :: suf).length := by simp; omega
    have htake : (stem ++ '.' :: suf).take ((stem ++ '.' :: suf).length - suf.length - 1) = stem := by
      have : (stem ++ '.' :: suf).length - suf.length - 1 = stem.length := by simp; omega
      rw [this]; simp
    simp only [splitext, hsep, hd, hcond, if_true, e1, e2, e3, hbetween, hdrop,
      afterLast_split '.' stem suf hsuf, hlen, if_false, htake, all_dots_iff]
    cases stem.any (· != '.') <;> simp

/-- **The model's `os.path.splitext` computes the reference extension**, for every path. -/
theorem splitext_ext_eq (p : Text) : (splitext p).2 = Spec.C12.extOf p := by
  rcases split_last '/' p with h | ⟨d, comp, hp, hc⟩
  · have := splitext_core [] p (by simpa using rfind_notin '/' p 0 (-1) h) (by simpa using afterLast_notin '/' p h)
    simpa using this
  · subst hp
    have e : d ++ '/' :: comp = (d ++ ['/']) ++ comp := by simp
    rw [e]
    refine splitext_core (d ++ ['/']) comp ?_ ?_
    · rw [← e, rfind_last '/' d comp 0 (-1) hc]; simp
    · rw [← e]; exact afterLast_split '/' d comp hc

end XlVerif.Lemmas.C12
