/-
  Lemmas for C13, part 2: what `extract` copies.
  * the focus loop copies the focused cells, the focused names and the cells they are bound to;
  * the `if` / `elif` branches of the loop body (`baseStep`) copy a range / a cell of the model or nothing;
  * `pending`: the weight of what may still be pushed (for the termination measure).
-/
import XlVerif.Lemmas.C13Read
namespace XlVerif.Lemmas.C13
open XlVerif XlVerif.Model.Evaluator XlVerif.Model.C13

/-! ### setters -/

theorem hasKey_true {β} {k : Addr} {l : List (Addr × β)} : hasKey k l = true ↔ ∃ v, assoc k l = some v := by
  simp [hasKey, Option.isSome_iff_exists]

theorem hasKey_false {β} {k : Addr} {l : List (Addr × β)} : hasKey k l = false ↔ assoc k l = none := by
  simp [hasKey]

theorem hasKey_assocSet {β} (k a : Addr) (v : β) (l : List (Addr × β)) :
    hasKey k (assocSet a v l) = (decide (k = a) || hasKey k l) := by
  simp only [hasKey, assoc_assocSet]
  by_cases h : k = a <;> simp [h]

@[simp] theorem cell?_setCell (x : XModel) (a : Addr) (c : Cell) (k : Addr) :
    (x.setCell a c).st.cell? k = if k = a then some c else x.st.cell? k := by
  simp only [XModel.setCell, MState.cell?, assoc_assocSet]
@[simp] theorem range?_setCell (x : XModel) (a : Addr) (c : Cell) (k : Addr) :
    (x.setCell a c).st.range? k = x.st.range? k := rfl
@[simp] theorem names_setCell (x : XModel) (a : Addr) (c : Cell) : (x.setCell a c).st.names = x.st.names := rfl
@[simp] theorem rnames_setCell (x : XModel) (a : Addr) (c : Cell) : (x.setCell a c).rnames = x.rnames := rfl
@[simp] theorem ranges_setCell (x : XModel) (a : Addr) (c : Cell) : (x.setCell a c).st.ranges = x.st.ranges := rfl
@[simp] theorem formulae_setCell (x : XModel) (a : Addr) (c : Cell) : (x.setCell a c).formulae = x.formulae := rfl

@[simp] theorem range?_setRange (x : XModel) (a : Addr) (r : Range) (k : Addr) :
    (x.setRange a r).st.range? k = if k = a then some r else x.st.range? k := by
  simp only [XModel.setRange, MState.range?, assoc_assocSet]
@[simp] theorem cell?_setRange (x : XModel) (a : Addr) (r : Range) (k : Addr) :
    (x.setRange a r).st.cell? k = x.st.cell? k := rfl
@[simp] theorem cells_setRange (x : XModel) (a : Addr) (r : Range) : (x.setRange a r).st.cells = x.st.cells := rfl
@[simp] theorem names_setRange (x : XModel) (a : Addr) (r : Range) : (x.setRange a r).st.names = x.st.names := rfl
@[simp] theorem rnames_setRange (x : XModel) (a : Addr) (r : Range) : (x.setRange a r).rnames = x.rnames := rfl
@[simp] theorem formulae_setRange (x : XModel) (a : Addr) (r : Range) : (x.setRange a r).formulae = x.formulae := rfl

@[simp] theorem names_setName (x : XModel) (n t k : Addr) :
    assoc k (x.setName n t).st.names = if k = n then some t else assoc k x.st.names := by
  simp only [XModel.setName, assoc_assocSet]
@[simp] theorem cell?_setName (x : XModel) (n t k : Addr) : (x.setName n t).st.cell? k = x.st.cell? k := rfl
@[simp] theorem range?_setName (x : XModel) (n t k : Addr) : (x.setName n t).st.range? k = x.st.range? k := rfl
@[simp] theorem ranges_setName (x : XModel) (n t : Addr) : (x.setName n t).st.ranges = x.st.ranges := rfl
@[simp] theorem rnames_setName (x : XModel) (n t : Addr) : (x.setName n t).rnames = x.rnames := rfl
@[simp] theorem formulae_setName (x : XModel) (n t : Addr) : (x.setName n t).formulae = x.formulae := rfl

@[simp] theorem rnames_setRName (x : XModel) (n : Addr) (rn : RName) (k : Addr) :
    assoc k (x.setRName n rn).rnames = if k = n then some rn else assoc k x.rnames := by
  simp only [XModel.setRName, assoc_assocSet]
@[simp] theorem st_setRName (x : XModel) (n : Addr) (rn : RName) : (x.setRName n rn).st = x.st := rfl
@[simp] theorem formulae_setRName (x : XModel) (n : Addr) (rn : RName) : (x.setRName n rn).formulae = x.formulae := rfl

/-! ### "is a copy of part of `m`" and "has grown" -/

structure Sub (x m : XModel) : Prop where
  cell : ∀ a c, x.st.cell? a = some c → m.st.cell? a = some c
  range : ∀ k r, x.st.range? k = some r → m.st.range? k = some r
  name : ∀ n t, assoc n x.st.names = some t → assoc n m.st.names = some t
  rname : ∀ n rn, assoc n x.rnames = some rn → assoc n m.rnames = some rn

structure Le (x x' : XModel) : Prop where
  cell : ∀ a c, x.st.cell? a = some c → x'.st.cell? a = some c
  range : ∀ k r, x.st.range? k = some r → x'.st.range? k = some r
  name : ∀ n t, assoc n x.st.names = some t → assoc n x'.st.names = some t
  rname : ∀ n rn, assoc n x.rnames = some rn → assoc n x'.rnames = some rn

theorem Le.refl (x : XModel) : Le x x := ⟨fun _ _ h => h, fun _ _ h => h, fun _ _ h => h, fun _ _ h => h⟩
theorem Le.trans {x y z : XModel} (h1 : Le x y) (h2 : Le y z) : Le x z :=
  ⟨fun a c h => h2.cell a c (h1.cell a c h), fun a c h => h2.range a c (h1.range a c h),
   fun a c h => h2.name a c (h1.name a c h), fun a c h => h2.rname a c (h1.rname a c h)⟩

theorem sub_empty (m : XModel) : Sub XModel.empty m :=
  ⟨fun _ _ h => by simp [XModel.empty, MState.cell?, assoc] at h,
   fun _ _ h => by simp [XModel.empty, MState.range?, assoc] at h,
   fun _ _ h => by simp [XModel.empty, assoc] at h,
   fun _ _ h => by simp [XModel.empty, assoc] at h⟩

/-- a step of the copying: the result is still a copy of part of `m`, nothing copied was lost or changed -/
structure Grow (m x x' : XModel) : Prop where
  sub : Sub x' m
  le : Le x x'

theorem Grow.refl {m x : XModel} (h : Sub x m) : Grow m x x := ⟨h, Le.refl x⟩
theorem Grow.trans {m x y z : XModel} (h1 : Grow m x y) (h2 : Grow m y z) : Grow m x z :=
  ⟨h2.sub, h1.le.trans h2.le⟩

theorem grow_setCell {m x : XModel} (h : Sub x m) {a : Addr} {c : Cell} (hc : m.st.cell? a = some c) :
    Grow m x (x.setCell a c) where
  sub := ⟨fun k c' hk => by
            simp only [cell?_setCell] at hk
            by_cases hka : k = a
            · simp only [hka, if_true, Option.some.injEq] at hk; subst hk; rw [hka]; exact hc
            · simp only [hka, if_false] at hk; exact h.cell k c' hk,
          fun k r hk => h.range k r hk, fun n t hn => h.name n t hn, fun n rn hn => h.rname n rn hn⟩
  le := ⟨fun k c' hk => by
            simp only [cell?_setCell]
            by_cases hka : k = a
            · simp only [hka, if_true]; rw [hka] at hk; rw [← hc, h.cell a c' hk]
            · simp only [hka, if_false]; exact hk,
          fun _ _ hk => hk, fun _ _ hn => hn, fun _ _ hn => hn⟩

theorem grow_setRange {m x : XModel} (h : Sub x m) {a : Addr} {r : Range} (hr : m.st.range? a = some r) :
    Grow m x (x.setRange a r) where
  sub := ⟨fun k c hk => h.cell k c hk,
          fun k r' hk => by
            simp only [range?_setRange] at hk
            by_cases hka : k = a
            · simp only [hka, if_true, Option.some.injEq] at hk; subst hk; rw [hka]; exact hr
            · simp only [hka, if_false] at hk; exact h.range k r' hk,
          fun n t hn => h.name n t hn, fun n rn hn => h.rname n rn hn⟩
  le := ⟨fun _ _ hk => hk,
         fun k r' hk => by
            simp only [range?_setRange]
            by_cases hka : k = a
            · simp only [hka, if_true]; rw [hka] at hk; rw [← hr, h.range a r' hk]
            · simp only [hka, if_false]; exact hk,
         fun _ _ hn => hn, fun _ _ hn => hn⟩

theorem grow_setName {m x : XModel} (h : Sub x m) {n t : Addr} (hn : assoc n m.st.names = some t) :
    Grow m x (x.setName n t) where
  sub := ⟨fun k c hk => h.cell k c hk, fun k r hk => h.range k r hk,
          fun k t' hk => by
            simp only [names_setName] at hk
            by_cases hkn : k = n
            · simp only [hkn, if_true, Option.some.injEq] at hk; subst hk; rw [hkn]; exact hn
            · simp only [hkn, if_false] at hk; exact h.name k t' hk,
          fun k rn hk => h.rname k rn hk⟩
  le := ⟨fun _ _ hk => hk, fun _ _ hk => hk,
         fun k t' hk => by
            simp only [names_setName]
            by_cases hkn : k = n
            · simp only [hkn, if_true]; rw [hkn] at hk; rw [← hn, h.name n t' hk]
            · simp only [hkn, if_false]; exact hk,
         fun _ _ hk => hk⟩

theorem grow_setRName {m x : XModel} (h : Sub x m) {n : Addr} {rn : RName} (hn : assoc n m.rnames = some rn) :
    Grow m x (x.setRName n rn) where
  sub := ⟨fun k c hk => h.cell k c hk, fun k r hk => h.range k r hk, fun k t hk => h.name k t hk,
          fun k rn' hk => by
            simp only [rnames_setRName] at hk
            by_cases hkn : k = n
            · simp only [hkn, if_true, Option.some.injEq] at hk; subst hk; rw [hkn]; exact hn
            · simp only [hkn, if_false] at hk; exact h.rname k rn' hk⟩
  le := ⟨fun _ _ hk => hk, fun _ _ hk => hk, fun _ _ hk => hk,
         fun k rn' hk => by
            simp only [rnames_setRName]
            by_cases hkn : k = n
            · simp only [hkn, if_true]; rw [hkn] at hk; rw [← hn, h.rname n rn' hk]
            · simp only [hkn, if_false]; exact hk⟩

/-! ### the focus loop -/

theorem copyCell_ok {m x x' : XModel} {a : Addr} (h : copyCell m x a = .ok x') (hs : Sub x m) :
    Grow m x x' ∧ x'.st.cell? a = m.st.cell? a ∧ (∃ c, m.st.cell? a = some c)
      ∧ x'.st.ranges = x.st.ranges ∧ x'.formulae = x.formulae := by
  unfold copyCell at h
  cases hc : m.st.cell? a with
  | none => rw [hc] at h; cases h
  | some c =>
    rw [hc] at h
    simp only [Except.ok.injEq] at h
    subst h
    exact ⟨grow_setCell hs hc, by simp, ⟨c, rfl⟩, rfl, rfl⟩

theorem copyCellsOpt_ok {m : XModel} : ∀ (l : List Addr) (x : XModel), Sub x m →
    Grow m x (copyCellsOpt m x l) ∧ (∀ b ∈ l, ∀ c, m.st.cell? b = some c → (copyCellsOpt m x l).st.cell? b = some c)
      ∧ (copyCellsOpt m x l).st.ranges = x.st.ranges ∧ (copyCellsOpt m x l).formulae = x.formulae
  | [], x, hs => ⟨Grow.refl hs, fun _ hb => (by cases hb), rfl, rfl⟩
  | a :: rest, x, hs => by
    simp only [copyCellsOpt]
    cases hc : m.st.cell? a with
    | none =>
      simp only
      obtain ⟨g, hall, hr, hf⟩ := copyCellsOpt_ok rest x hs
      refine ⟨g, ?_, hr, hf⟩
      intro b hb c hbc
      cases hb with
      | head => rw [hc] at hbc; cases hbc
      | tail _ hb' => exact hall b hb' c hbc
    | some c0 =>
      simp only
      have g1 := grow_setCell hs hc
      obtain ⟨g2, hall, hr, hf⟩ := copyCellsOpt_ok rest (x.setCell a c0) g1.sub
      refine ⟨g1.trans g2, ?_, hr, hf⟩
      intro b hb c hbc
      cases hb with
      | head =>
        rw [hc] at hbc
        simp only [Option.some.injEq] at hbc
        subst hbc
        exact g2.le.cell a c0 (by simp)
      | tail _ hb' => exact hall b hb' c hbc

/-- what the loop body has achieved for the focused address `a` -/
structure FocusDone (m x : XModel) (a : Addr) : Prop where
  cell : ∀ c, m.st.cell? a = some c → x.st.cell? a = some c
  name : m.st.cell? a = none → ∀ t, assoc a m.st.names = some t →
    assoc a x.st.names = some t ∧ ∃ c, m.st.cell? t = some c ∧ x.st.cell? t = some c
  rname : m.st.cell? a = none → assoc a m.st.names = none → ∀ rn, assoc a m.rnames = some rn →
    assoc a x.rnames = some rn ∧ ∀ b ∈ rn.cells.flatten, ∀ c, m.st.cell? b = some c → x.st.cell? b = some c

theorem FocusDone.mono {m x x' : XModel} {a : Addr} (h : FocusDone m x a) (hle : Le x x') : FocusDone m x' a where
  cell := fun c hc => hle.cell a c (h.cell c hc)
  name := fun h0 t ht => by
    obtain ⟨h1, c, hc, hx⟩ := h.name h0 t ht
    exact ⟨hle.name a t h1, c, hc, hle.cell t c hx⟩
  rname := fun h0 h1 rn hrn => by
    obtain ⟨h2, hall⟩ := h.rname h0 h1 rn hrn
    exact ⟨hle.rname a rn h2, fun b hb c hc => hle.cell b c (hall b hb c hc)⟩

theorem focusStep_ok {m x x' : XModel} {a : Addr} (h : focusStep m x a = .ok x') (hs : Sub x m) :
    Grow m x x' ∧ FocusDone m x' a ∧ x'.st.ranges = x.st.ranges ∧ x'.formulae = x.formulae := by
  unfold focusStep at h
  cases hc : m.st.cell? a with
  | some c =>
    rw [hc] at h
    simp only [Except.ok.injEq] at h
    subst h
    refine ⟨grow_setCell hs hc, ⟨fun c' hc' => ?_, fun h0 => ?_, fun h0 => ?_⟩, rfl, rfl⟩
    · rw [hc] at hc'; simp only [cell?_setCell, if_true]; exact hc'
    · rw [hc] at h0; cases h0
    · rw [hc] at h0; cases h0
  | none =>
    rw [hc] at h
    simp only at h
    cases hn : assoc a m.st.names with
    | some t =>
      rw [hn] at h
      simp only at h
      have g0 := grow_setName (x := x) hs hn
      obtain ⟨g1, hc1, ⟨c, hct⟩, hr1, hf1⟩ := copyCell_ok h g0.sub
      refine ⟨g0.trans g1, ⟨fun c' hc' => ?_, ?_, fun _ h1 => ?_⟩, hr1, hf1⟩
      · rw [hc] at hc'; cases hc'
      · intro _ t' ht'
        rw [hn] at ht'
        simp only [Option.some.injEq] at ht'
        subst ht'
        exact ⟨g1.le.name a t (by simp), c, hct, by rw [hc1, hct]⟩
      · rw [hn] at h1; cases h1
    | none =>
      rw [hn] at h
      simp only at h
      cases hrn : assoc a m.rnames with
      | some rn =>
        rw [hrn] at h
        simp only [Except.ok.injEq] at h
        subst h
        have g0 := grow_setRName (x := x) hs hrn
        obtain ⟨g1, hall, hr1, hf1⟩ := copyCellsOpt_ok rn.cells.flatten _ g0.sub
        refine ⟨g0.trans g1, ⟨fun c' hc' => ?_, fun _ t ht => ?_, ?_⟩, hr1, hf1⟩
        · rw [hc] at hc'; cases hc'
        · rw [hn] at ht; cases ht
        · intro _ _ rn' hrn'
          rw [hrn] at hrn'
          simp only [Option.some.injEq] at hrn'
          subst hrn'
          exact ⟨g1.le.rname a rn (by simp), hall⟩
      | none =>
        rw [hrn] at h
        simp only [Except.ok.injEq] at h
        subst h
        refine ⟨Grow.refl hs, ⟨fun c' hc' => ?_, fun _ t ht => ?_, fun _ _ rn hrn' => ?_⟩, rfl, rfl⟩
        · rw [hc] at hc'; cases hc'
        · rw [hn] at ht; cases ht
        · rw [hrn] at hrn'; cases hrn'

theorem focusPhase_ok {m : XModel} : ∀ (l : List Addr) (x x' : XModel), focusPhase m x l = .ok x' → Sub x m →
    Grow m x x' ∧ (∀ a ∈ l, FocusDone m x' a) ∧ x'.st.ranges = x.st.ranges ∧ x'.formulae = x.formulae
  | [], x, x', h, hs => by
    simp only [focusPhase, Except.ok.injEq] at h
    subst h
    exact ⟨Grow.refl hs, fun _ ha => (by cases ha), rfl, rfl⟩
  | a :: rest, x, x', h, hs => by
    simp only [focusPhase] at h
    cases h1 : focusStep m x a with
    | error e => rw [h1] at h; cases h
    | ok x1 =>
      rw [h1] at h
      obtain ⟨g1, hd, hr1, hf1⟩ := focusStep_ok h1 hs
      obtain ⟨g2, hall, hr2, hf2⟩ := focusPhase_ok rest x1 x' h g1.sub
      refine ⟨g1.trans g2, ?_, hr2.trans hr1, hf2.trans hf1⟩
      intro b hb
      cases hb with
      | head => exact hd.mono g2.le
      | tail _ hb' => exact hall b hb'

/-! ### the worklist -/

/-- `t` needs no more copying -/
def Handled (m x : XModel) (t : Addr) : Prop :=
  (∀ r, m.st.range? t = some r → x.st.range? t = some r)
    ∧ (∀ c, m.st.cell? t = some c → x.st.cell? t = some c)

theorem Handled.mono {m x x' : XModel} {t : Addr} (h : Handled m x t) (hle : Le x x') : Handled m x' t :=
  ⟨fun r hr => hle.range t r (h.1 r hr), fun c hc => hle.cell t c (h.2 c hc)⟩

/-- the three outcomes of the `if` / `elif` branches -/
theorem baseStep_cases (m x : XModel) (t : Addr) :
    (∃ r, m.st.range? t = some r ∧ x.st.range? t = none
        ∧ baseStep m x t = (x.setRange t r, r.cells.flatten.reverse))
    ∨ (∃ c, m.st.cell? t = some c ∧ x.st.cell? t = none
        ∧ (∀ r, m.st.range? t = some r → x.st.range? t ≠ none)
        ∧ baseStep m x t = (x.setCell t c, (cellTerms c).reverse))
    ∨ ((∀ r, m.st.range? t = some r → x.st.range? t ≠ none)
        ∧ (∀ c, m.st.cell? t = some c → x.st.cell? t ≠ none) ∧ baseStep m x t = (x, [])) := by
  have hcs : (∃ c, m.st.cell? t = some c ∧ x.st.cell? t = none
        ∧ cellStep m x t = (x.setCell t c, (cellTerms c).reverse))
      ∨ ((∀ c, m.st.cell? t = some c → x.st.cell? t ≠ none) ∧ cellStep m x t = (x, [])) := by
    unfold cellStep
    cases hc : m.st.cell? t with
    | none => exact Or.inr ⟨fun c h => (by cases h), rfl⟩
    | some c =>
      cases hk : hasKey t x.st.cells with
      | true =>
        refine Or.inr ⟨fun c' _ => ?_, by simp⟩
        obtain ⟨v, hv⟩ := hasKey_true.mp hk
        simp [MState.cell?, hv]
      | false =>
        exact Or.inl ⟨c, rfl, hasKey_false.mp hk, by simp⟩
  unfold baseStep
  cases hr : m.st.range? t with
  | none =>
    simp only
    rcases hcs with ⟨c, h1, h2, h3⟩ | ⟨h1, h2⟩
    · exact Or.inr (Or.inl ⟨c, h1, h2, fun r h => (by cases h), h3⟩)
    · exact Or.inr (Or.inr ⟨fun r h => (by cases h), h1, h2⟩)
  | some r =>
    simp only
    cases hk : hasKey t x.st.ranges with
    | false => exact Or.inl ⟨r, rfl, hasKey_false.mp hk, by simp⟩
    | true =>
      have hne : ∀ r', some r = some r' → x.st.range? t ≠ none := by
        intro _ _
        obtain ⟨v, hv⟩ := hasKey_true.mp hk
        simp [MState.range?, hv]
      simp only [if_true]
      rcases hcs with ⟨c, h1, h2, h3⟩ | ⟨h1, h2⟩
      · exact Or.inr (Or.inl ⟨c, h1, h2, hne, h3⟩)
      · exact Or.inr (Or.inr ⟨hne, h1, h2⟩)

theorem baseStep_grow {m x : XModel} (hs : Sub x m) (t : Addr) : Grow m x (baseStep m x t).1 := by
  rcases baseStep_cases m x t with ⟨r, h1, _, h3⟩ | ⟨c, h1, _, _, h4⟩ | ⟨_, _, h3⟩
  · rw [h3]; exact grow_setRange hs h1
  · rw [h4]; exact grow_setCell hs h1
  · rw [h3]; exact Grow.refl hs

theorem baseStep_names (m x : XModel) (t : Addr) :
    (baseStep m x t).1.st.names = x.st.names ∧ (baseStep m x t).1.rnames = x.rnames
      ∧ (baseStep m x t).1.formulae = x.formulae := by
  rcases baseStep_cases m x t with ⟨r, _, _, h3⟩ | ⟨c, _, _, _, h4⟩ | ⟨_, _, h3⟩
  · refine ⟨?_, ?_, ?_⟩ <;> rw [h3] <;> rfl
  · refine ⟨?_, ?_, ?_⟩ <;> rw [h4] <;> rfl
  · refine ⟨?_, ?_, ?_⟩ <;> rw [h3]

/-- hygiene: a range key is not a cell address -/
def RangeNotCell (m : XModel) : Prop := ∀ k r, m.st.range? k = some r → m.st.cell? k = none

/-! ### weights for the termination measure -/

/-- the weight of the entries of `l` whose key is not yet a key of `xs` -/
def pending {β γ} (w : β → Nat) (l : List (Addr × β)) (xs : List (Addr × γ)) : Nat :=
  sumNat (l.map fun p => if hasKey p.1 xs then 0 else w p.2)

theorem pending_le_total {β γ} (w : β → Nat) (l : List (Addr × β)) (xs : List (Addr × γ)) :
    pending w l xs ≤ sumNat (l.map fun p => w p.2) := by
  induction l with
  | nil => simp [pending, sumNat]
  | cons p rest ih =>
    simp only [pending, List.map_cons, sumNat] at ih ⊢
    split <;> omega

theorem pending_assocSet_le {β γ} (w : β → Nat) (l : List (Addr × β)) (xs : List (Addr × γ)) (t : Addr) (v : γ) :
    pending w l (assocSet t v xs) ≤ pending w l xs := by
  induction l with
  | nil => simp [pending, sumNat]
  | cons p rest ih =>
    simp only [pending, List.map_cons, sumNat, hasKey_assocSet] at ih ⊢
    by_cases h1 : hasKey p.1 xs = true
    · simp only [h1, Bool.or_true, if_true]; omega
    · by_cases h2 : p.1 = t
      · simp only [h2, decide_true, Bool.true_or, if_true]; omega
      · simp only [h1, h2, decide_false, Bool.false_or]; omega

theorem pending_assocSet {β γ} (w : β → Nat) (l : List (Addr × β)) (xs : List (Addr × γ)) (t : Addr) (v : γ)
    (c : β) (hc : assoc t l = some c) (hx : hasKey t xs = false) :
    pending w l (assocSet t v xs) + w c ≤ pending w l xs := by
  induction l with
  | nil => simp [assoc] at hc
  | cons p rest ih =>
    obtain ⟨k, b⟩ := p
    by_cases hk : t = k
    · subst hk
      simp only [assoc, if_true, Option.some.injEq] at hc
      subst hc
      have := pending_assocSet_le w rest xs t v
      simp only [pending, List.map_cons, sumNat, hasKey_assocSet, decide_true, Bool.true_or, if_true, hx] at this ⊢
      simp only [Bool.false_eq_true, if_false]
      omega
    · simp only [assoc, hk, if_false] at hc
      have ih' := ih hc
      have hk' : ¬ k = t := fun h => hk h.symm
      simp only [pending, List.map_cons, sumNat, hasKey_assocSet, hk', decide_false, Bool.false_or] at ih' ⊢
      omega

/-! ### hygiene of compiled workbooks -/

structure WF (m : XModel) : Prop where
  /-- a range key is not a cell address -/
  rangeNotCell : RangeNotCell m
  /-- a defined name is neither a cell address nor a range key -/
  nameNotCell : ∀ n, m.isName n = true → m.st.cell? n = none ∧ m.st.range? n = none
  /-- a name is bound to a cell address, not to another name -/
  targetNotName : ∀ n t, assoc n m.st.names = some t → m.isName t = false
  /-- the members of a named range are cell addresses: neither names nor range keys -/
  memberNotName : ∀ n rn, assoc n m.rnames = some rn → ∀ b ∈ rn.cells.flatten, m.isName b = false
  memberNotRange : ∀ n rn, assoc n m.rnames = some rn → ∀ b ∈ rn.cells.flatten, m.st.range? b = none
  /-- a named range is registered in `ranges` under its key (`build_defined_names` does both) -/
  registered : ∀ n rn, assoc n m.rnames = some rn → m.st.range? rn.key ≠ none
  /-- the members of a range are cell addresses, not defined names -/
  rangeMemberNotName : ∀ k r, m.st.range? k = some r → ∀ y ∈ r.cells.flatten, m.isName y = false

theorem assoc_mem {β} {k : Addr} {v : β} : ∀ {l : List (Addr × β)}, assoc k l = some v → (k, v) ∈ l
  | [], h => by simp [assoc] at h
  | (k', v') :: rest, h => by
    by_cases hk : k = k'
    · simp only [assoc, hk, if_true, Option.some.injEq] at h
      subst h; subst hk; exact List.mem_cons_self
    · simp only [assoc, hk, if_false] at h
      exact List.mem_cons_of_mem _ (assoc_mem h)

theorem wf_of_wfb {m : XModel} (h : wfb m = true) : WF m := by
  simp only [wfb, Bool.and_eq_true, List.all_eq_true, Bool.not_eq_true'] at h
  obtain ⟨⟨h1, h2⟩, h3⟩ := h
  refine ⟨?_, ?_, ?_, ?_, ?_, ?_, ?_⟩
  · intro k r hr
    exact hasKey_false.mp (h1 (k, r) (assoc_mem hr)).1
  · intro n hn
    simp only [XModel.isName, Bool.or_eq_true] at hn
    rcases hn with hn | hn
    · obtain ⟨t, ht⟩ := hasKey_true.mp hn
      have := h2 (n, t) (assoc_mem ht)
      exact ⟨hasKey_false.mp this.1.1, hasKey_false.mp this.1.2⟩
    · obtain ⟨rn, hrn⟩ := hasKey_true.mp hn
      have := h3 (n, rn) (assoc_mem hrn)
      exact ⟨hasKey_false.mp this.1.1.1, hasKey_false.mp this.1.1.2⟩
  · intro n t ht
    exact (h2 (n, t) (assoc_mem ht)).2
  · intro n rn hrn b hb
    exact ((h3 (n, rn) (assoc_mem hrn)).2 b hb).1
  · intro n rn hrn b hb
    exact hasKey_false.mp ((h3 (n, rn) (assoc_mem hrn)).2 b hb).2
  · intro n rn hrn
    obtain ⟨v, hv⟩ := hasKey_true.mp (h3 (n, rn) (assoc_mem hrn)).1.2
    simp [MState.range?, hv]
  · intro k r hr y hy
    exact (h1 (k, r) (assoc_mem hr)).2 y hy

theorem key_not_name {m : XModel} (hwf : WF m) {n : Addr} {rn : RName}
    (h : assoc n m.rnames = some rn) : m.isName rn.key = false := by
  cases hk : m.isName rn.key with
  | false => rfl
  | true => exact absurd (hwf.nameNotCell _ hk).2 (hwf.registered n rn h)

end XlVerif.Lemmas.C13
