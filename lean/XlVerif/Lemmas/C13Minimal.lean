/-
  Lemmas for C13, part 5: nothing outside the closure is copied.
-/
import XlVerif.Lemmas.C13Sound
namespace XlVerif.Lemmas.C13
open XlVerif XlVerif.Model.Evaluator XlVerif.Model.C13 XlVerif.Spec.C13

/-- every copied cell / range lies in `R`; every term on the list denotes an address of `R` -/
structure AllIn (m : XModel) (R : Addr → Prop) (x : XModel) (todo : List Addr) : Prop where
  cell : ∀ a c, x.st.cell? a = some c → R a
  range : ∀ k r, x.st.range? k = some r → R k
  todo : ∀ t ∈ todo, R (target m t)

section
variable {m : XModel} {focus : List Addr}

theorem target_of_not_name {t : Addr} (h : m.isName t = false) : target m t = t := by
  obtain ⟨h1, h2⟩ := isName_false h
  simp only [target, h1, h2]

theorem not_name_of_entry (hwf : WF m) {t : Addr} (h : m.st.range? t ≠ none ∨ m.st.cell? t ≠ none) :
    m.isName t = false := by
  cases hn : m.isName t with
  | false => rfl
  | true =>
    obtain ⟨h1, h2⟩ := hwf.nameNotCell t hn
    rcases h with h | h
    · exact absurd h2 h
    · exact absurd h1 h

theorem terms_in_closure {a : Addr} {c : Cell}
    (ha : Closure (deps m) focus a) (hc : m.st.cell? a = some c) :
    ∀ u ∈ cellTerms c, Closure (deps m) focus (target m u) := by
  intro u hu
  apply Closure.step ha
  simp only [deps, hc, List.mem_append]
  refine Or.inr (Or.inl ?_)
  cases hf : c.formula with
  | none => simp [cellTerms, hf] at hu
  | some f =>
    simp only
    rw [mem_terms, refs_substFx, List.mem_map]
    exact ⟨u, (mem_terms u f).mp (by simpa [cellTerms, hf] using hu), rfl⟩

theorem members_in_closure {a : Addr} {r : Range} (ha : Closure (deps m) focus a)
    (hr : m.st.range? a = some r) : ∀ y ∈ r.cells.flatten, Closure (deps m) focus y := by
  intro y hy
  apply Closure.step ha
  simp only [deps, hr, List.mem_append]
  exact Or.inr (Or.inr hy)

theorem mem_assocSet {β} {p : Addr × β} {a : Addr} {v : β} : ∀ {l : List (Addr × β)},
    p ∈ assocSet a v l → p ∈ l ∨ p = (a, v)
  | [], h => by simp [assocSet] at h; exact Or.inr h
  | (k, w) :: rest, h => by
    by_cases hak : a = k
    · simp only [assocSet, hak, if_true, List.mem_cons] at h
      rcases h with h | h
      · exact Or.inr (by rw [h, hak])
      · exact Or.inl (List.mem_cons_of_mem _ h)
    · simp only [assocSet, hak, if_false, List.mem_cons] at h
      rcases h with h | h
      · exact Or.inl (by rw [h]; exact List.mem_cons_self)
      · rcases mem_assocSet h with h' | h'
        · exact Or.inl (List.mem_cons_of_mem _ h')
        · exact Or.inr h'

/-- every ENTRY of the copied cells is a copy of the model's cell at an address of `R` -/
def Entries (m : XModel) (R : Addr → Prop) (x : XModel) : Prop :=
  ∀ p ∈ x.st.cells, m.st.cell? p.1 = some p.2 ∧ R p.1

theorem copyCell_entries {R : Addr → Prop} {x x' : XModel} {b : Addr} (h : copyCell m x b = .ok x')
    (hb : R b) (hx : Entries m R x) : Entries m R x' := by
  unfold copyCell at h
  cases hm : m.st.cell? b with
  | none => rw [hm] at h; cases h
  | some c0 =>
    rw [hm] at h
    simp only [Except.ok.injEq] at h
    subst h
    intro p hp
    rcases mem_assocSet hp with hp | hp
    · exact hx p hp
    · rw [hp]; exact ⟨hm, hb⟩

theorem copyCellsOpt_entries {R : Addr → Prop} : ∀ (l : List Addr) (x : XModel),
    (∀ b ∈ l, R b) → Entries m R x → Entries m R (copyCellsOpt m x l)
  | [], _, _, hx => hx
  | b :: rest, x, hl, hx => by
    simp only [copyCellsOpt]
    cases hm : m.st.cell? b with
    | none => exact copyCellsOpt_entries rest x (fun y hy => hl y (List.mem_cons_of_mem _ hy)) hx
    | some c0 =>
      apply copyCellsOpt_entries rest _ (fun y hy => hl y (List.mem_cons_of_mem _ hy))
      intro p hp
      rcases mem_assocSet hp with hp | hp
      · exact hx p hp
      · rw [hp]; exact ⟨hm, hl b List.mem_cons_self⟩

theorem focusStep_entries {x x' : XModel} {a : Addr} (h : focusStep m x a = .ok x')
    (ha : Closure (deps m) focus a) (hx : Entries m (Closure (deps m) focus) x) :
    Entries m (Closure (deps m) focus) x' := by
  unfold focusStep at h
  cases hc : m.st.cell? a with
  | some c0 =>
    rw [hc] at h
    simp only [Except.ok.injEq] at h
    subst h
    intro p hp
    rcases mem_assocSet hp with hp | hp
    · exact hx p hp
    · rw [hp]; exact ⟨hc, ha⟩
  | none =>
    rw [hc] at h
    simp only at h
    cases hn : assoc a m.st.names with
    | some t =>
      rw [hn] at h
      simp only at h
      exact copyCell_entries h (Closure.step ha (by simp [deps, hn])) (fun p hp => hx p hp)
    | none =>
      rw [hn] at h
      simp only at h
      cases hrn : assoc a m.rnames with
      | some rn =>
        rw [hrn] at h
        simp only [Except.ok.injEq] at h
        subst h
        exact copyCellsOpt_entries _ _
          (fun b hb => Closure.step ha (by simp only [deps, hn, hrn, List.mem_append]; exact Or.inl hb))
          (fun p hp => hx p hp)
      | none =>
        rw [hrn] at h
        simp only [Except.ok.injEq] at h
        subst h
        exact hx

theorem focusPhase_entries : ∀ (l : List Addr) (x x' : XModel), focusPhase m x l = .ok x' →
    (∀ a ∈ l, Closure (deps m) focus a) → Entries m (Closure (deps m) focus) x →
    Entries m (Closure (deps m) focus) x'
  | [], x, x', h, _, hx => by
    simp only [focusPhase, Except.ok.injEq] at h; subst h; exact hx
  | a :: rest, x, x', h, hl, hx => by
    simp only [focusPhase] at h
    cases h1 : focusStep m x a with
    | error e => rw [h1] at h; cases h
    | ok x1 =>
      rw [h1] at h
      exact focusPhase_entries rest x1 x' h (fun y hy => hl y (List.mem_cons_of_mem _ hy))
        (focusStep_entries h1 (hl a List.mem_cons_self) hx)

theorem step_allIn (hwf : WF m) {x : XModel} (hs : Sub x m) {t : Addr} {rest : List Addr}
    (h : AllIn m (Closure (deps m) focus) x (t :: rest)) :
    AllIn m (Closure (deps m) focus) (step m x t).1 ((step m x t).2 ++ rest) := by
  have ht := h.todo t List.mem_cons_self
  have hrest : ∀ u ∈ rest, Closure (deps m) focus (target m u) :=
    fun u hu => h.todo u (List.mem_cons_of_mem _ hu)
  rcases step_cases m x t with ⟨_, _, he⟩ | ⟨hne, he⟩
  · -- a defined name: what it is bound to is pushed
    rw [he]
    obtain ⟨_, hcells, hranges, _, hn1, hn2, hn3⟩ := nameStep_spec hs t
    refine ⟨fun a c hc => h.cell a c (by simpa only [MState.cell?, hcells] using hc),
      fun k r hk => h.range k r (by simpa only [MState.range?, hranges] using hk), fun u hu => ?_⟩
    rcases List.mem_append.mp hu with hu | hu
    · cases hn : assoc t m.st.names with
      | some a =>
        rw [(hn1 a hn).2, List.mem_singleton] at hu
        subst hu
        rw [target_of_not_name (hwf.targetNotName t _ hn)]
        simpa only [target, hn] using ht
      | none =>
        cases hrn : assoc t m.rnames with
        | some rn =>
          rw [(hn2 hn rn hrn).2, List.mem_singleton] at hu
          subst hu
          rw [target_of_not_name (key_not_name hwf hrn)]
          simpa only [target, hn, hrn] using ht
        | none => rw [hn3 hn hrn] at hu; cases hu
    · exact hrest u hu
  · -- a cell or a range of the model
    rw [he]
    have htt : Closure (deps m) focus t := by
      rw [target_of_not_name (not_name_of_entry hwf hne)] at ht; exact ht
    rcases baseStep_cases m x t with ⟨r, h1, _, h3⟩ | ⟨c, h1, _, _, h4⟩ | ⟨_, _, h3⟩
    · rw [h3]
      refine ⟨fun a c hc => h.cell a c hc, fun k r' hk => ?_, fun u hu => ?_⟩
      · simp only [range?_setRange] at hk
        by_cases hkt : k = t
        · rw [hkt]; exact htt
        · simp only [hkt, if_false] at hk; exact h.range k r' hk
      · rcases List.mem_append.mp hu with hu | hu
        · have hy := List.mem_reverse.mp hu
          rw [target_of_not_name (hwf.rangeMemberNotName t r h1 u hy)]
          exact members_in_closure htt h1 u hy
        · exact hrest u hu
    · rw [h4]
      refine ⟨fun a c' hc => ?_, fun k r hk => h.range k r hk, fun u hu => ?_⟩
      · simp only [cell?_setCell] at hc
        by_cases hat : a = t
        · rw [hat]; exact htt
        · simp only [hat, if_false] at hc; exact h.cell a c' hc
      · rcases List.mem_append.mp hu with hu | hu
        · exact terms_in_closure htt h1 u (List.mem_reverse.mp hu)
        · exact hrest u hu
    · rw [h3]
      exact ⟨h.cell, h.range, fun u hu => hrest u (by simpa using hu)⟩

theorem worklist_allIn (hwf : WF m) : ∀ (n : Nat) (x : XModel) (todo : List Addr), Sub x m →
    AllIn m (Closure (deps m) focus) x todo →
      AllIn m (Closure (deps m) focus) (worklist m n x todo).1 (worklist m n x todo).2
  | 0, _, _, _, h => h
  | _ + 1, _, [], _, h => h
  | n + 1, x, t :: rest, hs, h => by
    simp only [worklist]
    exact worklist_allIn hwf n _ _ (step_grow hs t).sub (step_allIn hwf hs h)

/-- every cell and every range of the extracted model lies in the closure of the focus -/
theorem extract_minimal_aux (hwf : WF m) {x : XModel} (hx : extract m focus = .ok x) :
    (∀ a c, x.st.cell? a = some c → Closure (deps m) focus a)
    ∧ (∀ k r, x.st.range? k = some r → Closure (deps m) focus k) := by
  unfold extract at hx
  cases h0 : focusPhase m XModel.empty focus with
  | error e => rw [h0] at hx; cases hx
  | ok x0 =>
    rw [h0] at hx
    simp only [Except.ok.injEq] at hx
    obtain ⟨g, _, hr, _⟩ := focusPhase_ok focus _ _ h0 (sub_empty m)
    have hent := focusPhase_entries focus XModel.empty x0 h0 (fun a ha => Closure.root ha)
      (fun p hp => by simp [XModel.empty] at hp)
    have hinit : AllIn m (Closure (deps m) focus) x0 (initTerms x0).reverse := by
      refine ⟨fun a c hc => (hent (a, c) (assoc_mem hc)).2, fun k r hk => ?_, fun t ht => ?_⟩
      · rw [MState.range?, hr] at hk; simp [XModel.empty, assoc] at hk
      · have ht' := List.mem_reverse.mp ht
        simp only [initTerms, List.mem_flatMap, List.mem_filter] at ht'
        obtain ⟨p, hp, htc, _⟩ := ht'
        obtain ⟨h1, h2⟩ := hent p hp
        exact terms_in_closure h2 h1 t htc
    have := worklist_allIn hwf (workFuel m (initTerms x0).reverse) x0 _ g.sub hinit
    rw [hx] at this
    exact ⟨this.cell, this.range⟩

end
end XlVerif.Lemmas.C13
