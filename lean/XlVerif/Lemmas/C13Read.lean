/-
  Lemmas for C13, part 1: evaluation reads only a closed set of addresses.
  If `R` is closed under the dependencies of `m₁` and `m₂` agrees with `m₁` on `R` (same name
  resolution, same constants, same formula trees, same range matrices), the reference evaluation of
  every address of `R` gives the same result — whole context included — on both models.
  Also: agreement and closedness survive the same `setCellValue` on both models.
-/
import XlVerif.Model.C13
namespace XlVerif.Lemmas.C13
open XlVerif XlVerif.Model.Evaluator XlVerif.Model.C13

/-! ### association lists -/

theorem assoc_assocUpdate {β} (k a : Addr) (f : β → β) (l : List (Addr × β)) :
    assoc k (assocUpdate a f l) = if k = a then (assoc k l).map f else assoc k l := by
  induction l with
  | nil => simp [assoc, assocUpdate]
  | cons p rest ih =>
    obtain ⟨k', v'⟩ := p
    by_cases hak : a = k'
    · subst hak
      by_cases hk : k = a
      · subst hk; simp [assoc, assocUpdate]
      · simp [assoc, assocUpdate, hk]
    · by_cases hk : k = k'
      · subst hk
        have : ¬ k = a := fun h => hak h.symm
        simp [assoc, assocUpdate, hak, this]
      · simp only [assocUpdate, hak, if_false, assoc, hk, ih]

theorem assoc_append_single {β} (k a : Addr) (v : β) (l : List (Addr × β)) :
    assoc k (l ++ [(a, v)]) = match assoc k l with
      | some x => some x
      | none => if k = a then some v else none := by
  induction l with
  | nil => simp [assoc]
  | cons p rest ih =>
    obtain ⟨k', v'⟩ := p
    by_cases hk : k = k'
    · simp [assoc, hk]
    · simp only [List.cons_append, assoc, hk, if_false, ih]

theorem assoc_assocSet {β} (k a : Addr) (v : β) (l : List (Addr × β)) :
    assoc k (assocSet a v l) = if k = a then some v else assoc k l := by
  induction l with
  | nil => simp [assoc, assocSet]
  | cons p rest ih =>
    obtain ⟨k', v'⟩ := p
    by_cases hak : a = k'
    · subst hak
      by_cases hk : k = a
      · subst hk; simp [assoc, assocSet]
      · simp [assoc, assocSet, hk]
    · by_cases hk : k = k'
      · subst hk
        have : ¬ k = a := fun h => hak h.symm
        simp [assoc, assocSet, hak, this]
      · simp only [assocSet, hak, if_false, assoc, hk, ih]

theorem assoc_map_snd {β γ} (k : Addr) (g : β → γ) (l : List (Addr × β)) :
    assoc k (l.map fun p => (p.1, g p.2)) = (assoc k l).map g := by
  induction l with
  | nil => simp [assoc]
  | cons p rest ih =>
    obtain ⟨k', v'⟩ := p
    by_cases hk : k = k'
    · simp [assoc, hk]
    · simp only [List.map_cons, assoc, hk, if_false, ih]

/-! ### `terms` lists exactly the references -/

theorem mem_dedup (a : Addr) : ∀ l : List Addr, a ∈ dedup l ↔ a ∈ l
  | [] => by simp [dedup]
  | b :: rest => by
    have ih := mem_dedup a rest
    by_cases h : a = b
    · simp [dedup, h]
    · simp [dedup, h, ih]

theorem mem_terms (a : Addr) (f : Fx) : a ∈ terms f ↔ a ∈ refsFx f := mem_dedup a _

/-! ### agreement on a closed set -/

/-- two cells look the same to the evaluator: the stored value of a formula cell is never read -/
def CellAgree : Option Cell → Option Cell → Prop
  | none, none => True
  | some a, some b =>
    a.formula = b.formula ∧ a.formulaLen = b.formulaLen ∧ (a.formula = none → a.value = b.value)
  | _, _ => False

structure Agree (R : Addr → Prop) (m₁ m₂ : MState) : Prop where
  resolve : ∀ a, R a → m₁.resolve a = m₂.resolve a
  cell : ∀ a, R a → CellAgree (m₁.cell? a) (m₂.cell? a)
  range : ∀ a, R a → (m₁.range? a).map (·.cells) = (m₂.range? a).map (·.cells)

structure Closed (R : Addr → Prop) (m : MState) : Prop where
  resolve : ∀ a, R a → R (m.resolve a)
  cell : ∀ a c f, R a → m.cell? a = some c → c.formula = some f → ∀ t ∈ refsFx f, R t
  range : ∀ a r, R a → m.range? a = some r → ∀ row ∈ r.cells, ∀ x ∈ row, R x

/-! ### `evalCell` one level unfolded -/

/-- the body of `evaluate` once the address is resolved and the cell looked up -/
def cellBody {σ : Type} (S : Store σ) (sem : Sem) (ce : Ctx σ → Addr → Ctx σ × Res) (c : Ctx σ) (a : Addr) :
    Option Cell → Ctx σ × Res
  | none => (c, .val (.s .blank))
  | some cell =>
    match cell.formula with
    | none => (c, .val cell.value)
    | some f =>
      if c.evaluating.contains a then
        (c, .exc .cycle (20 + a.length + sumLens c.evaluating))
      else
        let c1 := { c with evaluating := a :: c.evaluating, trace := c.trace ++ [a] }
        let (c2, r) := evalFx S sem ce c1 f
        let c3 := { c2 with evaluating := c.evaluating }
        match r with
        | .val v => ({ c3 with st := S.writeCell c3.st a v }, .val v)
        | .exc .problem n => (c3, .exc .runtime (35 + a.length + cell.formulaLen + n))
        | e => (c3, e)

theorem evalCell_succ {σ : Type} (S : Store σ) (sem : Sem) (fuel : Nat) (c : Ctx σ) (a : Addr) :
    evalCell S sem (fuel + 1) c a =
      cellBody S sem (evalCell S sem fuel) c (S.resolve c.st a) (S.cell? c.st (S.resolve c.st a)) := by
  simp only [evalCell, cellBody]
  cases S.cell? c.st (S.resolve c.st a) <;> rfl

@[simp] theorem pure_resolve (m : MState) (s : Unit) (a : Addr) : (pureStore m).resolve s a = m.resolve a := rfl
@[simp] theorem pure_cell? (m : MState) (s : Unit) (a : Addr) : (pureStore m).cell? s a = m.cell? a := rfl
@[simp] theorem pure_range? (m : MState) (s : Unit) (a : Addr) : (pureStore m).range? s a = m.range? a := rfl
@[simp] theorem pure_writeCell (m : MState) (s : Unit) (a : Addr) (v : V) :
    (pureStore m).writeCell s a v = () := rfl

section read
set_option linter.unusedSectionVars false
variable {R : Addr → Prop} {m₁ m₂ : MState} (sem : Sem)
variable {ce₁ ce₂ : Ctx Unit → Addr → Ctx Unit × Res}

theorem evalRef_agree (hce : ∀ c a, R a → ce₁ c a = ce₂ c a) (c : Ctx Unit) (a : Addr) (ha : R a) :
    evalRef ce₁ c a = evalRef ce₂ c a := by
  simp only [evalRef, hce _ a ha]

theorem evalRow_agree (hce : ∀ c a, R a → ce₁ c a = ce₂ c a) :
    ∀ (row : List Addr), (∀ x ∈ row, R x) → ∀ c ec acc,
      evalRow ce₁ c row ec acc = evalRow ce₂ c row ec acc
  | [], _, c, ec, acc => by simp [evalRow]
  | a :: rest, h, c, ec, acc => by
    have ih := evalRow_agree hce rest (fun x hx => h x (List.mem_cons_of_mem _ hx))
    simp only [evalRow, evalRef_agree hce c a (h a List.mem_cons_self), ih]

theorem evalRows_agree (hce : ∀ c a, R a → ce₁ c a = ce₂ c a) :
    ∀ (rows : List (List Addr)), (∀ row ∈ rows, ∀ x ∈ row, R x) → ∀ c w,
      evalRows ce₁ c rows w = evalRows ce₂ c rows w
  | [], _, c, w => by simp [evalRows]
  | row :: rest, h, c, w => by
    have ih := evalRows_agree hce rest (fun r hr => h r (List.mem_cons_of_mem _ hr))
    simp only [evalRows, evalRow_agree hce row (h row List.mem_cons_self), ih]

theorem mem_refsList {t : Addr} {a : Fx} {l : List Fx} (ha : a ∈ l) (ht : t ∈ refsFx a) :
    t ∈ refsList l := by
  induction l with
  | nil => cases ha
  | cons b rest ih =>
    simp only [refsList, List.mem_append]
    cases ha with
    | head => exact Or.inl ht
    | tail _ h => exact Or.inr (ih h)

variable (hcl : Closed R m₁) (hag : Agree R m₁ m₂)
include hcl hag

mutual
theorem evalFx_agree (hce : ∀ c a, R a → ce₁ c a = ce₂ c a) :
    ∀ (f : Fx) (c : Ctx Unit), (∀ t ∈ refsFx f, R t) →
      evalFx (pureStore m₁) sem ce₁ c f = evalFx (pureStore m₂) sem ce₂ c f
  | .lit v, c, _ => by simp [evalFx]
  | .ref a, c, h => by
    simp only [evalFx]
    exact evalRef_agree hce c a (h a (by simp [refsFx]))
  | .rng k, c, h => by
    have hk : R k := h k (by simp [refsFx])
    have hr := hag.range k hk
    simp only [evalFx, pureStore]
    cases h1 : m₁.range? k with
    | none =>
      cases h2 : m₂.range? k with
      | none => exact evalRef_agree hce c k hk
      | some r2 => rw [h1, h2] at hr; simp at hr
    | some r1 =>
      cases h2 : m₂.range? k with
      | none => rw [h1, h2] at hr; simp at hr
      | some r2 =>
        rw [h1, h2] at hr
        simp only [Option.map_some, Option.some.injEq] at hr
        simp only
        rw [← hr, evalRows_agree hce r1.cells (hcl.range k r1 hk h1)]
  | .app g args, c, h => by
    simp only [evalFx]
    rw [evalArgs_agree hce args c (by simpa [refsFx] using h)]
  | .iff a b d, c, h => by
    have iha := evalFx_agree hce a c (fun t ht => h t (by simp [refsFx, ht]))
    have ihb := fun c' => evalFx_agree hce b c' (fun t ht => h t (by simp [refsFx, ht]))
    have ihd := fun c' => evalFx_agree hce d c' (fun t ht => h t (by simp [refsFx, ht]))
    simp only [evalFx, iha, ihb, ihd]
  | .sc isAnd args, c, h => by
    simp only [evalFx]
    exact evalSc_agree hce args c isAnd (by simpa [refsFx] using h)
  | .fail n args, c, _ => by simp [evalFx]
theorem evalArgs_agree (hce : ∀ c a, R a → ce₁ c a = ce₂ c a) :
    ∀ (l : List Fx) (c : Ctx Unit), (∀ t ∈ refsList l, R t) →
      evalArgs (pureStore m₁) sem ce₁ c l = evalArgs (pureStore m₂) sem ce₂ c l
  | [], c, _ => by simp [evalArgs]
  | a :: rest, c, h => by
    have iha := evalFx_agree hce a c (fun t ht => h t (by simp [refsList, ht]))
    have ihr := fun c' => evalArgs_agree hce rest c' (fun t ht => h t (by simp [refsList, ht]))
    simp only [evalArgs, iha, ihr]
theorem evalSc_agree (hce : ∀ c a, R a → ce₁ c a = ce₂ c a) :
    ∀ (l : List Fx) (c : Ctx Unit) (isAnd : Bool), (∀ t ∈ refsList l, R t) →
      evalSc (pureStore m₁) sem ce₁ c isAnd l = evalSc (pureStore m₂) sem ce₂ c isAnd l
  | [], c, isAnd, _ => by simp [evalSc]
  | a :: rest, c, isAnd, h => by
    have iha := evalFx_agree hce a c (fun t ht => h t (by simp [refsList, ht]))
    have ihr := fun c' b => evalSc_agree hce rest c' b (fun t ht => h t (by simp [refsList, ht]))
    simp only [evalSc, iha, ihr]
end

/-- evaluation of an address of `R` gives the same result and the same context on both models -/
theorem evalCell_agree : ∀ (fuel : Nat) (c : Ctx Unit) (a : Addr), R a →
    evalCell (pureStore m₁) sem fuel c a = evalCell (pureStore m₂) sem fuel c a
  | 0, c, a, _ => by simp [evalCell]
  | fuel + 1, c, a, ha => by
    have ih : ∀ c a, R a → evalCell (pureStore m₁) sem fuel c a = evalCell (pureStore m₂) sem fuel c a :=
      fun c a ha => evalCell_agree fuel c a ha
    have hres := hag.resolve a ha
    have ha' : R (m₁.resolve a) := hcl.resolve a ha
    have hcell := hag.cell _ ha'
    rw [evalCell_succ, evalCell_succ]
    simp only [pure_resolve, pure_cell?]
    rw [← hres]
    generalize m₁.resolve a = b at ha' hcell
    cases h1 : m₁.cell? b with
    | none =>
      cases h2 : m₂.cell? b with
      | none => simp [cellBody]
      | some c2 => rw [h1, h2] at hcell; exact hcell.elim
    | some c1 =>
      cases h2 : m₂.cell? b with
      | none => rw [h1, h2] at hcell; exact hcell.elim
      | some c2 =>
        rw [h1, h2] at hcell
        obtain ⟨hf, hl, hv⟩ := hcell
        cases hf1 : c1.formula with
        | none =>
          have hf2 : c2.formula = none := by rw [← hf, hf1]
          simp only [cellBody, hf1, hf2, hv hf1]
        | some f =>
          have hf2 : c2.formula = some f := by rw [← hf, hf1]
          have hterms : ∀ t ∈ refsFx f, R t := hcl.cell _ c1 f ha' h1 hf1
          have hfx := fun c' => evalFx_agree sem hcl hag ih f c' hterms
          simp only [cellBody, hf1, hf2, hfx, hl, pure_writeCell]

end read

/-- the reference evaluation of every address of a closed set on which two models agree -/
theorem fresh_agree {R : Addr → Prop} {m₁ m₂ : MState} (hcl : Closed R m₁) (hag : Agree R m₁ m₂)
    (sem : Sem) (fuel : Nat) (a : Addr) (ha : R a) : fresh sem fuel m₁ a = fresh sem fuel m₂ a := by
  simp only [fresh, evalCell_agree sem hcl hag fuel _ a ha]

/-! ### the same `set_cell_value` on both models -/

theorem names_setCellValue (m : MState) (a : Addr) (v : V) : (m.setCellValue a v).names = m.names := by
  simp only [MState.setCellValue]
  split <;> rfl

theorem ranges_setCellValue (m : MState) (a : Addr) (v : V) : (m.setCellValue a v).ranges = m.ranges := by
  simp only [MState.setCellValue]
  split <;> rfl

theorem resolve_setCellValue (m : MState) (a : Addr) (v : V) (k : Addr) :
    (m.setCellValue a v).resolve k = m.resolve k := by
  simp only [MState.resolve, names_setCellValue]

theorem range?_setCellValue (m : MState) (a : Addr) (v : V) (k : Addr) :
    (m.setCellValue a v).range? k = m.range? k := by
  simp only [MState.range?, ranges_setCellValue]

/-- the cell found at `k` after `set_cell_value(a, v)` -/
theorem cell?_setCellValue (m : MState) (a : Addr) (v : V) (k : Addr) :
    (m.setCellValue a v).cell? k =
      if k = m.resolve a then
        (match m.cell? k with
         | some c => some { c with value := v }
         | none => some { value := v, formula := none })
      else m.cell? k := by
  simp only [MState.setCellValue]
  cases h : m.cell? (m.resolve a) with
  | some c0 =>
    simp only [MState.cell?, assoc_assocUpdate]
    by_cases hk : k = m.resolve a
    · subst hk
      simp only [MState.cell?] at h
      simp [h]
    · simp [hk]
  | none =>
    simp only [MState.cell?, assoc_append_single]
    simp only [MState.cell?] at h
    by_cases hk : k = m.resolve a
    · subst hk; simp [h]
    · simp only [hk, if_false]
      cases assoc k m.cells <;> rfl

theorem agree_setCellValue {R : Addr → Prop} {m₁ m₂ : MState} (hag : Agree R m₁ m₂)
    (a : Addr) (v : V) (hres : m₁.resolve a = m₂.resolve a) :
    Agree R (m₁.setCellValue a v) (m₂.setCellValue a v) where
  resolve := fun k hk => by simp only [resolve_setCellValue]; exact hag.resolve k hk
  range := fun k hk => by simp only [range?_setCellValue]; exact hag.range k hk
  cell := fun k hk => by
    have hc := hag.cell k hk
    simp only [cell?_setCellValue, ← hres]
    by_cases h : k = m₁.resolve a
    · simp only [h, if_true]
      rw [h] at hc
      cases h1 : m₁.cell? (m₁.resolve a) with
      | none =>
        cases h2 : m₂.cell? (m₁.resolve a) with
        | none => simp [CellAgree]
        | some c2 => rw [h1, h2] at hc; exact hc.elim
      | some c1 =>
        cases h2 : m₂.cell? (m₁.resolve a) with
        | none => rw [h1, h2] at hc; exact hc.elim
        | some c2 =>
          rw [h1, h2] at hc
          exact ⟨hc.1, hc.2.1, fun _ => rfl⟩
    · simp only [h, if_false]; exact hc

theorem closed_setCellValue {R : Addr → Prop} {m : MState} (hcl : Closed R m) (a : Addr) (v : V) :
    Closed R (m.setCellValue a v) where
  resolve := fun k hk => by simp only [resolve_setCellValue]; exact hcl.resolve k hk
  range := fun k r hk h => by
    simp only [range?_setCellValue] at h; exact hcl.range k r hk h
  cell := fun k c f hk hc hf => by
    simp only [cell?_setCellValue] at hc
    by_cases h : k = m.resolve a
    · simp only [h, if_true] at hc
      cases h1 : m.cell? (m.resolve a) with
      | none => rw [h1] at hc; simp only [Option.some.injEq] at hc; subst hc; simp at hf
      | some c0 =>
        rw [h1] at hc; simp only [Option.some.injEq] at hc; subst hc
        exact hcl.cell k c0 f hk (h ▸ h1) hf
    · simp only [h, if_false] at hc; exact hcl.cell k c f hk hc hf

theorem names_applySets (sets : List (Addr × V)) (m : MState) (k : Addr) :
    (applySets sets m).resolve k = m.resolve k := by
  induction sets generalizing m with
  | nil => rfl
  | cons s rest ih =>
    simp only [applySets, List.foldl_cons] at ih ⊢
    rw [ih, resolve_setCellValue]

theorem agree_closed_applySets {R : Addr → Prop} :
    ∀ (sets : List (Addr × V)) (m₁ m₂ : MState), Closed R m₁ → Agree R m₁ m₂ →
      (∀ s ∈ sets, m₁.resolve s.1 = m₂.resolve s.1) →
      Closed R (applySets sets m₁) ∧ Agree R (applySets sets m₁) (applySets sets m₂)
  | [], _, _, hcl, hag, _ => ⟨hcl, hag⟩
  | s :: rest, m₁, m₂, hcl, hag, hs => by
    have h1 := hs s List.mem_cons_self
    have := agree_closed_applySets rest (m₁.setCellValue s.1 s.2) (m₂.setCellValue s.1 s.2)
      (closed_setCellValue hcl s.1 s.2) (agree_setCellValue hag s.1 s.2 h1)
      (fun t ht => by
        simp only [resolve_setCellValue]; exact hs t (List.mem_cons_of_mem _ ht))
    simpa [applySets] using this

end XlVerif.Lemmas.C13
