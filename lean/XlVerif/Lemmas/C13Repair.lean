/-
  Lemmas for C13, part 4: the PROPOSED REPAIR of finding D1301 (proposed_fixes/C13-D1301.diff) is correct.

  The patch adds an `else:` branch to the body of `while terms_to_copy:`: a term that is neither a cell nor a
  range of the model but (after its sheet prefix) a key of `defined_names` copies the defined name and pushes
  the address / range key the name is bound to.  `extractR` is `extract` with that branch; for it the
  property holds at full strength (no `NameFree` guard): `extractR_agree`.
  This file is about a patch, not about the code as it is: it is not used by the correspondence check.
-/
import XlVerif.Lemmas.C13Sound
namespace XlVerif.Lemmas.C13
open XlVerif XlVerif.Model.Evaluator XlVerif.Model.C13 XlVerif.Spec.C13

/-! ### the repaired loop -/

/-- `if name not in extracted_model.defined_names: extracted_model.defined_names[name] = deepcopy(...)` -/
def addName (x : XModel) (t a : Addr) : XModel := if hasKey t x.st.names then x else x.setName t a
def addRName (x : XModel) (t : Addr) (rn : RName) : XModel := if hasKey t x.rnames then x else x.setRName t rn

/-- the new `else:` branch for a term that is neither a cell nor a range of the model -/
def nameStep (m x : XModel) (t : Addr) : XModel × List Addr :=
  match assoc t m.st.names with
  | some a => (addName x t a, [a])
  | none =>
    match assoc t m.rnames with
    | some rn => (addRName x t rn, [rn.key])
    | none => (x, [])

def stepR (m x : XModel) (t : Addr) : XModel × List Addr :=
  match m.st.range? t, m.st.cell? t with
  | none, none => nameStep m x t
  | _, _ => step m x t

def worklistR (m : XModel) : Nat → XModel → List Addr → XModel × List Addr
  | 0, x, todo => (x, todo)
  | _ + 1, x, [] => (x, [])
  | n + 1, x, t :: rest =>
    let p := stepR m x t
    worklistR m n p.1 (p.2 ++ rest)

def workFuelR (m : XModel) (todo : List Addr) : Nat :=
  2 * todo.length + sumNat (m.st.cells.map fun p => 2 * (cellTerms p.2).length)
    + sumNat (m.st.ranges.map fun p => 2 * p.2.cells.flatten.length)

def extractR (m : XModel) (focus : List Addr) : Except Addr XModel :=
  match focusPhase m XModel.empty focus with
  | .error e => .error e
  | .ok x0 =>
    let todo := (initTerms x0).reverse
    .ok (worklistR m (workFuelR m todo) x0 todo).1

/-! ### hygiene needed in addition to `WF` -/

/-- a named range is registered in `ranges` under its key (`build_defined_names` does both) -/
def RNamesRegistered (m : XModel) : Prop :=
  ∀ n rn, assoc n m.rnames = some rn → m.st.range? rn.key ≠ none

/-- the members of a range are cell addresses, not defined names -/
def RangeMembersNotNames (m : XModel) : Prop :=
  ∀ k r, m.st.range? k = some r → ∀ y ∈ r.cells.flatten, m.isName y = false

theorem key_not_name {m : XModel} (hwf : WF m) (hreg : RNamesRegistered m) {n : Addr} {rn : RName}
    (h : assoc n m.rnames = some rn) : m.isName rn.key = false := by
  cases hk : m.isName rn.key with
  | false => rfl
  | true => exact absurd (hwf.nameNotCell _ hk).2 (hreg n rn h)

/-! ### the address a reference token denotes after `build_code` -/

def target (m : XModel) (t : Addr) : Addr :=
  match assoc t m.st.names with
  | some a => a
  | none =>
    match assoc t m.rnames with
    | some rn => rn.key
    | none => t

theorem refs_substAddr (m : XModel) (b : Bool) (t : Addr) : refsFx (m.substAddr b t) = [target m t] := by
  unfold XModel.substAddr target
  cases assoc t m.st.names with
  | some a => simp [refsFx]
  | none =>
    cases assoc t m.rnames with
    | some rn => simp [refsFx]
    | none => cases b <;> simp [refsFx]

mutual
theorem refs_substFx (m : XModel) : ∀ f : Fx, refsFx (substFx m f) = (refsFx f).map (target m)
  | .lit _ => by simp [substFx, refsFx]
  | .ref a => by simp [substFx, refsFx, refs_substAddr]
  | .rng a => by simp [substFx, refsFx, refs_substAddr]
  | .app _ args => by simp only [substFx, refsFx]; exact refs_substList m args
  | .iff a b d => by
    simp only [substFx, refsFx, List.map_append, refs_substFx m a, refs_substFx m b, refs_substFx m d]
  | .sc _ args => by simp only [substFx, refsFx]; exact refs_substList m args
  | .fail _ args => by simp only [substFx, refsFx]; exact refs_substList m args
theorem refs_substList (m : XModel) : ∀ l : List Fx, refsList (substList m l) = (refsList l).map (target m)
  | [] => by simp [substList, refsList]
  | a :: rest => by
    simp only [substList, refsList, List.map_append, refs_substFx m a, refs_substList m rest]
end

mutual
theorem substFx_congr (x m : XModel) : ∀ f : Fx, (∀ t ∈ refsFx f, ∀ b, x.substAddr b t = m.substAddr b t) →
    substFx x f = substFx m f
  | .lit _, _ => by simp [substFx]
  | .ref a, h => by simp only [substFx]; exact h a (by simp [refsFx]) false
  | .rng a, h => by simp only [substFx]; exact h a (by simp [refsFx]) true
  | .app g args, h => by
    simp only [substFx]; rw [substList_congr x m args (by simpa [refsFx] using h)]
  | .iff a b d, h => by
    simp only [substFx]
    rw [substFx_congr x m a (fun t ht => h t (by simp [refsFx, ht])),
      substFx_congr x m b (fun t ht => h t (by simp [refsFx, ht])),
      substFx_congr x m d (fun t ht => h t (by simp [refsFx, ht]))]
  | .sc g args, h => by
    simp only [substFx]; rw [substList_congr x m args (by simpa [refsFx] using h)]
  | .fail g args, h => by
    simp only [substFx]; rw [substList_congr x m args (by simpa [refsFx] using h)]
theorem substList_congr (x m : XModel) : ∀ l : List Fx,
    (∀ t ∈ refsList l, ∀ b, x.substAddr b t = m.substAddr b t) → substList x l = substList m l
  | [], _ => by simp [substList]
  | a :: rest, h => by
    simp only [substList]
    rw [substFx_congr x m a (fun t ht => h t (by simp [refsList, ht])),
      substList_congr x m rest (fun t ht => h t (by simp [refsList, ht]))]
end

/-! ### the invariant of the repaired loop -/

/-- a term that is a defined name (and nothing else) has been followed: the name is copied and what it is
    bound to is copied or on the list -/
def NameDone (m x : XModel) (todo : List Addr) (t : Addr) : Prop :=
  m.st.cell? t = none → m.st.range? t = none →
    (∀ a, assoc t m.st.names = some a → assoc t x.st.names = some a ∧ (Handled m x a ∨ a ∈ todo))
    ∧ (assoc t m.st.names = none → ∀ rn, assoc t m.rnames = some rn →
        assoc t x.rnames = some rn ∧ (Handled m x rn.key ∨ rn.key ∈ todo))

def Done (m x : XModel) (todo : List Addr) (t : Addr) : Prop := Handled m x t ∧ NameDone m x todo t

structure InvR (m x : XModel) (todo : List Addr) : Prop where
  sub : Sub x m
  cell : ∀ a c, x.st.cell? a = some c → ∀ t ∈ cellTerms c, Done m x todo t ∨ t ∈ todo
  range : ∀ k r, x.st.range? k = some r → ∀ y ∈ r.cells.flatten, Done m x todo y ∨ y ∈ todo

/-- one iteration: the popped term is done, what is newly copied has its terms pushed -/
theorem invR_step {m x x' : XModel} {t : Addr} {push rest : List Addr} (hg : Grow m x x')
    (ht : Done m x' (push ++ rest) t)
    (hnewc : ∀ a c, x'.st.cell? a = some c → x.st.cell? a = none → ∀ u ∈ cellTerms c, u ∈ push)
    (hnewr : ∀ k r, x'.st.range? k = some r → x.st.range? k = none → ∀ y ∈ r.cells.flatten, y ∈ push)
    (h : InvR m x (t :: rest)) : InvR m x' (push ++ rest) := by
  have tr : ∀ a, Handled m x a ∨ a ∈ t :: rest → Handled m x' a ∨ a ∈ push ++ rest := by
    intro a ha
    rcases ha with ha | ha
    · exact Or.inl (ha.mono hg.le)
    · cases ha with
      | head => exact Or.inl ht.1
      | tail _ h' => exact Or.inr (List.mem_append_right _ h')
  have old : ∀ y, Done m x (t :: rest) y ∨ y ∈ t :: rest → Done m x' (push ++ rest) y ∨ y ∈ push ++ rest := by
    intro y hy
    rcases hy with hy | hy
    · left
      refine ⟨hy.1.mono hg.le, fun h1 h2 => ?_⟩
      obtain ⟨n1, n2⟩ := hy.2 h1 h2
      refine ⟨fun a ha => ?_, fun h0 rn hrn => ?_⟩
      · obtain ⟨p, q⟩ := n1 a ha
        exact ⟨hg.le.name y a p, tr a q⟩
      · obtain ⟨p, q⟩ := n2 h0 rn hrn
        exact ⟨hg.le.rname y rn p, tr rn.key q⟩
    · cases hy with
      | head => exact Or.inl ht
      | tail _ h' => exact Or.inr (List.mem_append_right _ h')
  refine ⟨hg.sub, fun a c hc u hu => ?_, fun k r hk y hy => ?_⟩
  · cases hx : x.st.cell? a with
    | none => exact Or.inr (List.mem_append_left _ (hnewc a c hc hx u hu))
    | some c0 =>
      have : c0 = c := by
        have := hg.le.cell a c0 hx
        rw [hc] at this; exact (Option.some.inj this).symm
      subst this
      exact old u (h.cell a c0 hx u hu)
  · cases hx : x.st.range? k with
    | none => exact Or.inr (List.mem_append_left _ (hnewr k r hk hx y hy))
    | some r0 =>
      have : r0 = r := by
        have := hg.le.range k r0 hx
        rw [hk] at this; exact (Option.some.inj this).symm
      subst this
      exact old y (h.range k r0 hx y hy)

theorem addName_spec {m x : XModel} (hs : Sub x m) {t a : Addr} (hn : assoc t m.st.names = some a) :
    Grow m x (addName x t a) ∧ (addName x t a).st.cells = x.st.cells
      ∧ (addName x t a).st.ranges = x.st.ranges ∧ (addName x t a).formulae = x.formulae
      ∧ assoc t (addName x t a).st.names = some a := by
  unfold addName
  cases hk : hasKey t x.st.names with
  | true =>
    obtain ⟨a', ha'⟩ := hasKey_true.mp hk
    have : a' = a := by have := hs.name t a' ha'; rw [hn] at this; exact (Option.some.inj this).symm
    subst this
    rw [if_pos rfl]
    exact ⟨Grow.refl hs, rfl, rfl, rfl, ha'⟩
  | false =>
    rw [if_neg (by simp)]
    exact ⟨grow_setName hs hn, rfl, rfl, rfl, by simp⟩

theorem addRName_spec {m x : XModel} (hs : Sub x m) {t : Addr} {rn : RName} (hn : assoc t m.rnames = some rn) :
    Grow m x (addRName x t rn) ∧ (addRName x t rn).st.cells = x.st.cells
      ∧ (addRName x t rn).st.ranges = x.st.ranges ∧ (addRName x t rn).formulae = x.formulae
      ∧ assoc t (addRName x t rn).rnames = some rn := by
  unfold addRName
  cases hk : hasKey t x.rnames with
  | true =>
    obtain ⟨rn', hrn'⟩ := hasKey_true.mp hk
    have : rn' = rn := by have := hs.rname t rn' hrn'; rw [hn] at this; exact (Option.some.inj this).symm
    subst this
    rw [if_pos rfl]
    exact ⟨Grow.refl hs, rfl, rfl, rfl, hrn'⟩
  | false =>
    rw [if_neg (by simp)]
    exact ⟨grow_setRName hs hn, rfl, rfl, rfl, by simp⟩

theorem nameStep_spec {m x : XModel} (hs : Sub x m) (t : Addr) :
    Grow m x (nameStep m x t).1
    ∧ (nameStep m x t).1.st.cells = x.st.cells ∧ (nameStep m x t).1.st.ranges = x.st.ranges
    ∧ (nameStep m x t).1.formulae = x.formulae
    ∧ (∀ a, assoc t m.st.names = some a →
        assoc t (nameStep m x t).1.st.names = some a ∧ (nameStep m x t).2 = [a])
    ∧ (assoc t m.st.names = none → ∀ rn, assoc t m.rnames = some rn →
        assoc t (nameStep m x t).1.rnames = some rn ∧ (nameStep m x t).2 = [rn.key])
    ∧ (assoc t m.st.names = none → assoc t m.rnames = none → (nameStep m x t).2 = []) := by
  unfold nameStep
  cases hn : assoc t m.st.names with
  | some a =>
    obtain ⟨g, h1, h2, h3, h4⟩ := addName_spec hs hn
    refine ⟨g, h1, h2, h3, ?_, ?_, ?_⟩
    · intro a' ha'
      simp only [Option.some.injEq] at ha'
      subst ha'
      exact ⟨h4, rfl⟩
    · intro h; cases h
    · intro h; cases h
  | none =>
    cases hrn : assoc t m.rnames with
    | some rn =>
      obtain ⟨g, h1, h2, h3, h4⟩ := addRName_spec hs hrn
      refine ⟨g, h1, h2, h3, ?_, ?_, ?_⟩
      · intro a' ha'; cases ha'
      · intro _ rn' hrn'
        simp only [Option.some.injEq] at hrn'
        subst hrn'
        exact ⟨h4, rfl⟩
      · intro _ h; cases h
    | none =>
      refine ⟨Grow.refl hs, rfl, rfl, rfl, ?_, ?_, ?_⟩
      · intro a' ha'; cases ha'
      · intro _ rn' hrn'; cases hrn'
      · intro _ _; rfl

/-- `stepR` is `nameStep` on a term that is neither a cell nor a range of the model, `step` otherwise -/
theorem stepR_cases (m x : XModel) (t : Addr) :
    (m.st.range? t = none ∧ m.st.cell? t = none ∧ stepR m x t = nameStep m x t)
    ∨ ((m.st.range? t ≠ none ∨ m.st.cell? t ≠ none) ∧ stepR m x t = step m x t) := by
  unfold stepR
  cases hr : m.st.range? t with
  | none =>
    cases hc : m.st.cell? t with
    | none => exact Or.inl ⟨rfl, rfl, rfl⟩
    | some c => exact Or.inr ⟨Or.inr (by simp), rfl⟩
  | some r => exact Or.inr ⟨Or.inl (by simp), rfl⟩

theorem stepR_grow {m x : XModel} (hs : Sub x m) (t : Addr) : Grow m x (stepR m x t).1 := by
  rcases stepR_cases m x t with ⟨_, _, h⟩ | ⟨_, h⟩
  · rw [h]; exact (nameStep_spec hs t).1
  · rw [h]; exact step_grow hs t

theorem stepR_formulae {m x : XModel} (hs : Sub x m) (t : Addr) : (stepR m x t).1.formulae = x.formulae := by
  rcases stepR_cases m x t with ⟨_, _, h⟩ | ⟨_, h⟩
  · rw [h]; exact (nameStep_spec hs t).2.2.2.1
  · rw [h]; exact (step_names m x t).2.2

theorem stepR_inv {m x : XModel} (hrc : RangeNotCell m) {t : Addr} {rest : List Addr}
    (h : InvR m x (t :: rest)) : InvR m (stepR m x t).1 ((stepR m x t).2 ++ rest) := by
  rcases stepR_cases m x t with ⟨hr, hc, he⟩ | ⟨hne, he⟩
  · -- a defined name (or an unknown address)
    rw [he]
    obtain ⟨hg, hcells, hranges, _, hn1, hn2, _⟩ := nameStep_spec h.sub t
    have hcell? : ∀ a, (nameStep m x t).1.st.cell? a = x.st.cell? a := fun a => by
      simp only [MState.cell?, hcells]
    have hrange? : ∀ a, (nameStep m x t).1.st.range? a = x.st.range? a := fun a => by
      simp only [MState.range?, hranges]
    refine invR_step hg ?_ ?_ ?_ h
    · refine ⟨⟨fun r h' => (by rw [hr] at h'; cases h'), fun c h' => (by rw [hc] at h'; cases h')⟩, fun _ _ => ?_⟩
      refine ⟨fun a ha => ?_, fun h0 rn hrn => ?_⟩
      · obtain ⟨p, q⟩ := hn1 a ha
        exact ⟨p, Or.inr (List.mem_append_left _ (by rw [q]; exact List.mem_singleton.mpr rfl))⟩
      · obtain ⟨p, q⟩ := hn2 h0 rn hrn
        exact ⟨p, Or.inr (List.mem_append_left _ (by rw [q]; exact List.mem_singleton.mpr rfl))⟩
    · intro a c hc' hx; rw [hcell? a, hx] at hc'; cases hc'
    · intro k r hk hx; rw [hrange? k, hx] at hk; cases hk
  · -- a cell or a range of the model: the loop body as it is
    rw [he]
    have vac : ∀ (x' : XModel) (todo : List Addr), NameDone m x' todo t := by
      intro x' todo h1 h2
      rcases hne with h' | h'
      · exact absurd h2 h'
      · exact absurd h1 h'
    have hg := step_grow h.sub t
    rcases step_cases m x t with ⟨r, h1, h2, h3⟩ | ⟨c, h1, h2, hnr, h4⟩ | ⟨hnr, hnc, h3⟩
    · rw [h3] at hg ⊢
      refine invR_step hg ⟨⟨fun r' hr' => (by simp [← hr', h1]),
        fun c hc => (by rw [hrc t r h1] at hc; cases hc)⟩, vac _ _⟩ ?_ ?_ h
      · intro a c hc' hx; simp only [cell?_setRange] at hc'; rw [hx] at hc'; cases hc'
      · intro k r' hk hx y hy
        simp only [range?_setRange] at hk
        by_cases hkt : k = t
        · simp only [hkt, if_true, Option.some.injEq] at hk
          subst hk
          exact List.mem_reverse.mpr hy
        · simp only [hkt, if_false] at hk; rw [hx] at hk; cases hk
    · rw [h4] at hg ⊢
      have hH : Handled m (x.setCell t c) t := by
        refine ⟨fun r hr => ?_, fun c' hc' => by simp [← hc', h1]⟩
        cases hx : x.st.range? t with
        | none => exact absurd hx (hnr r hr)
        | some r' => simp only [range?_setCell]; rw [hx, ← hr, h.sub.range t r' hx]
      refine invR_step hg ⟨hH, vac _ _⟩ ?_ ?_ h
      · intro a c' hc' hx u hu
        simp only [cell?_setCell] at hc'
        by_cases hat : a = t
        · simp only [hat, if_true, Option.some.injEq] at hc'
          subst hc'
          exact List.mem_reverse.mpr hu
        · simp only [hat, if_false] at hc'; rw [hx] at hc'; cases hc'
      · intro k r hk hx; simp only [range?_setCell] at hk; rw [hx] at hk; cases hk
    · rw [h3] at hg ⊢
      have hH : Handled m x t := by
        refine ⟨fun r hr => ?_, fun c hc => ?_⟩
        · cases hx : x.st.range? t with
          | none => exact absurd hx (hnr r hr)
          | some r' => rw [← hr, h.sub.range t r' hx]
        · cases hx : x.st.cell? t with
          | none => exact absurd hx (hnc c hc)
          | some c' => rw [← hc, h.sub.cell t c' hx]
      refine invR_step hg ⟨hH, vac _ _⟩ ?_ ?_ h
      · intro a c hc' hx; rw [hx] at hc'; cases hc'
      · intro k r hk hx; rw [hx] at hk; cases hk

theorem worklistR_inv {m : XModel} (hrc : RangeNotCell m) : ∀ (n : Nat) (x : XModel) (todo : List Addr),
    InvR m x todo →
      InvR m (worklistR m n x todo).1 (worklistR m n x todo).2 ∧ Le x (worklistR m n x todo).1
        ∧ (worklistR m n x todo).1.formulae = x.formulae
  | 0, x, todo, h => ⟨h, Le.refl x, rfl⟩
  | n + 1, x, [], h => ⟨h, Le.refl x, rfl⟩
  | n + 1, x, t :: rest, h => by
    simp only [worklistR]
    obtain ⟨i, l, f⟩ := worklistR_inv hrc n (stepR m x t).1 ((stepR m x t).2 ++ rest) (stepR_inv hrc h)
    exact ⟨i, (stepR_grow h.sub t).le.trans l, f.trans (stepR_formulae h.sub t)⟩

/-! ### termination of the repaired loop -/

/-- a term that will be followed as a defined name is popped twice in effect (itself, then its target) -/
def isNameTerm (m : XModel) (t : Addr) : Bool :=
  (m.st.cell? t).isNone && (m.st.range? t).isNone && m.isName t

def wt (m : XModel) (t : Addr) : Nat := if isNameTerm m t then 2 else 1

def wsum (m : XModel) (l : List Addr) : Nat := sumNat (l.map (wt m))

theorem wsum_append (m : XModel) (l1 l2 : List Addr) : wsum m (l1 ++ l2) = wsum m l1 + wsum m l2 := by
  induction l1 with
  | nil => simp [wsum, sumNat]
  | cons a rest ih => simp only [wsum, List.cons_append, List.map_cons, sumNat] at ih ⊢; omega

theorem wsum_le (m : XModel) (l : List Addr) : wsum m l ≤ 2 * l.length := by
  induction l with
  | nil => simp [wsum, sumNat]
  | cons a rest ih =>
    simp only [wsum, List.map_cons, sumNat, List.length_cons] at ih ⊢
    have : wt m a ≤ 2 := by unfold wt; split <;> omega
    omega

theorem wt_pos (m : XModel) (t : Addr) : 1 ≤ wt m t := by unfold wt; split <;> omega

def muR (m x : XModel) (todo : List Addr) : Nat :=
  wsum m todo + pending (fun c => 2 * (cellTerms c).length) m.st.cells x.st.cells
    + pending (fun (r : Range) => 2 * r.cells.flatten.length) m.st.ranges x.st.ranges

theorem muR_le_workFuelR (m x : XModel) (todo : List Addr) : muR m x todo ≤ workFuelR m todo := by
  have h0 := wsum_le m todo
  have h1 := pending_le_total (fun c => 2 * (cellTerms c).length) m.st.cells x.st.cells
  have h2 := pending_le_total (fun (r : Range) => 2 * r.cells.flatten.length) m.st.ranges x.st.ranges
  simp only [muR, workFuelR]
  omega

theorem stepR_mu {m x : XModel} (hwf : WF m) (hreg : RNamesRegistered m) (hs : Sub x m) (t : Addr)
    (rest : List Addr) : muR m (stepR m x t).1 ((stepR m x t).2 ++ rest) + 1 ≤ muR m x (t :: rest) := by
  rcases stepR_cases m x t with ⟨hr, hc, he⟩ | ⟨_, he⟩
  · rw [he]
    obtain ⟨_, hcells, hranges, _, hn1, hn2, hn3⟩ := nameStep_spec hs t
    have hcons : wsum m (t :: rest) = wt m t + wsum m rest := by simp [wsum, sumNat]
    simp only [muR, hcells, hranges, wsum_append, hcons]
    cases hn : assoc t m.st.names with
    | some a =>
      have hisn : m.isName t = true := by
        simp only [XModel.isName, Bool.or_eq_true]; exact Or.inl (hasKey_true.mpr ⟨_, hn⟩)
      have h2 : wt m t = 2 := by simp [wt, isNameTerm, hr, hc, hisn]
      have h1 : wsum m (nameStep m x t).2 = 1 := by
        rw [(hn1 a hn).2]
        simp [wsum, sumNat, wt, isNameTerm, hwf.targetNotName t a hn]
      omega
    | none =>
      cases hrn : assoc t m.rnames with
      | some rn =>
        have hisn : m.isName t = true := by
          simp only [XModel.isName, Bool.or_eq_true]; exact Or.inr (hasKey_true.mpr ⟨_, hrn⟩)
        have h2 : wt m t = 2 := by simp [wt, isNameTerm, hr, hc, hisn]
        have h1 : wsum m (nameStep m x t).2 = 1 := by
          rw [(hn2 hn rn hrn).2]
          simp [wsum, sumNat, wt, isNameTerm, key_not_name hwf hreg hrn]
        omega
      | none =>
        have h1 : wsum m (nameStep m x t).2 = 0 := by rw [hn3 hn hrn]; simp [wsum, sumNat]
        have := wt_pos m t
        omega
  · rw [he]
    have hcons : wsum m (t :: rest) = wt m t + wsum m rest := by simp [wsum, sumNat]
    have hpos := wt_pos m t
    rcases step_cases m x t with ⟨r, h1, h2, h3⟩ | ⟨c, h1, h2, _, h4⟩ | ⟨_, _, h3⟩
    · rw [h3]
      have := pending_assocSet (fun (r : Range) => 2 * r.cells.flatten.length) m.st.ranges x.st.ranges t r r h1
        (hasKey_false.mpr h2)
      have hw := wsum_le m r.cells.flatten.reverse
      simp only [muR, XModel.setRange, wsum_append, hcons, List.length_reverse] at this hw ⊢
      omega
    · rw [h4]
      have := pending_assocSet (fun c => 2 * (cellTerms c).length) m.st.cells x.st.cells t c c h1
        (hasKey_false.mpr h2)
      have hw := wsum_le m (cellTerms c).reverse
      simp only [muR, XModel.setCell, wsum_append, hcons, List.length_reverse] at this hw ⊢
      omega
    · rw [h3]
      simp only [muR, List.nil_append, hcons]
      omega

theorem worklistR_finishes {m : XModel} (hwf : WF m) (hreg : RNamesRegistered m) :
    ∀ (n : Nat) (x : XModel) (todo : List Addr), Sub x m → muR m x todo ≤ n → (worklistR m n x todo).2 = []
  | 0, x, todo, _, h => by
    simp only [worklistR]
    cases todo with
    | nil => rfl
    | cons t rest =>
      have := wt_pos m t
      simp only [muR, wsum, List.map_cons, sumNat] at h
      omega
  | n + 1, x, [], _, _ => by simp [worklistR]
  | n + 1, x, t :: rest, hs, h => by
    simp only [worklistR]
    apply worklistR_finishes hwf hreg n _ _ (stepR_grow hs t).sub
    have := stepR_mu hwf hreg hs t rest
    omega

/-! ### the repaired extraction contains the closure and agrees with the original on it -/

theorem init_invR {m x0 : XModel} (hrc : RangeNotCell m) (hs : Sub x0 m) (hr : x0.st.ranges = []) :
    InvR m x0 (initTerms x0).reverse where
  sub := hs
  range := fun k r hk => by simp [MState.range?, hr, assoc] at hk
  cell := fun a c hc t ht => by
    cases hk : hasKey t x0.st.cells with
    | true =>
      left
      obtain ⟨c', hc'⟩ := hasKey_true.mp hk
      have hm := hs.cell t c' hc'
      refine ⟨⟨fun r hr' => ?_, fun c'' hc'' => ?_⟩, fun h1 _ => ?_⟩
      · rw [hrc t r hr'] at hm; cases hm
      · rw [hm] at hc''; simp only [Option.some.injEq] at hc''; subst hc''; exact hc'
      · rw [hm] at h1; cases h1
    | false =>
      right
      apply List.mem_reverse.mpr
      simp only [initTerms, List.mem_flatMap, List.mem_filter]
      exact ⟨(a, c), assoc_mem hc, ht, by simp [hk]⟩

theorem extractR_ok_inv {m x : XModel} {focus : List Addr} (hwf : WF m) (hreg : RNamesRegistered m)
    (hx : extractR m focus = .ok x) :
    ∃ x0, Sub x0 m ∧ (∀ a ∈ focus, FocusDone m x0 a) ∧ Le x0 x ∧ InvR m x [] ∧ x.formulae = [] := by
  unfold extractR at hx
  cases h0 : focusPhase m XModel.empty focus with
  | error e => rw [h0] at hx; cases hx
  | ok x0 =>
    rw [h0] at hx
    simp only [Except.ok.injEq] at hx
    obtain ⟨g, hfd, hr, hf⟩ := focusPhase_ok focus _ _ h0 (sub_empty m)
    have hi := init_invR hwf.rangeNotCell g.sub (by rw [hr]; rfl)
    obtain ⟨i, l, n3⟩ := worklistR_inv hwf.rangeNotCell (workFuelR m (initTerms x0).reverse) x0 _ hi
    have hfin := worklistR_finishes hwf hreg (workFuelR m (initTerms x0).reverse) x0 (initTerms x0).reverse
      g.sub (muR_le_workFuelR m x0 _)
    rw [hfin] at i
    rw [hx] at i l n3
    exact ⟨x0, g.sub, hfd, l, i, by rw [n3, hf]; rfl⟩

/-- every address of the closure is copied; a defined name occurs in the closure only as a focused item -/
theorem closure_handledR {m x0 x : XModel} {focus : List Addr} (hwf : WF m) (hreg : RNamesRegistered m)
    (hmem : RangeMembersNotNames m) (hfocus : ∀ a ∈ focus, m.st.range? a = none)
    (hfd : ∀ a ∈ focus, FocusDone m x0 a) (hle : Le x0 x) (hinv : InvR m x []) :
    ∀ a, Closure (deps m) focus a → Handled m x a ∧ (m.isName a = true → a ∈ focus) := by
  intro a ha
  induction ha with
  | root h =>
    rename_i a
    refine ⟨⟨fun r hr => ?_, fun c hc => hle.cell a c ((hfd a h).cell c hc)⟩, fun _ => h⟩
    rw [hfocus a h] at hr; cases hr
  | step hcl hb ih =>
    rename_i a b
    obtain ⟨hha, hna⟩ := ih
    have copied : ∀ t c, m.st.cell? t = some c → x0.st.cell? t = some c → Handled m x t := by
      intro t c hc hx
      refine ⟨fun r hr => ?_, fun c' hc' => ?_⟩
      · rw [hwf.rangeNotCell t r hr] at hc; cases hc
      · rw [hc] at hc'; simp only [Option.some.injEq] at hc'; subst hc'
        exact hle.cell t c hx
    -- a term / member `u` that is done: what it denotes after `build_code` is handled and is not a name
    have resolved : ∀ u, Done m x [] u ∨ u ∈ ([] : List Addr) →
        Handled m x (target m u) ∧ (m.isName (target m u) = true → target m u ∈ focus) := by
      intro u hu
      rcases hu with hu | hu
      · unfold target
        cases hn : assoc u m.st.names with
        | some a' =>
          have hisn : m.isName u = true := by
            simp only [XModel.isName, Bool.or_eq_true]; exact Or.inl (hasKey_true.mpr ⟨_, hn⟩)
          obtain ⟨h1, h2⟩ := hwf.nameNotCell u hisn
          obtain ⟨_, q⟩ := (hu.2 h1 h2).1 a' hn
          simp only
          refine ⟨q.resolve_right (fun h => by cases h), fun h => ?_⟩
          rw [hwf.targetNotName u a' hn] at h; cases h
        | none =>
          simp only
          cases hrn : assoc u m.rnames with
          | some rn =>
            have hisn : m.isName u = true := by
              simp only [XModel.isName, Bool.or_eq_true]; exact Or.inr (hasKey_true.mpr ⟨_, hrn⟩)
            obtain ⟨h1, h2⟩ := hwf.nameNotCell u hisn
            obtain ⟨_, q⟩ := (hu.2 h1 h2).2 hn rn hrn
            simp only
            refine ⟨q.resolve_right (fun h => by cases h), fun h => ?_⟩
            rw [key_not_name hwf hreg hrn] at h; cases h
          | none =>
            simp only
            refine ⟨hu.1, fun h => ?_⟩
            simp only [XModel.isName, hasKey, hn, hrn] at h
            cases h
      · cases hu
    simp only [deps, List.mem_append] at hb
    rcases hb with hb | hb | hb
    · -- through a focused defined name
      cases hn : assoc a m.st.names with
      | some t =>
        rw [hn] at hb
        simp only [List.mem_singleton] at hb
        subst hb
        have hisn : m.isName a = true := by
          simp only [XModel.isName, Bool.or_eq_true]; exact Or.inl (hasKey_true.mpr ⟨_, hn⟩)
        obtain ⟨_, c, hc, hx⟩ := (hfd a (hna hisn)).name (hwf.nameNotCell a hisn).1 _ hn
        refine ⟨copied _ c hc hx, fun h => ?_⟩
        rw [hwf.targetNotName a _ hn] at h; cases h
      | none =>
        rw [hn] at hb
        simp only at hb
        cases hrn : assoc a m.rnames with
        | none => rw [hrn] at hb; cases hb
        | some rn =>
          rw [hrn] at hb
          simp only at hb
          have hisn : m.isName a = true := by
            simp only [XModel.isName, Bool.or_eq_true]; exact Or.inr (hasKey_true.mpr ⟨_, hrn⟩)
          obtain ⟨_, hall⟩ := (hfd a (hna hisn)).rname (hwf.nameNotCell a hisn).1 hn rn hrn
          obtain ⟨c, hc, hx⟩ := hall b hb
          refine ⟨copied b c hc hx, fun h => ?_⟩
          rw [hwf.memberNotName a rn hrn b hb] at h; cases h
    · -- through a formula: `b` is what a term of the source formula denotes
      cases hc : m.st.cell? a with
      | none => rw [hc] at hb; cases hb
      | some c =>
        rw [hc] at hb
        simp only at hb
        cases hf : c.formula with
        | none => rw [hf] at hb; cases hb
        | some f =>
          rw [hf] at hb
          simp only at hb
          have hb' := (mem_terms b _).mp hb
          rw [refs_substFx, List.mem_map] at hb'
          obtain ⟨u, hu, rfl⟩ := hb'
          have hut : u ∈ cellTerms c := by simp only [cellTerms, hf]; exact (mem_terms u f).mpr hu
          exact resolved u (hinv.cell a c (hha.2 c hc) u hut)
    · -- through a range: members are cell addresses, not names
      cases hr : m.st.range? a with
      | none => rw [hr] at hb; cases hb
      | some r =>
        rw [hr] at hb
        simp only at hb
        refine ⟨?_, fun h => ?_⟩
        · rcases hinv.range a r (hha.1 r hr) b hb with h | h
          · exact h.1
          · cases h
        · rw [hmem a r hr b hb] at h; cases h

theorem substAddr_eq_of_names {x m : XModel} {t : Addr} (h1 : assoc t x.st.names = assoc t m.st.names)
    (h2 : assoc t m.st.names = none → assoc t x.rnames = assoc t m.rnames) (b : Bool) :
    x.substAddr b t = m.substAddr b t := by
  unfold XModel.substAddr
  rw [h1]
  cases hn : assoc t m.st.names with
  | some a => rfl
  | none => simp only [h2 hn]

/-- the repaired extraction agrees with the original on the closure of the focus — no guard -/
theorem extractR_agree {m x : XModel} {focus : List Addr} (hwf : WF m) (hreg : RNamesRegistered m)
    (hmem : RangeMembersNotNames m) (hfocus : ∀ a ∈ focus, m.st.range? a = none)
    (hx : extractR m focus = .ok x) :
    Agree (Closure (deps m) focus) (buildCode m) (buildCode x) := by
  obtain ⟨x0, hs0, hfd, hle, hinv, _⟩ := extractR_ok_inv hwf hreg hx
  have hcl := closure_handledR hwf hreg hmem hfocus hfd hle hinv
  have hsub := hinv.sub
  refine ⟨fun a ha => ?_, fun a ha => ?_, fun a ha => ?_⟩
  · simp only [MState.resolve, buildCode_names]
    cases hn : assoc a m.st.names with
    | some t =>
      have hisn : m.isName a = true := by
        simp only [XModel.isName, Bool.or_eq_true]; exact Or.inl (hasKey_true.mpr ⟨_, hn⟩)
      obtain ⟨h1, _⟩ := (hfd a ((hcl a ha).2 hisn)).name (hwf.nameNotCell a hisn).1 _ hn
      rw [hle.name a t h1]
    | none =>
      cases hxn : assoc a x.st.names with
      | none => rfl
      | some t => rw [hsub.name a t hxn] at hn; cases hn
  · simp only [buildCode_cell?]
    cases hm : m.st.cell? a with
    | none =>
      cases hxc : x.st.cell? a with
      | none => simp [CellAgree]
      | some c => rw [hsub.cell a c hxc] at hm; cases hm
    | some c =>
      have hxa := (hcl a ha).1.2 c hm
      rw [hxa]
      simp only [Option.map_some]
      have hform : c.formula.map (substFx x) = c.formula.map (substFx m) := by
        cases hf : c.formula with
        | none => rfl
        | some f =>
          simp only [Option.map_some, Option.some.injEq]
          apply substFx_congr
          intro t ht b
          have htc : t ∈ cellTerms c := by simp only [cellTerms, hf]; exact (mem_terms t f).mpr ht
          have hdone : Done m x [] t := (hinv.cell a c hxa t htc).resolve_right (fun h => by cases h)
          cases hn : assoc t m.st.names with
          | some a' =>
            have hisn : m.isName t = true := by
              simp only [XModel.isName, Bool.or_eq_true]; exact Or.inl (hasKey_true.mpr ⟨_, hn⟩)
            obtain ⟨h1, h2⟩ := hwf.nameNotCell t hisn
            obtain ⟨p, _⟩ := (hdone.2 h1 h2).1 a' hn
            exact substAddr_eq_of_names (by rw [p, hn]) (fun h => by rw [hn] at h; cases h) b
          | none =>
            have hxn : assoc t x.st.names = none := by
              cases hxn : assoc t x.st.names with
              | none => rfl
              | some u => rw [hsub.name t u hxn] at hn; cases hn
            refine substAddr_eq_of_names (by rw [hxn, hn]) (fun _ => ?_) b
            cases hrn : assoc t m.rnames with
            | some rn =>
              have hisn : m.isName t = true := by
                simp only [XModel.isName, Bool.or_eq_true]; exact Or.inr (hasKey_true.mpr ⟨_, hrn⟩)
              obtain ⟨h1, h2⟩ := hwf.nameNotCell t hisn
              exact ((hdone.2 h1 h2).2 hn rn hrn).1
            | none =>
              cases hxr : assoc t x.rnames with
              | none => rfl
              | some u => rw [hsub.rname t u hxr] at hrn; cases hrn
      exact ⟨hform.symm, rfl, fun _ => rfl⟩
  · simp only [buildCode_range?]
    cases hm : m.st.range? a with
    | none =>
      cases hxr : x.st.range? a with
      | none => rfl
      | some r => rw [hsub.range a r hxr] at hm; cases hm
    | some r => rw [(hcl a ha).1.1 r hm]

end XlVerif.Lemmas.C13
