/-
  Lemmas for C13, part 4: the extracted model contains the dependency closure of the focus with identical
  contents and the defined names its formulas use, hence agrees with the original on the closure (after
  `build_code` on both).
-/
import XlVerif.Lemmas.C13Worklist
import XlVerif.Spec.C13
namespace XlVerif.Lemmas.C13
open XlVerif XlVerif.Model.Evaluator XlVerif.Model.C13 XlVerif.Spec.C13

/-! ### the saturation computes the closure -/

section spec
variable {α : Type} [DecidableEq α]

theorem mem_addNew {acc : List α} {b x : α} : x ∈ addNew acc b ↔ x ∈ acc ∨ x = b := by
  unfold addNew
  by_cases h : b ∈ acc
  · simp only [h, if_true]
    constructor
    · exact Or.inl
    · rintro (h1 | h1)
      · exact h1
      · rw [h1]; exact h
  · simp [h]

theorem mem_foldl_addNew {l acc : List α} {x : α} : x ∈ l.foldl addNew acc ↔ x ∈ acc ∨ x ∈ l := by
  induction l generalizing acc with
  | nil => simp
  | cons b rest ih =>
    simp only [List.foldl_cons, ih, mem_addNew, List.mem_cons]
    constructor
    · rintro ((h | h) | h)
      · exact Or.inl h
      · exact Or.inr (Or.inl h)
      · exact Or.inr (Or.inr h)
    · rintro (h | h | h)
      · exact Or.inl (Or.inl h)
      · exact Or.inl (Or.inr h)
      · exact Or.inr h

theorem mem_expand_aux (succ : α → List α) {l acc : List α} {x : α} :
    x ∈ l.foldl (fun acc a => (succ a).foldl addNew acc) acc ↔ x ∈ acc ∨ ∃ a ∈ l, x ∈ succ a := by
  induction l generalizing acc with
  | nil => simp
  | cons b rest ih =>
    simp only [List.foldl_cons, ih, mem_foldl_addNew, List.mem_cons]
    constructor
    · rintro ((h | h) | ⟨a, ha, hx⟩)
      · exact Or.inl h
      · exact Or.inr ⟨b, Or.inl rfl, h⟩
      · exact Or.inr ⟨a, Or.inr ha, hx⟩
    · rintro (h | ⟨a, ha | ha, hx⟩)
      · exact Or.inl (Or.inl h)
      · rw [ha] at hx; exact Or.inl (Or.inr hx)
      · exact Or.inr ⟨a, ha, hx⟩

theorem mem_expand (succ : α → List α) {s : List α} {x : α} :
    x ∈ expand succ s ↔ x ∈ s ∨ ∃ a ∈ s, x ∈ succ a := mem_expand_aux succ

/-- everything the saturation returns lies in the closure -/
theorem closureN_sound (succ : α → List α) (roots : List α) : ∀ (n : Nat) (s : List α),
    (∀ x ∈ s, Closure succ roots x) → ∀ x ∈ closureN succ n s, Closure succ roots x
  | 0, _, h => h
  | n + 1, s, h => by
    apply closureN_sound succ roots n (expand succ s)
    intro x hx
    rcases (mem_expand succ).mp hx with hx | ⟨a, ha, hx⟩
    · exact h x hx
    · exact Closure.step (h a ha) hx

/-- a saturated list that contains the roots contains the whole closure -/
theorem closure_subset_of_saturated (succ : α → List α) (roots s : List α) (hs : saturated succ s = true)
    (hr : ∀ x ∈ roots, x ∈ s) : ∀ x, Closure succ roots x → x ∈ s := by
  intro x hx
  induction hx with
  | root h => exact hr _ h
  | step _ hb ih =>
    simp only [saturated, List.all_eq_true, decide_eq_true_eq] at hs
    exact hs _ ih _ hb

theorem roots_subset_closureN (succ : α → List α) : ∀ (n : Nat) (s : List α), ∀ x ∈ s, x ∈ closureN succ n s
  | 0, _, _, h => h
  | n + 1, s, x, h => roots_subset_closureN succ n (expand succ s) x ((mem_expand succ).mpr (Or.inl h))

end spec

/-! ### defined names of a copy -/

theorem isName_false {x : XModel} {a : Addr} (h : x.isName a = false) :
    assoc a x.st.names = none ∧ assoc a x.rnames = none := by
  simp only [XModel.isName, Bool.or_eq_false_iff] at h
  exact ⟨hasKey_false.mp h.1, hasKey_false.mp h.2⟩

theorem isName_false_of_sub {x m : XModel} (hs : Sub x m) {a : Addr} (h : m.isName a = false) :
    x.isName a = false := by
  obtain ⟨h1, h2⟩ := isName_false h
  simp only [XModel.isName, Bool.or_eq_false_iff]
  constructor
  · apply hasKey_false.mpr
    cases hx : assoc a x.st.names with
    | none => rfl
    | some t => rw [hs.name a t hx] at h1; cases h1
  · apply hasKey_false.mpr
    cases hx : assoc a x.rnames with
    | none => rfl
    | some rn => rw [hs.rname a rn hx] at h2; cases h2

/-! ### the views of the built model -/

@[simp] theorem buildCode_cell? (x : XModel) (a : Addr) :
    (buildCode x).cell? a = (x.st.cell? a).map (substCell x) := by
  simp only [buildCode, MState.cell?]
  exact assoc_map_snd a (substCell x) x.st.cells
@[simp] theorem buildCode_range? (x : XModel) (a : Addr) : (buildCode x).range? a = x.st.range? a := rfl
@[simp] theorem buildCode_resolve (x : XModel) (a : Addr) : (buildCode x).resolve a = x.st.resolve a := rfl
@[simp] theorem buildCode_names (x : XModel) : (buildCode x).names = x.st.names := rfl

/-! ### the dependency graph of an evaluator model, and the general read theorem -/

/-- what the evaluation of `a` on the (built) model `m` looks at: the cell a name is bound to, the references
    of the formula stored at `a`, the members of the range `a` -/
def stDeps (m : MState) (a : Addr) : List Addr :=
  (match assoc a m.names with
   | some t => [t]
   | none => [])
  ++ ((match m.cell? a with
       | some c => cellTerms c
       | none => [])
  ++ (match m.range? a with
      | some r => r.cells.flatten
      | none => []))

theorem closed_stDeps (m : MState) (roots : List Addr) : Closed (Closure (stDeps m) roots) m where
  resolve := fun a ha => by
    simp only [MState.resolve]
    cases hn : assoc a m.names with
    | none => exact ha
    | some t => exact Closure.step ha (by simp [stDeps, hn])
  cell := fun a c f ha hc hf t ht => by
    apply Closure.step ha
    simp only [stDeps, hc, cellTerms, hf, List.mem_append]
    exact Or.inr (Or.inl ((mem_terms t _).mpr ht))
  range := fun a r ha hr row hrow y hy => by
    apply Closure.step ha
    simp only [stDeps, hr, List.mem_append]
    exact Or.inr (Or.inr (List.mem_flatten.mpr ⟨row, hrow, hy⟩))

/-! ### the address a reference token denotes after `build_code` -/

def target (m : XModel) (t : Addr) : Addr :=
  match assoc t m.st.names with
  | some a => a
  | none =>
    match assoc t m.rnames with
    | some rn => rn.key
    | none => t

theorem refs_substAddr (m : XModel) (b : Bool) (t : Addr) : refsFx (m.substAddr b t) = [target m t] := by
  unfold XModel.substAddr target
  cases assoc t m.st.names with
  | some a => simp [refsFx]
  | none =>
    cases assoc t m.rnames with
    | some rn => simp [refsFx]
    | none => cases b <;> simp [refsFx]

mutual
theorem refs_substFx (m : XModel) : ∀ f : Fx, refsFx (substFx m f) = (refsFx f).map (target m)
  | .lit _ => by simp [substFx, refsFx]
  | .ref a => by simp [substFx, refsFx, refs_substAddr]
  | .rng a => by simp [substFx, refsFx, refs_substAddr]
  | .app _ args => by simp only [substFx, refsFx]; exact refs_substList m args
  | .iff a b d => by
    simp only [substFx, refsFx, List.map_append, refs_substFx m a, refs_substFx m b, refs_substFx m d]
  | .sc _ args => by simp only [substFx, refsFx]; exact refs_substList m args
  | .fail _ args => by simp only [substFx, refsFx]; exact refs_substList m args
theorem refs_substList (m : XModel) : ∀ l : List Fx, refsList (substList m l) = (refsList l).map (target m)
  | [] => by simp [substList, refsList]
  | a :: rest => by
    simp only [substList, refsList, List.map_append, refs_substFx m a, refs_substList m rest]
end

mutual
theorem substFx_congr (x m : XModel) : ∀ f : Fx, (∀ t ∈ refsFx f, ∀ b, x.substAddr b t = m.substAddr b t) →
    substFx x f = substFx m f
  | .lit _, _ => by simp [substFx]
  | .ref a, h => by simp only [substFx]; exact h a (by simp [refsFx]) false
  | .rng a, h => by simp only [substFx]; exact h a (by simp [refsFx]) true
  | .app g args, h => by
    simp only [substFx]; rw [substList_congr x m args (by simpa [refsFx] using h)]
  | .iff a b d, h => by
    simp only [substFx]
    rw [substFx_congr x m a (fun t ht => h t (by simp [refsFx, ht])),
      substFx_congr x m b (fun t ht => h t (by simp [refsFx, ht])),
      substFx_congr x m d (fun t ht => h t (by simp [refsFx, ht]))]
  | .sc g args, h => by
    simp only [substFx]; rw [substList_congr x m args (by simpa [refsFx] using h)]
  | .fail g args, h => by
    simp only [substFx]; rw [substList_congr x m args (by simpa [refsFx] using h)]
theorem substList_congr (x m : XModel) : ∀ l : List Fx,
    (∀ t ∈ refsList l, ∀ b, x.substAddr b t = m.substAddr b t) → substList x l = substList m l
  | [], _ => by simp [substList]
  | a :: rest, h => by
    simp only [substList]
    rw [substFx_congr x m a (fun t ht => h t (by simp [refsList, ht])),
      substList_congr x m rest (fun t ht => h t (by simp [refsList, ht]))]
end

/-! ### closedness of the closure -/

theorem closed_closure (m : XModel) (focus : List Addr) : Closed (Closure (deps m) focus) (buildCode m) where
  resolve := fun a ha => by
    simp only [MState.resolve, buildCode_names]
    cases hn : assoc a m.st.names with
    | none => exact ha
    | some t => exact Closure.step ha (by simp [deps, hn])
  cell := fun a c' f' ha hc hf t ht => by
    simp only [buildCode_cell?] at hc
    cases hm : m.st.cell? a with
    | none => rw [hm] at hc; cases hc
    | some c =>
      rw [hm] at hc
      simp only [Option.map_some, Option.some.injEq] at hc
      subst hc
      simp only [substCell] at hf
      cases hcf : c.formula with
      | none => rw [hcf] at hf; cases hf
      | some f =>
        rw [hcf] at hf
        simp only [Option.map_some, Option.some.injEq] at hf
        subst hf
        apply Closure.step ha
        simp only [deps, hm, hcf, List.mem_append]
        exact Or.inr (Or.inl ((mem_terms t _).mpr ht))
  range := fun a r ha hr row hrow y hy => by
    simp only [buildCode_range?] at hr
    apply Closure.step ha
    simp only [deps, hr, List.mem_append]
    exact Or.inr (Or.inr (List.mem_flatten.mpr ⟨row, hrow, hy⟩))

/-! ### the extraction contains the closure and agrees with the original on it -/

theorem init_inv {m x0 : XModel} (hrc : RangeNotCell m) (hs : Sub x0 m) (hr : x0.st.ranges = []) :
    Inv m x0 (initTerms x0).reverse where
  sub := hs
  range := fun k r hk => by simp [MState.range?, hr, assoc] at hk
  cell := fun a c hc t ht => by
    cases hk : hasKey t x0.st.cells with
    | true =>
      left
      obtain ⟨c', hc'⟩ := hasKey_true.mp hk
      have hm := hs.cell t c' hc'
      refine ⟨⟨fun r hr' => ?_, fun c'' hc'' => ?_⟩, fun h1 _ => ?_⟩
      · rw [hrc t r hr'] at hm; cases hm
      · rw [hm] at hc''; simp only [Option.some.injEq] at hc''; subst hc''; exact hc'
      · rw [hm] at h1; cases h1
    | false =>
      right
      apply List.mem_reverse.mpr
      simp only [initTerms, List.mem_flatMap, List.mem_filter]
      exact ⟨(a, c), assoc_mem hc, ht, by simp [hk]⟩

theorem extract_ok_inv {m x : XModel} {focus : List Addr} (hwf : WF m)
    (hx : extract m focus = .ok x) :
    ∃ x0, Sub x0 m ∧ (∀ a ∈ focus, FocusDone m x0 a) ∧ Le x0 x ∧ Inv m x [] ∧ x.formulae = [] := by
  unfold extract at hx
  cases h0 : focusPhase m XModel.empty focus with
  | error e => rw [h0] at hx; cases hx
  | ok x0 =>
    rw [h0] at hx
    simp only [Except.ok.injEq] at hx
    obtain ⟨g, hfd, hr, hf⟩ := focusPhase_ok focus _ _ h0 (sub_empty m)
    have hi := init_inv hwf.rangeNotCell g.sub (by rw [hr]; rfl)
    obtain ⟨i, l, n3⟩ := worklist_inv hwf.rangeNotCell (workFuel m (initTerms x0).reverse) x0 _ hi
    have hfin := worklist_finishes hwf (workFuel m (initTerms x0).reverse) x0 (initTerms x0).reverse
      g.sub (mu_le_workFuel m x0 _)
    rw [hfin] at i
    rw [hx] at i l n3
    exact ⟨x0, g.sub, hfd, l, i, by rw [n3, hf]; rfl⟩

/-- every address of the closure is copied; a defined name occurs in the closure only as a focused item -/
theorem closure_handled {m x0 x : XModel} {focus : List Addr} (hwf : WF m)
    (hfocus : ∀ a ∈ focus, m.st.range? a = none)
    (hfd : ∀ a ∈ focus, FocusDone m x0 a) (hle : Le x0 x) (hinv : Inv m x []) :
    ∀ a, Closure (deps m) focus a → Handled m x a ∧ (m.isName a = true → a ∈ focus) := by
  intro a ha
  induction ha with
  | root h =>
    rename_i a
    refine ⟨⟨fun r hr => ?_, fun c hc => hle.cell a c ((hfd a h).cell c hc)⟩, fun _ => h⟩
    rw [hfocus a h] at hr; cases hr
  | step hcl hb ih =>
    rename_i a b
    obtain ⟨hha, hna⟩ := ih
    have copied : ∀ t c, m.st.cell? t = some c → x0.st.cell? t = some c → Handled m x t := by
      intro t c hc hx
      refine ⟨fun r hr => ?_, fun c' hc' => ?_⟩
      · rw [hwf.rangeNotCell t r hr] at hc; cases hc
      · rw [hc] at hc'; simp only [Option.some.injEq] at hc'; subst hc'
        exact hle.cell t c hx
    -- a term / member `u` that is done: what it denotes after `build_code` is handled and is not a name
    have resolved : ∀ u, Done m x [] u ∨ u ∈ ([] : List Addr) →
        Handled m x (target m u) ∧ (m.isName (target m u) = true → target m u ∈ focus) := by
      intro u hu
      rcases hu with hu | hu
      · unfold target
        cases hn : assoc u m.st.names with
        | some a' =>
          have hisn : m.isName u = true := by
            simp only [XModel.isName, Bool.or_eq_true]; exact Or.inl (hasKey_true.mpr ⟨_, hn⟩)
          obtain ⟨h1, h2⟩ := hwf.nameNotCell u hisn
          obtain ⟨_, q⟩ := (hu.2 h1 h2).1 a' hn
          simp only
          refine ⟨q.resolve_right (fun h => by cases h), fun h => ?_⟩
          rw [hwf.targetNotName u a' hn] at h; cases h
        | none =>
          simp only
          cases hrn : assoc u m.rnames with
          | some rn =>
            have hisn : m.isName u = true := by
              simp only [XModel.isName, Bool.or_eq_true]; exact Or.inr (hasKey_true.mpr ⟨_, hrn⟩)
            obtain ⟨h1, h2⟩ := hwf.nameNotCell u hisn
            obtain ⟨_, q⟩ := (hu.2 h1 h2).2 hn rn hrn
            simp only
            refine ⟨q.resolve_right (fun h => by cases h), fun h => ?_⟩
            rw [key_not_name hwf hrn] at h; cases h
          | none =>
            simp only
            refine ⟨hu.1, fun h => ?_⟩
            simp only [XModel.isName, hasKey, hn, hrn] at h
            cases h
      · cases hu
    simp only [deps, List.mem_append] at hb
    rcases hb with hb | hb | hb
    · -- through a focused defined name
      cases hn : assoc a m.st.names with
      | some t =>
        rw [hn] at hb
        simp only [List.mem_singleton] at hb
        subst hb
        have hisn : m.isName a = true := by
          simp only [XModel.isName, Bool.or_eq_true]; exact Or.inl (hasKey_true.mpr ⟨_, hn⟩)
        obtain ⟨_, c, hc, hx⟩ := (hfd a (hna hisn)).name (hwf.nameNotCell a hisn).1 _ hn
        refine ⟨copied _ c hc hx, fun h => ?_⟩
        rw [hwf.targetNotName a _ hn] at h; cases h
      | none =>
        rw [hn] at hb
        simp only at hb
        cases hrn : assoc a m.rnames with
        | none => rw [hrn] at hb; cases hb
        | some rn =>
          rw [hrn] at hb
          simp only at hb
          have hisn : m.isName a = true := by
            simp only [XModel.isName, Bool.or_eq_true]; exact Or.inr (hasKey_true.mpr ⟨_, hrn⟩)
          obtain ⟨_, hall⟩ := (hfd a (hna hisn)).rname (hwf.nameNotCell a hisn).1 hn rn hrn
          refine ⟨⟨fun r hr => ?_, fun c hc => hle.cell b c (hall b hb c hc)⟩, fun h => ?_⟩
          · rw [hwf.memberNotRange a rn hrn b hb] at hr; cases hr
          · rw [hwf.memberNotName a rn hrn b hb] at h; cases h
    · -- through a formula: `b` is what a term of the source formula denotes
      cases hc : m.st.cell? a with
      | none => rw [hc] at hb; cases hb
      | some c =>
        rw [hc] at hb
        simp only at hb
        cases hf : c.formula with
        | none => rw [hf] at hb; cases hb
        | some f =>
          rw [hf] at hb
          simp only at hb
          have hb' := (mem_terms b _).mp hb
          rw [refs_substFx, List.mem_map] at hb'
          obtain ⟨u, hu, rfl⟩ := hb'
          have hut : u ∈ cellTerms c := by simp only [cellTerms, hf]; exact (mem_terms u f).mpr hu
          exact resolved u (hinv.cell a c (hha.2 c hc) u hut)
    · -- through a range: members are cell addresses, not names
      cases hr : m.st.range? a with
      | none => rw [hr] at hb; cases hb
      | some r =>
        rw [hr] at hb
        simp only at hb
        refine ⟨?_, fun h => ?_⟩
        · rcases hinv.range a r (hha.1 r hr) b hb with h | h
          · exact h.1
          · cases h
        · rw [hwf.rangeMemberNotName a r hr b hb] at h; cases h

theorem substAddr_eq_of_names {x m : XModel} {t : Addr} (h1 : assoc t x.st.names = assoc t m.st.names)
    (h2 : assoc t m.st.names = none → assoc t x.rnames = assoc t m.rnames) (b : Bool) :
    x.substAddr b t = m.substAddr b t := by
  unfold XModel.substAddr
  rw [h1]
  cases hn : assoc t m.st.names with
  | some a => rfl
  | none => simp only [h2 hn]

/-- the extraction agrees with the original on the closure of the focus — no guard -/
theorem extract_agree {m x : XModel} {focus : List Addr} (hwf : WF m)
    (hfocus : ∀ a ∈ focus, m.st.range? a = none)
    (hx : extract m focus = .ok x) :
    Agree (Closure (deps m) focus) (buildCode m) (buildCode x) := by
  obtain ⟨x0, hs0, hfd, hle, hinv, _⟩ := extract_ok_inv hwf hx
  have hcl := closure_handled hwf hfocus hfd hle hinv
  have hsub := hinv.sub
  refine ⟨fun a ha => ?_, fun a ha => ?_, fun a ha => ?_⟩
  · simp only [MState.resolve, buildCode_names]
    cases hn : assoc a m.st.names with
    | some t =>
      have hisn : m.isName a = true := by
        simp only [XModel.isName, Bool.or_eq_true]; exact Or.inl (hasKey_true.mpr ⟨_, hn⟩)
      obtain ⟨h1, _⟩ := (hfd a ((hcl a ha).2 hisn)).name (hwf.nameNotCell a hisn).1 _ hn
      rw [hle.name a t h1]
    | none =>
      cases hxn : assoc a x.st.names with
      | none => rfl
      | some t => rw [hsub.name a t hxn] at hn; cases hn
  · simp only [buildCode_cell?]
    cases hm : m.st.cell? a with
    | none =>
      cases hxc : x.st.cell? a with
      | none => simp [CellAgree]
      | some c => rw [hsub.cell a c hxc] at hm; cases hm
    | some c =>
      have hxa := (hcl a ha).1.2 c hm
      rw [hxa]
      simp only [Option.map_some]
      have hform : c.formula.map (substFx x) = c.formula.map (substFx m) := by
        cases hf : c.formula with
        | none => rfl
        | some f =>
          simp only [Option.map_some, Option.some.injEq]
          apply substFx_congr
          intro t ht b
          have htc : t ∈ cellTerms c := by simp only [cellTerms, hf]; exact (mem_terms t f).mpr ht
          have hdone : Done m x [] t := (hinv.cell a c hxa t htc).resolve_right (fun h => by cases h)
          cases hn : assoc t m.st.names with
          | some a' =>
            have hisn : m.isName t = true := by
              simp only [XModel.isName, Bool.or_eq_true]; exact Or.inl (hasKey_true.mpr ⟨_, hn⟩)
            obtain ⟨h1, h2⟩ := hwf.nameNotCell t hisn
            obtain ⟨p, _⟩ := (hdone.2 h1 h2).1 a' hn
            exact substAddr_eq_of_names (by rw [p, hn]) (fun h => by rw [hn] at h; cases h) b
          | none =>
            have hxn : assoc t x.st.names = none := by
              cases hxn : assoc t x.st.names with
              | none => rfl
              | some u => rw [hsub.name t u hxn] at hn; cases hn
            refine substAddr_eq_of_names (by rw [hxn, hn]) (fun _ => ?_) b
            cases hrn : assoc t m.rnames with
            | some rn =>
              have hisn : m.isName t = true := by
                simp only [XModel.isName, Bool.or_eq_true]; exact Or.inr (hasKey_true.mpr ⟨_, hrn⟩)
              obtain ⟨h1, h2⟩ := hwf.nameNotCell t hisn
              exact ((hdone.2 h1 h2).2 hn rn hrn).1
            | none =>
              cases hxr : assoc t x.rnames with
              | none => rfl
              | some u => rw [hsub.rname t u hxr] at hrn; cases hrn
      exact ⟨hform.symm, rfl, fun _ => rfl⟩
  · simp only [buildCode_range?]
    cases hm : m.st.range? a with
    | none =>
      cases hxr : x.st.range? a with
      | none => rfl
      | some r => rw [hsub.range a r hxr] at hm; cases hm
    | some r => rw [(hcl a ha).1.1 r hm]

end XlVerif.Lemmas.C13
